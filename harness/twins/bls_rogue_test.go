package twins

// BLS12-381 rogue-key helper for Byzantine nodes in the world harness (helpers only, no tests).
// Injected by /verif/bin/check with `go test -overlay`; never part of /repo.
//
// THE ATTACK.  A BLS aggregate over ONE message m for participants P is verified as
// e(G, sig) == e(sum_{i in P} pk_i, H(m)).  A Byzantine replica that may choose its public key after
// seeing the victims' keys registers   pk_byz = x*G - sum_{v in victims} pk_v   for a secret x.  Then
// sum_{i in victims + byz} pk_i = x*G, so  sig = x*H(m)  satisfies the equation for the participant set
// "victims + byz" over ANY message although no victim signed anything.  The defence is the proof of
// possession (PoP): a signature over the compressed public key made with the matching secret key,
// carried in ReplicaInfo.Metadata["bls12-pop-bin"] and checked by bls12Base.checkPop for every key except
// the verifier's own.  The Byzantine replica does not know the discrete log of pk_byz, so it cannot
// produce a valid PoP for it.
//
// WHAT THE BYZANTINE REPLICA MUST PRESENT.  Register it at every honest configuration with
//
//	cfg.AddReplica(&hotstuff.ReplicaInfo{ID: byzID, PubKey: pub, Metadata: <a victim's ConnectionMetadata()>})
//
// i.e. REPLAY a victim's well-formed PoP (e.g. replica 1's).  On the unchanged code checkPop runs
// popVerify(pub, pop_1), which fails (pop_1 proves possession of pk_1, not of pub), publicKey(byzID)
// returns an error and every aggregate naming byzID is rejected — forever, because only successful checks
// are remembered per (proof bytes ++ key bytes).  Other ways to be rejected: no "bls12-pop-bin" entry at all
// (missing proof), or any other valid G2 point as proof.  A defect that makes the PoP check pass for the
// rogue key (cache keyed by the proof alone after the victim's genuine key was checked once, failed
// verdicts cached as passed, check skipped, ...) lets forge() below produce certificates that verify.
//
// WHOSE PoP TO REPLAY.  A verifier never checks (hence never caches) the PoP of its OWN id.  If the
// defect under test needs the replayed proof to have been checked successfully for its genuine owner
// first, register the Byzantine replica at the configuration of replica v with the metadata of a
// victim OTHER than v (e.g. replica 1's everywhere except at replica 1, where replica 2's is used).
// Within one Verify call the participants' keys are fetched in ascending id order, so with
// byzID larger than the victim's id the victim's genuine (key, proof) pair is checked just before the
// rogue one even if nothing was verified earlier.
//
// CONSTRAINTS.  The forged aggregate verifies (given the PoP defect) only for a participant set that is
// EXACTLY the victims plus the Byzantine id — all of them, no others — and for one common message
// (QC: Block.ToBytes(); TC: View.ToBytes()).  It does not work for batch verification of distinct
// messages (AggregateQC signature).  With two or more participants Verify takes the
// fastAggregateVerify path used here; pick len(victims)+1 >= QuorumSize(n) so that the quorum count
// passes.  The verifier never checks a PoP for its own id, so a victim that verifies still uses its own
// genuine key (which is part of the sum) — that is fine.

import (
	"crypto/rand"
	"fmt"
	"math/big"

	bls12 "github.com/kilic/bls12-381"
	"github.com/relab/hotstuff"
	"github.com/relab/hotstuff/security/crypto"
)

// domain separation tag of security/crypto/bls12.go (unexported there)
var wRogueDomain = []byte("BLS_SIG_BLS12381G2_XMD:SHA-256_SSWU_RO_POP_")

// the order r of G1 / G2
var wRogueOrder, _ = new(big.Int).SetString("73eda753299d7d483339d80809a1d80553bda402fffe5bfeffffffff00000001", 16)

// wRogue builds a rogue BLS12 key for a Byzantine replica: pub = x*G - sum(victims' public keys).
// forge(msg, ids) returns the aggregate-signature object (as the code's BLS12 type, participants = ids, which must be
// exactly the victims' ids plus the Byzantine id) equal to x*H(msg), i.e. what verifies under the aggregated keys.
func wRogue(victims []hotstuff.PublicKey) (pub hotstuff.PublicKey, forge func(msg []byte, ids []hotstuff.ID) (hotstuff.QuorumSignature, error), err error) {
	if len(victims) == 0 {
		return nil, nil, fmt.Errorf("wRogue: no victims")
	}
	g1 := bls12.NewG1()
	sum := g1.Zero()
	for i, v := range victims {
		pk, ok := v.(*crypto.BLS12PublicKey)
		if !ok || pk == nil {
			return nil, nil, fmt.Errorf("wRogue: victim %d has public key of type %T, want *crypto.BLS12PublicKey", i, v)
		}
		p, err := g1.FromCompressed(pk.ToBytes())
		if err != nil {
			return nil, nil, fmt.Errorf("wRogue: victim %d: %w", i, err)
		}
		g1.Add(sum, sum, p)
	}
	var x *big.Int
	for x == nil || x.Sign() == 0 {
		if x, err = rand.Int(rand.Reader, wRogueOrder); err != nil {
			return nil, nil, err
		}
	}
	point := g1.New()
	g1.MulScalarBig(point, g1.One(), x)
	g1.Sub(point, point, sum)
	rogue := &crypto.BLS12PublicKey{}
	if err := rogue.FromBytes(g1.ToCompressed(point)); err != nil {
		return nil, nil, err
	}
	nVictims := len(victims)
	forge = func(msg []byte, ids []hotstuff.ID) (hotstuff.QuorumSignature, error) {
		if len(ids) != nVictims+1 {
			return nil, fmt.Errorf("wRogue.forge: %d participants given, need exactly the %d victims plus the Byzantine replica", len(ids), nVictims)
		}
		g2 := bls12.NewG2()
		h, err := g2.HashToCurve(msg, wRogueDomain)
		if err != nil {
			return nil, err
		}
		g2.MulScalarBig(h, h, x)
		var bf crypto.Bitfield
		for _, id := range ids {
			if id == 0 {
				return nil, fmt.Errorf("wRogue.forge: id 0")
			}
			bf.Add(id)
		}
		if bf.Len() != len(ids) {
			return nil, fmt.Errorf("wRogue.forge: repeated participant id")
		}
		return crypto.RestoreBLS12AggregateSignature(g2.ToCompressed(h), bf)
	}
	return rogue, forge, nil
}

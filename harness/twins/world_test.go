package twins

// World harness shared by C01 / C05: real consensus stacks (wired as twins/node.go does) with
// a recording signing primitive, a controllable network (random delivery order, delay,
// duplication, loss, partitions), twins, and scripted Byzantine nodes that craft messages honest
// code never sends. Only test files are added through `go test -overlay`.

import (
	"context"
	"fmt"
	"math/rand"
	"reflect"
	"sort"
	"time"
	"unsafe"

	"github.com/relab/hotstuff"
	"github.com/relab/hotstuff/core"
	"github.com/relab/hotstuff/core/eventloop"
	"github.com/relab/hotstuff/core/logging"
	"github.com/relab/hotstuff/internal/proto/clientpb"
	"github.com/relab/hotstuff/protocol"
	"github.com/relab/hotstuff/protocol/comm"
	"github.com/relab/hotstuff/protocol/consensus"
	"github.com/relab/hotstuff/protocol/synchronizer"
	"github.com/relab/hotstuff/protocol/votingmachine"
	"github.com/relab/hotstuff/security/blockchain"
	"github.com/relab/hotstuff/security/cert"
	"github.com/relab/hotstuff/security/crypto"
	"github.com/relab/hotstuff/security/crypto/keygen"
	"github.com/relab/hotstuff/wiring"
)

// ---- recording signer ----

type wSignRec struct {
	node NodeID
	msg  []byte
}

type wRecBase struct {
	crypto.Base
	w    *wWorld
	node NodeID
}

func (b *wRecBase) Sign(message []byte) (hotstuff.QuorumSignature, error) {
	sig, err := b.Base.Sign(message)
	if err == nil {
		b.w.signLog = append(b.w.signLog, wSignRec{node: b.node, msg: append([]byte(nil), message...)})
	}
	return sig, err
}

// ---- leader schedule ----

type wLeaders []hotstuff.ID

func (l wLeaders) GetLeader(v hotstuff.View) hotstuff.ID {
	i := int(v) - 1
	if i >= 0 && i < len(l) {
		return l[i]
	}
	if len(l) == 0 {
		return 0
	}
	return l[int(v)%len(l)]
}

// ---- nodes ----

type wNode struct {
	id         NodeID
	byz        bool // scripted Byzantine: never runs honest handlers
	twin       bool // one of two honest-code nodes sharing a replica id and key
	config     *core.RuntimeConfig
	eventLoop  *eventloop.EventLoop
	blockchain *blockchain.Blockchain
	auth       *cert.Authority
	viewStates *protocol.ViewStates
	voter      *consensus.Voter
	proposer   *consensus.Proposer
	sync       *synchronizer.Synchronizer
	rules      consensus.Ruleset
	cmdCache   *clientpb.CommandCache
	commits    []*hotstuff.Block
	viewChg    []hotstuff.ViewChangeEvent
	// Byzantine knowledge
	votesSeen map[hotstuff.Hash][]hotstuff.PartialCert
}

type wMsg struct {
	from, to NodeID
	payload  any
	sentStep int
}

type wWorld struct {
	rng       *rand.Rand
	consensus string
	n         int
	nodes     map[NodeID]*wNode
	order     []NodeID // deterministic iteration order
	byID      map[hotstuff.ID][]*wNode
	leaders   wLeaders
	timer     time.Duration
	noPreload bool
	pending   []wMsg
	signLog   []wSignRec
	partition map[NodeID]int // partition block of each node; equal = connected
	step      int
	blocks    map[hotstuff.Hash]*hotstuff.Block // every block that ever existed
	blockSeq  []*hotstuff.Block
	qcs       []hotstuff.QuorumCert // certificates known to the Byzantine coalition
	dropProb  float64
	dupProb   float64
	withhold  bool // Byzantine nodes do not serve block fetches
	panics    []string
	logbuf    *nullWriter
	// fast-hotstuff bookkeeping
	aggOf        map[hotstuff.Hash]*hotstuff.AggregateQC // aggregate QC carried by the proposal of a block
	timeoutIdx   map[string]wTimeoutInfo                 // bytes signed as MsgSignature -> (view, reported QC block)
	aggqcs       []hotstuff.AggregateQC                  // aggregate QCs known to the Byzantine coalition
	timeoutsSeen map[hotstuff.View][]hotstuff.TimeoutMsg
	crashed      map[NodeID]bool                        // crashed or silent replicas: send and receive nothing
	fetchFail    float64                                // probability that a block fetch fails (lost request/reply)
	fetchDeny    func(req NodeID, h hotstuff.Hash) bool // scripted fetch failures
	sendFail     float64                                // probability that Vote / NewView report a send error (message lost)
	sendDeny     func(from NodeID, payload any) bool    // scripted send failures
}

type wTimeoutInfo struct {
	view hotstuff.View
	qc   hotstuff.Hash
}

func (w *wWorld) regProposal(p *hotstuff.ProposeMsg) {
	w.regBlock(p.Block)
	if p.AggregateQC != nil {
		if _, ok := w.aggOf[p.Block.Hash()]; !ok {
			w.aggOf[p.Block.Hash()] = p.AggregateQC
		}
	}
}

func (w *wWorld) regTimeout(m hotstuff.TimeoutMsg) {
	if m.MsgSignature == nil {
		return
	}
	var h hotstuff.Hash
	if qc, ok := m.SyncInfo.QC(); ok {
		h = qc.BlockHash()
	}
	w.timeoutIdx[string(m.ToBytes())] = wTimeoutInfo{view: m.View, qc: h}
}

type nullWriter struct{}

func (nullWriter) Write(p []byte) (int, error) { return len(p), nil }

func (w *wWorld) regBlock(b *hotstuff.Block) bool {
	if b == nil {
		return false
	}
	if _, ok := w.blocks[b.Hash()]; ok {
		return false
	}
	w.blocks[b.Hash()] = b
	w.blockSeq = append(w.blockSeq, b)
	return true
}

// ---- sender ----

type wSender struct {
	w    *wWorld
	node *wNode
	sub  []hotstuff.ID
}

func (s *wSender) connected(to NodeID) bool {
	return s.w.partition[s.node.id] == s.w.partition[to]
}

func (s *wSender) send(id hotstuff.ID, payload any) {
	for _, nd := range s.w.byID[id] {
		if nd.id == s.node.id || s.w.crashed[nd.id] || s.w.crashed[s.node.id] {
			continue
		}
		if !s.connected(nd.id) || s.w.rng.Float64() < s.w.dropProb {
			continue
		}
		s.w.pending = append(s.w.pending, wMsg{from: s.node.id, to: nd.id, payload: payload, sentStep: s.w.step})
		if s.w.rng.Float64() < s.w.dupProb {
			s.w.pending = append(s.w.pending, wMsg{from: s.node.id, to: nd.id, payload: payload, sentStep: s.w.step})
		}
	}
}

func (s *wSender) broadcast(payload any) {
	ids := make([]int, 0, len(s.w.byID))
	for id := range s.w.byID {
		ids = append(ids, int(id))
	}
	sort.Ints(ids)
	for _, id := range ids {
		if len(s.sub) > 0 {
			ok := false
			for _, x := range s.sub {
				if x == hotstuff.ID(id) {
					ok = true
				}
			}
			if !ok {
				continue
			}
		}
		s.send(hotstuff.ID(id), payload)
	}
}

func (s *wSender) NewView(id hotstuff.ID, si hotstuff.SyncInfo) error {
	if _, ok := s.w.byID[id]; !ok {
		return fmt.Errorf("replica %d not found", id)
	}
	msg := hotstuff.NewViewMsg{ID: s.node.id.ReplicaID, SyncInfo: si, FromNetwork: true}
	if (s.w.sendDeny != nil && s.w.sendDeny(s.node.id, msg)) || (s.w.sendFail > 0 && s.w.rng.Float64() < s.w.sendFail) {
		// an RPC error does not tell whether the message got through: half of them did
		if s.w.rng.Intn(2) == 0 {
			s.send(id, msg)
		}
		return fmt.Errorf("injected send failure")
	}
	s.send(id, msg)
	return nil
}

func (s *wSender) Vote(id hotstuff.ID, pc hotstuff.PartialCert) error {
	if _, ok := s.w.byID[id]; !ok {
		return fmt.Errorf("replica %d not found", id)
	}
	msg := hotstuff.VoteMsg{ID: s.node.id.ReplicaID, PartialCert: pc}
	if (s.w.sendDeny != nil && s.w.sendDeny(s.node.id, msg)) || (s.w.sendFail > 0 && s.w.rng.Float64() < s.w.sendFail) {
		// an RPC error does not tell whether the message got through: half of them did
		if s.w.rng.Intn(2) == 0 {
			s.send(id, msg)
		}
		return fmt.Errorf("injected send failure")
	}
	s.send(id, msg)
	return nil
}

func (s *wSender) Timeout(msg hotstuff.TimeoutMsg) {
	s.w.regTimeout(msg)
	s.broadcast(msg)
}

func (s *wSender) Propose(p *hotstuff.ProposeMsg) {
	s.w.regProposal(p)
	s.broadcast(*p)
}

func (s *wSender) RequestBlock(_ context.Context, h hotstuff.Hash) (*hotstuff.Block, bool) {
	if s.w.fetchDeny != nil && s.w.fetchDeny(s.node.id, h) {
		return nil, false
	}
	if s.w.fetchFail > 0 && s.w.rng.Float64() < s.w.fetchFail {
		return nil, false
	}
	for _, id := range s.w.order {
		nd := s.w.nodes[id]
		if nd.id == s.node.id || !s.connected(nd.id) || s.w.crashed[nd.id] {
			continue
		}
		if nd.byz && s.w.withhold {
			continue
		}
		if b, ok := nd.blockchain.LocalGet(h); ok {
			return b, true
		}
	}
	return nil, false
}

func (s *wSender) Sub(ids []hotstuff.ID) (core.Sender, error) {
	return &wSender{w: s.w, node: s.node, sub: ids}, nil
}

var _ core.Sender = (*wSender)(nil)

// ---- construction ----

type wSpec struct {
	consensus string
	n         int
	twins     []hotstuff.ID // replica ids that get a twin
	byz       []hotstuff.ID // replica ids that are scripted Byzantine
	leaders   wLeaders
	seed      int64
	dropProb  float64
	dupProb   float64
	withhold  bool
	cache     uint
	fetchFail float64
	sendFail  float64
	crypto    string // signature scheme: ecdsa (default), eddsa, bls12
	timer     time.Duration // view timer of the real synchronizer (default one hour: the scripts fire TimeoutEvents themselves)
	noPreload bool          // leave the command caches empty: the scenario supplies commands while it runs
}

func newWorld(spec wSpec) (*wWorld, error) {
	w := &wWorld{
		rng: rand.New(rand.NewSource(spec.seed)), consensus: spec.consensus, n: spec.n,
		nodes: map[NodeID]*wNode{}, byID: map[hotstuff.ID][]*wNode{}, leaders: spec.leaders,
		partition: map[NodeID]int{}, blocks: map[hotstuff.Hash]*hotstuff.Block{},
		dropProb: spec.dropProb, dupProb: spec.dupProb, withhold: spec.withhold,
		aggOf: map[hotstuff.Hash]*hotstuff.AggregateQC{}, timeoutIdx: map[string]wTimeoutInfo{},
		timeoutsSeen: map[hotstuff.View][]hotstuff.TimeoutMsg{}, crashed: map[NodeID]bool{}, fetchFail: spec.fetchFail, sendFail: spec.sendFail,
	}
	w.noPreload = spec.noPreload
	w.timer = spec.timer
	if w.timer == 0 {
		w.timer = time.Hour
	}
	w.regBlock(hotstuff.GetGenesis())
	isIn := func(l []hotstuff.ID, x hotstuff.ID) bool {
		for _, y := range l {
			if y == x {
				return true
			}
		}
		return false
	}
	scheme := spec.crypto
	if scheme == "" {
		scheme = crypto.NameECDSA
	}
	keys := map[hotstuff.ID]hotstuff.PrivateKey{}
	var ids []NodeID
	for i := 1; i <= spec.n; i++ {
		id := hotstuff.ID(i)
		var k hotstuff.PrivateKey
		var err error
		switch scheme {
		case crypto.NameEDDSA:
			_, k, err = keygen.GenerateED25519Key()
		case crypto.NameBLS12:
			k, err = crypto.GenerateBLS12PrivateKey()
		default:
			k, err = keygen.GenerateECDSAPrivateKey()
		}
		if err != nil {
			return nil, err
		}
		keys[id] = k
		ids = append(ids, NodeID{ReplicaID: id, TwinID: 0})
		if isIn(spec.twins, id) {
			ids = append(ids, NodeID{ReplicaID: id, TwinID: 1})
		}
	}
	w.order = ids
	for _, nid := range ids {
		nd, err := w.newNode(nid, keys[nid.ReplicaID], scheme, isIn(spec.byz, nid.ReplicaID), isIn(spec.twins, nid.ReplicaID), spec.cache)
		if err != nil {
			return nil, err
		}
		w.nodes[nid] = nd
		w.byID[nid.ReplicaID] = append(w.byID[nid.ReplicaID], nd)
	}
	for _, nd := range w.nodes {
		for i := 1; i <= spec.n; i++ {
			id := hotstuff.ID(i)
			// connection metadata carries e.g. the BLS proof of possession of that replica
			nd.config.AddReplica(&hotstuff.ReplicaInfo{ID: id, PubKey: keys[id].Public(), Metadata: w.byID[id][0].config.ConnectionMetadata()})
		}
	}
	return w, nil
}

func (w *wWorld) newNode(nid NodeID, pk hotstuff.PrivateKey, scheme string, byz, twin bool, cache uint) (*wNode, error) {
	opts := []core.RuntimeOption{core.WithSyncVerification()}
	if cache > 0 {
		opts = append(opts, core.WithCache(cache))
	}
	if w.consensus == "fasthotstuff" || w.consensus == nameVulnerableFHS {
		opts = append(opts, core.WithAggregateQC())
	}
	nd := &wNode{id: nid, byz: byz, twin: twin, votesSeen: map[hotstuff.Hash][]hotstuff.PartialCert{}}
	nd.config = core.NewRuntimeConfig(nid.ReplicaID, pk, opts...)
	nd.cmdCache = clientpb.NewCommandCache(1)
	logger := logging.NewWithDest(nullWriter{}, fmt.Sprintf("r%dn%d", nid.ReplicaID, nid.TwinID))
	nd.eventLoop = eventloop.New(logger, 1000)
	sender := &wSender{w: w, node: nd}
	base, err := crypto.New(nd.config, scheme)
	if err != nil {
		return nil, err
	}
	rec := &wRecBase{Base: base, w: w, node: nid}
	sec := wiring.NewSecurity(nd.eventLoop, logger, nd.config, sender, rec)
	nd.blockchain = sec.Blockchain()
	nd.auth = sec.Authority()
	rules, err := newTwinsConsensusRules(logger, nd.config, nd.blockchain, w.consensus)
	if err != nil {
		return nil, err
	}
	nd.rules = rules
	nd.viewStates, err = protocol.NewViewStates(nd.blockchain, nd.auth)
	if err != nil {
		return nil, err
	}
	committer := consensus.NewCommitter(nd.eventLoop, logger, nd.blockchain, nd.viewStates, rules)
	vm := votingmachine.New(logger, nd.eventLoop, nd.config, nd.blockchain, nd.auth, nd.viewStates)
	cl := comm.NewClique(nd.config, vm, w.leaders, sender)
	nd.voter = consensus.NewVoter(nd.config, w.leaders, rules, cl, nd.auth, committer)
	nd.proposer = consensus.NewProposer(nd.eventLoop, nd.config, nd.blockchain, nd.viewStates, rules, cl, nd.voter, nd.cmdCache, committer)
	nd.sync = synchronizer.New(nd.eventLoop, logger, nd.config, nd.auth, w.leaders,
		synchronizer.NewFixedDuration(w.timer), synchronizer.NewTimeoutRuler(nd.config, nd.auth),
		nd.proposer, nd.voter, nd.viewStates, sender)
	// observed synchronously: a catch-up commit of several hundred blocks adds 3 events per block and the
	// bounded queue (legitimately, C14) drops the oldest pending ones, which would hide CommitEvents from the observer
	eventloop.Register(nd.eventLoop, func(c hotstuff.CommitEvent) { nd.commits = append(nd.commits, c.Block) }, eventloop.UnsafeRunInAddEvent())
	eventloop.Register(nd.eventLoop, func(e hotstuff.ViewChangeEvent) { nd.viewChg = append(nd.viewChg, e) })
	for i := 0; i < 4000 && !w.noPreload; i++ {
		nd.cmdCache.Add(&clientpb.Command{ClientID: 1, SequenceNumber: uint64(i + 1), Data: []byte(fmt.Sprint(i))})
	}
	return nd, nil
}

// drain runs the node's event loop until its queue is empty; a panic in the code under test is
// recorded (it is C10's business) and the node keeps going.
func (w *wWorld) drain(nd *wNode) {
	defer func() {
		if r := recover(); r != nil {
			w.panics = append(w.panics, fmt.Sprintf("node %v: %v", nd.id, r))
		}
	}()
	for i := 0; i < 10000 && nd.eventLoop.Tick(context.Background()); i++ {
	}
}

// start lets the leader(s) of view 1 propose, as Network.run does.
func (w *wWorld) start() {
	for _, id := range w.order {
		nd := w.nodes[id]
		if nd.byz {
			continue
		}
		if w.leaders.GetLeader(1) == nd.id.ReplicaID {
			func() {
				defer func() {
					if r := recover(); r != nil {
						w.panics = append(w.panics, fmt.Sprintf("start %v: %v", nd.id, r))
					}
				}()
				p, err := nd.proposer.CreateProposal(nd.viewStates.SyncInfo())
				if err == nil {
					_ = nd.proposer.Propose(&p)
				}
			}()
			w.drain(nd)
		}
	}
}

// private state readers (read only)
func wReadField(obj any, name string) reflect.Value {
	v := reflect.ValueOf(obj)
	for v.Kind() == reflect.Ptr || v.Kind() == reflect.Interface {
		v = v.Elem()
	}
	f := v.FieldByName(name)
	if !f.IsValid() {
		return f
	}
	return reflect.NewAt(f.Type(), unsafe.Pointer(f.UnsafeAddr())).Elem()
}

func (nd *wNode) lockBlock() *hotstuff.Block {
	for _, name := range []string{"bLock", "locked"} {
		f := wReadField(nd.rules, name)
		if f.IsValid() {
			if b, ok := f.Interface().(*hotstuff.Block); ok {
				return b
			}
		}
	}
	return nil
}

func (nd *wNode) lastVoted() hotstuff.View {
	f := wReadField(nd.voter, "lastVotedView")
	if f.IsValid() {
		return hotstuff.View(f.Uint())
	}
	return 0
}

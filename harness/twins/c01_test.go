package twins

import (
	"bytes"
	"encoding/binary"
	"fmt"
	"sort"
	"strings"
	"testing"

	"github.com/relab/hotstuff"
	"github.com/relab/hotstuff/internal/proto/clientpb"
	"github.com/relab/hotstuff/protocol/synchronizer"
)

// ---- observation of one history, emitted as events of the abstract model ----

type c01Hist struct {
	w                               *wWorld
	spec                            wSpec
	intern                          map[hotstuff.Hash]uint64
	events                          []string // Gallina terms
	evDesc                          []string // readable
	seenBlk                         int      // blocks of w.blockSeq already emitted
	seenSign                        int
	seenCom                         map[NodeID]int
	bytesIdx                        map[string]hotstuff.Hash
	idxBlk                          int
	unknownSigns                    int
	votes, commits, stops, byzvotes int
	byzCmd                          uint64
}

func (h *c01Hist) id(x hotstuff.Hash) uint64 {
	if v, ok := h.intern[x]; ok {
		return v
	}
	v := uint64(len(h.intern))
	h.intern[x] = v
	return v
}

func newC01Hist(w *wWorld, spec wSpec) *c01Hist {
	h := &c01Hist{w: w, spec: spec, intern: map[hotstuff.Hash]uint64{}, seenCom: map[NodeID]int{}, bytesIdx: map[string]hotstuff.Hash{}}
	h.intern[hotstuff.Hash{}] = 0
	h.intern[hotstuff.GetGenesis().Hash()] = 1
	h.seenBlk = 1 // genesis is the model's initial block
	h.idxBlk = 0
	return h
}

func (h *c01Hist) blockTerm(b *hotstuff.Block) string {
	return fmt.Sprintf("(mkb %d %d %d %d)", h.id(b.Hash()), h.id(b.Parent()), uint64(b.View()), h.id(b.QuorumCert().BlockHash()))
}

func (h *c01Hist) isByzID(id hotstuff.ID) bool {
	for _, x := range h.spec.byz {
		if x == id {
			return true
		}
	}
	for _, x := range h.spec.twins {
		if x == id {
			return true
		}
	}
	return false
}

func (h *c01Hist) emit(term, desc string) {
	h.events = append(h.events, term)
	h.evDesc = append(h.evDesc, desc)
}

// observe translates what happened since the last call into model events. nd is the node that
// was just stimulated (nil for Byzantine actions).
func (h *c01Hist) observe(nd *wNode) {
	w := h.w
	for ; h.idxBlk < len(w.blockSeq); h.idxBlk++ {
		b := w.blockSeq[h.idxBlk]
		h.bytesIdx[string(b.ToBytes())] = b.Hash()
	}
	for ; h.seenBlk < len(w.blockSeq); h.seenBlk++ {
		b := w.blockSeq[h.seenBlk]
		h.emit("EAddBlock "+h.blockTerm(b), fmt.Sprintf("block #%d view=%d parent=#%d qc=#%d proposer=%d", h.id(b.Hash()), b.View(), h.id(b.Parent()), h.id(b.QuorumCert().BlockHash()), b.Proposer()))
	}
	type pv struct {
		node NodeID
		hash hotstuff.Hash
	}
	var honestVotes []int // indices into h.events of EVote by nd in this stimulus
	var lastVoteQC *hotstuff.Hash
	for ; h.seenSign < len(w.signLog); h.seenSign++ {
		s := w.signLog[h.seenSign]
		if bh, ok := h.bytesIdx[string(s.msg)]; ok {
			if h.isByzID(s.node.ReplicaID) {
				h.byzvotes++
				h.emit(fmt.Sprintf("EByzVote %d %d", s.node.ReplicaID, h.id(bh)), fmt.Sprintf("byz %v signs vote for #%d", s.node, h.id(bh)))
			} else {
				h.votes++
				honestVotes = append(honestVotes, len(h.events))
				h.emit(fmt.Sprintf("EVote %d %d @LOCK@", s.node.ReplicaID, h.id(bh)), fmt.Sprintf("replica %v signs vote for #%d", s.node, h.id(bh)))
				q := w.blocks[bh].QuorumCert().BlockHash()
				lastVoteQC = &q
			}
		} else if len(s.msg) == 8 {
			v := binary.LittleEndian.Uint64(s.msg)
			if !h.isByzID(s.node.ReplicaID) {
				h.stops++
				h.emit(fmt.Sprintf("EStop %d %d", s.node.ReplicaID, v), fmt.Sprintf("replica %v signs timeout for view %d", s.node, v))
			}
		} else if !c01IsTimeoutBytes(s.msg) {
			h.unknownSigns++
		}
	}
	// the lock is observed after the whole stimulus: attach it to the last honest vote
	for i, idx := range honestVotes {
		lock := "None"
		if i == len(honestVotes)-1 && nd != nil {
			if lb := nd.lockBlock(); lb != nil {
				lock = fmt.Sprintf("(Some %d)", h.id(lb.Hash()))
			}
		}
		h.events[idx] = strings.Replace(h.events[idx], "@LOCK@", lock, 1)
	}
	if nd != nil && !nd.byz && !h.isByzID(nd.id.ReplicaID) {
		if n0 := h.seenCom[nd.id]; n0 < len(nd.commits) {
			var obs []string
			for _, b := range nd.commits[n0:] {
				obs = append(obs, fmt.Sprint(h.id(b.Hash())))
			}
			h.seenCom[nd.id] = len(nd.commits)
			h.commits++
			h1 := uint64(999999)
			if lastVoteQC != nil {
				h1 = h.id(*lastVoteQC)
			}
			h.emit(fmt.Sprintf("ECommit %d %d [%s]", nd.id.ReplicaID, h1, strings.Join(obs, "; ")), fmt.Sprintf("replica %v commits [%s] while processing a block whose QC certifies #%d", nd.id, strings.Join(obs, " "), h1))
		}
	}
}

func c01IsTimeoutBytes(m []byte) bool { return len(m) >= 12 && len(m) < 12+8+32+4096 && len(m) != 8 }

// ---- Byzantine coalition ----

func (w *wWorld) coalitionVotes() map[hotstuff.Hash][]hotstuff.PartialCert {
	m := map[hotstuff.Hash][]hotstuff.PartialCert{}
	for _, id := range w.order {
		nd := w.nodes[id]
		if !nd.byz {
			continue
		}
		for h, pcs := range nd.votesSeen {
			for _, pc := range pcs {
				dup := false
				for _, x := range m[h] {
					if x.Signer() == pc.Signer() {
						dup = true
					}
				}
				if !dup {
					m[h] = append(m[h], pc)
				}
			}
		}
	}
	return m
}

func (w *wWorld) learnQC(qc hotstuff.QuorumCert) {
	for _, q := range w.qcs {
		if q.BlockHash() == qc.BlockHash() {
			return
		}
	}
	w.qcs = append(w.qcs, qc)
}

func (w *wWorld) byzHandle(nd *wNode, payload any) {
	switch m := payload.(type) {
	case hotstuff.VoteMsg:
		nd.votesSeen[m.PartialCert.BlockHash()] = append(nd.votesSeen[m.PartialCert.BlockHash()], m.PartialCert)
	case hotstuff.ProposeMsg:
		w.regBlock(m.Block)
		nd.blockchain.Store(m.Block)
		w.learnQC(m.Block.QuorumCert())
	case hotstuff.NewViewMsg:
		if qc, ok := m.SyncInfo.QC(); ok {
			w.learnQC(qc)
		}
	case hotstuff.TimeoutMsg:
		if qc, ok := m.SyncInfo.QC(); ok {
			w.learnQC(qc)
		}
	}
	w.byzAssemble(nd)
}

func (w *wWorld) byzAssemble(nd *wNode) {
	q := nd.config.QuorumSize()
	for h, pcs := range w.coalitionVotes() {
		if len(pcs) < q {
			continue
		}
		b, ok := w.blocks[h]
		if !ok {
			continue
		}
		known := false
		for _, x := range w.qcs {
			if x.BlockHash() == h {
				known = true
			}
		}
		if known {
			continue
		}
		if qc, err := nd.auth.CreateQuorumCert(b, pcs[:q]); err == nil {
			w.qcs = append(w.qcs, qc)
		}
	}
}

func (w *wWorld) maxHonestView() hotstuff.View {
	var v hotstuff.View
	for _, id := range w.order {
		nd := w.nodes[id]
		if !nd.byz && nd.viewStates.View() > v {
			v = nd.viewStates.View()
		}
	}
	return v
}

func (w *wWorld) byzSendTo(from *wNode, to *wNode, payload any) {
	if w.partition[from.id] != w.partition[to.id] {
		return
	}
	w.pending = append(w.pending, wMsg{from: from.id, to: to.id, payload: payload, sentStep: w.step})
}

// byzAct performs one random malicious action by a scripted Byzantine node.
func (h *c01Hist) byzAct(nd *wNode) string {
	w := h.w
	if len(w.qcs) == 0 {
		w.qcs = append(w.qcs, nd.viewStates.HighQC())
	}
	cur := w.maxHonestView()
	switch k := w.rng.Intn(10); {
	case k < 4: // propose (possibly equivocating, possibly with a parent that is not the certified block)
		var views []hotstuff.View
		for v := hotstuff.View(1); v <= cur+2; v++ {
			if w.leaders.GetLeader(v) == nd.id.ReplicaID && v+3 >= cur {
				views = append(views, v)
			}
		}
		var v hotstuff.View
		if len(views) > 0 && w.rng.Intn(10) > 0 {
			v = views[w.rng.Intn(len(views))]
		} else {
			v = cur + hotstuff.View(w.rng.Intn(2))
			if v == 0 {
				v = 1
			}
		}
		nblk := 1
		if w.rng.Intn(10) < 4 {
			nblk = 2
		}
		desc := ""
		for i := 0; i < nblk; i++ {
			qc := w.qcs[len(w.qcs)-1]
			if w.rng.Intn(10) < 4 {
				qc = w.qcs[w.rng.Intn(len(w.qcs))]
			}
			parent := qc.BlockHash()
			if w.rng.Intn(100) < 15 {
				parent = w.blockSeq[w.rng.Intn(len(w.blockSeq))].Hash()
			}
			vv := v
			if w.rng.Intn(100) < 8 {
				if qb, ok := w.blocks[qc.BlockHash()]; ok && qb.View() > 0 {
					vv = qb.View() // view not above the certified block's
				}
			}
			h.byzCmd++
			batch := &clientpb.Batch{Commands: []*clientpb.Command{{ClientID: 99, SequenceNumber: h.byzCmd, Data: []byte("byz")}}}
			b := hotstuff.NewBlock(parent, qc, batch, vv, nd.id.ReplicaID)
			w.regBlock(b)
			nd.blockchain.Store(b)
			p := hotstuff.ProposeMsg{ID: nd.id.ReplicaID, Block: b}
			for _, id := range w.order {
				to := w.nodes[id]
				if to.id == nd.id {
					continue
				}
				if nblk == 1 && w.rng.Intn(10) < 8 || nblk == 2 && (int(to.id.ReplicaID)+i)%2 == 0 || w.rng.Intn(10) < 2 {
					w.byzSendTo(nd, to, p)
				}
			}
			desc += fmt.Sprintf("propose view=%d qc-view=%d parent-is-qc=%v; ", vv, qc.View(), parent == qc.BlockHash())
		}
		return desc
	case k < 7: // vote for a recent block and share the vote
		var cands []*hotstuff.Block
		for _, b := range w.blockSeq {
			if b.View()+3 >= cur && b.View() > 0 {
				cands = append(cands, b)
			}
		}
		if len(cands) == 0 {
			return "noop"
		}
		b := cands[w.rng.Intn(len(cands))]
		for _, x := range nd.votesSeen[b.Hash()] {
			if x.Signer() == nd.id.ReplicaID {
				return "noop"
			}
		}
		nd.blockchain.Store(b)
		pc, err := nd.auth.CreatePartialCert(b)
		if err != nil {
			return "noop"
		}
		nd.votesSeen[b.Hash()] = append(nd.votesSeen[b.Hash()], pc)
		ldr := w.leaders.GetLeader(b.View() + 1)
		for _, to := range w.byID[ldr] {
			if to.id != nd.id {
				w.byzSendTo(nd, to, hotstuff.VoteMsg{ID: nd.id.ReplicaID, PartialCert: pc})
			}
		}
		w.byzAssemble(nd)
		return fmt.Sprintf("vote view=%d", b.View())
	case k < 8: // new-view with some known certificate
		qc := w.qcs[w.rng.Intn(len(w.qcs))]
		for _, id := range w.order {
			to := w.nodes[id]
			if to.id != nd.id && w.rng.Intn(2) == 0 {
				w.byzSendTo(nd, to, hotstuff.NewViewMsg{ID: nd.id.ReplicaID, SyncInfo: hotstuff.NewSyncInfoWith(qc), FromNetwork: true})
			}
		}
		return "newview"
	default: // timeout for a current view carrying a possibly stale certificate
		v := cur
		if w.rng.Intn(4) == 0 && v > 1 {
			v--
		}
		si := hotstuff.NewSyncInfoWith(w.qcs[w.rng.Intn(len(w.qcs))])
		tm, err := synchronizer.NewTimeoutRuler(nd.config, nd.auth).LocalTimeoutRule(v, si)
		if err != nil {
			return "noop"
		}
		for _, id := range w.order {
			to := w.nodes[id]
			if to.id != nd.id && w.rng.Intn(4) > 0 {
				w.byzSendTo(nd, to, *tm)
			}
		}
		return fmt.Sprintf("timeout view=%d", v)
	}
}

// ---- one history ----

type c01Result struct {
	hist    *c01Hist
	oracle  string // "" = ok
	detail  string
	commits map[string][]uint64
	steps   int
}

func c01Run(spec wSpec, steps int) (*c01Result, error) {
	w, err := newWorld(spec)
	if err != nil {
		return nil, err
	}
	h := newC01Hist(w, spec)
	var byzNodes, live []*wNode
	for _, id := range w.order {
		nd := w.nodes[id]
		if nd.byz {
			byzNodes = append(byzNodes, nd)
		} else {
			live = append(live, nd)
		}
	}
	repartition := func() {
		k := 1 + w.rng.Intn(3)
		if w.rng.Intn(3) == 0 {
			k = 1
		}
		for _, id := range w.order {
			w.partition[id] = w.rng.Intn(k)
		}
	}
	repartition()
	if w.rng.Intn(2) == 0 {
		for _, id := range w.order {
			w.partition[id] = 0
		}
	}
	w.start()
	for _, nd := range live {
		h.observe(nd)
	}
	for w.step = 0; w.step < steps; w.step++ {
		r := w.rng.Intn(100)
		switch {
		case r < 3:
			repartition()
		case r < 18 && len(byzNodes) > 0:
			nd := byzNodes[w.rng.Intn(len(byzNodes))]
			h.byzAct(nd)
			h.observe(nil)
		case r < 26:
			nd := live[w.rng.Intn(len(live))]
			nd.eventLoop.AddEvent(hotstuff.TimeoutEvent{View: nd.viewStates.View()})
			w.drain(nd)
			h.observe(nd)
		default:
			if len(w.pending) == 0 {
				nd := live[w.rng.Intn(len(live))]
				nd.eventLoop.AddEvent(hotstuff.TimeoutEvent{View: nd.viewStates.View()})
				w.drain(nd)
				h.observe(nd)
				continue
			}
			// mostly oldest-first with random reordering
			i := 0
			if w.rng.Intn(3) == 0 {
				i = w.rng.Intn(len(w.pending))
			}
			m := w.pending[i]
			w.pending = append(w.pending[:i], w.pending[i+1:]...)
			to := w.nodes[m.to]
			if to.byz {
				w.byzHandle(to, m.payload)
				h.observe(nil)
			} else {
				if p, ok := m.payload.(hotstuff.ProposeMsg); ok {
					w.regBlock(p.Block)
				}
				to.eventLoop.AddEvent(m.payload)
				w.drain(to)
				h.observe(to)
			}
		}
	}
	return c01Finish(h, live, steps), nil
}

func c01Finish(h *c01Hist, live []*wNode, steps int) *c01Result {
	res := &c01Result{hist: h, commits: map[string][]uint64{}, steps: steps}
	// the property's oracle on the real commit logs of honest (non-twin, non-Byzantine) replicas
	var honest []*wNode
	for _, nd := range live {
		if !h.isByzID(nd.id.ReplicaID) {
			honest = append(honest, nd)
		}
	}
	gen := hotstuff.GetGenesis()
	for _, nd := range honest {
		var ids []uint64
		prev := gen
		seen := map[hotstuff.Hash]bool{}
		for i, b := range nd.commits {
			ids = append(ids, h.id(b.Hash()))
			if b.Parent() != prev.Hash() || b.View() <= prev.View() || seen[b.Hash()] {
				if res.oracle == "" {
					res.oracle = "ledger:not-a-chain"
					res.detail = fmt.Sprintf("replica %v position %d: block #%d view=%d parent=#%d after #%d view=%d", nd.id, i, h.id(b.Hash()), b.View(), h.id(b.Parent()), h.id(prev.Hash()), prev.View())
				}
			}
			seen[b.Hash()] = true
			prev = b
		}
		res.commits[nd.id.String()] = ids
	}
	for i := 0; i < len(honest); i++ {
		for j := i + 1; j < len(honest); j++ {
			a, b := honest[i].commits, honest[j].commits
			for k := 0; k < len(a) && k < len(b); k++ {
				if a[k].Hash() != b[k].Hash() {
					res.oracle = "ledger:diverged"
					res.detail = fmt.Sprintf("replicas %v and %v differ at position %d: #%d vs #%d", honest[i].id, honest[j].id, k, h.id(a[k].Hash()), h.id(b[k].Hash()))
				}
			}
		}
	}
	return res
}

func c01RsTerm(cons string) string {
	if cons == "simplehotstuff" {
		return "RSimple"
	}
	return "RChained"
}

func c01Spec(v *verifOut, cons string, n int, idx int) wSpec {
	rng := v.rng
	f := (n - 1) / 3
	spec := wSpec{consensus: cons, n: n, seed: rng.Int63(), cache: 0}
	if rng.Intn(2) == 0 {
		spec.cache = 100
	}
	// up to f faulty replicas: scripted Byzantine and/or twins
	nb := rng.Intn(f + 1)
	perm := rng.Perm(n)
	for i := 0; i < nb; i++ {
		id := hotstuff.ID(perm[i] + 1)
		if rng.Intn(3) == 0 {
			spec.twins = append(spec.twins, id)
		} else {
			spec.byz = append(spec.byz, id)
		}
	}
	// leader schedule: faulty replicas lead often
	L := 60
	for i := 0; i < L; i++ {
		var id hotstuff.ID
		if nb > 0 && rng.Intn(3) == 0 {
			id = hotstuff.ID(perm[rng.Intn(nb)] + 1)
		} else {
			id = hotstuff.ID(rng.Intn(n) + 1)
		}
		spec.leaders = append(spec.leaders, id)
	}
	if idx%4 == 0 { // a quieter network
		spec.dropProb, spec.dupProb = 0, 0
	} else {
		spec.dropProb, spec.dupProb = 0.05*float64(rng.Intn(4)), 0.03*float64(rng.Intn(3))
	}
	spec.withhold = rng.Intn(4) == 0
	return spec
}

func c01IDs(ids []hotstuff.ID) string {
	xs := make([]string, len(ids))
	for i, x := range ids {
		xs[i] = fmt.Sprint(uint32(x))
	}
	return "[" + strings.Join(xs, "; ") + "]"
}

func TestVerifC01(t *testing.T) {
	v := verifNew("C01")
	s := v.Stream("hist", "hist_mismatches", 12)
	nh := v.Pick(40, 1200)
	steps := v.Pick(350, 500)
	emitHist := func(cons string, n int, spec wSpec, res *c01Result, tag string) {
		h := res.hist
		var byzAll []hotstuff.ID
		byzAll = append(byzAll, spec.byz...)
		byzAll = append(byzAll, spec.twins...)
		sort.Slice(byzAll, func(a, b int) bool { return byzAll[a] < byzAll[b] })
		reps := make([]hotstuff.ID, n)
		for k := range reps {
			reps[k] = hotstuff.ID(k + 1)
		}
		meta := map[string]any{"consensus": cons, "n": n, "byz": spec.byz, "twins": spec.twins, "world_seed": spec.seed, "script": tag,
			"events": len(h.events), "commits": res.commits, "drop": spec.dropProb, "dup": spec.dupProb, "withhold": spec.withhold, "trace": h.evDesc}
		nontrivial := h.votes >= 4 && h.commits >= 1
		key := fmt.Sprintf("%s/%d/%v/%v/%s", cons, n, spec.byz, spec.twins, strings.Join(h.events, ";"))
		sample := map[string]any{"consensus": cons, "n": n, "byz": spec.byz, "twins": spec.twins, "script": tag, "votes": h.votes, "byz_votes": h.byzvotes,
			"commit_events": h.commits, "timeouts": h.stops, "blocks": len(h.w.blockSeq), "first_events": h.evDesc[:min(8, len(h.evDesc))]}
		v.Seen(key, nontrivial, sample)
		v.CountN("events", len(h.events))
		v.CountN("honest_votes", h.votes)
		v.CountN("byz_votes", h.byzvotes)
		v.CountN("commit_events", h.commits)
		v.CountN("timeout_signs", h.stops)
		v.CountN("unknown_signs", h.unknownSigns)
		v.CountN("go_panics", len(h.w.panics))
		v.Count("hist_" + cons + fmt.Sprintf("_n%d_f%d_%s", n, len(byzAll), tag))
		if len(h.w.panics) > 0 {
			v.Note("panic in code under test (C10): " + h.w.panics[0])
		}
		if res.oracle != "" {
			v.Oracle(false, res.oracle+":"+cons+":"+tag, res.detail, meta)
		} else {
			v.Oracle(true, "", "", nil)
		}
		v.Case(s, fmt.Sprintf("(%s, %s, %s, [%s])", c01RsTerm(cons), c01IDs(reps), c01IDs(byzAll), strings.Join(h.events, ";\n  ")), meta)
	}
	for _, cons := range []string{"chainedhotstuff", "simplehotstuff"} {
		for _, variant := range []string{"honest", "bad-parent", "low-view"} {
			res, err := c01Directed(cons, variant, 7)
			if err != nil {
				t.Fatalf("world: %v", err)
			}
			if variant == "honest" && len(res.commits["r1n0"]) == 0 {
				v.Oracle(false, "harness:control-script-commits-nothing:"+cons, "the well-formed scripted chain committed nothing", nil)
			}
			emitHist(cons, 4, res.hist.spec, res, "script-"+variant)
		}
	}
	for _, cons := range []string{"chainedhotstuff", "simplehotstuff"} {
		for i := 0; i < nh; i++ {
			n := 4
			if i%3 == 2 {
				n = 7
			}
			spec := c01Spec(v, cons, n, i)
			res, err := c01Run(spec, steps)
			if err != nil {
				t.Fatalf("world: %v", err)
			}
			emitHist(cons, n, spec, res, "random")
		}
	}
	v.Close("random histories of real replica stacks (n in {4,7}; up to f scripted-Byzantine or twin replicas, often leaders; random delivery order, loss, duplication, partitions, timeouts, withheld fetches); non-trivial = at least 4 honest votes and 1 commit; distinct by full event trace")
	_ = bytes.Equal
}

// ---- directed attack scripts (always run first; derived from the guards the proof needs) ----

// c01Directed runs a scripted Byzantine leader (replica 4 of 4, leader of every view) that builds a
// chain b1 <- b2 <- b3 <- b4 in views 1..4. Variants:
//
//	"bad-parent": b1's QC is the genesis QC but its parent is an uncertified block Y (view 9,
//	              parent genesis) that only the Byzantine node stores; committing b1 walks parent
//	              links and commits Y first.
//	"low-view":   b2 certifies b1 (view 1... ) but is itself proposed again for view 1 - not above
//	              the certified block's view.
//	"honest":     the same script with well-formed blocks (control: must commit b1 cleanly).
func c01Directed(cons, variant string, seed int64) (*c01Result, error) {
	spec := wSpec{consensus: cons, n: 4, byz: []hotstuff.ID{4}, seed: seed}
	for i := 0; i < 20; i++ {
		spec.leaders = append(spec.leaders, 4)
	}
	w, err := newWorld(spec)
	if err != nil {
		return nil, err
	}
	h := newC01Hist(w, spec)
	B := w.nodes[NodeID{ReplicaID: 4}]
	var live []*wNode
	for _, id := range w.order {
		if nd := w.nodes[id]; !nd.byz {
			live = append(live, nd)
		}
	}
	for _, id := range w.order {
		w.partition[id] = 0
	}
	flush := func() {
		for guard := 0; len(w.pending) > 0 && guard < 10000; guard++ {
			m := w.pending[0]
			w.pending = w.pending[1:]
			to := w.nodes[m.to]
			if to.byz {
				w.byzHandle(to, m.payload)
				h.observe(nil)
				continue
			}
			if p, ok := m.payload.(hotstuff.ProposeMsg); ok {
				w.regBlock(p.Block)
			}
			to.eventLoop.AddEvent(m.payload)
			w.drain(to)
			h.observe(to)
		}
	}
	mkBatch := func(k int) *clientpb.Batch {
		return &clientpb.Batch{Commands: []*clientpb.Command{{ClientID: 99, SequenceNumber: uint64(k), Data: []byte("byz")}}}
	}
	gen := hotstuff.GetGenesis()
	qc := B.viewStates.HighQC() // genesis QC
	parent := gen.Hash()
	if variant == "bad-parent" {
		Y := hotstuff.NewBlock(gen.Hash(), qc, mkBatch(1000), 9, 4)
		w.regBlock(Y)
		B.blockchain.Store(Y)
		parent = Y.Hash()
	}
	for v := 1; v <= 5; v++ {
		view := hotstuff.View(v)
		if variant == "low-view" && v == 3 {
			view = 1 // certifies the view-2 block but claims view 1
		}
		b := hotstuff.NewBlock(parent, qc, mkBatch(v), view, 4)
		w.regBlock(b)
		B.blockchain.Store(b)
		for _, to := range live {
			w.byzSendTo(B, to, hotstuff.ProposeMsg{ID: 4, Block: b})
		}
		flush()
		if pc, err := B.auth.CreatePartialCert(b); err == nil {
			B.votesSeen[b.Hash()] = append(B.votesSeen[b.Hash()], pc)
		}
		w.byzAssemble(B)
		h.observe(nil)
		found := false
		for _, q := range w.qcs {
			if q.BlockHash() == b.Hash() {
				qc, parent, found = q, b.Hash(), true
			}
		}
		if !found {
			break // honest replicas did not certify the block: the attack is blocked
		}
	}
	return c01Finish(h, live, 0), nil
}

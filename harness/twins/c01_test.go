package twins

import (
	"runtime"
	"bytes"
	"encoding/binary"
	"fmt"
	"os"
	"sort"
	"strings"
	"testing"

	"github.com/relab/hotstuff"
	"github.com/relab/hotstuff/internal/proto/clientpb"
	"github.com/relab/hotstuff/protocol/synchronizer"
	"github.com/relab/hotstuff/security/crypto"
)

// ---- observation of one history, emitted as events of the abstract model ----

type c01Hist struct {
	w                               *wWorld
	spec                            wSpec
	intern                          map[hotstuff.Hash]uint64
	events                          []string // Gallina terms
	evDesc                          []string // readable
	seenBlk                         int      // blocks of w.blockSeq already emitted
	seenSign                        int
	seenCom                         map[NodeID]int
	bytesIdx                        map[string]hotstuff.Hash
	idxBlk                          int
	unknownSigns                    int
	votes, commits, stops, byzvotes int
	byzCmd                          uint64
	fast                            bool
	tsigs                           int
	// outside: set when an honest Fast-HotStuff replica voted on an aggregate QC one of whose reported
	// certificates it could not resolve (it does not hold the certified block). The code skips such
	// reports; the abstract model's vote guard speaks about every existing certified report, so from
	// here on the history is outside the model: it is validated up to this point only (the ledger
	// oracle still applies to all of it).
	outside string
}

func (h *c01Hist) id(x hotstuff.Hash) uint64 {
	if v, ok := h.intern[x]; ok {
		return v
	}
	v := uint64(len(h.intern))
	h.intern[x] = v
	return v
}

func newC01Hist(w *wWorld, spec wSpec) *c01Hist {
	h := &c01Hist{w: w, spec: spec, intern: map[hotstuff.Hash]uint64{}, seenCom: map[NodeID]int{}, bytesIdx: map[string]hotstuff.Hash{}}
	h.intern[hotstuff.Hash{}] = 0
	h.intern[hotstuff.GetGenesis().Hash()] = 1
	h.fast = spec.consensus == "fasthotstuff" || spec.consensus == nameVulnerableFHS
	h.seenBlk = 1 // genesis is the model's initial block
	h.idxBlk = 0
	return h
}

func (h *c01Hist) blockTerm(b *hotstuff.Block) string {
	return fmt.Sprintf("(mkb %d %d %d %d)", h.id(b.Hash()), h.id(b.Parent()), uint64(b.View()), h.id(b.QuorumCert().BlockHash()))
}

func (h *c01Hist) isByzID(id hotstuff.ID) bool {
	for _, x := range h.spec.byz {
		if x == id {
			return true
		}
	}
	for _, x := range h.spec.twins {
		if x == id {
			return true
		}
	}
	return false
}

func (h *c01Hist) emit(term, desc string) {
	if h.outside != "" {
		return
	}
	h.events = append(h.events, term)
	h.evDesc = append(h.evDesc, desc)
}

// observe translates what happened since the last call into model events. nd is the node that
// was just stimulated (nil for Byzantine actions).
func (h *c01Hist) observe(nd *wNode) {
	w := h.w
	for ; h.idxBlk < len(w.blockSeq); h.idxBlk++ {
		b := w.blockSeq[h.idxBlk]
		h.bytesIdx[string(b.ToBytes())] = b.Hash()
	}
	for ; h.seenBlk < len(w.blockSeq); h.seenBlk++ {
		b := w.blockSeq[h.seenBlk]
		h.emit(h.pfx()+"AddBlock "+h.blockTerm(b), fmt.Sprintf("block #%d view=%d parent=#%d qc=#%d proposer=%d", h.id(b.Hash()), b.View(), h.id(b.Parent()), h.id(b.QuorumCert().BlockHash()), b.Proposer()))
	}
	type pv struct {
		node NodeID
		hash hotstuff.Hash
	}
	var honestVotes []int           // indices into h.events of EVote by nd in this stimulus
	var votedBlocks []hotstuff.Hash // blocks an honest node voted for in this stimulus, in order
	for ; h.seenSign < len(w.signLog); h.seenSign++ {
		s := w.signLog[h.seenSign]
		if bh, ok := h.bytesIdx[string(s.msg)]; ok {
			if h.isByzID(s.node.ReplicaID) {
				h.byzvotes++
				h.emit(fmt.Sprintf("%sByzVote %d %d", h.pfx(), s.node.ReplicaID, h.id(bh)), fmt.Sprintf("byz %v signs vote for #%d", s.node, h.id(bh)))
			} else {
				h.votes++
				honestVotes = append(honestVotes, len(h.events))
				if h.fast {
					if a, ok := w.aggOf[bh]; ok && a != nil && h.outside == "" {
						if voter := w.nodes[s.node]; voter != nil {
							for id, q := range a.QCs() {
								if _, real := w.blocks[q.BlockHash()]; !real || q.BlockHash() == hotstuff.GetGenesis().Hash() {
									continue
								}
								if _, have := voter.blockchain.LocalGet(q.BlockHash()); !have {
									h.outside = fmt.Sprintf("replica %v voted for #%d on an aggregate QC whose report by %d (QC of #%d) it cannot resolve: it does not hold that block", s.node, h.id(bh), id, h.id(q.BlockHash()))
								}
							}
						}
					}
					h.emit(fmt.Sprintf("FVote %d %d %s", s.node.ReplicaID, h.id(bh), h.aggTerm(bh)), fmt.Sprintf("replica %v signs vote for #%d %s", s.node, h.id(bh), h.aggDesc(bh)))
				} else {
					h.emit(fmt.Sprintf("EVote %d %d @LOCK@", s.node.ReplicaID, h.id(bh)), fmt.Sprintf("replica %v signs vote for #%d", s.node, h.id(bh)))
				}
				votedBlocks = append(votedBlocks, bh)
			}
		} else if len(s.msg) == 8 {
			v := binary.LittleEndian.Uint64(s.msg)
			if !h.isByzID(s.node.ReplicaID) {
				h.stops++
				h.emit(fmt.Sprintf("%sStop %d %d", h.pfx(), s.node.ReplicaID, v), fmt.Sprintf("replica %v signs timeout for view %d", s.node, v))
			}
		} else if ti, ok := w.timeoutIdx[string(s.msg)]; ok {
			if h.fast {
				h.tsigs++
				if h.isByzID(s.node.ReplicaID) {
					h.emit(fmt.Sprintf("FByzTimeout %d %d %d", s.node.ReplicaID, uint64(ti.view), h.id(ti.qc)), fmt.Sprintf("byz %v signs timeout message view=%d reporting QC of #%d", s.node, ti.view, h.id(ti.qc)))
				} else {
					h.emit(fmt.Sprintf("FTimeout %d %d %d", s.node.ReplicaID, uint64(ti.view), h.id(ti.qc)), fmt.Sprintf("replica %v signs timeout message view=%d reporting QC of #%d", s.node, ti.view, h.id(ti.qc)))
				}
			}
		} else {
			h.unknownSigns++
		}
	}
	// the lock is observed after the whole stimulus: attach it to the last honest vote
	for i, idx := range honestVotes {
		lock := "None"
		if i == len(honestVotes)-1 && nd != nil {
			if lb := nd.lockBlock(); lb != nil {
				lock = fmt.Sprintf("(Some %d)", h.id(lb.Hash()))
			}
		}
		if idx >= len(h.events) {
			continue // the vote was not emitted: the history is validated only up to an unresolvable report (h.outside)
		}
		h.events[idx] = strings.Replace(h.events[idx], "@LOCK@", lock, 1)
	}
	if nd != nil && !nd.byz && !h.isByzID(nd.id.ReplicaID) {
		if n0 := h.seenCom[nd.id]; n0 < len(nd.commits) {
			committed := nd.commits[n0:]
			h.seenCom[nd.id] = len(nd.commits)
			// CommitEvents are handled after the handler that produced them returned, possibly after
			// further proposals were processed in the same stimulus. The model gets the QC blocks of
			// the blocks voted in this stimulus, in order, and all blocks committed in it; it decides
			// which of those proposals made the commit rule fire.
			var cands, obs []string
			for _, vb := range votedBlocks {
				cands = append(cands, fmt.Sprint(h.id(w.blocks[vb].QuorumCert().BlockHash())))
			}
			for _, b := range committed {
				obs = append(obs, fmt.Sprint(h.id(b.Hash())))
			}
			h.commits++
			h.emit(fmt.Sprintf("%sCommits %d [%s] [%s]", h.pfx(), nd.id.ReplicaID, strings.Join(cands, "; "), strings.Join(obs, "; ")),
				fmt.Sprintf("replica %v commits [%s] while processing blocks whose QCs certify [%s]", nd.id, strings.Join(obs, " "), strings.Join(cands, " ")))
		}
	}
}

func (h *c01Hist) pfx() string {
	if h.fast {
		return "F"
	}
	return "E"
}

// aggTerm renders the aggregate QC that accompanied the proposal of block bh (if any) as the
// model's evidence: (view, [(signer, block hash of the QC it reported)]).
func (h *c01Hist) aggTerm(bh hotstuff.Hash) string {
	a, ok := h.w.aggOf[bh]
	if !ok || a == nil {
		return "None"
	}
	var ids []int
	if a.Sig() != nil {
		a.Sig().Participants().ForEach(func(id hotstuff.ID) { ids = append(ids, int(id)) })
	}
	sort.Ints(ids)
	var xs []string
	for _, id := range ids {
		q, ok := a.QCs()[hotstuff.ID(id)]
		if !ok {
			xs = append(xs, fmt.Sprintf("(%d, 999998)", id))
			continue
		}
		xs = append(xs, fmt.Sprintf("(%d, %d)", id, h.id(q.BlockHash())))
	}
	return fmt.Sprintf("(Some (%d, [%s]))", uint64(a.View()), strings.Join(xs, "; "))
}

func (h *c01Hist) aggDesc(bh hotstuff.Hash) string {
	a, ok := h.w.aggOf[bh]
	if !ok || a == nil {
		return "(plain QC rule)"
	}
	return fmt.Sprintf("(aggregate QC of view %d: %s)", a.View(), h.aggTerm(bh))
}

// ---- Byzantine coalition ----

func (w *wWorld) coalitionVotes() map[hotstuff.Hash][]hotstuff.PartialCert {
	m := map[hotstuff.Hash][]hotstuff.PartialCert{}
	for _, id := range w.order {
		nd := w.nodes[id]
		if !nd.byz {
			continue
		}
		for h, pcs := range nd.votesSeen {
			for _, pc := range pcs {
				dup := false
				for _, x := range m[h] {
					if x.Signer() == pc.Signer() {
						dup = true
					}
				}
				if !dup {
					m[h] = append(m[h], pc)
				}
			}
		}
	}
	return m
}

func (w *wWorld) learnQC(qc hotstuff.QuorumCert) {
	for _, q := range w.qcs {
		if q.BlockHash() == qc.BlockHash() {
			return
		}
	}
	w.qcs = append(w.qcs, qc)
}

func (w *wWorld) learnAgg(a hotstuff.AggregateQC) {
	for _, x := range w.aggqcs {
		if x.View() == a.View() {
			return
		}
	}
	w.aggqcs = append(w.aggqcs, a)
}

// highest QC (by stated view) among those an aggregate QC reports
func wAggHigh(a hotstuff.AggregateQC) (hotstuff.QuorumCert, bool) {
	var best hotstuff.QuorumCert
	found := false
	ids := make([]int, 0)
	for id := range a.QCs() {
		ids = append(ids, int(id))
	}
	sort.Ints(ids)
	for _, id := range ids {
		q := a.QCs()[hotstuff.ID(id)]
		if !found || q.View() > best.View() {
			best, found = q, true
		}
	}
	return best, found
}

func (w *wWorld) byzHandle(nd *wNode, payload any) {
	switch m := payload.(type) {
	case hotstuff.VoteMsg:
		nd.votesSeen[m.PartialCert.BlockHash()] = append(nd.votesSeen[m.PartialCert.BlockHash()], m.PartialCert)
	case hotstuff.ProposeMsg:
		w.regProposal(&m)
		nd.blockchain.Store(m.Block)
		w.learnQC(m.Block.QuorumCert())
		if m.AggregateQC != nil {
			w.learnAgg(*m.AggregateQC)
		}
	case hotstuff.NewViewMsg:
		if qc, ok := m.SyncInfo.QC(); ok {
			w.learnQC(qc)
		}
		if a, ok := m.SyncInfo.AggQC(); ok {
			w.learnAgg(a)
		}
	case hotstuff.TimeoutMsg:
		if qc, ok := m.SyncInfo.QC(); ok {
			w.learnQC(qc)
		}
		if a, ok := m.SyncInfo.AggQC(); ok {
			w.learnAgg(a)
		}
		if m.MsgSignature != nil {
			dup := false
			for _, t := range w.timeoutsSeen[m.View] {
				if t.ID == m.ID {
					dup = true
				}
			}
			if !dup {
				w.timeoutsSeen[m.View] = append(w.timeoutsSeen[m.View], m)
				if ts := w.timeoutsSeen[m.View]; len(ts) >= nd.config.QuorumSize() {
					if a, err := nd.auth.CreateAggregateQC(m.View, ts[:nd.config.QuorumSize()]); err == nil {
						w.learnAgg(a)
					}
				}
			}
		}
	}
	w.byzAssemble(nd)
}

func (w *wWorld) byzAssemble(nd *wNode) {
	q := nd.config.QuorumSize()
	for h, pcs := range w.coalitionVotes() {
		if len(pcs) < q {
			continue
		}
		b, ok := w.blocks[h]
		if !ok {
			continue
		}
		known := false
		for _, x := range w.qcs {
			if x.BlockHash() == h {
				known = true
			}
		}
		if known {
			continue
		}
		if qc, err := nd.auth.CreateQuorumCert(b, pcs[:q]); err == nil {
			w.qcs = append(w.qcs, qc)
		}
	}
}

func (w *wWorld) maxHonestView() hotstuff.View {
	var v hotstuff.View
	for _, id := range w.order {
		nd := w.nodes[id]
		if !nd.byz && nd.viewStates.View() > v {
			v = nd.viewStates.View()
		}
	}
	return v
}

func (w *wWorld) byzSendTo(from *wNode, to *wNode, payload any) {
	if w.partition[from.id] != w.partition[to.id] {
		return
	}
	w.pending = append(w.pending, wMsg{from: from.id, to: to.id, payload: payload, sentStep: w.step})
}

// byzAct performs one random malicious action by a scripted Byzantine node.
func (h *c01Hist) byzAct(nd *wNode) string {
	w := h.w
	if len(w.qcs) == 0 {
		w.qcs = append(w.qcs, nd.viewStates.HighQC())
	}
	cur := w.maxHonestView()
	switch k := w.rng.Intn(10); {
	case k < 4: // propose (possibly equivocating, possibly with a parent that is not the certified block)
		var views []hotstuff.View
		for v := hotstuff.View(1); v <= cur+2; v++ {
			if w.leaders.GetLeader(v) == nd.id.ReplicaID && v+3 >= cur {
				views = append(views, v)
			}
		}
		var v hotstuff.View
		if len(views) > 0 && w.rng.Intn(10) > 0 {
			v = views[w.rng.Intn(len(views))]
		} else {
			v = cur + hotstuff.View(w.rng.Intn(2))
			if v == 0 {
				v = 1
			}
		}
		nblk := 1
		if w.rng.Intn(10) < 4 {
			nblk = 2
		}
		desc := ""
		for i := 0; i < nblk; i++ {
			qc := w.qcs[len(w.qcs)-1]
			if w.rng.Intn(10) < 4 {
				qc = w.qcs[w.rng.Intn(len(w.qcs))]
			}
			parent := qc.BlockHash()
			if w.rng.Intn(100) < 15 {
				parent = w.blockSeq[w.rng.Intn(len(w.blockSeq))].Hash()
			}
			vv := v
			if w.rng.Intn(100) < 8 {
				if qb, ok := w.blocks[qc.BlockHash()]; ok && qb.View() > 0 {
					vv = qb.View() // view not above the certified block's
				}
			}
			var agg *hotstuff.AggregateQC
			if h.fast && len(w.aggqcs) > 0 && w.rng.Intn(10) < 6 {
				a := w.aggqcs[len(w.aggqcs)-1]
				if w.rng.Intn(10) < 4 {
					a = w.aggqcs[w.rng.Intn(len(w.aggqcs))] // possibly an old one
				}
				if hq, ok := wAggHigh(a); ok {
					agg = &a
					if w.rng.Intn(10) < 8 {
						qc = hq
						if parent != qc.BlockHash() && w.rng.Intn(100) < 85 {
							parent = qc.BlockHash()
						}
					}
				}
			}
			h.byzCmd++
			batch := &clientpb.Batch{Commands: []*clientpb.Command{{ClientID: 99, SequenceNumber: h.byzCmd, Data: []byte("byz")}}}
			b := hotstuff.NewBlock(parent, qc, batch, vv, nd.id.ReplicaID)
			p := hotstuff.ProposeMsg{ID: nd.id.ReplicaID, Block: b, AggregateQC: agg}
			w.regProposal(&p)
			nd.blockchain.Store(b)
			for _, id := range w.order {
				to := w.nodes[id]
				if to.id == nd.id {
					continue
				}
				if nblk == 1 && w.rng.Intn(10) < 8 || nblk == 2 && (int(to.id.ReplicaID)+i)%2 == 0 || w.rng.Intn(10) < 2 {
					w.byzSendTo(nd, to, p)
				}
			}
			desc += fmt.Sprintf("propose view=%d qc-view=%d parent-is-qc=%v; ", vv, qc.View(), parent == qc.BlockHash())
		}
		return desc
	case k < 7: // vote for a recent block and share the vote
		var cands []*hotstuff.Block
		for _, b := range w.blockSeq {
			if b.View()+3 >= cur && b.View() > 0 {
				cands = append(cands, b)
			}
		}
		if len(cands) == 0 {
			return "noop"
		}
		b := cands[w.rng.Intn(len(cands))]
		for _, x := range nd.votesSeen[b.Hash()] {
			if x.Signer() == nd.id.ReplicaID {
				return "noop"
			}
		}
		nd.blockchain.Store(b)
		pc, err := nd.auth.CreatePartialCert(b)
		if err != nil {
			return "noop"
		}
		nd.votesSeen[b.Hash()] = append(nd.votesSeen[b.Hash()], pc)
		ldr := w.leaders.GetLeader(b.View() + 1)
		for _, to := range w.byID[ldr] {
			if to.id != nd.id {
				w.byzSendTo(nd, to, hotstuff.VoteMsg{ID: nd.id.ReplicaID, PartialCert: pc})
			}
		}
		w.byzAssemble(nd)
		return fmt.Sprintf("vote view=%d", b.View())
	case k < 8: // new-view with some known certificate
		qc := w.qcs[w.rng.Intn(len(w.qcs))]
		for _, id := range w.order {
			to := w.nodes[id]
			if to.id != nd.id && w.rng.Intn(2) == 0 {
				w.byzSendTo(nd, to, hotstuff.NewViewMsg{ID: nd.id.ReplicaID, SyncInfo: hotstuff.NewSyncInfoWith(qc), FromNetwork: true})
			}
		}
		return "newview"
	default: // timeout for a current view carrying a possibly stale certificate
		v := cur
		if w.rng.Intn(4) == 0 && v > 1 {
			v--
		}
		si := hotstuff.NewSyncInfoWith(w.qcs[w.rng.Intn(len(w.qcs))])
		tm, err := synchronizer.NewTimeoutRuler(nd.config, nd.auth).LocalTimeoutRule(v, si)
		if err != nil {
			return "noop"
		}
		w.regTimeout(*tm)
		for _, id := range w.order {
			to := w.nodes[id]
			if to.id != nd.id && w.rng.Intn(4) > 0 {
				w.byzSendTo(nd, to, *tm)
			}
		}
		return fmt.Sprintf("timeout view=%d", v)
	}
}

// ---- one history ----

type c01Result struct {
	hist    *c01Hist
	oracle  string // "" = ok
	detail  string
	commits map[string][]uint64
	steps   int
}

func c01Run(spec wSpec, steps int) (*c01Result, error) {
	w, err := newWorld(spec)
	if err != nil {
		return nil, err
	}
	h := newC01Hist(w, spec)
	var byzNodes, live []*wNode
	for _, id := range w.order {
		nd := w.nodes[id]
		if nd.byz {
			byzNodes = append(byzNodes, nd)
		} else {
			live = append(live, nd)
		}
	}
	repartition := func() {
		k := 1 + w.rng.Intn(3)
		if w.rng.Intn(3) == 0 {
			k = 1
		}
		for _, id := range w.order {
			w.partition[id] = w.rng.Intn(k)
		}
	}
	repartition()
	if w.rng.Intn(2) == 0 {
		for _, id := range w.order {
			w.partition[id] = 0
		}
	}
	w.start()
	for _, nd := range live {
		h.observe(nd)
	}
	for w.step = 0; w.step < steps; w.step++ {
		r := w.rng.Intn(100)
		switch {
		case r < 3:
			repartition()
		case r < 18 && len(byzNodes) > 0:
			nd := byzNodes[w.rng.Intn(len(byzNodes))]
			h.byzAct(nd)
			h.observe(nil)
		case r < 26:
			nd := live[w.rng.Intn(len(live))]
			nd.eventLoop.AddEvent(hotstuff.TimeoutEvent{View: nd.viewStates.View()})
			w.drain(nd)
			h.observe(nd)
		default:
			if len(w.pending) == 0 {
				nd := live[w.rng.Intn(len(live))]
				nd.eventLoop.AddEvent(hotstuff.TimeoutEvent{View: nd.viewStates.View()})
				w.drain(nd)
				h.observe(nd)
				continue
			}
			// mostly oldest-first with random reordering
			i := 0
			if w.rng.Intn(3) == 0 {
				i = w.rng.Intn(len(w.pending))
			}
			m := w.pending[i]
			w.pending = append(w.pending[:i], w.pending[i+1:]...)
			to := w.nodes[m.to]
			if to.byz {
				w.byzHandle(to, m.payload)
				h.observe(nil)
			} else {
				if p, ok := m.payload.(hotstuff.ProposeMsg); ok {
					w.regProposal(&p)
				}
				to.eventLoop.AddEvent(m.payload)
				w.drain(to)
				h.observe(to)
			}
		}
	}
	return c01Finish(h, live, steps), nil
}

func c01Finish(h *c01Hist, live []*wNode, steps int) *c01Result {
	res := &c01Result{hist: h, commits: map[string][]uint64{}, steps: steps}
	// the property's oracle on the real commit logs of honest (non-twin, non-Byzantine) replicas
	var honest []*wNode
	for _, nd := range live {
		if !h.isByzID(nd.id.ReplicaID) {
			honest = append(honest, nd)
		}
	}
	gen := hotstuff.GetGenesis()
	for _, nd := range honest {
		var ids []uint64
		prev := gen
		seen := map[hotstuff.Hash]bool{}
		for i, b := range nd.commits {
			ids = append(ids, h.id(b.Hash()))
			if b.Parent() != prev.Hash() || b.View() <= prev.View() || seen[b.Hash()] {
				if res.oracle == "" {
					res.oracle = "ledger:not-a-chain"
					res.detail = fmt.Sprintf("replica %v position %d: block #%d view=%d parent=#%d after #%d view=%d", nd.id, i, h.id(b.Hash()), b.View(), h.id(b.Parent()), h.id(prev.Hash()), prev.View())
				}
			}
			seen[b.Hash()] = true
			prev = b
		}
		res.commits[nd.id.String()] = ids
	}
	for i := 0; i < len(honest); i++ {
		for j := i + 1; j < len(honest); j++ {
			a, b := honest[i].commits, honest[j].commits
			for k := 0; k < len(a) && k < len(b); k++ {
				if a[k].Hash() != b[k].Hash() {
					res.oracle = "ledger:diverged"
					res.detail = fmt.Sprintf("replicas %v and %v differ at position %d: #%d vs #%d", honest[i].id, honest[j].id, k, h.id(a[k].Hash()), h.id(b[k].Hash()))
				}
			}
		}
	}
	return res
}

func c01RsTerm(cons string) string {
	if cons == "simplehotstuff" {
		return "RSimple"
	}
	return "RChained"
}

func c01Spec(v *verifOut, cons string, n int, idx int) wSpec {
	rng := v.rng
	f := (n - 1) / 3
	spec := wSpec{consensus: cons, n: n, seed: rng.Int63(), cache: 0}
	if rng.Intn(2) == 0 {
		spec.cache = 100
	}
	// up to f faulty replicas: scripted Byzantine and/or twins
	nb := rng.Intn(f + 1)
	perm := rng.Perm(n)
	for i := 0; i < nb; i++ {
		id := hotstuff.ID(perm[i] + 1)
		if rng.Intn(3) == 0 {
			spec.twins = append(spec.twins, id)
		} else {
			spec.byz = append(spec.byz, id)
		}
	}
	// leader schedule: faulty replicas lead often
	L := 60
	for i := 0; i < L; i++ {
		var id hotstuff.ID
		if nb > 0 && rng.Intn(3) == 0 {
			id = hotstuff.ID(perm[rng.Intn(nb)] + 1)
		} else {
			id = hotstuff.ID(rng.Intn(n) + 1)
		}
		spec.leaders = append(spec.leaders, id)
	}
	if idx%4 == 0 { // a quieter network
		spec.dropProb, spec.dupProb = 0, 0
	} else {
		spec.dropProb, spec.dupProb = 0.05*float64(rng.Intn(4)), 0.03*float64(rng.Intn(3))
	}
	spec.withhold = rng.Intn(4) == 0
	spec.crypto = []string{"ecdsa", "ecdsa", "eddsa", "bls12"}[rng.Intn(4)]
	if rng.Intn(3) == 0 {
		spec.fetchFail = 0.15 * float64(1+rng.Intn(3)) // flaky block fetches
	}
	if rng.Intn(4) == 0 {
		spec.sendFail = 0.1 * float64(1+rng.Intn(3)) // Vote / NewView report send errors (delivered or not)
	}
	return spec
}

func c01IDs(ids []hotstuff.ID) string {
	xs := make([]string, len(ids))
	for i, x := range ids {
		xs[i] = fmt.Sprint(uint32(x))
	}
	return "[" + strings.Join(xs, "; ") + "]"
}

func TestVerifC01(t *testing.T) {
	v := verifNew("C01")
	s := v.Stream("hist", "hist_mismatches", 12)
	sf := v.Stream("fhist", "fhist_mismatches", 12)
	nh := v.Pick(100, 1500)
	steps := v.Pick(350, 500)
	emitHist := func(cons string, n int, spec wSpec, res *c01Result, tag string) {
		h := res.hist
		var byzAll []hotstuff.ID
		byzAll = append(byzAll, spec.byz...)
		byzAll = append(byzAll, spec.twins...)
		sort.Slice(byzAll, func(a, b int) bool { return byzAll[a] < byzAll[b] })
		reps := make([]hotstuff.ID, n)
		for k := range reps {
			reps[k] = hotstuff.ID(k + 1)
		}
		meta := map[string]any{"consensus": cons, "n": n, "byz": spec.byz, "twins": spec.twins, "world_seed": spec.seed, "script": tag, "crypto": spec.crypto, "fetch_fail": spec.fetchFail, "send_fail": spec.sendFail,
			"events": len(h.events), "commits": res.commits, "drop": spec.dropProb, "dup": spec.dupProb, "withhold": spec.withhold, "trace": h.evDesc}
		if d := os.Getenv("VERIF_C01_DUMP"); d != "" && strings.HasPrefix(tag, "script-") {
			_ = os.WriteFile(d+"/"+cons+"-"+tag+".txt", []byte(fmt.Sprintf("commits=%v\n", res.commits)+strings.Join(h.evDesc, "\n")+"\n"), 0o644)
		}
		nontrivial := h.votes >= 4 && h.commits >= 1
		key := fmt.Sprintf("%s/%d/%v/%v/%s", cons, n, spec.byz, spec.twins, strings.Join(h.events, ";"))
		sample := map[string]any{"consensus": cons, "n": n, "byz": spec.byz, "twins": spec.twins, "script": tag, "votes": h.votes, "byz_votes": h.byzvotes,
			"commit_events": h.commits, "timeouts": h.stops, "blocks": len(h.w.blockSeq), "first_events": h.evDesc[:min(8, len(h.evDesc))]}
		v.Seen(key, nontrivial, sample)
		v.CountN("events", len(h.events))
		v.CountN("honest_votes", h.votes)
		v.CountN("byz_votes", h.byzvotes)
		v.CountN("commit_events", h.commits)
		v.CountN("timeout_signs", h.stops)
		v.CountN("unknown_signs", h.unknownSigns)
		v.CountN("go_panics", len(h.w.panics))
		if h.outside != "" {
			v.Count("fhist_validated_only_up_to_an_unresolvable_aggqc_report")
			meta["validated_prefix_only"] = h.outside
		}
		v.Count("hist_" + cons + fmt.Sprintf("_n%d_f%d_%s", n, len(byzAll), tag))
		if spec.crypto != "" {
			v.Count("scheme_" + spec.crypto)
		}
		if len(h.w.panics) > 0 {
			v.Note("panic in code under test (C10): " + h.w.panics[0])
		}
		if res.oracle != "" {
			v.Oracle(false, res.oracle+":"+cons+":"+tag, res.detail, meta)
		} else {
			v.Oracle(true, "", "", nil)
		}
		if h.fast {
			v.Case(sf, fmt.Sprintf("(%s, %s, [%s])", c01IDs(reps), c01IDs(byzAll), strings.Join(h.events, ";\n  ")), meta)
		} else {
			v.Case(s, fmt.Sprintf("(%s, %s, %s, [%s])", c01RsTerm(cons), c01IDs(reps), c01IDs(byzAll), strings.Join(h.events, ";\n  ")), meta)
		}
	}
	for _, cons := range []string{"chainedhotstuff", "simplehotstuff"} {
		for _, variant := range []string{"honest", "bad-parent", "low-view"} {
			res, err := c01Directed(cons, variant, 7)
			if err != nil {
				t.Fatalf("world: %v", err)
			}
			if variant == "honest" && len(res.commits["r1n0"]) == 0 {
				v.Oracle(false, "harness:control-script-commits-nothing:"+cons, "the well-formed scripted chain committed nothing", nil)
			}
			emitHist(cons, 4, res.hist.spec, res, "script-"+variant)
		}
	}
	for _, cons := range []string{"chainedhotstuff", "simplehotstuff"} {
		res, err := c01StaleLock(cons, 7)
		if err != nil {
			t.Fatalf("world: %v", err)
		}
		emitHist(cons, 4, res.hist.spec, res, "script-stale-lock-failed-fetch")
		res3, err := c01StaleLockDeep(cons, 7)
		if err != nil {
			t.Fatalf("world: %v", err)
		}
		if len(res3.commits["r1n0"]) < 2 {
			v.Oracle(false, "harness:deep-stale-lock-script-does-not-reach-the-commit:"+cons, fmt.Sprintf("replica 1 committed %v", res3.commits["r1n0"]), nil)
		}
		emitHist(cons, 4, res3.hist.spec, res3, "script-stale-lock-deep-failed-fetch")
		res4, err := c01ForgedQCCache(cons, 7)
		if err != nil {
			t.Fatalf("world: %v", err)
		}
		if len(res4.commits["r2n0"]) < 4 {
			v.Oracle(false, "harness:forged-qc-script-genuine-branch-does-not-commit:"+cons, fmt.Sprintf("replica 2 committed %v", res4.commits["r2n0"]), nil)
		}
		emitHist(cons, 4, res4.hist.spec, res4, "script-forged-qc-after-cached-single-signature")
		for _, scheme := range []string{"bls12", "ecdsa", "eddsa"} {
			res9, err := c01ForeignSigners(cons, scheme, 7)
			if err != nil {
				t.Fatalf("world: %v", err)
			}
			emitHist(cons, 4, res9.hist.spec, res9, "script-certificates-naming-identities-outside-the-configuration-"+scheme)
		}
		for _, scheme := range []string{"ecdsa", "eddsa"} {
			for _, procs := range []int{0, 2} {
				res10, err := c01TailForgery(cons, scheme, procs, 7)
				if err != nil {
					t.Fatalf("world: %v", err)
				}
				emitHist(cons, 4, res10.hist.spec, res10, fmt.Sprintf("script-made-up-last-entry-%s-gomaxprocs-%d", scheme, procs))
			}
		}
		res5, err := c01RogueKeyBLS(cons, 7)
		if err != nil {
			t.Fatalf("world: %v", err)
		}
		emitHist(cons, 4, res5.hist.spec, res5, "script-bls-rogue-key-forged-certificates")
		res7, err := c01EquivocatingLeader(cons, 7)
		if err != nil {
			t.Fatalf("world: %v", err)
		}
		if len(res7.commits["r1n0"]) < 1 {
			v.Oracle(false, "harness:equivocating-leader-script-first-branch-does-not-commit:"+cons, fmt.Sprintf("replica 1 committed %v", res7.commits["r1n0"]), nil)
		}
		emitHist(cons, 4, res7.hist.spec, res7, "script-equivocating-leader-common-voter")
		res8, err := c01GenesisFork(cons, 7)
		if err != nil {
			t.Fatalf("world: %v", err)
		}
		if len(res8.commits["r1n0"]) < 1 {
			v.Oracle(false, "harness:genesis-fork-script-main-chain-does-not-commit:"+cons, fmt.Sprintf("replica 1 committed %v", res8.commits["r1n0"]), nil)
		}
		emitHist(cons, 4, res8.hist.spec, res8, "script-late-fork-on-genesis-under-a-lock")
		res6, err := c01FetchedBeforeProposal(cons, 7)
		if err != nil {
			t.Fatalf("world: %v", err)
		}
		if !c01FetchedFirst[cons] {
			v.Oracle(false, "harness:fetched-before-proposal-script-block-not-in-store-before-its-proposal:"+cons, "replica 2 did not hold d when its proposal arrived", nil)
		}
		if len(res6.commits["r1n0"]) < 2 {
			v.Oracle(false, "harness:fetched-before-proposal-script-does-not-reach-the-commit:"+cons, fmt.Sprintf("replica 1 committed %v", res6.commits["r1n0"]), nil)
		}
		emitHist(cons, 4, res6.hist.spec, res6, "script-block-fetched-before-its-proposal")
		res2, err := c01StaleQCLeader(cons, 7)
		if err != nil {
			t.Fatalf("world: %v", err)
		}
		emitHist(cons, 4, res2.hist.spec, res2, "script-stale-qc-leader")
	}
	for _, cons := range []string{"chainedhotstuff", "simplehotstuff", "fasthotstuff"} {
		res, err := c01CatchUp(cons, 7)
		if err != nil {
			t.Fatalf("world: %v", err)
		}
		emitHist(cons, 4, res.hist.spec, res, "script-catch-up-partial-fetch")
	}
	{
		res, err := c01FastVoteThenStaleReport(7)
		if err != nil {
			t.Fatalf("world: %v", err)
		}
		if len(res.commits["r2n0"]) < 4 {
			v.Oracle(false, "harness:fhs-vote-then-stale-report-script-genuine-branch-does-not-commit", fmt.Sprintf("replica 2 committed %v", res.commits["r2n0"]), nil)
		}
		emitHist("fasthotstuff", 4, res.hist.spec, res, "script-fhs-vote-then-stale-report")
	}
	{
		res, err := c01FastVoteAfterTimeout(7)
		if err != nil {
			t.Fatalf("world: %v", err)
		}
		if len(res.commits["r2n0"]) < 2 {
			v.Oracle(false, "harness:fhs-vote-after-timeout-script-fork-does-not-commit", fmt.Sprintf("replica 2 committed %v", res.commits["r2n0"]), nil)
		}
		emitHist("fasthotstuff", 4, res.hist.spec, res, "script-fhs-vote-after-timeout")
	}
	{
		res, err := c01FastSwappedReports(7)
		if err != nil {
			t.Fatalf("world: %v", err)
		}
		if len(res.commits["r2n0"]) < 3 {
			v.Oracle(false, "harness:fhs-swapped-reports-script-replica-2-does-not-commit", fmt.Sprintf("replica 2 committed %v", res.commits["r2n0"]), nil)
		}
		emitHist("fasthotstuff", 4, res.hist.spec, res, "script-fhs-swapped-reports")
	}
	for _, variant := range []string{"fhs-honest", "fhs-stale-highqc", "fhs-old-aggqc"} {
		res, err := c01DirectedFast(variant, 7)
		if err != nil {
			t.Fatalf("world: %v", err)
		}
		if variant == "fhs-honest" && len(res.commits["r1n0"]) == 0 {
			v.Oracle(false, "harness:control-script-commits-nothing:fasthotstuff", "the well-formed scripted fast-hotstuff chain committed nothing", nil)
		}
		emitHist("fasthotstuff", 4, res.hist.spec, res, "script-"+variant)
	}
	for _, cons := range []string{"chainedhotstuff", "simplehotstuff", "fasthotstuff"} {
		for i := 0; i < nh; i++ {
			n := 4
			if i%3 == 2 {
				n = 7
			}
			spec := c01Spec(v, cons, n, i)
			res, err := c01Run(spec, steps)
			if err != nil {
				t.Fatalf("world: %v", err)
			}
			emitHist(cons, n, spec, res, "random")
		}
	}
	v.Close("random histories of real replica stacks (n in {4,7}; up to f scripted-Byzantine or twin replicas, often leaders; random delivery order, loss, duplication, partitions, timeouts, withheld fetches); non-trivial = at least 4 honest votes and 1 commit; distinct by full event trace")
	_ = bytes.Equal
}

// ---- directed attack scripts (always run first; derived from the guards the proof needs) ----

// c01Directed runs a scripted Byzantine leader (replica 4 of 4, leader of every view) that builds a
// chain b1 <- b2 <- b3 <- b4 in views 1..4. Variants:
//
//	"bad-parent": b1's QC is the genesis QC but its parent is an uncertified block Y (view 9,
//	              parent genesis) that only the Byzantine node stores; committing b1 walks parent
//	              links and commits Y first.
//	"low-view":   b2 certifies b1 (view 1... ) but is itself proposed again for view 1 - not above
//	              the certified block's view.
//	"honest":     the same script with well-formed blocks (control: must commit b1 cleanly).
func c01Directed(cons, variant string, seed int64) (*c01Result, error) {
	spec := wSpec{consensus: cons, n: 4, byz: []hotstuff.ID{4}, seed: seed}
	for i := 0; i < 20; i++ {
		spec.leaders = append(spec.leaders, 4)
	}
	w, err := newWorld(spec)
	if err != nil {
		return nil, err
	}
	h := newC01Hist(w, spec)
	B := w.nodes[NodeID{ReplicaID: 4}]
	var live []*wNode
	for _, id := range w.order {
		if nd := w.nodes[id]; !nd.byz {
			live = append(live, nd)
		}
	}
	for _, id := range w.order {
		w.partition[id] = 0
	}
	flush := func() {
		for guard := 0; len(w.pending) > 0 && guard < 10000; guard++ {
			m := w.pending[0]
			w.pending = w.pending[1:]
			to := w.nodes[m.to]
			if to.byz {
				w.byzHandle(to, m.payload)
				h.observe(nil)
				continue
			}
			if p, ok := m.payload.(hotstuff.ProposeMsg); ok {
				w.regProposal(&p)
			}
			to.eventLoop.AddEvent(m.payload)
			w.drain(to)
			h.observe(to)
		}
	}
	mkBatch := func(k int) *clientpb.Batch {
		return &clientpb.Batch{Commands: []*clientpb.Command{{ClientID: 99, SequenceNumber: uint64(k), Data: []byte("byz")}}}
	}
	gen := hotstuff.GetGenesis()
	qc := B.viewStates.HighQC() // genesis QC
	parent := gen.Hash()
	if variant == "bad-parent" {
		Y := hotstuff.NewBlock(gen.Hash(), qc, mkBatch(1000), 9, 4)
		w.regBlock(Y)
		B.blockchain.Store(Y)
		parent = Y.Hash()
	}
	for v := 1; v <= 5; v++ {
		view := hotstuff.View(v)
		if variant == "low-view" && v == 3 {
			view = 1 // certifies the view-2 block but claims view 1
		}
		b := hotstuff.NewBlock(parent, qc, mkBatch(v), view, 4)
		w.regBlock(b)
		B.blockchain.Store(b)
		for _, to := range live {
			w.byzSendTo(B, to, hotstuff.ProposeMsg{ID: 4, Block: b})
		}
		flush()
		if pc, err := B.auth.CreatePartialCert(b); err == nil {
			B.votesSeen[b.Hash()] = append(B.votesSeen[b.Hash()], pc)
		}
		w.byzAssemble(B)
		h.observe(nil)
		found := false
		for _, q := range w.qcs {
			if q.BlockHash() == b.Hash() {
				qc, parent, found = q, b.Hash(), true
			}
		}
		if !found {
			break // honest replicas did not certify the block: the attack is blocked
		}
	}
	return c01Finish(h, live, 0), nil
}

// c01DirectedFast: replica 4 of 4 is Byzantine and leads views 1..3 and 5..; replica 1 leads view 4.
// Honest replicas only change view through timeouts (the aggregate timeout rule ignores plain
// QCs), so the script fires every honest timer between proposals.
//
//	"fhs-honest":       well-formed chain b1 <- b2 <- b3 <- ... by the scripted leader (control).
//	"fhs-stale-highqc": after b1 is committed (processing b3) everybody times out; if honest
//	                    replicas still report the genesis QC in their timeouts, the honest leader
//	                    of view 4 proposes on top of genesis with an aggregate QC, and the
//	                    Byzantine leader then gets that fork committed: [b1, b4'] with b4'.parent = genesis.
//	"fhs-old-aggqc":    the Byzantine leader of view 5 re-uses the aggregate QC of view 1 (whose
//	                    highest QC is genesis) on a fresh block on top of genesis.
func c01DirectedFast(variant string, seed int64) (*c01Result, error) {
	spec := wSpec{consensus: "fasthotstuff", n: 4, byz: []hotstuff.ID{4}, seed: seed}
	for i := 0; i < 20; i++ {
		spec.leaders = append(spec.leaders, 4)
	}
	if variant == "fhs-stale-highqc" {
		spec.leaders[3] = 1 // view 4 is led by honest replica 1
	}
	w, err := newWorld(spec)
	if err != nil {
		return nil, err
	}
	h := newC01Hist(w, spec)
	B := w.nodes[NodeID{ReplicaID: 4}]
	var live []*wNode
	for _, id := range w.order {
		if nd := w.nodes[id]; !nd.byz {
			live = append(live, nd)
		}
	}
	for _, id := range w.order {
		w.partition[id] = 0
	}
	flush := func() {
		for guard := 0; len(w.pending) > 0 && guard < 20000; guard++ {
			m := w.pending[0]
			w.pending = w.pending[1:]
			to := w.nodes[m.to]
			if to.byz {
				w.byzHandle(to, m.payload)
				h.observe(nil)
				continue
			}
			if p, ok := m.payload.(hotstuff.ProposeMsg); ok {
				w.regProposal(&p)
			}
			to.eventLoop.AddEvent(m.payload)
			w.drain(to)
			h.observe(to)
		}
	}
	timeouts := func() {
		for _, nd := range live {
			nd.eventLoop.AddEvent(hotstuff.TimeoutEvent{View: nd.viewStates.View()})
			w.drain(nd)
			h.observe(nd)
		}
		flush()
	}
	mkBatch := func(k int) *clientpb.Batch {
		return &clientpb.Batch{Commands: []*clientpb.Command{{ClientID: 99, SequenceNumber: uint64(k), Data: []byte("byz")}}}
	}
	propose := func(view hotstuff.View, parent hotstuff.Hash, qc hotstuff.QuorumCert, agg *hotstuff.AggregateQC) (*hotstuff.Block, bool) {
		b := hotstuff.NewBlock(parent, qc, mkBatch(int(view)+100), view, 4)
		p := hotstuff.ProposeMsg{ID: 4, Block: b, AggregateQC: agg}
		w.regProposal(&p)
		B.blockchain.Store(b)
		for _, to := range live {
			w.byzSendTo(B, to, p)
		}
		flush()
		if pc, err := B.auth.CreatePartialCert(b); err == nil {
			B.votesSeen[b.Hash()] = append(B.votesSeen[b.Hash()], pc)
		}
		w.byzAssemble(B)
		h.observe(nil)
		for _, q := range w.qcs {
			if q.BlockHash() == b.Hash() {
				return b, true
			}
		}
		return b, false
	}
	qcOf := func(b *hotstuff.Block) hotstuff.QuorumCert {
		for _, q := range w.qcs {
			if q.BlockHash() == b.Hash() {
				return q
			}
		}
		return hotstuff.QuorumCert{}
	}
	gen := hotstuff.GetGenesis()
	genQC := B.viewStates.HighQC()
	w.learnQC(genQC)
	// views 1..3: b1 <- b2 <- b3
	qc, parent := genQC, gen.Hash()
	ok := true
	for v := 1; v <= 3 && ok; v++ {
		var b *hotstuff.Block
		b, ok = propose(hotstuff.View(v), parent, qc, nil)
		if ok {
			qc, parent = qcOf(b), b.Hash()
		}
		timeouts() // honest replicas move to view v+1 (and report their high QC)
	}
	switch variant {
	case "fhs-honest":
		for v := 4; v <= 6 && ok; v++ {
			var b *hotstuff.Block
			b, ok = propose(hotstuff.View(v), parent, qc, nil)
			if ok {
				qc, parent = qcOf(b), b.Hash()
			}
			timeouts()
		}
	case "fhs-stale-highqc":
		// view 4: the honest leader (replica 1) proposed when it entered view 4; find its block
		flush()
		var b4 *hotstuff.Block
		for _, b := range w.blockSeq {
			if b.View() == 4 && b.Proposer() == 1 {
				b4 = b
			}
		}
		if b4 != nil {
			if pc, err := B.auth.CreatePartialCert(b4); err == nil {
				B.votesSeen[b4.Hash()] = append(B.votesSeen[b4.Hash()], pc)
			}
			w.byzAssemble(B)
			h.observe(nil)
			timeouts()
			q4 := qcOf(b4)
			if q4.BlockHash() == b4.Hash() {
				qc, parent = q4, b4.Hash()
				ok = true
				for v := 5; v <= 7 && ok; v++ {
					var b *hotstuff.Block
					b, ok = propose(hotstuff.View(v), parent, qc, nil)
					if ok {
						qc, parent = qcOf(b), b.Hash()
					}
					timeouts()
				}
			}
		}
	case "fhs-old-aggqc":
		timeouts() // view 4 -> 5 without a proposal
		var old *hotstuff.AggregateQC
		for i := range w.aggqcs {
			if w.aggqcs[i].View() == 1 {
				old = &w.aggqcs[i]
			}
		}
		if old != nil {
			if hq, okh := wAggHigh(*old); okh {
				cur := live[0].viewStates.View()
				b, ok2 := propose(cur, hq.BlockHash(), hq, old)
				if ok2 {
					qc, parent = qcOf(b), b.Hash()
					timeouts()
					for k := 0; k < 3 && ok2; k++ {
						var nb *hotstuff.Block
						nb, ok2 = propose(live[0].viewStates.View(), parent, qc, nil)
						if ok2 {
							qc, parent = qcOf(nb), nb.Hash()
						}
						timeouts()
					}
				}
			}
		}
	}
	return c01Finish(h, live, 0), nil
}

// c01FastVoteThenStaleReport (Fast-HotStuff): an honest timeout must report a QC at least as high
// as the QC of every block the replica voted for, also when the commit triggered by that block
// failed (an ancestor could not be fetched). Otherwise the Byzantine leader assembles an aggregate
// QC from replica 1's stale report, replica 3's and its own, and forks below a block that replica 2
// commits.
func c01FastVoteThenStaleReport(seed int64) (*c01Result, error) {
	spec := wSpec{consensus: "fasthotstuff", n: 4, byz: []hotstuff.ID{4}, seed: seed}
	for i := 0; i < 20; i++ {
		spec.leaders = append(spec.leaders, 4)
	}
	w, err := newWorld(spec)
	if err != nil {
		return nil, err
	}
	h := newC01Hist(w, spec)
	B := w.nodes[NodeID{ReplicaID: 4}]
	var live []*wNode
	for _, id := range w.order {
		if nd := w.nodes[id]; !nd.byz {
			live = append(live, nd)
		}
	}
	for _, id := range w.order {
		w.partition[id] = 0
	}
	flush := func() {
		for guard := 0; len(w.pending) > 0 && guard < 20000; guard++ {
			m := w.pending[0]
			w.pending = w.pending[1:]
			to := w.nodes[m.to]
			if to.byz {
				w.byzHandle(to, m.payload)
				h.observe(nil)
				continue
			}
			if p, ok := m.payload.(hotstuff.ProposeMsg); ok {
				w.regProposal(&p)
			}
			to.eventLoop.AddEvent(m.payload)
			w.drain(to)
			h.observe(to)
		}
	}
	timeouts := func() {
		for _, nd := range live {
			nd.eventLoop.AddEvent(hotstuff.TimeoutEvent{View: nd.viewStates.View()})
			w.drain(nd)
			h.observe(nd)
		}
		flush()
	}
	mkBatch := func(k int) *clientpb.Batch {
		return &clientpb.Batch{Commands: []*clientpb.Command{{ClientID: 99, SequenceNumber: uint64(k), Data: []byte("byz")}}}
	}
	propose := func(view hotstuff.View, parent hotstuff.Hash, qc hotstuff.QuorumCert, agg *hotstuff.AggregateQC) (*hotstuff.Block, bool) {
		b := hotstuff.NewBlock(parent, qc, mkBatch(int(view)+100), view, 4)
		p := hotstuff.ProposeMsg{ID: 4, Block: b, AggregateQC: agg}
		w.regProposal(&p)
		B.blockchain.Store(b)
		for _, to := range live {
			w.byzSendTo(B, to, p)
		}
		flush()
		if pc, err := B.auth.CreatePartialCert(b); err == nil {
			B.votesSeen[b.Hash()] = append(B.votesSeen[b.Hash()], pc)
		}
		w.byzAssemble(B)
		h.observe(nil)
		for _, q := range w.qcs {
			if q.BlockHash() == b.Hash() {
				return b, true
			}
		}
		return b, false
	}
	qcOf := func(b *hotstuff.Block) hotstuff.QuorumCert {
		for _, q := range w.qcs {
			if q.BlockHash() == b.Hash() {
				return q
			}
		}
		return hotstuff.QuorumCert{}
	}
	gen := hotstuff.GetGenesis()
	genQC := B.viewStates.HighQC()
	w.learnQC(genQC)
	_ = propose
	h1, h2, h3 := w.nodes[NodeID{ReplicaID: 1}], w.nodes[NodeID{ReplicaID: 2}], w.nodes[NodeID{ReplicaID: 3}]
	proposeTo := func(view hotstuff.View, parent hotstuff.Hash, qc hotstuff.QuorumCert, agg *hotstuff.AggregateQC, tos ...*wNode) (*hotstuff.Block, bool) {
		b := hotstuff.NewBlock(parent, qc, mkBatch(int(view)+100+10*len(tos)), view, 4)
		p := hotstuff.ProposeMsg{ID: 4, Block: b, AggregateQC: agg}
		w.regProposal(&p)
		B.blockchain.Store(b)
		for _, to := range tos {
			w.byzSendTo(B, to, p)
		}
		flush()
		if pc, err := B.auth.CreatePartialCert(b); err == nil {
			B.votesSeen[b.Hash()] = append(B.votesSeen[b.Hash()], pc)
		}
		w.byzAssemble(B)
		h.observe(nil)
		for _, q := range w.qcs {
			if q.BlockHash() == b.Hash() {
				return b, true
			}
		}
		return b, false
	}
	// the Byzantine replica's own, correctly self-signed timeout for a view, reporting an old QC
	byzTimeout := func(view hotstuff.View, qc hotstuff.QuorumCert) (hotstuff.TimeoutMsg, bool) {
		vs, err := B.auth.Sign(view.ToBytes())
		if err != nil {
			return hotstuff.TimeoutMsg{}, false
		}
		m := hotstuff.TimeoutMsg{ID: 4, View: view, SyncInfo: hotstuff.NewSyncInfoWith(qc), ViewSignature: vs}
		ms, err := B.auth.Sign(m.ToBytes())
		if err != nil {
			return hotstuff.TimeoutMsg{}, false
		}
		m.MsgSignature = ms
		w.regTimeout(m)
		h.observe(nil)
		return m, true
	}
	// view 1: b1 for everybody
	b1, ok := proposeTo(1, gen.Hash(), genQC, nil, h1, h2, h3)
	if !ok {
		return c01Finish(h, live, 0), nil
	}
	timeouts()
	// views 2..4: replica 1 does not receive the proposals (it keeps up with the views through the
	// timeout certificates only)
	qc, parent := qcOf(b1), b1.Hash()
	var blocks []*hotstuff.Block
	// replica 1 never obtains the view-2 block b2 (its requests for it are lost)
	w.fetchDeny = func(req NodeID, x hotstuff.Hash) bool {
		b, known := w.blocks[x]
		return req == h1.id && known && b.View() == 2
	}
	for v := 2; v <= 4 && ok; v++ {
		var b *hotstuff.Block
		b, ok = proposeTo(hotstuff.View(v), parent, qc, nil, h2, h3)
		if ok {
			qc, parent = qcOf(b), b.Hash()
			blocks = append(blocks, b)
		}
		timeouts()
	}
	if !ok || len(blocks) != 3 {
		return c01Finish(h, live, 0), nil
	}
	b2, b3, b4 := blocks[0], blocks[1], blocks[2]
	q3, q4 := qcOf(b3), qcOf(b4)
	// view 5: b5 (QC b4) for replicas 1 and 2. Replica 1 can fetch b4 and b3 but not b2, so its
	// commit of b3 fails after the proposal was verified; it votes all the same, and the QC of the
	// block it voted for must be the least it reports in its next timeout.
	_ = b2
	b5, ok5 := proposeTo(5, b4.Hash(), q4, nil, h1, h2)
	w.fetchDeny = nil
	if !ok5 {
		return c01Finish(h, live, 0), nil
	}
	// view 5 ends by timeout everywhere; the Byzantine replica adds its own timeout reporting the
	// genesis QC and picks the timeouts of replicas 1 and 3 for its aggregate QC
	timeouts()
	bt, okt := byzTimeout(5, genQC)
	var picked []hotstuff.TimeoutMsg
	for _, t := range w.timeoutsSeen[5] {
		if t.ID == 1 || t.ID == 3 {
			picked = append(picked, t)
		}
	}
	if !okt || len(picked) != 2 {
		return c01Finish(h, live, 0), nil
	}
	agg, err := B.auth.CreateAggregateQC(5, append(picked, bt))
	if err != nil {
		return c01Finish(h, live, 0), nil
	}
	w.learnAgg(agg)
	// view 6: the genuine continuation for replica 2 (it commits b4) and a fork below b4, on b3,
	// justified by the aggregate QC, for replicas 1 and 3
	b6, ok6 := proposeTo(6, b5.Hash(), qcOf(b5), nil, h2)
	_ = b6
	f6, okf := proposeTo(6, b3.Hash(), q3, &agg, h1, h3)
	timeouts()
	if ok6 {
		if b7, ok7 := proposeTo(7, b6.Hash(), qcOf(b6), nil, h2); ok7 {
			_ = b7
		}
	}
	fp, fq := f6, qcOf(f6)
	for v := 7; v <= 9 && okf; v++ {
		var nb *hotstuff.Block
		nb, okf = proposeTo(hotstuff.View(v), fp.Hash(), fq, nil, h1, h3)
		if okf {
			fp, fq = nb, qcOf(nb)
		}
		timeouts()
	}
	return c01Finish(h, live, 0), nil
}

// c01FastVoteAfterTimeout (Fast-HotStuff): a replica that has signed a timeout for a view must not vote
// in that view any more. Replicas 2 and 3 give up on view 3 (reporting QC(b1)) before the leader's late
// b3 arrives; if replica 2 still votes for b3, b3 is certified, replica 1 commits b2 on b4, and the
// aggregate QC of the two honest timeouts (highest report QC(b1)) justifies the fork b4' on b1 that
// replicas 2 and 3 commit.
func c01FastVoteAfterTimeout(seed int64) (*c01Result, error) {
	spec := wSpec{consensus: "fasthotstuff", n: 4, byz: []hotstuff.ID{4}, seed: seed}
	for i := 0; i < 20; i++ {
		spec.leaders = append(spec.leaders, 4)
	}
	w, err := newWorld(spec)
	if err != nil {
		return nil, err
	}
	h := newC01Hist(w, spec)
	B := w.nodes[NodeID{ReplicaID: 4}]
	var live []*wNode
	for _, id := range w.order {
		if nd := w.nodes[id]; !nd.byz {
			live = append(live, nd)
		}
	}
	for _, id := range w.order {
		w.partition[id] = 0
	}
	flush := func() {
		for guard := 0; len(w.pending) > 0 && guard < 20000; guard++ {
			m := w.pending[0]
			w.pending = w.pending[1:]
			to := w.nodes[m.to]
			if to.byz {
				w.byzHandle(to, m.payload)
				h.observe(nil)
				continue
			}
			if p, ok := m.payload.(hotstuff.ProposeMsg); ok {
				w.regProposal(&p)
			}
			to.eventLoop.AddEvent(m.payload)
			w.drain(to)
			h.observe(to)
		}
	}
	timeouts := func() {
		for _, nd := range live {
			nd.eventLoop.AddEvent(hotstuff.TimeoutEvent{View: nd.viewStates.View()})
			w.drain(nd)
			h.observe(nd)
		}
		flush()
	}
	mkBatch := func(k int) *clientpb.Batch {
		return &clientpb.Batch{Commands: []*clientpb.Command{{ClientID: 99, SequenceNumber: uint64(k), Data: []byte("byz")}}}
	}
	propose := func(view hotstuff.View, parent hotstuff.Hash, qc hotstuff.QuorumCert, agg *hotstuff.AggregateQC) (*hotstuff.Block, bool) {
		b := hotstuff.NewBlock(parent, qc, mkBatch(int(view)+100), view, 4)
		p := hotstuff.ProposeMsg{ID: 4, Block: b, AggregateQC: agg}
		w.regProposal(&p)
		B.blockchain.Store(b)
		for _, to := range live {
			w.byzSendTo(B, to, p)
		}
		flush()
		if pc, err := B.auth.CreatePartialCert(b); err == nil {
			B.votesSeen[b.Hash()] = append(B.votesSeen[b.Hash()], pc)
		}
		w.byzAssemble(B)
		h.observe(nil)
		for _, q := range w.qcs {
			if q.BlockHash() == b.Hash() {
				return b, true
			}
		}
		return b, false
	}
	qcOf := func(b *hotstuff.Block) hotstuff.QuorumCert {
		for _, q := range w.qcs {
			if q.BlockHash() == b.Hash() {
				return q
			}
		}
		return hotstuff.QuorumCert{}
	}
	gen := hotstuff.GetGenesis()
	genQC := B.viewStates.HighQC()
	w.learnQC(genQC)
	_ = propose
	h1, h2, h3 := w.nodes[NodeID{ReplicaID: 1}], w.nodes[NodeID{ReplicaID: 2}], w.nodes[NodeID{ReplicaID: 3}]
	proposeTo := func(view hotstuff.View, parent hotstuff.Hash, qc hotstuff.QuorumCert, agg *hotstuff.AggregateQC, tos ...*wNode) (*hotstuff.Block, bool) {
		b := hotstuff.NewBlock(parent, qc, mkBatch(int(view)+100+10*len(tos)), view, 4)
		p := hotstuff.ProposeMsg{ID: 4, Block: b, AggregateQC: agg}
		w.regProposal(&p)
		B.blockchain.Store(b)
		for _, to := range tos {
			w.byzSendTo(B, to, p)
		}
		flush()
		if pc, err := B.auth.CreatePartialCert(b); err == nil {
			B.votesSeen[b.Hash()] = append(B.votesSeen[b.Hash()], pc)
		}
		w.byzAssemble(B)
		h.observe(nil)
		for _, q := range w.qcs {
			if q.BlockHash() == b.Hash() {
				return b, true
			}
		}
		return b, false
	}
	// the Byzantine replica's own, correctly self-signed timeout for a view, reporting an old QC
	byzTimeout := func(view hotstuff.View, qc hotstuff.QuorumCert) (hotstuff.TimeoutMsg, bool) {
		vs, err := B.auth.Sign(view.ToBytes())
		if err != nil {
			return hotstuff.TimeoutMsg{}, false
		}
		m := hotstuff.TimeoutMsg{ID: 4, View: view, SyncInfo: hotstuff.NewSyncInfoWith(qc), ViewSignature: vs}
		ms, err := B.auth.Sign(m.ToBytes())
		if err != nil {
			return hotstuff.TimeoutMsg{}, false
		}
		m.MsgSignature = ms
		w.regTimeout(m)
		h.observe(nil)
		return m, true
	}
	// partial timeouts: only the given replicas give up on their current view (their timeout messages
	// reach everybody, but fewer than a quorum of them form no certificate)
	timeoutAt := func(nds ...*wNode) {
		for _, nd := range nds {
			nd.eventLoop.AddEvent(hotstuff.TimeoutEvent{View: nd.viewStates.View()})
			w.drain(nd)
			h.observe(nd)
		}
		flush()
	}
	// the Byzantine leader walks replicas into the next view with an aggregate QC built from the
	// timeouts it has seen for that view plus its own
	walk := func(view hotstuff.View, report hotstuff.QuorumCert, pick []hotstuff.ID, tos ...*wNode) (*hotstuff.AggregateQC, bool) {
		bt, okt := byzTimeout(view, report)
		if !okt {
			return nil, false
		}
		var picked []hotstuff.TimeoutMsg
		for _, id := range pick {
			for _, t := range w.timeoutsSeen[view] {
				if t.ID == id {
					picked = append(picked, t)
					break
				}
			}
		}
		if len(picked) != len(pick) {
			return nil, false
		}
		agg, err := B.auth.CreateAggregateQC(view, append(picked, bt))
		if err != nil {
			return nil, false
		}
		w.learnAgg(agg)
		for _, to := range tos {
			w.byzSendTo(B, to, hotstuff.NewViewMsg{ID: 4, SyncInfo: hotstuff.NewSyncInfoWith(agg), FromNetwork: true})
		}
		flush()
		return &agg, true
	}
	// views 1, 2: b1, b2 for everybody; every view ends by timeout everywhere
	b1, ok := proposeTo(1, gen.Hash(), genQC, nil, h1, h2, h3)
	if !ok {
		return c01Finish(h, live, 0), nil
	}
	timeouts()
	b2, ok := proposeTo(2, b1.Hash(), qcOf(b1), nil, h1, h2, h3)
	if !ok {
		return c01Finish(h, live, 0), nil
	}
	timeouts()
	// view 3: the leader withholds b3 until replicas 2 and 3 have given up on the view (their timeouts
	// report QC(b1)); two timeouts form no certificate, so everybody is still in view 3 when b3 arrives
	// at replicas 1 and 2. Replica 2 has signed a timeout for view 3 and must not vote in it any more.
	timeoutAt(h2, h3)
	b3, ok3 := proposeTo(3, b2.Hash(), qcOf(b2), nil, h1, h2)
	// replica 1 gives up on view 3 as well; the leader walks everybody into view 4 with the aggregate QC
	// of replicas 2 and 3 and its own report of QC(b1)
	timeoutAt(h1)
	agg3, okw := walk(3, qcOf(b1), []hotstuff.ID{2, 3}, h1, h2, h3)
	if !okw {
		return c01Finish(h, live, 0), nil
	}
	// view 4: if b3 was certified, b4 (plain QC(b3)) for replica 1, which commits b1 and b2
	if ok3 {
		proposeTo(4, b3.Hash(), qcOf(b3), nil, h1)
	}
	// and the fork b4' below b2, on b1, justified by the aggregate QC, for replicas 2 and 3
	f4, okf := proposeTo(4, b1.Hash(), qcOf(b1), agg3, h2, h3)
	fp, fq := f4, qcOf(f4)
	for v := hotstuff.View(5); v <= 7 && okf; v++ {
		timeoutAt(h2, h3)
		if _, okw := walk(v-1, fq, []hotstuff.ID{2, 3}, h2, h3); !okw {
			break
		}
		var nb *hotstuff.Block
		nb, okf = proposeTo(v, fp.Hash(), fq, nil, h2, h3)
		if okf {
			fp, fq = nb, qcOf(nb)
		}
	}
	return c01Finish(h, live, 0), nil
}

// c01FastSwappedReports (Fast-HotStuff): the signature under a timeout message must cover the
// certificate it reports. The Byzantine leader reuses the timeout signatures of replicas 1 and 3
// inside its own aggregate QC with the reported QC(b3) swapped for a same-block, same-view
// certificate that does not verify; the highest VALID QC of the aggregate is then its own old
// QC(b1), which justifies a fork below b3, a block replica 2 has committed.
func c01FastSwappedReports(seed int64) (*c01Result, error) {
	spec := wSpec{consensus: "fasthotstuff", n: 4, byz: []hotstuff.ID{4}, seed: seed}
	for i := 0; i < 20; i++ {
		spec.leaders = append(spec.leaders, 4)
	}
	w, err := newWorld(spec)
	if err != nil {
		return nil, err
	}
	h := newC01Hist(w, spec)
	B := w.nodes[NodeID{ReplicaID: 4}]
	var live []*wNode
	for _, id := range w.order {
		if nd := w.nodes[id]; !nd.byz {
			live = append(live, nd)
		}
	}
	for _, id := range w.order {
		w.partition[id] = 0
	}
	flush := func() {
		for guard := 0; len(w.pending) > 0 && guard < 20000; guard++ {
			m := w.pending[0]
			w.pending = w.pending[1:]
			to := w.nodes[m.to]
			if to.byz {
				w.byzHandle(to, m.payload)
				h.observe(nil)
				continue
			}
			if p, ok := m.payload.(hotstuff.ProposeMsg); ok {
				w.regProposal(&p)
			}
			to.eventLoop.AddEvent(m.payload)
			w.drain(to)
			h.observe(to)
		}
	}
	timeouts := func() {
		for _, nd := range live {
			nd.eventLoop.AddEvent(hotstuff.TimeoutEvent{View: nd.viewStates.View()})
			w.drain(nd)
			h.observe(nd)
		}
		flush()
	}
	mkBatch := func(k int) *clientpb.Batch {
		return &clientpb.Batch{Commands: []*clientpb.Command{{ClientID: 99, SequenceNumber: uint64(k), Data: []byte("byz")}}}
	}
	propose := func(view hotstuff.View, parent hotstuff.Hash, qc hotstuff.QuorumCert, agg *hotstuff.AggregateQC) (*hotstuff.Block, bool) {
		b := hotstuff.NewBlock(parent, qc, mkBatch(int(view)+100), view, 4)
		p := hotstuff.ProposeMsg{ID: 4, Block: b, AggregateQC: agg}
		w.regProposal(&p)
		B.blockchain.Store(b)
		for _, to := range live {
			w.byzSendTo(B, to, p)
		}
		flush()
		if pc, err := B.auth.CreatePartialCert(b); err == nil {
			B.votesSeen[b.Hash()] = append(B.votesSeen[b.Hash()], pc)
		}
		w.byzAssemble(B)
		h.observe(nil)
		for _, q := range w.qcs {
			if q.BlockHash() == b.Hash() {
				return b, true
			}
		}
		return b, false
	}
	qcOf := func(b *hotstuff.Block) hotstuff.QuorumCert {
		for _, q := range w.qcs {
			if q.BlockHash() == b.Hash() {
				return q
			}
		}
		return hotstuff.QuorumCert{}
	}
	gen := hotstuff.GetGenesis()
	genQC := B.viewStates.HighQC()
	w.learnQC(genQC)
	_ = propose
	h1, h2, h3 := w.nodes[NodeID{ReplicaID: 1}], w.nodes[NodeID{ReplicaID: 2}], w.nodes[NodeID{ReplicaID: 3}]
	proposeTo := func(view hotstuff.View, parent hotstuff.Hash, qc hotstuff.QuorumCert, agg *hotstuff.AggregateQC, tos ...*wNode) (*hotstuff.Block, bool) {
		b := hotstuff.NewBlock(parent, qc, mkBatch(int(view)+100+10*len(tos)), view, 4)
		p := hotstuff.ProposeMsg{ID: 4, Block: b, AggregateQC: agg}
		w.regProposal(&p)
		B.blockchain.Store(b)
		for _, to := range tos {
			w.byzSendTo(B, to, p)
		}
		flush()
		if pc, err := B.auth.CreatePartialCert(b); err == nil {
			B.votesSeen[b.Hash()] = append(B.votesSeen[b.Hash()], pc)
		}
		w.byzAssemble(B)
		h.observe(nil)
		for _, q := range w.qcs {
			if q.BlockHash() == b.Hash() {
				return b, true
			}
		}
		return b, false
	}
	// the Byzantine replica's own, correctly self-signed timeout for a view, reporting an old QC
	byzTimeout := func(view hotstuff.View, qc hotstuff.QuorumCert) (hotstuff.TimeoutMsg, bool) {
		vs, err := B.auth.Sign(view.ToBytes())
		if err != nil {
			return hotstuff.TimeoutMsg{}, false
		}
		m := hotstuff.TimeoutMsg{ID: 4, View: view, SyncInfo: hotstuff.NewSyncInfoWith(qc), ViewSignature: vs}
		ms, err := B.auth.Sign(m.ToBytes())
		if err != nil {
			return hotstuff.TimeoutMsg{}, false
		}
		m.MsgSignature = ms
		w.regTimeout(m)
		h.observe(nil)
		return m, true
	}
	// views 1..4: b1 <- b2 <- b3 <- b4 for everybody
	qc, parent := genQC, gen.Hash()
	var blocks []*hotstuff.Block
	ok := true
	for v := 1; v <= 4 && ok; v++ {
		var b *hotstuff.Block
		b, ok = proposeTo(hotstuff.View(v), parent, qc, nil, h1, h2, h3)
		if ok {
			qc, parent = qcOf(b), b.Hash()
			blocks = append(blocks, b)
		}
		timeouts()
	}
	if !ok || len(blocks) != 4 {
		return c01Finish(h, live, 0), nil
	}
	b1, b3, b4 := blocks[0], blocks[2], blocks[3]
	// view 5: b5 (QC b4) for replica 2 only: it commits b3
	if _, ok5 := proposeTo(5, b4.Hash(), qcOf(b4), nil, h2); !ok5 {
		_ = ok5 // b5 is not certified (only replica 2 and the leader voted); not needed below
	}
	timeouts()
	// the leader takes the correctly signed view-5 timeouts of replicas 1 and 3 (they report QC(b3)),
	// replaces the certificate they carry by one for the same block and view made of its own signature
	// only, adds its own timeout reporting QC(b1), and builds an aggregate QC from the three
	var junk hotstuff.QuorumCert
	if pc, err := B.auth.CreatePartialCert(b3); err == nil {
		junk = hotstuff.NewQuorumCert(pc.Signature(), b3.View(), b3.Hash())
		h.observe(nil)
	} else {
		return c01Finish(h, live, 0), nil
	}
	bt, okt := byzTimeout(5, qcOf(b1))
	var picked []hotstuff.TimeoutMsg
	for _, t := range w.timeoutsSeen[5] {
		if t.ID == 1 || t.ID == 3 {
			t.SyncInfo = hotstuff.NewSyncInfoWith(junk)
			picked = append(picked, t)
		}
	}
	if !okt || len(picked) != 2 {
		return c01Finish(h, live, 0), nil
	}
	agg, err := B.auth.CreateAggregateQC(5, append(picked, bt))
	if err != nil {
		return c01Finish(h, live, 0), nil
	}
	// view 6: a fork on b1, below the committed b3, justified by that aggregate QC, for replicas 1 and 3
	f6, okf := proposeTo(6, b1.Hash(), qcOf(b1), &agg, h1, h3)
	timeouts()
	fp, fq := f6, qcOf(f6)
	for v := 7; v <= 9 && okf; v++ {
		var nb *hotstuff.Block
		nb, okf = proposeTo(hotstuff.View(v), fp.Hash(), fq, nil, h1, h3)
		if okf {
			fp, fq = nb, qcOf(nb)
		}
		timeouts()
	}
	return c01Finish(h, live, 0), nil
}

// c01CatchUp: four honest replicas, replica 1 leads every view. Replica 4 is cut off while the
// others build and commit a chain; then the partition heals, but block fetches by replica 4 for
// the two oldest blocks of the chain fail (lost requests). Replica 4 must either commit the
// whole chain from genesis or nothing - never a suffix above the gap.
func c01CatchUp(cons string, seed int64) (*c01Result, error) {
	spec := wSpec{consensus: cons, n: 4, seed: seed}
	for i := 0; i < 40; i++ {
		spec.leaders = append(spec.leaders, 1)
	}
	w, err := newWorld(spec)
	if err != nil {
		return nil, err
	}
	h := newC01Hist(w, spec)
	var live []*wNode
	for _, id := range w.order {
		live = append(live, w.nodes[id])
	}
	lag := NodeID{ReplicaID: 4}
	for _, id := range w.order {
		w.partition[id] = 0
	}
	w.partition[lag] = 1
	deliver := func(max int) {
		for i := 0; i < max && len(w.pending) > 0; i++ {
			m := w.pending[0]
			w.pending = w.pending[1:]
			to := w.nodes[m.to]
			if p, ok := m.payload.(hotstuff.ProposeMsg); ok {
				w.regProposal(&p)
			}
			to.eventLoop.AddEvent(m.payload)
			w.drain(to)
			h.observe(to)
		}
	}
	timeouts := func(nodes []*wNode) {
		for _, nd := range nodes {
			nd.eventLoop.AddEvent(hotstuff.TimeoutEvent{View: nd.viewStates.View()})
			w.drain(nd)
			h.observe(nd)
		}
	}
	w.start()
	for _, nd := range live {
		h.observe(nd)
	}
	// phase 1: replicas 1..3 run until at least 7 blocks exist (fast-hotstuff only moves by timeouts)
	for round := 0; round < 400 && len(w.blockSeq) < 8; round++ {
		deliver(6)
		if len(w.pending) == 0 && len(w.blockSeq) < 8 {
			timeouts(live[:3])
		}
	}
	// phase 2: heal; fetches of the two oldest non-genesis blocks by replica 4 fail
	deny := map[hotstuff.Hash]bool{}
	for _, b := range w.blockSeq {
		if b.View() == 1 || b.View() == 2 {
			deny[b.Hash()] = true
		}
	}
	w.fetchDeny = func(req NodeID, x hotstuff.Hash) bool { return req == lag && deny[x] }
	w.partition[lag] = 0
	for round := 0; round < 10 && len(w.blockSeq) < 40; round++ {
		deliver(40)
		if len(w.pending) == 0 {
			timeouts(live)
		}
	}
	return c01Finish(h, live, 0), nil
}

// c01StaleLock: the vote is cast although the block the lock should move to could not be fetched.
// Replica 4 (Byzantine) leads every view. h2 misses views 1-2; it is then walked up to view 3 with
// QC(b2) (one view per certificate), receives b3 (QC b2) and can fetch b2 but not b1 (lost
// requests), so its commit rule cannot move the lock to b1 - and it votes for b3 anyway.
// h1 alone sees b4 and commits b1. The Byzantine leader then forks from genesis (b2' in view 4):
// h3 (never voted above view 2) and h2 (lock still genesis) vote for it, and three more views
// commit b2' at h2 and h3 while h1 has committed b1.
func c01StaleLock(cons string, seed int64) (*c01Result, error) {
	spec := wSpec{consensus: cons, n: 4, byz: []hotstuff.ID{4}, seed: seed}
	for i := 0; i < 20; i++ {
		spec.leaders = append(spec.leaders, 4)
	}
	w, err := newWorld(spec)
	if err != nil {
		return nil, err
	}
	h := newC01Hist(w, spec)
	B := w.nodes[NodeID{ReplicaID: 4}]
	h1, h2, h3 := w.nodes[NodeID{ReplicaID: 1}], w.nodes[NodeID{ReplicaID: 2}], w.nodes[NodeID{ReplicaID: 3}]
	live := []*wNode{h1, h2, h3}
	for _, id := range w.order {
		w.partition[id] = 0
	}
	flush := func() {
		for guard := 0; len(w.pending) > 0 && guard < 10000; guard++ {
			m := w.pending[0]
			w.pending = w.pending[1:]
			to := w.nodes[m.to]
			if to.byz {
				w.byzHandle(to, m.payload)
				h.observe(nil)
				continue
			}
			if p, ok := m.payload.(hotstuff.ProposeMsg); ok {
				w.regProposal(&p)
			}
			to.eventLoop.AddEvent(m.payload)
			w.drain(to)
			h.observe(to)
		}
	}
	k := 0
	mk := func(view hotstuff.View, parent hotstuff.Hash, qc hotstuff.QuorumCert) *hotstuff.Block {
		k++
		b := hotstuff.NewBlock(parent, qc, &clientpb.Batch{Commands: []*clientpb.Command{{ClientID: 99, SequenceNumber: uint64(k), Data: []byte("byz")}}}, view, 4)
		w.regBlock(b)
		B.blockchain.Store(b)
		return b
	}
	send := func(b *hotstuff.Block, to ...*wNode) {
		for _, nd := range to {
			w.byzSendTo(B, nd, hotstuff.ProposeMsg{ID: 4, Block: b})
		}
		flush()
	}
	newview := func(qc hotstuff.QuorumCert, to ...*wNode) {
		for _, nd := range to {
			w.byzSendTo(B, nd, hotstuff.NewViewMsg{ID: 4, SyncInfo: hotstuff.NewSyncInfoWith(qc), FromNetwork: true})
		}
		flush()
	}
	certify := func(b *hotstuff.Block) (hotstuff.QuorumCert, bool) {
		if pc, err := B.auth.CreatePartialCert(b); err == nil {
			B.votesSeen[b.Hash()] = append(B.votesSeen[b.Hash()], pc)
		}
		w.byzAssemble(B)
		h.observe(nil)
		for _, q := range w.qcs {
			if q.BlockHash() == b.Hash() {
				return q, true
			}
		}
		return hotstuff.QuorumCert{}, false
	}
	gen := hotstuff.GetGenesis()
	genQC := B.viewStates.HighQC()
	// views 1, 2: h1, h3 and the leader certify b1, b2 (h2 sees nothing)
	b1 := mk(1, gen.Hash(), genQC)
	send(b1, h1, h3)
	q1, ok1 := certify(b1)
	b2 := mk(2, b1.Hash(), q1)
	if ok1 {
		send(b2, h1, h3)
	}
	q2, ok2 := certify(b2)
	if ok1 && ok2 {
		// h2 cannot obtain b1 (its requests for it are lost); it is walked up with QC(b2)
		w.fetchDeny = func(req NodeID, x hotstuff.Hash) bool { return req == h2.id && x == b1.Hash() }
		b3 := mk(3, b2.Hash(), q2)
		newview(q2, h1, h2)
		newview(q2, h2)
		send(b3, h1, h2)
		if q3, ok3 := certify(b3); ok3 {
			// only h1 sees b4: it commits b1
			b4 := mk(4, b3.Hash(), q3)
			send(b4, h1)
			// the fork from genesis for h2, h3
			newview(q2, h3)
			newview(q3, h3, h2)
			f2 := mk(4, gen.Hash(), genQC)
			send(f2, h2, h3)
			parent, qc := f2, hotstuff.QuorumCert{}
			var okf bool
			qc, okf = certify(f2)
			for v := 5; v <= 8 && okf; v++ {
				nb := mk(hotstuff.View(v), parent.Hash(), qc)
				send(nb, h2, h3)
				qc, okf = certify(nb)
				parent = nb
			}
		}
	}
	return c01Finish(h, live, 0), nil
}

// c01StaleLockDeep: as c01StaleLock, one level deeper. Replica 2 misses views 1..3 and, when it
// processes the view-4 proposal d, can fetch the two newest missing blocks (c, b) but not the third
// (a). The lock rule looks two certificates back only, so its lock must move to b. A replica whose
// lock stays behind votes for the fork f below b (justified by the old QC(a)) together with
// replica 3 (locked on a), and f is committed next to the committed b.
func c01StaleLockDeep(cons string, seed int64) (*c01Result, error) {
	spec := wSpec{consensus: cons, n: 4, byz: []hotstuff.ID{4}, seed: seed}
	for i := 0; i < 20; i++ {
		spec.leaders = append(spec.leaders, 4)
	}
	w, err := newWorld(spec)
	if err != nil {
		return nil, err
	}
	h := newC01Hist(w, spec)
	B := w.nodes[NodeID{ReplicaID: 4}]
	h1, h2, h3 := w.nodes[NodeID{ReplicaID: 1}], w.nodes[NodeID{ReplicaID: 2}], w.nodes[NodeID{ReplicaID: 3}]
	live := []*wNode{h1, h2, h3}
	for _, id := range w.order {
		w.partition[id] = 0
	}
	flush := func() {
		for guard := 0; len(w.pending) > 0 && guard < 10000; guard++ {
			m := w.pending[0]
			w.pending = w.pending[1:]
			to := w.nodes[m.to]
			if to.byz {
				w.byzHandle(to, m.payload)
				h.observe(nil)
				continue
			}
			if p, ok := m.payload.(hotstuff.ProposeMsg); ok {
				w.regProposal(&p)
			}
			to.eventLoop.AddEvent(m.payload)
			w.drain(to)
			h.observe(to)
		}
	}
	k := 0
	mk := func(view hotstuff.View, parent hotstuff.Hash, qc hotstuff.QuorumCert) *hotstuff.Block {
		k++
		b := hotstuff.NewBlock(parent, qc, &clientpb.Batch{Commands: []*clientpb.Command{{ClientID: 99, SequenceNumber: uint64(k), Data: []byte("byz")}}}, view, 4)
		w.regBlock(b)
		B.blockchain.Store(b)
		return b
	}
	send := func(b *hotstuff.Block, to ...*wNode) {
		for _, nd := range to {
			w.byzSendTo(B, nd, hotstuff.ProposeMsg{ID: 4, Block: b})
		}
		flush()
	}
	newview := func(qc hotstuff.QuorumCert, to ...*wNode) {
		for _, nd := range to {
			w.byzSendTo(B, nd, hotstuff.NewViewMsg{ID: 4, SyncInfo: hotstuff.NewSyncInfoWith(qc), FromNetwork: true})
		}
		flush()
	}
	certify := func(b *hotstuff.Block) (hotstuff.QuorumCert, bool) {
		if pc, err := B.auth.CreatePartialCert(b); err == nil {
			B.votesSeen[b.Hash()] = append(B.votesSeen[b.Hash()], pc)
		}
		w.byzAssemble(B)
		h.observe(nil)
		for _, q := range w.qcs {
			if q.BlockHash() == b.Hash() {
				return q, true
			}
		}
		return hotstuff.QuorumCert{}, false
	}
	gen := hotstuff.GetGenesis()
	genQC := B.viewStates.HighQC()
	// views 1..3: h1, h3 and the leader certify a <- b <- c (h2 sees nothing); h3 ends up locked on a
	a := mk(1, gen.Hash(), genQC)
	send(a, h1, h3)
	qa, oka := certify(a)
	if !oka {
		return c01Finish(h, live, 0), nil
	}
	b := mk(2, a.Hash(), qa)
	send(b, h1, h3)
	qb, okb := certify(b)
	if !okb {
		return c01Finish(h, live, 0), nil
	}
	c := mk(3, b.Hash(), qb)
	send(c, h1, h3)
	qc, okc := certify(c)
	if !okc {
		return c01Finish(h, live, 0), nil
	}
	// h2 can obtain c and b but not a (its requests for a are lost); it is walked up with QC(c) and
	// processes d: its lock must move to b (two certificates back) although the block three back is missing
	w.fetchDeny = func(req NodeID, x hotstuff.Hash) bool { return req == h2.id && x == a.Hash() }
	d := mk(4, c.Hash(), qc)
	newview(qc, h1, h2)
	newview(qc, h2)
	send(d, h1, h2)
	qd, okd := certify(d)
	if !okd {
		return c01Finish(h, live, 0), nil
	}
	// only h1 sees e: it commits a, b
	e := mk(5, d.Hash(), qd)
	send(e, h1)
	// the fork below b, justified by the old QC(a), for h2 and h3 (the lost requests were transient)
	w.fetchDeny = nil
	newview(qc, h3)
	newview(qd, h3, h2)
	f := mk(5, a.Hash(), qa)
	send(f, h2, h3)
	parent := f
	q, okf := certify(f)
	for v := 6; v <= 9 && okf; v++ {
		nb := mk(hotstuff.View(v), parent.Hash(), q)
		send(nb, h2, h3)
		q, okf = certify(nb)
		parent = nb
	}
	return c01Finish(h, live, 0), nil
}

// c01EquivocatingLeader: one vote per view, whatever the rule set does with its view argument. The Byzantine
// leader of every view proposes two blocks per view: a_v (a chain from genesis) to replicas 1 and 2, then
// b_v (another chain from genesis) to replicas 2 and 3. Replica 2 sees both; having voted for a_v it must
// refuse b_v, so the b chain never gets a certificate. A replica 2 that votes twice per view certifies both
// chains, and replicas 1 and 3 commit different blocks at position 1.
func c01EquivocatingLeader(cons string, seed int64) (*c01Result, error) {
	spec := wSpec{consensus: cons, n: 4, byz: []hotstuff.ID{4}, seed: seed}
	for i := 0; i < 20; i++ {
		spec.leaders = append(spec.leaders, 4)
	}
	w, err := newWorld(spec)
	if err != nil {
		return nil, err
	}
	h := newC01Hist(w, spec)
	B := w.nodes[NodeID{ReplicaID: 4}]
	h1, h2, h3 := w.nodes[NodeID{ReplicaID: 1}], w.nodes[NodeID{ReplicaID: 2}], w.nodes[NodeID{ReplicaID: 3}]
	live := []*wNode{h1, h2, h3}
	for _, id := range w.order {
		w.partition[id] = 0
	}
	flush := func() {
		for guard := 0; len(w.pending) > 0 && guard < 10000; guard++ {
			m := w.pending[0]
			w.pending = w.pending[1:]
			to := w.nodes[m.to]
			if to.byz {
				w.byzHandle(to, m.payload)
				h.observe(nil)
				continue
			}
			if p, ok := m.payload.(hotstuff.ProposeMsg); ok {
				w.regProposal(&p)
			}
			to.eventLoop.AddEvent(m.payload)
			w.drain(to)
			h.observe(to)
		}
	}
	k := 0
	mk := func(view hotstuff.View, parent hotstuff.Hash, qc hotstuff.QuorumCert) *hotstuff.Block {
		k++
		b := hotstuff.NewBlock(parent, qc, &clientpb.Batch{Commands: []*clientpb.Command{{ClientID: 99, SequenceNumber: uint64(k), Data: []byte("byz")}}}, view, 4)
		w.regBlock(b)
		B.blockchain.Store(b)
		return b
	}
	send := func(b *hotstuff.Block, to ...*wNode) {
		for _, nd := range to {
			w.byzSendTo(B, nd, hotstuff.ProposeMsg{ID: 4, Block: b})
		}
		flush()
	}
	certify := func(b *hotstuff.Block) (hotstuff.QuorumCert, bool) {
		if pc, err := B.auth.CreatePartialCert(b); err == nil {
			B.votesSeen[b.Hash()] = append(B.votesSeen[b.Hash()], pc)
		}
		w.byzAssemble(B)
		h.observe(nil)
		for _, q := range w.qcs {
			if q.BlockHash() == b.Hash() {
				return q, true
			}
		}
		return hotstuff.QuorumCert{}, false
	}
	gen := hotstuff.GetGenesis()
	genQC := B.viewStates.HighQC()
	pa, qa, oka := gen.Hash(), genQC, true
	pb, qb, okb := gen.Hash(), genQC, true
	for v := hotstuff.View(1); v <= 6; v++ {
		if oka {
			a := mk(v, pa, qa)
			send(a, h1, h2)
			if q, ok := certify(a); ok {
				pa, qa = a.Hash(), q
			} else {
				oka = false
			}
		}
		if okb {
			b := mk(v, pb, qb)
			send(b, h2, h3)
			if q, ok := certify(b); ok {
				pb, qb = b.Hash(), q
			} else {
				okb = false
			}
		}
	}
	return c01Finish(h, live, 0), nil
}

// c01GenesisFork: the lock applies to every proposal, also to a late block placed directly on genesis and
// justified by the genesis certificate (which always verifies). Replicas 1 and 2 are locked on b1 and replica 1
// has committed it; a replica 2 that votes for the genesis fork helps replicas 2 and 3 commit it next to b1.
func c01GenesisFork(cons string, seed int64) (*c01Result, error) {
	spec := wSpec{consensus: cons, n: 4, byz: []hotstuff.ID{4}, seed: seed}
	for i := 0; i < 20; i++ {
		spec.leaders = append(spec.leaders, 4)
	}
	w, err := newWorld(spec)
	if err != nil {
		return nil, err
	}
	h := newC01Hist(w, spec)
	B := w.nodes[NodeID{ReplicaID: 4}]
	h1, h2, h3 := w.nodes[NodeID{ReplicaID: 1}], w.nodes[NodeID{ReplicaID: 2}], w.nodes[NodeID{ReplicaID: 3}]
	live := []*wNode{h1, h2, h3}
	for _, id := range w.order {
		w.partition[id] = 0
	}
	flush := func() {
		for guard := 0; len(w.pending) > 0 && guard < 10000; guard++ {
			m := w.pending[0]
			w.pending = w.pending[1:]
			to := w.nodes[m.to]
			if to.byz {
				w.byzHandle(to, m.payload)
				h.observe(nil)
				continue
			}
			if p, ok := m.payload.(hotstuff.ProposeMsg); ok {
				w.regProposal(&p)
			}
			to.eventLoop.AddEvent(m.payload)
			w.drain(to)
			h.observe(to)
		}
	}
	k := 0
	mk := func(view hotstuff.View, parent hotstuff.Hash, qc hotstuff.QuorumCert) *hotstuff.Block {
		k++
		b := hotstuff.NewBlock(parent, qc, &clientpb.Batch{Commands: []*clientpb.Command{{ClientID: 99, SequenceNumber: uint64(k), Data: []byte("byz")}}}, view, 4)
		w.regBlock(b)
		B.blockchain.Store(b)
		return b
	}
	send := func(b *hotstuff.Block, to ...*wNode) {
		for _, nd := range to {
			w.byzSendTo(B, nd, hotstuff.ProposeMsg{ID: 4, Block: b})
		}
		flush()
	}
	certify := func(b *hotstuff.Block) (hotstuff.QuorumCert, bool) {
		if pc, err := B.auth.CreatePartialCert(b); err == nil {
			B.votesSeen[b.Hash()] = append(B.votesSeen[b.Hash()], pc)
		}
		w.byzAssemble(B)
		h.observe(nil)
		for _, q := range w.qcs {
			if q.BlockHash() == b.Hash() {
				return q, true
			}
		}
		return hotstuff.QuorumCert{}, false
	}
	newview := func(qc hotstuff.QuorumCert, to ...*wNode) {
		for _, nd := range to {
			w.byzSendTo(B, nd, hotstuff.NewViewMsg{ID: 4, SyncInfo: hotstuff.NewSyncInfoWith(qc), FromNetwork: true})
		}
		flush()
	}
	gen := hotstuff.GetGenesis()
	genQC := B.viewStates.HighQC()
	// views 1, 2 for everybody, view 3 for replicas 1 and 2 (they lock b1), view 4 for replica 1 (it commits b1)
	b1 := mk(1, gen.Hash(), genQC)
	send(b1, h1, h2, h3)
	q1, ok1 := certify(b1)
	if !ok1 {
		return c01Finish(h, live, 0), nil
	}
	b2 := mk(2, b1.Hash(), q1)
	send(b2, h1, h2, h3)
	q2, ok2 := certify(b2)
	if !ok2 {
		return c01Finish(h, live, 0), nil
	}
	b3 := mk(3, b2.Hash(), q2)
	send(b3, h1, h2)
	q3, ok3 := certify(b3)
	if !ok3 {
		return c01Finish(h, live, 0), nil
	}
	b4 := mk(4, b3.Hash(), q3)
	send(b4, h1)
	// replicas 2 and 3 are walked to view 4; then the late block f directly on genesis, justified by the
	// always-valid genesis certificate: replica 3 (still locked on genesis) may vote, replica 2 (locked on b1) must not
	newview(q2, h3)
	newview(q3, h2, h3)
	f := mk(4, gen.Hash(), genQC)
	send(f, h2, h3)
	parent := f
	q, okf := certify(f)
	for v := 5; v <= 8 && okf; v++ {
		nb := mk(hotstuff.View(v), parent.Hash(), q)
		send(nb, h2, h3)
		q, okf = certify(nb)
		parent = nb
	}
	return c01Finish(h, live, 0), nil
}

// c01FetchedBeforeProposal: a voter holds the lock the rules give it for the block it votes for, however
// the block entered its store. Replicas 1..3 process a <- b <- c. Replica 2 then obtains d (view 4) by
// FETCH before d's proposal arrives: the leader's own vote for d reaches it first, is deferred until the
// next proposal event (a replay of c, rejected) and then makes it fetch d. The proposal for d follows;
// replica 2 votes for it, and its lock must move to b exactly as if the block had been new. QC(d) lets
// replica 1 commit b. A replica 2 whose lock stayed on a votes, with replica 3 (which never saw d), for
// the fork f below b, and f is committed next to the committed b.
var c01FetchedFirst = map[string]bool{}

func c01FetchedBeforeProposal(cons string, seed int64) (*c01Result, error) {
	spec := wSpec{consensus: cons, n: 4, byz: []hotstuff.ID{4}, seed: seed}
	for i := 0; i < 20; i++ {
		spec.leaders = append(spec.leaders, 4)
	}
	w, err := newWorld(spec)
	if err != nil {
		return nil, err
	}
	h := newC01Hist(w, spec)
	B := w.nodes[NodeID{ReplicaID: 4}]
	h1, h2, h3 := w.nodes[NodeID{ReplicaID: 1}], w.nodes[NodeID{ReplicaID: 2}], w.nodes[NodeID{ReplicaID: 3}]
	live := []*wNode{h1, h2, h3}
	for _, id := range w.order {
		w.partition[id] = 0
	}
	flush := func() {
		for guard := 0; len(w.pending) > 0 && guard < 10000; guard++ {
			m := w.pending[0]
			w.pending = w.pending[1:]
			to := w.nodes[m.to]
			if to.byz {
				w.byzHandle(to, m.payload)
				h.observe(nil)
				continue
			}
			if p, ok := m.payload.(hotstuff.ProposeMsg); ok {
				w.regProposal(&p)
			}
			to.eventLoop.AddEvent(m.payload)
			w.drain(to)
			h.observe(to)
		}
	}
	k := 0
	mk := func(view hotstuff.View, parent hotstuff.Hash, qc hotstuff.QuorumCert) *hotstuff.Block {
		k++
		b := hotstuff.NewBlock(parent, qc, &clientpb.Batch{Commands: []*clientpb.Command{{ClientID: 99, SequenceNumber: uint64(k), Data: []byte("byz")}}}, view, 4)
		w.regBlock(b)
		B.blockchain.Store(b)
		return b
	}
	send := func(b *hotstuff.Block, to ...*wNode) {
		for _, nd := range to {
			w.byzSendTo(B, nd, hotstuff.ProposeMsg{ID: 4, Block: b})
		}
		flush()
	}
	newview := func(qc hotstuff.QuorumCert, to ...*wNode) {
		for _, nd := range to {
			w.byzSendTo(B, nd, hotstuff.NewViewMsg{ID: 4, SyncInfo: hotstuff.NewSyncInfoWith(qc), FromNetwork: true})
		}
		flush()
	}
	certify := func(b *hotstuff.Block) (hotstuff.QuorumCert, bool) {
		if pc, err := B.auth.CreatePartialCert(b); err == nil {
			B.votesSeen[b.Hash()] = append(B.votesSeen[b.Hash()], pc)
		}
		w.byzAssemble(B)
		h.observe(nil)
		for _, q := range w.qcs {
			if q.BlockHash() == b.Hash() {
				return q, true
			}
		}
		return hotstuff.QuorumCert{}, false
	}
	gen := hotstuff.GetGenesis()
	genQC := B.viewStates.HighQC()
	// views 1..3: everybody processes a <- b <- c
	a := mk(1, gen.Hash(), genQC)
	send(a, h1, h2, h3)
	qa, oka := certify(a)
	if !oka {
		return c01Finish(h, live, 0), nil
	}
	b := mk(2, a.Hash(), qa)
	send(b, h1, h2, h3)
	qb, okb := certify(b)
	if !okb {
		return c01Finish(h, live, 0), nil
	}
	c := mk(3, b.Hash(), qb)
	send(c, h1, h2, h3)
	qc, okc := certify(c)
	if !okc {
		return c01Finish(h, live, 0), nil
	}
	d := mk(4, c.Hash(), qc)
	// the leader's own vote for d reaches h2 before d does; it is deferred until the next proposal
	// event (the replayed c) and then makes h2 fetch d
	if pc, err := B.auth.CreatePartialCert(d); err == nil {
		w.byzSendTo(B, h2, hotstuff.VoteMsg{ID: 4, PartialCert: pc})
		flush()
	}
	send(c, h2)
	_, fetched := h2.blockchain.LocalGet(d.Hash())
	c01FetchedFirst[cons] = fetched
	// now the proposal: h1 and h2 (and the leader) certify d; h3 never sees it
	send(d, h1, h2)
	qd, okd := certify(d)
	if !okd {
		return c01Finish(h, live, 0), nil
	}
	// only h1 sees e: it commits a, b
	e := mk(5, d.Hash(), qd)
	send(e, h1)
	// the fork below b, justified by the old QC(a), for h2 and h3
	newview(qc, h3)
	newview(qd, h3, h2)
	f := mk(5, a.Hash(), qa)
	send(f, h2, h3)
	parent := f
	q, okf := certify(f)
	for v := 6; v <= 9 && okf; v++ {
		nb := mk(hotstuff.View(v), parent.Hash(), q)
		send(nb, h2, h3)
		q, okf = certify(nb)
		parent = nb
	}
	return c01Finish(h, live, 0), nil
}

// c01ForgedQCCache: certificates must carry a quorum of DISTINCT signers whatever was verified before.
// Signature cache on. After a common prefix a1..a3, replicas 2 and 3 follow the genuine branch; the
// Byzantine leader shows replica 1 a private branch whose certificates consist of the leader's own
// vote signature repeated three times, each time after having delivered that single vote (so that
// a cache remembering signatures signer by signer knows every entry). A replica that accepts them
// commits the private branch next to the genuine one.
func c01ForgedQCCache(cons string, seed int64) (*c01Result, error) {
	spec := wSpec{consensus: cons, n: 4, byz: []hotstuff.ID{4}, seed: seed, cache: 100}
	for i := 0; i < 20; i++ {
		spec.leaders = append(spec.leaders, 4)
	}
	w, err := newWorld(spec)
	if err != nil {
		return nil, err
	}
	h := newC01Hist(w, spec)
	B := w.nodes[NodeID{ReplicaID: 4}]
	h1, h2, h3 := w.nodes[NodeID{ReplicaID: 1}], w.nodes[NodeID{ReplicaID: 2}], w.nodes[NodeID{ReplicaID: 3}]
	live := []*wNode{h1, h2, h3}
	for _, id := range w.order {
		w.partition[id] = 0
	}
	flush := func() {
		for guard := 0; len(w.pending) > 0 && guard < 10000; guard++ {
			m := w.pending[0]
			w.pending = w.pending[1:]
			to := w.nodes[m.to]
			if to.byz {
				w.byzHandle(to, m.payload)
				h.observe(nil)
				continue
			}
			if p, ok := m.payload.(hotstuff.ProposeMsg); ok {
				w.regProposal(&p)
			}
			to.eventLoop.AddEvent(m.payload)
			w.drain(to)
			h.observe(to)
		}
	}
	k := 0
	mk := func(view hotstuff.View, parent hotstuff.Hash, qc hotstuff.QuorumCert) *hotstuff.Block {
		k++
		b := hotstuff.NewBlock(parent, qc, &clientpb.Batch{Commands: []*clientpb.Command{{ClientID: 99, SequenceNumber: uint64(k), Data: []byte("byz")}}}, view, 4)
		w.regBlock(b)
		B.blockchain.Store(b)
		return b
	}
	send := func(b *hotstuff.Block, to ...*wNode) {
		for _, nd := range to {
			w.byzSendTo(B, nd, hotstuff.ProposeMsg{ID: 4, Block: b})
		}
		flush()
	}
	newview := func(qc hotstuff.QuorumCert, to ...*wNode) {
		for _, nd := range to {
			w.byzSendTo(B, nd, hotstuff.NewViewMsg{ID: 4, SyncInfo: hotstuff.NewSyncInfoWith(qc), FromNetwork: true})
		}
		flush()
	}
	certify := func(b *hotstuff.Block) (hotstuff.QuorumCert, bool) {
		if pc, err := B.auth.CreatePartialCert(b); err == nil {
			B.votesSeen[b.Hash()] = append(B.votesSeen[b.Hash()], pc)
		}
		w.byzAssemble(B)
		h.observe(nil)
		for _, q := range w.qcs {
			if q.BlockHash() == b.Hash() {
				return q, true
			}
		}
		return hotstuff.QuorumCert{}, false
	}
	gen := hotstuff.GetGenesis()
	genQC := B.viewStates.HighQC()
	// a certificate made of the Byzantine replica's own vote signature, listed three times
	forge := func(b *hotstuff.Block) (hotstuff.QuorumCert, hotstuff.PartialCert, bool) {
		pc, err := B.auth.CreatePartialCert(b)
		if err != nil {
			return hotstuff.QuorumCert{}, pc, false
		}
		h.observe(nil)
		m, ok := pc.Signature().(crypto.Multi[*crypto.ECDSASignature])
		if !ok || len(m) != 1 {
			return hotstuff.QuorumCert{}, pc, false
		}
		return hotstuff.NewQuorumCert(crypto.Multi[*crypto.ECDSASignature]{m[0], m[0], m[0]}, b.View(), b.Hash()), pc, true
	}
	vote := func(pc hotstuff.PartialCert, to *wNode) {
		w.byzSendTo(B, to, hotstuff.VoteMsg{ID: 4, PartialCert: pc})
		flush()
	}
	// views 1..3: a common, genuinely certified prefix a1 <- a2 <- a3 seen by everybody
	parent, q := gen, genQC
	ok := true
	for v := 1; v <= 3 && ok; v++ {
		nb := mk(hotstuff.View(v), parent.Hash(), q)
		send(nb, h1, h2, h3)
		q, ok = certify(nb)
		parent = nb
	}
	if !ok {
		return c01Finish(h, live, 0), nil
	}
	a3, qa3 := parent, q
	// the genuine branch for h2 and h3 (views 4..8), certified by h2, h3 and the leader
	newview(qa3, h1, h2, h3)
	gp, gq, gok := a3, qa3, true
	for v := 4; v <= 8 && gok; v++ {
		nb := mk(hotstuff.View(v), gp.Hash(), gq)
		send(nb, h2, h3)
		gq, gok = certify(nb)
		gp = nb
	}
	// the private branch for h1: p4 on a3 (genuine QC), then p5.. justified by forged certificates.
	// Each forged certificate is shown once (rejected), then the leader's single vote for the
	// certified block is delivered (a verified single signature), then the certificate is shown again.
	pp := mk(4, a3.Hash(), qa3)
	send(pp, h1)
	for v := 5; v <= 8; v++ {
		fq, pc, fok := forge(pp)
		if !fok {
			break
		}
		nb := mk(hotstuff.View(v), pp.Hash(), fq)
		send(nb, h1)
		vote(pc, h1)
		send(nb, h1)
		newview(fq, h1)
		send(nb, h1)
		pp = nb
	}
	return c01Finish(h, live, 0), nil
}

// c01RogueKeyBLS (BLS12 stacks): a member whose proof of possession does not verify contributes nothing.
// The Byzantine replica registers the rogue key x*G - pk1 - pk2 with a replayed proof and shows replicas 2
// and 3 two different chains whose certificates "by {1,2,4}" it forged alone. Honest replicas must reject
// them (and commit nothing); a replica that accepts them commits a block nobody voted for, and the two
// victims' ledgers diverge at the first position.
func c01RogueKeyBLS(cons string, seed int64) (*c01Result, error) {
	spec := wSpec{consensus: cons, n: 4, byz: []hotstuff.ID{4}, seed: seed, crypto: "bls12"}
	for i := 0; i < 20; i++ {
		spec.leaders = append(spec.leaders, 4)
	}
	w, err := newWorld(spec)
	if err != nil {
		return nil, err
	}
	h := newC01Hist(w, spec)
	B := w.nodes[NodeID{ReplicaID: 4}]
	h1, h2, h3 := w.nodes[NodeID{ReplicaID: 1}], w.nodes[NodeID{ReplicaID: 2}], w.nodes[NodeID{ReplicaID: 3}]
	live := []*wNode{h1, h2, h3}
	for _, id := range w.order {
		w.partition[id] = 0
	}
	flush := func() {
		for guard := 0; len(w.pending) > 0 && guard < 10000; guard++ {
			m := w.pending[0]
			w.pending = w.pending[1:]
			to := w.nodes[m.to]
			if to.byz {
				w.byzHandle(to, m.payload)
				h.observe(nil)
				continue
			}
			if p, ok := m.payload.(hotstuff.ProposeMsg); ok {
				w.regProposal(&p)
			}
			to.eventLoop.AddEvent(m.payload)
			w.drain(to)
			h.observe(to)
		}
	}
	k := 0
	mk := func(view hotstuff.View, parent hotstuff.Hash, qc hotstuff.QuorumCert) *hotstuff.Block {
		k++
		b := hotstuff.NewBlock(parent, qc, &clientpb.Batch{Commands: []*clientpb.Command{{ClientID: 99, SequenceNumber: uint64(k), Data: []byte("byz")}}}, view, 4)
		w.regBlock(b)
		B.blockchain.Store(b)
		return b
	}
	send := func(b *hotstuff.Block, to ...*wNode) {
		for _, nd := range to {
			w.byzSendTo(B, nd, hotstuff.ProposeMsg{ID: 4, Block: b})
		}
		flush()
	}
	newview := func(qc hotstuff.QuorumCert, to ...*wNode) {
		for _, nd := range to {
			w.byzSendTo(B, nd, hotstuff.NewViewMsg{ID: 4, SyncInfo: hotstuff.NewSyncInfoWith(qc), FromNetwork: true})
		}
		flush()
	}
	certify := func(b *hotstuff.Block) (hotstuff.QuorumCert, bool) {
		if pc, err := B.auth.CreatePartialCert(b); err == nil {
			B.votesSeen[b.Hash()] = append(B.votesSeen[b.Hash()], pc)
		}
		w.byzAssemble(B)
		h.observe(nil)
		for _, q := range w.qcs {
			if q.BlockHash() == b.Hash() {
				return q, true
			}
		}
		return hotstuff.QuorumCert{}, false
	}
	gen := hotstuff.GetGenesis()
	genQC := B.viewStates.HighQC()
	_ = newview
	_ = certify
	// the Byzantine replica re-registers itself everywhere with the rogue key x*G - pk1 - pk2 and a replayed
	// proof of possession (replica 1's; at replica 1 replica 2's, since nobody checks its own proof)
	pk1, ok1 := h1.config.ReplicaInfo(1)
	pk2, ok2 := h1.config.ReplicaInfo(2)
	if !ok1 || !ok2 {
		return c01Finish(h, live, 0), nil
	}
	pub, forge, err := wRogue([]hotstuff.PublicKey{pk1.PubKey, pk2.PubKey})
	if err != nil {
		return nil, err
	}
	for _, nd := range live {
		meta := h1.config.ConnectionMetadata()
		if nd == h1 {
			meta = h2.config.ConnectionMetadata()
		}
		nd.config.AddReplica(&hotstuff.ReplicaInfo{ID: 4, PubKey: pub, Metadata: meta})
	}
	forged := func(b *hotstuff.Block) (hotstuff.QuorumCert, bool) {
		sg, err := forge(b.ToBytes(), []hotstuff.ID{1, 2, 4})
		if err != nil {
			return hotstuff.QuorumCert{}, false
		}
		return hotstuff.NewQuorumCert(sg, b.View(), b.Hash()), true
	}
	// two private four-block chains justified by forged certificates only: one for replica 2, one for replica 3
	for _, victim := range []*wNode{h2, h3} {
		parent, q := gen, genQC
		for v := 1; v <= 5; v++ {
			nb := mk(hotstuff.View(v), parent.Hash(), q)
			send(nb, victim)
			fq, okf := forged(nb)
			if !okf {
				break
			}
			parent, q = nb, fq
		}
	}
	return c01Finish(h, live, 0), nil
}

// c01ForeignSigners: a certificate's participants must all be configured replicas with a verified signature.
// The Byzantine leader shows replicas 2 and 3 private chains whose certificates carry its own genuine signature
// and name two identities outside the configuration; a verifier that skips participants it has no key for
// still counts them, certifies both chains, and the two replicas commit different blocks at position 0.
func c01ForeignSigners(cons, scheme string, seed int64) (*c01Result, error) {
	spec := wSpec{consensus: cons, n: 4, byz: []hotstuff.ID{4}, seed: seed, crypto: scheme}
	for i := 0; i < 20; i++ {
		spec.leaders = append(spec.leaders, 4)
	}
	w, err := newWorld(spec)
	if err != nil {
		return nil, err
	}
	h := newC01Hist(w, spec)
	B := w.nodes[NodeID{ReplicaID: 4}]
	h1, h2, h3 := w.nodes[NodeID{ReplicaID: 1}], w.nodes[NodeID{ReplicaID: 2}], w.nodes[NodeID{ReplicaID: 3}]
	live := []*wNode{h1, h2, h3}
	for _, id := range w.order {
		w.partition[id] = 0
	}
	flush := func() {
		for guard := 0; len(w.pending) > 0 && guard < 10000; guard++ {
			m := w.pending[0]
			w.pending = w.pending[1:]
			to := w.nodes[m.to]
			if to.byz {
				w.byzHandle(to, m.payload)
				h.observe(nil)
				continue
			}
			if p, ok := m.payload.(hotstuff.ProposeMsg); ok {
				w.regProposal(&p)
			}
			to.eventLoop.AddEvent(m.payload)
			w.drain(to)
			h.observe(to)
		}
	}
	k := 0
	mk := func(view hotstuff.View, parent hotstuff.Hash, qc hotstuff.QuorumCert) *hotstuff.Block {
		k++
		b := hotstuff.NewBlock(parent, qc, &clientpb.Batch{Commands: []*clientpb.Command{{ClientID: 99, SequenceNumber: uint64(k), Data: []byte("byz")}}}, view, 4)
		w.regBlock(b)
		B.blockchain.Store(b)
		return b
	}
	send := func(b *hotstuff.Block, to ...*wNode) {
		for _, nd := range to {
			w.byzSendTo(B, nd, hotstuff.ProposeMsg{ID: 4, Block: b})
		}
		flush()
	}
	newview := func(qc hotstuff.QuorumCert, to ...*wNode) {
		for _, nd := range to {
			w.byzSendTo(B, nd, hotstuff.NewViewMsg{ID: 4, SyncInfo: hotstuff.NewSyncInfoWith(qc), FromNetwork: true})
		}
		flush()
	}
	certify := func(b *hotstuff.Block) (hotstuff.QuorumCert, bool) {
		if pc, err := B.auth.CreatePartialCert(b); err == nil {
			B.votesSeen[b.Hash()] = append(B.votesSeen[b.Hash()], pc)
		}
		w.byzAssemble(B)
		h.observe(nil)
		for _, q := range w.qcs {
			if q.BlockHash() == b.Hash() {
				return q, true
			}
		}
		return hotstuff.QuorumCert{}, false
	}
	gen := hotstuff.GetGenesis()
	genQC := B.viewStates.HighQC()
	_ = newview
	_ = certify
	// certificates carrying ONE genuine signature (the Byzantine leader's own) and claiming two further signers that
	// are not replicas at all (ids 9 and 10): three claimed participants reach the quorum count of 3
	forged := func(b *hotstuff.Block) (hotstuff.QuorumCert, bool) {
		pc, err := B.auth.CreatePartialCert(b)
		if err != nil {
			return hotstuff.QuorumCert{}, false
		}
		var sg hotstuff.QuorumSignature
		switch own := pc.Signature().(type) {
		case *crypto.BLS12AggregateSignature:
			var bf crypto.Bitfield
			bf.Add(4)
			bf.Add(9)
			bf.Add(10)
			r, err := crypto.RestoreBLS12AggregateSignature(own.ToBytes(), bf)
			if err != nil {
				return hotstuff.QuorumCert{}, false
			}
			sg = r
		case crypto.Multi[*crypto.ECDSASignature]:
			sg = crypto.NewMulti(own[0], crypto.RestoreECDSASignature(own[0].ToBytes(), 9), crypto.RestoreECDSASignature(own[0].ToBytes(), 10))
		case crypto.Multi[*crypto.EDDSASignature]:
			sg = crypto.NewMulti(own[0], crypto.RestoreEDDSASignature(own[0].ToBytes(), 9), crypto.RestoreEDDSASignature(own[0].ToBytes(), 10))
		default:
			return hotstuff.QuorumCert{}, false
		}
		return hotstuff.NewQuorumCert(sg, b.View(), b.Hash()), true
	}
	// two private four-block chains justified by forged certificates only: one for replica 2, one for replica 3
	for _, victim := range []*wNode{h2, h3} {
		parent, q := gen, genQC
		for v := 1; v <= 5; v++ {
			nb := mk(hotstuff.View(v), parent.Hash(), q)
			send(nb, victim)
			fq, okf := forged(nb)
			if !okf {
				break
			}
			parent, q = nb, fq
		}
	}
	return c01Finish(h, live, 0), nil
}

// c01TailForgery: replica 2 is shown a private chain whose certificates hold two genuine signatures (the Byzantine
// leader's and replica 2's own vote) and, in the last position, a made-up entry under replica 1's id, while replicas 1
// and 3 follow the genuinely certified chain. Run with GOMAXPROCS lowered to 2 as well as unchanged.
func c01TailForgery(cons, scheme string, procs int, seed int64) (*c01Result, error) {
	spec := wSpec{consensus: cons, n: 4, byz: []hotstuff.ID{4}, seed: seed, crypto: scheme}
	for i := 0; i < 20; i++ {
		spec.leaders = append(spec.leaders, 4)
	}
	w, err := newWorld(spec)
	if err != nil {
		return nil, err
	}
	h := newC01Hist(w, spec)
	B := w.nodes[NodeID{ReplicaID: 4}]
	h1, h2, h3 := w.nodes[NodeID{ReplicaID: 1}], w.nodes[NodeID{ReplicaID: 2}], w.nodes[NodeID{ReplicaID: 3}]
	live := []*wNode{h1, h2, h3}
	for _, id := range w.order {
		w.partition[id] = 0
	}
	flush := func() {
		for guard := 0; len(w.pending) > 0 && guard < 10000; guard++ {
			m := w.pending[0]
			w.pending = w.pending[1:]
			to := w.nodes[m.to]
			if to.byz {
				w.byzHandle(to, m.payload)
				h.observe(nil)
				continue
			}
			if p, ok := m.payload.(hotstuff.ProposeMsg); ok {
				w.regProposal(&p)
			}
			to.eventLoop.AddEvent(m.payload)
			w.drain(to)
			h.observe(to)
		}
	}
	k := 0
	mk := func(view hotstuff.View, parent hotstuff.Hash, qc hotstuff.QuorumCert) *hotstuff.Block {
		k++
		b := hotstuff.NewBlock(parent, qc, &clientpb.Batch{Commands: []*clientpb.Command{{ClientID: 99, SequenceNumber: uint64(k), Data: []byte("byz")}}}, view, 4)
		w.regBlock(b)
		B.blockchain.Store(b)
		return b
	}
	send := func(b *hotstuff.Block, to ...*wNode) {
		for _, nd := range to {
			w.byzSendTo(B, nd, hotstuff.ProposeMsg{ID: 4, Block: b})
		}
		flush()
	}
	newview := func(qc hotstuff.QuorumCert, to ...*wNode) {
		for _, nd := range to {
			w.byzSendTo(B, nd, hotstuff.NewViewMsg{ID: 4, SyncInfo: hotstuff.NewSyncInfoWith(qc), FromNetwork: true})
		}
		flush()
	}
	certify := func(b *hotstuff.Block) (hotstuff.QuorumCert, bool) {
		if pc, err := B.auth.CreatePartialCert(b); err == nil {
			B.votesSeen[b.Hash()] = append(B.votesSeen[b.Hash()], pc)
		}
		w.byzAssemble(B)
		h.observe(nil)
		for _, q := range w.qcs {
			if q.BlockHash() == b.Hash() {
				return q, true
			}
		}
		return hotstuff.QuorumCert{}, false
	}
	gen := hotstuff.GetGenesis()
	genQC := B.viewStates.HighQC()
	_ = newview
	_ = certify
	// every signature entry must be verified however the work is split among workers: with fewer logical CPUs than
	// entries a verifier that divides the entries among GOMAXPROCS workers and forgets the remainder skips the tail
	if procs > 0 {
		defer runtime.GOMAXPROCS(runtime.GOMAXPROCS(procs))
	}
	// a private chain for replica 2: each block's certificate lists the leader's genuine signature, replica 2's own
	// genuine vote for that block, and LAST a made-up entry under replica 1's id
	victim := h2
	parent, q := gen, genQC
	for v := 1; v <= 5; v++ {
		nb := mk(hotstuff.View(v), parent.Hash(), q)
		send(nb, victim)
		own, err := B.auth.CreatePartialCert(nb)
		if err != nil {
			break
		}
		var vote hotstuff.PartialCert
		found := false
		for _, pc := range B.votesSeen[nb.Hash()] {
			if pc.Signer() == victim.id.ReplicaID {
				vote, found = pc, true
			}
		}
		if !found {
			break
		}
		var sg hotstuff.QuorumSignature
		switch o := own.Signature().(type) {
		case crypto.Multi[*crypto.ECDSASignature]:
			vs, ok := vote.Signature().(crypto.Multi[*crypto.ECDSASignature])
			if !ok || len(vs) != 1 {
				return c01Finish(h, live, 0), nil
			}
			sg = crypto.NewMulti(o[0], vs[0], crypto.RestoreECDSASignature(o[0].ToBytes(), 1))
		case crypto.Multi[*crypto.EDDSASignature]:
			vs, ok := vote.Signature().(crypto.Multi[*crypto.EDDSASignature])
			if !ok || len(vs) != 1 {
				return c01Finish(h, live, 0), nil
			}
			sg = crypto.NewMulti(o[0], vs[0], crypto.RestoreEDDSASignature(o[0].ToBytes(), 1))
		default:
			return c01Finish(h, live, 0), nil
		}
		parent, q = nb, hotstuff.NewQuorumCert(sg, nb.View(), nb.Hash())
	}
	// the honest chain for replicas 1 and 3 (with the leader's vote each block has a genuine quorum)
	parent, q = gen, genQC
	for v := 1; v <= 5; v++ {
		nb := mk(hotstuff.View(v), parent.Hash(), q)
		send(nb, h1, h3)
		fq, ok := certify(nb)
		if !ok {
			break
		}
		parent, q = nb, fq
	}
	return c01Finish(h, live, 0), nil
}

// c01StaleQCLeader: the lock must never move backwards. Replica 4 (Byzantine) leads every view.
// A <- B <- D <- E is voted by everybody (locks on B); F (QC E) is shown to replica 1 only, which
// commits [A, B]. The leader then proposes N on top of B with the OLD QC(B): replicas 2 and 3 vote
// (N extends their lock); processing N must not move their lock back to A. It then proposes W on
// top of A with QC(A): with the lock on B replicas 2 and 3 refuse; a regressed lock lets them
// certify W and three descendants commit W next to the committed B.
func c01StaleQCLeader(cons string, seed int64) (*c01Result, error) {
	spec := wSpec{consensus: cons, n: 4, byz: []hotstuff.ID{4}, seed: seed}
	for i := 0; i < 30; i++ {
		spec.leaders = append(spec.leaders, 4)
	}
	w, err := newWorld(spec)
	if err != nil {
		return nil, err
	}
	h := newC01Hist(w, spec)
	B := w.nodes[NodeID{ReplicaID: 4}]
	h1, h2, h3 := w.nodes[NodeID{ReplicaID: 1}], w.nodes[NodeID{ReplicaID: 2}], w.nodes[NodeID{ReplicaID: 3}]
	live := []*wNode{h1, h2, h3}
	for _, id := range w.order {
		w.partition[id] = 0
	}
	flush := func() {
		for guard := 0; len(w.pending) > 0 && guard < 10000; guard++ {
			m := w.pending[0]
			w.pending = w.pending[1:]
			to := w.nodes[m.to]
			if to.byz {
				w.byzHandle(to, m.payload)
				h.observe(nil)
				continue
			}
			if p, ok := m.payload.(hotstuff.ProposeMsg); ok {
				w.regProposal(&p)
			}
			to.eventLoop.AddEvent(m.payload)
			w.drain(to)
			h.observe(to)
		}
	}
	k := 0
	mk := func(view hotstuff.View, parent hotstuff.Hash, qc hotstuff.QuorumCert) *hotstuff.Block {
		k++
		b := hotstuff.NewBlock(parent, qc, &clientpb.Batch{Commands: []*clientpb.Command{{ClientID: 99, SequenceNumber: uint64(k), Data: []byte("byz")}}}, view, 4)
		w.regBlock(b)
		B.blockchain.Store(b)
		return b
	}
	send := func(b *hotstuff.Block, to ...*wNode) {
		for _, nd := range to {
			w.byzSendTo(B, nd, hotstuff.ProposeMsg{ID: 4, Block: b})
		}
		flush()
	}
	newview := func(qc hotstuff.QuorumCert, to ...*wNode) {
		for _, nd := range to {
			w.byzSendTo(B, nd, hotstuff.NewViewMsg{ID: 4, SyncInfo: hotstuff.NewSyncInfoWith(qc), FromNetwork: true})
		}
		flush()
	}
	certify := func(b *hotstuff.Block) (hotstuff.QuorumCert, bool) {
		if pc, err := B.auth.CreatePartialCert(b); err == nil {
			B.votesSeen[b.Hash()] = append(B.votesSeen[b.Hash()], pc)
		}
		w.byzAssemble(B)
		h.observe(nil)
		for _, q := range w.qcs {
			if q.BlockHash() == b.Hash() {
				return q, true
			}
		}
		return hotstuff.QuorumCert{}, false
	}
	gen := hotstuff.GetGenesis()
	genQC := B.viewStates.HighQC()
	// views 1..4: A <- Bk <- D <- E, everybody votes
	parent, qc := gen.Hash(), genQC
	var blocks []*hotstuff.Block
	var qcs []hotstuff.QuorumCert
	ok := true
	for v := 1; v <= 4 && ok; v++ {
		b := mk(hotstuff.View(v), parent, qc)
		send(b, h1, h2, h3)
		var q hotstuff.QuorumCert
		q, ok = certify(b)
		blocks, qcs = append(blocks, b), append(qcs, q)
		parent, qc = b.Hash(), q
	}
	if ok {
		A, Bk, E := blocks[0], blocks[1], blocks[3]
		qA, qB, qE := qcs[0], qcs[1], qcs[3]
		// F (QC E) to replica 1 only: it commits Bk
		F := mk(5, E.Hash(), qE)
		send(F, h1)
		// replicas 2, 3 learn QC(E) (moves them to view 5) and get N = (view 5, parent Bk, old QC(Bk))
		newview(qE, h2, h3)
		N := mk(5, Bk.Hash(), qB)
		send(N, h2, h3)
		qN, okN := certify(N)
		if okN {
			newview(qN, h2, h3)
		}
		// W = (view 6, parent A, QC(A)) and three descendants
		W := mk(6, A.Hash(), qA)
		send(W, h2, h3)
		qW, okW := certify(W)
		par := W
		for v := 7; v <= 10 && okW; v++ {
			nb := mk(hotstuff.View(v), par.Hash(), qW)
			send(nb, h2, h3)
			qW, okW = certify(nb)
			par = nb
		}
	}
	return c01Finish(h, live, 0), nil
}

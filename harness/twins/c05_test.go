package twins

import (
	"time"
	"context"
	"fmt"
	"sort"
	"strings"
	"sync/atomic"
	"testing"

	"github.com/relab/hotstuff"
	"github.com/relab/hotstuff/core/eventloop"
	"github.com/relab/hotstuff/internal/proto/clientpb"
)

func c05ChainLen(cons string) int {
	if cons == "fasthotstuff" {
		return 2
	}
	return 3
}

func c05Leaders(mode string, n, length int, rng func(int) int, pool []hotstuff.ID) wLeaders {
	var l wLeaders
	for v := 1; v <= length; v++ {
		switch mode {
		case "fixed":
			l = append(l, pool[0])
		case "roundrobin":
			l = append(l, pool[v%len(pool)])
		default:
			l = append(l, pool[rng(len(pool))])
		}
	}
	return l
}

// deliver the oldest pending message; returns false if there is none
func (h *c01Hist) deliverOne(filter func(m wMsg) bool) bool {
	w := h.w
	for len(w.pending) > 0 {
		m := w.pending[0]
		w.pending = w.pending[1:]
		if w.crashed[m.to] || (filter != nil && !filter(m)) {
			continue
		}
		to := w.nodes[m.to]
		if p, ok := m.payload.(hotstuff.ProposeMsg); ok {
			w.regProposal(&p)
		}
		to.eventLoop.AddEvent(m.payload)
		w.drain(to)
		h.observe(to)
		return true
	}
	return false
}

type c05Sync struct {
	hist   *c01Hist
	logs   map[hotstuff.ID][]uint64 // committed block ids per replica
	views  map[hotstuff.ID][]uint64 // committed block views per replica
	oracle string
	detail string
}

// c05FaultFree runs k synchronous fault-free views: no timer fires, every message is delivered in
// FIFO order, votes for the view-k block are withheld so that no view-(k+1) block is created.
func c05FaultFree(cons string, n, k int, mode string, seed int64) (*c05Sync, error) {
	spec := wSpec{consensus: cons, n: n, seed: seed}
	w0 := newC05Rng(seed)
	pool := make([]hotstuff.ID, n)
	for i := range pool {
		pool[i] = hotstuff.ID(i + 1)
	}
	spec.leaders = c05Leaders(mode, n, k+8, w0, pool)
	w, err := newWorld(spec)
	if err != nil {
		return nil, err
	}
	h := newC01Hist(w, spec)
	for _, id := range w.order {
		w.partition[id] = 0
	}
	var live []*wNode
	for _, id := range w.order {
		live = append(live, w.nodes[id])
	}
	w.start()
	for _, nd := range live {
		h.observe(nd)
	}
	filter := func(m wMsg) bool {
		if v, ok := m.payload.(hotstuff.VoteMsg); ok {
			if b, ok := w.blocks[v.PartialCert.BlockHash()]; ok && int(b.View()) >= k {
				return false
			}
		}
		return true
	}
	for i := 0; i < 200000 && h.deliverOne(filter); i++ {
	}
	res := &c05Sync{hist: h, logs: map[hotstuff.ID][]uint64{}, views: map[hotstuff.ID][]uint64{}}
	c := c05ChainLen(cons)
	for _, nd := range live {
		for _, b := range nd.commits {
			res.logs[nd.id.ReplicaID] = append(res.logs[nd.id.ReplicaID], h.id(b.Hash()))
			res.views[nd.id.ReplicaID] = append(res.views[nd.id.ReplicaID], uint64(b.View()))
		}
		// every view extended the chain and commits trail the newest block by exactly c
		want := k - c
		if want < 0 {
			want = 0
		}
		got := res.views[nd.id.ReplicaID]
		ok := len(got) == want
		for i := 0; ok && i < len(got); i++ {
			ok = got[i] == uint64(i+1)
		}
		if !ok && res.oracle == "" {
			res.oracle = "liveness:fault-free-run-not-trailing-by-chain-length"
			res.detail = fmt.Sprintf("replica %d after %d synchronous views committed views %v, want 1..%d (lastVoted=%d view=%d)", nd.id.ReplicaID, k, got, want, nd.lastVoted(), nd.viewStates.View())
		}
	}
	return res, nil
}

func newC05Rng(seed int64) func(int) int {
	x := uint64(seed)*6364136223846793005 + 1442695040888963407
	return func(n int) int {
		x = x*6364136223846793005 + 1442695040888963407
		return int((x >> 33) % uint64(n))
	}
}

type c05Rec struct {
	hist          *c01Hist
	oracle        string
	detail        string
	rounds        int
	spread        int
	crashed       []hotstuff.ID
	newCommits    map[hotstuff.ID]int
	prefixCommits int
	// idleTimersOnly: timers fire only when no message is in flight (used when progress is certificate
	// driven and a timeout would hand the lagging replica the sync info that hides a catch-up defect)
	idleTimersOnly bool
}

// c05Recovery: a random prefix (partitions, loss, duplication, timeouts, up to f crashed replicas),
// then a synchronous suffix among the live replicas: all pending and new messages are delivered
// before any timer fires; when nothing is left to deliver all live timers fire.
// c05Rejoin: replica `lag` is cut off while the others run synchronously for `views` views (views it
// leads end by timeout, leaving view gaps); then the partition heals, another replica crashes so
// that the rejoining replica is needed for every quorum, and the live replicas run synchronously.
func c05Rejoin(cons string, n int, seed int64, views int, mode string) (*c05Rec, error) {
	rng := newC05Rng(seed)
	lagID := hotstuff.ID(1 + rng(n))
	crashID := hotstuff.ID(1 + rng(n))
	for crashID == lagID {
		crashID = hotstuff.ID(1 + rng(n))
	}
	all := make([]hotstuff.ID, n)
	for i := range all {
		all[i] = hotstuff.ID(i + 1)
	}
	noCrash := mode == "all-live"
	if noCrash {
		// nobody crashes: the rejoining replica is needed for no quorum and leads no view of the suffix, so
		// only the proposals it receives (one view per certificate, later ones parked) can bring it back
		crashID = 0
	}
	var pool []hotstuff.ID
	for _, id := range all {
		if id != crashID && !(noCrash && id == lagID) {
			pool = append(pool, id)
		}
	}
	spec := wSpec{consensus: cons, n: n, seed: seed}
	if mode == "lag-leads" {
		// the cut-off replica leads the last views of the isolation phase (they end by timeout among the
		// others, whose timeout certificate is then newer than their highest QC) and every view of the
		// suffix: it can make progress only by learning the others' high QC from their sync info
		spec.leaders = c05Leaders("roundrobin", n, views, rng, all)
		for i := 0; i < 402; i++ {
			spec.leaders = append(spec.leaders, lagID)
		}
		views += 2
	} else if noCrash {
		spec.leaders = append(c05Leaders("roundrobin", n, views+2, rng, pool), c05Leaders("roundrobin", n, 400, rng, pool)...)
	} else {
		spec.leaders = append(c05Leaders("roundrobin", n, views+2, rng, all), c05Leaders(mode, n, 400, rng, pool)...)
	}
	w, err := newWorld(spec)
	if err != nil {
		return nil, err
	}
	h := newC01Hist(w, spec)
	var live, others []*wNode
	for _, id := range w.order {
		nd := w.nodes[id]
		if nd.id.ReplicaID != crashID {
			live = append(live, nd)
		}
		if nd.id.ReplicaID != lagID {
			others = append(others, nd)
		}
		w.partition[id] = 0
	}
	w.partition[NodeID{ReplicaID: lagID}] = 1
	w.start()
	for _, id := range w.order {
		h.observe(w.nodes[id])
	}
	// phase 1: the others run until they reach view `views`
	for round := 0; round < 40*views; round++ {
		maxv := hotstuff.View(0)
		for _, nd := range others {
			if nd.viewStates.View() > maxv {
				maxv = nd.viewStates.View()
			}
		}
		if int(maxv) > views {
			break
		}
		if !h.deliverOne(nil) {
			for _, nd := range others {
				nd.eventLoop.AddEvent(hotstuff.TimeoutEvent{View: nd.viewStates.View()})
				w.drain(nd)
				h.observe(nd)
			}
		}
	}
	// phase 2: heal, crash one replica, synchronous suffix
	w.partition[NodeID{ReplicaID: lagID}] = 0
	for _, nd := range w.byID[crashID] {
		w.crashed[nd.id] = true
	}
	res := &c05Rec{hist: h, crashed: []hotstuff.ID{crashID}, newCommits: map[hotstuff.ID]int{}}
	if noCrash {
		res.crashed = nil
		res.idleTimersOnly = true
	}
	c05Suffix(h, live, cons, res)
	return res, nil
}

// c05Suffix runs the synchronous suffix among the live replicas and evaluates the oracle.
func c05Suffix(h *c01Hist, live []*wNode, cons string, res *c05Rec) {
	w := h.w
	base := map[NodeID]int{}
	minV, maxV := hotstuff.View(1<<62), hotstuff.View(0)
	for _, nd := range live {
		base[nd.id] = len(nd.commits)
		res.prefixCommits += len(nd.commits)
		v := nd.viewStates.View()
		if v < minV {
			minV = v
		}
		if v > maxV {
			maxV = v
		}
	}
	res.spread = int(maxV - minV)
	c := c05ChainLen(cons)
	bound := res.spread + 4*c + 6
	if bound > 60 {
		bound = 60
	}
	if res.idleTimersOnly && bound > 10 {
		bound = 10 // certificate-driven catch-up takes one proposal per view of the gap; keep the history short
	}
	done := func() bool {
		for _, nd := range live {
			if len(nd.commits) <= base[nd.id] {
				return false
			}
		}
		return true
	}
	for res.rounds = 0; res.rounds < bound && !done(); res.rounds++ {
		more := true
		perRound := 1200
		if res.idleTimersOnly {
			perRound = 400
		}
		for i := 0; i < perRound && !done(); i++ {
			if !h.deliverOne(nil) {
				more = false
				break
			}
		}
		if done() {
			break
		}
		if res.idleTimersOnly && more {
			continue // messages are still flowing: in a synchronous period no timer fires meanwhile
		}
		for _, nd := range live {
			nd.eventLoop.AddEvent(hotstuff.TimeoutEvent{View: nd.viewStates.View()})
			w.drain(nd)
			h.observe(nd)
		}
	}
	for _, nd := range live {
		res.newCommits[nd.id.ReplicaID] = len(nd.commits) - base[nd.id]
	}
	if !done() {
		res.oracle = "liveness:no-commit-after-synchrony"
		var vs []string
		for _, nd := range live {
			vs = append(vs, fmt.Sprintf("%d:view=%d,new=%d", nd.id.ReplicaID, nd.viewStates.View(), len(nd.commits)-base[nd.id]))
		}
		res.detail = fmt.Sprintf("after %d synchronous rounds (bound %d = spread %d + 4*%d + 6) not every live replica committed a new block: %s", res.rounds, bound, res.spread, c, strings.Join(vs, " "))
	}
}

func c05Recovery(cons string, n int, seed int64, prefixSteps int) (*c05Rec, error) {
	rng := newC05Rng(seed)
	f := (n - 1) / 3
	spec := wSpec{consensus: cons, n: n, seed: seed, dropProb: 0.05 * float64(rng(5)), dupProb: 0.03 * float64(rng(3))}
	ncrash := rng(f + 1)
	perm := make([]int, n)
	for i := range perm {
		perm[i] = i
	}
	for i := n - 1; i > 0; i-- {
		j := rng(i + 1)
		perm[i], perm[j] = perm[j], perm[i]
	}
	var crashed []hotstuff.ID
	var pool []hotstuff.ID
	for i, p := range perm {
		if i < ncrash {
			crashed = append(crashed, hotstuff.ID(p+1))
		} else {
			pool = append(pool, hotstuff.ID(p+1))
		}
	}
	sort.Slice(pool, func(a, b int) bool { return pool[a] < pool[b] })
	all := make([]hotstuff.ID, n)
	for i := range all {
		all[i] = hotstuff.ID(i + 1)
	}
	mode := []string{"fixed", "roundrobin", "scripted"}[rng(3)]
	// early views may be led by anybody (also replicas that crash), later ones by live replicas
	spec.leaders = append(c05Leaders("scripted", n, 4, rng, all), c05Leaders(mode, n, 400, rng, pool)...)
	w, err := newWorld(spec)
	if err != nil {
		return nil, err
	}
	h := newC01Hist(w, spec)
	var live []*wNode
	for _, id := range w.order {
		nd := w.nodes[id]
		isCrashed := false
		for _, c := range crashed {
			if c == nd.id.ReplicaID {
				isCrashed = true
			}
		}
		if !isCrashed {
			live = append(live, nd)
		}
	}
	crashAt := rng(prefixSteps + 1)
	repartition := func() {
		k := 1 + rng(3)
		for _, id := range w.order {
			w.partition[id] = rng(k)
		}
	}
	for _, id := range w.order {
		w.partition[id] = 0
	}
	w.start()
	for _, id := range w.order {
		h.observe(w.nodes[id])
	}
	for w.step = 0; w.step < prefixSteps; w.step++ {
		if w.step == crashAt {
			for _, c := range crashed {
				for _, nd := range w.byID[c] {
					w.crashed[nd.id] = true
				}
			}
		}
		r := rng(100)
		switch {
		case r < 5:
			repartition()
		case r < 20:
			nd := w.nodes[w.order[rng(len(w.order))]]
			if w.crashed[nd.id] {
				continue
			}
			nd.eventLoop.AddEvent(hotstuff.TimeoutEvent{View: nd.viewStates.View()})
			w.drain(nd)
			h.observe(nd)
		default:
			if len(w.pending) == 0 {
				continue
			}
			i := 0
			if rng(3) == 0 {
				i = rng(len(w.pending))
			}
			m := w.pending[i]
			w.pending = append(w.pending[:i], w.pending[i+1:]...)
			if w.crashed[m.to] {
				continue
			}
			to := w.nodes[m.to]
			if p, ok := m.payload.(hotstuff.ProposeMsg); ok {
				w.regProposal(&p)
			}
			to.eventLoop.AddEvent(m.payload)
			w.drain(to)
			h.observe(to)
		}
	}
	for _, c := range crashed {
		for _, nd := range w.byID[c] {
			w.crashed[nd.id] = true
		}
	}
	// synchronous suffix
	w.dropProb, w.dupProb = 0, 0
	for _, id := range w.order {
		w.partition[id] = 0
	}
	res := &c05Rec{hist: h, crashed: crashed, newCommits: map[hotstuff.ID]int{}}
	c05Suffix(h, live, cons, res)
	return res, nil
}

// c05HeldCert: a replica that is one view behind the certificate it holds (advanceView moves one view per
// certificate) must still be able to get out with its own timeout. n=4. Views 1-2 run cleanly; the view-3 proposal
// misses replica 3 and all view-3 votes are lost; replicas 1, 2, 4 give up on view 3 (replica 3 is still in view 2),
// only replica 4 receives the three timeouts, assembles TC(3), sends its new-view (TC(3), QC(2)) to replica 3, the
// leader of view 4, and crashes. Replica 3 steps into view 3 holding TC(3). Then the network is synchronous among
// 1, 2, 3 (every one of them is needed for a quorum): replica 3's timeout for view 3 carries TC(3) and takes
// everybody to view 4.
func c05HeldCert(cons string, seed int64) (*c05Rec, error) {
	spec := wSpec{consensus: cons, n: 4, seed: seed}
	spec.leaders = wLeaders{1, 2, 1, 3}
	for i := 0; i < 400; i++ {
		spec.leaders = append(spec.leaders, hotstuff.ID(i%3+1))
	}
	w, err := newWorld(spec)
	if err != nil {
		return nil, err
	}
	h := newC01Hist(w, spec)
	res := &c05Rec{hist: h, newCommits: map[hotstuff.ID]int{}, crashed: []hotstuff.ID{4}}
	for _, id := range w.order {
		w.partition[id] = 0
	}
	node := func(id hotstuff.ID) *wNode { return w.nodes[NodeID{ReplicaID: id}] }
	viewOf := func(m wMsg) hotstuff.View {
		switch p := m.payload.(type) {
		case hotstuff.ProposeMsg:
			return p.Block.View()
		case hotstuff.VoteMsg:
			if b, ok := w.blocks[p.PartialCert.BlockHash()]; ok {
				return b.View()
			}
		case hotstuff.TimeoutMsg:
			return p.View
		}
		return 0
	}
	w.start()
	for _, id := range w.order {
		h.observe(w.nodes[id])
	}
	// views 1, 2 in full; of view 3 only the proposal, and not to replica 3
	for i := 0; i < 5000 && h.deliverOne(func(m wMsg) bool {
		v := viewOf(m)
		if v >= 3 {
			_, isProp := m.payload.(hotstuff.ProposeMsg)
			return isProp && v == 3 && m.to.ReplicaID != 3
		}
		return true
	}); i++ {
	}
	// 1, 2, 4 give up on view 3, 3 on view 2; only replica 4 hears the timeouts
	for _, id := range []hotstuff.ID{1, 2, 4, 3} {
		nd := node(id)
		nd.eventLoop.AddEvent(hotstuff.TimeoutEvent{View: nd.viewStates.View()})
		w.drain(nd)
		h.observe(nd)
	}
	// deliver the first pending message the filter selects and keep the others in flight
	deliverKeep := func(filter func(m wMsg) bool) bool {
		for i, m := range w.pending {
			if !filter(m) {
				continue
			}
			w.pending = append(append([]wMsg{}, w.pending[:i]...), w.pending[i+1:]...)
			to := w.nodes[m.to]
			to.eventLoop.AddEvent(m.payload)
			w.drain(to)
			h.observe(to)
			return true
		}
		return false
	}
	for i := 0; i < 5000 && deliverKeep(func(m wMsg) bool {
		_, isT := m.payload.(hotstuff.TimeoutMsg)
		return isT && m.to.ReplicaID == 4
	}); i++ {
	}
	// replica 4's new-view for view 4 reaches replica 3; everything else in flight is lost; replica 4 crashes
	for i := 0; i < 5000 && deliverKeep(func(m wMsg) bool {
		_, isNV := m.payload.(hotstuff.NewViewMsg)
		return isNV && m.from.ReplicaID == 4 && m.to.ReplicaID == 3
	}); i++ {
	}
	w.pending = nil
	w.crashed[NodeID{ReplicaID: 4}] = true
	live := []*wNode{node(1), node(2), node(3)}
	for _, nd := range live {
		tcv := int64(-1)
		if tc, ok := nd.viewStates.SyncInfo().TC(); ok {
			tcv = int64(tc.View())
		}
		res.detail += fmt.Sprintf("[before the suffix: replica %d view %d highTC %d] ", nd.id.ReplicaID, nd.viewStates.View(), tcv)
	}
	pre := res.detail
	res.idleTimersOnly = true
	c05Suffix(h, live, cons, res)
	res.detail = pre + res.detail
	return res, nil
}

// c05RealTimers: the replicas' own view timers (not the scripts' TimeoutEvents) must bring a quorum back after a
// loss that outlasts several timeouts. Four honest replicas with a real 20 ms view timer; phase 1: every message
// is lost for 8 timer periods (each replica gives up on view 1 repeatedly); phase 2: the network is synchronous.
// A replica whose timer is not running any more never re-sends its timeout, no certificate forms, and nobody
// commits. Returns the number of blocks each replica committed in phase 2 and how many timeout messages each sent
// in phase 1.
func c05RealTimers(cons string, seed int64) (commits map[string]int, sentInLoss map[string]int, waited time.Duration, err error) {
	const period = 20 * time.Millisecond
	spec := wSpec{consensus: cons, n: 4, seed: seed, timer: period}
	for i := 0; i < 4000; i++ {
		spec.leaders = append(spec.leaders, hotstuff.ID(i%4+1))
	}
	w, err := newWorld(spec)
	if err != nil {
		return nil, nil, 0, err
	}
	for _, id := range w.order {
		w.partition[id] = 0
	}
	ctx, cancel := context.WithCancel(context.Background())
	defer cancel()
	var live []*wNode
	for _, id := range w.order {
		nd := w.nodes[id]
		live = append(live, nd)
		nd.sync.Start(ctx)
		w.drain(nd)
	}
	commits, sentInLoss = map[string]int{}, map[string]int{}
	// phase 1: total loss
	end1 := time.Now().Add(8 * period)
	for time.Now().Before(end1) {
		for _, nd := range live {
			w.drain(nd)
		}
		for _, m := range w.pending {
			if _, ok := m.payload.(hotstuff.TimeoutMsg); ok {
				sentInLoss[m.from.String()]++
			}
		}
		w.pending = nil
		time.Sleep(time.Millisecond)
	}
	base := map[NodeID]int{}
	for _, nd := range live {
		base[nd.id] = len(nd.commits)
	}
	// phase 2: synchrony, until everybody has committed something new (or 6 s have passed)
	start := time.Now()
	for time.Since(start) < 6*time.Second {
		for guard := 0; len(w.pending) > 0 && guard < 100000; guard++ {
			m := w.pending[0]
			w.pending = w.pending[1:]
			to := w.nodes[m.to]
			if p, ok := m.payload.(hotstuff.ProposeMsg); ok {
				w.regProposal(&p)
			}
			to.eventLoop.AddEvent(m.payload)
			w.drain(to)
		}
		all := true
		for _, nd := range live {
			w.drain(nd)
			if len(nd.commits) <= base[nd.id] {
				all = false
			}
		}
		if all {
			break
		}
		time.Sleep(time.Millisecond)
	}
	waited = time.Since(start)
	for _, nd := range live {
		commits[nd.id.String()] = len(nd.commits) - base[nd.id]
	}
	return commits, sentInLoss, waited, nil
}

// c05Arrivals: a fault-free synchronous run on the replicas' real view timers in which the command
// caches start EMPTY and a client keeps handing one new command to every replica every 2 ms, as clients do
// (view timer 150 ms).
// Commands pile up at a replica while others lead and are proposed by them; each replica leads every fourth
// view. With commands always arriving, a leader's proposal may wait for the next command but never for its
// view timer: every replica must keep committing and (nearly) no view may end by the local timer. Returns the
// commits, views and local timeouts per replica inside a 3 s window that starts after a 0.5 s warm-up, and the
// number of commands handed out.
func c05Arrivals(cons string, seed int64) (commits map[string]int, views map[string]int, timeouts map[string]int, handed int, err error) {
	spec := wSpec{consensus: cons, n: 4, seed: seed, timer: 150 * time.Millisecond, noPreload: true}
	for i := 0; i < 40000; i++ {
		spec.leaders = append(spec.leaders, hotstuff.ID(i%4+1))
	}
	w, err := newWorld(spec)
	if err != nil {
		return nil, nil, nil, 0, err
	}
	for _, id := range w.order {
		w.partition[id] = 0
	}
	ctx, cancel := context.WithCancel(context.Background())
	defer cancel()
	var live []*wNode
	localTimeouts := map[NodeID]*int{}
	for _, id := range w.order {
		nd := w.nodes[id]
		live = append(live, nd)
		cnt := new(int)
		localTimeouts[nd.id] = cnt
		eventloop.Register(nd.eventLoop, func(hotstuff.TimeoutEvent) { *cnt++ })
	}
	// the client: one command to every replica every 2 ms (CommandCache.Add is the concurrent entry point the
	// client-facing server uses)
	var handedOut atomic.Int64
	clientDone := make(chan struct{})
	go func() {
		defer close(clientDone)
		tick := time.NewTicker(2 * time.Millisecond)
		defer tick.Stop()
		for seq := uint64(1); ; seq++ {
			select {
			case <-ctx.Done():
				return
			case <-tick.C:
			}
			for _, nd := range live {
				nd.cmdCache.Add(&clientpb.Command{ClientID: 7, SequenceNumber: seq, Data: []byte(fmt.Sprint(seq))})
			}
			handedOut.Add(1)
		}
	}()
	for _, nd := range live {
		nd.sync.Start(ctx)
		w.drain(nd)
	}
	pump := func(d time.Duration) {
		start := time.Now()
		for time.Since(start) < d {
			for guard := 0; len(w.pending) > 0 && guard < 2000 && time.Since(start) < d; guard++ {
				m := w.pending[0]
				w.pending = w.pending[1:]
				to := w.nodes[m.to]
				if p, ok := m.payload.(hotstuff.ProposeMsg); ok {
					w.regProposal(&p)
				}
				to.eventLoop.AddEvent(m.payload)
				w.drain(to)
			}
			for _, nd := range live {
				w.drain(nd)
			}
			time.Sleep(200 * time.Microsecond)
		}
	}
	pump(500 * time.Millisecond)
	base, baseV, baseT := map[NodeID]int{}, map[NodeID]hotstuff.View{}, map[NodeID]int{}
	for _, nd := range live {
		base[nd.id], baseV[nd.id], baseT[nd.id] = len(nd.commits), nd.viewStates.View(), *localTimeouts[nd.id]
	}
	pump(3 * time.Second)
	cancel()
	<-clientDone
	commits, views, timeouts = map[string]int{}, map[string]int{}, map[string]int{}
	for _, nd := range live {
		commits[nd.id.String()] = len(nd.commits) - base[nd.id]
		views[nd.id.String()] = int(nd.viewStates.View() - baseV[nd.id])
		timeouts[nd.id.String()] = *localTimeouts[nd.id] - baseT[nd.id]
	}
	return commits, views, timeouts, int(handedOut.Load()), nil
}

func TestVerifC05(t *testing.T) {
	v := verifNew("C05")
	sh := v.Stream("hist", "hist_mismatches", 12)
	sf := v.Stream("fhist", "fhist_mismatches", 12)
	ss := v.Stream("sync", "sync_mismatches", 200)
	emitHist := func(cons string, n int, h *c01Hist, meta map[string]any) {
		reps := make([]hotstuff.ID, n)
		for k := range reps {
			reps[k] = hotstuff.ID(k + 1)
		}
		meta["trace"] = h.evDesc
		if h.fast {
			v.Case(sf, fmt.Sprintf("(%s, [], [%s])", c01IDs(reps), strings.Join(h.events, ";\n  ")), meta)
		} else {
			v.Case(ss2(sh), fmt.Sprintf("(%s, %s, [], [%s])", c01RsTerm(cons), c01IDs(reps), strings.Join(h.events, ";\n  ")), meta)
		}
	}
	// 1. fault-free synchronous runs: exact trailing, compared with the model's synchronous run
	for _, cons := range []string{"chainedhotstuff", "simplehotstuff", "fasthotstuff"} {
		for _, n := range []int{4, 7} {
			for _, mode := range []string{"fixed", "roundrobin", "scripted"} {
				for _, k := range []int{1, 3, 4, 9, v.Pick(14, 40)} {
					res, err := c05FaultFree(cons, n, k, mode, v.seed+int64(k))
					if err != nil {
						t.Fatalf("world: %v", err)
					}
					meta := map[string]any{"kind": "fault-free", "consensus": cons, "n": n, "k": k, "leaders": mode, "committed_views": res.views}
					v.Seen(fmt.Sprintf("ff/%s/%d/%s/%d", cons, n, mode, k), k >= 4, meta)
					v.Count("faultfree_" + cons)
					if res.oracle != "" {
						v.Oracle(false, res.oracle+":"+cons, res.detail, meta)
					} else {
						v.Oracle(true, "", "", nil)
					}
					if len(res.hist.w.panics) > 0 {
						v.Note("panic in code under test: " + res.hist.w.panics[0])
					}
					if cons != "fasthotstuff" {
						var rows []string
						for r := 1; r <= n; r++ {
							xs := make([]string, 0)
							for _, x := range res.logs[hotstuff.ID(r)] {
								xs = append(xs, fmt.Sprint(x))
							}
							rows = append(rows, fmt.Sprintf("(%d, [%s])", r, strings.Join(xs, "; ")))
						}
						v.Case(ss, fmt.Sprintf("(%s, %d%%nat, %d%%nat, [%s])", c01RsTerm(cons), n, k, strings.Join(rows, "; ")), meta)
					}
					m2 := map[string]any{}
					for a, b := range meta {
						m2[a] = b
					}
					emitHist(cons, n, res.hist, m2)
				}
			}
		}
	}
	// 2. recovery: random prefix with crashes, then synchrony among the live replicas
	nrec := v.Pick(25, 600)
	for _, cons := range []string{"chainedhotstuff", "simplehotstuff", "fasthotstuff"} {
		for i := 0; i < nrec; i++ {
			n := 4
			if i%3 == 2 {
				n = 7
			}
			seed := v.rng.Int63()
			res, err := c05Recovery(cons, n, seed, 40+v.rng.Intn(260))
			if err != nil {
				t.Fatalf("world: %v", err)
			}
			meta := map[string]any{"kind": "recovery", "consensus": cons, "n": n, "world_seed": seed, "crashed": res.crashed,
				"view_spread": res.spread, "rounds": res.rounds, "new_commits": res.newCommits, "prefix_commits": res.prefixCommits}
			v.Seen(fmt.Sprintf("rec/%s/%d/%d", cons, n, seed), res.hist.votes >= 4, meta)
			v.Count("recovery_" + cons)
			v.CountN("recovery_rounds", res.rounds)
			v.CountN("crashed_replicas", len(res.crashed))
			if res.oracle != "" {
				v.Oracle(false, res.oracle+":"+cons, res.detail, meta)
			} else {
				v.Oracle(true, "", "", nil)
			}
			m2 := map[string]any{}
			for a, b := range meta {
				m2[a] = b
			}
			emitHist(cons, n, res.hist, m2)
		}
	}
	// 3. rejoin: one replica cut off for several views, then needed for every quorum
	for _, cons := range []string{"chainedhotstuff", "simplehotstuff"} {
		for _, n := range []int{4, 7} {
			for _, mode := range []string{"fixed", "roundrobin", "scripted", "lag-leads", "all-live"} {
				for _, views := range []int{6, 12, v.Pick(20, 40)} {
					if mode == "all-live" && views > 8 {
						continue // a proposal more than 10 views ahead is dropped by design: the gap must stay below that
					}
					for rep := 0; rep < v.Pick(2, 8); rep++ {
						seed := v.rng.Int63()
						res, err := c05Rejoin(cons, n, seed, views, mode)
						if err != nil {
							t.Fatalf("world: %v", err)
						}
						meta := map[string]any{"kind": "rejoin", "consensus": cons, "n": n, "world_seed": seed, "isolated_views": views, "leaders": mode,
							"crashed": res.crashed, "view_spread": res.spread, "rounds": res.rounds, "new_commits": res.newCommits}
						v.Seen(fmt.Sprintf("rejoin/%s/%d/%d", cons, n, seed), true, meta)
						v.Count("rejoin_" + cons)
						if res.oracle != "" {
							v.Oracle(false, res.oracle+":"+cons, res.detail, meta)
						} else {
							v.Oracle(true, "", "", nil)
						}
						m2 := map[string]any{}
						for a, b := range meta {
							m2[a] = b
						}
						emitHist(cons, n, res.hist, m2)
					}
				}
			}
		}
	}
	// 3b. a replica one view behind the certificate it holds, needed for every quorum
	for _, cons := range []string{"chainedhotstuff", "simplehotstuff"} {
		res, err := c05HeldCert(cons, v.seed)
		if err != nil {
			t.Fatalf("world: %v", err)
		}
		meta := map[string]any{"kind": "held-certificate", "consensus": cons, "n": 4, "crashed": res.crashed, "state": res.detail,
			"view_spread": res.spread, "rounds": res.rounds, "new_commits": res.newCommits, "prefix_commits": res.prefixCommits}
		v.Note("held-certificate " + cons + ": " + res.detail)
		v.Seen("held-cert/"+cons, true, meta)
		v.Count("held_cert_" + cons)
		if res.oracle != "" {
			v.Oracle(false, res.oracle+":held-certificate:"+cons, res.detail, meta)
		} else {
			v.Oracle(true, "", "", nil)
		}
		emitHist(cons, 4, res.hist, meta)
	}
	// 4. the replicas' own view timers: loss outlasting several timeouts, then synchrony (chained and simple; the
	// fasthotstuff liveness findings are reported by the fault-free runs above)
	for _, cons := range []string{"chainedhotstuff", "simplehotstuff"} {
		commits, sent, waited, err := c05RealTimers(cons, v.seed)
		if err != nil {
			t.Fatalf("world: %v", err)
		}
		meta := map[string]any{"kind": "real-timers", "consensus": cons, "n": 4, "timer_ms": 20, "loss_periods": 8,
			"commits_after_heal": commits, "timeouts_sent_during_loss": sent, "waited_ms": waited.Milliseconds()}
		stuck := ""
		for id, c := range commits {
			if c == 0 {
				stuck += id + " "
			}
		}
		v.Seen("real-timers/"+cons, true, meta)
		v.Count("real_timers_" + cons)
		if stuck != "" {
			v.Oracle(false, "liveness:no-commit-after-loss-with-real-view-timers:"+cons,
				fmt.Sprintf("after a loss of 8 timer periods and 6 s of synchrony these replicas committed nothing new: %s(timeout messages sent during the loss: %v)", stuck, sent), meta)
		} else {
			v.Oracle(true, "", "", nil)
		}
	}
	// 5. commands arriving while the system runs (empty caches at the start), on the real view timers
	for _, cons := range []string{"chainedhotstuff", "simplehotstuff"} {
		commits, views, timeouts, handed, err := c05Arrivals(cons, v.seed)
		if err != nil {
			t.Fatalf("world: %v", err)
		}
		meta := map[string]any{"kind": "commands-arrive-while-running", "consensus": cons, "n": 4, "timer_ms": 150, "one_command_every_ms": 2,
			"window_ms": 3000, "warm_up_ms": 500, "commands_handed_to_every_replica": handed, "commits_in_window": commits, "views_in_window": views, "local_timeouts_in_window": timeouts}
		slow := ""
		for id, c := range commits {
			// a quarter of the views ending by the replica's own timer (or next to no views at all) in a fault-free
			// synchronous run: scheduling noise on a loaded machine stays far below that (a spurious timeout needs
			// a stall of 150 ms)
			if c < 3 || views[id] < 10 || 4*timeouts[id] > views[id] {
				slow += fmt.Sprintf("%s(%d commits, %d views, %d of them ended by its own view timer) ", id, c, views[id], timeouts[id])
			}
		}
		v.Note(fmt.Sprintf("commands arriving while running, %s: %d commands handed out, commits in the 3 s window %v, views %v, local timeouts %v", cons, handed, commits, views, timeouts))
		v.Seen("arrivals/"+cons, true, meta)
		v.Count("arrivals_" + cons)
		if slow != "" && handed >= 200 {
			v.Oracle(false, "liveness:leaders-wait-for-their-timers-with-commands-arriving:"+cons,
				fmt.Sprintf("fault-free synchronous run, %d commands handed to every replica over 3.5 s (one every 2 ms), view timer 150 ms: in the 3 s window at these replicas a quarter or more of the views ended by the local view timer (or next to nothing happened): %s— a leader with commands arriving never has to wait for its timer", handed, slow), meta)
		} else {
			v.Oracle(true, "", "", nil)
		}
	}
	v.Close("fault-free synchronous runs (3 rulesets x n in {4,7} x fixed/round-robin/scripted leaders x run lengths) and random partition/loss/crash prefixes followed by a synchronous suffix among the live replicas; non-trivial = at least 4 views / 4 honest votes; distinct by configuration and seed")
}

func ss2(s *verifStream) *verifStream { return s }

package twins

import (
	"bytes"
	"fmt"
	"io"
	"math/big"
	"math/rand"
	"reflect"
	"runtime"
	"sort"
	"strings"
	"sync"
	"testing"
	"time"

	"github.com/relab/hotstuff"
	"github.com/relab/hotstuff/core"
	"github.com/relab/hotstuff/internal/proto/clientpb"
	"github.com/relab/hotstuff/protocol/rules"
)

// ---------------------------------------------------------------------------------------------
// TestVerifC18: the Twins scenario generator yields what it announces, well-formed scenarios,
// JSON round trip, and the executor's verdict function. Every observation is emitted as a
// Gallina case for coq/Corr/C18.v; the property's own oracle is evaluated on the Go outputs.
// ---------------------------------------------------------------------------------------------

type c18NopLogger struct{}

func (c18NopLogger) DPanic(...any)          {}
func (c18NopLogger) DPanicf(string, ...any) {}
func (c18NopLogger) Debug(...any)           {}
func (c18NopLogger) Debugf(string, ...any)  {}
func (c18NopLogger) Error(...any)           {}
func (c18NopLogger) Errorf(string, ...any)  {}
func (c18NopLogger) Fatal(...any)           {}
func (c18NopLogger) Fatalf(string, ...any)  {}
func (c18NopLogger) Info(...any)            {}
func (c18NopLogger) Infof(string, ...any)   {}
func (c18NopLogger) Panic(...any)           {}
func (c18NopLogger) Panicf(string, ...any)  {}
func (c18NopLogger) Warn(...any)            {}
func (c18NopLogger) Warnf(string, ...any)   {}

type c18Set struct {
	Nodes, Twins, Parts, Views uint8
}

func (s c18Set) settings() Settings {
	return Settings{NumNodes: s.Nodes, NumTwins: s.Twins, Partitions: s.Parts, Views: s.Views, Ticks: 10}
}

func (s c18Set) meta() map[string]any {
	return map[string]any{"num_nodes": s.Nodes, "num_twins": s.Twins, "partitions": s.Parts, "views": s.Views}
}

func c18SortedPart(p NodeSet) []NodeID {
	ids := make([]NodeID, 0, len(p))
	for id := range p {
		ids = append(ids, id)
	}
	sort.Slice(ids, func(i, j int) bool {
		if ids[i].ReplicaID != ids[j].ReplicaID {
			return ids[i].ReplicaID < ids[j].ReplicaID
		}
		return ids[i].TwinID < ids[j].TwinID
	})
	return ids
}

func c18ViewKey(v View) string {
	var sb strings.Builder
	fmt.Fprintf(&sb, "L%d", v.Leader)
	for _, p := range v.Partitions {
		sb.WriteString("|")
		for _, id := range c18SortedPart(p) {
			fmt.Fprintf(&sb, "%d.%d,", id.ReplicaID, id.TwinID)
		}
	}
	return sb.String()
}

func c18GNode(id NodeID) string { return fmt.Sprintf("(%d%%N,%d%%N)", id.ReplicaID, id.TwinID) }

func c18GNodes(ids []NodeID) string {
	ss := make([]string, len(ids))
	for i, id := range ids {
		ss[i] = c18GNode(id)
	}
	return gList(ss)
}

func c18GParts(ps []NodeSet) string {
	ss := make([]string, len(ps))
	for i, p := range ps {
		ss[i] = c18GNodes(c18SortedPart(p))
	}
	return gList(ss)
}

func c18GView(v View) string { return fmt.Sprintf("(%d%%N,%s)", v.Leader, c18GParts(v.Partitions)) }

func c18GNats(xs []int) string {
	ss := make([]string, len(xs))
	for i, x := range xs {
		ss[i] = gNat(x)
	}
	return gList(ss)
}

func c18Res(panicked bool, ok string) string {
	if panicked {
		return "Panic"
	}
	return "(Ok " + ok + ")"
}

// c18NewGen calls NewGenerator, catching panics.
func c18NewGen(s Settings) (g *Generator, panicked bool, msg string) {
	defer func() {
		if r := recover(); r != nil {
			g, panicked, msg = nil, true, fmt.Sprint(r)
		}
	}()
	return NewGenerator(c18NopLogger{}, s), false, ""
}

func c18Shuffle(g *Generator, seed int64) (panicked bool) {
	defer func() {
		if r := recover(); r != nil {
			panicked = true
		}
	}()
	g.Shuffle(seed)
	return false
}

const (
	c18Scen = iota
	c18EOF
	c18Panic
)

type c18Event struct {
	rem  int64
	kind int
	scen Scenario
	code uint64
	bad  bool  // the scenario is not a list of `views` options
	rem2 int64 // Remaining() asked a second time before the call
}

func c18Next(g *Generator) (s Scenario, kind int) {
	defer func() {
		if r := recover(); r != nil {
			s, kind = nil, c18Panic
		}
	}()
	s, err := g.NextScenario()
	if err == io.EOF {
		return nil, c18EOF
	}
	if err != nil {
		return nil, c18Panic
	}
	return s, c18Scen
}

// c18Calls performs `calls` calls of NextScenario, each preceded by Remaining().
func c18Calls(g *Generator, calls int, keyIdx map[string]int, n int, views int) []c18Event {
	evs := make([]c18Event, 0, calls)
	for c := 0; c < calls; c++ {
		e := c18Event{rem: g.Remaining()}
		e.rem2 = g.Remaining()
		e.scen, e.kind = c18Next(g)
		if e.kind == c18Scen {
			e.code, e.bad = c18Code(e.scen, keyIdx, n, views)
		}
		evs = append(evs, e)
	}
	return evs
}

func c18Code(scen Scenario, keyIdx map[string]int, n, views int) (code uint64, bad bool) {
	if len(scen) != views {
		bad = true
	}
	for _, v := range scen {
		idx, ok := keyIdx[c18ViewKey(v)]
		if !ok {
			bad = true
			idx = 0
		}
		code = code*uint64(n) + uint64(idx)
	}
	if bad {
		code = 1<<63 + code%1000
	}
	return
}

// c18Retained re-reads every scenario the generator handed out earlier: a returned scenario must
// not change when the generator is used further (no reused buffers), and Remaining() must be a
// pure query.
func c18Retained(v *verifOut, evs []c18Event, keyIdx map[string]int, n, views int, meta map[string]any) {
	okKeep, okIdem := true, true
	for _, e := range evs {
		if e.kind == c18Scen {
			if code, _ := c18Code(e.scen, keyIdx, n, views); code != e.code {
				okKeep = false
			}
		}
		if e.rem != e.rem2 {
			okIdem = false
		}
	}
	v.Oracle(okKeep, "generator.next:returned-scenario-changed-later", "a scenario returned by NextScenario was modified by later use of the generator", meta)
	v.Oracle(okIdem, "generator.remaining:not-a-pure-query", "two consecutive Remaining() calls return different numbers", meta)
}

func c18GEvents(evs []c18Event) string {
	ss := make([]string, len(evs))
	for i, e := range evs {
		switch e.kind {
		case c18Scen:
			ss[i] = fmt.Sprintf("(%s,EvScen %s)", gZ(e.rem), gN(e.code))
		case c18EOF:
			ss[i] = fmt.Sprintf("(%s,EvEOF)", gZ(e.rem))
		default:
			ss[i] = fmt.Sprintf("(%s,EvPanic)", gZ(e.rem))
		}
	}
	return gList(ss)
}

func c18Codes(evs []c18Event) []uint64 {
	var cs []uint64
	for _, e := range evs {
		if e.kind == c18Scen {
			cs = append(cs, e.code)
		}
	}
	return cs
}

// c18ExpectedNodes is the oracle's own idea of the configured network nodes.
func c18ExpectedNodes(numNodes, numTwins uint8) map[NodeID]bool {
	m := map[NodeID]bool{}
	for id := 1; id <= int(numNodes); id++ {
		if id <= int(numTwins) {
			m[NodeID{hotstuff.ID(id), 1}] = true
			m[NodeID{hotstuff.ID(id), 2}] = true
		} else {
			m[NodeID{hotstuff.ID(id), 0}] = true
		}
	}
	return m
}

func c18IntPow(n, k int) (int64, bool) {
	r := int64(1)
	for i := 0; i < k; i++ {
		if n != 0 && r > (1<<53)/int64(n) {
			return 0, false
		}
		r *= int64(n)
	}
	return r, true
}

// ---- unit level: assignNodeIDs, genPartitionSizes, pairs, validity, genPartitionScenarios ----

func c18Unit(v *verifOut) {
	sa := v.Stream("assign", "assign_mismatches", 400)
	for nn := 0; nn <= v.Pick(8, 12); nn++ {
		for nt := 0; nt <= v.Pick(5, 8); nt++ {
			nodes, twins := assignNodeIDs(uint8(nn), uint8(nt))
			v.Seen(fmt.Sprintf("assign %d %d", nn, nt), nt > 0 && nn > nt, nil)
			v.Count("assign")
			exp := c18ExpectedNodes(uint8(nn), uint8(nt))
			ok := len(nodes)+len(twins) == len(exp)
			for _, id := range nodes {
				ok = ok && exp[id] && id.TwinID == 0
			}
			for _, id := range twins {
				ok = ok && exp[id] && id.TwinID != 0
			}
			v.Oracle(ok, "assign:wrong-node-set", "assignNodeIDs does not return the configured nodes", map[string]int{"num_nodes": nn, "num_twins": nt})
			v.Case(sa, fmt.Sprintf("(%s,%s,(%s,%s))", gNat(nn), gNat(nt), c18GNodes(nodes), c18GNodes(twins)), map[string]int{"num_nodes": nn, "num_twins": nt})
		}
	}

	ss := v.Stream("sizes", "sizes_mismatches", 60)
	for n := 1; n <= v.Pick(10, 14); n++ {
		for k := 0; k <= v.Pick(5, 6); k++ {
			var sizes [][]uint8
			panicked := func() (p bool) {
				defer func() {
					if recover() != nil {
						p = true
					}
				}()
				sizes = genPartitionSizes(uint8(n), uint8(k), 1)
				return false
			}()
			v.Seen(fmt.Sprintf("sizes %d %d", n, k), k >= 2 && n >= 3, nil)
			v.Count("sizes")
			rows := make([]string, len(sizes))
			seen := map[string]bool{}
			ok := true
			for i, row := range sizes {
				xs := make([]int, len(row))
				sum := 0
				for j, x := range row {
					xs[j] = int(x)
					sum += int(x)
					if j > 0 && row[j] > row[j-1] {
						ok = false
					}
				}
				if sum != n || len(row) != k || seen[fmt.Sprint(row)] || (len(row) > 0 && row[0] == 0) {
					ok = false
				}
				seen[fmt.Sprint(row)] = true
				rows[i] = c18GNats(xs)
			}
			if !panicked {
				v.Oracle(ok, "sizes:not-a-partition-of-n", "a size vector is not a distinct non-increasing split of n into k parts", map[string]int{"n": n, "k": k})
			}
			v.Case(ss, fmt.Sprintf("(%s,%s,%s)", gNat(n), gNat(k), c18Res(panicked, gList(rows))), map[string]int{"n": n, "k": k})
		}
	}

	sp := v.Stream("pairs", "pairs_mismatches", 50)
	for n := 0; n <= 6; n++ {
		pairs := generateTwinPartitionPairs(uint8(n))
		ps := make([]string, len(pairs))
		for i, p := range pairs {
			ps[i] = fmt.Sprintf("(%s,%s)", gNat(int(p[0])), gNat(int(p[1])))
		}
		v.Seen(fmt.Sprintf("pairs %d", n), n >= 2, nil)
		v.Oracle(len(pairs) == n*(n+1)/2, "pairs:count", "generateTwinPartitionPairs does not return n(n+1)/2 pairs", n)
		v.Case(sp, fmt.Sprintf("(%s,%s)", gNat(n), gList(ps)), n)
	}

	// validity of twin placements: all size vectors of n<=6,k<=3 against all placements of <=2 pairs
	// (plus out-of-range partition numbers)
	sv := v.Stream("valid", "valid_mismatches", 40)
	modified := 0
	for n := 1; n <= 6; n++ {
		for k := 1; k <= 3; k++ {
			for _, sz := range genPartitionSizes(uint8(n), uint8(k), 1) {
				var entries []string
				xs := make([]int, len(sz))
				for j, x := range sz {
					xs[j] = int(x)
				}
				pairs := generateTwinPartitionPairs(uint8(k + 1))
				var tas [][]twinAssignment
				tas = append(tas, nil)
				for _, a := range pairs {
					tas = append(tas, []twinAssignment{a})
					for _, b := range pairs {
						tas = append(tas, []twinAssignment{a, b})
					}
				}
				for _, ta := range tas {
					szBefore := append([]uint8(nil), sz...)
					got := isValidTwinAssignment(ta, sz)
					if !reflect.DeepEqual(szBefore, sz) {
						modified++
						if modified == 1 {
							// diagnostic only: whether this matters depends on what the caller passes in; the
							// consequence for the property (a node in no partition) is judged on the options
							v.Note(fmt.Sprintf("isValidTwinAssignment(%v, %v) leaves the caller's size vector as %v", ta, szBefore, sz))
						}
						copy(sz, szBefore)
					}
					// oracle: demand per partition <= size, all partition numbers in range
					need := make([]int, len(sz))
					want := true
					for _, a := range ta {
						for _, t := range a {
							if int(t) >= len(sz) {
								want = false
							} else {
								need[t]++
							}
						}
					}
					for j := range need {
						if need[j] > int(sz[j]) {
							want = false
						}
					}
					v.Seen(fmt.Sprintf("valid %v %v", sz, ta), len(ta) > 0, nil)
					v.Oracle(got == want, "valid:wrong", "isValidTwinAssignment disagrees with per-partition demand <= size", map[string]any{"sizes": xs, "assignment": fmt.Sprint(ta)})
					es := make([]string, len(ta))
					for i, a := range ta {
						es[i] = fmt.Sprintf("(%s,%s)", gNat(int(a[0])), gNat(int(a[1])))
					}
					entries = append(entries, fmt.Sprintf("(%s,%s)", gList(es), gBool(got)))
				}
				v.Count("valid_vectors")
				v.Case(sv, fmt.Sprintf("(%s,%s)", c18GNats(xs), gList(entries)), map[string]any{"sizes": xs})
			}
		}
	}

	// genPartitionScenarios on id lists that NewGenerator would not produce (other ids, odd twin count)
	sg := v.Stream("pscen", "pscen_mismatches", 20)
	type pin struct {
		twins, nodes []NodeID
		k            uint8
	}
	pins := []pin{
		{[]NodeID{{1, 1}, {1, 2}}, []NodeID{{2, 3}, {3, 4}, {4, 5}}, 3},
		{[]NodeID{{7, 1}, {7, 2}, {9, 1}, {9, 2}}, []NodeID{{3, 0}}, 2},
		{[]NodeID{{1, 1}, {1, 2}, {2, 1}}, []NodeID{{3, 0}, {4, 0}}, 2}, // odd: the third twin is never placed
		{nil, []NodeID{{5, 0}, {6, 0}, {8, 0}, {9, 0}}, 4},
		{[]NodeID{{1, 1}, {1, 2}}, nil, 2},
		{[]NodeID{{1, 1}, {1, 2}}, []NodeID{{2, 0}}, 0},
	}
	for i, p := range pins {
		var out [][]NodeSet
		panicked := func() (pp bool) {
			defer func() {
				if recover() != nil {
					pp = true
				}
			}()
			out = genPartitionScenarios(p.twins, p.nodes, p.k, 1)
			return false
		}()
		rows := make([]string, len(out))
		for j, ps := range out {
			rows[j] = c18GParts(ps)
		}
		v.Seen(fmt.Sprintf("pscen %d", i), true, nil)
		v.Count("pscen")
		v.Case(sg, fmt.Sprintf("(%s,%s,%s,%s)", c18GNodes(p.twins), c18GNodes(p.nodes), gNat(int(p.k)), c18Res(panicked, gList(rows))), i)
	}
}

// ---- option list + well-formedness, for one (nodes, twins, partitions) ----

var c18OrderNoted bool

type c18Opts struct {
	lp       []View
	keyIdx   map[string]int
	class    []int // class[i] = first option that is the same view as option i up to the order of the partitions
	panicked bool
}

// c18ViewSetKey identifies a view irrespective of the order of its partitions (the order has no
// meaning for the network: two nodes can talk iff some partition contains both).
func c18ViewSetKey(v View) string {
	parts := make([]string, len(v.Partitions))
	for i, p := range v.Partitions {
		var sb strings.Builder
		for _, id := range c18SortedPart(p) {
			fmt.Fprintf(&sb, "%d.%d,", id.ReplicaID, id.TwinID)
		}
		parts[i] = sb.String()
	}
	sort.Strings(parts)
	return fmt.Sprintf("L%d|%s", v.Leader, strings.Join(parts, "|"))
}

func c18Options(v *verifOut, st c18Set, inBound bool) c18Opts {
	st.Views = 1
	g, panicked, msg := c18NewGen(st.settings())
	so := v.Stream("opts", "opt_mismatches", 6)
	meta := st.meta()
	delete(meta, "views")
	v.Count(fmt.Sprintf("opts_nodes=%d", st.Nodes))
	if panicked {
		// outside the domain (no partitions / no nodes): the model says Panic as well
		v.Seen(fmt.Sprintf("opts %v", st), false, nil)
		v.Note(fmt.Sprintf("NewGenerator(%+v) panics: %s", meta, msg))
		if inBound {
			v.Oracle(false, "generator.new:panic", "NewGenerator panics for settings in the property's domain: "+msg, meta)
		}
		v.Case(so, fmt.Sprintf("(%s,%s,%s,Panic)", gNat(int(st.Nodes)), gNat(int(st.Twins)), gNat(int(st.Parts))), meta)
		return c18Opts{panicked: true}
	}
	lp := g.leadersPartitions
	o := c18Opts{lp: lp, keyIdx: map[string]int{}}
	exp := c18ExpectedNodes(st.Nodes, st.Twins)
	vs := make([]string, len(lp))
	setIdx := map[string]int{}
	for i, opt := range lp {
		vs[i] = c18GView(opt)
		key := c18ViewKey(opt)
		if _, dup := o.keyIdx[key]; dup {
			v.Oracle(false, "options:repeated", "the same (leader, partitions) option occurs twice", map[string]any{"settings": meta, "option": key})
		} else {
			o.keyIdx[key] = i
		}
		setKey := c18ViewSetKey(opt)
		if first, dup := setIdx[setKey]; dup {
			o.class = append(o.class, first)
			if c18ViewKey(lp[first]) != key {
				// observation only ("without repetition" is about scenario values): counted, not an oracle failure
				v.Count("note_options_same_up_to_partition_order")
				if !c18OrderNoted {
					c18OrderNoted = true
					v.Note(fmt.Sprintf("observation (not a finding): settings %v: option %q is the same view as %q with the partitions in a different order", meta, key, c18ViewKey(lp[first])))
				}
			}
		} else {
			setIdx[setKey] = i
			o.class = append(o.class, i)
		}
		// every node, both twins included, in exactly one partition; nothing else; k partitions
		cnt := map[NodeID]int{}
		for _, p := range opt.Partitions {
			for id := range p {
				cnt[id]++
			}
		}
		ok := len(opt.Partitions) == int(st.Parts)
		for id := range exp {
			ok = ok && cnt[id] == 1
		}
		for id := range cnt {
			ok = ok && exp[id]
		}
		v.Oracle(ok, "wf:node-not-in-exactly-one-partition", "a generated view does not place every configured node in exactly one of the k partitions", map[string]any{"settings": meta, "option": key})
		v.Oracle(opt.Leader >= 1 && int(opt.Leader) <= int(st.Nodes), "wf:leader-not-configured", "the leader of a generated view is not a configured replica", map[string]any{"settings": meta, "option": key})
	}
	c18PartitioningsOracle(v, st, lp, meta)
	v.Seen(fmt.Sprintf("opts %v", st), len(lp) > 1, map[string]any{"settings": meta, "options": len(lp)})
	v.Case(so, fmt.Sprintf("(%s,%s,%s,Ok %s)", gNat(int(st.Nodes)), gNat(int(st.Twins)), gNat(int(st.Parts)), gList(vs)), meta)
	return o
}

func c18PartsKey(parts [][]NodeID) string {
	var sb strings.Builder
	for _, p := range parts {
		sb.WriteString("|")
		for _, id := range p {
			fmt.Fprintf(&sb, "%d.%d,", id.ReplicaID, id.TwinID)
		}
	}
	return sb.String()
}

// c18SpecPartitionings re-enumerates, from the specification and independently of generator.go, the
// partitionings NewGenerator must produce for (numNodes, numTwins, k). The exact invariant of the generator
// (coq/Twins/GeneratorModel.v gen_partition_scenarios) is:
//   - n = network nodes = both twins of replicas 1..t (t = min(numTwins, numNodes)) + replicas t+1..numNodes;
//   - one partitioning for every size vector (non-increasing, k entries, sum n, trailing zeros = unused
//     partitions) x every assignment of each twin pair p to partition indices (a_p, b_p) with a_p <= b_p < k
//     (first twin rXn1 into a_p, second twin rXn2 into b_p: the canonical placement) whose per-partition demand
//     fits the sizes;
//   - the non-twin replicas are not enumerated: they fill the partitions in index order, in id order, up to
//     the sizes.
func c18SpecPartitionings(numNodes, numTwins, k int) map[string]bool {
	t := numTwins
	if t > numNodes {
		t = numNodes
	}
	n := numNodes + t
	var sizes [][]int
	var recSizes func(pre []int, left, maxPart int)
	recSizes = func(pre []int, left, maxPart int) {
		if len(pre) == k {
			if left == 0 {
				sizes = append(sizes, append([]int(nil), pre...))
			}
			return
		}
		for x := min(left, maxPart); x >= 0; x-- {
			recSizes(append(pre, x), left-x, x)
		}
	}
	recSizes(nil, n, n)
	var pairs [][2]int
	for a := 0; a < k; a++ {
		for b := a; b < k; b++ {
			pairs = append(pairs, [2]int{a, b})
		}
	}
	assigns := [][][2]int{nil}
	for p := 0; p < t; p++ {
		var next [][][2]int
		for _, a := range assigns {
			for _, pr := range pairs {
				next = append(next, append(append([][2]int(nil), a...), pr))
			}
		}
		assigns = next
	}
	out := map[string]bool{}
	for _, sz := range sizes {
		for _, as := range assigns {
			parts := make([][]NodeID, k)
			ok := true
			for p, pr := range as {
				parts[pr[0]] = append(parts[pr[0]], NodeID{hotstuff.ID(p + 1), 1})
				parts[pr[1]] = append(parts[pr[1]], NodeID{hotstuff.ID(p + 1), 2})
			}
			for j := range parts {
				if len(parts[j]) > sz[j] {
					ok = false
				}
			}
			if !ok {
				continue
			}
			next := t + 1
			for j := range parts {
				for len(parts[j]) < sz[j] {
					parts[j] = append(parts[j], NodeID{hotstuff.ID(next), 0})
					next++
				}
				sort.Slice(parts[j], func(a, b int) bool {
					if parts[j][a].ReplicaID != parts[j][b].ReplicaID {
						return parts[j][a].ReplicaID < parts[j][b].ReplicaID
					}
					return parts[j][a].TwinID < parts[j][b].TwinID
				})
			}
			out[c18PartsKey(parts)] = true
		}
	}
	return out
}

// c18PartitioningsOracle: canonical twin placement, and the set of generated partitionings is the specified one.
func c18PartitioningsOracle(v *verifOut, st c18Set, lp []View, meta map[string]any) {
	if st.Nodes < 1 || st.Parts < 1 || int(st.Nodes)+int(st.Twins) > 12 || st.Twins >= st.Nodes {
		// without a non-twin replica there is no leader, hence no option through which a partitioning shows
		return
	}
	t := int(st.Twins)
	if t > int(st.Nodes) {
		t = int(st.Nodes)
	}
	have := map[string]bool{}
	var order []string
	okCanon := true
	var badCanon map[string]any
	for _, opt := range lp {
		parts := make([][]NodeID, len(opt.Partitions))
		where := map[NodeID]int{}
		for j, p := range opt.Partitions {
			parts[j] = c18SortedPart(p)
			for _, id := range parts[j] {
				where[id] = j
			}
		}
		key := c18PartsKey(parts)
		if !have[key] {
			have[key] = true
			order = append(order, key)
		}
		for r := 1; r <= t; r++ {
			a, okA := where[NodeID{hotstuff.ID(r), 1}]
			b, okB := where[NodeID{hotstuff.ID(r), 2}]
			if okA && okB && a > b && okCanon {
				okCanon = false
				badCanon = map[string]any{"settings": meta, "scenario": key, "replica": r, "first_twin_partition": a, "second_twin_partition": b}
			}
		}
	}
	v.Oracle(okCanon, "gen.twins:placement-not-canonical", "the first twin of a replica is placed in a later partition than its second twin (placements are enumerated as pairs i <= j)", badCanon)
	spec := c18SpecPartitionings(int(st.Nodes), int(st.Twins), int(st.Parts))
	missing, unexpected := "", ""
	nMissing, nUnexpected := 0, 0
	for _, key := range order {
		if !spec[key] {
			nUnexpected++
			if unexpected == "" {
				unexpected = key
			}
		}
	}
	var specKeys []string
	for key := range spec {
		specKeys = append(specKeys, key)
	}
	sort.Strings(specKeys)
	for _, key := range specKeys {
		if !have[key] {
			nMissing++
			if missing == "" {
				missing = key
			}
		}
	}
	v.Count("partitionings_compared_with_specification")
	v.Oracle(nMissing == 0, "gen.twins:scenario-missing", fmt.Sprintf("%d of the %d specified partitionings are never generated, e.g. %s", nMissing, len(spec), missing),
		map[string]any{"settings": meta, "scenario": missing, "missing": nMissing, "specified": len(spec), "generated": len(order)})
	v.Oracle(nUnexpected == 0, "gen.twins:scenario-unexpected", fmt.Sprintf("%d of the %d generated partitionings are not specified, e.g. %s", nUnexpected, len(order), unexpected),
		map[string]any{"settings": meta, "scenario": unexpected, "unexpected": nUnexpected, "specified": len(spec), "generated": len(order)})
}

// ---- odometer: drain (or a prefix), plain and shuffled, plus JSON round trip ----

// c18ShuffleOracle replays math/rand exactly as Generator.Shuffle uses it, on option indices.
func c18ShuffleOracle(seed int64, n, views int) (perm, offs []int) {
	r := rand.New(rand.NewSource(seed))
	perm = make([]int, n)
	for i := range perm {
		perm[i] = i
	}
	r.Shuffle(n, func(i, j int) { perm[i], perm[j] = perm[j], perm[i] })
	offs = make([]int, views)
	for i := range offs {
		offs[i] = r.Intn(n)
	}
	return
}

func c18Drain(v *verifOut, st c18Set, o c18Opts, seed *int64, capN int, doJSON bool) (codes []uint64, full bool) {
	n, views := len(o.lp), int(st.Views)
	meta := st.meta()
	tag := "plain"
	if seed != nil {
		meta["seed"] = *seed
		tag = "shuffled"
	}
	g, panicked, _ := c18NewGen(st.settings())
	if panicked {
		return nil, false
	}
	v.Oracle(g.Settings() == st.settings(), "generator.settings:changed", fmt.Sprintf("Settings() = %+v after NewGenerator(%+v)", g.Settings(), st.settings()), meta)
	shuf := "None"
	if seed != nil {
		if c18Shuffle(g, *seed) {
			v.Oracle(false, "shuffle:panic", "Generator.Shuffle panics", meta)
			v.Seen(fmt.Sprintf("drain %v %s %d", st, tag, *seed), false, nil)
			return nil, false
		}
		wantS := st.settings()
		wantS.Shuffle, wantS.Seed = true, *seed
		v.Oracle(g.Settings() == wantS, "shuffle:settings-do-not-record-the-seed", fmt.Sprintf("Settings() = %+v after Shuffle(%d)", g.Settings(), *seed), meta)
		if n > 0 {
			perm, offs := c18ShuffleOracle(*seed, n, views)
			shuf = fmt.Sprintf("(Some (%s,%s))", c18GNats(perm), c18GNats(offs))
		} else {
			shuf = "(Some ([],[]))"
		}
	}
	announced := g.Remaining()
	want, exact := c18IntPow(n, views)
	if exact {
		v.Oracle(announced == want, "generator.announced:not-options-to-the-views", fmt.Sprintf("Remaining()=%d initially, but there are %d options and %d views", announced, n, views), meta)
	}
	full = announced >= 0 && announced <= int64(capN)
	calls := capN
	if full {
		calls = int(announced) + 3 // one call must hit EOF, two more must stay EOF
	}
	evs := c18Calls(g, calls, o.keyIdx, n, views)
	codes = c18Codes(evs)
	meta["announced"] = announced
	meta["yielded"] = len(codes)
	meta["calls"] = calls

	v.Count("drain_" + tag)
	v.Count(fmt.Sprintf("drain_views=%d", views))
	if full {
		v.Count("drain_full")
	} else {
		v.Count("drain_prefix")
	}
	v.CountN("scenarios_observed", len(codes))
	v.Seen(fmt.Sprintf("drain %v %s %v", st, tag, meta["seed"]), n >= 2 && views >= 2, meta)

	// the property's oracle
	seen := map[uint64]int{}
	okDistinct, okOpt, okRem, okPanic := true, true, true, true
	firstBad := -1
	for i, e := range evs {
		if e.kind == c18Panic {
			okPanic = false
			if firstBad < 0 {
				firstBad = i
			}
		}
		if e.kind == c18Scen {
			if e.bad {
				okOpt = false
			}
			if _, dup := seen[e.code]; dup {
				okDistinct = false
			}
			seen[e.code] = i
		}
	}
	// Remaining() counts down by one per scenario from the announced number
	y := 0
	for _, e := range evs {
		if e.rem != announced-int64(y) {
			okRem = false
		}
		if e.kind == c18Scen {
			y++
		}
	}
	meta2 := func(extra string) map[string]any {
		m := map[string]any{}
		for k, x := range meta {
			m[k] = x
		}
		m["detail"] = extra
		return m
	}
	v.Oracle(okPanic, "generator.next:panic", fmt.Sprintf("NextScenario panics (call %d of %d, %d announced)", firstBad+1, calls, announced), meta2(tag))
	v.Oracle(okDistinct, "generator.next:repeats-a-scenario", "the generator yields the same scenario twice", meta2(tag))
	okClass := true
	seenClass := map[string]bool{}
	for _, e := range evs {
		if e.kind == c18Scen && !e.bad {
			var sb strings.Builder
			for _, vw := range e.scen {
				fmt.Fprintf(&sb, "%d,", o.class[o.keyIdx[c18ViewKey(vw)]])
			}
			if seenClass[sb.String()] {
				okClass = false
			}
			seenClass[sb.String()] = true
		}
	}
	if okDistinct && !okClass {
		// observation only, see c18Options
		v.Count("note_drains_with_scenarios_same_up_to_partition_order")
	}
	v.Oracle(okOpt, "generator.next:scenario-not-from-options", "a yielded scenario is not a list of `views` generated options", meta2(tag))
	v.Oracle(okRem, "generator.remaining:not-counting-down-by-one", "Remaining() before a call is not announced minus scenarios yielded so far", meta2(tag))
	c18Retained(v, evs, o.keyIdx, n, views, meta2(tag))
	if full {
		// exactly the announced number of scenarios, then EOF for good
		yieldedBeforeEOF := 0
		for _, e := range evs {
			if e.kind != c18Scen {
				break
			}
			yieldedBeforeEOF++
		}
		if int64(yieldedBeforeEOF) < announced {
			v.Oracle(false, "generator.count:fewer-than-announced", fmt.Sprintf("%d scenarios announced by Remaining(), %d yielded before EOF", announced, yieldedBeforeEOF), meta2(tag))
		} else if int64(len(codes)) > announced {
			v.Oracle(false, "generator.count:more-than-announced", fmt.Sprintf("%d scenarios announced by Remaining(), %d yielded in %d calls", announced, len(codes), calls), meta2(tag))
		} else {
			v.Oracle(true, "", "", nil)
		}
	}

	sd := v.Stream("drain", "drain_mismatches", 12)
	v.Case(sd, fmt.Sprintf("(%s,%s,%s,%s)", gNat(n), gNat(views), shuf, c18GEvents(evs)), meta)

	// determinism: a second generator built the same way yields the same results
	g2, _, _ := c18NewGen(st.settings())
	if seed != nil {
		c18Shuffle(g2, *seed)
	}
	calls2 := calls
	if calls2 > 400 {
		calls2 = 400
	}
	evs2 := c18Calls(g2, calls2, o.keyIdx, n, views)
	same := true
	for i := range evs2 {
		if evs2[i].kind != evs[i].kind || evs2[i].code != evs[i].code || evs2[i].rem != evs[i].rem {
			same = false
		}
	}
	fp := "generator:not-deterministic"
	if seed != nil {
		fp = "shuffle:same-seed-different-order"
	}
	v.Oracle(same, fp, "two generators with the same settings (and seed) yield different sequences", meta2(tag))

	if doJSON && full && okPanic && len(codes) > 0 {
		c18JSON(v, st, g.Settings(), evs, o, meta)
	}
	return codes, full
}

// c18JSON writes the yielded scenarios with ToJSON, reads them back with FromJSON and compares.
func c18JSON(v *verifOut, st c18Set, settings Settings, evs []c18Event, o c18Opts, meta map[string]any) {
	var buf bytes.Buffer
	wr, err := ToJSON(settings, &buf)
	if err != nil {
		v.Oracle(false, "json:write-error", err.Error(), meta)
		return
	}
	var scens []Scenario
	for _, e := range evs {
		if e.kind == c18Scen {
			if err := wr.WriteScenario(e.scen); err != nil {
				v.Oracle(false, "json:write-error", err.Error(), meta)
				return
			}
			scens = append(scens, e.scen)
		}
	}
	if err := wr.Close(); err != nil {
		v.Oracle(false, "json:write-error", err.Error(), meta)
		return
	}
	src, err := FromJSON(bytes.NewReader(buf.Bytes()))
	if err != nil {
		v.Oracle(false, "json:read-error", err.Error(), meta)
		return
	}
	v.Oracle(src.Settings() == settings, "json.roundtrip:settings-changed", fmt.Sprintf("settings %+v came back as %+v", settings, src.Settings()), meta)
	v.Oracle(src.Remaining() == int64(len(scens)), "json.roundtrip:count-changed", fmt.Sprintf("%d scenarios written, %d announced by the JSON source", len(scens), src.Remaining()), meta)
	n, views := len(o.lp), int(st.Views)
	var back []c18Event
	okLeader, okMember := true, true
	for i := range scens {
		rem := src.Remaining()
		s, err := src.NextScenario()
		if err != nil {
			v.Oracle(false, "json:read-error", err.Error(), meta)
			return
		}
		e := c18Event{rem: rem, rem2: rem, kind: c18Scen, scen: s}
		if len(s) != len(scens[i]) {
			okMember = false
			e.bad = true
		}
		for j := range s {
			if j >= len(scens[i]) {
				break
			}
			if s[j].Leader != scens[i][j].Leader {
				okLeader = false
			}
			if len(s[j].Partitions) != len(scens[i][j].Partitions) {
				okMember = false
			} else {
				for p := range s[j].Partitions {
					if !reflect.DeepEqual(c18SortedPart(s[j].Partitions[p]), c18SortedPart(scens[i][j].Partitions[p])) {
						okMember = false
					}
				}
			}
			idx, ok := o.keyIdx[c18ViewKey(s[j])]
			if !ok {
				e.bad = true
			}
			e.code = e.code*uint64(n) + uint64(idx)
		}
		if e.bad {
			e.code = 1<<63 + e.code%1000
		}
		back = append(back, e)
	}
	// past the end the JSON source must say io.EOF (like the generator), not panic
	for extra := 0; extra < 2; extra++ {
		what := func() (w string) {
			defer func() {
				if r := recover(); r != nil {
					w = fmt.Sprint("panic: ", r)
				}
			}()
			if _, err := src.NextScenario(); err != io.EOF {
				return fmt.Sprint("error = ", err)
			}
			return ""
		}()
		v.Oracle(what == "" && src.Remaining() == 0, "json.source:no-eof-past-the-end",
			fmt.Sprintf("NextScenario after the last of %d scenarios of a JSON source: %s (Remaining() = %d)", len(scens), what, src.Remaining()), meta)
	}
	// scenarios handed out by the JSON source must stay as they were when more are read
	okKeep := true
	for _, e := range back {
		if code, _ := c18Code(e.scen, o.keyIdx, n, views); code != e.code && !e.bad {
			okKeep = false
		}
	}
	v.Oracle(okKeep, "json.source:returned-scenario-changed-later", "a scenario returned by the JSON source was modified when later scenarios were read", meta)
	v.Oracle(okLeader, "json.roundtrip:leader-changed", "a leader differs after ToJSON/FromJSON", meta)
	v.Oracle(okMember, "json.roundtrip:membership-changed", "partition membership differs after ToJSON/FromJSON", meta)
	v.Count("json_roundtrips")
	v.CountN("json_scenarios", len(scens))
	v.Seen(fmt.Sprintf("json %v %v", st, meta["seed"]), n >= 2 && views >= 1, nil)
	// the decoded sequence is checked against the model as well: Remaining() of the JSON source counts
	// down from the number written, which for a complete drain is the generator's own count-down
	shuf := "None"
	if seed, ok := meta["seed"].(int64); ok && n > 0 {
		perm, offs := c18ShuffleOracle(seed, n, views)
		shuf = fmt.Sprintf("(Some (%s,%s))", c18GNats(perm), c18GNats(offs))
	}
	sj := v.Stream("json", "drain_mismatches", 12)
	v.Case(sj, fmt.Sprintf("(%s,%s,%s,%s)", gNat(n), gNat(views), shuf, c18GEvents(back)), meta)
}

func c18Generator(v *verifOut) {
	maxNodes, maxTwins, maxParts, maxViews := 5, 2, 3, 4
	capFull := v.Pick(700, 20000)  // drain completely when at most this many scenarios are announced
	capPrefix := v.Pick(150, 2000) // otherwise this many calls
	capJSON := v.Pick(300, 3000)
	seeds := []int64{1, 20260925}
	if v.Thorough() {
		seeds = append(seeds, -7, int64(v.rng.Int63()))
	}
	type optKey struct{ n, t, k uint8 }
	all := map[optKey]c18Opts{}
	var order []c18Set
	for nn := 1; nn <= maxNodes; nn++ {
		for nt := 0; nt <= maxTwins; nt++ {
			for k := 1; k <= maxParts; k++ {
				st := c18Set{Nodes: uint8(nn), Twins: uint8(nt), Parts: uint8(k)}
				all[optKey{st.Nodes, st.Twins, st.Parts}] = c18Options(v, st, true)
				order = append(order, st)
			}
		}
	}
	// views 1..4 first (the regular domain), views = 0 afterwards (boundary)
	for _, views := range []int{1, 2, 3, 4, 0} {
		if views > maxViews {
			continue
		}
		for _, st := range order {
			st.Views = uint8(views)
			o := all[optKey{st.Nodes, st.Twins, st.Parts}]
			if o.panicked {
				continue
			}
			plain, full := c18Drain(v, st, o, nil, c18Cap(len(o.lp), views, capFull, capPrefix), true)
			for si, seed := range seeds {
				seed := seed
				sh, fullS := c18Drain(v, st, o, &seed, c18Cap(len(o.lp), views, capFull, capPrefix), si == 0 && len(o.lp) <= capJSON)
				if full && fullS {
					// a permutation of the unshuffled set
					a := append([]uint64(nil), plain...)
					b := append([]uint64(nil), sh...)
					sort.Slice(a, func(i, j int) bool { return a[i] < a[j] })
					sort.Slice(b, func(i, j int) bool { return b[i] < b[j] })
					m := st.meta()
					m["seed"] = seed
					v.Oracle(reflect.DeepEqual(a, b), "shuffle:not-a-permutation-of-the-unshuffled-set", fmt.Sprintf("unshuffled yields %d scenarios, shuffled %d, or the sets differ", len(a), len(b)), m)
				}
			}
		}
	}

	byKey := map[[3]uint8]c18Opts{}
	for k, o := range all {
		byKey[[3]uint8{k.n, k.t, k.k}] = o
	}
	c18Scripts(v, byKey)

	// more twin pairs than the bounded domain: option list against the model and against the specification
	for _, st := range []c18Set{{Nodes: 4, Twins: 3, Parts: 2}, {Nodes: 5, Twins: 3, Parts: 2}, {Nodes: 6, Twins: 3, Parts: 2}, {Nodes: 6, Twins: 2, Parts: 3}, {Nodes: 4, Twins: 3, Parts: 3}} {
		if _, done := all[optKey{st.Nodes, st.Twins, st.Parts}]; !done {
			all[optKey{st.Nodes, st.Twins, st.Parts}] = c18Options(v, st, false)
		}
	}

	// boundary / malformed settings: no partitions, no nodes, more twins than nodes
	for _, st := range []c18Set{
		{Nodes: 3, Twins: 0, Parts: 0}, {Nodes: 3, Twins: 1, Parts: 0}, {Nodes: 0, Twins: 0, Parts: 1},
		{Nodes: 1, Twins: 3, Parts: 2}, {Nodes: 2, Twins: 5, Parts: 3}, {Nodes: 3, Twins: 3, Parts: 2},
	} {
		o := c18Options(v, st, false)
		if o.panicked {
			continue
		}
		for _, views := range []int{0, 1, 2} {
			st.Views = uint8(views)
			c18Drain(v, st, o, nil, 50, false)
			seed := int64(3)
			c18Drain(v, st, o, &seed, 50, false)
		}
	}

	// seeded random stream: wider settings, random prefix lengths, random seeds
	rounds := v.Pick(25, 300)
	for i := 0; i < rounds; i++ {
		st := c18Set{Nodes: uint8(1 + v.rng.Intn(v.Pick(6, 7))), Twins: uint8(v.rng.Intn(3)), Parts: uint8(1 + v.rng.Intn(v.Pick(3, 4))), Views: uint8(v.rng.Intn(7))}
		key := optKey{st.Nodes, st.Twins, st.Parts}
		o, ok := all[key]
		if !ok {
			o = c18Options(v, st, false)
			all[key] = o
		}
		if o.panicked {
			continue
		}
		v.Count("random_settings")
		capR := 20 + v.rng.Intn(v.Pick(200, 1500))
		if _, exact := c18IntPow(len(o.lp), int(st.Views)); !exact {
			// announced number beyond 2^53: compare the count-down relative to its start
			seed := v.rng.Int63()
			c18Script(v, st, o, []c18Seg{{nil, capR / 2}, {&seed, capR / 2}}, "random:huge")
			continue
		}
		if v.rng.Intn(2) == 0 {
			c18Drain(v, st, o, nil, capR, false)
		} else {
			seed := v.rng.Int63() - (1 << 62)
			c18Drain(v, st, o, &seed, capR, v.rng.Intn(4) == 0)
		}
	}
}

// ---- scripted runs: Shuffle after partial consumption, repeated Shuffle, Shuffle after EOF,
// and settings whose announced number leaves the exact range of float64/int64 ----

type c18Seg struct {
	seed  *int64 // Shuffle(seed) first, if not nil
	calls int    // then this many NextScenario calls
}

func c18BigCode(scen Scenario, keyIdx map[string]int, n int) string {
	code := new(big.Int)
	bn := big.NewInt(int64(n))
	for _, v := range scen {
		code.Mul(code, bn)
		code.Add(code, big.NewInt(int64(keyIdx[c18ViewKey(v)])))
	}
	return code.String()
}

func c18Script(v *verifOut, st c18Set, o c18Opts, segs []c18Seg, label string) {
	n, views := len(o.lp), int(st.Views)
	meta := st.meta()
	meta["script"] = label
	g, panicked, _ := c18NewGen(st.settings())
	if panicked {
		return
	}
	want, exact := c18IntPow(n, views)
	rel := !exact // the announced number itself is outside the exactness assumption
	rem0 := g.Remaining()
	if exact {
		v.Oracle(rem0 == want, "generator.announced:not-options-to-the-views", fmt.Sprintf("Remaining()=%d initially, but there are %d options and %d views", rem0, n, views), meta)
	}
	var all []c18Event
	var segTerms []string
	shuffleOnlyBeforeUse, yielded, calls := true, 0, 0
	var seeds []int64
	for _, sg := range segs {
		sh := "None"
		if sg.seed != nil {
			before := g.Remaining()
			if c18Shuffle(g, *sg.seed) {
				v.Oracle(false, "shuffle:panic", "Generator.Shuffle panics", meta)
				return
			}
			v.Oracle(g.Remaining() == before, "shuffle:changes-remaining", "Shuffle changes Remaining()", meta)
			wantS := st.settings()
			wantS.Shuffle, wantS.Seed = true, *sg.seed
			v.Oracle(g.Settings() == wantS, "shuffle:settings-do-not-record-the-seed", fmt.Sprintf("Settings() = %+v after Shuffle(%d)", g.Settings(), *sg.seed), meta)
			if n > 0 {
				perm, offs := c18ShuffleOracle(*sg.seed, n, views)
				sh = fmt.Sprintf("(Some (%s,%s))", c18GNats(perm), c18GNats(offs))
			} else {
				sh = "(Some ([],[]))"
			}
			if yielded > 0 {
				shuffleOnlyBeforeUse = false
			}
			seeds = append(seeds, *sg.seed)
		}
		evs := c18Calls(g, sg.calls, o.keyIdx, n, views)
		for _, e := range evs {
			if e.kind == c18Scen {
				yielded++
			}
		}
		calls += sg.calls
		all = append(all, evs...)
		segTerms = append(segTerms, fmt.Sprintf("(%s,%s)", sh, gNat(sg.calls)))
	}
	meta["seeds"] = seeds
	meta["announced"] = rem0
	meta["yielded"] = yielded
	meta["calls"] = calls
	v.Count("script")
	v.Count("script_" + strings.SplitN(label, ":", 2)[0])
	if rel {
		v.Count("script_relative_remaining")
	}
	v.CountN("scenarios_observed", yielded)
	v.Seen(fmt.Sprintf("script %v %s %v", st, label, seeds), n >= 2 && views >= 2, meta)

	okPanic, okOpt, okRem, okDistinct := true, true, true, true
	seen := map[string]bool{}
	obs := make([]string, len(all))
	y := int64(0)
	for i, e := range all {
		// Remaining() counts down by one per scenario (int64 arithmetic wraps consistently)
		if e.rem-rem0 != -y {
			okRem = false
		}
		r := e.rem
		if rel {
			r = e.rem - rem0
		}
		switch e.kind {
		case c18Scen:
			y++
			if e.bad {
				okOpt = false
				obs[i] = fmt.Sprintf("(%s,EvPanic)", gZ(r))
				continue
			}
			code := c18BigCode(e.scen, o.keyIdx, n)
			if seen[code] {
				okDistinct = false
			}
			seen[code] = true
			obs[i] = fmt.Sprintf("(%s,EvScen %s%%N)", gZ(r), code)
		case c18EOF:
			obs[i] = fmt.Sprintf("(%s,EvEOF)", gZ(r))
		default:
			okPanic = false
			obs[i] = fmt.Sprintf("(%s,EvPanic)", gZ(r))
		}
	}
	v.Oracle(okPanic, "generator.next:panic", "NextScenario panics in a scripted run", meta)
	v.Oracle(okOpt, "generator.next:scenario-not-from-options", "a yielded scenario is not a list of `views` generated options", meta)
	v.Oracle(okRem, "generator.remaining:not-counting-down-by-one", "Remaining() before a call is not the initial number minus scenarios yielded so far", meta)
	c18Retained(v, all, o.keyIdx, n, views, meta)
	if shuffleOnlyBeforeUse {
		v.Oracle(okDistinct, "generator.next:repeats-a-scenario", "the generator yields the same scenario twice", meta)
	}
	// EOF must not come before |lp|^views scenarios were yielded, however large that number is
	trueCount := new(big.Int).Exp(big.NewInt(int64(n)), big.NewInt(int64(views)), nil)
	beforeEOF, sawEOF := 0, false
	for _, e := range all {
		if e.kind != c18Scen {
			sawEOF = e.kind == c18EOF
			break
		}
		beforeEOF++
	}
	if !exact {
		v.Oracle(!(sawEOF && big.NewInt(int64(beforeEOF)).Cmp(trueCount) < 0), "generator.count:fewer-than-announced",
			fmt.Sprintf("EOF after %d scenarios, but there are %d options and %d views", beforeEOF, n, views), meta)
	}
	if exact && int64(calls) > want {
		// whatever Shuffle calls were interleaved: exactly the announced number, then EOF for good
		before := 0
		for _, e := range all {
			if e.kind != c18Scen {
				break
			}
			before++
		}
		if int64(before) < want {
			v.Oracle(false, "generator.count:fewer-than-announced", fmt.Sprintf("%d scenarios announced by Remaining(), %d yielded before EOF", want, before), meta)
		} else if int64(yielded) > want {
			v.Oracle(false, "generator.count:more-than-announced", fmt.Sprintf("%d scenarios announced by Remaining(), %d yielded in %d calls", want, yielded, calls), meta)
		} else {
			v.Oracle(true, "", "", nil)
		}
	}
	ss := v.Stream("script", "script_mismatches", 10)
	v.Case(ss, fmt.Sprintf("(%s,%s,%s,%s,%s)", gNat(n), gNat(views), gBool(rel), gList(segTerms), gList(obs)), meta)
}

func c18Scripts(v *verifOut, all map[[3]uint8]c18Opts) {
	s1, s2 := int64(11), int64(-4242)
	// (1) deep odometers: tiny option lists, 5..9 views, drained completely, plain and shuffled
	for _, k := range [][3]uint8{{2, 0, 1}, {3, 1, 1}, {3, 0, 1}, {2, 1, 2}} {
		o := all[k]
		for views := 5; views <= 9; views++ {
			if p, ok := c18IntPow(len(o.lp), views); !ok || p > 700 {
				continue
			}
			st := c18Set{Nodes: k[0], Twins: k[1], Parts: k[2], Views: uint8(views)}
			c18Drain(v, st, o, nil, 700, views == 5)
			c18Drain(v, st, o, &s1, 700, views == 6)
		}
	}
	// (2) Shuffle in the middle of a run, twice, and after EOF
	for _, k := range [][3]uint8{{2, 0, 1}, {3, 0, 1}, {2, 0, 2}, {3, 0, 2}, {3, 1, 2}, {4, 1, 2}} {
		o := all[k]
		n := len(o.lp)
		for views := 1; views <= 3; views++ {
			p, ok := c18IntPow(n, views)
			if !ok || p > int64(v.Pick(220, 2000)) || p < 2 {
				continue
			}
			N := int(p)
			st := c18Set{Nodes: k[0], Twins: k[1], Parts: k[2], Views: uint8(views)}
			for _, m := range []int{1, n - 1, n, n + 1, N - 1, N} {
				if m < 1 || m > N {
					continue
				}
				c18Script(v, st, o, []c18Seg{{nil, m}, {&s1, N - m + 3}}, fmt.Sprintf("midstream:%d-then-shuffle", m))
			}
			c18Script(v, st, o, []c18Seg{{&s1, 0}, {&s2, N + 3}}, "twice:shuffle-shuffle")
			c18Script(v, st, o, []c18Seg{{&s1, 0}, {&s1, N + 3}}, "twice:same-seed")
			c18Script(v, st, o, []c18Seg{{&s1, n}, {&s2, N - n + 3}}, "midstream:shuffle-use-shuffle")
			c18Script(v, st, o, []c18Seg{{nil, N + 1}, {&s1, 3}}, "aftereof:shuffle")
		}
	}
	// (3) announced numbers at and beyond the exact range of float64 / int64
	for _, c := range []struct {
		k     [3]uint8
		views []int
	}{
		{[3]uint8{2, 0, 1}, []int{52, 53, 54, 62, 63, 64, 255}},
		{[3]uint8{3, 0, 2}, []int{20, 21, 24, 25, 255}},
		{[3]uint8{4, 1, 2}, []int{12, 13, 15, 16, 100}},
	} {
		o := all[c.k]
		for _, views := range c.views {
			st := c18Set{Nodes: c.k[0], Twins: c.k[1], Parts: c.k[2], Views: uint8(views)}
			c18Script(v, st, o, []c18Seg{{nil, 40}}, "huge:plain")
			c18Script(v, st, o, []c18Seg{{&s2, 25}, {&s1, 15}}, "huge:shuffled")
		}
	}
}

// c18Cap: the number of scenarios up to which a (options, views) combination is drained completely.
func c18Cap(n, views, capFull, capPrefix int) int {
	p, ok := c18IntPow(n, views)
	if ok && p <= int64(capFull) {
		return capFull
	}
	return capPrefix
}

// ---- the verdict: checkCommits on synthetic commit logs ----

type c18Log []int // interned hashes 1..3

func c18AllLogs(nh, maxLen int) []c18Log {
	out := []c18Log{{}}
	prev := []c18Log{{}}
	for l := 1; l <= maxLen; l++ {
		var cur []c18Log
		for _, p := range prev {
			for h := 1; h <= nh; h++ {
				cur = append(cur, append(append(c18Log{}, p...), h))
			}
		}
		out = append(out, cur...)
		prev = cur
	}
	return out
}

// c18Spec is the property sentence evaluated directly: unsafe iff two non-twin logs differ at a
// position where both are defined; commits = length of the agreed prefix.
func c18Spec(logs []c18Log) (safe bool, commits int) {
	safe = true
	for a := range logs {
		for b := range logs {
			for i := 0; i < len(logs[a]) && i < len(logs[b]); i++ {
				if logs[a][i] != logs[b][i] {
					safe = false
				}
			}
		}
	}
	for i := 0; ; i++ {
		defined, agree, first := false, true, 0
		for _, l := range logs {
			if i < len(l) {
				if !defined {
					defined, first = true, l[i]
				} else if l[i] != first {
					agree = false
				}
			}
		}
		if !defined || !agree {
			return safe, i
		}
	}
}

func c18GLog(l c18Log) string {
	ss := make([]string, len(l))
	for i, h := range l {
		ss[i] = gN(uint64(h))
	}
	return gList(ss)
}

func c18GReplicas(rs [][]c18Log) string {
	ss := make([]string, len(rs))
	for i, r := range rs {
		ls := make([]string, len(r))
		for j, l := range r {
			ls[j] = c18GLog(l)
		}
		ss[i] = gList(ls)
	}
	return gList(ss)
}

func c18Verdict(v *verifOut) {
	const nh = 4       // hashes used by the random stream
	const nBlocks = 10 // distinct synthetic blocks (long chains + a fork block)
	blocks := make([]*hotstuff.Block, nBlocks+1)
	hs := map[hotstuff.Hash]bool{}
	for h := 1; h <= nBlocks; h++ {
		blocks[h] = hotstuff.NewBlock(hotstuff.Hash{}, hotstuff.QuorumCert{}, &clientpb.Batch{}, hotstuff.View(h), 1)
		hs[blocks[h].Hash()] = true
	}
	// replica ids are irrelevant to the verdict: rotate through contiguous, zero, and large ids
	idPool := []hotstuff.ID{1, 2, 3, 4, 0, 255, 256, 65535, 65536, 1 << 24, 1 << 31, 1<<32 - 1, 257, 1<<16 + 1}
	idOff := 0
	if len(hs) != nBlocks {
		v.Note("verdict harness: synthetic blocks do not have distinct hashes")
		v.Oracle(false, "harness:blocks-not-distinct", "synthetic blocks share a hash", nil)
		return
	}
	mkNode := func(l c18Log, id NodeID) *node {
		nd := &node{id: id}
		for _, h := range l {
			nd.executedBlocks = append(nd.executedBlocks, blocks[h])
		}
		return nd
	}
	// run checkCommits on replicas given as lists of node logs; replica i gets a distinct id from the pool
	run := func(rs [][]c18Log) (safe bool, commits int, panicked bool) {
		net := &Network{nodes: map[NodeID]*node{}, replicas: map[hotstuff.ID][]*node{}}
		idOff++
		for i, r := range rs {
			id := idPool[(idOff+i)%len(idPool)]
			net.replicas[id] = []*node{}
			for j, l := range r {
				tw := uint32(0)
				if len(r) > 1 {
					tw = uint32(j + 1)
				}
				nd := mkNode(l, NodeID{id, tw})
				net.nodes[nd.id] = nd
				net.replicas[id] = append(net.replicas[id], nd)
			}
		}
		defer func() {
			if recover() != nil {
				panicked = true
			}
		}()
		safe, commits = checkCommits(net)
		return
	}
	evalOne := func(rs [][]c18Log, stream string) (bool, int) {
		safe, commits, panicked := run(rs)
		var nonTwin []c18Log
		twins := 0
		for _, r := range rs {
			if len(r) == 1 {
				nonTwin = append(nonTwin, r[0])
			} else {
				twins++
			}
		}
		wantSafe, wantCommits := c18Spec(nonTwin)
		input := map[string]any{"replicas": rs, "safe": safe, "commits": commits}
		if panicked {
			v.Oracle(false, "verdict:panic", "checkCommits panics", input)
			return safe, commits
		}
		if !wantSafe && safe {
			v.Oracle(false, "verdict:divergence-not-reported", "two non-twin replicas committed different blocks at the same position, verdict is 'safe'", input)
		} else if wantSafe && !safe {
			v.Oracle(false, "verdict:false-alarm", "no two non-twin replicas differ at a common position, verdict is 'unsafe'", input)
		} else {
			v.Oracle(true, "", "", nil)
		}
		v.Oracle(commits == wantCommits, "verdict.commits:not-the-agreed-prefix", fmt.Sprintf("commit count %d, agreed prefix has length %d", commits, wantCommits), input)
		nonEmpty := 0
		for _, l := range nonTwin {
			if len(l) > 0 {
				nonEmpty++
			}
		}
		v.Seen(stream+fmt.Sprint(rs), len(nonTwin) >= 2 && nonEmpty >= 1, input)
		if !wantSafe {
			v.Count("verdict_unsafe")
		} else {
			v.Count("verdict_safe")
		}
		v.Count(fmt.Sprintf("verdict_replicas=%d", len(rs)))
		if twins > 0 {
			v.Count("verdict_with_twins")
		}
		return safe, commits
	}

	// exhaustive: all multisets of <= 3 replicas with logs of <= 3 entries over 3 hashes, each extended
	// by nothing or by any 4th such log  (=> every multiset of <= 4 replicas)
	logs := c18AllLogs(3, 3)
	variants := [][][]c18Log{nil}
	for _, l := range logs {
		variants = append(variants, [][]c18Log{{l}})
	}
	sv := v.Stream("verdict", "verdict_mismatches", 700)
	emit := func(base [][]c18Log, vars [][][]c18Log, stream string) {
		obs := make([]string, len(vars))
		for i, x := range vars {
			rs := append(append([][]c18Log{}, base...), x...)
			safe, commits := evalOne(rs, stream)
			obs[i] = fmt.Sprintf("(%s,%s)", gBool(safe), gNat(commits))
		}
		vs := make([]string, len(vars))
		for i, x := range vars {
			vs[i] = c18GReplicas(x)
		}
		v.Case(sv, fmt.Sprintf("(%s,%s,%s)", c18GReplicas(base), gList(vs), gList(obs)), map[string]any{"base": base})
	}
	L := len(logs)
	stride3 := v.Pick(5, 1) // quick tier: every 5th multiset of size 3 (all of size <= 2)
	cnt := 0
	emit(nil, variants, "v")
	for a := 0; a < L; a++ {
		emit([][]c18Log{{logs[a]}}, variants, "v")
		for b := a; b < L; b++ {
			emit([][]c18Log{{logs[a]}, {logs[b]}}, variants, "v")
			for c := b; c < L; c++ {
				cnt++
				if cnt%stride3 != 0 {
					// still evaluated on the implementation against the property's oracle
					for _, x := range variants {
						evalOne(append([][]c18Log{{logs[a]}, {logs[b]}, {logs[c]}}, x...), "v")
					}
					continue
				}
				emit([][]c18Log{{logs[a]}, {logs[b]}, {logs[c]}}, variants, "v")
			}
		}
	}

	// twin filtering: replicas with two nodes (conflicting logs), without nodes, with three nodes are skipped
	decos := [][][]c18Log{
		{{{1}, {2}}},                   // a twin pair that diverges at position 0
		{{{1, 2, 3}, {1, 2, 3}}},       // a twin pair that agrees, longer than everyone
		{{{}, {3, 3, 3}}},              // one twin silent
		{{}},                           // a replica id without nodes
		{{{2}, {2}, {2}}},              // three nodes under one id
		{{{1}, {2}}, {{3, 1}, {3, 2}}}, // two twin pairs
	}
	small := c18AllLogs(3, 2)
	svars := [][][]c18Log{nil}
	for _, l := range small {
		svars = append(svars, [][]c18Log{{l}})
	}
	for di, d := range decos {
		if !v.Thorough() && di >= 4 {
			// quick: the last two only with single-replica bases
			for a := 0; a < len(small); a++ {
				emit(append([][]c18Log{{small[a]}}, d...), svars, "t")
			}
			continue
		}
		emit(d, svars, "t")
		for a := 0; a < len(small); a++ {
			for b := a; b < len(small); b++ {
				// the twin replica in first, middle position
				emit(append(append([][]c18Log{{small[a]}}, d...), []c18Log{small[b]}), svars, "t")
			}
		}
	}

	// forks at every position of longer chains, logs of unequal lengths: the forking replica follows a
	// chain of distinct blocks up to position f, then deviates (and either stays apart or re-converges);
	// the other replicas hold prefixes of every length
	maxL := v.Pick(7, 9)
	for L := 1; L <= maxL; L++ {
		chain := make(c18Log, L)
		for j := range chain {
			chain[j] = j + 1
		}
		var prefixes [][][]c18Log
		prefixes = append(prefixes, nil)
		for lb := 0; lb <= L; lb++ {
			prefixes = append(prefixes, [][]c18Log{{append(c18Log{}, chain[:lb]...)}})
		}
		for f := 0; f < L; f++ {
			for lf := f + 1; lf <= L; lf++ {
				for _, reconverge := range []bool{false, true} {
					if reconverge && (lf == f+1 || (!v.Thorough() && L > 5)) {
						continue
					}
					fork := append(c18Log{}, chain[:lf]...)
					for j := f; j < lf; j++ {
						if j == f || !reconverge {
							fork[j] = nBlocks
						}
					}
					for la := 0; la <= L; la++ {
						if !v.Thorough() && L > 5 && la != 0 && la != f && la != f+1 && la != L {
							continue
						}
						v.Count("verdict_fork_cases")
						emit([][]c18Log{{fork}, {append(c18Log{}, chain[:la]...)}}, prefixes, "f")
						if L <= 4 {
							// the deviating node is one of a twin pair: not compared
							emit([][]c18Log{{fork, append(c18Log{}, chain[:lf]...)}, {append(c18Log{}, chain[:la]...)}}, prefixes, "ft")
						}
					}
				}
			}
		}
	}

	// seeded random stream: up to 6 replicas, logs of up to 6 entries over 4 hashes, random twins;
	// mostly-agreeing logs (a common chain with random truncation) with rare deviations
	rounds := v.Pick(1500, 40000)
	for i := 0; i < rounds; i++ {
		chain := make(c18Log, 6)
		for j := range chain {
			chain[j] = 1 + v.rng.Intn(nh)
		}
		nrep := 1 + v.rng.Intn(6)
		var base [][]c18Log
		for r := 0; r < nrep; r++ {
			nn := 1
			if v.rng.Intn(4) == 0 {
				nn = v.rng.Intn(4)
			}
			var rep []c18Log
			for k := 0; k < nn; k++ {
				l := append(c18Log{}, chain[:v.rng.Intn(7)]...)
				if len(l) > 0 && v.rng.Intn(5) == 0 {
					l[v.rng.Intn(len(l))] = 1 + v.rng.Intn(nh)
				}
				rep = append(rep, l)
			}
			base = append(base, rep)
		}
		emit(base, [][][]c18Log{nil}, "r")
	}
}

// ---- ExecuteScenario: the reported verdict is the verdict function applied to the nodes' commit logs ----

func c18Execute(v *verifOut) {
	type job struct {
		name      string
		scen      Scenario
		nn, nt    uint8
		ticks     int
		consensus string
		opts      []core.RuntimeOption
	}
	var jobs []job
	all4 := NewNodeSet(Replica(1), Replica(2), Replica(3), Replica(4))
	for _, cons := range []string{rules.NameChainedHotStuff, rules.NameFastHotStuff, rules.NameSimpleHotStuff} {
		var s Scenario
		for i := 0; i < 7; i++ {
			s = append(s, View{Leader: hotstuff.ID(1 + i%4), Partitions: []NodeSet{all4}})
		}
		var opts []core.RuntimeOption
		if cons == rules.NameFastHotStuff {
			opts = append(opts, core.WithAggregateQC())
		}
		jobs = append(jobs, job{"connected-" + cons, s, 4, 0, 60, cons, opts})
		// a short run (few ticks) leaves the replicas with logs of different lengths
		jobs = append(jobs, job{"connected-short-" + cons, s, 4, 0, 9, cons, opts})
	}
	// the partitioned scenarios of the package's own tests (gaps in the view sequence)
	part := NewNodeSet(Replica(1), Replica(3), Replica(4))
	lead := NewNodeSet(Replica(2))
	for extra := 0; extra <= 2; extra++ {
		s := Scenario{{Leader: 1, Partitions: []NodeSet{all4}}, {Leader: 2, Partitions: []NodeSet{lead, part}}, {Leader: 3, Partitions: []NodeSet{all4}}}
		for i := 0; i < 2+extra; i++ {
			s = append(s, View{Leader: 1, Partitions: []NodeSet{all4}})
		}
		jobs = append(jobs, job{fmt.Sprintf("partitioned-%d", extra), s, 4, 0, 100, rules.NameChainedHotStuff, nil})
	}
	// generated scenarios with a twin pair
	for _, seed := range []int64{5, 6} {
		g, panicked, _ := c18NewGen(Settings{NumNodes: 4, NumTwins: 1, Partitions: 2, Views: 6})
		if panicked {
			continue
		}
		c18Shuffle(g, seed)
		for i := 0; i < v.Pick(3, 15); i++ {
			if s, kind := c18Next(g); kind == c18Scen {
				jobs = append(jobs, job{fmt.Sprintf("generated-%d-%d", seed, i), s, 4, 1, 80, rules.NameChainedHotStuff, nil})
			}
		}
	}
	// two twin pairs exceed f = 1: both halves of a split network hold a quorum of replica ids and commit
	// their own chains, so the non-twin replicas 3 and 4 really diverge (a genuinely unsafe execution)
	for _, cons := range []string{rules.NameChainedHotStuff, rules.NameSimpleHotStuff} {
		a := NewNodeSet(Replica(1).Twin(1), Replica(2).Twin(1), Replica(3))
		b := NewNodeSet(Replica(1).Twin(2), Replica(2).Twin(2), Replica(4))
		for _, views := range []int{5, 8} {
			var s Scenario
			for i := 0; i < views; i++ {
				s = append(s, View{Leader: hotstuff.ID(1 + i%2), Partitions: []NodeSet{a, b}})
			}
			jobs = append(jobs, job{fmt.Sprintf("split-two-twin-pairs-%s-%d", cons, views), s, 4, 2, 100, cons, nil})
			// a common prefix first: everyone connected for some views, then the split
			every := NewNodeSet(Replica(1).Twin(1), Replica(2).Twin(1), Replica(3), Replica(1).Twin(2), Replica(2).Twin(2), Replica(4))
			var s2 Scenario
			for i := 0; i < 5; i++ {
				s2 = append(s2, View{Leader: 3, Partitions: []NodeSet{every}})
			}
			s2 = append(s2, s...)
			jobs = append(jobs, job{fmt.Sprintf("connected-then-split-%s-%d", cons, views), s2, 4, 2, 150, cons, nil})
		}
	}
	// the scenario of the (skipped) FHS bug test with the deliberately vulnerable commit rule
	{
		p134, p2 := NewNodeSet(Replica(1), Replica(3), Replica(4)), NewNodeSet(Replica(2))
		p124, p3 := NewNodeSet(Replica(1), Replica(2), Replica(4)), NewNodeSet(Replica(3))
		s := Scenario{}
		for i := 0; i < 4; i++ {
			s = append(s, View{Leader: 1, Partitions: []NodeSet{all4, {}}})
		}
		s = append(s, View{Leader: 2, Partitions: []NodeSet{p134, p2}}, View{Leader: 1, Partitions: []NodeSet{p134, p2}},
			View{Leader: 3, Partitions: []NodeSet{p124, p3}}, View{Leader: 2, Partitions: []NodeSet{p124, p3}},
			View{Leader: 2, Partitions: []NodeSet{p134, p2}}, View{Leader: 3, Partitions: []NodeSet{p134, p2}}, View{Leader: 3, Partitions: []NodeSet{p134, p2}})
		jobs = append(jobs, job{"fhs-bug-vulnerable", s, 4, 0, 100, nameVulnerableFHS, []core.RuntimeOption{core.WithAggregateQC()}})
		jobs = append(jobs, job{"fhs-bug-fasthotstuff", s, 4, 0, 100, rules.NameFastHotStuff, []core.RuntimeOption{core.WithAggregateQC()}})
	}

	sv := v.Stream("execute", "verdict_mismatches", 50)
	for _, j := range jobs {
		var res ScenarioResult
		var err error
		panicked := func() (p bool) {
			defer func() {
				if r := recover(); r != nil {
					p = true
					err = fmt.Errorf("%v", r)
				}
			}()
			res, err = ExecuteScenario(j.scen, j.nn, j.nt, j.ticks, j.consensus, j.opts...)
			return false
		}()
		meta := map[string]any{"scenario": j.name, "consensus": j.consensus}
		if panicked || err != nil {
			v.Note(fmt.Sprintf("ExecuteScenario(%s) did not complete: %v", j.name, err))
			continue
		}
		// group the reported commit logs by replica id, interning block hashes
		intern := map[hotstuff.Hash]int{}
		byRep := map[hotstuff.ID][]c18Log{}
		var ids []hotstuff.ID
		var nodeIDs []NodeID
		for id := range res.NodeCommits {
			nodeIDs = append(nodeIDs, id)
		}
		sort.Slice(nodeIDs, func(a, b int) bool {
			if nodeIDs[a].ReplicaID != nodeIDs[b].ReplicaID {
				return nodeIDs[a].ReplicaID < nodeIDs[b].ReplicaID
			}
			return nodeIDs[a].TwinID < nodeIDs[b].TwinID
		})
		for _, id := range nodeIDs {
			var l c18Log
			for _, b := range res.NodeCommits[id] {
				h, ok := intern[b.Hash()]
				if !ok {
					h = len(intern) + 1
					intern[b.Hash()] = h
				}
				l = append(l, h)
			}
			if _, ok := byRep[id.ReplicaID]; !ok {
				ids = append(ids, id.ReplicaID)
			}
			byRep[id.ReplicaID] = append(byRep[id.ReplicaID], l)
		}
		var rs [][]c18Log
		var nonTwin []c18Log
		for _, id := range ids {
			rs = append(rs, byRep[id])
			if len(byRep[id]) == 1 {
				nonTwin = append(nonTwin, byRep[id][0])
			}
		}
		wantSafe, wantCommits := c18Spec(nonTwin)
		meta["replicas"] = rs
		meta["safe"], meta["commits"] = res.Safe, res.Commits
		v.Count("execute_runs")
		if !wantSafe {
			v.Count("execute_unsafe_runs")
		}
		if wantCommits > 0 {
			v.Count("execute_runs_with_commits")
		}
		v.Seen("exec "+j.name, wantCommits > 0, meta)
		v.Oracle(len(res.NodeCommits) == int(j.nn)+int(j.nt), "execute:node-commits-incomplete", "NodeCommits does not have one log per network node", meta)
		if wantSafe != res.Safe {
			fp := "execute.verdict:divergence-not-reported"
			if wantSafe {
				fp = "execute.verdict:false-alarm"
			}
			v.Oracle(false, fp, fmt.Sprintf("ScenarioResult.Safe=%v but the reported commit logs of non-twin replicas say %v", res.Safe, wantSafe), meta)
		} else {
			v.Oracle(true, "", "", nil)
		}
		v.Oracle(res.Commits == wantCommits, "execute.commits:not-the-agreed-prefix", fmt.Sprintf("ScenarioResult.Commits=%d, the agreed prefix of the reported commit logs has length %d", res.Commits, wantCommits), meta)
		v.Case(sv, fmt.Sprintf("(%s,[[]],[(%s,%s)])", c18GReplicas(rs), gBool(res.Safe), gNat(res.Commits)), meta)
	}
}

// ---- concurrent drains: `twins run --concurrency N` calls NextScenario of one source from N workers ----

// c18DrainConcurrently lets w goroutines call next until io.EOF; it returns what they were given.
func c18DrainConcurrently(w int, next func() (Scenario, error)) (got []Scenario, panics []string, errs int) {
	var mu sync.Mutex
	var wg sync.WaitGroup
	start := make(chan struct{})
	for i := 0; i < w; i++ {
		wg.Add(1)
		go func() {
			defer wg.Done()
			<-start
			var mine []Scenario
			var myPanics []string
			myErrs := 0
			for calls := 0; calls < 1_000_000; calls++ {
				s, err, p := func() (s Scenario, err error, p string) {
					defer func() {
						if r := recover(); r != nil {
							p = fmt.Sprint(r)
						}
					}()
					s, err = next()
					return
				}()
				if p != "" {
					myPanics = append(myPanics, p)
					break
				}
				if err == io.EOF {
					break
				}
				if err != nil {
					myErrs++
					break
				}
				mine = append(mine, s)
			}
			mu.Lock()
			got = append(got, mine...)
			panics = append(panics, myPanics...)
			errs += myErrs
			mu.Unlock()
		}()
	}
	close(start)
	wg.Wait()
	return
}

func c18Concurrent(v *verifOut, rounds int) {
	type cfg struct {
		st   c18Set
		seed *int64
	}
	s9 := int64(9)
	cfgs := []cfg{
		{c18Set{Nodes: 1, Twins: 1, Parts: 1, Views: 1}, nil}, // 0 scenarios
		{c18Set{Nodes: 1, Twins: 0, Parts: 1, Views: 1}, nil}, // 1
		{c18Set{Nodes: 3, Twins: 0, Parts: 1, Views: 1}, nil}, // 3
		{c18Set{Nodes: 3, Twins: 0, Parts: 1, Views: 2}, nil}, // 9
		{c18Set{Nodes: 3, Twins: 1, Parts: 2, Views: 1}, nil}, // 12
		{c18Set{Nodes: 5, Twins: 0, Parts: 1, Views: 3}, nil}, // 125
		{c18Set{Nodes: 4, Twins: 1, Parts: 2, Views: 2}, nil}, // 324
		{c18Set{Nodes: 4, Twins: 1, Parts: 2, Views: 2}, &s9}, // 324, shuffled
		{c18Set{Nodes: 3, Twins: 0, Parts: 2, Views: 3}, nil}, // 216
	}
	sc := v.Stream("concurrent", "drain_mismatches", 8)
	for _, c := range cfgs {
		optSt := c.st
		g1, panicked, _ := c18NewGen(optSt.settings())
		if panicked {
			continue
		}
		o := c18Opts{lp: append([]View(nil), g1.leadersPartitions...), keyIdx: map[string]int{}}
		for i, opt := range o.lp {
			o.keyIdx[c18ViewKey(opt)] = i
		}
		n, views := len(o.lp), int(c.st.Views)
		mk := func() *Generator {
			g, _, _ := c18NewGen(c.st.settings())
			if c.seed != nil {
				c18Shuffle(g, *c.seed)
			}
			return g
		}
		// the reference: one goroutine
		ref := mk()
		announced := ref.Remaining()
		var single []Scenario
		for {
			s, kind := c18Next(ref)
			if kind != c18Scen {
				break
			}
			single = append(single, s)
		}
		var buf bytes.Buffer
		wr, _ := ToJSON(ref.Settings(), &buf)
		for _, s := range single {
			_ = wr.WriteScenario(s)
		}
		_ = wr.Close()
		want := map[uint64]int{}
		for _, s := range single {
			code, _ := c18Code(s, o.keyIdx, n, views)
			want[code]++
		}
		for _, kind := range []string{"generator", "json"} {
			for _, w := range []int{2, 8} {
				failed := false
				for r := 0; r < rounds && !failed; r++ {
					var next func() (Scenario, error)
					var remaining func() int64
					if kind == "generator" {
						g := mk()
						next, remaining = g.NextScenario, g.Remaining
					} else {
						src, err := FromJSON(bytes.NewReader(buf.Bytes()))
						if err != nil {
							v.Oracle(false, "json:read-error", err.Error(), c.st.meta())
							break
						}
						next, remaining = src.NextScenario, src.Remaining
					}
					got, panics, errs := c18DrainConcurrently(w, next)
					meta := c.st.meta()
					meta["source"], meta["goroutines"], meta["announced"], meta["delivered"], meta["round"] = kind, w, announced, len(got), r
					if c.seed != nil {
						meta["seed"] = *c.seed
					}
					v.Count("concurrent_drains")
					v.Count(fmt.Sprintf("concurrent_%s_w=%d", kind, w))
					v.Seen(fmt.Sprintf("concurrent %v %s %d %d", c.st, kind, w, r), len(single) >= w, meta)
					if len(panics) > 0 || errs > 0 {
						meta["panic"] = fmt.Sprint(panics)
						v.Oracle(false, "source.concurrent:panic", fmt.Sprintf("NextScenario of the %s source panics or fails when called from %d goroutines: %v", kind, w, panics), meta)
						failed = true
					}
					have := map[uint64]int{}
					codes := make([]uint64, 0, len(got))
					bad := false
					for _, s := range got {
						code, b := c18Code(s, o.keyIdx, n, views)
						bad = bad || b
						have[code]++
						codes = append(codes, code)
					}
					twice, missing := 0, 0
					for code, k := range have {
						if k > want[code] {
							twice += k - want[code]
						}
					}
					for code, k := range want {
						if have[code] < k {
							missing += k - have[code]
						}
					}
					meta["delivered_twice"], meta["missing"] = twice, missing
					if twice > 0 || missing > 0 || bad || int64(len(got)) != announced {
						v.Oracle(false, "source.concurrent:delivered-scenarios-differ-from-a-sequential-drain",
							fmt.Sprintf("%s source drained by %d goroutines: %d announced, %d delivered, %d delivered twice, %d missing", kind, w, announced, len(got), twice, missing), meta)
						failed = true
					} else {
						v.Oracle(true, "", "", nil)
					}
					if rem := remaining(); rem != 0 {
						v.Oracle(false, "source.concurrent:remaining-not-zero-at-the-end", fmt.Sprintf("Remaining() = %d after the %s source was drained by %d goroutines", rem, kind, w), meta)
						failed = true
					} else {
						v.Oracle(true, "", "", nil)
					}
					// kernel: for the unshuffled order the sorted delivered scenarios are the model's sequence
					if r == 0 && c.seed == nil {
						sort.Slice(codes, func(a, b int) bool { return codes[a] < codes[b] })
						evs := make([]string, len(codes))
						for i, code := range codes {
							evs[i] = fmt.Sprintf("(%s,EvScen %s)", gZ(announced-int64(i)), gN(code))
						}
						v.Case(sc, fmt.Sprintf("(%s,%s,None,%s)", gNat(n), gNat(views), gList(evs)), meta)
					}
				}
			}
		}
	}
}

// ---- concurrent writers: the workers of `twins run --output` share one JSONWriter ----

// c18SlowWriter delays every Write a little, so that writers queue up on the JSONWriter's lock.
type c18SlowWriter struct {
	mu    sync.Mutex
	buf   bytes.Buffer
	delay time.Duration
}

func (w *c18SlowWriter) Write(p []byte) (int, error) {
	if w.delay > 0 {
		time.Sleep(w.delay)
	}
	w.mu.Lock()
	defer w.mu.Unlock()
	return w.buf.Write(p)
}

// c18GateWriter blocks inside Write call number blockAt until released (a slow disk, a full pipe).
type c18GateWriter struct {
	mu      sync.Mutex
	buf     bytes.Buffer
	calls   int
	blockAt int
	entered chan struct{}
	release chan struct{}
}

func (w *c18GateWriter) Write(p []byte) (int, error) {
	w.mu.Lock()
	w.calls++
	block := w.calls == w.blockAt
	w.mu.Unlock()
	if block {
		close(w.entered)
		<-w.release
	}
	w.mu.Lock()
	defer w.mu.Unlock()
	return w.buf.Write(p)
}

func c18ScenarioKey(s Scenario) string {
	ks := make([]string, len(s))
	for i, vw := range s {
		ks[i] = c18ViewKey(vw)
	}
	return strings.Join(ks, "/")
}

// c18ReadBackCompare reads doc through FromJSON and compares the multiset of scenarios with `written`.
func c18ReadBackCompare(v *verifOut, doc []byte, written []Scenario, settings Settings, meta map[string]any) (back []Scenario, ok bool) {
	src, err := FromJSON(bytes.NewReader(doc))
	if err != nil {
		meta["error"] = err.Error()
		v.Oracle(false, "writer.concurrent:unreadable-output", "the document written by concurrent WriteScenario calls is not valid JSON: "+err.Error(), meta)
		return nil, false
	}
	v.Oracle(src.Settings() == settings, "writer.concurrent:settings-changed", fmt.Sprintf("settings %+v came back as %+v", settings, src.Settings()), meta)
	for {
		s, err := src.NextScenario()
		if err == io.EOF {
			break
		}
		if err != nil {
			meta["error"] = err.Error()
			v.Oracle(false, "writer.concurrent:unreadable-output", "a scenario written by concurrent WriteScenario calls cannot be decoded: "+err.Error(), meta)
			return back, false
		}
		back = append(back, s)
	}
	want, have := map[string]int{}, map[string]int{}
	for _, s := range written {
		want[c18ScenarioKey(s)]++
	}
	for _, s := range back {
		have[c18ScenarioKey(s)]++
	}
	twice, missing := 0, 0
	for k, x := range have {
		if x > want[k] {
			twice += x - want[k]
		}
	}
	for k, x := range want {
		if have[k] < x {
			missing += x - have[k]
		}
	}
	meta["written"], meta["read_back"], meta["read_back_twice_or_foreign"], meta["missing"] = len(written), len(back), twice, missing
	ok = twice == 0 && missing == 0 && len(back) == len(written)
	if !ok {
		v.Oracle(false, "writer.concurrent:read-back-differs-from-written",
			fmt.Sprintf("%d scenarios written by concurrent WriteScenario calls, %d read back, %d of them twice or never written, %d missing", len(written), len(back), twice, missing), meta)
	} else {
		v.Oracle(true, "", "", nil)
	}
	return back, ok
}

func c18ConcurrentWriters(v *verifOut, rounds int) {
	sets := []c18Set{
		{Nodes: 1, Twins: 0, Parts: 1, Views: 1}, // 1 scenario
		{Nodes: 2, Twins: 0, Parts: 1, Views: 1}, // 2
		{Nodes: 3, Twins: 0, Parts: 1, Views: 1}, // 3
		{Nodes: 3, Twins: 0, Parts: 1, Views: 2}, // 9
		{Nodes: 3, Twins: 1, Parts: 2, Views: 1}, // 12
		{Nodes: 5, Twins: 0, Parts: 1, Views: 3}, // 125
		{Nodes: 4, Twins: 1, Parts: 2, Views: 2}, // 324
		{Nodes: 4, Twins: 2, Parts: 3, Views: 1}, // 248, long encodings of different lengths
	}
	sw := v.Stream("writers", "drain_mismatches", 8)
	for _, st := range sets {
		g, panicked, _ := c18NewGen(st.settings())
		if panicked {
			continue
		}
		keyIdx := map[string]int{}
		for i, opt := range g.leadersPartitions {
			keyIdx[c18ViewKey(opt)] = i
		}
		n, views := len(g.leadersPartitions), int(st.Views)
		announced := g.Remaining()
		var scens []Scenario
		for {
			s, kind := c18Next(g)
			if kind != c18Scen {
				break
			}
			scens = append(scens, s)
		}
		settings := g.Settings()
		for _, w := range []int{2, 8} {
			for _, delay := range []time.Duration{0, 15 * time.Microsecond} {
				failed := false
				for r := 0; r < rounds && !failed; r++ {
					if delay > 0 && r >= rounds/3+1 {
						break
					}
					out := &c18SlowWriter{delay: delay}
					wr, err := ToJSON(settings, out)
					meta := st.meta()
					meta["goroutines"], meta["slow_writer"], meta["round"] = w, delay > 0, r
					if err != nil {
						v.Oracle(false, "writer.concurrent:error", err.Error(), meta)
						break
					}
					var wg sync.WaitGroup
					var emu sync.Mutex
					var werrs []string
					start := make(chan struct{})
					for i := 0; i < w; i++ {
						wg.Add(1)
						go func(i int) {
							defer wg.Done()
							defer func() {
								if rec := recover(); rec != nil {
									emu.Lock()
									werrs = append(werrs, fmt.Sprint("panic: ", rec))
									emu.Unlock()
								}
							}()
							<-start
							for j := i; j < len(scens); j += w {
								if err := wr.WriteScenario(scens[j]); err != nil {
									emu.Lock()
									werrs = append(werrs, err.Error())
									emu.Unlock()
								}
							}
						}(i)
					}
					close(start)
					wg.Wait()
					if err := wr.Close(); err != nil {
						werrs = append(werrs, err.Error())
					}
					v.Count("concurrent_writes")
					v.Count(fmt.Sprintf("concurrent_writers_w=%d", w))
					v.Seen(fmt.Sprintf("writers %v %d %v %d", st, w, delay, r), len(scens) >= w, meta)
					if len(werrs) > 0 {
						meta["errors"] = werrs
						v.Oracle(false, "writer.concurrent:error", fmt.Sprintf("WriteScenario/Close fail or panic with %d concurrent writers: %v", w, werrs), meta)
						failed = true
					}
					back, ok := c18ReadBackCompare(v, out.buf.Bytes(), scens, settings, meta)
					failed = failed || !ok
					if r == 0 && delay == 0 {
						// kernel: sorted, the scenarios read back are the model's (unshuffled) sequence
						codes := make([]uint64, 0, len(back))
						for _, s := range back {
							code, _ := c18Code(s, keyIdx, n, views)
							codes = append(codes, code)
						}
						sort.Slice(codes, func(a, b int) bool { return codes[a] < codes[b] })
						evs := make([]string, len(codes))
						for i, code := range codes {
							evs[i] = fmt.Sprintf("(%s,EvScen %s)", gZ(announced-int64(i)), gN(code))
						}
						v.Case(sw, fmt.Sprintf("(%s,%s,None,%s)", gNat(n), gNat(views), gList(evs)), meta)
					}
				}
			}
		}

		// orchestrated: writer 1 is inside WriteScenario(A), holding the JSONWriter's lock while the underlying
		// writer is slow; writer 2 calls WriteScenario(B) meanwhile. Both on one P, as with more workers than CPUs.
		if len(scens) >= 2 {
			pairs := [][2]int{{0, 1}, {len(scens) - 1, 0}, {len(scens) / 2, len(scens) - 1}}
			for pi, pr := range pairs {
				if pr[0] == pr[1] || pi >= v.Pick(2, 3) {
					continue
				}
				for _, blockAt := range []int{2, 3} { // the separator write, the scenario write
					func() {
						defer runtime.GOMAXPROCS(runtime.GOMAXPROCS(1))
						gw := &c18GateWriter{blockAt: blockAt, entered: make(chan struct{}), release: make(chan struct{})}
						meta := st.meta()
						meta["orchestrated"], meta["blocked_write_call"], meta["scenario_indices"] = true, blockAt, pr
						wr, err := ToJSON(settings, gw) // Write call 1: the header
						if err != nil {
							v.Oracle(false, "writer.concurrent:error", err.Error(), meta)
							return
						}
						a, b := scens[pr[0]], scens[pr[1]]
						done := make(chan error, 1)
						go func() { done <- wr.WriteScenario(a) }()
						select {
						case <-gw.entered:
						case <-time.After(2 * time.Second):
							v.Note("orchestrated writer case: the gated Write call was not reached")
							close(gw.release)
							<-done
							return
						}
						time.AfterFunc(30*time.Millisecond, func() { close(gw.release) })
						errB := wr.WriteScenario(b) // waits for the lock held by writer 1
						errA := <-done
						errC := wr.Close()
						v.Count("concurrent_writes_orchestrated")
						v.Seen(fmt.Sprintf("writers-gated %v %v %d", st, pr, blockAt), true, meta)
						if errA != nil || errB != nil || errC != nil {
							v.Oracle(false, "writer.concurrent:error", fmt.Sprint(errA, errB, errC), meta)
						}
						c18ReadBackCompare(v, gw.buf.Bytes(), []Scenario{a, b}, settings, meta)
					}()
				}
			}
		}
	}
}

// TestVerifC18Race is the concurrent-drain stream alone; the thorough tier runs it under -race.
func TestVerifC18Race(t *testing.T) {
	v := verifNew("C18")
	v.prop = "C18race"
	c18Concurrent(v, 6)
	c18ConcurrentWriters(v, 6)
	v.Close("concurrent drains of both scenario sources and concurrent writers of the JSON writer under the race detector")
}

func TestVerifC18(t *testing.T) {
	v := verifNew("C18")
	c18Unit(v)
	c18Generator(v)
	c18Verdict(v)
	c18Execute(v)
	c18Concurrent(v, v.Pick(12, 60))
	c18ConcurrentWriters(v, v.Pick(12, 60))
	v.Close("generator: (settings, views, plain/shuffle seed) drains, non-trivial = at least 2 options and 2 views; verdict: sets of commit logs, non-trivial = at least two non-twin replicas one of which committed something")
}

package network

// C10 — fetch replies.  qspec.RequestBlockQF is the code that looks at what peers answer to a block
// request: every reply is converted with hotstuffpb.BlockFromProto and compared with the requested hash.
// A peer chooses the reply, so it is part of the replica-to-replica interface: absent / empty / mutually
// inconsistent fields must not panic, and only a block with the requested hash may be accepted.
// Replies go through protobuf Marshal/Unmarshal first (map values are never nil after that).

import (
	"fmt"
	"testing"
	"time"

	"github.com/relab/hotstuff"
	"github.com/relab/hotstuff/internal/proto/clientpb"
	"github.com/relab/hotstuff/internal/proto/hotstuffpb"
	"google.golang.org/protobuf/proto"
	"google.golang.org/protobuf/types/known/timestamppb"
)

func c10qB(b bool) string {
	if b {
		return "T"
	}
	return "F"
}

func TestVerifC10(t *testing.T) {
	v := verifNew("C10")
	s := v.Stream("qspec", "mismatches", 2000)
	g := hotstuff.GetGenesis()
	gq := hotstuff.NewQuorumCert(nil, 0, g.Hash())
	b1 := hotstuff.NewBlock(g.Hash(), gq, &clientpb.Batch{Commands: []*clientpb.Command{{ClientID: 1, SequenceNumber: 1, Data: []byte("x")}}}, 1, 1)
	b2 := hotstuff.NewBlock(b1.Hash(), hotstuff.NewQuorumCert(nil, 1, b1.Hash()), nil, 2, 3)
	type rv struct {
		name string
		b    *hotstuffpb.Block
	}
	h1 := b1.Hash()
	mk := func(b *hotstuff.Block, f func(*hotstuffpb.Block)) *hotstuffpb.Block {
		pb := hotstuffpb.BlockToProto(b)
		if f != nil {
			f(pb)
		}
		return pb
	}
	replies := []rv{
		{"genuine b1", mk(b1, nil)},
		{"genuine b2", mk(b2, nil)},
		{"empty block", &hotstuffpb.Block{}},
		{"b1 without QC", mk(b1, func(b *hotstuffpb.Block) { b.QC = nil })},
		{"b1 without commands", mk(b1, func(b *hotstuffpb.Block) { b.Commands = nil })},
		{"b1 without timestamp", mk(b1, func(b *hotstuffpb.Block) { b.Timestamp = nil })},
		{"b1 with another timestamp", mk(b1, func(b *hotstuffpb.Block) { b.Timestamp = timestamppb.New(time.Unix(1, 1)) })},
		{"b1 with an out-of-range timestamp", mk(b1, func(b *hotstuffpb.Block) { b.Timestamp = &timestamppb.Timestamp{Seconds: 1 << 62, Nanos: -5} })},
		{"b1 with another view", mk(b1, func(b *hotstuffpb.Block) { b.View = ^uint64(0) })},
		{"b1 with another proposer", mk(b1, func(b *hotstuffpb.Block) { b.Proposer = ^uint32(0) })},
		{"b1 with a short parent", mk(b1, func(b *hotstuffpb.Block) { b.Parent = b.Parent[:5] })},
		{"b1 with an empty QC signature", mk(b1, func(b *hotstuffpb.Block) { b.QC.Sig = &hotstuffpb.QuorumSignature{} })},
		{"b1 with a garbage BLS QC signature", mk(b1, func(b *hotstuffpb.Block) {
			b.QC.Sig = &hotstuffpb.QuorumSignature{Sig: &hotstuffpb.QuorumSignature_BLS12Sig{BLS12Sig: &hotstuffpb.BLS12AggregateSignature{Sig: []byte{1, 2, 3}, Participants: []byte{0xff}}}}
		})},
		{"b1 with a zero-valued command", mk(b1, func(b *hotstuffpb.Block) { b.Commands = &clientpb.Batch{Commands: []*clientpb.Command{{}}} })},
	}
	wants := []struct {
		name string
		h    []byte
	}{{"hash of b1", h1[:]}, {"absent", nil}, {"short", h1[:7]}, {"long", append(append([]byte{}, h1[:]...), 9)}}
	blockTerm := func(b *hotstuffpb.Block) string {
		q := "None"
		if b.GetQC() != nil {
			sig := "None"
			if b.GetQC().GetSig() != nil {
				sig = "(Some None)"
				if bs := b.GetQC().GetSig().GetBLS12Sig(); bs != nil {
					sig = "(Some (Some (WBls F 8 F)))"
				}
			}
			q = fmt.Sprintf("(Some (QC %s %d HUnknown))", sig, b.GetQC().GetView())
		}
		return fmt.Sprintf("(Some (BL %s %d %s %s))", q, b.GetView(), c10qB(b.GetCommands() != nil), c10qB(b.GetTimestamp() != nil))
	}
	allGuards := "(G T T T T T T T T T T)"
	n := 0
	for _, want := range wants {
		// single replies, and pairs (the genuine block among hostile ones, in both map positions)
		var sets [][]rv
		sets = append(sets, nil)
		for i, r := range replies {
			sets = append(sets, []rv{r})
			sets = append(sets, []rv{r, replies[0]}, []rv{replies[(i+1)%len(replies)], r})
		}
		for _, set := range sets {
			m := map[uint32]*hotstuffpb.Block{}
			var names []string
			matching := false
			for i, r := range set {
				raw, err := proto.Marshal(r.b)
				if err != nil {
					t.Fatal(err)
				}
				rb := &hotstuffpb.Block{}
				if err := proto.Unmarshal(raw, rb); err != nil {
					t.Fatal(err)
				}
				m[uint32(i+1)] = rb
				names = append(names, r.name)
				var wh hotstuff.Hash
				copy(wh[:], want.h)
				if r.name == "genuine b1" && wh == b1.Hash() {
					matching = true
				}
			}
			var got *hotstuffpb.Block
			var ok bool
			returned := func() (ret bool) {
				defer func() {
					if recover() != nil {
						ret = false
					}
				}()
				got, ok = qspec{}.RequestBlockQF(&hotstuffpb.BlockHash{Hash: want.h}, m)
				return true
			}()
			meta := map[string]any{"requested": want.name, "replies": names, "returned": returned, "accepted": ok}
			n++
			v.Oracle(returned, "panic:RequestBlockQF", fmt.Sprintf("a fetch reply (%v) panics in the quorum function", names), meta)
			if returned {
				// an accepted block has the requested hash; the genuine block is accepted when it was requested
				var wh hotstuff.Hash
				copy(wh[:], want.h)
				good := (!ok || hotstuffpb.BlockFromProto(got).Hash() == wh) && (!matching || ok)
				v.Oracle(good, "fetch:wrong-block-accepted", fmt.Sprintf("requested %s, replies %v: accepted=%v", want.name, names, ok), meta)
			}
			for _, r := range m {
				v.Case(s, fmt.Sprintf("(DC %s (DBlock %s) %s)", allGuards, blockTerm(r), c10qB(returned)), meta)
			}
			v.Seen(fmt.Sprintf("qf|%s|%v", want.name, names), len(set) > 0, meta)
			v.Count("handler:fetch-reply")
		}
	}
	v.Close("one case = one set of block-fetch replies given to qspec.RequestBlockQF")
}

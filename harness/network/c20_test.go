package network_test

import (
	"fmt"
	"net"
	"testing"

	"github.com/relab/gorums"
	"github.com/relab/hotstuff"
	"github.com/relab/hotstuff/network"
	"github.com/relab/hotstuff/security/crypto/keygen"
	"github.com/relab/hotstuff/wiring"
)

// C20 on the path that fills the membership of a running replica: the real GorumsSender.Connect.
// For n = 4 and 7, every replica gets a runtime configuration and a real gorums sender and
// connects (loopback, bare gorums servers on OS-chosen ports) with replica lists that are
// ordinary, contain two entries with one address, contain another entry with the replica's own
// address, or contain an entry twice. Afterwards every replica's ReplicaCount() must be the
// number of distinct replica ids in the list and its QuorumSize() the quorum function of that
// number — the same threshold at all replicas. (A duplicated address leaves one replica without a
// gorums node on the current code; that concerns reachability, not the threshold, and is not
// flagged.) The observed thresholds are recomputed in the kernel like the core harness's.

func TestVerifC20(t *testing.T) {
	v := verifNew("C20")
	s := v.Stream("connect", "mismatches", 2000)
	skipped := false
	run := func(kind string, n int, mk func(addrs []string, self int) []hotstuff.ReplicaInfo) {
		if skipped {
			return
		}
		addrs := make([]string, n)
		var stops []func()
		defer func() {
			for _, f := range stops {
				f()
			}
		}()
		for i := range addrs {
			lis, err := net.Listen("tcp", "127.0.0.1:0")
			if err != nil {
				skipped = true
				v.Note(fmt.Sprintf("connect stream skipped (not a failure): cannot listen on loopback: %v", err))
				v.Count("connect:skipped")
				return
			}
			srv := gorums.NewServer()
			go func() { _ = srv.Serve(lis) }()
			stops = append(stops, srv.Stop)
			addrs[i] = lis.Addr().String()
		}
		keys := make([]hotstuff.PrivateKey, n)
		for i := range keys {
			k, err := keygen.GenerateECDSAPrivateKey()
			if err != nil {
				panic(err)
			}
			keys[i] = k
		}
		type obs struct{ id, count, quorum int }
		var all []obs
		distinctAll := -1
		for self := 0; self < n; self++ {
			list := mk(addrs, self)
			for i := range list {
				list[i].PubKey = keys[int(list[i].ID)-1].Public()
			}
			ids := map[hotstuff.ID]bool{}
			for _, r := range list {
				ids[r.ID] = true
			}
			distinct := len(ids)
			var shape []string
			for _, r := range list {
				shape = append(shape, fmt.Sprintf("%d@%s", r.ID, r.Address))
			}
			meta := map[string]any{"kind": "connect/" + kind, "n": n, "replica": self + 1, "list": shape, "distinct_ids": distinct}
			c := wiring.NewCore(hotstuff.ID(self+1), "c20n", keys[self])
			sender := network.NewGorumsSender(c.EventLoop(), c.Logger(), c.RuntimeCfg(), nil)
			err := func() (err error) {
				defer func() {
					if rec := recover(); rec != nil {
						err = fmt.Errorf("panic: %v", rec)
					}
				}()
				return sender.Connect(list)
			}()
			stops = append(stops, func() {
				defer func() { _ = recover() }()
				sender.Close()
			})
			if err != nil {
				v.Count("connect:error")
				v.Note(fmt.Sprintf("info: Connect of replica %d with list %v returned %v", self+1, shape, err))
			}
			cfg := c.RuntimeCfg()
			cnt, q := cfg.ReplicaCount(), cfg.QuorumSize()
			want := hotstuff.QuorumSize(distinct)
			v.Seen(fmt.Sprintf("connect %s/%d/%d/%v", kind, n, self, shape), distinct >= 4, map[string]any{"kind": kind, "n": n, "replica": self + 1, "count": cnt, "quorum": q})
			v.Count("connect-kind:" + kind)
			switch {
			case cnt != distinct:
				v.Oracle(false, "connect:replica-count-differs-from-membership",
					fmt.Sprintf("%s, n=%d: after Connect replica %d counts %d replicas (threshold %d); the list %v names %d distinct replicas (threshold %d)", kind, n, self+1, cnt, q, shape, distinct, want), meta)
			case q != want:
				v.Oracle(false, "connect:threshold-differs",
					fmt.Sprintf("%s, n=%d: after Connect replica %d uses quorum size %d, QuorumSize(%d)=%d", kind, n, self+1, q, distinct, want), meta)
			default:
				v.Oracle(true, "", "", nil)
			}
			v.Case(s, fmt.Sprintf("(%s,%s,%s,%s)", gZ(int64(distinct)), gZ(int64(hotstuff.NumFaulty(distinct))), gZ(int64(want)), gZ(int64(q))), meta)
			all = append(all, obs{self + 1, cnt, q})
			if distinctAll == -1 {
				distinctAll = distinct
			} else if distinctAll != distinct {
				distinctAll = -2 // per-replica lists with different memberships: no cross-replica comparison
			}
		}
		if distinctAll >= 0 {
			for _, o := range all[1:] {
				if o.quorum != all[0].quorum {
					v.Oracle(false, "connect:replicas-use-different-thresholds",
						fmt.Sprintf("%s, n=%d: replica %d uses quorum size %d and replica %d uses %d for the same membership", kind, n, all[0].id, all[0].quorum, o.id, o.quorum),
						map[string]any{"kind": "connect/" + kind, "n": n})
					break
				}
			}
		}
	}
	plain := func(addrs []string) []hotstuff.ReplicaInfo {
		l := make([]hotstuff.ReplicaInfo, len(addrs))
		for i, a := range addrs {
			l[i] = hotstuff.ReplicaInfo{ID: hotstuff.ID(i + 1), Address: a}
		}
		return l
	}
	for _, n := range []int{4, 7} {
		run("ordinary", n, func(a []string, _ int) []hotstuff.ReplicaInfo { return plain(a) })
		run("last-two-share-an-address", n, func(a []string, _ int) []hotstuff.ReplicaInfo {
			l := plain(a)
			l[n-1].Address = l[n-2].Address
			return l
		})
		run("first-two-share-an-address", n, func(a []string, _ int) []hotstuff.ReplicaInfo {
			l := plain(a)
			l[1].Address = l[0].Address
			return l
		})
		i, j := v.rng.Intn(n), v.rng.Intn(n-1)
		if j >= i {
			j++
		}
		run("two-random-share-an-address", n, func(a []string, _ int) []hotstuff.ReplicaInfo {
			l := plain(a)
			l[i].Address = l[j].Address
			return l
		})
		run("three-share-an-address", n, func(a []string, _ int) []hotstuff.ReplicaInfo {
			l := plain(a)
			l[1].Address, l[2].Address = l[0].Address, l[0].Address
			return l
		})
		run("another-entry-has-own-address", n, func(a []string, self int) []hotstuff.ReplicaInfo {
			l := plain(a)
			l[(self+1)%n].Address = l[self].Address
			return l
		})
		run("entry-twice", n, func(a []string, _ int) []hotstuff.ReplicaInfo {
			l := plain(a)
			return append(l, l[n-1], l[0])
		})
		run("id-twice-with-two-addresses", n, func(a []string, _ int) []hotstuff.ReplicaInfo {
			l := plain(a)
			extra := l[2]
			extra.Address = l[1].Address
			return append(l, extra)
		})
		run("unsorted-list", n, func(a []string, _ int) []hotstuff.ReplicaInfo {
			l := plain(a)
			for k := 0; k < n/2; k++ {
				l[k], l[n-1-k] = l[n-1-k], l[k]
			}
			l[0].Address = l[n-1].Address
			return l
		})
	}
	v.Close("GorumsSender.Connect: one evaluation = one replica connecting with one replica list; non-trivial = at least 4 distinct replicas")
}

package network

// Part of the C06 correspondence harness (see c06_test.go, package network_test): makes the real,
// unexported quorum function of the Fetch call reachable from the external test package, which —
// unlike an in-package test — may import protocol/consensus and server without an import cycle.
// Only added through `go test -overlay`; nothing in the repository is replaced.

import "github.com/relab/hotstuff/internal/proto/hotstuffpb"

// VerifC06RequestBlockQF is qspec.RequestBlockQF, the function gorums calls with the replies
// collected so far each time another replica has answered a RequestBlock quorum call.
func VerifC06RequestBlockQF(in *hotstuffpb.BlockHash, replies map[uint32]*hotstuffpb.Block) (*hotstuffpb.Block, bool) {
	return qspec{}.RequestBlockQF(in, replies)
}

package network

// Correspondence harness for C13, network side: the real quorum function qspec.RequestBlockQF on
// lying / honest / empty reply sets, and the composition Blockchain.Get/Extends/PruneToHeight with
// a sender that does what GorumsSender.RequestBlock does after the quorum call (RequestBlockQF on
// the peers' replies, then BlockFromProto). Oracle: whatever the peers answer, a block obtained
// under hash h has hash h.

import (
	"context"
	"fmt"
	"reflect"
	"sort"
	"strings"
	"testing"
	"time"

	"github.com/relab/hotstuff"
	"github.com/relab/hotstuff/core"
	"github.com/relab/hotstuff/core/eventloop"
	"github.com/relab/hotstuff/core/logging"
	"github.com/relab/hotstuff/internal/proto/clientpb"
	"github.com/relab/hotstuff/internal/proto/hotstuffpb"
	"github.com/relab/hotstuff/security/blockchain"
)

// c13QFSender: RequestBlock = RequestBlockQF over the table's replies + BlockFromProto, exactly the
// two steps GorumsSender.RequestBlock performs around the gorums quorum call.
type c13QFSender struct {
	tbl   map[hotstuff.Hash][]*hotstuff.Block
	given []*hotstuff.Block
	// while a hash is being fetched (the accepted reply still arrives): 1 TimeoutEvent,
	// 2 ViewChangeEvent reach the event loop, 3 the accepted block is stored by another path
	el      *eventloop.EventLoop
	chain   *blockchain.Blockchain
	inject  map[hotstuff.Hash]int
	refused int
}

func (s *c13QFSender) NewView(hotstuff.ID, hotstuff.SyncInfo) error { return nil }
func (s *c13QFSender) Vote(hotstuff.ID, hotstuff.PartialCert) error { return nil }
func (s *c13QFSender) Timeout(hotstuff.TimeoutMsg)                  {}
func (s *c13QFSender) Propose(*hotstuff.ProposeMsg)                 {}
func (s *c13QFSender) Sub([]hotstuff.ID) (core.Sender, error)       { return s, nil }
func (s *c13QFSender) RequestBlock(ctx context.Context, h hotstuff.Hash) (*hotstuff.Block, bool) {
	if ctx.Err() != nil {
		// like GorumsSender: a request made with a cancelled context fails without an answer
		s.refused++
		return nil, false
	}
	replies := map[uint32]*hotstuffpb.Block{}
	for i, b := range s.tbl[h] {
		replies[uint32(i+1)] = hotstuffpb.BlockToProto(b)
	}
	pb, ok := qspec{}.RequestBlockQF(&hotstuffpb.BlockHash{Hash: h[:]}, replies)
	if !ok {
		return nil, false
	}
	b := hotstuffpb.BlockFromProto(pb)
	switch s.inject[h] {
	case 1:
		s.el.AddEvent(hotstuff.TimeoutEvent{View: 1})
	case 2:
		s.el.AddEvent(hotstuff.ViewChangeEvent{View: 2})
	case 3:
		s.chain.Store(b)
	}
	s.given = append(s.given, b)
	return b, true
}

var c13TS = time.Date(2025, 2, 2, 0, 0, 0, 0, time.UTC)

// ---------------------------------------------------------------------------------------------
// Certificate links are chosen independently of parent links: the quorum certificate a block
// carries names its parent, an ancestor further up, a block on another branch (possibly with a
// higher view), genesis, a hash nobody has, or nothing. The store must answer from PARENT links
// only. (A block cannot certify itself: its hash covers its certificate.)
var (
	c13Pool []*hotstuff.Block // blocks of the universe under construction (possible certificate targets)
	c13Tag  uint64
)

func c13NewUniverse(tag uint64) {
	c13Pool = []*hotstuff.Block{hotstuff.GetGenesis()}
	c13Tag = tag
}

func c13Mix(x uint64) uint64 {
	x += 0x9e3779b97f4a7c15
	x = (x ^ (x >> 30)) * 0xbf58476d1ce4e5b9
	x = (x ^ (x >> 27)) * 0x94d049bb133111eb
	return x ^ (x >> 31)
}

func c13Tagged(s string) uint64 {
	h := uint64(1469598103934665603)
	for i := 0; i < len(s); i++ {
		h = (h ^ uint64(s[i])) * 1099511628211
	}
	return h
}

func c13CertOf(b *hotstuff.Block) hotstuff.QuorumCert {
	return hotstuff.NewQuorumCert(nil, b.View(), b.Hash())
}

// c13CertFor picks the certificate of a new block, deterministically from the universe tag.
func c13CertFor(parent hotstuff.Hash, view uint64, salt int) hotstuff.QuorumCert {
	if c13Pool == nil {
		c13NewUniverse(0)
	}
	r := c13Mix(c13Tag ^ c13Mix(uint64(salt)+uint64(len(c13Pool))<<20) ^ c13Mix(view) ^ uint64(parent[3])<<8 ^ uint64(parent[7]))
	find := func(h hotstuff.Hash) *hotstuff.Block {
		for _, x := range c13Pool {
			if x.Hash() == h {
				return x
			}
		}
		return nil
	}
	any := c13Pool[int((r>>8)%uint64(len(c13Pool)))]
	switch r % 16 {
	case 0, 1, 2: // the parent, as an honest proposer does
		if p := find(parent); p != nil {
			return c13CertOf(p)
		}
		return hotstuff.NewQuorumCert(nil, hotstuff.View(view-1), parent)
	case 3: // an ancestor further up
		if p := find(parent); p != nil {
			if gp := find(p.Parent()); gp != nil {
				return c13CertOf(gp)
			}
		}
		return c13CertOf(c13Pool[0])
	case 4, 5, 6, 7, 8, 9, 10: // any block made so far: another branch, same or higher view, genesis
		return c13CertOf(any)
	case 11: // the block with the highest view so far
		top := c13Pool[0]
		for _, x := range c13Pool {
			if x.View() > top.View() {
				top = x
			}
		}
		return c13CertOf(top)
	case 12: // a hash nobody has
		return hotstuff.NewQuorumCert(nil, hotstuff.View(view), c13Missing(200+salt%50))
	case 13: // right block, wrong view label
		return hotstuff.NewQuorumCert(nil, any.View()+1, any.Hash())
	case 14: // no certificate at all
		return hotstuff.QuorumCert{}
	default: // genesis
		return c13CertOf(c13Pool[0])
	}
}

func c13BlockQC(parent hotstuff.Hash, view uint64, salt int, qc hotstuff.QuorumCert) *hotstuff.Block {
	b := hotstuff.NewBlock(parent, qc,
		&clientpb.Batch{Commands: []*clientpb.Command{{ClientID: uint32(salt), SequenceNumber: uint64(salt)}}},
		hotstuff.View(view), hotstuff.ID(1+salt%4))
	b.SetTimestamp(c13TS)
	c13Pool = append(c13Pool, b)
	return b
}

// c13Block makes a block with the given parent hash and view; salt separates equivocating blocks.
// Its certificate is chosen by c13CertFor, independently of the parent.
func c13Block(parent hotstuff.Hash, view uint64, salt int) *hotstuff.Block {
	return c13BlockQC(parent, view, salt, c13CertFor(parent, view, salt))
}

func c13Missing(i int) hotstuff.Hash {
	var h hotstuff.Hash
	h[0], h[1], h[31] = 0xEE, byte(i), 0x13
	return h
}

func c13Prune(chain *blockchain.Blockchain, committed *hotstuff.Block, height hotstuff.View) ([]*hotstuff.Block, bool) {
	m := reflect.ValueOf(chain).MethodByName("PruneToHeight")
	if !m.IsValid() || m.Type().NumIn() != 2 || m.Type().NumOut() != 1 {
		return nil, false
	}
	var a0 reflect.Value
	switch m.Type().In(0) {
	case reflect.TypeOf(hotstuff.View(0)):
		a0 = reflect.ValueOf(committed.View())
	case reflect.TypeOf((*hotstuff.Block)(nil)):
		a0 = reflect.ValueOf(committed)
	case reflect.TypeOf(hotstuff.Hash{}):
		a0 = reflect.ValueOf(committed.Hash())
	default:
		return nil, false
	}
	out := m.Call([]reflect.Value{a0, reflect.ValueOf(height)})
	res, _ := out[0].Interface().([]*hotstuff.Block)
	return res, true
}

type c13Net struct {
	v       *verifOut
	intern  map[hotstuff.Hash]uint64
	order   []hotstuff.Hash
	ops     []string
	obs     []string
	desc    []string
	fails   []verifOracleFail
	oks     int
	chain   *blockchain.Blockchain
	snd     *c13QFSender
	present map[hotstuff.Hash]*hotstuff.Block
}

func (c *c13Net) id(h hotstuff.Hash) uint64 {
	if x, ok := c.intern[h]; ok {
		return x
	}
	x := uint64(len(c.intern))
	c.intern[h] = x
	c.order = append(c.order, h)
	return x
}
func (c *c13Net) gB(b *hotstuff.Block) string {
	return fmt.Sprintf("(B %d %d %d)", c.id(b.Hash()), c.id(b.Parent()), uint64(b.View()))
}
func (c *c13Net) gBs(bs []*hotstuff.Block) string {
	ss := make([]string, len(bs))
	for i, b := range bs {
		ss[i] = c.gB(b)
	}
	return gList(ss)
}
func (c *c13Net) gOB(b *hotstuff.Block, ok bool) string {
	if !ok || b == nil {
		return "None"
	}
	return "(Some " + c.gB(b) + ")"
}
func (c *c13Net) nm(b *hotstuff.Block) string {
	if b == nil {
		return "nil"
	}
	return fmt.Sprintf("#%d(v%d,p#%d)", c.id(b.Hash()), uint64(b.View()), c.id(b.Parent()))
}
func (c *c13Net) nms(bs []*hotstuff.Block) string {
	ss := make([]string, len(bs))
	for i, b := range bs {
		ss[i] = c.nm(b)
	}
	return "[" + strings.Join(ss, " ") + "]"
}
func (c *c13Net) fail(fp, what string) {
	c.fails = append(c.fails, verifOracleFail{Fingerprint: fp, What: what})
}

func (c *c13Net) tblTerm(tbl map[hotstuff.Hash][]*hotstuff.Block) string {
	keys := make([]hotstuff.Hash, 0, len(tbl))
	for k := range tbl {
		keys = append(keys, k)
	}
	sort.Slice(keys, func(i, j int) bool { return c.id(keys[i]) < c.id(keys[j]) })
	ts := make([]string, len(keys))
	for i, k := range keys {
		ts[i] = fmt.Sprintf("(%d, %s)", c.id(k), c.gBs(tbl[k]))
	}
	return gList(ts)
}

// chainOf over the reference forest (+ honestly fetchable blocks)
func (c *c13Net) chainOf(b *hotstuff.Block, also map[hotstuff.Hash]*hotstuff.Block) map[hotstuff.Hash]bool {
	on := map[hotstuff.Hash]bool{}
	for cur, n := b, 0; cur != nil && n < 1000; n++ {
		on[cur.Hash()] = true
		p, ok := c.present[cur.Parent()]
		if !ok {
			p, ok = also[cur.Parent()]
		}
		if !ok {
			break
		}
		cur = p
	}
	return on
}

func c13NetProgram(v *verifOut, s *verifStream, logger logging.Logger, seed int64, kind string) (hung bool) {
	rng := &c13Rng{uint64(seed)*2862933555777941757 + 3037000493}
	c13NewUniverse(uint64(seed))
	c := &c13Net{v: v, intern: map[hotstuff.Hash]uint64{}, present: map[hotstuff.Hash]*hotstuff.Block{}}
	c.snd = &c13QFSender{}
	c.snd.el = eventloop.New(logger, 16)
	c.chain = blockchain.New(c.snd.el, logger, c.snd)
	c.snd.chain = c.chain
	g := hotstuff.GetGenesis()
	c.id(hotstuff.Hash{})
	c.id(g.Hash())
	c.present[g.Hash()] = g
	// a monotone universe with forks, equivocation and gaps
	nb := 3 + rng.Intn(7)
	uni := []*hotstuff.Block{g}
	for i := 1; i <= nb; i++ {
		if rng.Intn(10) == 0 {
			uni = append(uni, c13Block(c13Missing(i), 1+uint64(rng.Intn(5)), i))
			continue
		}
		p := uni[rng.Intn(len(uni))]
		if rng.Intn(3) == 0 {
			p = uni[len(uni)-1]
		}
		uni = append(uni, c13Block(p.Hash(), uint64(p.View())+1+uint64(rng.Intn(2))*uint64(rng.Intn(3)), i))
	}
	pick := func() *hotstuff.Block { return uni[rng.Intn(len(uni))] }
	// the peers' replies to a request for h: any mixture of the right block, other blocks, nothing
	replies := func(h hotstuff.Hash) []*hotstuff.Block {
		var rs []*hotstuff.Block
		for n := rng.Intn(4); n > 0; n-- {
			rs = append(rs, pick()) // most likely a block of another hash
		}
		if rng.Intn(2) == 0 {
			for _, b := range uni {
				if b.Hash() == h {
					rs = append(rs, b)
					j := rng.Intn(len(rs))
					rs[j], rs[len(rs)-1] = rs[len(rs)-1], rs[j]
					break
				}
			}
		}
		return rs
	}
	emit := func(op, obs, desc string) {
		c.ops = append(c.ops, op)
		c.obs = append(c.obs, obs)
		c.desc = append(c.desc, desc)
	}
	absorb := func(g0 int) {
		for _, x := range c.snd.given[g0:] {
			if _, ok := c.present[x.Hash()]; !ok {
				c.present[x.Hash()] = x
			}
		}
	}
	height := uint64(0)
	reported := map[hotstuff.Hash]bool{}
	nops := 6 + rng.Intn(12)
	for i := 0; i < nops; i++ {
		switch r := rng.Intn(100); {
		case r < 25:
			b := pick()
			c.chain.Store(b)
			c.present[b.Hash()] = b
			emit("(OStore "+c.gB(b)+")", "RUnit", "Store "+c.nm(b))
		case r < 55:
			h := pick().Hash()
			if rng.Intn(10) == 0 {
				h = c13Missing(50 + rng.Intn(2))
			}
			rs := replies(h)
			c.snd.tbl = map[hotstuff.Hash][]*hotstuff.Block{h: rs}
			g0 := len(c.snd.given)
			b, ok := c.chain.Get(h)
			absorb(g0)
			emit(fmt.Sprintf("(OGet %d [] %s)", c.id(h), c.gBs(rs)), "(RBlock "+c.gOB(b, ok)+")",
				fmt.Sprintf("Get #%d, peers reply %s -> %s", c.id(h), c.nms(rs), c.nm(b)))
			_, have := c.present[h]
			switch {
			case ok && (b == nil || b.Hash() != h):
				c.fail("net:get-wrong-hash", fmt.Sprintf("Get(#%d) returned %s although peers' replies pass through RequestBlockQF", c.id(h), c.nm(b)))
			case ok != have:
				c.fail("net:get-availability", fmt.Sprintf("Get(#%d) ok=%v, reference=%v", c.id(h), ok, have))
			default:
				c.oks++
			}
		case r < 62:
			h := pick().Hash()
			b, ok := c.chain.LocalGet(h)
			emit(fmt.Sprintf("(OLocalGet %d)", c.id(h)), "(RBlock "+c.gOB(b, ok)+")", fmt.Sprintf("LocalGet #%d -> %s", c.id(h), c.nm(b)))
			if ok && (b == nil || b.Hash() != h) {
				c.fail("net:local-get-wrong-hash", fmt.Sprintf("LocalGet(#%d) returned %s", c.id(h), c.nm(b)))
			} else {
				c.oks++
			}
		case r < 85:
			b, t := pick(), pick()
			if rng.Intn(3) == 0 { // the pair (block, block its certificate names)
				for _, x := range uni {
					if x.Hash() == b.QuorumCert().BlockHash() {
						t = x
					}
				}
			}
			tbl := map[hotstuff.Hash][]*hotstuff.Block{}
			also := map[hotstuff.Hash]*hotstuff.Block{}
			for _, x := range uni {
				if rng.Intn(2) == 0 {
					tbl[x.Hash()] = replies(x.Hash())
					for _, y := range tbl[x.Hash()] {
						if y.Hash() == x.Hash() {
							also[x.Hash()] = x
						}
					}
				}
			}
			want := c.chainOf(b, also)[t.Hash()]
			c.snd.tbl = tbl
			c.snd.inject = nil
			injDesc := ""
			if rng.Intn(3) == 0 { // something happens in the replica between the fetches of this walk
				c.snd.inject = map[hotstuff.Hash]int{}
				for _, x := range uni { // in a fixed order: the case must replay from its seed
					if also[x.Hash()] != nil {
						c.snd.inject[x.Hash()] = rng.Intn(4)
					}
				}
				injDesc = fmt.Sprintf(", events/stores while fetching: %d", len(c.snd.inject))
				v.Count("extends_with_injection")
			}
			g0 := len(c.snd.given)
			var got bool
			if !c13Within(5*time.Second, func() { got = c.chain.Extends(b, t) }) {
				v.Oracle(false, "net:extends-does-not-return", fmt.Sprintf("Extends(%s,%s) did not return within 5s (peers' replies pass through RequestBlockQF)", c.nm(b), c.nm(t)),
					map[string]any{"kind": kind, "seed": seed, "ops": c.desc})
				return true
			}
			absorb(g0)
			emit(fmt.Sprintf("(OExtends %s %s %s)", c.gB(b), c.gB(t), c.tblTerm(tbl)), "(RBool (Some "+gBool(got)+"))",
				fmt.Sprintf("Extends %s %s (peers reply to %d hashes%s) -> %v", c.nm(b), c.nm(t), len(tbl), injDesc, got))
			if got != want {
				c.fail("net:extends-wrong-answer", fmt.Sprintf("Extends(%s,%s)=%v, reference forest says %v", c.nm(b), c.nm(t), got, want))
			} else {
				c.oks++
			}
		default:
			b := pick()
			if _, ok := c.present[b.Hash()]; !ok || uint64(b.View()) <= height {
				continue
			}
			height = uint64(b.View())
			var forked []*hotstuff.Block
			ok := false
			if !c13Within(5*time.Second, func() { forked, ok = c13Prune(c.chain, b, hotstuff.View(height)) }) {
				v.Oracle(false, "net:prune-does-not-return", fmt.Sprintf("PruneToHeight(committed=%s, %d) did not return within 5s", c.nm(b), height),
					map[string]any{"kind": kind, "seed": seed, "ops": c.desc})
				return true
			}
			if !ok {
				c.fail("harness:prune-signature", "unknown PruneToHeight signature")
				continue
			}
			emit(fmt.Sprintf("(OPrune %s %d)", c.gB(b), height), "(RBlocks "+c.gBs(forked)+")",
				fmt.Sprintf("PruneToHeight committed=%s height=%d -> forked %s", c.nm(b), height, c.nms(forked)))
			on := c.chainOf(b, nil)
			good := true
			for _, x := range forked {
				if x == nil || on[x.Hash()] {
					c.fail("net:prune-reported-committed-block", fmt.Sprintf("prune committed=%s reported %s, which is on its parent chain", c.nm(b), c.nm(x)))
					good = false
				} else if reported[x.Hash()] {
					c.fail("net:prune-reported-twice", fmt.Sprintf("%s reported a second time", c.nm(x)))
					good = false
				}
				if x != nil {
					reported[x.Hash()] = true
				}
			}
			if good {
				c.oks++
			}
		}
	}
	// final state as far as the public API shows it
	var bs []string
	hashes := append([]hotstuff.Hash(nil), c.order...)
	for _, h := range hashes {
		if b, ok := c.chain.LocalGet(h); ok {
			bs = append(bs, fmt.Sprintf("(%d, %s)", c.id(h), c.gB(b)))
		}
	}
	term := fmt.Sprintf("(C true %s\n %s\n %s\n (D %s None %d None))", c.gB(g), gList(c.ops), gList(c.obs), gList(bs), uint64(c.chain.PruneHeight()))
	meta := map[string]any{"kind": kind, "seed": seed, "ops": c.desc}
	if len(c.fails) > 0 {
		meta["fingerprint"] = c.fails[0].Fingerprint
	}
	v.Case(s, term, meta)
	v.Seen(fmt.Sprintf("%s seed=%d", kind, seed), true, map[string]any{"kind": kind, "ops": c.desc})
	v.Count("cases_" + kind)
	for i := 0; i < c.oks; i++ {
		v.Oracle(true, "", "", nil)
	}
	for _, f := range c.fails {
		v.Oracle(false, f.Fingerprint, f.What, map[string]any{"kind": kind, "seed": seed, "ops": c.desc})
	}
	return false
}

// c13Within runs f and reports whether it returned within d (a store that holds a block under a
// foreign hash can make Extends / PruneToHeight walk in circles; the goroutine is then abandoned).
func c13Within(d time.Duration, f func()) bool {
	done := make(chan struct{})
	go func() { defer close(done); f() }()
	select {
	case <-done:
		return true
	case <-time.After(d):
		return false
	}
}

type c13Rng struct{ s uint64 }

func (r *c13Rng) next() uint64 {
	r.s ^= r.s << 13
	r.s ^= r.s >> 7
	r.s ^= r.s << 17
	return r.s
}
func (r *c13Rng) Intn(n int) int { return int(r.next() % uint64(n)) }

func TestVerifC13(t *testing.T) {
	v := verifNew("C13")
	logging.SetLogLevel("error")
	logger := logging.New("c13net")

	// ---- RequestBlockQF alone
	qs := v.Stream("qf", "qf_mismatches", 1000)
	g := hotstuff.GetGenesis()
	c13NewUniverse(1)
	pool := []*hotstuff.Block{g}
	for i := 1; i <= 6; i++ {
		pool = append(pool, c13Block(pool[(i*7)%len(pool)].Hash(), uint64(i/2+1), i))
	}
	nq := v.Pick(2000, 30000)
	for k := 0; k < nq; k++ {
		intern := map[hotstuff.Hash]uint64{}
		id := func(h hotstuff.Hash) uint64 {
			if x, ok := intern[h]; ok {
				return x
			}
			intern[h] = uint64(len(intern))
			return intern[h]
		}
		gB := func(b *hotstuff.Block) string {
			return fmt.Sprintf("(B %d %d %d)", id(b.Hash()), id(b.Parent()), uint64(b.View()))
		}
		want := pool[v.rng.Intn(len(pool))]
		h := want.Hash()
		req := h[:]
		switch v.rng.Intn(12) {
		case 0:
			h = c13Missing(k % 5)
			req = h[:]
		case 1: // short hash in the request: copied into a zero-padded array
			req = h[:5]
			var hh hotstuff.Hash
			copy(hh[:], req)
			h = hh
		case 2:
			req = nil
			h = hotstuff.Hash{}
		}
		n := v.rng.Intn(5)
		replies := map[uint32]*hotstuffpb.Block{}
		var rs []*hotstuff.Block
		for i := 0; i < n; i++ {
			b := pool[v.rng.Intn(len(pool))]
			if v.rng.Intn(3) == 0 {
				b = want
			}
			rs = append(rs, b)
			replies[uint32(i+1)] = hotstuffpb.BlockToProto(b)
		}
		var in *hotstuffpb.BlockHash
		if req != nil || v.rng.Intn(2) == 0 {
			in = &hotstuffpb.BlockHash{Hash: req}
		}
		pb, ok := qspec{}.RequestBlockQF(in, replies)
		var got *hotstuff.Block
		if ok {
			got = hotstuffpb.BlockFromProto(pb)
		}
		ss := make([]string, len(rs))
		valid := false
		for i, b := range rs {
			ss[i] = gB(b)
			valid = valid || b.Hash() == h
		}
		obs := "None"
		if ok {
			obs = "(Some " + gB(got) + ")"
		}
		v.Case(qs, fmt.Sprintf("(%d, %s, %s)", id(h), gList(ss), obs), map[string]any{"kind": "qf", "k": k, "replies": len(rs), "accepted": ok})
		v.Seen(fmt.Sprintf("qf %d %v %s", id(h), ok, strings.Join(ss, ",")), n >= 2, map[string]any{"kind": "qf", "replies": n, "accepted": ok})
		v.Count(fmt.Sprintf("qf_replies_%d", n))
		switch {
		case ok && got.Hash() != h:
			v.Oracle(false, "net:qf-accepted-wrong-hash", fmt.Sprintf("RequestBlockQF accepted a reply with a hash different from the requested one (k=%d)", k), map[string]any{"k": k, "replies": ss})
		case ok != valid:
			v.Oracle(false, "net:qf-availability", fmt.Sprintf("RequestBlockQF ok=%v but a matching reply present=%v (k=%d)", ok, valid, k), map[string]any{"k": k, "replies": ss})
		default:
			v.Oracle(true, "", "", nil)
		}
	}

	// ---- composition with the store
	s := v.Stream("net", "mismatches", 400)
	np := v.Pick(2000, 40000)
	for k := 0; k < np; k++ {
		if c13NetProgram(v, s, logger, v.rng.Int63(), "net") {
			v.Note("composition stream stopped after a call that did not return")
			break
		}
	}
	v.Close("RequestBlockQF on random reply sets (non-trivial = at least two replies); random store/get/extends/prune programs where every fetch goes through the real RequestBlockQF with lying peers")
}

package network

// C12, fetch part: "a block fetched by hash is the block that hash names".
// Drives the real quorum function qspec.RequestBlockQF with reply sets that contain honest answers,
// other blocks, near misses (one field changed) and blocks with relabelled certificate signers, and
// checks that whatever it returns recomputes to the requested hash, IS the block that hash names
// (field by field, including the signers of the embedded certificate), and that an honest answer
// among the replies is found.  Every observation is emitted for the kernel (qf_mismatches in Corr/C12.v):
// the model recomputes the set of admissible replies from the reply dumps, with SHA-256 given as the
// table of digests Go computed for the decoded replies' bytes.

import (
	"bytes"
	"crypto/sha256"
	"encoding/binary"
	"fmt"
	"sort"
	"strings"
	"testing"
	"time"

	"github.com/relab/hotstuff"
	"github.com/relab/hotstuff/internal/proto/clientpb"
	"github.com/relab/hotstuff/internal/proto/hotstuffpb"
	"github.com/relab/hotstuff/security/crypto"
	"google.golang.org/protobuf/proto"
	"google.golang.org/protobuf/types/known/timestamppb"
)

type c12Dict struct {
	names map[string]string
	defs  []string
}

func c12Lit(b []byte) string {
	if len(b) == 0 {
		return "[]"
	}
	var sb strings.Builder
	sb.WriteByte('[')
	for i, x := range b {
		if i > 0 {
			sb.WriteByte(';')
		}
		fmt.Fprintf(&sb, "%d", x)
	}
	sb.WriteByte(']')
	return sb.String()
}

func (e *c12Dict) B(b []byte) string {
	if len(b) < 8 {
		return c12Lit(b)
	}
	k := string(b)
	if n, ok := e.names[k]; ok {
		return n
	}
	n := fmt.Sprintf("b%d", len(e.defs))
	e.names[k] = n
	e.defs = append(e.defs, "let "+n+" : bytes := "+c12Lit(b)+" in")
	return n
}

func c12Z(x int64) string {
	if x < 0 {
		return fmt.Sprintf("(%d)%%Z", x)
	}
	return fmt.Sprintf("%d%%Z", x)
}

func (e *c12Dict) pbSig(s *hotstuffpb.QuorumSignature) string {
	if s == nil {
		return "None"
	}
	switch w := s.GetSig().(type) {
	case *hotstuffpb.QuorumSignature_ECDSASigs:
		items := []string{}
		for _, x := range w.ECDSASigs.GetSigs() {
			items = append(items, fmt.Sprintf("(%d, %s)", x.GetSigner(), e.B(x.GetSig())))
		}
		return "(Some (PbECDSA " + gList(items) + "))"
	case *hotstuffpb.QuorumSignature_EDDSASigs:
		items := []string{}
		for _, x := range w.EDDSASigs.GetSigs() {
			items = append(items, fmt.Sprintf("(%d, %s)", x.GetSigner(), e.B(x.GetSig())))
		}
		return "(Some (PbEDDSA " + gList(items) + "))"
	case *hotstuffpb.QuorumSignature_BLS12Sig:
		return "(Some (PbBLS " + e.B(w.BLS12Sig.GetSig()) + " " + e.B(w.BLS12Sig.GetParticipants()) + "))"
	}
	return "(Some PbNone)"
}

func (e *c12Dict) pbBlock(b *hotstuffpb.Block) string {
	qc := "None"
	if q := b.GetQC(); q != nil {
		qc = fmt.Sprintf("(Some (mkPbQC %s %d %s))", e.pbSig(q.GetSig()), q.GetView(), e.B(q.GetHash()))
	}
	ts := "None"
	if b.GetTimestamp() != nil {
		ts = "(Some (" + c12Z(b.GetTimestamp().GetSeconds()) + ", " + c12Z(int64(b.GetTimestamp().GetNanos())) + "))"
	}
	return fmt.Sprintf("(Some (mkPbBlock %s %s %d %s %d %s))", e.B(b.GetParent()), qc, b.GetView(), e.B(b.GetCommands().Marshal()), b.GetProposer(), ts)
}

func c12MultiSig(ids []hotstuff.ID, salt byte) hotstuff.QuorumSignature {
	sigs := make([]*crypto.ECDSASignature, len(ids))
	for i, id := range ids {
		s := bytes.Repeat([]byte{salt + byte(i)}, 9+i)
		sigs[i] = crypto.RestoreECDSASignature(s, id)
	}
	return crypto.NewMulti(sigs...)
}

func c12MultiSigEd(ids []hotstuff.ID, salt byte) hotstuff.QuorumSignature {
	sigs := make([]*crypto.EDDSASignature, len(ids))
	for i, id := range ids {
		sigs[i] = crypto.RestoreEDDSASignature(bytes.Repeat([]byte{salt + byte(i)}, 7+2*i), id)
	}
	return crypto.NewMulti(sigs...)
}

// c12SigEntries renders a signature entry by entry: (signer, bytes) for multi-signatures.
func c12SigEntries(s hotstuff.QuorumSignature) string {
	var sb strings.Builder
	switch ms := s.(type) {
	case nil:
		return "nil"
	case crypto.Multi[*crypto.ECDSASignature]:
		sb.WriteString("ecdsa")
		for _, x := range ms {
			fmt.Fprintf(&sb, " %d:%x", x.Signer(), x.ToBytes())
		}
	case crypto.Multi[*crypto.EDDSASignature]:
		sb.WriteString("eddsa")
		for _, x := range ms {
			fmt.Fprintf(&sb, " %d:%x", x.Signer(), x.ToBytes())
		}
	default:
		fmt.Fprintf(&sb, "%T %s %x", s, hotstuff.IDSetToString(s.Participants()), s.ToBytes())
	}
	return sb.String()
}

// c12Repartitions: the same signers and the same concatenated signature bytes, cut elsewhere.
// in: per-signer signature bytes; out: alternative splits with a description.
func c12Repartitions(sigs [][]byte) (out [][][]byte, how []string) {
	cp := func() [][]byte {
		c := make([][]byte, len(sigs))
		for i := range sigs {
			c[i] = append([]byte{}, sigs[i]...)
		}
		return c
	}
	for i := 0; i+1 < len(sigs); i++ {
		a := cp()
		a[i], a[i+1] = append(a[i], a[i+1]...), nil
		out, how = append(out, a), append(how, fmt.Sprintf("signer %d carries its own and the next signer's bytes, the next entry is empty", i))
		b := cp()
		b[i], b[i+1] = nil, append(b[i], b[i+1]...)
		out, how = append(out, b), append(how, fmt.Sprintf("entry %d is empty, the next signer carries both", i))
		if len(sigs[i]) > 0 {
			c := cp()
			n := len(c[i])
			c[i+1] = append([]byte{c[i][n-1]}, c[i+1]...)
			c[i] = c[i][:n-1]
			out, how = append(out, c), append(how, fmt.Sprintf("boundary between entries %d and %d moved one byte to the left", i, i+1))
		}
		if len(sigs[i+1]) > 0 {
			d := cp()
			d[i] = append(d[i], d[i+1][0])
			d[i+1] = d[i+1][1:]
			out, how = append(out, d), append(how, fmt.Sprintf("boundary between entries %d and %d moved one byte to the right", i, i+1))
		}
	}
	return
}

func c12Marshal(m proto.Message) []byte {
	b, _ := proto.Marshal(m)
	return b
}

// node ids: small, agreeing in their low bits, at the uint32 boundaries (spaced so that +j stays distinct)
var c12Nodes = []uint32{1, 257, 65537, 1<<24 + 1, 1<<31 + 1, 1<<32 - 8, 17, 1000}

func c12Infinity() []byte {
	p := make([]byte, 96)
	p[0] = 0xc0
	return p
}

// c12Signers lists the participants of a block's certificate ("nil" for a nil signature).
func c12Signers(b *hotstuff.Block) string {
	s := b.QuorumCert().Signature()
	if s == nil {
		return "nil"
	}
	return hotstuff.IDSetToString(s.Participants())
}

// c12BlockDiff names the first component in which two blocks differ ("" if none).
func c12BlockDiff(a, b *hotstuff.Block) string {
	qa, qb := a.QuorumCert(), b.QuorumCert()
	switch {
	case a.Parent() != b.Parent():
		return "parent"
	case a.Proposer() != b.Proposer():
		return "proposer"
	case a.View() != b.View():
		return "view"
	case !bytes.Equal(a.Commands().Marshal(), b.Commands().Marshal()):
		return "commands"
	case a.Timestamp().UnixNano() != b.Timestamp().UnixNano():
		return "timestamp"
	case qa.View() != qb.View():
		return "qc-view"
	case qa.BlockHash() != qb.BlockHash():
		return "qc-hash"
	case (qa.Signature() == nil) != (qb.Signature() == nil):
		return "qc-signature-presence"
	case c12Signers(a) != c12Signers(b):
		return "qc-signers"
	case qa.Signature() != nil && !bytes.Equal(qa.Signature().ToBytes(), qb.Signature().ToBytes()):
		return "qc-signature-bytes"
	case c12SigEntries(qa.Signature()) != c12SigEntries(qb.Signature()):
		return "qc-signature-partition"
	}
	return ""
}

// ---- command batches and their boundary-shifted re-splits -----------------------------------

// c12Cmds renders a batch as the sequence of (client, sequence number, data) it is.
func c12Cmds(b *clientpb.Batch) string {
	var sb strings.Builder
	sb.WriteByte('[')
	for i, c := range b.GetCommands() {
		if i > 0 {
			sb.WriteByte(' ')
		}
		fmt.Fprintf(&sb, "(%d,%d,%x)", c.GetClientID(), c.GetSequenceNumber(), c.GetData())
	}
	sb.WriteByte(']')
	return sb.String()
}

func c12Cmd(client uint32, seq uint64, data []byte) *clientpb.Command {
	return &clientpb.Command{ClientID: client, SequenceNumber: seq, Data: append([]byte{}, data...)}
}

// headers an unframed hand-written encoding might put in front of a command's data
func c12Headers(c *clientpb.Command) [][]byte {
	le := binary.LittleEndian.AppendUint64(binary.LittleEndian.AppendUint32(nil, c.GetClientID()), c.GetSequenceNumber())
	be := binary.BigEndian.AppendUint64(binary.BigEndian.AppendUint32(nil, c.GetClientID()), c.GetSequenceNumber())
	sw := binary.LittleEndian.AppendUint32(binary.LittleEndian.AppendUint64(nil, c.GetSequenceNumber()), c.GetClientID())
	return [][]byte{le, be, sw, nil}
}

type c12Twin struct {
	batch *clientpb.Batch
	how   string
}

// c12Resplits returns batches that carry the same bytes as b under some unframed concatenation but cut
// the command boundaries elsewhere: adjacent commands merged into one Data (with and without the next
// command's header embedded), one command's Data split at every offset into two commands whose header is
// taken from the data, bytes moved across a boundary, empty commands added.
func c12Resplits(b *clientpb.Batch) []c12Twin {
	cs := b.GetCommands()
	with := func(i int, repl ...*clientpb.Command) *clientpb.Batch {
		out := &clientpb.Batch{}
		for j, c := range cs {
			if j == i {
				out.Commands = append(out.Commands, repl...)
			} else {
				out.Commands = append(out.Commands, c12Cmd(c.GetClientID(), c.GetSequenceNumber(), c.GetData()))
			}
		}
		return out
	}
	var tw []c12Twin
	// merge i and i+1
	for i := 0; i+1 < len(cs); i++ {
		for hi, hdr := range c12Headers(cs[i+1]) {
			data := append(append(append([]byte{}, cs[i].GetData()...), hdr...), cs[i+1].GetData()...)
			out := &clientpb.Batch{}
			for j, c := range cs {
				switch j {
				case i:
					out.Commands = append(out.Commands, c12Cmd(c.GetClientID(), c.GetSequenceNumber(), data))
				case i + 1:
				default:
					out.Commands = append(out.Commands, c12Cmd(c.GetClientID(), c.GetSequenceNumber(), c.GetData()))
				}
			}
			tw = append(tw, c12Twin{out, fmt.Sprintf("commands %d and %d merged into one (header form %d embedded in the data)", i, i+1, hi)})
		}
		// one byte moved across the boundary
		if d := cs[i].GetData(); len(d) > 0 {
			a := c12Cmd(cs[i].GetClientID(), cs[i].GetSequenceNumber(), d[:len(d)-1])
			nb := c12Cmd(cs[i+1].GetClientID(), cs[i+1].GetSequenceNumber(), append([]byte{d[len(d)-1]}, cs[i+1].GetData()...))
			out := with(i, a)
			out.Commands[i+1] = nb
			tw = append(tw, c12Twin{out, fmt.Sprintf("last data byte of command %d moved to the front of command %d", i, i+1)})
		}
	}
	// split command i at every offset
	for i, c := range cs {
		d := c.GetData()
		for k := 0; k <= len(d); k++ {
			if k+12 <= len(d) {
				rest := d[k:]
				tw = append(tw,
					c12Twin{with(i, c12Cmd(c.GetClientID(), c.GetSequenceNumber(), d[:k]),
						c12Cmd(binary.LittleEndian.Uint32(rest), binary.LittleEndian.Uint64(rest[4:]), rest[12:])),
						fmt.Sprintf("command %d split at offset %d, the second command's header (LE client, LE seq) read from the data", i, k)},
					c12Twin{with(i, c12Cmd(c.GetClientID(), c.GetSequenceNumber(), d[:k]),
						c12Cmd(binary.BigEndian.Uint32(rest), binary.BigEndian.Uint64(rest[4:]), rest[12:])),
						fmt.Sprintf("command %d split at offset %d, header (BE) read from the data", i, k)},
					c12Twin{with(i, c12Cmd(c.GetClientID(), c.GetSequenceNumber(), d[:k]),
						c12Cmd(binary.LittleEndian.Uint32(rest[8:]), binary.LittleEndian.Uint64(rest), rest[12:])),
						fmt.Sprintf("command %d split at offset %d, header (LE seq, LE client) read from the data", i, k)})
			}
			if k > 0 && k < len(d) && (k < 3 || k%5 == 0) {
				tw = append(tw, c12Twin{with(i, c12Cmd(c.GetClientID(), c.GetSequenceNumber(), d[:k]), c12Cmd(c.GetClientID(), c.GetSequenceNumber(), d[k:])),
					fmt.Sprintf("command %d split at offset %d into two commands of the same client and sequence number", i, k)})
			}
		}
	}
	// empty commands
	app := with(-1)
	app.Commands = append(app.Commands, &clientpb.Command{})
	pre := &clientpb.Batch{Commands: append([]*clientpb.Command{{}}, with(-1).Commands...)}
	tw = append(tw, c12Twin{app, "an empty command appended"}, c12Twin{pre, "an empty command prepended"})
	if len(cs) > 0 {
		last := with(-1)
		last.Commands = last.Commands[:len(cs)-1]
		tw = append(tw, c12Twin{last, "last command dropped"})
	}
	return tw
}

// c12Batches: counts 0..3, data empty / short / looking like an encoded header / long
func c12Batches(r interface{ Read([]byte) (int, error) }) []*clientpb.Batch {
	hdr := binary.LittleEndian.AppendUint64(binary.LittleEndian.AppendUint32(nil, 7), 9)
	hdrBE := binary.BigEndian.AppendUint64(binary.BigEndian.AppendUint32(nil, 7), 9)
	long := make([]byte, 30)
	_, _ = r.Read(long)
	two := append(append(append([]byte("ab"), hdr...), []byte("cd")...), hdrBE...)
	return []*clientpb.Batch{
		{},
		{Commands: []*clientpb.Command{c12Cmd(1, 1, nil)}},
		{Commands: []*clientpb.Command{c12Cmd(1, 1, []byte("x"))}},
		{Commands: []*clientpb.Command{c12Cmd(7, 9, hdr)}},
		{Commands: []*clientpb.Command{c12Cmd(3, 1<<40, two)}},
		{Commands: []*clientpb.Command{c12Cmd(1, 1, []byte("pay 5")), c12Cmd(2, 1, []byte("pay 7"))}},
		{Commands: []*clientpb.Command{c12Cmd(0, 0, nil), c12Cmd(0, 0, nil)}},
		{Commands: []*clientpb.Command{c12Cmd(1<<32-1, 1<<64-1, long), c12Cmd(7, 9, nil)}},
		{Commands: []*clientpb.Command{c12Cmd(5, 2, hdr), c12Cmd(7, 9, hdr), c12Cmd(6, 3, []byte{0})}},
		{Commands: []*clientpb.Command{c12Cmd(1, 2, []byte("a")), c12Cmd(1, 3, nil), c12Cmd(1, 4, []byte("bc"))}},
	}
}

func c12WireBlock(pb *hotstuffpb.Block) *hotstuffpb.Block {
	bs, err := proto.Marshal(pb)
	if err != nil {
		panic(err)
	}
	out := &hotstuffpb.Block{}
	if err := proto.Unmarshal(bs, out); err != nil {
		panic(err)
	}
	return out
}

func TestVerifC12(t *testing.T) {
	v := verifNew("C12")
	s := v.Stream("fetch", "qf_mismatches", 120)
	r := v.rng
	gen := hotstuff.GetGenesis()

	// a pool of original blocks as a replica's block store would hold them
	var pool []*hotstuff.Block
	parent := gen
	for i := 1; i <= 6; i++ {
		var qc hotstuff.QuorumCert
		switch i % 3 {
		case 0:
			qc = hotstuff.NewQuorumCert(nil, parent.View(), parent.Hash())
		case 1:
			qc = hotstuff.NewQuorumCert(c12MultiSig([]hotstuff.ID{1, 2, 3}, byte(16*i)), parent.View(), parent.Hash())
		default:
			qc = hotstuff.NewQuorumCert(c12MultiSig([]hotstuff.ID{4, 2}, byte(16*i)), parent.View(), parent.Hash())
		}
		batch := &clientpb.Batch{}
		for c := 0; c < i%4; c++ {
			batch.Commands = append(batch.Commands, &clientpb.Command{ClientID: uint32(i), SequenceNumber: uint64(c), Data: []byte{byte(i), byte(c)}})
		}
		b := hotstuff.NewBlock(parent.Hash(), qc, batch, hotstuff.View(i), hotstuff.ID(1+i%4))
		if i%2 == 0 {
			b.SetTimestamp(time.Unix(1_700_000_000+int64(i), int64(i)*111_111_111))
		}
		pool = append(pool, b)
		parent = b
	}
	// blocks whose certificate is a BLS aggregate (the point at infinity under a bitfield)
	for i, bf := range [][]byte{{0x07}, {0x05, 0x01}} {
		agg, err := crypto.RestoreBLS12AggregateSignature(c12Infinity(), crypto.BitfieldFromBytes(bf))
		if err != nil {
			t.Fatal(err)
		}
		qc := hotstuff.NewQuorumCert(agg, parent.View(), parent.Hash())
		b := hotstuff.NewBlock(parent.Hash(), qc, &clientpb.Batch{}, hotstuff.View(7+i), hotstuff.ID(1+i))
		pool = append(pool, b)
	}
	// blocks whose certificate is an EdDSA multi-signature of 2 and of 3 signers
	for i, ids := range [][]hotstuff.ID{{2, 3}, {1, 2, 4}} {
		qc := hotstuff.NewQuorumCert(c12MultiSigEd(ids, byte(0x60+16*i)), parent.View(), parent.Hash())
		b := hotstuff.NewBlock(parent.Hash(), qc, &clientpb.Batch{}, hotstuff.View(9+i), hotstuff.ID(1+i))
		pool = append(pool, b)
	}
	// blocks carrying the batches of the collision-hunting family
	nPlain := len(pool)
	for i, batch := range c12Batches(r) {
		qc := hotstuff.NewQuorumCert(c12MultiSig([]hotstuff.ID{1, 2, 3}, byte(i)), parent.View(), parent.Hash())
		b := hotstuff.NewBlock(parent.Hash(), qc, batch, hotstuff.View(20+i), hotstuff.ID(1+i%4))
		b.SetTimestamp(time.Unix(1_710_000_000, int64(i)))
		pool = append(pool, b)
	}
	batchBlocks := pool[nPlain:]
	pool = append(pool, gen)

	// ---- collision hunt: different command sequences must give different bytes-to-sign / hashes ----
	// (a hash, and every vote and certificate over it, must name ONE block)
	for _, b := range batchBlocks {
		twins := c12Resplits(b.Commands())
		for _, tb := range batchBlocks { // and the other generated batches as they are
			twins = append(twins, c12Twin{tb.Commands(), "another generated batch"})
		}
		for _, tw := range twins {
			if c12Cmds(tw.batch) == c12Cmds(b.Commands()) {
				continue
			}
			o := hotstuff.NewBlock(b.Parent(), b.QuorumCert(), tw.batch, b.View(), b.Proposer())
			o.SetTimestamp(b.Timestamp())
			v.Seen("collide|"+c12Cmds(b.Commands())+"|"+c12Cmds(tw.batch), true, map[string]any{"commands": c12Cmds(b.Commands()), "twin": c12Cmds(tw.batch)})
			v.Count("collision-hunt.pairs")
			same := o.Hash() == b.Hash() || bytes.Equal(o.ToBytes(), b.ToBytes())
			v.Oracle(!same, "block:different-commands-same-hash",
				"two blocks that differ only in their command batch ("+tw.how+") have the same ToBytes()/Hash(): the hash, and every vote and certificate over it, names both",
				map[string]any{"commands_a": c12Cmds(b.Commands()), "commands_b": c12Cmds(tw.batch), "how": tw.how,
					"hash_a": fmt.Sprintf("%x", sha256.Sum256(b.ToBytes())), "hash_b": fmt.Sprintf("%x", sha256.Sum256(o.ToBytes())),
					"bytes_a": fmt.Sprintf("%x", b.ToBytes()), "bytes_b": fmt.Sprintf("%x", o.ToBytes()),
					"block": b.String()})
		}
	}
	// different certificates must give different bytes: the same signers and the same concatenated
	// signature bytes cut at other boundaries (one signer carrying two signatures, an empty entry, a
	// boundary moved by one byte) verify differently and so are different certificates
	for _, b := range pool {
		var ids []hotstuff.ID
		var sigs [][]byte
		mk := func(parts [][]byte) hotstuff.QuorumSignature { return nil }
		switch ms := b.QuorumCert().Signature().(type) {
		case crypto.Multi[*crypto.ECDSASignature]:
			for _, x := range ms {
				ids, sigs = append(ids, x.Signer()), append(sigs, x.ToBytes())
			}
			mk = func(parts [][]byte) hotstuff.QuorumSignature {
				l := make([]*crypto.ECDSASignature, len(parts))
				for i := range parts {
					l[i] = crypto.RestoreECDSASignature(parts[i], ids[i])
				}
				return crypto.NewMulti(l...)
			}
		case crypto.Multi[*crypto.EDDSASignature]:
			for _, x := range ms {
				ids, sigs = append(ids, x.Signer()), append(sigs, x.ToBytes())
			}
			mk = func(parts [][]byte) hotstuff.QuorumSignature {
				l := make([]*crypto.EDDSASignature, len(parts))
				for i := range parts {
					l[i] = crypto.RestoreEDDSASignature(parts[i], ids[i])
				}
				return crypto.NewMulti(l...)
			}
		default:
			continue
		}
		parts, how := c12Repartitions(sigs)
		for k := range parts {
			sig := mk(parts[k])
			if c12SigEntries(sig) == c12SigEntries(b.QuorumCert().Signature()) {
				continue
			}
			qc := hotstuff.NewQuorumCert(sig, b.QuorumCert().View(), b.QuorumCert().BlockHash())
			o := hotstuff.NewBlock(b.Parent(), qc, b.Commands(), b.View(), b.Proposer())
			o.SetTimestamp(b.Timestamp())
			v.Seen("collide-qc|"+c12SigEntries(b.QuorumCert().Signature())+"|"+c12SigEntries(sig), true, map[string]any{"qc": c12SigEntries(b.QuorumCert().Signature()), "twin": c12SigEntries(sig)})
			v.Count("collision-hunt.certificate-pairs")
			same := o.Hash() == b.Hash() || bytes.Equal(o.ToBytes(), b.ToBytes()) || bytes.Equal(qc.ToBytes(), b.QuorumCert().ToBytes())
			v.Oracle(!same, "block:different-blocks-same-hash:qc-signature-partition",
				"two blocks whose certificates carry the same signers and the same signature bytes cut at other boundaries ("+how[k]+") have the same ToBytes()/Hash(), although the certificates verify differently",
				map[string]any{"certificate_a": c12SigEntries(b.QuorumCert().Signature()), "certificate_b": c12SigEntries(sig), "how": how[k],
					"hash_a": fmt.Sprintf("%x", sha256.Sum256(b.ToBytes())), "hash_b": fmt.Sprintf("%x", sha256.Sum256(o.ToBytes())),
					"qc_bytes_a": fmt.Sprintf("%x", b.QuorumCert().ToBytes()), "qc_bytes_b": fmt.Sprintf("%x", qc.ToBytes()), "block": b.String()})
		}
	}
	// the batch must also be framed against the certificate that follows it in Block.ToBytes: the pair
	// below moves 8 bytes between a command and the view field of the certificate
	// (fixes/C12-block-bytes-frame-batch.patch)
	{
		d := []byte{0xd0, 0xd1, 0xd2, 0xd3}
		batch2 := &clientpb.Batch{Commands: []*clientpb.Command{{Data: d}}}
		p := batch2.Marshal() // 0a 06 1a 04 d0 d1 d2 d3
		var h2 hotstuff.Hash
		copy(h2[:], "the block certified by QC 2 ....")
		s2 := []byte("signature-bytes-of-qc2")
		v2 := hotstuff.View(41)
		qc2 := hotstuff.NewQuorumCert(crypto.NewMulti(crypto.RestoreECDSASignature(s2, 1)), v2, h2)
		var h1 hotstuff.Hash
		copy(h1[:], append(v2.ToBytes(), h2[:24]...))
		s1 := append(append([]byte{}, h2[24:]...), s2...)
		qc1 := hotstuff.NewQuorumCert(crypto.NewMulti(crypto.RestoreECDSASignature(s1, 1)), hotstuff.View(binary.LittleEndian.Uint64(p)), h1)
		b1 := hotstuff.NewBlock(parent.Hash(), qc1, &clientpb.Batch{}, 42, 1)
		b2 := hotstuff.NewBlock(parent.Hash(), qc2, batch2, 42, 1)
		b1.SetTimestamp(time.Unix(1_720_000_000, 5))
		b2.SetTimestamp(time.Unix(1_720_000_000, 5))
		v.Seen("collide|batch-certificate-boundary", true, map[string]any{"commands_a": c12Cmds(b1.Commands()), "commands_b": c12Cmds(b2.Commands())})
		v.Count("collision-hunt.batch-certificate-shift")
		v.Oracle(len(p) == 8 && b1.Hash() != b2.Hash() && !bytes.Equal(b1.ToBytes(), b2.ToBytes()), "block:different-blocks-same-hash:batch-certificate-boundary",
			"a block without commands and a block with one command have the same ToBytes()/Hash(): the 8 bytes of the command batch are the view field of the other block's certificate",
			map[string]any{"block_a": b1.String(), "commands_a": c12Cmds(b1.Commands()), "block_b": b2.String(), "commands_b": c12Cmds(b2.Commands()),
				"bytes_a": fmt.Sprintf("%x", b1.ToBytes()), "bytes_b": fmt.Sprintf("%x", b2.ToBytes())})
		// and the fetch check accepts one for the other
		h := b2.Hash()
		got, found := qspec{}.RequestBlockQF(&hotstuffpb.BlockHash{Hash: h[:]}, map[uint32]*hotstuffpb.Block{3: c12WireBlock(hotstuffpb.BlockToProto(b1))})
		v.Oracle(!(found && c12BlockDiff(b2, hotstuffpb.BlockFromProto(got)) != ""), "fetch:accepted-block-differs-from-named-block:commands",
			"RequestBlockQF accepted the command-less block for the hash of the block with one command (batch/certificate boundary shift)",
			map[string]any{"named_block_commands": c12Cmds(b2.Commands()), "accepted_block_commands": c12Cmds(b1.Commands()),
				"requested_hash": fmt.Sprintf("%x", h[:]), "named_block": b2.String(), "accepted_block": b1.String(),
				"accepted_reply_wire_hex": fmt.Sprintf("%x", c12Marshal(hotstuffpb.BlockToProto(b1)))})
	}

	// a lying reply derived from the honest one
	lie := func(orig *hotstuff.Block, kind int) (*hotstuffpb.Block, string) {
		pb := hotstuffpb.BlockToProto(orig)
		pb = proto.Clone(pb).(*hotstuffpb.Block)
		switch kind {
		case 0:
			pb.View++
			return pb, "view+1"
		case 1:
			pb.Timestamp = &timestamppb.Timestamp{Seconds: pb.Timestamp.GetSeconds(), Nanos: pb.Timestamp.GetNanos() ^ 1}
			return pb, "nanos^1"
		case 2:
			pb.Parent = append([]byte{}, pb.Parent...)
			pb.Parent[r.Intn(len(pb.Parent))] ^= 0x40
			return pb, "parent bit"
		case 3:
			pb.Proposer += 1 << 16
			return pb, "proposer"
		case 4:
			pb.Commands = &clientpb.Batch{Commands: []*clientpb.Command{{ClientID: 99, Data: []byte("evil")}}}
			return pb, "commands"
		case 5:
			pb.QC.View += 1 << 32
			return pb, "qc view"
		case 6:
			pb.QC.Hash = append([]byte{}, pb.QC.Hash...)
			pb.QC.Hash[0] ^= 1
			return pb, "qc hash"
		case 7: // same signature bytes under other signer labels: ToBytes (hence the hash) does not change
			if w, ok := pb.QC.GetSig().GetSig().(*hotstuffpb.QuorumSignature_ECDSASigs); ok && len(w.ECDSASigs.Sigs) >= 2 {
				l := w.ECDSASigs.Sigs
				l[0].Signer, l[1].Signer = l[1].Signer, l[0].Signer
				return pb, "relabelled signers (same bytes)"
			}
			if w, ok := pb.QC.GetSig().GetSig().(*hotstuffpb.QuorumSignature_BLS12Sig); ok {
				if r.Intn(2) == 0 { // other claimed participants under the same aggregate
					w.BLS12Sig.Participants = []byte{w.BLS12Sig.Participants[0] ^ 0x18}
					return pb, "relabelled signers (same bytes)"
				}
				w.BLS12Sig.Participants = append(append([]byte{}, w.BLS12Sig.Participants...), 0)
				return pb, "bitfield with a trailing zero byte (same signers)"
			}
			pb.View ^= 1 << 63
			return pb, "view top bit"
		case 8:
			pb.Timestamp = nil
			return pb, "no timestamp"
		case 11: // the same signers and signature bytes cut at other boundaries
			var get func(i int) []byte
			var set func(i int, b []byte)
			n := 0
			switch w := pb.QC.GetSig().GetSig().(type) {
			case *hotstuffpb.QuorumSignature_ECDSASigs:
				l := w.ECDSASigs.Sigs
				n, get, set = len(l), func(i int) []byte { return l[i].Sig }, func(i int, b []byte) { l[i].Sig = b }
			case *hotstuffpb.QuorumSignature_EDDSASigs:
				l := w.EDDSASigs.Sigs
				n, get, set = len(l), func(i int) []byte { return l[i].Sig }, func(i int, b []byte) { l[i].Sig = b }
			}
			if n >= 2 {
				sigs := make([][]byte, n)
				for i := range sigs {
					sigs[i] = get(i)
				}
				if parts, how := c12Repartitions(sigs); len(parts) > 0 {
					k := r.Intn(len(parts))
					for i := range parts[k] {
						set(i, parts[k][i])
					}
					return pb, "re-partitioned signature bytes: " + how[k]
				}
			}
			pb.View ^= 1 << 62
			return pb, "view bit 62"
		case 10: // the same command bytes cut at other boundaries
			if tw := c12Resplits(orig.Commands()); len(tw) > 0 {
				t := tw[r.Intn(len(tw))]
				if c12Cmds(t.batch) != c12Cmds(orig.Commands()) {
					pb.Commands = t.batch
					return pb, "re-split commands: " + t.how
				}
			}
			pb.Commands = &clientpb.Batch{Commands: []*clientpb.Command{{}}}
			return pb, "commands: one empty command"
		default:
			pb.QC = nil
			return pb, "no qc"
		}
	}

	N := v.Pick(400, 5000)
	for i := 0; i < N; i++ {
		orig := pool[r.Intn(len(pool))]
		if r.Intn(3) == 0 {
			orig = batchBlocks[r.Intn(len(batchBlocks))]
		}
		h := orig.Hash()
		req := h[:]
		reqKind := "hash of a stored block"
		switch r.Intn(10) {
		case 0:
			x := sha256.Sum256([]byte{byte(i), byte(i >> 8)})
			req, reqKind = x[:], "unknown hash"
		case 1:
			req, reqKind = h[:31], "31-byte prefix"
		}
		nrep := 1 + r.Intn(5)
		honestAt := -1
		if r.Intn(3) != 0 {
			honestAt = r.Intn(nrep)
		}
		replies := map[uint32]*hotstuffpb.Block{}
		whats := map[uint32]string{}
		desc := []string{}
		for j := 0; j < nrep; j++ {
			node := c12Nodes[(i+j)%len(c12Nodes)] + uint32(j) // sparse, large node ids; distinct within a reply set
			var pb *hotstuffpb.Block
			what := ""
			switch {
			case j == honestAt:
				pb, what = hotstuffpb.BlockToProto(orig), "honest"
			case r.Intn(4) == 0:
				pb, what = hotstuffpb.BlockToProto(pool[r.Intn(len(pool))]), "some stored block"
			case r.Intn(3) == 0:
				pb, what = lie(orig, 7)
			case r.Intn(3) == 0:
				pb, what = lie(orig, 10)
			case r.Intn(3) == 0:
				pb, what = lie(orig, 11)
			default:
				pb, what = lie(orig, r.Intn(10))
			}
			replies[node] = c12WireBlock(pb)
			whats[node] = what
			desc = append(desc, fmt.Sprintf("%d:%s", node, what))
		}
		meta := map[string]any{"request": reqKind, "block_view": uint64(orig.View()), "replies": desc}
		v.Count("request." + reqKind)

		// ---- the real quorum function ----
		var got *hotstuffpb.Block
		var found, panicked bool
		func() {
			defer func() {
				if recover() != nil {
					panicked = true
				}
			}()
			got, found = qspec{}.RequestBlockQF(&hotstuffpb.BlockHash{Hash: req}, replies)
		}()
		if panicked {
			v.Oracle(false, "fetch:quorum-function-panicked", "RequestBlockQF panicked on non-nil replies", meta)
			continue
		}
		var want hotstuff.Hash
		copy(want[:], req)
		// ---- the quorum function as gorums drives it: again after every arriving reply, on the replies
		// received so far; and once more on the full set (same answer class expected both times) ----
		{
			arrived := map[uint32]*hotstuffpb.Block{}
			order := make([]uint32, 0, len(replies))
			for n := range replies {
				order = append(order, n)
			}
			sort.Slice(order, func(a, b int) bool { return order[a] < order[b] })
			r.Shuffle(len(order), func(a, b int) { order[a], order[b] = order[b], order[a] })
			incOK := true
			for _, n := range order {
				arrived[n] = replies[n]
				var g *hotstuffpb.Block
				var f, p bool
				func() {
					defer func() {
						if recover() != nil {
							p = true
						}
					}()
					g, f = qspec{}.RequestBlockQF(&hotstuffpb.BlockHash{Hash: req}, arrived)
				}()
				anyNow := false
				for _, pb := range arrived {
					if hotstuffpb.BlockFromProto(proto.Clone(pb).(*hotstuffpb.Block)).Hash() == want {
						anyNow = true
					}
				}
				switch {
				case p:
					incOK = false
					v.Oracle(false, "fetch:quorum-function-panicked", "RequestBlockQF panicked on a prefix of the replies", meta)
				case f && hotstuffpb.BlockFromProto(proto.Clone(g).(*hotstuffpb.Block)).Hash() != want:
					incOK = false
					v.Oracle(false, "fetch:returned-block-hash-differs", fmt.Sprintf("after %d of %d replies the quorum function returned a block with another hash than requested", len(arrived), len(replies)), meta)
				case f != anyNow:
					incOK = false
					v.Oracle(false, "fetch:incremental-answer-wrong", fmt.Sprintf("after %d of %d replies: found=%v although a matching reply present=%v", len(arrived), len(replies), f, anyNow), meta)
				}
			}
			g2, f2 := qspec{}.RequestBlockQF(&hotstuffpb.BlockHash{Hash: req}, replies)
			if f2 != found || (f2 && hotstuffpb.BlockFromProto(proto.Clone(g2).(*hotstuffpb.Block)).Hash() != want) {
				incOK = false
				v.Oracle(false, "fetch:repeated-call-differs", "calling RequestBlockQF again on the same replies gives another answer class", meta)
			}
			if incOK {
				v.Oracle(true, "", "", nil)
			}
			v.Count("incremental-calls")
		}
		// ---- oracle ----
		observed := "None"
		anyMatch := false
		for _, pb := range replies {
			if hotstuffpb.BlockFromProto(proto.Clone(pb).(*hotstuffpb.Block)).Hash() == want {
				anyMatch = true
			}
		}
		ok := true
		if found {
			node := uint32(0)
			for n, pb := range replies {
				if pb == got {
					node = n
				}
			}
			if node == 0 {
				ok = false
				v.Oracle(false, "fetch:returned-block-not-a-reply", "RequestBlockQF returned a block that is none of the replies", meta)
			}
			blk := hotstuffpb.BlockFromProto(got)
			if blk.Hash() != want || sha256.Sum256(blk.ToBytes()) != want {
				ok = false
				v.Oracle(false, "fetch:returned-block-hash-differs", fmt.Sprintf("requested %s, the returned block hashes to %s", want.SmallString(), blk.Hash().SmallString()), meta)
			}
			if reqKind == "hash of a stored block" && !bytes.Equal(blk.ToBytes(), orig.ToBytes()) {
				ok = false
				v.Oracle(false, "fetch:returned-block-bytes-differ", "the returned block has the requested hash but other bytes", meta)
			}
			if d := c12BlockDiff(orig, blk); reqKind == "hash of a stored block" && d != "" {
				ok = false
				in := map[string]any{"requested_hash": fmt.Sprintf("%x", want[:]), "returned_from_node": node, "returned_reply": whats[node],
					"named_block": orig.String(), "named_block_qc_signers": c12Signers(orig),
					"named_block_commands": c12Cmds(orig.Commands()), "accepted_block_commands": c12Cmds(blk.Commands()),
					"named_block_certificate": c12SigEntries(orig.QuorumCert().Signature()), "accepted_block_certificate": c12SigEntries(blk.QuorumCert().Signature()),
					"accepted_block": blk.String(), "accepted_block_qc_signers": c12Signers(blk),
					"accepted_block_hash": fmt.Sprintf("%x", sha256.Sum256(blk.ToBytes())), "replies": desc,
					"accepted_reply_wire_hex": fmt.Sprintf("%x", c12Marshal(got))}
				v.Oracle(false, "fetch:accepted-block-differs-from-named-block:"+d,
					"RequestBlockQF accepted, for the hash of a stored block, a reply that differs from that block in: "+d+
						" (named block signers "+c12Signers(orig)+", accepted block signers "+c12Signers(blk)+"); it would be stored under the honest hash", in)
			}
			observed = fmt.Sprintf("(Some %d)", node)
			v.Count("found")
			v.Count("returned." + strings.SplitN(whats[node], ":", 2)[0])
		} else {
			if anyMatch {
				ok = false
				v.Oracle(false, "fetch:matching-reply-ignored", "a reply with the requested hash was present but RequestBlockQF found none", meta)
			}
			v.Count("not-found")
		}
		if honestAt >= 0 && reqKind == "hash of a stored block" && !found {
			ok = false
			v.Oracle(false, "fetch:honest-reply-ignored", "the honest reply was among the answers but no block was returned", meta)
		}
		if ok {
			v.Oracle(true, "", "", nil)
		}

		// ---- kernel case ----
		e := &c12Dict{names: map[string]string{}}
		nodes := make([]int, 0, len(replies))
		for n := range replies {
			nodes = append(nodes, int(n))
		}
		sort.Ints(nodes)
		reps, table := []string{}, []string{}
		seenBytes := map[string]bool{}
		for _, n := range nodes {
			pb := replies[uint32(n)]
			reps = append(reps, fmt.Sprintf("(%d, %s)", n, e.pbBlock(pb)))
			blk := hotstuffpb.BlockFromProto(proto.Clone(pb).(*hotstuffpb.Block))
			bs := blk.ToBytes()
			if !seenBytes[string(bs)] {
				seenBytes[string(bs)] = true
				d := sha256.Sum256(bs)
				table = append(table, "("+e.B(bs)+", "+e.B(d[:])+")")
			}
		}
		term := "([(" + e.B(c12Infinity()) + ", " + e.B(c12Infinity()) + ")], " + gList(table) + ", " + e.B(req) + ", " + gList(reps) + ", " + observed + ")"
		if len(e.defs) > 0 {
			term = "(" + strings.Join(e.defs, " ") + " " + term + ")"
		}
		v.Seen(term, nrep >= 2, meta)
		v.Case(s, term, meta)
	}
	v.Close("random reply sets of 1..5 answers per request; non-trivial = at least two replies")
}

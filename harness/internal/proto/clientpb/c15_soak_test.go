package clientpb

// Concurrent soak for C15 (supporting evidence for what the Coq model cannot exhibit: real
// goroutine scheduling and cancellation timing; run with -race).
//
// Producers (one client each), consumers (Get in a loop, optionally marking what they got) and a
// marker (Proposed on arbitrary commands) run against one CommandCache inside a synctest bubble.
// synctest.Wait() gives an exact quiescence point: every consumer is durably blocked in Get's
// select.  The outcome is checked against the consequences of the sequential specification
// (theorems C15_conc_safety_partial / C15_conc_token_when_ready_partial):
//   full batches; no instance handed out twice; only added instances; every handed-out command
//   above every mark that was completed before its Get started; per-producer arrival order in
//   every consumer's stream; at quiescence no full fresh batch is left while Gets are blocked
//   (lost wake-up); every added instance is handed out, still cached, or at/below the final mark;
//   after cancellation every Get ends with context.Canceled.

import (
	"context"
	"errors"
	"fmt"
	"math/rand"
	"runtime"
	"sync"
	"sync/atomic"
	"testing"
	"testing/synctest"
)

type c15SoakCfg struct {
	BS            uint32 `json:"batch_size"`
	Producers     int    `json:"producers"`
	PerProducer   int    `json:"commands_per_producer"`
	Consumers     int    `json:"consumers"`
	ConsumerMarks bool   `json:"consumers_mark_their_batches"`
	Marker        int    `json:"marker_ops"`
	Retransmit    bool   `json:"retransmissions"`
	Flaky         bool   `json:"gets_cancelled_at_random_and_retried"`
	OneShot       bool   `json:"each_consumer_gets_one_batch_only"` // several requests in flight, nobody loops: one token must serve them all
	Seed          int64  `json:"seed"`
}

type c15Added struct {
	cmd c15Cmd
	idx int // position in its producer's program order
}

type c15Got struct {
	batch []c15Cmd
	snap  []uint64 // completed marks per client before the Get started
}

func c15AtomicMax(a *atomic.Uint64, x uint64) {
	for {
		old := a.Load()
		if old >= x || a.CompareAndSwap(old, x) {
			return
		}
	}
}

func c15SoakRound(v *verifOut, cfg c15SoakCfg) {
	cc := NewCommandCache(cfg.BS)
	ctx, cancel := context.WithCancel(context.Background())
	defer cancel()
	nClients := cfg.Producers + 1
	completed := make([]atomic.Uint64, nClients+1) // index = client id
	var tagCtr atomic.Uint64
	added := make([][]c15Added, cfg.Producers+1)
	got := make([][]c15Got, cfg.Consumers)
	lastErr := make([]error, cfg.Consumers)
	var wgProd, wgCons sync.WaitGroup
	var retries atomic.Int64
	finished := make([]atomic.Bool, cfg.Consumers)

	mark := func(cmds []c15Cmd) {
		b := &Batch{}
		for _, c := range cmds {
			b.Commands = append(b.Commands, c15ToCommand(c))
		}
		cc.Proposed(b)
		for _, c := range cmds {
			c15AtomicMax(&completed[c.C], c.S)
		}
	}

	for g := 0; g < cfg.Consumers; g++ {
		g := g
		wgCons.Add(1)
		crng := rand.New(rand.NewSource(cfg.Seed*1000 + 500 + int64(g)))
		go func() {
			defer wgCons.Done()
			for {
				snap := make([]uint64, nClients+1)
				for c := range snap {
					snap[c] = completed[c].Load()
				}
				// a Get whose own context may be cancelled at any moment (view change / timeout of the
				// proposer), possibly exactly when a batch becomes ready; the consumer then retries
				gctx, gcancel := context.WithCancel(ctx)
				if cfg.Flaky && crng.Intn(2) == 0 {
					spins := crng.Intn(4)
					go func() {
						for i := 0; i < spins; i++ {
							runtime.Gosched()
						}
						gcancel()
					}()
				}
				b, err := cc.Get(gctx)
				gcancel()
				if err != nil && ctx.Err() == nil && b == nil && errors.Is(err, context.Canceled) {
					retries.Add(1)
					continue // only this Get was cancelled: try again
				}
				if err != nil {
					lastErr[g] = err
					if b != nil {
						lastErr[g] = fmt.Errorf("batch and error: %w", err)
					}
					return
				}
				var cmds []c15Cmd
				for _, c := range b.GetCommands() {
					cmds = append(cmds, c15FromCommand(c))
				}
				got[g] = append(got[g], c15Got{batch: cmds, snap: snap})
				if len(cmds)%2 == 0 {
					runtime.Gosched()
				}
				if cfg.ConsumerMarks {
					mark(cmds)
				}
				if cfg.OneShot {
					finished[g].Store(true)
					return
				}
			}
		}()
	}
	for p := 1; p <= cfg.Producers; p++ {
		p := p
		rng := rand.New(rand.NewSource(cfg.Seed*1000 + int64(p)))
		wgProd.Add(1)
		go func() {
			defer wgProd.Done()
			idx := 0
			add := func(s uint64) {
				c := c15Cmd{C: uint32(p), S: s, T: tagCtr.Add(1)}
				added[p] = append(added[p], c15Added{cmd: c, idx: idx})
				idx++
				cc.Add(c15ToCommand(c))
			}
			for k := 1; k <= cfg.PerProducer; k++ {
				add(uint64(k))
				if cfg.Retransmit && rng.Intn(6) == 0 {
					add(uint64(1 + rng.Intn(k))) // a retransmission of this or an older command
				}
				if !cfg.OneShot && rng.Intn(3) == 0 {
					runtime.Gosched() // (one-shot rounds: uninterrupted bursts)
				}
			}
		}()
	}
	if cfg.Marker > 0 {
		rng := rand.New(rand.NewSource(cfg.Seed*1000 + 999))
		wgProd.Add(1)
		go func() {
			defer wgProd.Done()
			for i := 0; i < cfg.Marker; i++ {
				var cmds []c15Cmd
				for k := 1 + rng.Intn(2); k > 0; k-- {
					cmds = append(cmds, c15Cmd{C: uint32(1 + rng.Intn(cfg.Producers)), S: uint64(1 + rng.Intn(cfg.PerProducer))})
				}
				mark(cmds)
				runtime.Gosched()
			}
		}()
	}
	wgProd.Wait()
	synctest.Wait() // every consumer is now durably blocked in Get's select

	fail := func(fp, f string, a ...any) {
		v.Oracle(false, fp, fmt.Sprintf(f, a...), cfg)
	}
	okAll := true
	check := func(ok bool, fp, f string, a ...any) {
		if !ok {
			okAll = false
			fail(fp, f, a...)
		}
	}

	final := c15Snap(cc)
	freshCached := 0
	for _, c := range final.Cache {
		if c.S > final.Seqs[c.C] {
			freshCached++
		}
	}
	blockedGets := 0
	for g := range finished {
		if !finished[g].Load() {
			blockedGets++
		}
	}
	check(blockedGets == 0 || uint32(freshCached) < cfg.BS, "soak:lost-wakeup",
		"all producers finished, %d of %d consumers blocked in Get, but %d fresh commands are cached (batch size %d, token present: %v)",
		blockedGets, cfg.Consumers, freshCached, cfg.BS, final.Ready)

	cancel()
	wgCons.Wait()
	for g, err := range lastErr {
		if finished[g].Load() {
			continue // got its one batch and left
		}
		check(errors.Is(err, context.Canceled) && err == context.Canceled, "soak:get-end-not-cancellation", "consumer %d: Get ended with %v", g, err)
	}

	// bookkeeping over instances (unique tags)
	byTag := map[uint64]c15Added{}
	for _, l := range added {
		for _, a := range l {
			byTag[a.cmd.T] = a
		}
	}
	handed := map[uint64]int{}
	batches, stale := 0, 0
	for g := range got {
		lastIdx := map[uint32]int{}
		for _, gb := range got[g] {
			batches++
			check(uint32(len(gb.batch)) == cfg.BS, "soak:batch-not-full", "consumer %d got %d commands, batch size %d", g, len(gb.batch), cfg.BS)
			for _, c := range gb.batch {
				a, known := byTag[c.T]
				check(known && a.cmd == c, "soak:unknown-command", "consumer %d got %v which was never added", g, c)
				handed[c.T]++
				check(int(c.C) < len(gb.snap) && c.S > gb.snap[c.C], "soak:stale-command-handed-out",
					"consumer %d got %v although client %d was marked up to %d before the Get started", g, c, c.C, gb.snap[c.C])
				if known {
					li, seen := lastIdx[c.C]
					check(!seen || a.idx > li, "soak:order-violated", "consumer %d got %v (add index %d) after add index %d of the same client", g, c, a.idx, li)
					lastIdx[c.C] = a.idx
				}
			}
		}
	}
	inCache := map[uint64]int{}
	for _, c := range final.Cache {
		inCache[c.T]++
	}
	for tag, a := range byTag {
		h, ic := handed[tag], inCache[tag]
		check(h <= 1, "soak:handed-out-twice", "%v handed out %d times", a.cmd, h)
		check(!(h > 0 && ic > 0), "soak:handed-out-command-kept", "%v handed out and still cached", a.cmd)
		check(ic <= 1, "soak:cached-twice", "%v cached %d times", a.cmd, ic)
		if h == 0 && ic == 0 {
			stale++
			check(a.cmd.S <= final.Seqs[a.cmd.C], "soak:fresh-command-lost",
				"%v was added, never handed out, is not cached, and client %d is only marked up to %d", a.cmd, a.cmd.C, final.Seqs[a.cmd.C])
		}
	}
	for c := 1; c <= nClients; c++ {
		check(final.Seqs[uint32(c)] == completed[c].Load(), "soak:marks-wrong", "client %d marked %d, highest proposed %d", c, final.Seqs[uint32(c)], completed[c].Load())
	}
	if okAll {
		v.Oracle(true, "", "", nil)
	}
	v.Seen(fmt.Sprintf("%+v", cfg), batches > 1 && (stale > 0 || cfg.Consumers > 1), map[string]any{"config": cfg, "batches": batches, "dropped_or_rejected": stale, "left_in_cache": len(final.Cache)})
	v.CountN("soak_gets_cancelled_and_retried", int(retries.Load()))
	v.CountN("soak_batches", batches)
	v.CountN("soak_commands_added", len(byTag))
	v.CountN("soak_dropped_or_rejected_stale", stale)
	v.CountN("soak_left_in_cache", len(final.Cache))
	v.Count(fmt.Sprintf("soak_rounds_consumers%d", cfg.Consumers))
}

func TestVerifC15Soak(t *testing.T) {
	v := verifNew("C15")
	v.prop = "C15soak" // separate stats file: the sequential harness of the same package writes stats_C15_...
	rounds := v.Pick(1500, 30000)
	synctest.Test(t, func(t *testing.T) {
		for r := 0; r < rounds; r++ {
			cfg := c15SoakCfg{
				BS:            uint32(1 + v.rng.Intn(4)),
				Producers:     1 + v.rng.Intn(4),
				PerProducer:   5 + v.rng.Intn(60),
				Consumers:     1 + v.rng.Intn(3),
				ConsumerMarks: v.rng.Intn(3) != 0,
				Retransmit:    v.rng.Intn(2) == 0,
				Flaky:         v.rng.Intn(2) == 0,
				Seed:          v.seed*1_000_000 + int64(r),
			}
			if v.rng.Intn(2) == 0 {
				cfg.Marker = v.rng.Intn(cfg.PerProducer)
			}
			if v.rng.Intn(3) == 0 {
				cfg.OneShot = true
				cfg.Consumers = 2 + v.rng.Intn(5)
				cfg.PerProducer = 1 + v.rng.Intn(3*int(cfg.BS)*cfg.Consumers/cfg.Producers+2)
				cfg.Marker = 0
				v.Count("soak_rounds_one_shot")
			}
			c15SoakRound(v, cfg)
		}
	})
	v.Close("concurrent soak: producers/consumers/markers on one CommandCache in a synctest bubble, exact quiescence, checked against the sequential specification's consequences; non-trivial = several batches and (several consumers or stale drops)")
}

package clientpb

// Correspondence harness for C15 (command batching is FIFO, full-sized and duplicate-free).
//
// The real CommandCache is driven through Add / Proposed / Get.  "Get would block" is observed
// exactly: every Get runs in its own goroutine inside a testing/synctest bubble and
// synctest.Wait() returns only when that goroutine is durably blocked in its select (or done).
//
// Three things happen to every observation:
//   - the property's own oracle (c15Spec below: a reference bookkeeping of accepted, marked and
//     handed-out commands) is evaluated on the Go outputs, with one fingerprint per clause;
//   - the observation is emitted as a Gallina case and recomputed from Batch.BatchModel in the kernel;
//   - it is counted for the evidence.
//
// Streams: "step" = every distinct transition (state, op) reachable by <= D operations over
// 2 clients x 3 sequence numbers x batch sizes 1..3 (breadth first over distinct states, which
// covers every operation sequence of length <= D because the state capture is complete);
// "seqx" = all operation sequences of a fixed small length run on ONE cache object without
// re-building state; "seqr" = seeded random long sequences with unique payload tags, multi-command
// marks, already-cancelled contexts; "edge" = boundary and malformed inputs.

import (
	"context"
	"crypto/sha256"
	"encoding/binary"
	"errors"
	"fmt"
	"sort"
	"strings"
	"sync"
	"testing"
	"testing/synctest"
	"time"
)

type c15Cmd struct {
	C uint32 `json:"c"`
	S uint64 `json:"s"`
	T uint64 `json:"t"`
}

type c15State struct {
	BS    uint32            `json:"bs"`
	Seqs  map[uint32]uint64 `json:"seqs"`
	Cache []c15Cmd          `json:"cache"`
	Ready bool              `json:"ready"`
}

const (
	c15Add = iota
	c15Proposed
	c15Get
	c15GetC
	c15Contains // containsDuplicate(batch)
	c15Wake     // K Gets wait (all blocked), then X (Add/Proposed) runs, possibly racing with cancellation
)

type c15Op struct {
	Kind        int      `json:"kind"` // 0 Add, 1 Proposed, 2 Get (blocks => cancelled), 3 Get with cancelled ctx
	Cmds        []c15Cmd `json:"cmds,omitempty"`
	NilBatch    bool     `json:"nil_batch,omitempty"`    // Proposed(nil)
	NilCmd      bool     `json:"nil_cmd,omitempty"`      // Add(nil) / a nil entry (Cmds[i] is the zero command)
	K           int      `json:"waiting_gets,omitempty"` // Wake: number of Gets that wait
	Racing      bool     `json:"racing,omitempty"`       // Wake: the Gets' context is cancelled together with X
	CancelFirst bool     `json:"cancel_first,omitempty"` // Wake, racing: cancel() is called before X (else right after)
	Held        bool     `json:"held,omitempty"`         // Wake: the Gets are held at their first ctx.Done() call until the burst is over (else: parked in the select)
	Xs          []c15Op  `json:"xs,omitempty"`           // Wake: the burst of operations that runs while the Gets wait
}

const (
	c15None = iota // Add / Proposed: no result
	c15Blocked
	c15Batch
)

type c15Res struct {
	Kind       int        `json:"kind"` // 0 none, 1 blocked until cancelled, 2 batch
	Batch      []c15Cmd   `json:"batch,omitempty"`
	Err        string     `json:"err,omitempty"`
	Panic      string     `json:"panic,omitempty"`
	Batches    [][]c15Cmd `json:"batches,omitempty"`    // Wake: what the waiting Gets returned
	Contains   bool       `json:"contains,omitempty"`   // containsDuplicate
	Degenerate bool       `json:"degenerate,omitempty"` // Wake whose first Get did not block: ran as a plain Get
	raw        []*Batch   // the returned batch objects (aliasing probes)
}

// c15HeldCtx is a context whose Done() blocks until the gate is opened: a Get called with it is held
// at the point where it is about to wait (after whatever it does before waiting, before it is
// parked on the ready channel).  No hook in the code under test is needed.
type c15HeldCtx struct {
	gate chan struct{} // closed on release
	done chan struct{} // closed on cancellation
}

func (x *c15HeldCtx) Deadline() (time.Time, bool) { return time.Time{}, false }
func (x *c15HeldCtx) Value(any) any               { return nil }
func (x *c15HeldCtx) Done() <-chan struct{}       { <-x.gate; return x.done }
func (x *c15HeldCtx) Err() error {
	select {
	case <-x.done:
		return context.Canceled
	default:
		return nil
	}
}

// c15Junk is appended to every batch a Get returns: if the batch shared its backing array with the
// cache, the junk (a fresh command nobody added) would show up in the cache.
func c15Junk() *Command {
	return &Command{ClientID: 77777, SequenceNumber: 1 << 40, Data: []byte("junk")}
}

func c15TakeBatch(res *c15Res, b *Batch) []c15Cmd {
	var cmds []c15Cmd
	for _, c := range b.GetCommands() {
		cmds = append(cmds, c15FromCommand(c))
	}
	b.Commands = append(b.Commands, c15Junk())
	res.raw = append(res.raw, b)
	return cmds
}

func c15ToCommand(c c15Cmd) *Command {
	cmd := &Command{ClientID: c.C, SequenceNumber: c.S}
	if c.T != 0 {
		cmd.Data = binary.BigEndian.AppendUint64(nil, c.T)
	}
	return cmd
}

func c15FromCommand(cmd *Command) c15Cmd {
	if cmd == nil {
		return c15Cmd{}
	}
	r := c15Cmd{C: cmd.GetClientID(), S: cmd.GetSequenceNumber()}
	if d := cmd.GetData(); len(d) == 8 {
		r.T = binary.BigEndian.Uint64(d)
	}
	return r
}

// c15Build makes a real cache in the given state (the only place, with c15Snap, that touches fields).
func c15Build(s c15State) *CommandCache {
	cc := NewCommandCache(s.BS)
	for k, x := range s.Seqs {
		cc.clientSeqNumbers[k] = x
	}
	for _, c := range s.Cache {
		cc.cache = append(cc.cache, c15ToCommand(c))
	}
	if s.Ready {
		cc.ready <- struct{}{}
	}
	return cc
}

func c15Snap(cc *CommandCache) c15State {
	cc.mut.Lock()
	defer cc.mut.Unlock()
	s := c15State{BS: cc.batchSize, Seqs: map[uint32]uint64{}, Ready: len(cc.ready) > 0}
	for k, x := range cc.clientSeqNumbers {
		s.Seqs[k] = x
	}
	for _, c := range cc.cache {
		s.Cache = append(s.Cache, c15FromCommand(c))
	}
	return s
}

// c15Exec applies one operation to the real cache.  Must run inside a synctest bubble.
func c15Exec(cc *CommandCache, op c15Op) (res c15Res) {
	defer func() {
		if r := recover(); r != nil {
			res.Panic = fmt.Sprint(r)
		}
	}()
	switch op.Kind {
	case c15Add:
		if op.NilCmd {
			cc.Add(nil)
		} else {
			cc.Add(c15ToCommand(op.Cmds[0]))
		}
	case c15Proposed:
		if op.NilBatch {
			cc.Proposed(nil)
			break
		}
		b := &Batch{}
		for _, c := range op.Cmds {
			if op.NilCmd && c == (c15Cmd{}) {
				b.Commands = append(b.Commands, nil)
			} else {
				b.Commands = append(b.Commands, c15ToCommand(c))
			}
		}
		cc.Proposed(b)
	case c15Get, c15GetC:
		ctx, cancel := context.WithCancel(context.Background())
		defer cancel()
		if op.Kind == c15GetC {
			cancel()
		}
		type out struct {
			b   *Batch
			err error
			pan string
		}
		var o *out
		go func() {
			x := &out{}
			defer func() {
				if r := recover(); r != nil {
					x.pan = fmt.Sprint(r)
				}
				o = x
			}()
			x.b, x.err = cc.Get(ctx)
		}()
		synctest.Wait()
		if o == nil {
			// durably blocked in the select: this is "Get would block"; end it by cancellation
			cancel()
			synctest.Wait()
			if o == nil {
				res.Kind, res.Err = c15Blocked, "still-blocked-after-cancel"
				return res
			}
			res.Kind = c15Blocked
			if o.pan != "" {
				res.Panic = o.pan
			} else if o.b != nil || !errors.Is(o.err, context.Canceled) {
				res.Err = fmt.Sprintf("after cancel: batch=%v err=%v", o.b != nil, o.err)
			}
			return res
		}
		if o.pan != "" {
			res.Panic = o.pan
			return res
		}
		if o.err != nil {
			// returned an error although never blocked: only legal with the already-cancelled context
			res.Kind = c15Blocked
			if op.Kind != c15GetC || o.b != nil || !errors.Is(o.err, context.Canceled) {
				res.Err = fmt.Sprintf("error without blocking: batch=%v err=%v", o.b != nil, o.err)
			}
			return res
		}
		res.Kind = c15Batch
		if o.b == nil {
			res.Err = "nil batch and nil error"
			return res
		}
		res.Batch = c15TakeBatch(&res, o.b)
	case c15Contains:
		b := &Batch{}
		for _, c := range op.Cmds {
			if op.NilCmd && c == (c15Cmd{}) {
				b.Commands = append(b.Commands, nil)
			} else {
				b.Commands = append(b.Commands, c15ToCommand(c))
			}
		}
		res.Contains = cc.containsDuplicate(b)
	case c15Wake:
		type out struct {
			b    *Batch
			err  error
			pan  string
			done bool
		}
		var ctx context.Context
		var cancel, release func()
		if op.Held {
			hc := &c15HeldCtx{gate: make(chan struct{}), done: make(chan struct{})}
			var once1, once2 sync.Once
			ctx, cancel, release = hc, func() { once1.Do(func() { close(hc.done) }) }, func() { once2.Do(func() { close(hc.gate) }) }
			defer release()
		} else {
			ctx, cancel = context.WithCancel(context.Background())
			release = func() {}
		}
		defer cancel()
		outs := make([]*out, 0, op.K)
		for i := 0; i < op.K; i++ {
			x := &out{}
			outs = append(outs, x)
			go func() {
				defer func() {
					if r := recover(); r != nil {
						x.pan = fmt.Sprint(r)
					}
					x.done = true
				}()
				x.b, x.err = cc.Get(ctx)
			}()
			synctest.Wait() // parked in the select, or held inside ctx.Done()
			if x.done && op.Held {
				// only issued where fewer than batch_size fresh commands are cached: nothing to return yet
				res.Err = fmt.Sprintf("concurrent Get %d returned before anything was added: batch=%v err=%v", i, x.b != nil, x.err)
				release()
				cancel()
				synctest.Wait()
				return res
			}
			if x.done && !op.Held {
				if x.pan != "" {
					res.Panic = x.pan
					return res
				}
				if i == 0 && x.err == nil && x.b != nil {
					// enough fresh commands were already there: this is just a Get
					res.Degenerate, res.Kind = true, c15Batch
					res.Batch = c15TakeBatch(&res, x.b)
					return res
				}
				res.Err = fmt.Sprintf("waiting Get %d returned without any change: batch=%v err=%v", i, x.b != nil, x.err)
				return res
			}
		}
		if op.Racing && op.CancelFirst {
			cancel()
		}
		for _, x := range op.Xs { // the burst: no waiting in between
			if sub := c15Exec(cc, x); sub.Panic != "" {
				res.Panic = sub.Panic
				return res
			}
		}
		release()
		if op.Racing && !op.CancelFirst {
			cancel()
		}
		synctest.Wait()
		if !op.Racing {
			cancel() // whoever is still waiting now ends by cancellation
			synctest.Wait()
		}
		for i, x := range outs {
			switch {
			case !x.done:
				res.Err = fmt.Sprintf("waiting Get %d still blocked after cancel", i)
			case x.pan != "":
				res.Panic = x.pan
			case x.err == nil && x.b != nil:
				res.Batches = append(res.Batches, c15TakeBatch(&res, x.b))
			case x.b != nil || !errors.Is(x.err, context.Canceled):
				res.Err = fmt.Sprintf("waiting Get %d: batch=%v err=%v", i, x.b != nil, x.err)
			}
		}
	}
	return res
}

// ---------------------------------------------------------------------------------------------
// The property's oracle: reference bookkeeping, independent of the cache's internals.

type c15Spec struct {
	bs     uint32
	marked map[uint32]uint64 // highest sequence number marked as proposed per client
	pend   []c15Cmd          // accepted instances not handed out yet, arrival order (stale ones pruned)
}

func (s *c15Spec) fresh(c c15Cmd) bool { return c.S > s.marked[c.C] }

func (s *c15Spec) freshOf(l []c15Cmd) []c15Cmd {
	var r []c15Cmd
	for _, c := range l {
		if s.fresh(c) {
			r = append(r, c)
		}
	}
	return r
}

func (s *c15Spec) clone() *c15Spec {
	n := &c15Spec{bs: s.bs, marked: make(map[uint32]uint64, len(s.marked)), pend: append([]c15Cmd(nil), s.pend...)}
	for k, x := range s.marked {
		n.marked[k] = x
	}
	return n
}

func c15EqCmds(a, b []c15Cmd) bool {
	if len(a) != len(b) {
		return false
	}
	for i := range a {
		if a[i] != b[i] {
			return false
		}
	}
	return true
}

// isSubseq reports whether a is a subsequence of b (instances matched left to right).
func c15Subseq(a, b []c15Cmd) bool {
	j := 0
	for _, x := range a {
		for j < len(b) && b[j] != x {
			j++
		}
		if j == len(b) {
			return false
		}
		j++
	}
	return true
}

type c15Fail struct{ fp, what string }

// remove takes the instances of b (left to right) out of the pending list.
func (s *c15Spec) remove(b []c15Cmd) {
	var rest []c15Cmd
	j := 0
	for _, c := range s.pend {
		if j < len(b) && b[j] == c {
			j++
			continue
		}
		rest = append(rest, c)
	}
	s.pend = rest
}

// c15SameBatches compares two collections of batches as multisets.
func c15SameBatches(a, b [][]c15Cmd) bool {
	if len(a) != len(b) {
		return false
	}
	m := map[string]int{}
	for _, x := range a {
		m[c15GCmds(x)]++
	}
	for _, x := range b {
		m[c15GCmds(x)]--
	}
	for _, n := range m {
		if n != 0 {
			return false
		}
	}
	return true
}

// apply advances the reference by one observed operation and returns the violated clauses.
func (s *c15Spec) apply(op c15Op, res c15Res, after c15State) []c15Fail {
	var fails []c15Fail
	bad := func(fp, f string, a ...any) { fails = append(fails, c15Fail{fp, fmt.Sprintf(f, a...)}) }
	if res.Panic != "" {
		bad("cmdcache:panic", "panic: %s", res.Panic)
		return fails
	}
	switch op.Kind {
	case c15Add:
		if !op.NilCmd && s.fresh(op.Cmds[0]) {
			s.pend = append(s.pend, op.Cmds[0])
		}
	case c15Proposed:
		if !op.NilBatch {
			for _, c := range op.Cmds {
				if c.S > s.marked[c.C] {
					s.marked[c.C] = c.S
				}
			}
		}
	case c15Get, c15GetC:
		fp := s.freshOf(s.pend)
		enough := uint32(len(fp)) >= s.bs
		if res.Err != "" {
			bad("get:bad-return", "Get: %s", res.Err)
		}
		switch res.Kind {
		case c15Blocked:
			if enough && op.Kind == c15Get {
				bad("get:blocked-with-full-fresh-batch", "Get blocked although %d fresh commands wait (batch size %d)", len(fp), s.bs)
			}
		case c15Batch:
			b := res.Batch
			stale := false
			for _, c := range b {
				if !s.fresh(c) {
					stale = true
				}
			}
			switch {
			case uint32(len(b)) != s.bs:
				bad("get:batch-not-full", "Get returned %d commands, batch size %d", len(b), s.bs)
			case stale:
				bad("get:stale-command-handed-out", "Get returned %v although marked=%v", b, s.marked)
			case !c15Subseq(b, s.pend):
				bad("get:not-accepted-or-handed-out-twice-or-reordered", "Get returned %v, pending accepted commands are %v", b, s.pend)
			case !enough || !c15EqCmds(b, fp[:s.bs]):
				bad("get:not-oldest-fresh", "Get returned %v, the oldest fresh pending commands are %v", b, fp)
			}
			s.remove(b)
		default:
			bad("get:bad-return", "Get returned neither a batch nor an error")
		}
	case c15Contains:
		want := false
		for _, c := range op.Cmds {
			if !s.fresh(c) {
				want = true
			}
		}
		if res.Contains != want {
			bad("contains:wrong-answer", "containsDuplicate(%v) = %v although marked=%v", op.Cmds, res.Contains, s.marked)
		}
	case c15Wake:
		if res.Err != "" {
			bad("get:bad-return", "waiting Get: %s", res.Err)
		}
		if fp := s.freshOf(s.pend); !op.Held && s.bs > 0 && uint32(len(fp)) >= s.bs {
			bad("get:blocked-with-full-fresh-batch", "%d Gets blocked although %d fresh commands wait (batch size %d)", op.K, len(fp), s.bs)
		}
		// the burst that runs while they wait
		for _, x := range op.Xs {
			switch x.Kind {
			case c15Add:
				if !x.NilCmd && s.fresh(x.Cmds[0]) {
					s.pend = append(s.pend, x.Cmds[0])
				}
			case c15Proposed:
				if !x.NilBatch {
					for _, c := range x.Cmds {
						if c.S > s.marked[c.C] {
							s.marked[c.C] = c.S
						}
					}
				}
			}
		}
		// what the waiting Gets must return: the oldest fresh batches, one per Get, while they last
		fp := s.freshOf(s.pend)
		var exp [][]c15Cmd
		for i := 0; i < op.K && s.bs > 0 && uint32(len(fp)) >= s.bs; i++ {
			exp = append(exp, fp[:s.bs])
			fp = fp[s.bs:]
		}
		obs := res.Batches
		short := false
		for _, b := range obs {
			if uint32(len(b)) != s.bs {
				short = true
			}
		}
		switch {
		case short:
			bad("get:batch-not-full", "waiting Gets returned %v, batch size %d", obs, s.bs)
		case len(obs) > len(exp) || !c15SameBatches(obs, exp[:len(obs)]):
			bad("wake:wrong-batches", "waiting Gets returned %v after %s, the oldest fresh batches are %v (marked=%v)", obs, c15BurstString(op.Xs), exp, s.marked)
		case len(obs) < len(exp) && !op.Racing:
			bad("wake:waiting-get-not-woken", "%d concurrent Gets waited (%s), %s made %d fresh batches available for them, only %d returned: a Get stays blocked with a full fresh batch cached", op.K, map[bool]string{true: "held before parking", false: "parked"}[op.Held], c15BurstString(op.Xs), len(exp), len(obs))
		}
		if len(obs) <= len(exp) && c15SameBatches(obs, exp[:len(obs)]) {
			for _, b := range exp[:len(obs)] {
				s.remove(b)
			}
		} else {
			for _, b := range obs {
				s.remove(b)
			}
		}
	}
	s.pend = s.freshOf(s.pend)
	// token_when_ready, observed at rest (no Get is in flight here): a full fresh batch => the token is there
	if fc := s.freshOf(after.Cache); s.bs > 0 && uint32(len(fc)) >= s.bs && !after.Ready {
		bad("token:missing-with-full-fresh-batch", "after %s: %d fresh commands cached, batch size %d, no wake-up pending: the next Get blocks", c15OpString(op), len(fc), s.bs)
	}
	// no fresh command is lost while it waits: the fresh part of the cache is exactly the pending list
	fc := s.freshOf(after.Cache)
	if !c15EqCmds(fc, s.pend) {
		switch {
		case c15Subseq(fc, s.pend):
			bad("cache:fresh-command-lost", "after %s: fresh cached %v, fresh accepted and not handed out %v", c15OpString(op), fc, s.pend)
		case c15Subseq(s.pend, fc):
			bad("cache:handed-out-or-rejected-command-kept", "after %s: fresh cached %v, fresh accepted and not handed out %v", c15OpString(op), fc, s.pend)
		default:
			bad("cache:order-changed", "after %s: fresh cached %v, fresh accepted and not handed out %v", c15OpString(op), fc, s.pend)
		}
	}
	return fails
}

// ---------------------------------------------------------------------------------------------
// Gallina terms (N_scope is open in the shard header)

func c15GCmd(c c15Cmd) string { return fmt.Sprintf("(%d,%d,%d)", c.C, c.S, c.T) }
func c15GCmds(l []c15Cmd) string {
	ss := make([]string, len(l))
	for i, c := range l {
		ss[i] = c15GCmd(c)
	}
	return "[" + strings.Join(ss, ";") + "]"
}
func c15GState(s c15State) string {
	keys := make([]uint32, 0, len(s.Seqs))
	for k := range s.Seqs {
		keys = append(keys, k)
	}
	sort.Slice(keys, func(i, j int) bool { return keys[i] < keys[j] })
	ss := make([]string, len(keys))
	for i, k := range keys {
		ss[i] = fmt.Sprintf("(%d,%d)", k, s.Seqs[k])
	}
	return fmt.Sprintf("(S_ %d [%s] %s %s)", s.BS, strings.Join(ss, ";"), c15GCmds(s.Cache), gBool(s.Ready))
}
func c15GBatches(l [][]c15Cmd) string {
	ss := make([]string, len(l))
	for i, b := range l {
		ss[i] = c15GCmds(b)
	}
	return "[" + strings.Join(ss, ";") + "]"
}
func c15GOp(op c15Op, res c15Res) string {
	switch op.Kind {
	case c15Contains:
		return fmt.Sprintf("(CContains %s %s)", c15GCmds(op.Cmds), gBool(res.Contains))
	case c15Wake:
		xs := make([]string, len(op.Xs))
		for i, x := range op.Xs {
			xs[i] = c15GOp(x, c15Res{})
		}
		return fmt.Sprintf("(W_ %d%%nat %s %s [%s] %s)", op.K, gBool(op.Held), gBool(op.Racing), strings.Join(xs, ";"), c15GBatches(res.Batches))
	case c15Add:
		if op.NilCmd {
			return "(CAdd (0,0,0))" // nil command: GetClientID() = GetSequenceNumber() = 0
		}
		return "(CAdd " + c15GCmd(op.Cmds[0]) + ")"
	case c15Proposed:
		if op.NilBatch {
			return "(CProposed [])"
		}
		return "(CProposed " + c15GCmds(op.Cmds) + ")"
	case c15Get:
		return "CGet"
	}
	return "CGetC"
}
func c15GRes(r c15Res) string {
	switch r.Kind {
	case c15Blocked:
		return "K_"
	case c15Batch:
		return "(B_ " + c15GCmds(r.Batch) + ")"
	}
	return "C_"
}
func c15OpString(op c15Op) string {
	switch op.Kind {
	case c15Contains:
		return fmt.Sprintf("containsDuplicate(%v)", op.Cmds)
	case c15Wake:
		how := "then cancel at rest"
		if op.Racing && op.CancelFirst {
			how = "cancel just before it"
		} else if op.Racing {
			how = "cancel right after it"
		}
		where := "parked"
		if op.Held {
			where = "held before parking"
		}
		return fmt.Sprintf("%d waiting Gets (%s) + %s (%s)", op.K, where, c15BurstString(op.Xs), how)
	case c15Add:
		if op.NilCmd {
			return "Add(nil)"
		}
		return fmt.Sprintf("Add(c%d#%d)", op.Cmds[0].C, op.Cmds[0].S)
	case c15Proposed:
		if op.NilBatch {
			return "Proposed(nil)"
		}
		ss := make([]string, len(op.Cmds))
		for i, c := range op.Cmds {
			ss[i] = fmt.Sprintf("c%d#%d", c.C, c.S)
		}
		return "Proposed(" + strings.Join(ss, ",") + ")"
	case c15Get:
		return "Get"
	}
	return "Get(cancelled)"
}
func c15BurstString(xs []c15Op) string {
	ss := make([]string, len(xs))
	for i, x := range xs {
		ss[i] = c15OpString(x)
	}
	return strings.Join(ss, ", ")
}
func c15StateKey(s c15State) string { return c15GState(s) }
func c15Key(s string) (k [16]byte) {
	h := sha256.Sum256([]byte(s))
	copy(k[:], h[:16])
	return k
}

// ---------------------------------------------------------------------------------------------

type c15Node struct {
	st     c15State
	spec   *c15Spec
	parent *c15Node
	via    c15Op
	depth  int
}

func (n *c15Node) path() []string {
	var p []string
	for x := n; x != nil && x.parent != nil; x = x.parent {
		p = append(p, c15OpString(x.via))
	}
	for i, j := 0, len(p)-1; i < j; i, j = i+1, j-1 {
		p[i], p[j] = p[j], p[i]
	}
	return p
}

type c15H struct {
	v *verifOut
}

func (h *c15H) report(fails []c15Fail, input any) {
	if len(fails) == 0 {
		h.v.Oracle(true, "", "", nil)
		return
	}
	for _, f := range fails {
		h.v.Oracle(false, f.fp, f.what, input)
	}
}

func c15Alphabet(clients []uint32, seqs []uint64) []c15Op {
	var ops []c15Op
	for _, c := range clients {
		for _, s := range seqs {
			ops = append(ops, c15Op{Kind: c15Add, Cmds: []c15Cmd{{C: c, S: s}}})
		}
	}
	for _, c := range clients {
		for _, s := range seqs {
			ops = append(ops, c15Op{Kind: c15Proposed, Cmds: []c15Cmd{{C: c, S: s}}})
		}
	}
	ops = append(ops, c15Op{Kind: c15Get})
	return ops
}

// exhaustive: breadth first over the distinct (cache state, reference state) pairs reachable by
// <= depth operations; every transition out of every such state is executed on a real cache.
func (h *c15H) exhaustive(depth, kernelDepth, sampleMod, wakeDepth int) {
	v := h.v
	stream := v.Stream("step", "step_mismatches", 2500)
	ops := c15Alphabet([]uint32{1, 2}, []uint64{1, 2, 3})
	for bs := uint32(1); bs <= 3; bs++ {
		root := &c15Node{st: c15State{BS: bs, Seqs: map[uint32]uint64{}}, spec: &c15Spec{bs: bs, marked: map[uint32]uint64{}}}
		visited := map[[16]byte]bool{c15Key(c15StateKey(root.st) + "|" + c15GCmds(root.spec.pend) + fmt.Sprint(root.spec.marked)): true}
		frontier := []*c15Node{root}
		seqCount := 1
		for d := 0; d < depth; d++ {
			seqCount *= len(ops)
			v.CountN(fmt.Sprintf("distinct_states_expanded_bs%d", bs), len(frontier))
			v.CountN(fmt.Sprintf("sequences_represented_bs%d", bs), seqCount)
			var next []*c15Node
			// try executes one transition out of node n on a freshly built real cache
			try := func(n *c15Node, op c15Op, expand bool) {
				cc := c15Build(n.st)
				res := c15Exec(cc, op)
				if res.Degenerate {
					op = c15Op{Kind: c15Get}
				}
				after := c15Snap(cc)
				spec := n.spec.clone()
				fails := spec.apply(op, res, after)
				if len(fails) > 0 {
					h.report(fails, map[string]any{"batch_size": bs, "ops_before": n.path(), "state": n.st, "op": c15OpString(op), "result": res, "state_after": after})
				} else {
					v.Oracle(true, "", "", nil)
				}
				nontriv := len(n.st.Cache) > 0 && (op.Kind == c15Get || op.Kind == c15Wake || len(n.st.Seqs) > 0)
				v.mu.Lock()
				v.evals++
				if nontriv {
					v.nontriv++
					if len(v.samples) < 3 && res.Kind == c15Batch && len(n.st.Cache) > int(bs) {
						v.samples = append(v.samples, map[string]any{"state": n.st, "op": c15OpString(op), "result": res})
					}
				}
				v.mu.Unlock()
				kind := []string{"add", "proposed", "get", "getc", "contains", "wake"}[op.Kind]
				if op.Kind == c15Wake {
					kind = fmt.Sprintf("wake%d", op.K)
					if op.Held {
						kind += "_held"
					}
					if len(op.Xs) > 1 {
						kind += "_burst"
					}
					if op.Racing {
						kind += "_racing"
					}
					kind += fmt.Sprintf("_%dbatches", len(res.Batches))
				} else {
					kind += "_" + []string{"none", "blocked", "batch"}[res.Kind]
				}
				v.Count("step_" + kind)
				key := c15StateKey(n.st) + c15GOp(op, res)
				hsh := uint32(2166136261)
				for i := 0; i < len(key); i++ {
					hsh = (hsh ^ uint32(key[i])) * 16777619
				}
				emit := int(hsh>>8)%sampleMod == 0
				if d < kernelDepth {
					// shallow states: everything goes to the kernel, of the many two-operation bursts one in eight
					emit = !(op.Kind == c15Wake && len(op.Xs) == 2 && op.Xs[0].Cmds[0].C != 3) || int(hsh>>8)%8 == 0
				}
				if emit && res.Panic == "" {
					v.Case(stream, fmt.Sprintf("(%s,%s,%s,%s)", c15GState(n.st), c15GOp(op, res), c15GRes(res), c15GState(after)),
						map[string]any{"batch_size": bs, "ops_before": n.path(), "op": c15OpString(op), "result": res, "state_after": after})
					v.Count("step_kernel_cases")
				}
				if !expand || d == depth-1 {
					return // states at the last level are not expanded
				}
				ck := c15Key(c15StateKey(after) + "|" + c15GCmds(spec.pend) + fmt.Sprint(spec.marked))
				if !visited[ck] {
					visited[ck] = true
					next = append(next, &c15Node{st: after, spec: spec, parent: n, via: op, depth: d + 1})
				}
			}
			for _, n := range frontier {
				for _, op := range ops {
					try(n, op, true)
				}
				// Transitions that lead to no new states (their successors are those of Add / Get) but
				// exercise other code paths: an already-cancelled context while the token is there
				// (both branches of the select: several tries), and Gets that are ALREADY WAITING
				// when an Add arrives, with and without a cancellation racing with the Add.
				if n.st.Ready {
					for k := 0; k < 3; k++ {
						try(n, c15Op{Kind: c15GetC}, false)
					}
				}
				if uint32(len(n.spec.freshOf(n.spec.pend))) >= bs {
					continue // a Get would not wait here (and may legitimately return before the burst)
				}
				// k >= 2 concurrent Gets and a BURST of Adds that makes >= 2 batches available while
				// none of them can react: held at their first ctx.Done() call (past whatever they do
				// before waiting, not yet parked), then released together.  One buffered token has
				// to serve them all (the hand-off re-signal).  Client 3 is never marked: always fresh.
				burst := func(m int) []c15Op {
					xs := make([]c15Op, m)
					for i := range xs {
						xs[i] = c15Op{Kind: c15Add, Cmds: []c15Cmd{{C: 3, S: uint64(i + 1)}}}
					}
					return xs
				}
				try(n, c15Op{Kind: c15Wake, K: 2, Held: true, Xs: burst(2 * int(bs))}, false)
				if d < wakeDepth {
					try(n, c15Op{Kind: c15Wake, K: 3, Held: true, Xs: burst(3 * int(bs))}, false)
					try(n, c15Op{Kind: c15Wake, K: 3, Held: true, Xs: burst(2*int(bs) + 1)}, false)
					try(n, c15Op{Kind: c15Wake, K: 2, Held: true, Racing: true, Xs: burst(2 * int(bs))}, false)
					try(n, c15Op{Kind: c15Wake, K: 2, Held: true, Racing: true, CancelFirst: true, Xs: burst(2 * int(bs))}, false)
				}
				if d < wakeDepth-1 {
					for i := range ops {
						for j := range ops {
							if ops[i].Kind == c15Add && ops[j].Kind != c15Get {
								try(n, c15Op{Kind: c15Wake, K: 2, Held: true, Xs: []c15Op{ops[i], ops[j]}}, false)
							}
						}
					}
				}
				// the same burst with the Gets already parked in their select (they may react between the Adds)
				try(n, c15Op{Kind: c15Wake, K: 2, Xs: burst(2 * int(bs))}, false)
				if d < wakeDepth {
					try(n, c15Op{Kind: c15Wake, K: 3, Xs: burst(3*int(bs) + 1)}, false)
				}
				for i := range ops {
					x := ops[i]
					if x.Kind != c15Add {
						continue
					}
					xs := []c15Op{x}
					try(n, c15Op{Kind: c15Wake, K: 1, Xs: xs}, false)
					if d < wakeDepth {
						try(n, c15Op{Kind: c15Wake, K: 2, Xs: xs}, false)
						try(n, c15Op{Kind: c15Wake, K: 1, Racing: true, Xs: xs}, false)
						try(n, c15Op{Kind: c15Wake, K: 1, Racing: true, CancelFirst: true, Xs: xs}, false)
						try(n, c15Op{Kind: c15Wake, K: 2, Racing: true, CancelFirst: i%2 == 0, Xs: xs}, false)
					}
				}
			}
			frontier = next
		}
	}
}

// runSeq runs a whole sequence on one cache object from NewCommandCache, checks the oracle after
// every operation and emits the sequence as one kernel case.
func (h *c15H) runSeq(stream *verifStream, bs uint32, ops []c15Op, oracle bool, tag string) {
	v := h.v
	cc := NewCommandCache(bs)
	spec := &c15Spec{bs: bs, marked: map[uint32]uint64{}}
	var terms, names []string
	var results []c15Res
	batches, blocked := 0, 0
	ok := true
	type held struct {
		b    *Batch
		cmds []c15Cmd
		at   int
	}
	var holds []held
	for i, op := range ops {
		if op.Kind == c15Wake && op.Held && bs > 0 && uint32(len(spec.freshOf(spec.pend))) >= bs {
			// enough fresh commands are there already: a concurrent Get may legitimately return before the
			// burst, so "held until the burst is over" is not a meaningful schedule here; just a Get
			op = c15Op{Kind: c15Get}
		}
		res := c15Exec(cc, op)
		if res.Degenerate {
			op = c15Op{Kind: c15Get}
		}
		for k, b := range res.raw {
			cmds := res.Batch
			if op.Kind == c15Wake {
				cmds = res.Batches[k]
			}
			holds = append(holds, held{b, cmds, i})
		}
		after := c15Snap(cc)
		names = append(names, c15OpString(op))
		results = append(results, res)
		if res.Kind == c15Batch {
			batches++
		} else if res.Kind == c15Blocked {
			blocked++
		}
		if oracle {
			fails := spec.apply(op, res, after)
			h.report(fails, map[string]any{"batch_size": bs, "ops": names, "failing_index": i, "result": res, "state_after": after})
		} else if res.Panic != "" {
			h.report([]c15Fail{{"cmdcache:panic", res.Panic}}, map[string]any{"batch_size": bs, "ops": names})
		}
		if res.Panic != "" {
			ok = false
			break
		}
		terms = append(terms, fmt.Sprintf("(%s,%s,%s)", c15GOp(op, res), c15GRes(res), c15GState(after)))
	}
	// results are used after further operations: a batch handed out must not change any more
	for _, hd := range holds {
		now := hd.b.GetCommands()
		same := len(now) == len(hd.cmds)+1
		for k := 0; same && k < len(hd.cmds); k++ {
			same = c15FromCommand(now[k]) == hd.cmds[k]
		}
		if !same {
			h.report([]c15Fail{{"get:returned-batch-changed-later", fmt.Sprintf("the batch returned by operation %d was %v and changed afterwards", hd.at, hd.cmds)}},
				map[string]any{"batch_size": bs, "ops": names, "batch_of_op": hd.at})
		}
	}
	key := fmt.Sprintf("%s bs=%d %s", tag, bs, strings.Join(names, ";"))
	v.Seen(key, batches > 0 && blocked > 0, map[string]any{"batch_size": bs, "ops": names, "results": results})
	v.Count(tag + "_sequences")
	v.CountN(tag+"_batches_returned", batches)
	v.CountN(tag+"_gets_blocked", blocked)
	if ok && bs != 0 {
		// batch size 0 is outside the property (sizes >= 1): only run for panics, not compared
		v.Case(stream, fmt.Sprintf("(%d,[%s])", bs, strings.Join(terms, ";")), map[string]any{"batch_size": bs, "ops": names, "results": results})
	}
}

func (h *c15H) sequencesExhaustive(length int) {
	stream := h.v.Stream("seqx", "seq_mismatches", 600)
	ops := c15Alphabet([]uint32{1, 2}, []uint64{1, 2})
	idx := make([]int, length)
	for bs := uint32(1); bs <= 2; bs++ {
		for i := range idx {
			idx[i] = 0
		}
		for {
			seq := make([]c15Op, length)
			for i, k := range idx {
				seq[i] = ops[k]
			}
			h.runSeq(stream, bs, seq, true, "seqx")
			i := length - 1
			for i >= 0 {
				idx[i]++
				if idx[i] < len(ops) {
					break
				}
				idx[i] = 0
				i--
			}
			if i < 0 {
				break
			}
		}
	}
}

// client ids that agree in their low 8 / 16 / 24 / 31 bits, id 0, the largest id
var c15IDPalette = []uint32{1, 1 + 1<<8, 1 + 1<<16, 1 + 1<<24, 1 + 1<<31, 0, 1 << 16, ^uint32(0), 2, 2 + 1<<16}

// sequence numbers that agree in their low 32 bits / differ only in the top bit
var c15SeqOffsets = []uint64{0, 0, 1 << 32, 1 << 63, 1<<32 + 1<<31}

func (h *c15H) sequencesRandom(n int) {
	v := h.v
	stream := v.Stream("seqr", "seq_mismatches", 150)
	for it := 0; it < n; it++ {
		bs := uint32(1 + v.rng.Intn(4))
		if v.rng.Intn(10) == 0 {
			bs = uint32(5 + v.rng.Intn(4))
		}
		nc := 1 + v.rng.Intn(4)
		length := 8 + v.rng.Intn(40)
		maxS := uint64(2 + v.rng.Intn(3+length/4))
		inOrder := v.rng.Intn(3) == 0  // clients that number their commands consecutively
		wideIDs := v.rng.Intn(3) == 0  // ids from the palette instead of 1..nc
		wideSeqs := v.rng.Intn(4) == 0 // sequence numbers spread over the uint64 range
		if wideIDs {
			v.Count("seqr_wide_ids")
		}
		if wideSeqs {
			v.Count("seqr_wide_seqs")
		}
		idOff := v.rng.Intn(len(c15IDPalette))
		client := func() uint32 {
			k := v.rng.Intn(nc)
			if wideIDs {
				return c15IDPalette[(idOff+k)%len(c15IDPalette)]
			}
			return uint32(1 + k)
		}
		seqno := func() uint64 {
			s := uint64(v.rng.Int63n(int64(maxS) + 1))
			if wideSeqs {
				s += c15SeqOffsets[v.rng.Intn(len(c15SeqOffsets))]
			}
			return s
		}
		nextSeq := map[uint32]uint64{}
		tag := uint64(0)
		var ops []c15Op
		// a shadow run decides what "the batch Get just returned" is; run on a scratch cache
		shadow := NewCommandCache(bs)
		var lastBatch []c15Cmd
		newAdd := func() c15Op {
			c := client()
			s := seqno()
			if inOrder && v.rng.Intn(5) != 0 {
				nextSeq[c]++
				s = nextSeq[c]
			}
			tag++
			return c15Op{Kind: c15Add, Cmds: []c15Cmd{{C: c, S: s, T: tag}}}
		}
		someCmds := func(max int) []c15Cmd {
			var l []c15Cmd
			for k := v.rng.Intn(max + 1); k > 0; k-- {
				if len(l) > 0 && v.rng.Intn(4) == 0 {
					l = append(l, l[v.rng.Intn(len(l))]) // the same command again
				} else {
					l = append(l, c15Cmd{C: client(), S: seqno(), T: uint64(v.rng.Intn(3))})
				}
			}
			return l
		}
		newProposed := func() c15Op {
			op := c15Op{Kind: c15Proposed}
			if lastBatch != nil && v.rng.Intn(2) == 0 {
				op.Cmds = append(op.Cmds, lastBatch...)
			} else {
				op.Cmds = someCmds(5)
			}
			return op
		}
		for len(ops) < length {
			var batch []c15Op
			switch r := v.rng.Intn(100); {
			case r < 48:
				batch = append(batch, newAdd())
			case r < 52: // a burst of additions: several batches become available at once
				for k := 2 + v.rng.Intn(2*int(bs)+2); k > 0; k-- {
					batch = append(batch, newAdd())
				}
			case r < 63:
				batch = append(batch, newProposed())
			case r < 80:
				batch = append(batch, c15Op{Kind: c15Get})
			case r < 84: // repeated Gets, e.g. after a partial extraction
				for k := 2 + v.rng.Intn(3); k > 0; k-- {
					batch = append(batch, c15Op{Kind: c15Get})
				}
			case r < 88:
				batch = append(batch, c15Op{Kind: c15GetC})
			case r < 91:
				batch = append(batch, c15Op{Kind: c15Contains, Cmds: someCmds(3)})
			default: // Gets that are already waiting when something happens
				sn := c15Snap(shadow)
				nf := 0
				for _, c := range sn.Cache {
					if c.S > sn.Seqs[c.C] {
						nf++
					}
				}
				if uint32(nf) >= bs { // a Get would not wait: just Gets
					batch = append(batch, c15Op{Kind: c15Get}, c15Op{Kind: c15Get})
					break
				}
				w := c15Op{Kind: c15Wake, K: 1 + v.rng.Intn(3), Held: v.rng.Intn(2) == 0, Racing: v.rng.Intn(5) < 2, CancelFirst: v.rng.Intn(2) == 0}
				if !w.Held && v.rng.Intn(6) == 0 {
					w.Xs = []c15Op{newProposed()} // parked Gets and a mark: nothing to race with
				} else {
					for k := 1 + v.rng.Intn(2*int(bs)+2); k > 0; k-- {
						if w.Held && v.rng.Intn(6) == 0 {
							w.Xs = append(w.Xs, newProposed())
						} else {
							w.Xs = append(w.Xs, newAdd())
						}
					}
				}
				batch = append(batch, w)
			}
			for _, op := range batch {
				ops = append(ops, op)
				res := c15Exec(shadow, op)
				if res.Kind == c15Batch {
					lastBatch = res.Batch
				} else if len(res.Batches) > 0 {
					lastBatch = res.Batches[len(res.Batches)-1]
				}
			}
		}
		h.runSeq(stream, bs, ops, true, "seqr")
	}
}

func (h *c15H) edges() {
	v := h.v
	stream := v.Stream("edge", "seq_mismatches", 100)
	const maxU32, maxU64 = ^uint32(0), ^uint64(0)
	A := func(c uint32, s, t uint64) c15Op { return c15Op{Kind: c15Add, Cmds: []c15Cmd{{c, s, t}}} }
	P := func(cs ...c15Cmd) c15Op { return c15Op{Kind: c15Proposed, Cmds: cs} }
	G, GC := c15Op{Kind: c15Get}, c15Op{Kind: c15GetC}
	C := func(cs ...c15Cmd) c15Op { return c15Op{Kind: c15Contains, Cmds: cs} }
	W := func(k int, racing, cancelFirst bool, x c15Op) c15Op {
		return c15Op{Kind: c15Wake, K: k, Racing: racing, CancelFirst: cancelFirst, Xs: []c15Op{x}}
	}
	WB := func(k int, held bool, xs ...c15Op) c15Op { return c15Op{Kind: c15Wake, K: k, Held: held, Xs: xs} }
	nilAdd := c15Op{Kind: c15Add, NilCmd: true}
	nilBatch := c15Op{Kind: c15Proposed, NilBatch: true}
	nilInBatch := c15Op{Kind: c15Proposed, NilCmd: true, Cmds: []c15Cmd{{}, {1, 1, 0}, {}}}
	scripts := []struct {
		bs     uint32
		ops    []c15Op
		oracle bool
	}{
		// sequence number 0 is never fresh; client id 0 is an ordinary client
		{1, []c15Op{A(1, 0, 1), G, A(0, 1, 2), G, A(0, 1, 3), G, P(c15Cmd{0, 1, 0}), A(0, 1, 4), G}, true},
		// nil command, nil batch, nil entries in a batch
		{1, []c15Op{nilAdd, G, nilBatch, A(1, 1, 1), nilInBatch, G, A(1, 2, 2), G}, true},
		{2, []c15Op{nilAdd, A(1, 1, 1), nilAdd, G, A(1, 2, 2), nilBatch, G}, true},
		// extreme values
		{1, []c15Op{A(maxU32, maxU64, 1), G, P(c15Cmd{maxU32, maxU64, 0}), A(maxU32, maxU64, 2), A(maxU32, maxU64-1, 3), G}, true},
		{2, []c15Op{A(maxU32, maxU64-1, 1), A(maxU32, maxU64, 2), P(c15Cmd{maxU32, maxU64 - 1, 0}), G, A(maxU32-1, 1, 3), G, G}, true},
		// batch size far larger than anything added; batch size 2^32-1
		{1000, []c15Op{A(1, 1, 1), A(1, 2, 2), A(2, 1, 3), G, GC}, true},
		{maxU32, []c15Op{A(1, 1, 1), G, P(c15Cmd{1, 1, 0}), G}, true},
		// the same command twice; out-of-order sequence numbers
		{2, []c15Op{A(1, 1, 1), A(1, 1, 2), G, A(1, 1, 3), G}, true},
		{1, []c15Op{A(1, 2, 1), A(1, 1, 2), G, P(c15Cmd{1, 2, 0}), G, A(1, 3, 3), G}, true},
		{2, []c15Op{A(1, 3, 1), A(1, 1, 2), A(1, 2, 3), G, P(c15Cmd{1, 3, 0}, c15Cmd{1, 1, 0}), G, A(1, 4, 4), A(1, 5, 5), G}, true},
		// token present, all cached commands stale: false alarm, then a real batch
		{2, []c15Op{A(1, 1, 1), A(1, 2, 2), P(c15Cmd{1, 2, 0}), G, A(1, 3, 3), G, A(1, 4, 4), G, G}, true},
		{2, []c15Op{A(1, 1, 1), A(2, 1, 2), P(c15Cmd{1, 1, 0}), G, A(2, 2, 3), G, G}, true},
		// two batches become available at once: the re-signal after a successful extraction
		{1, []c15Op{A(1, 1, 1), A(1, 2, 2), A(1, 3, 3), G, G, G, G}, true},
		{2, []c15Op{A(1, 1, 1), A(1, 2, 2), A(1, 3, 3), A(1, 4, 4), A(1, 5, 5), G, G, G, A(1, 6, 6), G}, true},
		// stale entries in front of and between fresh ones; exactly the examined prefix goes
		{2, []c15Op{A(1, 1, 1), A(2, 1, 2), A(1, 2, 3), A(2, 2, 4), A(1, 3, 5), P(c15Cmd{1, 1, 0}, c15Cmd{2, 1, 0}), G, G, A(2, 3, 6), G}, true},
		{2, []c15Op{A(1, 1, 1), A(2, 5, 2), A(1, 2, 3), A(1, 3, 4), P(c15Cmd{1, 2, 0}), G, P(c15Cmd{2, 5, 0}), G, A(1, 4, 5), G}, true},
		// already cancelled contexts: whichever branch the select takes, the batch stays available
		{1, []c15Op{GC, A(1, 1, 1), GC, GC, GC, G}, true},
		{2, []c15Op{A(1, 1, 1), A(1, 2, 2), GC, GC, G, A(1, 3, 3), A(1, 4, 4), GC, G}, true},
		{1, []c15Op{A(1, 1, 1), A(1, 2, 2), GC, G, GC, G, GC, G}, true},
		// Gets that are already waiting: woken by the Add that completes a batch; only one batch for two waiters;
		// a false alarm (stale commands fill the cache) leaves the waiter waiting; cancellation racing with the Add
		{2, []c15Op{A(1, 1, 1), W(1, false, false, A(1, 2, 2)), W(2, false, false, A(1, 3, 3)), W(2, false, false, A(1, 4, 4)), G}, true},
		{1, []c15Op{W(3, false, false, A(1, 1, 1)), W(3, false, false, A(1, 1, 2)), W(1, false, false, P(c15Cmd{1, 1, 0})), W(2, false, false, A(1, 1, 3)), W(2, false, false, A(1, 2, 4))}, true},
		{2, []c15Op{A(1, 1, 1), A(1, 2, 2), P(c15Cmd{1, 2, 0}), W(1, false, false, A(1, 2, 3)), W(1, false, false, A(1, 3, 4)), W(1, false, false, A(1, 4, 5)), G}, true},
		{2, []c15Op{A(1, 1, 1), W(1, true, false, A(1, 2, 2)), G, A(2, 1, 3), W(2, true, true, A(2, 2, 4)), G, G}, true},
		{1, []c15Op{W(1, true, true, A(1, 1, 1)), G, W(1, true, false, A(1, 2, 2)), G, W(3, true, false, A(1, 3, 3)), G}, true},
		{3, []c15Op{A(1, 1, 1), A(2, 1, 2), W(2, true, false, A(1+1<<16, 1, 3)), G, G}, true},
		// several concurrent Gets, a burst that makes several batches available at once, one buffered token:
		// held between "looked at the cache" and "parked" / already parked; more Gets than batches and vice versa
		{1, []c15Op{WB(2, true, A(1, 1, 1), A(1, 2, 2)), G}, true},
		{1, []c15Op{WB(3, true, A(1, 1, 1), A(1, 2, 2), A(2, 1, 3), A(2, 2, 4)), G, G}, true},
		{2, []c15Op{A(1, 1, 1), WB(2, true, A(1, 2, 2), A(1, 3, 3), A(1, 4, 4)), G, A(1, 5, 5), G}, true},
		{2, []c15Op{A(1, 1, 1), A(1, 2, 2), P(c15Cmd{1, 1, 0}), G, WB(3, true, A(2, 1, 3), P(c15Cmd{2, 1, 0}), A(2, 2, 4), A(2, 3, 5), A(1, 3, 6)), G}, true},
		{1, []c15Op{WB(2, false, A(1, 1, 1), A(1, 2, 2)), G, WB(3, false, A(1, 3, 3), A(1, 4, 4), A(1, 5, 5), A(1, 6, 6)), G, G}, true},
		{3, []c15Op{A(1, 1, 1), WB(2, false, A(1, 2, 2), A(1, 3, 3), A(1, 4, 4), A(1, 5, 5), A(1, 6, 6), A(1, 7, 7)), G}, true},
		// ids that agree in their low bits are different clients; sequence numbers that agree in their low 32 bits differ
		{2, []c15Op{A(1, 1, 1), P(c15Cmd{1, 1, 0}), A(1+1<<16, 1, 2), A(1+1<<8, 1, 3), G, A(1+1<<24, 1, 4), A(1+1<<31, 1, 5), G, C(c15Cmd{1 + 1<<16, 1, 0}), C(c15Cmd{1, 1, 0})}, true},
		{1, []c15Op{A(1, 1<<32+1, 1), P(c15Cmd{1, 1, 0}), G, A(1, 1, 2), G, P(c15Cmd{1, 1<<32 + 1, 0}), A(1, 1<<32, 3), A(1, 1<<63, 4), G, C(c15Cmd{1, 1 << 33, 0})}, true},
		// containsDuplicate: empty, all fresh, one stale at each position
		{1, []c15Op{C(), C(c15Cmd{1, 1, 0}), P(c15Cmd{1, 2, 0}), C(c15Cmd{1, 3, 0}, c15Cmd{2, 1, 0}), C(c15Cmd{1, 2, 0}, c15Cmd{2, 1, 0}), C(c15Cmd{2, 1, 0}, c15Cmd{1, 1, 0}), C(c15Cmd{2, 1, 0}, c15Cmd{2, 2, 0}, c15Cmd{1, 2, 0})}, true},
		// batch size 0 is outside the property (sizes >= 1): run only to see that nothing panics
		{0, []c15Op{G, A(1, 1, 1), G, G, P(c15Cmd{1, 1, 0}), G, A(1, 2, 2), G}, false},
	}
	for _, sc := range scripts {
		h.runSeq(stream, sc.bs, sc.ops, sc.oracle, "edge")
	}
	// random sequences biased to boundary values
	vals := []uint64{0, 1, 2, maxU64 - 1, maxU64}
	cls := []uint32{0, 1, maxU32}
	if v.rng.Intn(2) == 0 {
		vals = []uint64{1, 1 << 32, 1<<32 + 1, 1 << 63, maxU64}
		cls = []uint32{1, 1 + 1<<16, 1 + 1<<31}
	}
	for it := 0; it < v.Pick(150, 1500); it++ {
		bs := []uint32{1, 1, 2, 3, maxU32, 0}[v.rng.Intn(6)]
		var ops []c15Op
		for i, n := 0, 4+v.rng.Intn(16); i < n; i++ {
			switch r := v.rng.Intn(12); {
			case r < 5:
				ops = append(ops, A(cls[v.rng.Intn(3)], vals[v.rng.Intn(5)], uint64(i+1)))
			case r == 5:
				ops = append(ops, nilAdd)
			case r < 8:
				ops = append(ops, P(c15Cmd{cls[v.rng.Intn(3)], vals[v.rng.Intn(5)], 0}))
			case r == 8:
				ops = append(ops, []c15Op{nilBatch, nilInBatch}[v.rng.Intn(2)])
			case r < 10:
				ops = append(ops, G)
			case r == 10:
				if bs != 0 {
					ops = append(ops, W(1+v.rng.Intn(2), v.rng.Intn(2) == 0, v.rng.Intn(2) == 0, A(cls[v.rng.Intn(3)], vals[v.rng.Intn(5)], uint64(i+1))))
				}
			default:
				ops = append(ops, GC)
			}
		}
		h.runSeq(stream, bs, ops, bs != 0, "edge")
	}
}

// scale: a long stale prefix.  m = mult x batch_size commands are cached and only THEN marked as proposed
// (a long-time follower that becomes leader), with k fresh commands behind them; Gets until the fresh
// ones are drained, one more Get that must block, further Adds that must complete a batch again.
// One client with increasing sequence numbers, or the same spread over many clients.
func (h *c15H) scale() {
	v := h.v
	stream := v.Stream("scale", "step_mismatches", 24)
	for bs := uint32(1); bs <= 3; bs++ {
		for _, mult := range []int{63, 64, 65, 127, 128, 129, 200, 1000} {
			for variant := 0; variant < 2; variant++ {
				for _, k := range []int{int(bs) - 1, int(bs), 3 * int(bs)} {
					m := mult * int(bs)
					nClients := 1
					if variant == 1 {
						nClients = 37
					}
					cc := NewCommandCache(bs)
					spec := &c15Spec{bs: bs, marked: map[uint32]uint64{}}
					next := map[uint32]uint64{}
					tag := uint64(0)
					add := func(c uint32) c15Cmd {
						next[c]++
						tag++
						return c15Cmd{C: c, S: next[c], T: tag}
					}
					for i := 0; i < m; i++ {
						cmd := add(uint32(1 + i%nClients))
						cc.Add(c15ToCommand(cmd))
						spec.pend = append(spec.pend, cmd)
					}
					var mark []c15Cmd
					for c := 1; c <= nClients; c++ {
						if next[uint32(c)] > 0 {
							mark = append(mark, c15Cmd{C: uint32(c), S: next[uint32(c)]})
						}
					}
					fresh := func(j int) c15Cmd { // behind the prefix: the same clients going on, and new ones
						if j%2 == 0 {
							return add(uint32(1 + j%nClients))
						}
						return add(uint32(1000 + j))
					}
					for j := 0; j < k; j++ {
						cmd := fresh(j)
						cc.Add(c15ToCommand(cmd))
						spec.pend = append(spec.pend, cmd)
					}
					var names []string
					names = append(names, fmt.Sprintf("%d Adds over %d client(s), then %d more", m, nClients, k))
					before := c15Snap(cc)
					batches, blocked, nfail := 0, 0, 0
					step := func(op c15Op) c15Res {
						res := c15Exec(cc, op)
						after := c15Snap(cc)
						names = append(names, c15OpString(op))
						fails := spec.apply(op, res, after)
						nfail += len(fails)
						h.report(fails, map[string]any{"batch_size": bs, "stale_prefix": m, "clients": nClients, "fresh_behind": k, "ops": names, "result": res,
							"cached_after": len(after.Cache), "token_after": after.Ready})
						if res.Kind == c15Batch {
							batches++
						} else if res.Kind == c15Blocked {
							blocked++
						}
						big := len(before.Cache) > 400
						if res.Panic == "" && (!big || op.Kind == c15Get || v.Thorough()) {
							v.Case(stream, fmt.Sprintf("(%s,%s,%s,%s)", c15GState(before), c15GOp(op, res), c15GRes(res), c15GState(after)),
								map[string]any{"batch_size": bs, "stale_prefix": m, "clients": nClients, "fresh_behind": k, "ops": names, "result": res})
							v.Count("scale_kernel_cases")
						}
						before = after
						return res
					}
					step(c15Op{Kind: c15Proposed, Cmds: mark}) // marked after they were cached
					for g := 0; g <= k/int(bs); g++ {
						step(c15Op{Kind: c15Get}) // k/bs batches, then one Get that must block
					}
					for r := k % int(bs); r < int(bs); r++ { // later Adds complete a batch again
						step(c15Op{Kind: c15Add, Cmds: []c15Cmd{fresh(k + r)}})
					}
					step(c15Op{Kind: c15Get})
					step(c15Op{Kind: c15Get})
					v.Seen(fmt.Sprintf("scale bs=%d m=%d clients=%d k=%d", bs, m, nClients, k), true,
						map[string]any{"batch_size": bs, "stale_prefix": m, "clients": nClients, "fresh_behind": k, "batches": batches, "blocked_gets": blocked})
					v.Count("scale_scenarios")
					v.CountN("scale_batches_returned", batches)
					v.CountN("scale_gets_blocked", blocked)
				}
			}
		}
	}
}

func TestVerifC15(t *testing.T) {
	v := verifNew("C15")
	h := &c15H{v: v}
	synctest.Test(t, func(t *testing.T) {
		h.edges()
		h.scale()
		h.exhaustive(v.Pick(6, 7), v.Pick(3, 4), v.Pick(220, 600), v.Pick(4, 5))
		h.sequencesExhaustive(v.Pick(3, 4))
		h.sequencesRandom(v.Pick(1200, 12000))
	})
	v.Close("real CommandCache in a synctest bubble (blocked Get = durably blocked goroutine); step: every transition out of every distinct state reachable by <= D ops over Add/Proposed of 2 clients x seq 1..3 and Get, batch sizes 1..3 (D=6 quick, 7 thorough), oracle on all, kernel on all of depth <= 3/4 plus a hash sample; out of every such state also: Get with an already-cancelled context while the token is present (3 tries, either select branch), 1-2 Gets ALREADY WAITING when an Add arrives, live or with cancel() racing before/after the Add; scale: stale prefixes of {63,64,65,127,128,129,200,1000} x batch size commands marked AFTER they were cached (1 / 37 clients) with batch_size-1, batch_size, 3 x batch_size fresh commands behind them, drained, one more Get, further Adds; seqx/seqr/edge: whole sequences on one object (seqr: client ids agreeing in their low 8/16/24/31 bits, sequence numbers agreeing in their low 32 bits, bursts, repeated Gets, waiting Gets, containsDuplicate; every returned batch gets a junk command appended and is re-read at the end of the sequence); non-trivial = non-empty cache with marks or a Get / a run with both a returned batch and a blocked Get")
}

package hotstuffpb

// Correspondence harness for C12 (wire encoding preserves the meaning of every protocol message).
//
// For every generated protocol object x the real path
//     XToProto -> proto.Marshal -> proto.Unmarshal -> XFromProto
// is run, and the property's own oracle is evaluated on the Go values: Hash(), ToBytes(),
// Participants() and (where cheap) the cert.Authority verdict must be the same before and after.
// Every observation is emitted as a Gallina case (coq/Corr/C12.v) so that the kernel recomputes
// to_pb x, from_pb p, the observables and wf x from the model (coq/Wire/WireModel.v).
// A second stream feeds arbitrary (mutated, boundary) protobuf messages to XFromProto only.

import (
	"bytes"
	"context"
	"crypto/sha256"
	"fmt"
	"io"
	"math"
	"sort"
	"strings"
	"sync"
	"testing"
	"time"

	"github.com/relab/hotstuff"
	"github.com/relab/hotstuff/core"
	"github.com/relab/hotstuff/core/eventloop"
	"github.com/relab/hotstuff/core/logging"
	"github.com/relab/hotstuff/internal/proto/clientpb"
	"github.com/relab/hotstuff/security/blockchain"
	"github.com/relab/hotstuff/security/cert"
	"github.com/relab/hotstuff/security/crypto"
	"github.com/relab/hotstuff/security/crypto/keygen"
	"google.golang.org/protobuf/proto"
	"google.golang.org/protobuf/types/known/timestamppb"
)

// ---------------------------------------------------------------------------------------------
// Gallina emission with a per-case dictionary of byte strings

type c12Emit struct {
	names map[string]string
	defs  []string
	blobs [][]byte
	bls   map[string]string // compressed bytes -> canonical re-encoding (decodable points only)
	blsK  []string
	lite  bool // dumps used only for comparing objects: skip the BLS decoding
}

func c12Lite() *c12Emit {
	e := c12NewEmit()
	e.lite = true
	return e
}

func c12NewEmit() *c12Emit {
	return &c12Emit{names: map[string]string{}, bls: map[string]string{}}
}

func c12Lit(b []byte) string {
	if len(b) == 0 {
		return "[]"
	}
	var sb strings.Builder
	sb.WriteByte('[')
	for i, x := range b {
		if i > 0 {
			sb.WriteByte(';')
		}
		fmt.Fprintf(&sb, "%d", x)
	}
	sb.WriteByte(']')
	return sb.String()
}

// B names a byte string (long ones are bound once per case with let).
func (e *c12Emit) B(b []byte) string {
	if len(b) < 8 {
		return c12Lit(b)
	}
	k := string(b)
	if n, ok := e.names[k]; ok {
		return n
	}
	n := fmt.Sprintf("b%d", len(e.defs))
	e.names[k] = n
	e.defs = append(e.defs, "let "+n+" : bytes := "+c12Lit(b)+" in")
	e.blobs = append(e.blobs, b)
	return n
}

// Cat writes an observed byte string as a concatenation of already named chunks and literals.
// It is a lossless text compression only: the kernel compares the fully expanded bytes.
func (e *c12Emit) Cat(b []byte) string {
	if len(b) < 8 {
		return c12Lit(b)
	}
	if n, ok := e.names[string(b)]; ok {
		return n
	}
	order := make([]int, len(e.blobs))
	for i := range order {
		order[i] = i
	}
	sort.SliceStable(order, func(i, j int) bool { return len(e.blobs[order[i]]) > len(e.blobs[order[j]]) })
	var parts []string
	var lit []byte
	flush := func() {
		if len(lit) > 0 {
			parts = append(parts, c12Lit(lit))
			lit = nil
		}
	}
	for i := 0; i < len(b); {
		matched := false
		for _, bi := range order {
			bl := e.blobs[bi]
			if len(bl) <= len(b)-i && bytes.Equal(b[i:i+len(bl)], bl) {
				flush()
				parts = append(parts, e.names[string(bl)])
				i += len(bl)
				matched = true
				break
			}
		}
		if !matched {
			lit = append(lit, b[i])
			i++
		}
	}
	flush()
	return "(cat [" + strings.Join(parts, "; ") + "])"
}

func (e *c12Emit) noteBLS(sig []byte) {
	if e.lite {
		return
	}
	k := string(sig)
	if _, ok := e.bls[k]; ok {
		return
	}
	e.bls[k] = "" // seen, undecodable unless proven otherwise
	if s, err := crypto.RestoreBLS12AggregateSignature(sig, crypto.Bitfield{}); err == nil && s != nil {
		e.bls[k] = string(s.ToBytes())
		e.blsK = append(e.blsK, k)
	}
}

func (e *c12Emit) table() string {
	items := make([]string, 0, len(e.blsK))
	for _, k := range e.blsK {
		items = append(items, "("+e.B([]byte(k))+", "+e.B([]byte(e.bls[k]))+")")
	}
	return gList(items)
}

func (e *c12Emit) wrap(term string) string {
	if len(e.defs) == 0 {
		return term
	}
	return "(" + strings.Join(e.defs, " ") + " " + term + ")"
}

func c12N(x uint64) string { return fmt.Sprintf("%d", x) }

func c12Short(s string) string {
	if len(s) > 6000 {
		return s[:6000] + " ...(truncated)"
	}
	return s
}
func c12Z(x int64) string {
	if x < 0 {
		return fmt.Sprintf("(%d)%%Z", x)
	}
	return fmt.Sprintf("%d%%Z", x)
}

// ---------------------------------------------------------------------------------------------
// dumps of protocol-side objects

func (e *c12Emit) entries(ids []hotstuff.ID, sigs [][]byte) string {
	items := make([]string, len(ids))
	for i := range ids {
		items[i] = "(" + c12N(uint64(ids[i])) + ", " + e.B(sigs[i]) + ")"
	}
	return gList(items)
}

func (e *c12Emit) sig(s hotstuff.QuorumSignature) string {
	switch ms := s.(type) {
	case nil:
		return "SigNil"
	case crypto.Multi[*crypto.ECDSASignature]:
		ids, bs := []hotstuff.ID{}, [][]byte{}
		for _, x := range ms {
			ids, bs = append(ids, x.Signer()), append(bs, x.ToBytes())
		}
		return "(SigECDSA " + e.entries(ids, bs) + ")"
	case crypto.Multi[*crypto.EDDSASignature]:
		ids, bs := []hotstuff.ID{}, [][]byte{}
		for _, x := range ms {
			ids, bs = append(ids, x.Signer()), append(bs, x.ToBytes())
		}
		return "(SigEDDSA " + e.entries(ids, bs) + ")"
	case *crypto.BLS12AggregateSignature:
		b := ms.ToBytes()
		e.noteBLS(b)
		return "(SigBLS " + e.B(b) + " " + e.B(ms.Bitfield().Bytes()) + ")"
	}
	return fmt.Sprintf("(* unknown signature type %T *) SigNil", s)
}

func (e *c12Emit) qc(q hotstuff.QuorumCert) string {
	h := q.BlockHash()
	return "(mkQC " + e.sig(q.Signature()) + " " + c12N(uint64(q.View())) + " " + e.B(h[:]) + ")"
}

func (e *c12Emit) pc(c hotstuff.PartialCert) string {
	h := c.BlockHash()
	return "(mkPC " + c12N(uint64(c.Signer())) + " " + e.sig(c.Signature()) + " " + e.B(h[:]) + ")"
}

func (e *c12Emit) tc(t hotstuff.TimeoutCert) string {
	return "(mkTC " + e.sig(t.Signature()) + " " + c12N(uint64(t.View())) + ")"
}

func c12SortedIDs(m map[hotstuff.ID]hotstuff.QuorumCert) []hotstuff.ID {
	ids := make([]hotstuff.ID, 0, len(m))
	for id := range m {
		ids = append(ids, id)
	}
	sort.Slice(ids, func(i, j int) bool { return ids[i] < ids[j] })
	return ids
}

func (e *c12Emit) agg(a hotstuff.AggregateQC) string {
	items := []string{}
	for _, id := range c12SortedIDs(a.QCs()) {
		items = append(items, "("+c12N(uint64(id))+", "+e.qc(a.QCs()[id])+")")
	}
	return "(mkAgg " + gList(items) + " " + e.sig(a.Sig()) + " " + c12N(uint64(a.View())) + ")"
}

func (e *c12Emit) sync(s hotstuff.SyncInfo) string {
	q, t, a := "None", "None", "None"
	if x, ok := s.QC(); ok {
		q = "(Some " + e.qc(x) + ")"
	}
	if x, ok := s.TC(); ok {
		t = "(Some " + e.tc(x) + ")"
	}
	if x, ok := s.AggQC(); ok {
		a = "(Some " + e.agg(x) + ")"
	}
	return "(mkSync " + q + " " + t + " " + a + ")"
}

func (e *c12Emit) timeout(m hotstuff.TimeoutMsg) string {
	return "(mkTimeout " + c12N(uint64(m.ID)) + " " + c12N(uint64(m.View)) + " " + e.sig(m.ViewSignature) + " " +
		e.sig(m.MsgSignature) + " " + e.sync(m.SyncInfo) + ")"
}

func c12TS(t time.Time) string {
	return "(" + c12Z(t.Unix()) + ", " + c12Z(int64(t.Nanosecond())) + ")"
}

func (e *c12Emit) block(b *hotstuff.Block) string {
	p := b.Parent()
	return "(mkBlock " + e.B(p[:]) + " " + c12N(uint64(b.Proposer())) + " " + e.B(b.Commands().Marshal()) + " " +
		e.qc(b.QuorumCert()) + " " + c12N(uint64(b.View())) + " " + c12TS(b.Timestamp()) + ")"
}

func (e *c12Emit) proposal(p hotstuff.ProposeMsg) string {
	a := "None"
	if p.AggregateQC != nil {
		a = "(Some " + e.agg(*p.AggregateQC) + ")"
	}
	return "(mkProposal " + c12N(uint64(p.ID)) + " " + e.block(p.Block) + " " + a + ")"
}

// ---------------------------------------------------------------------------------------------
// dumps of protobuf messages (option form: nil pointer = None)

func (e *c12Emit) pbSigInner(s *QuorumSignature) string {
	switch w := s.GetSig().(type) {
	case *QuorumSignature_ECDSASigs:
		if w.ECDSASigs == nil {
			return "PbNone"
		}
		items := []string{}
		for _, x := range w.ECDSASigs.GetSigs() {
			items = append(items, "("+c12N(uint64(x.GetSigner()))+", "+e.B(x.GetSig())+")")
		}
		return "(PbECDSA " + gList(items) + ")"
	case *QuorumSignature_EDDSASigs:
		if w.EDDSASigs == nil {
			return "PbNone"
		}
		items := []string{}
		for _, x := range w.EDDSASigs.GetSigs() {
			items = append(items, "("+c12N(uint64(x.GetSigner()))+", "+e.B(x.GetSig())+")")
		}
		return "(PbEDDSA " + gList(items) + ")"
	case *QuorumSignature_BLS12Sig:
		if w.BLS12Sig == nil {
			return "PbNone"
		}
		e.noteBLS(w.BLS12Sig.GetSig())
		return "(PbBLS " + e.B(w.BLS12Sig.GetSig()) + " " + e.B(w.BLS12Sig.GetParticipants()) + ")"
	}
	return "PbNone"
}

func (e *c12Emit) pbSig(s *QuorumSignature) string {
	if s == nil {
		return "None"
	}
	return "(Some " + e.pbSigInner(s) + ")"
}

func (e *c12Emit) pbQCInner(q *QuorumCert) string {
	return "(mkPbQC " + e.pbSig(q.GetSig()) + " " + c12N(q.GetView()) + " " + e.B(q.GetHash()) + ")"
}
func (e *c12Emit) pbQC(q *QuorumCert) string {
	if q == nil {
		return "None"
	}
	return "(Some " + e.pbQCInner(q) + ")"
}
func (e *c12Emit) pbPC(c *PartialCert) string {
	if c == nil {
		return "None"
	}
	return "(Some (mkPbPC " + e.pbSig(c.GetSig()) + " " + e.B(c.GetHash()) + "))"
}
func (e *c12Emit) pbTC(t *TimeoutCert) string {
	if t == nil {
		return "None"
	}
	return "(Some (mkPbTC " + e.pbSig(t.GetSig()) + " " + c12N(t.GetView()) + "))"
}
func (e *c12Emit) pbAgg(a *AggQC) string {
	if a == nil {
		return "None"
	}
	ids := make([]uint32, 0, len(a.GetQCs()))
	for id := range a.GetQCs() {
		ids = append(ids, id)
	}
	sort.Slice(ids, func(i, j int) bool { return ids[i] < ids[j] })
	items := []string{}
	for _, id := range ids {
		q := a.GetQCs()[id]
		if q == nil {
			q = &QuorumCert{}
		}
		items = append(items, "("+c12N(uint64(id))+", "+e.pbQCInner(q)+")")
	}
	return "(Some (mkPbAgg " + gList(items) + " " + e.pbSig(a.GetSig()) + " " + c12N(a.GetView()) + "))"
}
func (e *c12Emit) pbSync(s *SyncInfo) string {
	if s == nil {
		return "None"
	}
	return "(Some (mkPbSync " + e.pbQC(s.GetQC()) + " " + e.pbTC(s.GetTC()) + " " + e.pbAgg(s.GetAggQC()) + "))"
}
func (e *c12Emit) pbTimeout(m *TimeoutMsg) string {
	if m == nil {
		return "None"
	}
	return "(Some (mkPbTimeout " + c12N(m.GetView()) + " " + e.pbSync(m.GetSyncInfo()) + " " + e.pbSig(m.GetViewSig()) + " " + e.pbSig(m.GetMsgSig()) + "))"
}
func (e *c12Emit) pbBlock(b *Block) string {
	if b == nil {
		return "None"
	}
	ts := "None"
	if b.GetTimestamp() != nil {
		ts = "(Some (" + c12Z(b.GetTimestamp().GetSeconds()) + ", " + c12Z(int64(b.GetTimestamp().GetNanos())) + "))"
	}
	return "(Some (mkPbBlock " + e.B(b.GetParent()) + " " + e.pbQC(b.GetQC()) + " " + c12N(b.GetView()) + " " +
		e.B(b.GetCommands().Marshal()) + " " + c12N(uint64(b.GetProposer())) + " " + ts + "))"
}
func (e *c12Emit) pbProposal(p *Proposal) string {
	if p == nil {
		return "None"
	}
	return "(Some (mkPbProposal " + e.pbBlock(p.GetBlock()) + " " + e.pbAgg(p.GetAggQC()) + "))"
}

// ---------------------------------------------------------------------------------------------
// observables (bytes-to-sign and participants) as the Go methods return them

type c12R struct {
	ok bool
	b  []byte
}
type c12P struct {
	ok  bool
	ids []uint64
}
type c12Obs struct {
	bs []c12R
	ps []c12P
}

func (o c12Obs) add(p c12Obs) c12Obs {
	return c12Obs{append(append([]c12R{}, o.bs...), p.bs...), append(append([]c12P{}, o.ps...), p.ps...)}
}

func c12Safe(f func() []byte) (r c12R) {
	defer func() {
		if recover() != nil {
			r = c12R{}
		}
	}()
	b := f()
	return c12R{true, append([]byte{}, b...)}
}

func c12Parts(s hotstuff.QuorumSignature) (p c12P) {
	if s == nil {
		return c12P{}
	}
	defer func() {
		if recover() != nil {
			p = c12P{}
		}
	}()
	ids := []uint64{}
	s.Participants().ForEach(func(id hotstuff.ID) { ids = append(ids, uint64(id)) })
	return c12P{true, ids}
}

func c12SigBytes(s hotstuff.QuorumSignature) c12R {
	if s == nil {
		return c12R{}
	}
	return c12Safe(s.ToBytes)
}

func c12ObsSig(s hotstuff.QuorumSignature) c12Obs {
	return c12Obs{[]c12R{c12SigBytes(s)}, []c12P{c12Parts(s)}}
}
func c12ObsQC(q hotstuff.QuorumCert) c12Obs {
	return c12Obs{[]c12R{c12Safe(q.ToBytes)}, []c12P{c12Parts(q.Signature())}}
}
func c12ObsPC(c hotstuff.PartialCert) c12Obs {
	return c12Obs{[]c12R{c12Safe(c.ToBytes)}, []c12P{c12Parts(c.Signature()), {true, []uint64{uint64(c.Signer())}}}}
}
func c12ObsTC(t hotstuff.TimeoutCert) c12Obs {
	return c12Obs{[]c12R{c12Safe(t.ToBytes)}, []c12P{c12Parts(t.Signature())}}
}

// the messages VerifyAggregateQC reconstructs and hands to BatchVerify, in ascending id order
func c12ObsAgg(a hotstuff.AggregateQC) c12Obs {
	o := c12Obs{}
	ids := c12SortedIDs(a.QCs())
	idl := []uint64{}
	for _, id := range ids {
		qc := a.QCs()[id]
		o.bs = append(o.bs, c12Safe(hotstuff.TimeoutMsg{ID: id, View: a.View(), SyncInfo: hotstuff.NewSyncInfoWith(qc)}.ToBytes))
		idl = append(idl, uint64(id))
	}
	o.ps = append(o.ps, c12Parts(a.Sig()), c12P{true, idl})
	for _, id := range ids {
		o.ps = append(o.ps, c12Parts(a.QCs()[id].Signature()))
	}
	return o
}
func c12ObsSync(s hotstuff.SyncInfo) c12Obs {
	o := c12Obs{}
	if x, ok := s.QC(); ok {
		o = o.add(c12ObsQC(x))
	}
	if x, ok := s.TC(); ok {
		o = o.add(c12ObsTC(x))
	}
	if x, ok := s.AggQC(); ok {
		o = o.add(c12ObsAgg(x))
	}
	return o
}
func c12ObsTimeout(m hotstuff.TimeoutMsg) c12Obs {
	return c12Obs{[]c12R{c12Safe(m.ToBytes)}, []c12P{c12Parts(m.ViewSignature), c12Parts(m.MsgSignature)}}.add(c12ObsSync(m.SyncInfo))
}
func c12ObsBlock(b *hotstuff.Block) c12Obs {
	return c12Obs{[]c12R{c12Safe(b.ToBytes)}, []c12P{c12Parts(b.QuorumCert().Signature())}}
}
func c12ObsProposal(p hotstuff.ProposeMsg) c12Obs {
	o := c12ObsBlock(p.Block).add(c12Obs{nil, []c12P{{true, []uint64{uint64(p.ID)}}}})
	if p.AggregateQC != nil {
		o = o.add(c12ObsAgg(*p.AggregateQC))
	}
	return o
}

func (e *c12Emit) obs(o c12Obs) string {
	bs := make([]string, len(o.bs))
	for i, r := range o.bs {
		if r.ok {
			bs[i] = "(Ok " + e.Cat(r.b) + ")"
		} else {
			bs[i] = "Panic"
		}
	}
	ps := make([]string, len(o.ps))
	for i, p := range o.ps {
		if p.ok {
			ids := make([]string, len(p.ids))
			for j, id := range p.ids {
				ids[j] = c12N(id)
			}
			ps[i] = "(Ok " + gList(ids) + ")"
		} else {
			ps[i] = "Panic"
		}
	}
	return "(" + gList(bs) + ", " + gList(ps) + ")"
}

// first difference between two observation vectors ("" if equal)
func c12ObsDiff(a, b c12Obs) string {
	if len(a.bs) != len(b.bs) || len(a.ps) != len(b.ps) {
		return "shape"
	}
	for i := range a.bs {
		if a.bs[i].ok != b.bs[i].ok || !bytes.Equal(a.bs[i].b, b.bs[i].b) {
			return "bytes-to-sign-changed"
		}
	}
	for i := range a.ps {
		if a.ps[i].ok != b.ps[i].ok || fmt.Sprint(a.ps[i].ids) != fmt.Sprint(b.ps[i].ids) {
			return "participants-changed"
		}
	}
	return ""
}

// ---------------------------------------------------------------------------------------------
// replicas with real keys

type c12Sender struct{}

func (c12Sender) NewView(hotstuff.ID, hotstuff.SyncInfo) error  { return nil }
func (c12Sender) Vote(hotstuff.ID, hotstuff.PartialCert) error  { return nil }
func (c12Sender) Timeout(hotstuff.TimeoutMsg)                   {}
func (c12Sender) Propose(*hotstuff.ProposeMsg)                  {}
func (c12Sender) Sub([]hotstuff.ID) (core.Sender, error)        { return c12Sender{}, nil }
func (c12Sender) RequestBlock(context.Context, hotstuff.Hash) (*hotstuff.Block, bool) {
	return nil, false
}

type c12Universe struct {
	scheme string
	n      int
	ids    []hotstuff.ID     // replica ids (contiguous 1..n, or sparse / large / agreeing in their low bits)
	auths  []*cert.Authority // auths[i] belongs to replica ids[i]
	aggAuth *cert.Authority  // replica 1 again (same keys)
	chain  *blockchain.Blockchain
	blocks []*hotstuff.Block // stored, certified chain (blocks[0] = genesis)
	pcs    map[string]hotstuff.PartialCert
}

func c12NewUniverse(t *testing.T, scheme string, ids []hotstuff.ID) *c12Universe {
	n := len(ids)
	u := &c12Universe{scheme: scheme, n: n, ids: ids, pcs: map[string]hotstuff.PartialCert{}}
	logger := logging.NewWithDest(io.Discard, "c12")
	el := eventloop.New(logger, 16)
	u.chain = blockchain.New(el, logger, c12Sender{})
	keys := make([]hotstuff.PrivateKey, n)
	infos := make([]*hotstuff.ReplicaInfo, n)
	for i := 0; i < n; i++ {
		var err error
		switch scheme {
		case crypto.NameECDSA:
			keys[i], err = keygen.GenerateECDSAPrivateKey()
		case crypto.NameEDDSA:
			_, keys[i], err = keygen.GenerateED25519Key()
		case crypto.NameBLS12:
			keys[i], err = crypto.GenerateBLS12PrivateKey()
		}
		if err != nil {
			t.Fatal(err)
		}
		infos[i] = &hotstuff.ReplicaInfo{ID: ids[i], PubKey: keys[i].Public()}
	}
	for i := 0; i < n; i++ {
		cfg := core.NewRuntimeConfig(ids[i], keys[i])
		for _, inf := range infos {
			cfg.AddReplica(inf)
		}
		base, err := crypto.New(cfg, scheme)
		if err != nil {
			t.Fatal(err)
		}
		if err := cfg.SetReplicaMetadata(ids[i], cfg.ConnectionMetadata()); err != nil {
			t.Fatal(err)
		}
		u.auths = append(u.auths, cert.NewAuthority(cfg, u.chain, base))
	}
	// a short certified chain, stored in the verifier's block store
	u.blocks = []*hotstuff.Block{hotstuff.GetGenesis()}
	qc := hotstuff.NewQuorumCert(nil, 0, hotstuff.GetGenesis().Hash())
	all := make([]int, n)
	for i := range all {
		all[i] = i
	}
	for v := 1; v <= 3; v++ {
		parent := u.blocks[len(u.blocks)-1]
		b := hotstuff.NewBlock(parent.Hash(), qc, c12Batch(v, v), hotstuff.View(v), ids[v%n])
		u.chain.Store(b)
		u.blocks = append(u.blocks, b)
		qc = u.qcFor(b, all)
	}
	return u
}

func c12Batch(ncmd, salt int) *clientpb.Batch {
	b := &clientpb.Batch{}
	for i := 0; i < ncmd; i++ {
		data := []byte(fmt.Sprintf("cmd-%d-%d", salt, i))
		if i%3 == 2 {
			data = nil
		}
		b.Commands = append(b.Commands, &clientpb.Command{ClientID: uint32(salt*7 + i), SequenceNumber: uint64(i) << uint(8*(i%8)), Data: data})
	}
	return b
}

func (u *c12Universe) pcFor(b *hotstuff.Block, i int) hotstuff.PartialCert {
	k := fmt.Sprintf("%s/%d", b.Hash().String(), i)
	if c, ok := u.pcs[k]; ok {
		return c
	}
	c, err := u.auths[i].CreatePartialCert(b)
	if err != nil {
		panic(err)
	}
	u.pcs[k] = c
	return c
}

// qcFor builds a certificate for b signed by the given replicas (0-based), in that order.
func (u *c12Universe) qcFor(b *hotstuff.Block, signers []int) hotstuff.QuorumCert {
	if len(signers) == 1 {
		return hotstuff.NewQuorumCert(u.pcFor(b, signers[0]).Signature(), b.View(), b.Hash())
	}
	pcs := make([]hotstuff.PartialCert, len(signers))
	for j, i := range signers {
		pcs[j] = u.pcFor(b, i)
	}
	qc, err := u.auths[signers[0]].CreateQuorumCert(b, pcs)
	if err != nil {
		panic(err)
	}
	return qc
}

func (u *c12Universe) sign(i int, msg []byte) hotstuff.QuorumSignature {
	s, err := u.auths[i].Sign(msg)
	if err != nil {
		panic(err)
	}
	return s
}

// timeoutsFor builds one timeout message per signer; qcs[j] (may be nil) is signer j's high QC.
func (u *c12Universe) timeoutsFor(view hotstuff.View, signers []int, qcs []*hotstuff.QuorumCert, msgSig bool) []hotstuff.TimeoutMsg {
	out := make([]hotstuff.TimeoutMsg, len(signers))
	for j, i := range signers {
		m := hotstuff.TimeoutMsg{ID: u.ids[i], View: view, ViewSignature: u.sign(i, view.ToBytes()), SyncInfo: hotstuff.NewSyncInfo()}
		if qcs != nil && qcs[j] != nil {
			m.SyncInfo = hotstuff.NewSyncInfoWith(*qcs[j])
		}
		if msgSig {
			m.MsgSignature = u.sign(i, m.ToBytes())
		}
		out[j] = m
	}
	return out
}

func (u *c12Universe) tcFor(view hotstuff.View, signers []int) hotstuff.TimeoutCert {
	tos := u.timeoutsFor(view, signers, nil, false)
	if len(signers) == 1 && view != 0 {
		return hotstuff.NewTimeoutCert(tos[0].ViewSignature, view)
	}
	tc, err := u.auths[signers[0]].CreateTimeoutCert(view, tos)
	if err != nil {
		panic(err)
	}
	return tc
}

func (u *c12Universe) aggFor(view hotstuff.View, signers []int, qcs []*hotstuff.QuorumCert) hotstuff.AggregateQC {
	tos := u.timeoutsFor(view, signers, qcs, true)
	if len(signers) == 1 {
		m := map[hotstuff.ID]hotstuff.QuorumCert{}
		if q, ok := tos[0].SyncInfo.QC(); ok {
			m[tos[0].ID] = q
		}
		return hotstuff.NewAggregateQC(m, tos[0].MsgSignature, view)
	}
	a, err := u.auths[signers[0]].CreateAggregateQC(view, tos)
	if err != nil {
		panic(err)
	}
	return a
}

// ---------------------------------------------------------------------------------------------
// the nine object kinds

type c12Ctx struct {
	peer  hotstuff.ID
	kauri bool
}

type c12Kind struct {
	name    string
	toPb    func(x any) proto.Message
	newPb   func() proto.Message
	fromPb  func(pb proto.Message, c c12Ctx) any // the receiving side; may panic
	dump    func(e *c12Emit, x any) string
	dumpPb  func(e *c12Emit, pb proto.Message) string
	obs     func(x any) c12Obs
	wrapped bool                                  // model result type is `result X`
	ctxArgs func(c c12Ctx, rt bool) string        // extra constructor arguments
	verdict func(a *cert.Authority, x any) string // "" = not applicable
	hash    func(x any) (hotstuff.Hash, []byte, bool)
}

func c12Verdict(f func() error) (v string) {
	defer func() {
		if recover() != nil {
			v = "panic"
		}
	}()
	if err := f(); err != nil {
		return "reject"
	}
	return "accept"
}

// the three lines of server.go serviceImpl.Propose / Timeout that sit between the wire and the
// event loop (harness/server/c12_test.go checks this replica against the real handlers)
type c12Dropped struct{} // the handler delivered nothing

func c12ServerPropose(p *Proposal, c c12Ctx) any {
	if p.GetBlock() == nil {
		return c12Dropped{}
	}
	id := c.peer
	if c.kauri {
		id = p.ProposerID()
	}
	p.Block.Proposer = uint32(id)
	m := ProposalFromProto(p)
	m.ID = id
	return m
}
func c12ServerTimeout(p *TimeoutMsg, c c12Ctx) hotstuff.TimeoutMsg {
	m := TimeoutMsgFromProto(p)
	m.ID = c.peer
	return m
}

func c12Kinds() map[string]*c12Kind {
	noCtx := func(c12Ctx, bool) string { return "" }
	ks := []*c12Kind{
		{name: "Sig",
			toPb:   func(x any) proto.Message { s, _ := x.(hotstuff.QuorumSignature); return QuorumSignatureToProto(s) },
			newPb:  func() proto.Message { return &QuorumSignature{} },
			fromPb: func(pb proto.Message, _ c12Ctx) any { return QuorumSignatureFromProto(pb.(*QuorumSignature)) },
			dump:   func(e *c12Emit, x any) string { s, _ := x.(hotstuff.QuorumSignature); return e.sig(s) },
			dumpPb: func(e *c12Emit, pb proto.Message) string { return e.pbSig(pb.(*QuorumSignature)) },
			obs:    func(x any) c12Obs { s, _ := x.(hotstuff.QuorumSignature); return c12ObsSig(s) },
			ctxArgs: noCtx},
		{name: "PC", wrapped: true,
			toPb:   func(x any) proto.Message { return PartialCertToProto(x.(hotstuff.PartialCert)) },
			newPb:  func() proto.Message { return &PartialCert{} },
			fromPb: func(pb proto.Message, _ c12Ctx) any { return PartialCertFromProto(pb.(*PartialCert)) },
			dump:   func(e *c12Emit, x any) string { return e.pc(x.(hotstuff.PartialCert)) },
			dumpPb: func(e *c12Emit, pb proto.Message) string { return e.pbPC(pb.(*PartialCert)) },
			obs:    func(x any) c12Obs { return c12ObsPC(x.(hotstuff.PartialCert)) },
			ctxArgs: noCtx,
			verdict: func(a *cert.Authority, x any) string {
				return c12Verdict(func() error { return a.VerifyPartialCert(x.(hotstuff.PartialCert)) })
			}},
		{name: "QC",
			toPb:   func(x any) proto.Message { return QuorumCertToProto(x.(hotstuff.QuorumCert)) },
			newPb:  func() proto.Message { return &QuorumCert{} },
			fromPb: func(pb proto.Message, _ c12Ctx) any { return QuorumCertFromProto(pb.(*QuorumCert)) },
			dump:   func(e *c12Emit, x any) string { return e.qc(x.(hotstuff.QuorumCert)) },
			dumpPb: func(e *c12Emit, pb proto.Message) string { return e.pbQC(pb.(*QuorumCert)) },
			obs:    func(x any) c12Obs { return c12ObsQC(x.(hotstuff.QuorumCert)) },
			ctxArgs: noCtx,
			verdict: func(a *cert.Authority, x any) string {
				return c12Verdict(func() error { return a.VerifyQuorumCert(x.(hotstuff.QuorumCert)) })
			}},
		{name: "TC",
			toPb:   func(x any) proto.Message { return TimeoutCertToProto(x.(hotstuff.TimeoutCert)) },
			newPb:  func() proto.Message { return &TimeoutCert{} },
			fromPb: func(pb proto.Message, _ c12Ctx) any { return TimeoutCertFromProto(pb.(*TimeoutCert)) },
			dump:   func(e *c12Emit, x any) string { return e.tc(x.(hotstuff.TimeoutCert)) },
			dumpPb: func(e *c12Emit, pb proto.Message) string { return e.pbTC(pb.(*TimeoutCert)) },
			obs:    func(x any) c12Obs { return c12ObsTC(x.(hotstuff.TimeoutCert)) },
			ctxArgs: noCtx,
			verdict: func(a *cert.Authority, x any) string {
				return c12Verdict(func() error { return a.VerifyTimeoutCert(x.(hotstuff.TimeoutCert)) })
			}},
		{name: "Agg",
			toPb:   func(x any) proto.Message { return AggregateQCToProto(x.(hotstuff.AggregateQC)) },
			newPb:  func() proto.Message { return &AggQC{} },
			fromPb: func(pb proto.Message, _ c12Ctx) any { return AggregateQCFromProto(pb.(*AggQC)) },
			dump:   func(e *c12Emit, x any) string { return e.agg(x.(hotstuff.AggregateQC)) },
			dumpPb: func(e *c12Emit, pb proto.Message) string { return e.pbAgg(pb.(*AggQC)) },
			obs:    func(x any) c12Obs { return c12ObsAgg(x.(hotstuff.AggregateQC)) },
			ctxArgs: noCtx,
			verdict: func(a *cert.Authority, x any) string {
				var high hotstuff.QuorumCert
				v := c12Verdict(func() (err error) { high, err = a.VerifyAggregateQC(x.(hotstuff.AggregateQC)); return })
				if v == "accept" {
					v += fmt.Sprintf(":high=%d/%s", high.View(), high.BlockHash().SmallString())
				}
				return v
			}},
		{name: "Sync",
			toPb:   func(x any) proto.Message { return SyncInfoToProto(x.(hotstuff.SyncInfo)) },
			newPb:  func() proto.Message { return &SyncInfo{} },
			fromPb: func(pb proto.Message, _ c12Ctx) any { return SyncInfoFromProto(pb.(*SyncInfo)) },
			dump:   func(e *c12Emit, x any) string { return e.sync(x.(hotstuff.SyncInfo)) },
			dumpPb: func(e *c12Emit, pb proto.Message) string { return e.pbSync(pb.(*SyncInfo)) },
			obs:    func(x any) c12Obs { return c12ObsSync(x.(hotstuff.SyncInfo)) },
			ctxArgs: noCtx},
		{name: "Timeout",
			toPb:   func(x any) proto.Message { return TimeoutMsgToProto(x.(hotstuff.TimeoutMsg)) },
			newPb:  func() proto.Message { return &TimeoutMsg{} },
			fromPb: func(pb proto.Message, c c12Ctx) any { return c12ServerTimeout(pb.(*TimeoutMsg), c) },
			dump:   func(e *c12Emit, x any) string { return e.timeout(x.(hotstuff.TimeoutMsg)) },
			dumpPb: func(e *c12Emit, pb proto.Message) string { return e.pbTimeout(pb.(*TimeoutMsg)) },
			obs:    func(x any) c12Obs { return c12ObsTimeout(x.(hotstuff.TimeoutMsg)) },
			ctxArgs: func(c c12Ctx, rt bool) string {
				if rt {
					return ""
				}
				return " " + c12N(uint64(c.peer))
			}},
		{name: "Block", wrapped: true,
			toPb:   func(x any) proto.Message { return BlockToProto(x.(*hotstuff.Block)) },
			newPb:  func() proto.Message { return &Block{} },
			fromPb: func(pb proto.Message, _ c12Ctx) any { return BlockFromProto(pb.(*Block)) },
			dump:   func(e *c12Emit, x any) string { return e.block(x.(*hotstuff.Block)) },
			dumpPb: func(e *c12Emit, pb proto.Message) string { return e.pbBlock(pb.(*Block)) },
			obs:    func(x any) c12Obs { return c12ObsBlock(x.(*hotstuff.Block)) },
			ctxArgs: noCtx,
			hash: func(x any) (hotstuff.Hash, []byte, bool) {
				b := x.(*hotstuff.Block)
				return b.Hash(), b.ToBytes(), true
			}},
		{name: "Proposal", wrapped: true,
			toPb:   func(x any) proto.Message { return ProposalToProto(x.(hotstuff.ProposeMsg)) },
			newPb:  func() proto.Message { return &Proposal{} },
			fromPb: func(pb proto.Message, c c12Ctx) any { return c12ServerPropose(pb.(*Proposal), c) },
			dump:   func(e *c12Emit, x any) string { return e.proposal(x.(hotstuff.ProposeMsg)) },
			dumpPb: func(e *c12Emit, pb proto.Message) string { return e.pbProposal(pb.(*Proposal)) },
			obs:    func(x any) c12Obs { return c12ObsProposal(x.(hotstuff.ProposeMsg)) },
			ctxArgs: func(c c12Ctx, rt bool) string {
				if rt {
					return " " + gBool(c.kauri)
				}
				return " " + gBool(c.kauri) + " " + c12N(uint64(c.peer))
			},
			hash: func(x any) (hotstuff.Hash, []byte, bool) {
				b := x.(hotstuff.ProposeMsg).Block
				return b.Hash(), b.ToBytes(), true
			}},
	}
	m := map[string]*c12Kind{}
	for _, k := range ks {
		m[k.name] = k
	}
	return m
}

// ---------------------------------------------------------------------------------------------
// running one case

type c12H struct {
	v      *verifOut
	kinds  map[string]*c12Kind
	rt     *verifStream
	fp     *verifStream
	blsVer int
	kept   []c12Kept // the last few decoded objects / encoded messages, re-examined after later conversions
	hop2   int
}

// c12Kept remembers a decoded object and an encoded message together with what they looked like when
// they were produced: a later, unrelated conversion must not change them (no shared scratch state).
type c12Kept struct {
	kind    string
	y       any
	dump    string
	obs     c12Obs
	pb      proto.Message
	pbBytes []byte
	meta    map[string]any
}

func c12Det(m proto.Message) []byte {
	b, _ := proto.MarshalOptions{Deterministic: true}.Marshal(m)
	return b
}

func (h *c12H) retain(kind string, y any, pb proto.Message, meta map[string]any) {
	k := h.kinds[kind]
	kp := c12Kept{kind: kind, y: y, pb: pb, meta: meta}
	if y != nil {
		kp.dump, kp.obs = k.dump(c12Lite(), y), k.obs(y)
	}
	if pb != nil {
		kp.pbBytes = c12Det(pb)
	}
	h.kept = append(h.kept, kp)
	if len(h.kept) > 3 {
		h.kept = h.kept[1:]
	}
}

// checkKept re-examines the retained objects after another conversion has run.
func (h *c12H) checkKept(after string) {
	keep := h.kept[:0]
	for _, kp := range h.kept {
		k := h.kinds[kp.kind]
		ok := true
		in := func() map[string]any {
			m := map[string]any{"changed_after_converting_a": after}
			for a, b := range kp.meta {
				m[a] = b
			}
			return m
		}
		if kp.y != nil {
			d := k.dump(c12Lite(), kp.y)
			if d != kp.dump || c12ObsDiff(kp.obs, k.obs(kp.y)) != "" {
				ok = false
				m := in()
				m["object_when_decoded"], m["object_now"] = c12Short(kp.dump), c12Short(d)
				h.v.Oracle(false, "wire."+strings.ToLower(kp.kind)+":decoded-object-changed-by-later-conversion",
					"an object decoded earlier changed when another message was converted (shared state between conversions)", m)
			}
		}
		if kp.pb != nil && !bytes.Equal(c12Det(kp.pb), kp.pbBytes) {
			ok = false
			h.v.Oracle(false, "wire."+strings.ToLower(kp.kind)+":encoded-message-changed-by-later-conversion",
				"a protobuf message produced earlier changed when another object was converted (shared state between conversions)", in())
		}
		if ok {
			keep = append(keep, kp)
		}
	}
	h.kept = keep
}

func c12Wire(k *c12Kind, pb proto.Message) (proto.Message, error) {
	bs, err := proto.Marshal(pb)
	if err != nil {
		return nil, err
	}
	out := k.newPb()
	if err := proto.Unmarshal(bs, out); err != nil {
		return nil, err
	}
	return out, nil
}

// c12None: the receiving side produced no object (nil block / dropped message); model: Reject
func c12None(y any) bool {
	switch b := y.(type) {
	case c12Dropped:
		return true
	case *hotstuff.Block:
		return b == nil
	}
	return false
}

func c12Catch(f func() any) (y any, panicked bool) {
	defer func() {
		if recover() != nil {
			y, panicked = nil, true
		}
	}()
	return f(), false
}

// roundTrip runs x through the real path and evaluates the oracle; meta describes how x was made.
func (h *c12H) roundTrip(u *c12Universe, kind string, x any, c c12Ctx, meta map[string]any) {
	k, v := h.kinds[kind], h.v
	meta["kind"], meta["stream"] = kind, "roundtrip"
	if u != nil {
		meta["scheme"] = u.scheme
	}
	v.Count("rt." + kind)
	if u != nil {
		v.Count("scheme." + u.scheme)
	}
	fpBase := "wire." + strings.ToLower(kind) + ":"
	xs0, ox := k.dump(c12Lite(), x), k.obs(x) // the sender's object BEFORE it is encoded
	pb1 := k.toPb(x)
	if !pb1.ProtoReflect().IsValid() { // a nil message is the empty message on the wire
		pb1 = k.newPb()
	}
	if pb1b := k.toPb(x); pb1b.ProtoReflect().IsValid() && !proto.Equal(pb1, pb1b) {
		v.Oracle(false, fpBase+"encoding-not-repeatable", "XToProto of the same object twice gives different messages", meta)
	}
	pb2, err := c12Wire(k, pb1)
	if err != nil {
		v.Oracle(false, fpBase+"marshal-error", err.Error(), meta)
		return
	}
	if !proto.Equal(pb1, pb2) {
		v.Oracle(false, fpBase+"protobuf-roundtrip-not-equal", "proto.Unmarshal(proto.Marshal(m)) differs from m (trusted library assumption)", meta)
	}
	pbForDump := proto.Clone(pb2)
	y, panicked := c12Catch(func() any { return k.fromPb(pb2, c) })
	h.checkKept(kind)
	e := c12NewEmit()
	xs := k.dump(e, x)
	ps := k.dumpPb(e, pbForDump)
	if xs != xs0 || c12ObsDiff(ox, k.obs(x)) != "" {
		m := map[string]any{"object_before_encoding": c12Short(xs0), "object_after_encoding": c12Short(xs)}
		for a, b := range meta {
			m[a] = b
		}
		v.Oracle(false, fpBase+"sender-object-changed-by-encoding", "XToProto changed the object it was given", m)
	}
	key := kind + "|" + xs + "|" + k.ctxArgs(c, true)
	nontrivial := len(ox.ps) > 0 && ox.ps[0].ok && len(ox.ps[0].ids) >= 1
	fresh := v.Seen(key, nontrivial, meta)
	if panicked {
		v.Oracle(false, fpBase+"panic-on-wellformed-object", "XFromProto panicked on the wire form of a Go-constructed object", meta)
		if k.wrapped {
			v.Case(h.rt, e.wrap("(RT_"+kind+" "+e.table()+k.ctxArgs(c, true)+" "+xs+" "+ps+" Panic "+e.obs(ox)+" ([], []))"), meta)
		}
		return
	}
	if c12None(y) {
		v.Oracle(false, fpBase+"object-lost", "the receiving side produced no object from the wire form of a Go-constructed object", meta)
		v.Case(h.rt, e.wrap("(RT_"+kind+" "+e.table()+k.ctxArgs(c, true)+" "+xs+" "+ps+" Reject "+e.obs(ox)+" ([], []))"), meta)
		return
	}
	oy := k.obs(y)
	ys := k.dump(e, y)
	if k.wrapped {
		ys = "(Ok " + ys + ")"
	}
	// ---- the property's oracle on the implementation ----
	ok := true
	fail := func() map[string]any { // the concrete object goes into the replay
		m := map[string]any{}
		for a, b := range meta {
			m[a] = b
		}
		m["object_before"], m["object_after"] = c12Short(e.wrap(xs)), c12Short(e.wrap(ys))
		return m
	}
	if d := c12ObsDiff(ox, oy); d != "" {
		ok = false
		v.Oracle(false, fpBase+d, "observable differs before/after ToProto->Marshal->Unmarshal->FromProto", fail())
	}
	if k.hash != nil {
		hx, bx, _ := k.hash(x)
		hy, by, _ := k.hash(y)
		if hx != hy {
			ok = false
			v.Oracle(false, fpBase+"hash-changed", fmt.Sprintf("Hash() %s before, %s after the round trip", hx.SmallString(), hy.SmallString()), fail())
		}
		if sha256.Sum256(bx) != hx || sha256.Sum256(by) != hy {
			ok = false
			v.Oracle(false, fpBase+"hash-not-of-bytes", "Hash() is not SHA-256 of ToBytes()", fail())
		}
	}
	if k.verdict != nil && u != nil {
		run := u.scheme != crypto.NameBLS12
		if !run {
			h.blsVer++
			run = h.blsVer%4 == 0
		}
		if run {
			vx, vy := k.verdict(u.auths[0], x), k.verdict(u.auths[0], y)
			v.Count("verdict." + strings.SplitN(vx, ":", 2)[0])
			if vx == "panic" && v.counts["verdict.panic"] <= 3 {
				v.Note(fmt.Sprintf("info (C10 territory): cert.Authority panicked verifying a Go-constructed %s (%v, scheme %s); same before and after the round trip", kind, meta["what"], u.scheme))
			}
			if vx != vy {
				ok = false
				v.Oracle(false, fpBase+"verdict-changed", "cert.Authority verdict "+vx+" before, "+vy+" after the round trip", fail())
			}
		}
	}
	// ---- second hop: the decoded object is relayed / served again (fetch replies, Kauri) ----
	pbY := k.toPb(y)
	if !pbY.ProtoReflect().IsValid() {
		pbY = k.newPb()
	}
	if pbY2, err := c12Wire(k, pbY); err == nil {
		pbYDump := proto.Clone(pbY2)
		z, zp := c12Catch(func() any { return k.fromPb(pbY2, c) })
		switch {
		case zp || c12None(z):
			ok = false
			v.Oracle(false, fpBase+"second-hop-object-lost", "re-encoding the decoded object and decoding it again panicked or gave nothing", fail())
		default:
			oz := k.obs(z)
			if d := c12ObsDiff(ox, oz); d != "" {
				ok = false
				v.Oracle(false, fpBase+"second-hop-"+d, "observable differs after the decoded object was re-encoded and decoded again", fail())
			}
			if k.hash != nil {
				hx, _, _ := k.hash(x)
				if hz, _, _ := k.hash(z); hx != hz {
					ok = false
					v.Oracle(false, fpBase+"second-hop-hash-changed", "Hash() differs after the decoded object was re-encoded and decoded again", fail())
				}
			}
			if h.hop2++; fresh && h.hop2%5 == 0 { // the relay's own round trip as a kernel case
				e2 := c12NewEmit()
				ys2 := k.dump(e2, y)
				ps2 := k.dumpPb(e2, pbYDump)
				zs := k.dump(e2, z)
				if k.wrapped {
					zs = "(Ok " + zs + ")"
				}
				m2 := map[string]any{"second_hop": true}
				for a, b := range meta {
					m2[a] = b
				}
				v.Count("rt.second-hop-cases")
				v.Case(h.rt, e2.wrap("(RT_"+kind+" "+e2.table()+k.ctxArgs(c, true)+" "+ys2+" "+ps2+" "+zs+" "+e2.obs(oy)+" "+e2.obs(oz)+")"), m2)
			}
		}
	}
	if ok {
		v.Oracle(true, "", "", nil)
	}
	h.retain(kind, y, pb1, meta)
	if fresh {
		v.Case(h.rt, e.wrap("(RT_"+kind+" "+e.table()+k.ctxArgs(c, true)+" "+xs+" "+ps+" "+ys+" "+e.obs(ox)+" "+e.obs(oy)+")"), meta)
	}
}

// fromPbOnly feeds an arbitrary protobuf message (after a real Marshal/Unmarshal) to XFromProto.
func (h *c12H) fromPbOnly(kind string, pb proto.Message, c c12Ctx, meta map[string]any) {
	k, v := h.kinds[kind], h.v
	meta["kind"], meta["stream"] = kind, "frompb"
	v.Count("fp." + kind)
	pb2, err := c12Wire(k, pb)
	if err != nil {
		v.Count("fp.marshal-error")
		return
	}
	pbForDump := proto.Clone(pb2)
	y, panicked := c12Catch(func() any { return k.fromPb(pb2, c) })
	h.checkKept(kind)
	e := c12NewEmit()
	ps := k.dumpPb(e, pbForDump)
	v.Seen("fp|"+kind+"|"+ps+k.ctxArgs(c, false), true, nil)
	if panicked {
		v.Count("fp.panic." + kind)
		if !k.wrapped {
			v.Oracle(false, "wire."+strings.ToLower(kind)+":unmodelled-panic", "XFromProto panicked where the model has no panic", meta)
			return
		}
		v.Case(h.fp, e.wrap("(FP_"+kind+" "+e.table()+k.ctxArgs(c, false)+" "+ps+" Panic ([], []))"), meta)
		return
	}
	if c12None(y) {
		v.Count("fp.none." + kind)
		v.Case(h.fp, e.wrap("(FP_"+kind+" "+e.table()+k.ctxArgs(c, false)+" "+ps+" Reject ([], []))"), meta)
		return
	}
	ys := k.dump(e, y)
	if k.wrapped {
		ys = "(Ok " + ys + ")"
	}
	oy := k.obs(y)
	if k.hash != nil {
		hy, by, _ := k.hash(y)
		v.Oracle(sha256.Sum256(by) == hy, "wire."+strings.ToLower(kind)+":hash-not-of-bytes", "Hash() of a decoded block is not SHA-256 of its ToBytes()", meta)
	}
	h.retain(kind, y, nil, meta)
	v.Case(h.fp, e.wrap("(FP_"+kind+" "+e.table()+k.ctxArgs(c, false)+" "+ps+" "+ys+" "+e.obs(oy)+")"), meta)
}

// fromPbNil calls XFromProto on a nil message pointer (what the nil-safe getters hand down for an
// absent sub-message).
func (h *c12H) fromPbNil(kind string, nilMsg proto.Message) {
	k, v := h.kinds[kind], h.v
	meta := map[string]any{"kind": kind, "stream": "frompb", "gen": "nil message pointer"}
	v.Count("fp.nil." + kind)
	y, panicked := c12Catch(func() any { return k.fromPb(nilMsg, c12Ctx{}) })
	e := c12NewEmit()
	v.Seen("fpnil|"+kind, true, nil)
	switch {
	case panicked && k.wrapped:
		v.Case(h.fp, "(FP_"+kind+" [] None Panic ([], []))", meta)
	case panicked:
		v.Oracle(false, "wire."+strings.ToLower(kind)+":unmodelled-panic", "XFromProto(nil) panicked where the model has no panic", meta)
	case c12None(y):
		v.Case(h.fp, "(FP_"+kind+" [] None Reject ([], []))", meta)
	default:
		ys := k.dump(e, y)
		if k.wrapped {
			ys = "(Ok " + ys + ")"
		}
		v.Case(h.fp, e.wrap("(FP_"+kind+" [] None "+ys+" "+e.obs(k.obs(y))+")"), meta)
	}
}

// ---------------------------------------------------------------------------------------------
// generators

var c12Views = []hotstuff.View{0, 1, 2, 7, 1 << 16, 1 << 31, 1<<32 - 1, 1 << 32, 1<<32 + 1, 1<<53 + 1, 1<<63 - 1, 1 << 63, math.MaxUint64}
var c12IDs = []hotstuff.ID{0, 1, 2, 3, 255, 256, 257, 1<<15 - 1, 1 << 15, 65535, 65536, 65537, 1 << 24, 1<<24 + 1, 1<<31 - 1, 1 << 31, 1<<31 + 1, math.MaxUint32}

func c12Times() []time.Time {
	return []time.Time{
		time.Now(),
		time.Unix(0, 0),
		time.Unix(1_700_000_000, 999_999_999),
		time.Unix(1_700_000_000, 1),
		time.Unix(-1, 500),             // before 1970
		time.Time{},                    // year 1
		time.Unix(253402300800, 7),     // year 10000
		time.Unix(1<<62, 123_456_789),  // UnixNano overflows
		time.Unix(-(1 << 62), 999),
		time.Unix(math.MaxInt64-62135596801, 999_999_999), // largest instant time.Time can hold
		time.Date(2262, 4, 11, 23, 47, 16, 854775807, time.UTC), // UnixNano == MaxInt64
		time.Date(2025, 1, 1, 0, 0, 0, 0, time.FixedZone("x", 3600)),
	}
}

func c12Subsets(n int) [][]int {
	var out [][]int
	for m := 1; m < 1<<n; m++ {
		var s []int
		for i := 0; i < n; i++ {
			if m&(1<<i) != 0 {
				s = append(s, i)
			}
		}
		out = append(out, s)
	}
	return out
}

func c12Orders(s []int) [][]int {
	out := [][]int{append([]int{}, s...)}
	if len(s) >= 2 {
		r := make([]int, len(s))
		for i := range s {
			r[i] = s[len(s)-1-i]
		}
		out = append(out, r)
	}
	if len(s) >= 3 {
		out = append(out, append(append([]int{}, s[1:]...), s[0]))
	}
	return out
}

func (h *c12H) randSubset(n int) []int {
	r := h.v.rng
	for {
		var s []int
		for i := 0; i < n; i++ {
			if r.Intn(2) == 0 {
				s = append(s, i)
			}
		}
		if len(s) > 0 {
			r.Shuffle(len(s), func(i, j int) { s[i], s[j] = s[j], s[i] })
			return s
		}
	}
}

func (h *c12H) randView() hotstuff.View {
	r := h.v.rng
	switch r.Intn(4) {
	case 0:
		return c12Views[r.Intn(len(c12Views))]
	case 1:
		return hotstuff.View(r.Uint64())
	}
	return hotstuff.View(r.Intn(20))
}

func (h *c12H) randID(n int) hotstuff.ID {
	if h.v.rng.Intn(6) == 0 { // an id that agrees with a small one in its low 8 / 16 / 24 bits
		return hotstuff.ID(1+h.v.rng.Intn(n)) + hotstuff.ID(1)<<uint(8*(1+h.v.rng.Intn(3)))
	}
	r := h.v.rng
	switch r.Intn(5) {
	case 0:
		return c12IDs[r.Intn(len(c12IDs))]
	case 1:
		return hotstuff.ID(r.Uint32())
	}
	return hotstuff.ID(1 + r.Intn(n))
}

func (h *c12H) randTime() time.Time {
	r := h.v.rng
	ts := c12Times()
	switch r.Intn(3) {
	case 0:
		return ts[r.Intn(len(ts))]
	case 1:
		return time.Unix(r.Int63()-r.Int63(), int64(r.Intn(1_000_000_000)))
	}
	return time.Unix(1_600_000_000+int64(r.Intn(400_000_000)), int64(r.Intn(1_000_000_000)))
}

func (h *c12H) randBatch() *clientpb.Batch {
	r := h.v.rng
	switch r.Intn(5) {
	case 0:
		return nil
	case 1:
		return &clientpb.Batch{}
	case 2:
		return &clientpb.Batch{Commands: []*clientpb.Command{}}
	}
	return c12Batch(1+r.Intn(4), r.Intn(1000))
}

// synthSig builds a signature object through the exported constructors (Restore*, NewMulti) with
// extreme / repeated / unsorted signer ids and arbitrary signature bytes; BLS aggregates reuse a real
// point (or the point at infinity) under an arbitrary bitfield.
func (h *c12H) synthSig(u *c12Universe) hotstuff.QuorumSignature {
	r := h.v.rng
	n := r.Intn(5)
	ids := make([]hotstuff.ID, n)
	bs := make([][]byte, n)
	for i := range ids {
		ids[i] = h.randID(u.n)
		if i > 0 && r.Intn(5) == 0 {
			ids[i] = ids[r.Intn(i)] // a repeated signer, adjacent or not
		}
		bs[i] = make([]byte, r.Intn(3)*r.Intn(40))
		r.Read(bs[i])
	}
	switch u.scheme {
	case crypto.NameECDSA:
		sigs := make([]*crypto.ECDSASignature, n)
		for i := range sigs {
			sigs[i] = crypto.RestoreECDSASignature(bs[i], ids[i])
		}
		return crypto.NewMulti(sigs...)
	case crypto.NameEDDSA:
		sigs := make([]*crypto.EDDSASignature, n)
		for i := range sigs {
			sigs[i] = crypto.RestoreEDDSASignature(bs[i], ids[i])
		}
		return crypto.NewMulti(sigs...)
	}
	point := make([]byte, 96)
	point[0] = 0xc0 // the point at infinity
	if r.Intn(3) != 0 {
		point = u.pcFor(u.blocks[1+r.Intn(3)], r.Intn(u.n)).Signature().ToBytes()
	}
	var bf []byte
	switch r.Intn(4) {
	case 0:
		bf = nil
	case 1:
		bf = []byte{byte(r.Intn(256))}
	case 2:
		bf = []byte{byte(r.Intn(256)), 0, byte(r.Intn(256)), 0, 0}
	default:
		bf = make([]byte, 1+r.Intn(130))
		bf[len(bf)-1] = 1 << uint(r.Intn(8))
		bf[r.Intn(len(bf))] |= byte(r.Intn(256))
	}
	s, err := crypto.RestoreBLS12AggregateSignature(point, crypto.BitfieldFromBytes(bf))
	if err != nil {
		panic(err)
	}
	return s
}

// a QC of one of the shapes the Go constructors produce
func (h *c12H) randQC(u *c12Universe) (hotstuff.QuorumCert, string) {
	r := h.v.rng
	switch r.Intn(6) {
	case 0:
		return hotstuff.NewQuorumCert(nil, 0, hotstuff.GetGenesis().Hash()), "genesis"
	case 1:
		return hotstuff.QuorumCert{}, "zero"
	case 2:
		b := u.blocks[1+r.Intn(len(u.blocks)-1)]
		return hotstuff.NewQuorumCert(nil, b.View(), b.Hash()), "unsigned"
	}
	b := u.blocks[1+r.Intn(len(u.blocks)-1)]
	return u.qcFor(b, h.randSubset(u.n)), "signed"
}

func (h *c12H) randBlock(u *c12Universe) (*hotstuff.Block, map[string]any) {
	r := h.v.rng
	qc, qk := h.randQC(u)
	parent := qc.BlockHash()
	if r.Intn(4) == 0 {
		r.Read(parent[:])
	}
	b := hotstuff.NewBlock(parent, qc, h.randBatch(), h.randView(), h.randID(u.n))
	tk := "now"
	if r.Intn(3) != 0 {
		t := h.randTime()
		b.SetTimestamp(t)
		tk = t.UTC().Format(time.RFC3339Nano)
	}
	return b, map[string]any{"qc": qk, "view": uint64(b.View()), "proposer": uint32(b.Proposer()), "ts": tk, "cmds": len(b.Commands().GetCommands())}
}

func (h *c12H) randQCs(u *c12Universe, k int) []*hotstuff.QuorumCert {
	out := make([]*hotstuff.QuorumCert, k)
	for i := range out {
		if h.v.rng.Intn(5) == 0 {
			continue
		}
		q, _ := h.randQC(u)
		out[i] = &q
	}
	return out
}

func (h *c12H) randSync(u *c12Universe, mask int) hotstuff.SyncInfo {
	si := hotstuff.NewSyncInfo()
	if mask&1 != 0 {
		q, _ := h.randQC(u)
		si.SetQC(q)
	}
	if mask&2 != 0 {
		si.SetTC(u.tcFor(h.randView(), h.randSubset(u.n)))
	}
	if mask&4 != 0 {
		s := h.randSubset(u.n)
		si.SetAggQC(u.aggFor(h.randView(), s, h.randQCs(u, len(s))))
	}
	return si
}

func (h *c12H) randTimeout(u *c12Universe, mask int, msgSig bool) hotstuff.TimeoutMsg {
	i := h.v.rng.Intn(u.n)
	view := h.randView()
	m := hotstuff.TimeoutMsg{ID: u.ids[i], View: view, ViewSignature: u.sign(i, view.ToBytes()), SyncInfo: h.randSync(u, mask)}
	if msgSig {
		m.MsgSignature = u.sign(i, m.ToBytes())
	}
	return m
}

func (h *c12H) randProposal(u *c12Universe, withAgg bool) hotstuff.ProposeMsg {
	qc, _ := h.randQC(u)
	id := u.ids[h.v.rng.Intn(u.n)]
	if h.v.rng.Intn(6) == 0 {
		id = h.randID(u.n)
	}
	p := hotstuff.NewProposeMsg(id, h.randView(), qc, h.randBatch())
	if h.v.rng.Intn(2) == 0 {
		p.Block.SetTimestamp(h.randTime())
	}
	if withAgg {
		s := h.randSubset(u.n)
		a := u.aggFor(h.randView(), s, h.randQCs(u, len(s)))
		p.AggregateQC = &a
	}
	return p
}

// ---------------------------------------------------------------------------------------------
// families: a base object and variants that differ from it in exactly one component (an equivocating
// proposer's two blocks for one view, two certificates for one block, ...).  They are converted
// interleaved (base, v1, base, v2, ...) so that anything remembered between conversions under too
// small a key shows up.

type c12Var struct {
	kind string
	x    any
	c    c12Ctx
	what string
}

func (h *c12H) families(u *c12Universe) [][]c12Var {
	n := u.n
	blk, other := u.blocks[2], u.blocks[1]
	third := n - 1 // the signer that distinguishes the second quorum
	qcA := u.qcFor(blk, []int{0, 1, 2})
	qcB := u.qcFor(blk, []int{0, 1, third})
	qcC := u.qcFor(blk, []int{2, 1, 0})
	qcD := u.qcFor(blk, []int{1, 2})
	ts := time.Unix(1_750_000_000, 123_456_789)
	batch := c12Batch(2, 5)
	var otherHash hotstuff.Hash
	copy(otherHash[:], "another block hash, 32 bytes long")
	mk := func(parent hotstuff.Hash, qc hotstuff.QuorumCert, b *clientpb.Batch, view hotstuff.View, prop hotstuff.ID, t time.Time) *hotstuff.Block {
		x := hotstuff.NewBlock(parent, qc, b, view, prop)
		x.SetTimestamp(t)
		return x
	}
	var fams [][]c12Var
	// blocks
	fams = append(fams, []c12Var{
		{"Block", mk(blk.Hash(), qcA, batch, 9, u.ids[1], ts), c12Ctx{}, "base"},
		{"Block", mk(blk.Hash(), qcA, c12Batch(2, 6), 9, u.ids[1], ts), c12Ctx{}, "other commands (equivocation)"},
		{"Block", mk(blk.Hash(), qcA, nil, 9, u.ids[1], ts), c12Ctx{}, "no commands"},
		{"Block", mk(blk.Hash(), qcA, batch, 9, u.ids[1], ts.Add(1)), c12Ctx{}, "one nanosecond later"},
		{"Block", mk(blk.Hash(), qcB, batch, 9, u.ids[1], ts), c12Ctx{}, "certificate of another quorum for the same block"},
		{"Block", mk(blk.Hash(), qcC, batch, 9, u.ids[1], ts), c12Ctx{}, "certificate with the signers in another order"},
		{"Block", mk(other.Hash(), qcA, batch, 9, u.ids[1], ts), c12Ctx{}, "other parent"},
		{"Block", mk(blk.Hash(), qcA, batch, 10, u.ids[1], ts), c12Ctx{}, "next view"},
		{"Block", mk(blk.Hash(), qcA, batch, 9+1<<32, u.ids[1], ts), c12Ctx{}, "view + 2^32"},
		{"Block", mk(blk.Hash(), qcA, batch, 9, u.ids[2], ts), c12Ctx{}, "other proposer"},
		{"Block", mk(blk.Hash(), qcA, batch, 9, u.ids[1]+1<<16, ts), c12Ctx{}, "proposer + 2^16"},
	})
	// certificates for one block
	sigA := qcA.Signature()
	fams = append(fams, []c12Var{
		{"QC", qcA, c12Ctx{}, "base"},
		{"QC", qcB, c12Ctx{}, "another quorum, same block"},
		{"QC", qcC, c12Ctx{}, "same signers, other order"},
		{"QC", qcD, c12Ctx{}, "two signers"},
		{"QC", hotstuff.NewQuorumCert(sigA, blk.View()+1<<32, blk.Hash()), c12Ctx{}, "same signature, view + 2^32"},
		{"QC", hotstuff.NewQuorumCert(sigA, blk.View(), otherHash), c12Ctx{}, "same signature, other hash"},
		{"QC", hotstuff.NewQuorumCert(nil, blk.View(), blk.Hash()), c12Ctx{}, "unsigned"},
	})
	fams = append(fams, []c12Var{
		{"PC", u.pcFor(blk, 0), c12Ctx{}, "base"},
		{"PC", u.pcFor(blk, 1), c12Ctx{}, "other voter, same block"},
		{"PC", u.pcFor(other, 0), c12Ctx{}, "same voter, other block"},
		{"PC", hotstuff.NewPartialCert(u.pcFor(blk, 0).Signature(), otherHash), c12Ctx{}, "same signature, other hash"},
	})
	tcA := u.tcFor(7, []int{0, 1, 2})
	fams = append(fams, []c12Var{
		{"TC", tcA, c12Ctx{}, "base"},
		{"TC", u.tcFor(7, []int{2, 1, 0}), c12Ctx{}, "same view, other order"},
		{"TC", u.tcFor(7, []int{0, 1, third}), c12Ctx{}, "same view, another quorum"},
		{"TC", u.tcFor(7+1<<32, []int{0, 1, 2}), c12Ctx{}, "view + 2^32"},
		{"TC", hotstuff.NewTimeoutCert(tcA.Signature(), 8), c12Ctx{}, "same signature, next view"},
	})
	// aggregate QCs whose entries certify ONE block with different certificates
	agg := func(qcs ...*hotstuff.QuorumCert) hotstuff.AggregateQC { return u.aggFor(8, []int{0, 1, 2}, qcs) }
	aggSame, aggDistinct := agg(&qcA, &qcA, &qcA), agg(&qcA, &qcB, &qcC)
	fams = append(fams, []c12Var{
		{"Agg", aggSame, c12Ctx{}, "every sender reports the same certificate"},
		{"Agg", aggDistinct, c12Ctx{}, "three different certificates for the same block"},
		{"Agg", agg(&qcB, &qcA, &qcC), c12Ctx{}, "the same three certificates, other senders"},
		{"Agg", agg(&qcA, nil, &qcD), c12Ctx{}, "one sender without a certificate"},
		{"Agg", hotstuff.NewAggregateQC(aggDistinct.QCs(), aggDistinct.Sig(), 8+1<<32), c12Ctx{}, "view + 2^32"},
	})
	// sync infos / timeouts / proposals around the same block
	siA := hotstuff.NewSyncInfoWith(qcA)
	siAB := hotstuff.NewSyncInfoWith(qcA)
	siAB.SetAggQC(aggDistinct)
	siBA := hotstuff.NewSyncInfoWith(qcB)
	siBA.SetAggQC(aggDistinct)
	siAT := hotstuff.NewSyncInfoWith(qcA)
	siAT.SetTC(u.tcFor(blk.View(), []int{0, 1, 2}))
	fams = append(fams, []c12Var{
		{"Sync", siA, c12Ctx{}, "base"},
		{"Sync", siAB, c12Ctx{}, "QC plus aggregate QC with other certificates for the same block"},
		{"Sync", siBA, c12Ctx{}, "another QC with the same aggregate QC"},
		{"Sync", siAT, c12Ctx{}, "QC and TC of the same view"},
	})
	tmo := func(si hotstuff.SyncInfo, msgSig bool) hotstuff.TimeoutMsg {
		m := hotstuff.TimeoutMsg{ID: u.ids[0], View: 7, ViewSignature: u.sign(0, hotstuff.View(7).ToBytes()), SyncInfo: si}
		if msgSig {
			m.MsgSignature = u.sign(0, m.ToBytes())
		}
		return m
	}
	t0 := tmo(siA, true)
	t1 := tmo(hotstuff.NewSyncInfoWith(qcB), true)
	t2 := tmo(siA, false)
	t3 := tmo(siAB, true)
	fams = append(fams, []c12Var{
		{"Timeout", t0, c12Ctx{peer: t0.ID}, "base"},
		{"Timeout", t1, c12Ctx{peer: t1.ID}, "another certificate for the same block"},
		{"Timeout", t2, c12Ctx{peer: t2.ID}, "no message signature"},
		{"Timeout", t3, c12Ctx{peer: t3.ID}, "with aggregate QC"},
	})
	prop := func(qc hotstuff.QuorumCert, b *clientpb.Batch, a *hotstuff.AggregateQC) hotstuff.ProposeMsg {
		p := hotstuff.NewProposeMsg(u.ids[1], 9, qc, b)
		p.Block.SetTimestamp(ts)
		p.AggregateQC = a
		return p
	}
	p0 := prop(qcA, batch, nil)
	fams = append(fams, []c12Var{
		{"Proposal", p0, c12Ctx{peer: p0.ID}, "base"},
		{"Proposal", prop(qcA, c12Batch(2, 6), nil), c12Ctx{peer: p0.ID}, "other commands (equivocation)"},
		{"Proposal", prop(qcA, batch, &aggSame), c12Ctx{peer: p0.ID}, "with aggregate QC"},
		{"Proposal", prop(qcA, batch, &aggDistinct), c12Ctx{peer: p0.ID}, "aggregate QC with other certificates for the block's QC block"},
		{"Proposal", prop(qcB, batch, &aggDistinct), c12Ctx{peer: p0.ID}, "another block QC, same aggregate QC"},
		{"Proposal", p0, c12Ctx{peer: p0.ID, kauri: true}, "base through a Kauri tree"},
	})
	return fams
}

func (h *c12H) runFamilies(u *c12Universe) {
	for _, fam := range h.families(u) {
		for i := 1; i < len(fam); i++ {
			for _, w := range []c12Var{fam[0], fam[i]} { // base, variant, base, next variant, ...
				h.v.Count("family." + w.kind)
				h.roundTrip(u, w.kind, w.x, w.c, map[string]any{"gen": "family", "variant": w.what, "ids": fmt.Sprint(u.ids)})
			}
		}
		h.roundTrip(u, fam[0].kind, fam[0].x, fam[0].c, map[string]any{"gen": "family", "variant": "base, once more", "ids": fmt.Sprint(u.ids)})
	}
}

// boundary sizes and nil-versus-empty shapes built through the exported constructors
func (h *c12H) runShapes(u *c12Universe) {
	r := h.v.rng
	var hash hotstuff.Hash
	r.Read(hash[:])
	multi := func(n int) hotstuff.QuorumSignature {
		ids := make([]hotstuff.ID, n)
		for i := range ids {
			ids[i] = hotstuff.ID(i*257 + 1)
		}
		switch u.scheme {
		case crypto.NameECDSA:
			sigs := make([]*crypto.ECDSASignature, n)
			for i := range sigs {
				sigs[i] = crypto.RestoreECDSASignature([]byte{byte(i), byte(i >> 8)}[:i%3], ids[i])
			}
			return crypto.NewMulti(sigs...)
		case crypto.NameEDDSA:
			sigs := make([]*crypto.EDDSASignature, n)
			for i := range sigs {
				sigs[i] = crypto.RestoreEDDSASignature([]byte{byte(i), byte(i >> 8)}[:i%3], ids[i])
			}
			return crypto.NewMulti(sigs...)
		}
		bf := make([]byte, (n+7)/8)
		for i := 0; i < n; i++ {
			bf[i/8] |= 1 << uint(i%8)
		}
		if n == 0 && r.Intn(2) == 0 {
			bf = nil
		}
		point := make([]byte, 96)
		point[0] = 0xc0
		s, err := crypto.RestoreBLS12AggregateSignature(point, crypto.BitfieldFromBytes(bf))
		if err != nil {
			panic(err)
		}
		return s
	}
	for _, n := range []int{0, 1, 8, 9, 255, 256, 257} {
		sig := multi(n)
		meta := func(what string) map[string]any {
			return map[string]any{"gen": "shape", "what": what, "participants": n}
		}
		h.v.Count("shape.participants")
		h.roundTrip(u, "QC", hotstuff.NewQuorumCert(sig, 5, hash), c12Ctx{}, meta("certificate with n participants"))
		if n == 0 || n >= 255 {
			b := hotstuff.NewBlock(hash, hotstuff.NewQuorumCert(sig, 5, hash), c12Batch(1, 3), 6, u.ids[0])
			h.roundTrip(u, "Block", b, c12Ctx{}, meta("block whose certificate has n participants"))
			h.roundTrip(u, "TC", hotstuff.NewTimeoutCert(sig, 6), c12Ctx{}, meta("timeout certificate with n participants"))
		}
	}
	// nil versus empty
	empty := multi(0)
	q, _ := h.randQC(u)
	tm := hotstuff.TimeoutMsg{ID: u.ids[0], View: 3, ViewSignature: empty, MsgSignature: empty, SyncInfo: hotstuff.NewSyncInfoWith(q)}
	h.roundTrip(u, "Timeout", tm, c12Ctx{peer: tm.ID}, map[string]any{"gen": "shape", "what": "empty (non-nil) view and message signatures"})
	tm.MsgSignature = nil
	h.roundTrip(u, "Timeout", tm, c12Ctx{peer: tm.ID}, map[string]any{"gen": "shape", "what": "empty view signature, nil message signature"})
	h.roundTrip(u, "PC", hotstuff.NewPartialCert(empty, hash), c12Ctx{}, map[string]any{"gen": "shape", "what": "partial certificate with an empty signature"})
	h.roundTrip(u, "Agg", hotstuff.NewAggregateQC(nil, empty, 4), c12Ctx{}, map[string]any{"gen": "shape", "what": "nil QC map, empty signature"})
	h.roundTrip(u, "Agg", hotstuff.NewAggregateQC(map[hotstuff.ID]hotstuff.QuorumCert{}, nil, 0), c12Ctx{}, map[string]any{"gen": "shape", "what": "empty QC map, nil signature"})
	h.roundTrip(u, "Agg", hotstuff.NewAggregateQC(map[hotstuff.ID]hotstuff.QuorumCert{0: {}, 1: hotstuff.NewQuorumCert(empty, 0, hash), 257: hotstuff.NewQuorumCert(nil, 0, hash), 65537: q},
		empty, 1<<32), c12Ctx{}, map[string]any{"gen": "shape", "what": "senders 0, 1, 257, 65537 (equal low bits) with zero / empty-signature / unsigned / signed certificates"})
	si := hotstuff.NewSyncInfoWith(hotstuff.QuorumCert{})
	si.SetTC(hotstuff.NewTimeoutCert(nil, 0))
	si.SetAggQC(hotstuff.AggregateQC{})
	h.roundTrip(u, "Sync", si, c12Ctx{}, map[string]any{"gen": "shape", "what": "all parts present and zero"})
}

// ---------------------------------------------------------------------------------------------
// mutations of protobuf messages for the from-pb stream

func (h *c12H) mutBytes(b []byte) []byte {
	r := h.v.rng
	switch r.Intn(7) {
	case 0:
		return nil
	case 1:
		if len(b) > 0 {
			return b[:len(b)-1]
		}
	case 2:
		return append(append([]byte{}, b...), byte(r.Intn(256)))
	case 3:
		if len(b) > 0 {
			c := append([]byte{}, b...)
			c[r.Intn(len(c))] ^= 1 << uint(r.Intn(8))
			return c
		}
	case 4:
		return b[:len(b)/2]
	case 5:
		c := make([]byte, 1+r.Intn(40))
		r.Read(c)
		return c
	}
	return b
}

func (h *c12H) mutSig(s *QuorumSignature) *QuorumSignature {
	r := h.v.rng
	if s == nil || r.Intn(8) == 0 {
		switch r.Intn(5) {
		case 0:
			return nil
		case 1:
			return &QuorumSignature{}
		case 2:
			return &QuorumSignature{Sig: &QuorumSignature_ECDSASigs{ECDSASigs: &ECDSAMultiSignature{}}}
		case 3:
			return &QuorumSignature{Sig: &QuorumSignature_BLS12Sig{BLS12Sig: &BLS12AggregateSignature{}}}
		default:
			inf := make([]byte, 96)
			inf[0] = 0xc0
			return &QuorumSignature{Sig: &QuorumSignature_BLS12Sig{BLS12Sig: &BLS12AggregateSignature{Sig: inf, Participants: []byte{byte(r.Intn(256)), 0, byte(r.Intn(4))}}}}
		}
	}
	switch w := s.Sig.(type) {
	case *QuorumSignature_ECDSASigs:
		l := w.ECDSASigs.Sigs
		if len(l) > 0 {
			i := r.Intn(len(l))
			switch r.Intn(5) {
			case 0:
				l[i].Signer = r.Uint32()
			case 1:
				l[i].Sig = h.mutBytes(l[i].Sig)
			case 2:
				w.ECDSASigs.Sigs = append(l, &ECDSASignature{Signer: l[i].Signer, Sig: l[i].Sig})
			case 3:
				r.Shuffle(len(l), func(a, b int) { l[a], l[b] = l[b], l[a] })
			case 4:
				s.Sig = &QuorumSignature_EDDSASigs{EDDSASigs: &EDDSAMultiSignature{Sigs: []*EDDSASignature{{Signer: l[i].Signer, Sig: l[i].Sig}}}}
			}
		}
	case *QuorumSignature_EDDSASigs:
		l := w.EDDSASigs.Sigs
		if len(l) > 0 {
			i := r.Intn(len(l))
			switch r.Intn(4) {
			case 0:
				l[i].Signer = c12IDsU32(r.Intn(len(c12IDs)))
			case 1:
				l[i].Sig = h.mutBytes(l[i].Sig)
			case 2:
				w.EDDSASigs.Sigs = l[:len(l)-1]
			case 3:
				r.Shuffle(len(l), func(a, b int) { l[a], l[b] = l[b], l[a] })
			}
		}
	case *QuorumSignature_BLS12Sig:
		switch r.Intn(4) {
		case 0:
			w.BLS12Sig.Sig = h.mutBytes(w.BLS12Sig.Sig)
		case 1:
			w.BLS12Sig.Participants = h.mutBytes(w.BLS12Sig.Participants)
		case 2:
			w.BLS12Sig.Participants = append(w.BLS12Sig.Participants, 0, 0x81)
		case 3:
			if len(w.BLS12Sig.Sig) > 0 {
				w.BLS12Sig.Sig = append([]byte{}, w.BLS12Sig.Sig...)
				w.BLS12Sig.Sig[0] ^= 0x20 // the other square root: still a point on the curve
			}
		}
	}
	return s
}

func c12IDsU32(i int) uint32 { return uint32(c12IDs[i]) }

func (h *c12H) mutQC(q *QuorumCert) *QuorumCert {
	r := h.v.rng
	if q == nil {
		return nil
	}
	switch r.Intn(6) {
	case 0:
		q.Sig = h.mutSig(q.Sig)
	case 1:
		q.Hash = h.mutBytes(q.Hash)
	case 2:
		q.View = uint64(c12Views[r.Intn(len(c12Views))])
	case 3:
		q.Sig = nil
	case 4:
		return nil
	}
	return q
}

func (h *c12H) mutTS(t *timestamppb.Timestamp) *timestamppb.Timestamp {
	r := h.v.rng
	switch r.Intn(8) {
	case 0:
		return nil
	case 1:
		return &timestamppb.Timestamp{Seconds: 5, Nanos: -1}
	case 2:
		return &timestamppb.Timestamp{Seconds: -5, Nanos: math.MinInt32}
	case 3:
		return &timestamppb.Timestamp{Seconds: math.MaxInt64, Nanos: math.MaxInt32}
	case 4:
		return &timestamppb.Timestamp{Seconds: math.MinInt64, Nanos: -999_999_999}
	case 5:
		return &timestamppb.Timestamp{Seconds: r.Int63() - r.Int63(), Nanos: int32(r.Uint32())}
	case 6:
		return &timestamppb.Timestamp{Seconds: 1 << 40, Nanos: 1_000_000_000}
	}
	return t
}

func (h *c12H) mutAgg(a *AggQC) *AggQC {
	r := h.v.rng
	if a == nil {
		return nil
	}
	switch r.Intn(6) {
	case 0:
		a.Sig = h.mutSig(a.Sig)
	case 1:
		a.View = uint64(c12Views[r.Intn(len(c12Views))])
	case 2:
		for id, q := range a.QCs {
			a.QCs[id] = h.mutQC(q)
			if a.QCs[id] == nil {
				delete(a.QCs, id)
			}
			break
		}
	case 3:
		if a.QCs == nil {
			a.QCs = map[uint32]*QuorumCert{}
		}
		a.QCs[c12IDsU32(r.Intn(len(c12IDs)))] = &QuorumCert{View: 3}
	case 4:
		a.QCs = nil
	case 5:
		a.Sig = nil
	}
	return a
}

func (h *c12H) mutSync(s *SyncInfo) *SyncInfo {
	r := h.v.rng
	if s == nil {
		return nil
	}
	switch r.Intn(6) {
	case 0:
		s.QC = h.mutQC(s.QC)
	case 1:
		if s.TC != nil {
			if r.Intn(2) == 0 {
				s.TC.Sig = h.mutSig(s.TC.Sig)
			} else {
				s.TC.View = uint64(c12Views[r.Intn(len(c12Views))])
			}
		} else {
			s.TC = &TimeoutCert{View: 9}
		}
	case 2:
		s.AggQC = h.mutAgg(s.AggQC)
	case 3:
		s.QC = &QuorumCert{}
	case 4:
		s.AggQC = &AggQC{}
	case 5:
		return nil
	}
	return s
}

func (h *c12H) mutBlock(b *Block) *Block {
	r := h.v.rng
	if b == nil {
		return nil
	}
	switch r.Intn(9) {
	case 0:
		b.Parent = h.mutBytes(b.Parent)
	case 1:
		b.QC = h.mutQC(b.QC)
	case 2:
		b.View = uint64(c12Views[r.Intn(len(c12Views))])
	case 3:
		b.Proposer = c12IDsU32(r.Intn(len(c12IDs)))
	case 4:
		b.Timestamp = h.mutTS(b.Timestamp)
	case 5:
		b.Commands = nil
	case 6:
		b.Commands = c12Batch(1+r.Intn(3), r.Intn(50))
	case 7:
		b.QC = nil
	case 8:
		b.Timestamp = h.mutTS(b.Timestamp)
		b.Parent = h.mutBytes(b.Parent)
	}
	return b
}

// mutate applies one or two mutations to a protobuf message of the given kind (in place).
func (h *c12H) mutate(kind string, pb proto.Message) proto.Message {
	r := h.v.rng
	for n := 1 + r.Intn(2); n > 0; n-- {
		switch m := pb.(type) {
		case *QuorumSignature:
			pb = h.mutSig(m)
			if pb.(*QuorumSignature) == nil {
				pb = &QuorumSignature{}
			}
		case *PartialCert:
			if r.Intn(2) == 0 {
				m.Sig = h.mutSig(m.Sig)
			} else {
				m.Hash = h.mutBytes(m.Hash)
			}
		case *QuorumCert:
			if q := h.mutQC(m); q != nil {
				pb = q
			}
		case *TimeoutCert:
			if r.Intn(2) == 0 {
				m.Sig = h.mutSig(m.Sig)
			} else {
				m.View = uint64(c12Views[r.Intn(len(c12Views))])
			}
		case *AggQC:
			h.mutAgg(m)
		case *SyncInfo:
			if s := h.mutSync(m); s == nil {
				pb = &SyncInfo{}
			}
		case *TimeoutMsg:
			switch r.Intn(5) {
			case 0:
				m.View = uint64(c12Views[r.Intn(len(c12Views))])
			case 1:
				m.SyncInfo = h.mutSync(m.SyncInfo)
			case 2:
				m.ViewSig = h.mutSig(m.ViewSig)
			case 3:
				m.MsgSig = h.mutSig(m.MsgSig)
			case 4:
				m.MsgSig = nil
			}
		case *Block:
			h.mutBlock(m)
		case *Proposal:
			switch r.Intn(4) {
			case 0, 1:
				m.Block = h.mutBlock(m.Block)
			case 2:
				m.AggQC = h.mutAgg(m.AggQC)
				if m.AggQC == nil && r.Intn(2) == 0 {
					m.AggQC = &AggQC{}
				}
			case 3:
				if r.Intn(4) == 0 {
					m.Block = nil
				}
			}
		}
	}
	return pb
}

// ---------------------------------------------------------------------------------------------
// aliasing: every byte string the code hands out (bytes-to-sign, batch encoding, hashes, wire bytes) is
// kept together with a copy; after all the other objects have been encoded too, in other orders, every
// slice handed out earlier must still equal its copy and every recomputation must equal the first answer.

type c12Call struct {
	name  string
	f     func() []byte
	fresh bool // the API hands out a fresh slice: scribbling over it must not change later answers
}

func c12BigBatch(seed, n, size int) *clientpb.Batch {
	b := &clientpb.Batch{}
	for i := 0; i < n; i++ {
		data := bytes.Repeat([]byte{byte(seed), byte(i), byte(seed >> 8), byte(i >> 8)}, size/4+1)[:size]
		b.Commands = append(b.Commands, &clientpb.Command{ClientID: uint32(seed + 1), SequenceNumber: uint64(i + 1), Data: data})
	}
	return b
}

func c12WireBytes(m proto.Message) []byte {
	b, err := proto.MarshalOptions{Deterministic: true}.Marshal(m)
	if err != nil {
		panic(err)
	}
	return b
}

func c12SigCalls(prefix string, s hotstuff.QuorumSignature) []c12Call {
	var cs []c12Call
	if s == nil {
		return cs
	}
	cs = append(cs, c12Call{prefix + "Signature.ToBytes", s.ToBytes, true})
	switch ms := s.(type) {
	case crypto.Multi[*crypto.ECDSASignature]:
		for i, x := range ms {
			cs = append(cs, c12Call{fmt.Sprintf("%sECDSASignature[%d].ToBytes", prefix, i), x.ToBytes, false})
		}
	case crypto.Multi[*crypto.EDDSASignature]:
		for i, x := range ms {
			cs = append(cs, c12Call{fmt.Sprintf("%sEDDSASignature[%d].ToBytes", prefix, i), x.ToBytes, true})
		}
	case *crypto.BLS12AggregateSignature:
		cs = append(cs, c12Call{prefix + "Bitfield.Bytes", func() []byte { return ms.Bitfield().Bytes() }, false})
	}
	return cs
}

func c12QCCalls(prefix string, q hotstuff.QuorumCert) []c12Call {
	cs := []c12Call{
		{prefix + "QuorumCert.ToBytes", q.ToBytes, true},
		{prefix + "wire(QuorumCertToProto)", func() []byte { return c12WireBytes(QuorumCertToProto(q)) }, true},
		{prefix + "QuorumCert.BlockHash", func() []byte { h := q.BlockHash(); return h[:] }, true},
	}
	return append(cs, c12SigCalls(prefix, q.Signature())...)
}

func c12BlockCalls(prefix string, b *hotstuff.Block) []c12Call {
	cs := []c12Call{
		{prefix + "Block.ToBytes", b.ToBytes, true},
		{prefix + "Block.Commands.Marshal", func() []byte { return b.Commands().Marshal() }, true},
		{prefix + "Block.Hash", func() []byte { h := b.Hash(); return h[:] }, true},
		{prefix + "sha256(Block.ToBytes)", func() []byte { h := sha256.Sum256(b.ToBytes()); return h[:] }, true},
		{prefix + "wire(BlockToProto)", func() []byte { return c12WireBytes(BlockToProto(b)) }, true},
		{prefix + "decoded(wire).ToBytes", func() []byte {
			pb := &Block{}
			if err := proto.Unmarshal(c12WireBytes(BlockToProto(b)), pb); err != nil {
				panic(err)
			}
			return BlockFromProto(pb).ToBytes()
		}, true},
		{prefix + "Unmarshal(Commands.Marshal).Marshal", func() []byte {
			nb := &clientpb.Batch{}
			if err := proto.Unmarshal(b.Commands().Marshal(), nb); err != nil {
				panic(err)
			}
			return nb.Marshal()
		}, true},
	}
	return append(cs, c12QCCalls(prefix+"cert.", b.QuorumCert())...)
}

func (h *c12H) aliasCalls(u *c12Universe) []c12Call {
	blk := u.blocks[2]
	qcA, qcB := u.qcFor(blk, []int{0, 1, 2}), u.qcFor(blk, []int{2, 0})
	var cs []c12Call
	sizes := [][2]int{{0, 0}, {1, 5}, {8, 100}, {3, 1}, {64, 4096}, {64, 4099}, {16, 2048}, {200, 37}}
	for i, sz := range sizes {
		var batch *clientpb.Batch
		if i > 0 {
			batch = c12BigBatch(i, sz[0], sz[1])
		}
		qc := qcA
		if i%2 == 1 {
			qc = qcB
		}
		b := hotstuff.NewBlock(blk.Hash(), qc, batch, hotstuff.View(30+i), u.ids[i%u.n])
		cs = append(cs, c12BlockCalls(fmt.Sprintf("block%d(%dx%dB).", i, sz[0], sz[1]), b)...)
	}
	p := hotstuff.NewProposeMsg(u.ids[1], 40, qcA, c12BigBatch(9, 32, 1000))
	agg := u.aggFor(41, []int{0, 1, 2}, []*hotstuff.QuorumCert{&qcA, &qcB, nil})
	p.AggregateQC = &agg
	cs = append(cs, c12BlockCalls("proposal.", p.Block)...)
	cs = append(cs, c12Call{"wire(ProposalToProto)", func() []byte { return c12WireBytes(ProposalToProto(p)) }, true})
	cs = append(cs, c12QCCalls("qcA.", qcA)...)
	cs = append(cs, c12QCCalls("qcB.", qcB)...)
	pc := u.pcFor(blk, 1)
	cs = append(cs, c12Call{"PartialCert.ToBytes", pc.ToBytes, true},
		c12Call{"wire(PartialCertToProto)", func() []byte { return c12WireBytes(PartialCertToProto(pc)) }, true})
	tc := u.tcFor(17, []int{1, 0, 2})
	cs = append(cs, c12Call{"TimeoutCert.ToBytes", tc.ToBytes, true},
		c12Call{"wire(TimeoutCertToProto)", func() []byte { return c12WireBytes(TimeoutCertToProto(tc)) }, true})
	cs = append(cs, c12SigCalls("tc.", tc.Signature())...)
	cs = append(cs, c12Call{"wire(AggregateQCToProto)", func() []byte { return c12WireBytes(AggregateQCToProto(agg)) }, true})
	for _, id := range c12SortedIDs(agg.QCs()) {
		id, q := id, agg.QCs()[id]
		cs = append(cs, c12Call{fmt.Sprintf("agg.timeout-bytes[%d]", id), hotstuff.TimeoutMsg{ID: id, View: agg.View(), SyncInfo: hotstuff.NewSyncInfoWith(q)}.ToBytes, true})
	}
	si := hotstuff.NewSyncInfoWith(qcA)
	si.SetTC(tc)
	si.SetAggQC(agg)
	cs = append(cs, c12Call{"wire(SyncInfoToProto)", func() []byte { return c12WireBytes(SyncInfoToProto(si)) }, true})
	tm := hotstuff.TimeoutMsg{ID: u.ids[0], View: 17, ViewSignature: u.sign(0, hotstuff.View(17).ToBytes()), SyncInfo: si}
	tm.MsgSignature = u.sign(0, tm.ToBytes())
	cs = append(cs, c12Call{"TimeoutMsg.ToBytes", tm.ToBytes, true},
		c12Call{"wire(TimeoutMsgToProto)", func() []byte { return c12WireBytes(TimeoutMsgToProto(tm)) }, true},
		c12Call{"View.ToBytes", hotstuff.View(1<<40 + 17).ToBytes, true},
		c12Call{"ID.ToBytes", u.ids[u.n-1].ToBytes, true})
	return cs
}

func (h *c12H) runAliasing(u *c12Universe) {
	v, r := h.v, h.v.rng
	calls := h.aliasCalls(u)
	type kept struct{ orig, copy []byte }
	res := make([]kept, len(calls))
	short := func(b []byte) string {
		if len(b) > 48 {
			return fmt.Sprintf("%x...(%d bytes)", b[:48], len(b))
		}
		return fmt.Sprintf("%x", b)
	}
	checkKept := func(upto int, after string) {
		for j := 0; j < upto; j++ {
			if res[j].orig != nil && !bytes.Equal(res[j].orig, res[j].copy) {
				v.Oracle(false, "aliasing:returned-bytes-changed-by-later-call",
					"the slice returned by "+calls[j].name+" changed when "+after+" was computed afterwards",
					map[string]any{"scheme": u.scheme, "first_call": calls[j].name, "later_call": after,
						"returned": short(res[j].copy), "now": short(res[j].orig)})
				res[j].orig = nil // report once
			}
		}
	}
	// first pass, in order
	for i, c := range calls {
		b := c.f()
		res[i] = kept{b, append([]byte{}, b...)}
		v.Seen(fmt.Sprintf("alias|%s|%s|%x", u.scheme, c.name, sha256.Sum256(b)), true, map[string]any{"call": c.name, "scheme": u.scheme, "bytes": len(b)})
		v.Count("aliasing.calls")
		checkKept(i, c.name)
	}
	// recomputations in reverse and in two random orders
	orders := [][]int{}
	rev := make([]int, len(calls))
	for i := range rev {
		rev[i] = len(calls) - 1 - i
	}
	orders = append(orders, rev, r.Perm(len(calls)), r.Perm(len(calls)))
	for _, ord := range orders {
		for _, i := range ord {
			b := calls[i].f()
			v.Count("aliasing.recomputations")
			ok := bytes.Equal(b, res[i].copy)
			v.Oracle(ok, "aliasing:recomputation-differs", calls[i].name+" gives other bytes than the first time although nothing about the object changed",
				map[string]any{"scheme": u.scheme, "call": calls[i].name, "first": short(res[i].copy), "now": short(b)})
			checkKept(len(calls), calls[i].name)
		}
	}
	// scribble over returned slices; later answers must not change where a fresh slice is promised
	for i, c := range calls {
		b := c.f()
		for k := range b {
			b[k] ^= 0xa5
		}
		again := c.f()
		same := bytes.Equal(again, res[i].copy)
		if !same && !c.fresh {
			for k := range b { // undo: this accessor documents that it exposes the internal bytes
				b[k] ^= 0xa5
			}
			acc := c.name[strings.LastIndex(c.name[:strings.LastIndex(c.name, ".")], ".")+1:] // e.g. ECDSASignature[0].ToBytes
			if k := strings.Index(acc, "["); k >= 0 {
				acc = acc[:k] + acc[strings.Index(acc, "]")+1:]
			}
			if v.counts["aliasing.internal-bytes-exposed."+acc] == 0 {
				v.Note("observation (baseline behaviour, not counted): " + acc + " returns the object's internal bytes - writing to the result changes the object")
			}
			v.Count("aliasing.internal-bytes-exposed." + acc)
			continue
		}
		v.Count("aliasing.scribble-tests")
		v.Oracle(same, "aliasing:object-changed-through-returned-slice", "writing to the slice returned by "+c.name+" changed what it returns afterwards",
			map[string]any{"scheme": u.scheme, "call": c.name})
		checkKept(len(calls), "scribbling over the result of "+c.name)
	}
}

// concurrent decoding: network goroutines decode the blocks of several senders at the same time while
// other goroutines need the bytes of blocks they hold; every decoded block must have the sender's hash
// and bytes-to-sign.
func c12Concurrent(v *verifOut, senders, rounds int) {
	type sent struct {
		block *hotstuff.Block
		hash  hotstuff.Hash
		bytes []byte
		wire  []byte
	}
	msgs := make([]sent, senders)
	parent := hotstuff.GetGenesis()
	for i := range msgs {
		qc := hotstuff.NewQuorumCert(nil, 0, parent.Hash())
		n, size := 64, 4096+i
		if i%4 == 3 {
			n, size = 3, 40
		}
		b := hotstuff.NewBlock(parent.Hash(), qc, c12BigBatch(i, n, size), hotstuff.View(i+1), hotstuff.ID(i+1))
		msgs[i] = sent{b, b.Hash(), b.ToBytes(), c12WireBytes(BlockToProto(b))}
	}
	var wg sync.WaitGroup
	var mut sync.Mutex
	failures := 0
	fail := func(fp, what string, in map[string]any) {
		mut.Lock()
		defer mut.Unlock()
		failures++
		if failures <= 3 {
			v.Oracle(false, fp, what, in)
		}
	}
	for i := range msgs {
		wg.Add(2)
		go func(i int, m sent) { // the network side
			defer wg.Done()
			for round := 0; round < rounds; round++ {
				pb := &Block{}
				if err := proto.Unmarshal(m.wire, pb); err != nil {
					fail("concurrent:unmarshal-error", err.Error(), nil)
					return
				}
				got := BlockFromProto(pb)
				in := map[string]any{"sender": i + 1, "round": round, "goroutines": 2 * senders, "commands": len(m.block.Commands().GetCommands()),
					"sender_hash": fmt.Sprintf("%x", m.hash[:]), "decoded_hash": fmt.Sprintf("%x", sha256.Sum256(got.ToBytes()))}
				if got.Hash() != m.hash {
					fail("concurrent:decoded-block-hash-differs", "a block decoded while other blocks were being decoded/encoded has another hash than the sender's block", in)
					return
				}
				if !bytes.Equal(got.ToBytes(), m.bytes) {
					fail("concurrent:decoded-block-bytes-differ", "a block decoded while other blocks were being decoded/encoded has other bytes-to-sign than the sender's block", in)
					return
				}
			}
		}(i, msgs[i])
		go func(i int, m sent) { // the event-loop side: signing / verifying needs the bytes of held blocks
			defer wg.Done()
			for round := 0; round < rounds; round++ {
				if !bytes.Equal(m.block.ToBytes(), m.bytes) {
					fail("concurrent:held-block-bytes-differ", "ToBytes() of a block that nobody changed gives other bytes while other blocks are being decoded/encoded",
						map[string]any{"sender": i + 1, "round": round, "goroutines": 2 * senders})
					return
				}
			}
		}(i, msgs[i])
	}
	wg.Wait()
	v.CountN("concurrent.decodes", senders*rounds)
	v.Seen(fmt.Sprintf("concurrent|%d|%d", senders, rounds), true, map[string]any{"senders": senders, "rounds": rounds})
	if failures == 0 {
		v.Oracle(true, "", "", nil)
	}
}

// TestVerifC12Concurrent is the soak version of the concurrent stream (thorough tier, under -race).
func TestVerifC12Concurrent(t *testing.T) {
	v := verifNew("C12")
	v.prop = "C12race" // own stats file next to the main harness's
	c12Concurrent(v, 16, 150)
	v.Close("16 senders x 150 rounds of concurrent decoding under the race detector")
}

// ---------------------------------------------------------------------------------------------
// the test

func TestVerifC12(t *testing.T) {
	v := verifNew("C12")
	h := &c12H{v: v, kinds: c12Kinds()}
	h.rt = v.Stream("roundtrip", "mismatches", 150)
	h.fp = v.Stream("frompb", "mismatches", 250)
	r := v.rng
	n := v.Pick(4, 5)
	dense := make([]hotstuff.ID, n)
	for i := range dense {
		dense[i] = hotstuff.ID(i + 1)
	}
	var us, sparse []*c12Universe
	for _, s := range []string{crypto.NameECDSA, crypto.NameEDDSA, crypto.NameBLS12} {
		us = append(us, c12NewUniverse(t, s, dense))
	}
	// replicas with sparse, large ids that agree in their low bits (real keys, so verdicts are "accept")
	sparse = append(sparse,
		c12NewUniverse(t, crypto.NameECDSA, []hotstuff.ID{2, 258, 65538, 1<<31 + 2, math.MaxUint32}[:n]),
		c12NewUniverse(t, crypto.NameEDDSA, []hotstuff.ID{3, 1<<16 + 3, 1<<24 + 3, 1<<31 + 3, math.MaxUint32 - 1}[:n]),
		c12NewUniverse(t, crypto.NameBLS12, []hotstuff.ID{1, 9, 264, 1000, 2049}[:n]))

	// ---- (a) exhaustive small scope -------------------------------------------------------
	// objects without a signature scheme
	h.roundTrip(nil, "Sig", nil, c12Ctx{}, map[string]any{"gen": "nil signature"})
	h.roundTrip(nil, "QC", hotstuff.QuorumCert{}, c12Ctx{}, map[string]any{"gen": "zero QC"})
	h.roundTrip(nil, "QC", hotstuff.NewQuorumCert(nil, 0, hotstuff.GetGenesis().Hash()), c12Ctx{}, map[string]any{"gen": "genesis QC"})
	h.roundTrip(nil, "TC", hotstuff.NewTimeoutCert(nil, 0), c12Ctx{}, map[string]any{"gen": "view-0 TC"})
	h.roundTrip(nil, "Block", hotstuff.GetGenesis(), c12Ctx{}, map[string]any{"gen": "genesis block"})
	h.roundTrip(nil, "Sync", hotstuff.NewSyncInfo(), c12Ctx{}, map[string]any{"gen": "empty sync info"})
	for _, view := range c12Views {
		var hash hotstuff.Hash
		for i := range hash {
			hash[i] = byte(uint64(view) >> uint(i%8*8))
		}
		h.roundTrip(nil, "QC", hotstuff.NewQuorumCert(nil, view, hash), c12Ctx{}, map[string]any{"gen": "unsigned QC", "view": uint64(view)})
	}
	for ui, u := range us {
		subsets := c12Subsets(u.n)
		if u.scheme == crypto.NameBLS12 && !v.Thorough() {
			subsets = c12Subsets(3)
		}
		blk := u.blocks[2]
		for _, s := range subsets {
			for oi, ord := range c12Orders(s) {
				if u.scheme == crypto.NameBLS12 && oi > 0 {
					break // a BLS aggregate has no signer order
				}
				meta := func() map[string]any { return map[string]any{"gen": "exhaustive", "signers": fmt.Sprint(ord)} }
				qc := u.qcFor(blk, ord)
				h.roundTrip(u, "Sig", qc.Signature(), c12Ctx{}, meta())
				h.roundTrip(u, "QC", qc, c12Ctx{}, meta())
				view := c12Views[(len(s)+oi+ui)%len(c12Views)]
				if view == 0 {
					view = 5
				}
				h.roundTrip(u, "TC", u.tcFor(view, ord), c12Ctx{}, meta())
				if len(ord) <= 3 || v.Thorough() {
					qcs := make([]*hotstuff.QuorumCert, len(ord))
					for j := range qcs {
						if j%3 != 2 {
							q := u.qcFor(u.blocks[1+j%3], ord[:1+j%len(ord)])
							qcs[j] = &q
						}
					}
					h.roundTrip(u, "Agg", u.aggFor(view, ord, qcs), c12Ctx{}, meta())
				}
			}
		}
		for i := 0; i < u.n; i++ {
			for _, b := range u.blocks {
				h.roundTrip(u, "PC", u.pcFor(b, i), c12Ctx{}, map[string]any{"gen": "exhaustive", "signer": i + 1, "view": uint64(b.View())})
			}
		}
		// blocks: batch x certificate x timestamp, views and proposers cycling through the extremes
		batches := []*clientpb.Batch{nil, {}, c12Batch(1, 1), c12Batch(3, 2)}
		qcs := []hotstuff.QuorumCert{hotstuff.NewQuorumCert(nil, 0, hotstuff.GetGenesis().Hash()), {}, u.qcFor(u.blocks[3], []int{2, 0, 1})}
		cnt := 0
		for bi, batch := range batches {
			for qi, qc := range qcs {
				for ti, ts := range c12Times() {
					cnt++
					b := hotstuff.NewBlock(qc.BlockHash(), qc, batch, c12Views[cnt%len(c12Views)], c12IDs[cnt%len(c12IDs)])
					if ti > 0 {
						b.SetTimestamp(ts)
					}
					h.roundTrip(u, "Block", b, c12Ctx{}, map[string]any{"gen": "exhaustive", "batch": bi, "qc": qi, "ts": ti, "view": uint64(b.View()), "proposer": uint32(b.Proposer())})
				}
			}
		}
		// sync infos and timeout messages: every presence combination
		for mask := 0; mask < 8; mask++ {
			h.roundTrip(u, "Sync", h.randSync(u, mask), c12Ctx{}, map[string]any{"gen": "exhaustive", "mask": mask})
			for _, ms := range []bool{false, true} {
				m := h.randTimeout(u, mask, ms)
				h.roundTrip(u, "Timeout", m, c12Ctx{peer: m.ID}, map[string]any{"gen": "exhaustive", "mask": mask, "msgsig": ms})
			}
		}
		for _, agg := range []bool{false, true} {
			for _, kauri := range []bool{false, true} {
				p := h.randProposal(u, agg)
				h.roundTrip(u, "Proposal", p, c12Ctx{peer: p.ID, kauri: kauri}, map[string]any{"gen": "exhaustive", "agg": agg, "kauri": kauri})
			}
		}
	}

	// ---- (a') sparse ids, families, boundary shapes ----------------------------------------------
	for _, u := range sparse {
		blk := u.blocks[2]
		subsets := c12Subsets(u.n)
		if u.scheme == crypto.NameBLS12 && !v.Thorough() {
			subsets = c12Subsets(3)
		}
		for _, s := range subsets {
			ords := c12Orders(s)
			if u.scheme == crypto.NameBLS12 || !v.Thorough() {
				ords = ords[len(ords)-1:] // quick: the rotated (unsorted) order only
			}
			for _, ord := range ords {
				meta := func() map[string]any {
					return map[string]any{"gen": "exhaustive, sparse ids", "signers": fmt.Sprint(ord), "ids": fmt.Sprint(u.ids)}
				}
				h.roundTrip(u, "QC", u.qcFor(blk, ord), c12Ctx{}, meta())
				h.roundTrip(u, "TC", u.tcFor(c12Views[len(s)%len(c12Views)]+3, ord), c12Ctx{}, meta())
			}
		}
		for i := 0; i < u.n; i++ {
			h.roundTrip(u, "PC", u.pcFor(blk, i), c12Ctx{}, map[string]any{"gen": "exhaustive, sparse ids", "signer": uint32(u.ids[i])})
		}
	}
	for _, u := range append(append([]*c12Universe{}, us...), sparse...) {
		h.runFamilies(u)
		h.runShapes(u)
	}
	all := append(append([]*c12Universe{}, us...), sparse...)
	nonBLS := []*c12Universe{us[0], us[1], sparse[0], sparse[1]}

	// ---- (b) seeded random stream of Go-constructed objects ---------------------------------
	kindsList := []string{"Sig", "PC", "QC", "TC", "Agg", "Sync", "Timeout", "Block", "Proposal", "Block", "Timeout",
		"Sig*", "PC*", "QC*", "TC*", "Agg*", "Block*"}
	var gen func(u *c12Universe, kind string) (any, c12Ctx, map[string]any)
	gen = func(u *c12Universe, kind string) (any, c12Ctx, map[string]any) {
		meta := map[string]any{"gen": "random"}
		if strings.HasSuffix(kind, "*") { // the same kinds around a synthetic signature
			meta["gen"] = "random, synthetic signature"
			sig := h.synthSig(u)
			var hash hotstuff.Hash
			r.Read(hash[:])
			switch kind {
			case "Sig*":
				return sig, c12Ctx{}, meta
			case "PC*":
				return hotstuff.NewPartialCert(sig, hash), c12Ctx{}, meta
			case "QC*":
				return hotstuff.NewQuorumCert(sig, h.randView(), hash), c12Ctx{}, meta
			case "TC*":
				return hotstuff.NewTimeoutCert(sig, h.randView()), c12Ctx{}, meta
			case "Agg*":
				m := map[hotstuff.ID]hotstuff.QuorumCert{}
				for i, k := 0, r.Intn(4); i < k; i++ {
					m[h.randID(u.n)] = hotstuff.NewQuorumCert(h.synthSig(u), h.randView(), hash)
				}
				return hotstuff.NewAggregateQC(m, sig, h.randView()), c12Ctx{}, meta
			default:
				b := hotstuff.NewBlock(hash, hotstuff.NewQuorumCert(sig, h.randView(), hash), h.randBatch(), h.randView(), h.randID(u.n))
				b.SetTimestamp(h.randTime())
				return b, c12Ctx{}, meta
			}
		}
		switch kind {
		case "Sig":
			s := h.randSubset(u.n)
			meta["signers"] = fmt.Sprint(s)
			if r.Intn(2) == 0 {
				return u.qcFor(u.blocks[1+r.Intn(3)], s).Signature(), c12Ctx{}, meta
			}
			return u.tcFor(1+h.randView(), s).Signature(), c12Ctx{}, meta
		case "PC":
			b := u.blocks[r.Intn(len(u.blocks))]
			if r.Intn(3) == 0 {
				b, _ = h.randBlock(u)
			}
			return u.pcFor(b, r.Intn(u.n)), c12Ctx{}, meta
		case "QC":
			q, k := h.randQC(u)
			meta["qc"] = k
			if r.Intn(4) == 0 { // a certificate for a block outside the store, extreme view
				b, _ := h.randBlock(u)
				q = u.qcFor(b, h.randSubset(u.n))
				meta["qc"] = "signed-unstored"
			}
			return q, c12Ctx{}, meta
		case "TC":
			view := h.randView()
			meta["view"] = uint64(view)
			return u.tcFor(view, h.randSubset(u.n)), c12Ctx{}, meta
		case "Agg":
			s := h.randSubset(u.n)
			meta["signers"] = fmt.Sprint(s)
			return u.aggFor(h.randView(), s, h.randQCs(u, len(s))), c12Ctx{}, meta
		case "Sync":
			mask := r.Intn(8)
			meta["mask"] = mask
			return h.randSync(u, mask), c12Ctx{}, meta
		case "Timeout":
			mask, ms := r.Intn(8), r.Intn(3) != 0
			meta["mask"], meta["msgsig"] = mask, ms
			m := h.randTimeout(u, mask, ms)
			if r.Intn(8) == 0 {
				m.ID = h.randID(u.n)
			}
			return m, c12Ctx{peer: m.ID}, meta
		case "Block":
			b, bm := h.randBlock(u)
			for k, x := range bm {
				meta[k] = x
			}
			return b, c12Ctx{}, meta
		default:
			agg, kauri := r.Intn(2) == 0, r.Intn(3) == 0
			meta["agg"], meta["kauri"] = agg, kauri
			p := h.randProposal(u, agg)
			return p, c12Ctx{peer: p.ID, kauri: kauri}, meta
		}
	}
	for i, N := 0, v.Pick(700, 8000); i < N; i++ {
		u := all[r.Intn(len(all))]
		if u.scheme == crypto.NameBLS12 && r.Intn(2) == 0 {
			u = nonBLS[r.Intn(len(nonBLS))] // BLS signing is slow: half as many
		}
		kind := kindsList[r.Intn(len(kindsList))]
		x, c, meta := gen(u, kind)
		h.roundTrip(u, strings.TrimSuffix(kind, "*"), x, c, meta)
	}

	// ---- (b') aliasing between results handed out, and concurrent decoding ----------------------
	for _, u := range us {
		h.runAliasing(u)
	}
	c12Concurrent(v, 8, v.Pick(40, 150))

	// ---- (c) malformed / boundary protobuf messages through XFromProto ----------------------
	// absent and empty messages first
	for _, k := range []string{"Sig", "QC", "TC", "Agg", "Sync", "Timeout", "PC", "Block", "Proposal"} {
		h.fromPbOnly(k, h.kinds[k].newPb(), c12Ctx{peer: 2}, map[string]any{"gen": "empty message"})
	}
	h.fromPbNil("Sig", (*QuorumSignature)(nil))
	h.fromPbNil("PC", (*PartialCert)(nil))
	h.fromPbNil("QC", (*QuorumCert)(nil))
	h.fromPbNil("TC", (*TimeoutCert)(nil))
	h.fromPbNil("Agg", (*AggQC)(nil))
	h.fromPbNil("Sync", (*SyncInfo)(nil))
	h.fromPbNil("Block", (*Block)(nil))
	h.fromPbOnly("Proposal", &Proposal{AggQC: &AggQC{View: 4}}, c12Ctx{peer: 3}, map[string]any{"gen": "proposal without a block"})
	h.fromPbOnly("Proposal", &Proposal{Block: &Block{}}, c12Ctx{peer: 3}, map[string]any{"gen": "proposal with empty block"})
	h.fromPbOnly("Proposal", &Proposal{Block: &Block{Proposer: 7}}, c12Ctx{peer: 3, kauri: true}, map[string]any{"gen": "kauri proposal with empty block"})
	for i, N := 0, v.Pick(700, 8000); i < N; i++ {
		u := all[r.Intn(len(all))]
		if u.scheme == crypto.NameBLS12 && r.Intn(3) != 0 {
			u = nonBLS[r.Intn(len(nonBLS))]
		}
		kind := kindsList[r.Intn(len(kindsList))]
		x, c, meta := gen(u, kind)
		kind = strings.TrimSuffix(kind, "*")
		meta["gen"] = "mutated"
		pb := proto.Clone(h.kinds[kind].toPb(x))
		pb = h.mutate(kind, pb)
		if r.Intn(3) == 0 {
			c.peer = h.randID(u.n)
		}
		meta["scheme"] = u.scheme
		h.fromPbOnly(kind, pb, c, meta)
	}

	v.Close("every generated object once (key = kind + field dump); non-trivial = carries a signature with >= 1 participant, or is a mutated protobuf message")
	if len(v.fails) > 0 {
		t.Logf("oracle failures: %d (first: %s %s)", len(v.fails), v.fails[0].Fingerprint, v.fails[0].What)
	}
}

package cli

import (
	"bytes"
	"fmt"
	"io"
	"math/rand"
	"os"
	"path/filepath"
	"sort"
	"strings"
	"sync"
	"syscall"
	"testing"
	"time"

	"github.com/relab/hotstuff"
	"github.com/relab/hotstuff/twins"
)

func hotstuffID(x uint32) hotstuff.ID { return hotstuff.ID(x) }

// TestVerifC18 (cli part): `hotstuff twins generate` writes exactly the announced number of
// scenarios, in the generator's order, and they read back unchanged through twins.FromJSON.

type c18CliNop struct{}

func (c18CliNop) DPanic(...any)          {}
func (c18CliNop) DPanicf(string, ...any) {}
func (c18CliNop) Debug(...any)           {}
func (c18CliNop) Debugf(string, ...any)  {}
func (c18CliNop) Error(...any)           {}
func (c18CliNop) Errorf(string, ...any)  {}
func (c18CliNop) Fatal(...any)           {}
func (c18CliNop) Fatalf(string, ...any)  {}
func (c18CliNop) Info(...any)            {}
func (c18CliNop) Infof(string, ...any)   {}
func (c18CliNop) Panic(...any)           {}
func (c18CliNop) Panicf(string, ...any)  {}
func (c18CliNop) Warn(...any)            {}
func (c18CliNop) Warnf(string, ...any)   {}

func c18CliViewKey(v twins.View) string {
	var sb strings.Builder
	fmt.Fprintf(&sb, "L%d", v.Leader)
	for _, p := range v.Partitions {
		ids := make([]twins.NodeID, 0, len(p))
		for id := range p {
			ids = append(ids, id)
		}
		sort.Slice(ids, func(i, j int) bool {
			if ids[i].ReplicaID != ids[j].ReplicaID {
				return ids[i].ReplicaID < ids[j].ReplicaID
			}
			return ids[i].TwinID < ids[j].TwinID
		})
		sb.WriteString("|")
		for _, id := range ids {
			fmt.Fprintf(&sb, "%d.%d,", id.ReplicaID, id.TwinID)
		}
	}
	return sb.String()
}

func c18CliNats(xs []int) string {
	ss := make([]string, len(xs))
	for i, x := range xs {
		ss[i] = gNat(x)
	}
	return gList(ss)
}

// the options in generator order, obtained through the public API with one view per scenario
func c18CliOptions(nn, nt, p uint8) (keys map[string]int, n int) {
	g := twins.NewGenerator(c18CliNop{}, twins.Settings{NumNodes: nn, NumTwins: nt, Partitions: p, Views: 1})
	n = int(g.Remaining())
	keys = map[string]int{}
	for i := 0; i < n; i++ {
		s, err := func() (s twins.Scenario, err error) {
			defer func() {
				if recover() != nil {
					err = io.ErrUnexpectedEOF
				}
			}()
			return g.NextScenario()
		}()
		if err != nil || len(s) != 1 {
			break
		}
		keys[c18CliViewKey(s[0])] = i
	}
	return
}

func TestVerifC18(t *testing.T) {
	v := verifNew("C18")
	dir := t.TempDir()
	st := v.Stream("cli", "drain_mismatches", 12)
	run := 0
	maxAnn := int64(v.Pick(400, 5000))
	for nn := uint8(1); nn <= 4; nn++ {
		for nt := uint8(0); nt <= 2; nt++ {
			for p := uint8(1); p <= 3; p++ {
				keys, n := c18CliOptions(nn, nt, p)
				for views := uint8(1); views <= 3; views++ {
					for _, shuf := range []bool{false, true} {
						seed := int64(0)
						if shuf {
							seed = 77 + int64(run)
						}
						settings := twins.Settings{NumNodes: nn, NumTwins: nt, Partitions: p, Views: views, Ticks: 10}
						announced := twins.NewGenerator(c18CliNop{}, settings).Remaining()
						if announced > maxAnn {
							continue
						}
						run++
						perFile := uint64(0)
						if run%5 == 0 {
							perFile = 7 // the directory writer
						}
						meta := map[string]any{"num_nodes": nn, "num_twins": nt, "partitions": p, "views": views, "shuffle": shuf, "seed": seed,
							"announced": announced, "scenarios_per_file": perFile}
						dest := filepath.Join(dir, fmt.Sprintf("out%d", run))
						if perFile == 0 {
							dest += ".json"
						}
						// the command's flags
						numReplicas, numTwins, numPartitions, numViews = nn, nt, p, views
						numScenarios, numScenariosPerFile, numTicks = 0, perFile, 10
						shuffle, randSeed, twinsDest, twinsSrc = shuf, seed, dest, ""
						panicked := func() (pp bool) {
							defer func() {
								if r := recover(); r != nil {
									pp = true
									meta["panic"] = fmt.Sprint(r)
								}
							}()
							twinsGenerate()
							return false
						}()
						numScenarios = 0
						v.Count("cli_generate")
						if perFile > 0 {
							v.Count("cli_generate_dir")
						}
						v.Seen(fmt.Sprintf("cli %v", meta), n >= 2 && views >= 2, meta)
						if panicked {
							v.Oracle(false, "cli.generate:panic", "`twins generate` panics", meta)
							continue
						}
						var files []string
						if perFile == 0 {
							files = []string{dest}
						} else {
							for i := 0; ; i++ {
								f := filepath.Join(dest, fmt.Sprintf("%d.json", i))
								if _, err := os.Stat(f); err != nil {
									break
								}
								files = append(files, f)
							}
						}
						var scens []twins.Scenario
						okSettings, okRead, okPerFile := true, true, true
						for _, fn := range files {
							f, err := os.Open(fn)
							if err != nil {
								okRead = false
								continue
							}
							src, err := twins.FromJSON(f)
							_ = f.Close()
							if err != nil {
								okRead = false
								continue
							}
							want := settings
							want.Shuffle, want.Seed = shuf, seed
							if src.Settings() != want {
								okSettings = false
							}
							cnt := src.Remaining()
							if perFile > 0 && uint64(cnt) > perFile {
								okPerFile = false
							}
							for i := int64(0); i < cnt; i++ {
								s, err := src.NextScenario()
								if err != nil {
									okRead = false
									break
								}
								scens = append(scens, s)
							}
						}
						meta["written"] = len(scens)
						v.Oracle(okRead, "cli.generate:unreadable-output", "the written JSON cannot be read back", meta)
						v.Oracle(okSettings, "cli.generate:settings-changed", "the settings in the written JSON differ from the flags", meta)
						v.Oracle(okPerFile, "cli.generate:file-too-large", "a file holds more than scenarios-per-file scenarios", meta)
						v.Oracle(int64(len(scens)) == announced, "cli.generate:written-count-differs-from-announced",
							fmt.Sprintf("%d scenarios announced, %d written by `twins generate`", announced, len(scens)), meta)
						// the written sequence against the model
						shufTerm := "None"
						if shuf && n > 0 {
							r := rand.New(rand.NewSource(seed))
							perm := make([]int, n)
							for i := range perm {
								perm[i] = i
							}
							r.Shuffle(n, func(i, j int) { perm[i], perm[j] = perm[j], perm[i] })
							offs := make([]int, views)
							for i := range offs {
								offs[i] = r.Intn(n)
							}
							shufTerm = fmt.Sprintf("(Some (%s,%s))", c18CliNats(perm), c18CliNats(offs))
						} else if shuf {
							shufTerm = "(Some ([],[]))"
						}
						evs := make([]string, len(scens))
						for i, s := range scens {
							code, bad := uint64(0), len(s) != int(views)
							for _, vw := range s {
								idx, ok := keys[c18CliViewKey(vw)]
								if !ok {
									bad = true
								}
								code = code*uint64(n) + uint64(idx)
							}
							if bad {
								code = 1<<63 + code%1000
							}
							// Remaining() before the i-th call of the generator behind the command
							evs[i] = fmt.Sprintf("(%s,EvScen %s)", gZ(announced-int64(i)), gN(code))
						}
						v.Case(st, fmt.Sprintf("(%s,%s,%s,%s)", gNat(n), gNat(int(views)), shufTerm, gList(evs)), meta)
					}
				}
			}
		}
	}
	c18CliPartial(v, dir, st)
	c18CliRun(v, dir, st)
	c18CliRunJSONConcurrent(v, dir)
	c18CliRunSlowOutput(v, dir)
	c18CliDirWriterConcurrent(v, dir, v.Pick(4, 20))
	// `twins run` ends the process (log.Fatalf) when a worker's write fails; keep what was observed so far
	v.Close("cli: `twins generate` / `twins run` invocations per (settings, views, shuffle, --scenarios, input); non-trivial = at least 2 options and 2 views")
	c18CliRunDirConcurrent(v, dir)
	v.Close("cli: `twins generate` / `twins run` invocations per (settings, views, shuffle, --scenarios, input); non-trivial = at least 2 options and 2 views")
}

func c18CliReadAll(files []string) (scens []twins.Scenario, settings []twins.Settings, ok bool) {
	ok = true
	for _, fn := range files {
		f, err := os.Open(fn)
		if err != nil {
			return nil, nil, false
		}
		src, err := twins.FromJSON(f)
		_ = f.Close()
		if err != nil {
			return nil, nil, false
		}
		settings = append(settings, src.Settings())
		cnt := src.Remaining()
		for i := int64(0); i < cnt; i++ {
			s, err := src.NextScenario()
			if err != nil {
				return scens, settings, false
			}
			scens = append(scens, s)
		}
	}
	return
}

func c18CliCodes(scens []twins.Scenario, keys map[string]int, n int, views uint8, announced int64) string {
	evs := make([]string, len(scens))
	for i, s := range scens {
		code, bad := uint64(0), len(s) != int(views)
		for _, vw := range s {
			idx, ok := keys[c18CliViewKey(vw)]
			if !ok {
				bad = true
			}
			code = code*uint64(n) + uint64(idx)
		}
		if bad {
			code = 1<<63 + code%1000
		}
		evs[i] = fmt.Sprintf("(%s,EvScen %s)", gZ(announced-int64(i)), gN(code))
	}
	return gList(evs)
}

func c18CliCodeOf(s twins.Scenario, keys map[string]int, n int) uint64 {
	code := uint64(0)
	for _, vw := range s {
		code = code*uint64(n) + uint64(keys[c18CliViewKey(vw)])
	}
	return code
}

func c18CliQuiet(f func()) (panicMsg string) {
	devnull, err := os.OpenFile(os.DevNull, os.O_WRONLY, 0)
	if err == nil {
		old := os.Stderr
		os.Stderr = devnull
		defer func() { os.Stderr = old; _ = devnull.Close() }()
	}
	defer func() {
		if r := recover(); r != nil {
			panicMsg = fmt.Sprint(r)
		}
	}()
	f()
	return ""
}

// `twins generate --scenarios m`: exactly min(m, announced) scenarios, the generator's first ones
func c18CliPartial(v *verifOut, dir string, st *verifStream) {
	run := 0
	for _, c := range [][4]uint8{{2, 0, 2, 2}, {3, 0, 2, 2}, {3, 1, 2, 1}, {4, 1, 2, 1}, {2, 0, 1, 5}, {3, 0, 1, 3}} {
		nn, nt, p, views := c[0], c[1], c[2], c[3]
		keys, n := c18CliOptions(nn, nt, p)
		settings := twins.Settings{NumNodes: nn, NumTwins: nt, Partitions: p, Views: views, Ticks: 10}
		announced := twins.NewGenerator(c18CliNop{}, settings).Remaining()
		for _, m := range []int64{1, 2, announced - 1, announced, announced + 1, announced + 9} {
			if m < 1 {
				continue
			}
			for _, shuf := range []bool{false, true} {
				run++
				seed := int64(0)
				if shuf {
					seed = 1000 + int64(run)
				}
				meta := map[string]any{"num_nodes": nn, "num_twins": nt, "partitions": p, "views": views, "shuffle": shuf, "seed": seed,
					"announced": announced, "scenarios_flag": m}
				dest := filepath.Join(dir, fmt.Sprintf("part%d.json", run))
				numReplicas, numTwins, numPartitions, numViews = nn, nt, p, views
				numScenarios, numScenariosPerFile, numTicks = uint64(m), 0, 10
				shuffle, randSeed, twinsDest, twinsSrc = shuf, seed, dest, ""
				msg := c18CliQuiet(twinsGenerate)
				numScenarios = 0
				v.Count("cli_generate_partial")
				v.Seen(fmt.Sprintf("cli partial %v", meta), n >= 2, meta)
				if msg != "" {
					meta["panic"] = msg
					v.Oracle(false, "cli.generate:panic", "`twins generate --scenarios m` panics", meta)
					continue
				}
				scens, _, ok := c18CliReadAll([]string{dest})
				v.Oracle(ok, "cli.generate:unreadable-output", "the written JSON cannot be read back", meta)
				want := m
				if announced < want {
					want = announced
				}
				meta["written"] = len(scens)
				v.Oracle(int64(len(scens)) == want, "cli.generate:scenarios-flag-not-honoured",
					fmt.Sprintf("--scenarios %d with %d announced: %d written, expected %d", m, announced, len(scens), want), meta)
				shufTerm := "None"
				if shuf && n > 0 {
					r := rand.New(rand.NewSource(seed))
					perm := make([]int, n)
					for i := range perm {
						perm[i] = i
					}
					r.Shuffle(n, func(i, j int) { perm[i], perm[j] = perm[j], perm[i] })
					offs := make([]int, views)
					for i := range offs {
						offs[i] = r.Intn(n)
					}
					shufTerm = fmt.Sprintf("(Some (%s,%s))", c18CliNats(perm), c18CliNats(offs))
				}
				v.Case(st, fmt.Sprintf("(%s,%s,%s,%s)", gNat(n), gNat(int(views)), shufTerm, c18CliCodes(scens, keys, n, views, announced)), meta)
			}
		}
	}
}

// `twins run`: every scenario of the source is executed once, in order; with --log-all all of them are
// written, without it exactly the scenarios whose execution diverged
func c18CliRun(v *verifOut, dir string, st *verifStream) {
	// (a) generator source, --log-all, one and several workers (also when the number of scenarios is not a
	// multiple of the number of workers): every announced scenario is executed exactly once
	type runCfg struct {
		c       [4]uint8
		workers uint
	}
	var cfgs []runCfg
	for _, c := range [][4]uint8{{4, 0, 1, 2}, {4, 1, 2, 1}, {3, 0, 2, 1}} {
		cfgs = append(cfgs, runCfg{c, 1})
	}
	for _, w := range []uint{2, 3, 5, 7} {
		cfgs = append(cfgs, runCfg{[4]uint8{4, 0, 2, 1}, w}, runCfg{[4]uint8{4, 0, 1, 2}, w})
	}
	for i, rc := range cfgs {
		nn, nt, p, views := rc.c[0], rc.c[1], rc.c[2], rc.c[3]
		keys, n := c18CliOptions(nn, nt, p)
		settings := twins.Settings{NumNodes: nn, NumTwins: nt, Partitions: p, Views: views, Ticks: 4}
		announced := twins.NewGenerator(c18CliNop{}, settings).Remaining()
		meta := map[string]any{"num_nodes": nn, "num_twins": nt, "partitions": p, "views": views, "announced": announced, "mode": "run --log-all", "concurrency": rc.workers}
		dest := filepath.Join(dir, fmt.Sprintf("run%d.json", i))
		numReplicas, numTwins, numPartitions, numViews = nn, nt, p, views
		numScenarios, numScenariosPerFile, numTicks = 0, 0, 4
		shuffle, randSeed, twinsDest, twinsSrc = false, 0, dest, ""
		twinsConsensus, logAll, concurrency = "chainedhotstuff", true, rc.workers
		msg := c18CliQuiet(twinsRun)
		numScenarios, logAll, concurrency = 0, false, 1
		v.Count("cli_run_generator")
		if rc.workers > 1 {
			v.Count("cli_run_concurrent")
		}
		v.Seen(fmt.Sprintf("cli run %v", meta), true, meta)
		if msg != "" {
			meta["panic"] = msg
			v.Oracle(false, "cli.run:panic", "`twins run` panics", meta)
			continue
		}
		scens, _, ok := c18CliReadAll([]string{dest})
		meta["written"] = len(scens)
		v.Oracle(ok, "cli.run:unreadable-output", "the written JSON cannot be read back", meta)
		v.Oracle(int64(len(scens)) == announced, "cli.run:executed-count-differs-from-announced",
			fmt.Sprintf("%d scenarios announced, %d executed and logged by `twins run --log-all --concurrency %d`", announced, len(scens), rc.workers), meta)
		if rc.workers > 1 {
			// the workers finish in any order; the unshuffled generator's order is ascending in the
			// base-n code of the scenario, so sorting the written scenarios restores it
			sort.SliceStable(scens, func(a, b int) bool { return c18CliCodeOf(scens[a], keys, n) < c18CliCodeOf(scens[b], keys, n) })
			distinct := map[uint64]bool{}
			for _, sc := range scens {
				distinct[c18CliCodeOf(sc, keys, n)] = true
			}
			v.Oracle(len(distinct) == len(scens), "cli.run:scenario-executed-twice", "a scenario was executed and logged more than once", meta)
		}
		v.Case(st, fmt.Sprintf("(%s,%s,None,%s)", gNat(n), gNat(int(views)), c18CliCodes(scens, keys, n, views, announced)), meta)
	}

	// (b) JSON source with safe and genuinely unsafe scenarios (two twin pairs split the network so that
	// both halves hold a quorum of replica ids): only the unsafe ones are reported
	r := func(id uint32) twins.NodeID { return twins.Replica(hotstuffID(id)) }
	a := twins.NewNodeSet(r(1).Twin(1), r(2).Twin(1), r(3))
	b := twins.NewNodeSet(r(1).Twin(2), r(2).Twin(2), r(4))
	every := twins.NewNodeSet(r(1).Twin(1), r(2).Twin(1), r(3), r(1).Twin(2), r(2).Twin(2), r(4))
	mk := func(split []bool) twins.Scenario {
		var s twins.Scenario
		for i, sp := range split {
			if sp {
				s = append(s, twins.View{Leader: hotstuffID(uint32(1 + i%2)), Partitions: []twins.NodeSet{a, b}})
			} else {
				s = append(s, twins.View{Leader: 3, Partitions: []twins.NodeSet{every, {}}})
			}
		}
		return s
	}
	T, F := true, false
	input := []twins.Scenario{
		mk([]bool{F, F, F, F, F, F}),       // safe
		mk([]bool{T, T, T, T, T, T}),       // diverges at position 0
		mk([]bool{F, F, F, F, F, F}),       // safe
		mk([]bool{F, F, F, F, T, T, T, T}), // common prefix, then diverges
		mk([]bool{F, F}),                   // safe, nothing committed
	}
	unsafe := []bool{false, true, false, true, false}
	settings := twins.Settings{NumNodes: 4, NumTwins: 2, Partitions: 2, Views: 8, Ticks: 120}
	src := filepath.Join(dir, "run-input.json")
	f, err := os.Create(src)
	if err != nil {
		v.Note("cannot create run input: " + err.Error())
		return
	}
	wr, _ := twins.ToJSON(settings, f)
	for _, s := range input {
		_ = wr.WriteScenario(s)
	}
	_ = wr.Close()
	_ = f.Close()
	for _, all := range []bool{false, true} {
		meta := map[string]any{"mode": "run --input", "log_all": all, "input_scenarios": len(input), "unsafe_input": unsafe}
		dest := filepath.Join(dir, fmt.Sprintf("run-out-%v.json", all))
		numScenarios, numScenariosPerFile = 0, 0
		twinsDest, twinsSrc = dest, src
		twinsConsensus, logAll, concurrency = "chainedhotstuff", all, 1
		msg := c18CliQuiet(twinsRun)
		numScenarios, logAll, twinsSrc = 0, false, ""
		v.Count("cli_run_json")
		v.Seen(fmt.Sprintf("cli run json %v", all), true, meta)
		if msg != "" {
			meta["panic"] = msg
			v.Oracle(false, "cli.run:panic", "`twins run --input` panics", meta)
			continue
		}
		out, sets, ok := c18CliReadAll([]string{dest})
		v.Oracle(ok, "cli.run:unreadable-output", "the written JSON cannot be read back", meta)
		v.Oracle(len(sets) == 1 && sets[0] == settings, "cli.run:settings-changed", "the settings of the input file are not those of the output file", meta)
		var wantKeys, gotKeys []string
		for i, s := range input {
			if all || unsafe[i] {
				wantKeys = append(wantKeys, c18CliScenKey(s))
			}
		}
		for _, s := range out {
			gotKeys = append(gotKeys, c18CliScenKey(s))
		}
		meta["reported"] = len(out)
		fp, what := "cli.run:divergent-scenarios-not-reported-exactly", "`twins run` must write exactly the scenarios whose execution diverged"
		if all {
			fp, what = "cli.run:log-all-output-differs-from-input", "`twins run --log-all` must write every executed scenario, in order"
		}
		v.Oracle(strings.Join(gotKeys, ";") == strings.Join(wantKeys, ";"), fp, fmt.Sprintf("%s: %d written, %d expected", what, len(gotKeys), len(wantKeys)), meta)
	}
}

// `twins run --input file --concurrency N --log-all`: the workers share the JSON source; every scenario
// of the file is executed and logged exactly once
func c18CliRunJSONConcurrent(v *verifOut, dir string) {
	for ci, c := range [][4]uint8{{4, 0, 2, 1}, {4, 0, 1, 2}, {3, 0, 2, 2}} {
		settings := twins.Settings{NumNodes: c[0], NumTwins: c[1], Partitions: c[2], Views: c[3], Ticks: 3}
		g := twins.NewGenerator(c18CliNop{}, settings)
		var input []twins.Scenario
		for {
			s, err := g.NextScenario()
			if err != nil {
				break
			}
			input = append(input, s)
		}
		src := filepath.Join(dir, fmt.Sprintf("crun-in-%d.json", ci))
		f, err := os.Create(src)
		if err != nil {
			v.Note("cannot create run input: " + err.Error())
			return
		}
		wr, _ := twins.ToJSON(settings, f)
		for _, s := range input {
			_ = wr.WriteScenario(s)
		}
		_ = wr.Close()
		_ = f.Close()
		for _, w := range []uint{3, 8} {
			meta := map[string]any{"mode": "run --input --log-all", "concurrency": w, "input_scenarios": len(input),
				"num_nodes": c[0], "num_twins": c[1], "partitions": c[2], "views": c[3]}
			dest := filepath.Join(dir, fmt.Sprintf("crun-out-%d-%d.json", ci, w))
			numScenarios, numScenariosPerFile = 0, 0
			twinsDest, twinsSrc = dest, src
			twinsConsensus, logAll, concurrency = "chainedhotstuff", true, w
			msg := c18CliQuiet(twinsRun)
			numScenarios, logAll, twinsSrc, concurrency = 0, false, "", 1
			v.Count("cli_run_json_concurrent")
			v.Seen(fmt.Sprintf("cli crun %d %d", ci, w), true, meta)
			if msg != "" {
				meta["panic"] = msg
				v.Oracle(false, "cli.run:panic", "`twins run --input --concurrency` panics", meta)
				continue
			}
			out, _, ok := c18CliReadAll([]string{dest})
			v.Oracle(ok, "cli.run:unreadable-output", "the written JSON cannot be read back", meta)
			want, have := map[string]int{}, map[string]int{}
			for _, s := range input {
				want[c18CliScenKey(s)]++
			}
			for _, s := range out {
				have[c18CliScenKey(s)]++
			}
			twice, missing := 0, 0
			for k, x := range have {
				if x > want[k] {
					twice += x - want[k]
				}
			}
			for k, x := range want {
				if have[k] < x {
					missing += x - have[k]
				}
			}
			meta["written"], meta["executed_twice"], meta["missing"] = len(out), twice, missing
			v.Oracle(twice == 0 && missing == 0 && len(out) == len(input), "cli.run:concurrent-json-run-differs-from-input",
				fmt.Sprintf("`twins run --input` with %d workers: %d scenarios in the file, %d executed and logged, %d twice, %d missing", w, len(input), len(out), twice, missing), meta)
		}
	}
}

// `twins run --concurrency N --output <slow pipe> --log-all`: the output is a named pipe whose reader is slow
// (a slow disk, a full pipe), so the workers queue up on the shared JSON writer; what arrives at the other
// end must be every executed (= announced) scenario exactly once.
func c18CliRunSlowOutput(v *verifOut, dir string) {
	for ci, c := range [][4]uint8{{3, 0, 2, 3}, {4, 1, 2, 2}} {
		for _, w := range []uint{3, 8} {
			nn, nt, p, views := c[0], c[1], c[2], c[3]
			settings := twins.Settings{NumNodes: nn, NumTwins: nt, Partitions: p, Views: views, Ticks: 2}
			g := twins.NewGenerator(c18CliNop{}, settings)
			announced := g.Remaining()
			var input []twins.Scenario
			for {
				s, err := g.NextScenario()
				if err != nil {
					break
				}
				input = append(input, s)
			}
			meta := map[string]any{"mode": "run --log-all --output <slow pipe>", "concurrency": w, "announced": announced,
				"num_nodes": nn, "num_twins": nt, "partitions": p, "views": views}
			fifo := filepath.Join(dir, fmt.Sprintf("slow-%d-%d.fifo", ci, w))
			if err := syscall.Mkfifo(fifo, 0o600); err != nil {
				v.Note("cannot create a named pipe, slow-output runs skipped: " + err.Error())
				return
			}
			var doc bytes.Buffer
			var rd sync.WaitGroup
			rd.Add(1)
			go func() {
				defer rd.Done()
				f, err := os.Open(fifo)
				if err != nil {
					return
				}
				defer f.Close()
				chunk := make([]byte, 2048)
				for {
					k, err := f.Read(chunk)
					doc.Write(chunk[:k])
					if err != nil {
						return
					}
					time.Sleep(500 * time.Microsecond)
				}
			}()
			numReplicas, numTwins, numPartitions, numViews = nn, nt, p, views
			numScenarios, numScenariosPerFile, numTicks = 0, 0, 2
			shuffle, randSeed, twinsDest, twinsSrc = false, 0, fifo, ""
			twinsConsensus, logAll, concurrency = "chainedhotstuff", true, w
			msg := c18CliQuiet(twinsRun)
			numScenarios, logAll, concurrency = 0, false, 1
			done := make(chan struct{})
			go func() { rd.Wait(); close(done) }()
			select {
			case <-done:
			case <-time.After(20 * time.Second):
				v.Note("slow-output run: the pipe reader did not see the end of the output")
				continue
			}
			v.Count("cli_run_slow_output")
			v.Seen(fmt.Sprintf("cli slow %d %d", ci, w), true, meta)
			if msg != "" {
				meta["panic"] = msg
				v.Oracle(false, "cli.run:panic", "`twins run` panics", meta)
				continue
			}
			src, err := twins.FromJSON(bytes.NewReader(doc.Bytes()))
			if err != nil {
				meta["error"] = err.Error()
				v.Oracle(false, "cli.run:unreadable-output", "the JSON written by concurrent workers cannot be read back: "+err.Error(), meta)
				continue
			}
			want, have := map[string]int{}, map[string]int{}
			for _, s := range input {
				want[c18CliScenKey(s)]++
			}
			cnt, readErr := 0, ""
			for {
				s, err := src.NextScenario()
				if err != nil {
					if err != io.EOF {
						readErr = err.Error()
					}
					break
				}
				cnt++
				have[c18CliScenKey(s)]++
			}
			twice, missing := 0, 0
			for k, x := range have {
				if x > want[k] {
					twice += x - want[k]
				}
			}
			for k, x := range want {
				if have[k] < x {
					missing += x - have[k]
				}
			}
			meta["written"], meta["logged_twice_or_foreign"], meta["missing"], meta["read_error"] = cnt, twice, missing, readErr
			v.Oracle(readErr == "" && twice == 0 && missing == 0 && int64(cnt) == announced, "cli.run:logged-scenarios-differ-from-executed",
				fmt.Sprintf("`twins run --log-all` with %d workers and a slow output: %d scenarios executed, %d logged, %d of them twice or never executed, %d missing %s", w, announced, cnt, twice, missing, readErr), meta)
		}
	}
}

// c18CliCheckDir reads every file of a directory written by the dirWriter back through twins.FromJSON and
// compares with the scenarios that were accepted (WriteScenario returned nil).
func c18CliCheckDir(v *verifOut, d string, accepted []twins.Scenario, perFile uint64, settings twins.Settings, meta map[string]any) {
	entries, err := os.ReadDir(d)
	if err != nil {
		v.Oracle(false, "cli.dir:unreadable-output", "the output directory cannot be read: "+err.Error(), meta)
		return
	}
	have := map[string]int{}
	total, okRead, okSize, okSettings := 0, true, true, true
	readErr := ""
	for _, e := range entries {
		f, err := os.Open(filepath.Join(d, e.Name()))
		if err != nil {
			okRead, readErr = false, err.Error()
			continue
		}
		src, err := twins.FromJSON(f)
		_ = f.Close()
		if err != nil {
			okRead, readErr = false, e.Name()+": "+err.Error()
			continue
		}
		if src.Settings() != settings {
			okSettings = false
		}
		cnt := src.Remaining()
		if uint64(cnt) > perFile {
			okSize = false
		}
		for i := int64(0); i < cnt; i++ {
			sc, err := src.NextScenario()
			if err != nil {
				okRead, readErr = false, e.Name()+": "+err.Error()
				break
			}
			total++
			have[c18CliScenKey(sc)]++
		}
	}
	want := map[string]int{}
	for _, sc := range accepted {
		want[c18CliScenKey(sc)]++
	}
	twice, missing := 0, 0
	for k, x := range have {
		if x > want[k] {
			twice += x - want[k]
		}
	}
	for k, x := range want {
		if have[k] < x {
			missing += x - have[k]
		}
	}
	meta["files"], meta["accepted"], meta["read_back"], meta["twice_or_foreign"], meta["missing"], meta["read_error"] = len(entries), len(accepted), total, twice, missing, readErr
	v.Oracle(okRead, "cli.dir:unreadable-file", "a file written by the directory writer cannot be read back: "+readErr, meta)
	v.Oracle(okSettings, "cli.dir:settings-changed", "a file of the directory writer carries other settings", meta)
	v.Oracle(okSize, "cli.dir:file-too-large", "a file holds more than scenarios-per-file scenarios", meta)
	v.Oracle(twice == 0 && missing == 0 && total == len(accepted), "cli.dir:files-differ-from-accepted-scenarios",
		fmt.Sprintf("directory writer: %d scenarios accepted (WriteScenario returned nil), %d found in the %d files, %d of them twice or never written, %d missing", len(accepted), total, len(entries), twice, missing), meta)
}

func c18CliScenarios(nn, nt, p, views uint8) ([]twins.Scenario, twins.Settings) {
	settings := twins.Settings{NumNodes: nn, NumTwins: nt, Partitions: p, Views: views, Ticks: 2}
	g := twins.NewGenerator(c18CliNop{}, settings)
	var scens []twins.Scenario
	for {
		s, err := g.NextScenario()
		if err != nil {
			break
		}
		scens = append(scens, s)
	}
	return scens, settings
}

// Several workers push distinct scenarios through one real dirWriter (`--output <dir> --scenarios-per-file N`).
func c18CliDirWriterConcurrent(v *verifOut, dir string, rounds int) {
	run := 0
	for _, c := range [][4]uint8{{4, 1, 2, 2}, {3, 0, 2, 3}} { // 324 and 216 distinct scenarios
		scens, settings := c18CliScenarios(c[0], c[1], c[2], c[3])
		for _, perFile := range []uint64{1, 2, 5} {
			for _, w := range []int{2, 8} {
				failed := false
				for r := 0; r < rounds && !failed; r++ {
					run++
					d := filepath.Join(dir, fmt.Sprintf("dirw-%d", run))
					if err := os.MkdirAll(d, 0o755); err != nil {
						return
					}
					numScenariosPerFile = perFile
					dw := &dirWriter{settings: settings, dir: d}
					var mu sync.Mutex
					var accepted []twins.Scenario
					var errs []string
					var wg sync.WaitGroup
					start := make(chan struct{})
					for i := 0; i < w; i++ {
						wg.Add(1)
						go func(i int) {
							defer wg.Done()
							defer func() {
								if rec := recover(); rec != nil {
									mu.Lock()
									errs = append(errs, fmt.Sprint("panic: ", rec))
									mu.Unlock()
								}
							}()
							<-start
							var mine []twins.Scenario
							var myErrs []string
							for j := i; j < len(scens); j += w {
								if err := dw.WriteScenario(scens[j]); err != nil {
									myErrs = append(myErrs, err.Error())
								} else {
									mine = append(mine, scens[j])
								}
							}
							mu.Lock()
							accepted = append(accepted, mine...)
							errs = append(errs, myErrs...)
							mu.Unlock()
						}(i)
					}
					close(start)
					wg.Wait()
					cerr := dw.Close()
					numScenariosPerFile = 0
					meta := map[string]any{"mode": "dirWriter", "goroutines": w, "scenarios_per_file": perFile, "scenarios": len(scens), "round": r,
						"num_nodes": c[0], "num_twins": c[1], "partitions": c[2], "views": c[3]}
					v.Count("cli_dirwriter_concurrent")
					v.Seen(fmt.Sprintf("dirw %v %d %d %d", c, perFile, w, r), true, meta)
					if len(errs) > 0 || cerr != nil {
						meta["errors"] = fmt.Sprint(errs, cerr)
						v.Oracle(false, "cli.dir:write-error", fmt.Sprintf("dirWriter.WriteScenario/Close fail with %d concurrent workers: %v %v", w, errs, cerr), meta)
						failed = true
					}
					before := len(v.fails)
					c18CliCheckDir(v, d, accepted, perFile, settings, meta)
					failed = failed || len(v.fails) > before
					_ = os.RemoveAll(d)
				}
			}
		}
	}
}

// `twins run --concurrency N --log-all --output <dir> --scenarios-per-file 2`
func c18CliRunDirConcurrent(v *verifOut, dir string) {
	for ci, c := range [][4]uint8{{3, 0, 2, 3}, {4, 0, 1, 3}} {
		scens, settings := c18CliScenarios(c[0], c[1], c[2], c[3])
		for _, w := range []uint{3, 8} {
			d := filepath.Join(dir, fmt.Sprintf("rundir-%d-%d", ci, w))
			numReplicas, numTwins, numPartitions, numViews = c[0], c[1], c[2], c[3]
			numScenarios, numScenariosPerFile, numTicks = 0, 2, 2
			shuffle, randSeed, twinsDest, twinsSrc = false, 0, d, ""
			twinsConsensus, logAll, concurrency = "chainedhotstuff", true, w
			msg := c18CliQuiet(twinsRun)
			numScenarios, numScenariosPerFile, logAll, concurrency = 0, 0, false, 1
			meta := map[string]any{"mode": "run --log-all --output <dir> --scenarios-per-file 2", "concurrency": w, "announced": len(scens),
				"num_nodes": c[0], "num_twins": c[1], "partitions": c[2], "views": c[3]}
			v.Count("cli_run_dir_concurrent")
			v.Seen(fmt.Sprintf("cli rundir %d %d", ci, w), true, meta)
			if msg != "" {
				meta["panic"] = msg
				v.Oracle(false, "cli.run:panic", "`twins run --output <dir>` panics", meta)
				continue
			}
			c18CliCheckDir(v, d, scens, 2, settings, meta)
		}
	}
}

// TestVerifC18Race: the directory writer under concurrent workers alone; the thorough tier runs it under -race.
func TestVerifC18Race(t *testing.T) {
	v := verifNew("C18")
	v.prop = "C18race"
	c18CliDirWriterConcurrent(v, t.TempDir(), 3)
	v.Close("directory writer with concurrent workers under the race detector")
}

func c18CliScenKey(s twins.Scenario) string {
	ks := make([]string, len(s))
	for i, vw := range s {
		ks[i] = c18CliViewKey(vw)
	}
	return strings.Join(ks, "/")
}

package cli

import (
	"fmt"
	"io"
	"math/rand"
	"os"
	"path/filepath"
	"sort"
	"strings"
	"testing"

	"github.com/relab/hotstuff/twins"
)

// TestVerifC18 (cli part): `hotstuff twins generate` writes exactly the announced number of
// scenarios, in the generator's order, and they read back unchanged through twins.FromJSON.

type c18CliNop struct{}

func (c18CliNop) DPanic(...any)          {}
func (c18CliNop) DPanicf(string, ...any) {}
func (c18CliNop) Debug(...any)           {}
func (c18CliNop) Debugf(string, ...any)  {}
func (c18CliNop) Error(...any)           {}
func (c18CliNop) Errorf(string, ...any)  {}
func (c18CliNop) Fatal(...any)           {}
func (c18CliNop) Fatalf(string, ...any)  {}
func (c18CliNop) Info(...any)            {}
func (c18CliNop) Infof(string, ...any)   {}
func (c18CliNop) Panic(...any)           {}
func (c18CliNop) Panicf(string, ...any)  {}
func (c18CliNop) Warn(...any)            {}
func (c18CliNop) Warnf(string, ...any)   {}

func c18CliViewKey(v twins.View) string {
	var sb strings.Builder
	fmt.Fprintf(&sb, "L%d", v.Leader)
	for _, p := range v.Partitions {
		ids := make([]twins.NodeID, 0, len(p))
		for id := range p {
			ids = append(ids, id)
		}
		sort.Slice(ids, func(i, j int) bool {
			if ids[i].ReplicaID != ids[j].ReplicaID {
				return ids[i].ReplicaID < ids[j].ReplicaID
			}
			return ids[i].TwinID < ids[j].TwinID
		})
		sb.WriteString("|")
		for _, id := range ids {
			fmt.Fprintf(&sb, "%d.%d,", id.ReplicaID, id.TwinID)
		}
	}
	return sb.String()
}

func c18CliNats(xs []int) string {
	ss := make([]string, len(xs))
	for i, x := range xs {
		ss[i] = gNat(x)
	}
	return gList(ss)
}

// the options in generator order, obtained through the public API with one view per scenario
func c18CliOptions(nn, nt, p uint8) (keys map[string]int, n int) {
	g := twins.NewGenerator(c18CliNop{}, twins.Settings{NumNodes: nn, NumTwins: nt, Partitions: p, Views: 1})
	n = int(g.Remaining())
	keys = map[string]int{}
	for i := 0; i < n; i++ {
		s, err := func() (s twins.Scenario, err error) {
			defer func() {
				if recover() != nil {
					err = io.ErrUnexpectedEOF
				}
			}()
			return g.NextScenario()
		}()
		if err != nil || len(s) != 1 {
			break
		}
		keys[c18CliViewKey(s[0])] = i
	}
	return
}

func TestVerifC18(t *testing.T) {
	v := verifNew("C18")
	dir := t.TempDir()
	st := v.Stream("cli", "drain_mismatches", 12)
	run := 0
	maxAnn := int64(v.Pick(400, 5000))
	for nn := uint8(1); nn <= 4; nn++ {
		for nt := uint8(0); nt <= 2; nt++ {
			for p := uint8(1); p <= 3; p++ {
				keys, n := c18CliOptions(nn, nt, p)
				for views := uint8(1); views <= 3; views++ {
					for _, shuf := range []bool{false, true} {
						seed := int64(0)
						if shuf {
							seed = 77 + int64(run)
						}
						settings := twins.Settings{NumNodes: nn, NumTwins: nt, Partitions: p, Views: views, Ticks: 10}
						announced := twins.NewGenerator(c18CliNop{}, settings).Remaining()
						if announced > maxAnn {
							continue
						}
						run++
						perFile := uint64(0)
						if run%5 == 0 {
							perFile = 7 // the directory writer
						}
						meta := map[string]any{"num_nodes": nn, "num_twins": nt, "partitions": p, "views": views, "shuffle": shuf, "seed": seed,
							"announced": announced, "scenarios_per_file": perFile}
						dest := filepath.Join(dir, fmt.Sprintf("out%d", run))
						if perFile == 0 {
							dest += ".json"
						}
						// the command's flags
						numReplicas, numTwins, numPartitions, numViews = nn, nt, p, views
						numScenarios, numScenariosPerFile, numTicks = 0, perFile, 10
						shuffle, randSeed, twinsDest, twinsSrc = shuf, seed, dest, ""
						panicked := func() (pp bool) {
							defer func() {
								if r := recover(); r != nil {
									pp = true
									meta["panic"] = fmt.Sprint(r)
								}
							}()
							twinsGenerate()
							return false
						}()
						numScenarios = 0
						v.Count("cli_generate")
						if perFile > 0 {
							v.Count("cli_generate_dir")
						}
						v.Seen(fmt.Sprintf("cli %v", meta), n >= 2 && views >= 2, meta)
						if panicked {
							v.Oracle(false, "cli.generate:panic", "`twins generate` panics", meta)
							continue
						}
						var files []string
						if perFile == 0 {
							files = []string{dest}
						} else {
							for i := 0; ; i++ {
								f := filepath.Join(dest, fmt.Sprintf("%d.json", i))
								if _, err := os.Stat(f); err != nil {
									break
								}
								files = append(files, f)
							}
						}
						var scens []twins.Scenario
						okSettings, okRead, okPerFile := true, true, true
						for _, fn := range files {
							f, err := os.Open(fn)
							if err != nil {
								okRead = false
								continue
							}
							src, err := twins.FromJSON(f)
							_ = f.Close()
							if err != nil {
								okRead = false
								continue
							}
							want := settings
							want.Shuffle, want.Seed = shuf, seed
							if src.Settings() != want {
								okSettings = false
							}
							cnt := src.Remaining()
							if perFile > 0 && uint64(cnt) > perFile {
								okPerFile = false
							}
							for i := int64(0); i < cnt; i++ {
								s, err := src.NextScenario()
								if err != nil {
									okRead = false
									break
								}
								scens = append(scens, s)
							}
						}
						meta["written"] = len(scens)
						v.Oracle(okRead, "cli.generate:unreadable-output", "the written JSON cannot be read back", meta)
						v.Oracle(okSettings, "cli.generate:settings-changed", "the settings in the written JSON differ from the flags", meta)
						v.Oracle(okPerFile, "cli.generate:file-too-large", "a file holds more than scenarios-per-file scenarios", meta)
						v.Oracle(int64(len(scens)) == announced, "cli.generate:written-count-differs-from-announced",
							fmt.Sprintf("%d scenarios announced, %d written by `twins generate`", announced, len(scens)), meta)
						// the written sequence against the model
						shufTerm := "None"
						if shuf && n > 0 {
							r := rand.New(rand.NewSource(seed))
							perm := make([]int, n)
							for i := range perm {
								perm[i] = i
							}
							r.Shuffle(n, func(i, j int) { perm[i], perm[j] = perm[j], perm[i] })
							offs := make([]int, views)
							for i := range offs {
								offs[i] = r.Intn(n)
							}
							shufTerm = fmt.Sprintf("(Some (%s,%s))", c18CliNats(perm), c18CliNats(offs))
						} else if shuf {
							shufTerm = "(Some ([],[]))"
						}
						evs := make([]string, len(scens))
						for i, s := range scens {
							code, bad := uint64(0), len(s) != int(views)
							for _, vw := range s {
								idx, ok := keys[c18CliViewKey(vw)]
								if !ok {
									bad = true
								}
								code = code*uint64(n) + uint64(idx)
							}
							if bad {
								code = 1<<63 + code%1000
							}
							// Remaining() before the i-th call, had the scenarios been read from one source
							evs[i] = fmt.Sprintf("(%s,EvScen %s)", gZ(int64(len(scens)-i)), gN(code))
						}
						v.Case(st, fmt.Sprintf("(%s,%s,%s,%s)", gNat(n), gNat(int(views)), shufTerm, gList(evs)), meta)
					}
				}
			}
		}
	}
	v.Close("cli: `twins generate` runs per (settings, views, shuffle); non-trivial = at least 2 options and 2 views")
}

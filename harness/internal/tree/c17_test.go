package tree

import (
	"fmt"
	"slices"
	"sort"
	"strings"
	"testing"
	"time"

	"github.com/relab/hotstuff"
	"github.com/relab/hotstuff/internal/latency"
)

// C17 — the Kauri tree is one consistent tree over all replicas.
//
// For a position assignment ids and a branch factor bf, every replica x builds its own Tree
// (NewSimple(x, bf, own copy of ids)), exactly as the replicas of a deployment do. The harness
// records what each instance answers, evaluates the property's sentence on those answers (the
// tree relations are recomputed from the Parent() answers alone) and emits everything for the
// kernel, which recomputes each answer from coq/Tree/TreeModel.v.

type c17Row struct {
	y        hotstuff.ID
	children []hotstuff.ID
	isRoot   bool
	height   int
}

type c17Inst struct {
	x           hotstuff.ID
	parent      hotstuff.ID
	hasParent   bool
	children    []hotstuff.ID
	subtree     []hotstuff.ID
	subtreeDone bool
	peers       []hotstuff.ID
	rheight     int
	theight     int
	root        hotstuff.ID
	isRootSelf  bool
	table       []c17Row
	panicked    string
	diverges    string
}

// c17Abort is set when a SubTree call had to be abandoned (its goroutine keeps running): the
// run stops generating inputs and reports what it has.
var c17Abort bool

func c17IDs(xs []hotstuff.ID) string {
	ss := make([]string, len(xs))
	for i, x := range xs {
		ss[i] = gN(uint64(x))
	}
	return gList(ss)
}

func c17Ints(xs []hotstuff.ID) []uint32 {
	r := make([]uint32, len(xs))
	for i, x := range xs {
		r[i] = uint32(x)
	}
	return r
}

func c17Sorted(xs []hotstuff.ID) []hotstuff.ID {
	r := slices.Clone(xs)
	slices.Sort(r)
	return r
}

// c17Observe builds the instance of replica x and queries it. queries = ids to ask
// ChildrenOf/IsRoot/heightOf about (nil = no table). withSubTree=false skips SubTree (position
// lists with repeated ids, where the Go loop need not terminate).
func c17Observe(x hotstuff.ID, bf int, ids []hotstuff.ID, queries []hotstuff.ID, withSubTree bool) (in c17Inst) {
	in.x = x
	stage := "NewSimple"
	defer func() {
		if r := recover(); r != nil {
			in.panicked = fmt.Sprintf("%s: %v", stage, r)
		}
	}()
	own := slices.Clone(ids) // each replica holds its own copy of the configuration
	t := NewSimple(x, bf, own)
	stage = "Parent"
	in.parent, in.hasParent = t.Parent()
	stage = "ReplicaChildren"
	in.children = slices.Clone(t.ReplicaChildren())
	if withSubTree {
		// SubTree expands a work list with ChildrenOf; if the children relation of this instance
		// is not a finite tree below x the loop does not end. Expand it here first, bounded by n.
		stage = "ChildrenOf"
		work := slices.Clone(t.ChildrenOf(x))
		for i := 0; i < len(work) && len(work) <= len(ids); i++ {
			work = append(work, t.ChildrenOf(work[i])...)
		}
		if len(work) > len(ids) {
			in.diverges = fmt.Sprintf("expanding ChildrenOf below replica %d yields more than n=%d entries: %v", x, len(ids), work)
		} else {
			stage = "SubTree"
			st, pan, timedOut := c17SafeSubTree(t)
			if pan != nil {
				panic(pan)
			}
			if timedOut {
				in.diverges = fmt.Sprintf("SubTree() of replica %d did not return within 10s", x)
			} else {
				in.subtree = slices.Clone(st)
				in.subtreeDone = true
			}
		}
	}
	stage = "PeersOf"
	in.peers = slices.Clone(t.PeersOf())
	stage = "ReplicaHeight"
	in.rheight = t.ReplicaHeight()
	stage = "TreeHeight"
	in.theight = t.TreeHeight()
	stage = "Root"
	in.root = t.Root()
	stage = "IsRoot"
	in.isRootSelf = t.IsRoot(x)
	for _, y := range queries {
		stage = "ChildrenOf"
		row := c17Row{y: y, children: slices.Clone(t.ChildrenOf(y))}
		stage = "IsRoot"
		row.isRoot = t.IsRoot(y)
		stage = "heightOf"
		row.height = t.heightOf(y)
		in.table = append(in.table, row)
	}
	stage = "immutability"
	if !slices.Equal(own, ids) {
		panic("the instance changed its position list while answering queries")
	}
	return in
}

// c17SafeSubTree calls t.SubTree() on a goroutine so that a non-terminating loop is reported
// instead of hanging the run; the raw (not copied) result is returned.
func c17SafeSubTree(t *Tree) (st []hotstuff.ID, pan any, timedOut bool) {
	type res struct {
		st  []hotstuff.ID
		pan any
	}
	done := make(chan res, 1)
	go func() {
		defer func() {
			if r := recover(); r != nil {
				done <- res{pan: r}
			}
		}()
		done <- res{st: t.SubTree()}
	}()
	select {
	case r := <-done:
		return r.st, r.pan, false
	case <-time.After(10 * time.Second):
		c17Abort = true
		return nil, nil, true
	}
}

func c17SameSet(a, b []hotstuff.ID) bool {
	return slices.Equal(c17Sorted(a), c17Sorted(b))
}

func c17HasDup(a []hotstuff.ID) bool {
	s := c17Sorted(a)
	for i := 1; i < len(s); i++ {
		if s[i] == s[i-1] {
			return true
		}
	}
	return false
}

// c17Oracle evaluates the property text on the answers of the instances. Only the Parent()
// answers define the tree; everything else is checked against what follows from them.
// Returns the list of failure fingerprints (empty = the sentence holds for this configuration).
func c17Oracle(ids []hotstuff.ID, bf int, insts []c17Inst) (fails [][2]string) {
	n := len(ids)
	fail := func(fp, what string) { fails = append(fails, [2]string{fp, what}) }
	byID := map[hotstuff.ID]*c17Inst{}
	for i := range insts {
		if strings.HasPrefix(insts[i].panicked, "immutability") {
			fail("tree.instance:position-list-changed", fmt.Sprintf("replica %d: answering queries changed the instance's position list (input %v)", insts[i].x, ids))
			return
		}
		if insts[i].panicked != "" {
			fail("tree.panic:"+strings.SplitN(insts[i].panicked, ":", 2)[0], fmt.Sprintf("replica %d: %s", insts[i].x, insts[i].panicked))
			return
		}
		if insts[i].diverges != "" {
			fail("tree.subtree:does-not-terminate", insts[i].diverges)
			return
		}
		byID[insts[i].x] = &insts[i]
	}
	if len(byID) != n {
		fail("harness:instances", "not one instance per replica")
		return
	}
	// exactly one root
	var roots []hotstuff.ID
	for _, in := range insts {
		if !in.hasParent {
			roots = append(roots, in.x)
		}
	}
	if len(roots) != 1 {
		fail("tree.root:not-exactly-one", fmt.Sprintf("replicas without a parent: %v", roots))
		return
	}
	root := roots[0]
	for _, in := range insts {
		if in.root != root {
			fail("tree.root:instances-disagree", fmt.Sprintf("replica %d says Root()=%d but the replica without parent is %d", in.x, in.root, root))
			return
		}
		if in.isRootSelf != (in.x == root) {
			fail("tree.root:isroot-wrong", fmt.Sprintf("replica %d: IsRoot(self)=%v, root is %d", in.x, in.isRootSelf, root))
			return
		}
		if !in.hasParent && in.parent != in.x {
			fail("tree.root:parent-of-root", fmt.Sprintf("root %d: Parent() returned (%d,false), documented is its own id", in.x, in.parent))
		}
	}
	// every other replica has exactly one parent, a replica, and is listed among that parent's
	// children (as the parent's own instance sees them) and nowhere else
	listed := map[hotstuff.ID][]hotstuff.ID{} // child -> parents listing it
	for _, in := range insts {
		if c17HasDup(in.children) {
			fail("tree.children:listed-twice", fmt.Sprintf("replica %d lists a child twice: %v", in.x, in.children))
			return
		}
		for _, c := range in.children {
			if _, ok := byID[c]; !ok {
				fail("tree.children:not-a-replica", fmt.Sprintf("replica %d lists %d which is not in the tree", in.x, c))
				return
			}
			listed[c] = append(listed[c], in.x)
		}
	}
	for _, in := range insts {
		l := listed[in.x]
		if in.x == root {
			if len(l) != 0 {
				fail("tree.children:root-listed", fmt.Sprintf("root %d is listed as a child of %v", root, l))
				return
			}
			continue
		}
		if _, ok := byID[in.parent]; !ok {
			fail("tree.parent:not-a-replica", fmt.Sprintf("replica %d: parent %d is not in the tree", in.x, in.parent))
			return
		}
		if len(l) == 0 {
			fail("tree.children:missing-replica", fmt.Sprintf("replica %d (parent %d) is in nobody's children list", in.x, in.parent))
			return
		}
		if len(l) > 1 {
			fail("tree.children:listed-twice", fmt.Sprintf("replica %d is a child of several replicas: %v", in.x, l))
			return
		}
		if l[0] != in.parent {
			fail("tree.parent:not-in-parents-children", fmt.Sprintf("replica %d says its parent is %d but is listed by %d", in.x, in.parent, l[0]))
			return
		}
	}
	// one rooted tree: every parent chain reaches the root in fewer than n steps
	depth := map[hotstuff.ID]int{}
	anc := map[hotstuff.ID][]hotstuff.ID{} // proper ancestors
	for _, in := range insts {
		cur, d := in.x, 0
		for cur != root {
			cur = byID[cur].parent
			anc[in.x] = append(anc[in.x], cur)
			d++
			if d >= n {
				fail("tree.parent:cycle", fmt.Sprintf("the parent chain of replica %d does not reach the root %d", in.x, root))
				return
			}
		}
		depth[in.x] = d
	}
	// a replica's subtree is exactly the set of its descendants
	for _, in := range insts {
		if !in.subtreeDone {
			continue
		}
		var desc []hotstuff.ID
		for _, y := range ids {
			if slices.Contains(anc[y], in.x) {
				desc = append(desc, y)
			}
		}
		if c17HasDup(in.subtree) {
			fail("tree.subtree:duplicate", fmt.Sprintf("replica %d: SubTree()=%v repeats a replica", in.x, in.subtree))
			return
		}
		if !c17SameSet(in.subtree, desc) {
			fail("tree.subtree:not-descendants", fmt.Sprintf("replica %d: SubTree()=%v, descendants by Parent()=%v", in.x, c17Sorted(in.subtree), c17Sorted(desc)))
			return
		}
	}
	// sibling lists: the children of the parent (as the parent sees them); none for the root
	for _, in := range insts {
		want := []hotstuff.ID{}
		if in.x != root {
			want = byID[in.parent].children
		}
		if !c17SameSet(in.peers, want) || c17HasDup(in.peers) {
			fail("tree.peers:not-siblings", fmt.Sprintf("replica %d: PeersOf()=%v, children of its parent=%v", in.x, in.peers, want))
			return
		}
	}
	// heights: the tree height is the number of levels needed for n positions, the same for
	// every replica, and a replica's height is the tree height minus its depth
	th := insts[0].theight
	sum, pow, least := 0, 1, 0
	for sum < n {
		sum += pow
		pow *= bf
		least++
	}
	for _, in := range insts {
		if in.theight != th {
			fail("tree.height:instances-disagree", fmt.Sprintf("TreeHeight() is %d for replica %d and %d for replica %d", th, insts[0].x, in.theight, in.x))
			return
		}
	}
	if th != least {
		fail("tree.height:not-number-of-levels", fmt.Sprintf("n=%d bf=%d: TreeHeight()=%d, levels needed=%d", n, bf, th, least))
		return
	}
	for _, in := range insts {
		if in.rheight != th-depth[in.x] {
			fail("tree.height:inconsistent-with-depth", fmt.Sprintf("replica %d at depth %d: ReplicaHeight()=%d, TreeHeight()=%d", in.x, depth[in.x], in.rheight, th))
			return
		}
	}
	// what any instance says about another replica equals what that replica says about itself
	for _, in := range insts {
		for _, row := range in.table {
			other, member := byID[row.y]
			if !member {
				if len(row.children) != 0 || row.isRoot || row.height != 0 {
					fail("tree.foreign:has-relations", fmt.Sprintf("replica %d: id %d is not in the tree but ChildrenOf=%v IsRoot=%v heightOf=%d", in.x, row.y, row.children, row.isRoot, row.height))
					return
				}
				continue
			}
			if !c17SameSet(row.children, other.children) || c17HasDup(row.children) {
				fail("tree.instances:children-disagree", fmt.Sprintf("replica %d says ChildrenOf(%d)=%v, replica %d itself says %v", in.x, row.y, row.children, row.y, other.children))
				return
			}
			if row.isRoot != (row.y == root) {
				fail("tree.instances:isroot-disagree", fmt.Sprintf("replica %d says IsRoot(%d)=%v, root is %d", in.x, row.y, row.isRoot, root))
				return
			}
			if row.height != other.rheight {
				fail("tree.instances:height-disagree", fmt.Sprintf("replica %d says heightOf(%d)=%d, replica %d itself says %d", in.x, row.y, row.height, row.y, other.rheight))
				return
			}
		}
	}
	return fails
}

func c17VobsTerm(in c17Inst) string {
	st := "None"
	if in.subtreeDone {
		st = "(Some " + c17IDs(in.subtree) + ")"
	}
	return fmt.Sprintf("(%s, (%s, %s), %s, %s, %s, %s, %s, %s, %s)", gN(uint64(in.x)), gN(uint64(in.parent)), gBool(in.hasParent),
		c17IDs(in.children), st, c17IDs(in.peers), gNat(in.rheight), gNat(in.theight), gN(uint64(in.root)), gBool(in.isRootSelf))
}

func c17TableTerm(in c17Inst) string {
	rows := make([]string, len(in.table))
	for i, r := range in.table {
		rows[i] = fmt.Sprintf("(%s, %s, %s, %s)", gN(uint64(r.y)), c17IDs(r.children), gBool(r.isRoot), gNat(r.height))
	}
	return fmt.Sprintf("(%s, %s)", gN(uint64(in.x)), gList(rows))
}

type c17Run struct {
	v      *verifOut
	small  *verifStream
	large  *verifStream
	sess   *verifStream
	insts  int
	tables int
}

// config evaluates one configuration (ids without repetition, bf >= 2) from every vantage.
// tableFrom: vantages (indices into ids) whose instance is additionally asked about every y.
func (r *c17Run) config(kind string, ids []hotstuff.ID, bf int, tableFrom []int) {
	v := r.v
	if c17Abort {
		return
	}
	n := len(ids)
	// queries: every replica, plus two ids that are not in the tree
	// (0, a large one, and ids that agree with a member in their low 8 / 16 / 31 bits)
	m1, m2 := ids[v.rng.Intn(n)], ids[v.rng.Intn(n)]
	foreign := []hotstuff.ID{0, 4000000000, m1 + 1<<8, m1 + 1<<16, m2 ^ 1<<31, m2 + 1<<24}
	queries := slices.Clone(ids)
	for _, f := range foreign {
		if !slices.Contains(queries, f) {
			queries = append(queries, f)
		}
	}
	insts := make([]c17Inst, n)
	for i, x := range ids {
		var q []hotstuff.ID
		if slices.Contains(tableFrom, i) {
			q = queries
			r.tables++
		}
		insts[i] = c17Observe(x, bf, ids, q, true)
		r.insts++
	}
	meta := map[string]any{"kind": kind, "ids": c17Ints(ids), "bf": bf}
	key := fmt.Sprintf("%v/%d", ids, bf)
	h := 0
	if insts[0].panicked == "" {
		h = insts[0].theight
	}
	v.Seen(key, h >= 3 && n > 1, map[string]any{"ids": c17Ints(ids), "bf": bf, "tree_height": h,
		"root_children": c17Ints(insts[0].children), "last_replica_parent": uint32(insts[n-1].parent)})
	v.Count("kind:" + kind)
	v.Count(fmt.Sprintf("n:%02d", n))
	v.Count(fmt.Sprintf("bf:%d", bf))
	v.Count(fmt.Sprintf("height:%d", h))
	fails := c17Oracle(ids, bf, insts)
	if len(fails) == 0 {
		v.Oracle(true, "", "", nil)
	}
	for _, f := range fails {
		v.Oracle(false, f[0], f[1], meta)
	}
	var obs, tabs []string
	for _, in := range insts {
		if in.panicked != "" {
			continue // reported by the oracle; there is no observation to recompute
		}
		obs = append(obs, c17VobsTerm(in))
		if in.table != nil {
			tabs = append(tabs, c17TableTerm(in))
		}
	}
	if bf > c17MaxKernelBF {
		// the model keeps bf and level sizes in unary nat: very large branch factors are
		// evaluated by the oracle only
		v.Count("oracle-only:huge-bf")
		return
	}
	s := r.small
	if n > 12 {
		s = r.large
	}
	v.Case(s, fmt.Sprintf("(%s, %s, %s, %s)", c17IDs(ids), gZ(int64(bf)), gList(obs), gList(tabs)), meta)
	if len(fails) == 0 {
		r.session(kind, ids, bf, insts)
	}
}

const c17MaxKernelBF = 200

var c17Locations = []string{"Oslo", "Paris", "Tokyo", "London", "Rome", "Sydney", "Toronto", "Vienna", "Bergen", "Madrid"}

// session puts long-lived instances through a random sequence of queries: every accessor, in
// any order, repeated, on several replicas' instances that either own their position slice or
// all share one, built by NewSimple or NewDelayed. Every answer must equal what a fresh instance
// of that replica answered in config() (ref), earlier results must not change under later
// calls, the position slices must stay as they were, and writing into the slice returned by
// SubTree (a fresh slice by construction) must not disturb the instance. All answers also go to
// the kernel.
func (r *c17Run) session(kind string, ids []hotstuff.ID, bf int, ref []c17Inst) {
	v := r.v
	n := len(ids)
	if c17Abort || n == 0 {
		return
	}
	byID := map[hotstuff.ID]*c17Inst{}
	var root hotstuff.ID
	for i := range ref {
		byID[ref[i].x] = &ref[i]
		if !ref[i].hasParent {
			root = ref[i].x
		}
	}
	shared := v.rng.Intn(2) == 0
	isDefaultLabels := slices.Equal(c17Sorted(ids), DefaultTreePos(n))
	ctor := v.rng.Intn(4)
	if ctor == 3 && !isDefaultLabels {
		ctor = 2 // the latency matrix is indexed by id-1: aggregation time needs ids 1..n
	}
	ctorName := []string{"NewSimple", "NewDelayed/none", "NewDelayed/tree-height", "NewDelayed/aggregation"}[ctor]
	var ops []string
	meta := map[string]any{"kind": "session/" + kind, "ids": c17Ints(ids), "bf": bf, "shared_slice": shared, "constructor": ctorName}
	report := func(fp, what string) {
		meta["ops"] = ops
		v.Oracle(false, fp, what, meta)
	}
	var terms []string
	failed := false
	func() {
		defer func() {
			if rec := recover(); rec != nil {
				failed = true
				report("tree.panic:session", fmt.Sprintf("panic after %v: %v", ops, rec))
			}
		}()
		build := func(x hotstuff.ID, pos []hotstuff.ID) *Tree {
			switch ctor {
			case 0:
				return NewSimple(x, bf, pos)
			case 1:
				return NewDelayed(x, DelayTypeNone, bf, latency.Matrix{}, pos, time.Millisecond)
			case 2:
				return NewDelayed(x, DelayTypeTreeHeight, bf, latency.Matrix{}, pos, time.Millisecond)
			default:
				locs := make([]string, n)
				for i := range locs {
					locs[i] = c17Locations[i%len(c17Locations)]
				}
				return NewDelayed(x, DelayTypeAggregation, bf, latency.MatrixFrom(locs), pos, time.Millisecond)
			}
		}
		// instances
		var trees []*Tree
		var xs []hotstuff.ID
		var backing [][]hotstuff.ID
		if shared {
			pos := slices.Clone(ids)
			backing = append(backing, pos)
			for _, x := range ids {
				trees = append(trees, build(x, pos))
				xs = append(xs, x)
			}
		} else {
			k := min(n, 1+v.rng.Intn(3))
			for _, i := range v.rng.Perm(n)[:k] {
				pos := slices.Clone(ids)
				backing = append(backing, pos)
				trees = append(trees, build(ids[i], pos))
				xs = append(xs, ids[i])
			}
		}
		type held struct {
			raw, copy []hotstuff.ID
			what      string
		}
		var holds []held
		hold := func(raw []hotstuff.ID, what string) []hotstuff.ID {
			c := slices.Clone(raw)
			holds = append(holds, held{raw, c, what})
			return c
		}
		someID := func() hotstuff.ID {
			switch v.rng.Intn(8) {
			case 0:
				return 0
			case 1:
				return ids[v.rng.Intn(n)] + 1<<16
			default:
				return ids[v.rng.Intn(n)]
			}
		}
		refChildren := func(y hotstuff.ID) []hotstuff.ID {
			if o, ok := byID[y]; ok {
				return o.children
			}
			return nil
		}
		steps := 8 + v.rng.Intn(12)
		var j, a int
		var y hotstuff.ID
		for step := 0; step < steps && !failed; step++ {
			if step == 0 || v.rng.Intn(4) != 0 { // otherwise: the same call again
				j, a, y = v.rng.Intn(len(trees)), v.rng.Intn(10), someID()
			}
			t, x := trees[j], xs[j]
			me := byID[x]
			var term, op string
			ok := true
			switch a {
			case 0:
				p, has := t.Parent()
				op = fmt.Sprintf("%d.Parent", x)
				ok = p == me.parent && has == me.hasParent
				term = fmt.Sprintf("QParent %s %s", gN(uint64(p)), gBool(has))
			case 1:
				l := hold(t.ReplicaChildren(), fmt.Sprintf("%d.ReplicaChildren", x))
				op = fmt.Sprintf("%d.ReplicaChildren", x)
				ok = c17SameSet(l, me.children)
				term = "QReplicaChildren " + c17IDs(l)
			case 2:
				l := hold(t.ChildrenOf(y), fmt.Sprintf("%d.ChildrenOf(%d)", x, y))
				op = fmt.Sprintf("%d.ChildrenOf(%d)", x, y)
				ok = c17SameSet(l, refChildren(y))
				term = fmt.Sprintf("QChildrenOf %s %s", gN(uint64(y)), c17IDs(l))
			case 3, 4:
				op = fmt.Sprintf("%d.SubTree", x)
				raw, pan, timedOut := c17SafeSubTree(t)
				if pan != nil {
					panic(pan)
				}
				if timedOut {
					ops = append(ops, op)
					failed = true
					report("tree.subtree:does-not-terminate", fmt.Sprintf("SubTree() of replica %d did not return within 10s after %v", x, ops))
					return
				}
				l := slices.Clone(raw)
				ok = c17SameSet(l, me.subtree)
				term = "QSubTree " + c17IDs(l)
				// the result is the caller's: overwrite and extend it
				for i := range raw {
					raw[i] = 0xFFFFFFFF
				}
				raw = append(raw, 0xFFFFFFFE, 0xFFFFFFFD)
				_ = raw
			case 5:
				l := hold(t.PeersOf(), fmt.Sprintf("%d.PeersOf", x))
				op = fmt.Sprintf("%d.PeersOf", x)
				ok = c17SameSet(l, me.peers)
				term = "QPeersOf " + c17IDs(l)
			case 6:
				h := t.ReplicaHeight()
				op = fmt.Sprintf("%d.ReplicaHeight", x)
				ok = h == me.rheight
				term = "QReplicaHeight " + gNat(h)
			case 7:
				if v.rng.Intn(2) == 0 {
					h := t.TreeHeight()
					op = fmt.Sprintf("%d.TreeHeight", x)
					ok = h == me.theight
					term = "QTreeHeight " + gNat(h)
				} else {
					rt := t.Root()
					op = fmt.Sprintf("%d.Root", x)
					ok = rt == root
					term = "QRoot " + gN(uint64(rt))
				}
			case 8:
				b := t.IsRoot(y)
				op = fmt.Sprintf("%d.IsRoot(%d)", x, y)
				ok = b == (y == root)
				term = fmt.Sprintf("QIsRoot %s %s", gN(uint64(y)), gBool(b))
			default:
				h := t.heightOf(y)
				op = fmt.Sprintf("%d.heightOf(%d)", x, y)
				want := 0
				if o, member := byID[y]; member {
					want = o.rheight
				}
				ok = h == want
				term = fmt.Sprintf("QHeightOf %s %s", gN(uint64(y)), gNat(h))
			}
			ops = append(ops, op)
			terms = append(terms, fmt.Sprintf("(%s, %s)", gN(uint64(x)), term))
			if !ok {
				failed = true
				report("tree.session:answer-differs-from-fresh-instance", fmt.Sprintf("%s after %v differs from the answer of a fresh instance (%s)", op, ops[:len(ops)-1], term))
				return
			}
			for _, b := range backing {
				if !slices.Equal(b, ids) {
					failed = true
					report("tree.instance:position-list-changed", fmt.Sprintf("after %v the position slice is %v, was %v", ops, b, ids))
					return
				}
			}
			for _, h := range holds {
				if !slices.Equal(h.raw, h.copy) {
					failed = true
					report("tree.result:changed-by-later-call", fmt.Sprintf("the slice returned by %s was %v and reads %v after %v", h.what, h.copy, h.raw, ops))
					return
				}
			}
		}
	}()
	if !failed {
		v.Oracle(true, "", "", nil)
	}
	v.Seen(fmt.Sprintf("session %v/%d/%v", ids, bf, ops), n > 1, nil)
	v.Count("kind:session")
	v.Count("session-ctor:" + ctorName)
	if shared {
		v.Count("session:shared-slice")
	}
	v.CountN("session-queries", len(terms))
	meta["ops"] = ops
	v.Case(r.sess, fmt.Sprintf("(%s, %s, %s)", c17IDs(ids), gZ(int64(bf)), gList(terms)), meta)
}

func c17Perms(n int, f func([]hotstuff.ID)) {
	p := make([]hotstuff.ID, n)
	for i := range p {
		p[i] = hotstuff.ID(i + 1)
	}
	var rec func(k int)
	rec = func(k int) {
		if k == n {
			f(slices.Clone(p))
			return
		}
		for i := k; i < n; i++ {
			p[k], p[i] = p[i], p[k]
			rec(k + 1)
			p[k], p[i] = p[i], p[k]
		}
	}
	rec(0)
}

func c17All(n int) []int {
	r := make([]int, n)
	for i := range r {
		r[i] = i
	}
	return r
}

func TestVerifC17(t *testing.T) {
	v := verifNew("C17")
	r := &c17Run{v: v, small: v.Stream("small", "mismatches", 600), large: v.Stream("large", "mismatches", 24),
		sess: v.Stream("session", "session_mismatches", 400)}

	// (a) exhaustive small scope: every permutation of 1..n, every bf in 2..6, every vantage,
	// every instance asked about every replica.
	maxPerm := v.Pick(5, 7)
	for n := 1; n <= maxPerm; n++ {
		for bf := 2; bf <= 6; bf++ {
			c17Perms(n, func(ids []hotstuff.ID) { r.config("perm", ids, bf, c17All(n)) })
		}
	}
	// the same small trees with branch factors far above n (a root and one level, or a root alone)
	for n := 1; n <= 4; n++ {
		for _, bf := range []int{7, 64, c17MaxKernelBF} {
			c17Perms(n, func(ids []hotstuff.ID) { r.config("perm-wide", ids, bf, c17All(n)) })
		}
	}

	// (b) random permutations for every n in maxPerm+1..40 and every bf in 2..6: the identity, the
	// reversal, a Shuffle()d default assignment and random ones, some with arbitrary uint32 labels.
	perPair := v.Pick(3, 30)
	randPerm := func(n int) []hotstuff.ID {
		ids := make([]hotstuff.ID, n)
		for i, p := range v.rng.Perm(n) {
			ids[i] = hotstuff.ID(p + 1)
		}
		return ids
	}
	relabel := func(ids []hotstuff.ID) []hotstuff.ID {
		used := map[hotstuff.ID]bool{}
		lab := map[hotstuff.ID]hotstuff.ID{}
		out := make([]hotstuff.ID, len(ids))
		for i, x := range ids {
			if _, ok := lab[x]; !ok {
				var l hotstuff.ID
				for {
					switch v.rng.Intn(3) {
					case 0:
						l = hotstuff.ID(1 + v.rng.Intn(100))
					case 1:
						l = hotstuff.ID(1 + v.rng.Intn(1<<16))
					default:
						l = hotstuff.ID(v.rng.Uint32() | 1)
					}
					if !used[l] && l != 4000000000 {
						break
					}
				}
				used[l] = true
				lab[x] = l
			}
			out[i] = lab[x]
		}
		return out
	}
	tablesFor := func(n int) []int {
		if n <= 8 {
			return c17All(n)
		}
		// the root, the last position and one random position
		return []int{0, n - 1, v.rng.Intn(n)}
	}
	for n := maxPerm + 1; n <= 40; n++ {
		for bf := 2; bf <= 6; bf++ {
			r.config("identity", DefaultTreePos(n), bf, tablesFor(n))
			rev := DefaultTreePos(n)
			slices.Reverse(rev)
			r.config("reverse", rev, bf, tablesFor(n))
			sh := DefaultTreePosUint32(n)
			Shuffle(sh)
			shIDs := make([]hotstuff.ID, n)
			for i, x := range sh {
				shIDs[i] = hotstuff.ID(x)
			}
			ok := !c17HasDup(shIDs) && slices.Equal(c17Sorted(shIDs), DefaultTreePos(n))
			v.Oracle(ok, "tree.shuffle:not-a-permutation", fmt.Sprintf("Shuffle of the default positions of %d replicas is %v", n, sh), map[string]any{"n": n, "shuffled": sh})
			if ok {
				r.config("shuffle", shIDs, bf, tablesFor(n))
			}
			for k := 0; k < perPair; k++ {
				ids := randPerm(n)
				kind := "random"
				if k%3 == 2 {
					ids = relabel(ids)
					kind = "random-labels"
				}
				r.config(kind, ids, bf, tablesFor(n))
			}
		}
	}
	// (b2) replica ids at type boundaries and ids that agree in their low bits, for every n in 1..40
	boundaryPool := []hotstuff.ID{0, 1, 2, 127, 128, 255, 256, 257, 32767, 32768, 65535, 65536, 65537,
		1<<24 - 1, 1 << 24, 1<<24 + 1, 1<<31 - 1, 1 << 31, 1<<31 + 1, 1<<32 - 2, 1<<32 - 1}
	boundaryLabels := func(n int) []hotstuff.ID {
		out := make([]hotstuff.ID, 0, n)
		for _, i := range v.rng.Perm(len(boundaryPool)) {
			if len(out) < n {
				out = append(out, boundaryPool[i])
			}
		}
		for len(out) < n {
			l := hotstuff.ID(v.rng.Uint32())
			if !slices.Contains(out, l) {
				out = append(out, l)
			}
		}
		return out
	}
	lowBitsLabels := func(n int) []hotstuff.ID {
		shift := []uint{8, 16, 24}[v.rng.Intn(3)]
		base := hotstuff.ID(v.rng.Intn(1 << shift))
		out := make([]hotstuff.ID, 0, n)
		for len(out) < n {
			l := base + hotstuff.ID(v.rng.Intn(1<<(32-shift)))<<shift
			if !slices.Contains(out, l) {
				out = append(out, l)
			}
		}
		return out
	}
	for n := 1; n <= 40; n++ {
		for k := 0; k < v.Pick(1, 6); k++ {
			r.config("boundary-labels", boundaryLabels(n), 2+v.rng.Intn(5), tablesFor(n))
			r.config("low-bits-labels", lowBitsLabels(n), 2+v.rng.Intn(5), tablesFor(n))
		}
	}
	// (b3) branch factors around and above n: n-1, n, n+1, 2n+1 and some fixed wide ones
	for n := 1; n <= 40; n++ {
		var bfs []int
		for _, bf := range []int{n - 1, n, n + 1, 2*n + 1, 7, 12, 64, c17MaxKernelBF} {
			if bf > 6 && !slices.Contains(bfs, bf) {
				bfs = append(bfs, bf)
			}
		}
		for i, bf := range bfs {
			ids := DefaultTreePos(n)
			kind := "wide-identity"
			if (i+n)%2 == 0 || v.Thorough() {
				ids, kind = randPerm(n), "wide-random"
			}
			r.config(kind, ids, bf, tablesFor(n))
		}
	}
	// branch factors up to what the configuration can carry (uint32): oracle only
	for _, n := range []int{1, 2, 3, 10, 40} {
		for _, bf := range []int{65536, 1<<31 - 1, 1<<32 - 1} {
			r.config("huge-bf", randPerm(n), bf, []int{0, n - 1})
		}
	}
	// (b4) the smallest trees of height 4 (binary, n = 8..11) with every instance asked everything
	for n := 8; n <= 11; n++ {
		for k := 0; k < v.Pick(10, 100); k++ {
			r.config("deep-small", randPerm(n), 2, c17All(n))
		}
	}
	// a few sizes beyond the stated range (information on the unbounded statement)
	for _, n := range []int{41, 63, 64, 85, 86, 111, 130} {
		bf := 2 + v.rng.Intn(5)
		r.config("beyond-40", randPerm(n), bf, []int{0, n - 1})
	}

	// (c) boundary / malformed stream.
	// (c1) constructor: bf < 2 and ids not in the list must panic, everything else must not.
	cs := v.Stream("ctor", "ctor_mismatches", 2000)
	ctor := func(x hotstuff.ID, bf int, ids []hotstuff.ID) {
		in := c17Observe(x, bf, ids, nil, false)
		pan := strings.HasPrefix(in.panicked, "NewSimple")
		if in.panicked != "" && !pan {
			v.Oracle(false, "tree.panic:"+strings.SplitN(in.panicked, ":", 2)[0], in.panicked, map[string]any{"id": uint32(x), "bf": bf, "ids": c17Ints(ids)})
		}
		valid := bf >= 2 && slices.Contains(ids, x)
		v.Oracle(pan == !valid, "tree.ctor:guard", fmt.Sprintf("NewSimple(%d, %d, %v): panicked=%v, arguments valid=%v", x, bf, ids, pan, valid),
			map[string]any{"id": uint32(x), "bf": bf, "ids": c17Ints(ids)})
		v.Seen(fmt.Sprintf("ctor %d/%d/%v", x, bf, ids), valid, nil)
		v.Count("kind:ctor")
		v.Case(cs, fmt.Sprintf("(%s, %s, %s, %s, %s)", gN(uint64(x)), gZ(int64(bf)), c17IDs(ids), gBool(pan), gNat(in.theight)),
			map[string]any{"kind": "ctor", "id": uint32(x), "bf": bf, "ids": c17Ints(ids), "panicked": pan})
	}
	for _, bf := range []int{-7, -1, 0, 1, 2, 3, 6, 7, 12} {
		for n := 0; n <= 9; n++ {
			ids := randPerm(n)
			for _, x := range []hotstuff.ID{0, 1, hotstuff.ID(n), hotstuff.ID(n + 1), 4000000000} {
				ctor(x, bf, ids)
			}
		}
	}
	// (c2) position lists with a repeated id (outside the property: not an assignment): the model
	// must still mirror the code; SubTree is not called (it need not terminate).
	dup := 0
	for n := 2; n <= 9; n++ {
		for k := 0; k < v.Pick(6, 60); k++ {
			ids := randPerm(n)
			ids[v.rng.Intn(n)] = ids[v.rng.Intn(n)]
			if !c17HasDup(ids) {
				continue
			}
			bf := 2 + v.rng.Intn(5)
			var obs, tabs []string
			seen := map[hotstuff.ID]bool{}
			bad := false
			for _, x := range ids {
				if seen[x] {
					continue
				}
				seen[x] = true
				in := c17Observe(x, bf, ids, append(slices.Clone(ids), 0), false)
				if in.panicked != "" {
					v.Oracle(false, "tree.panic:"+strings.SplitN(in.panicked, ":", 2)[0], in.panicked, map[string]any{"ids": c17Ints(ids), "bf": bf})
					bad = true
					continue
				}
				obs = append(obs, c17VobsTerm(in))
				tabs = append(tabs, c17TableTerm(in))
			}
			if !bad {
				v.Oracle(true, "", "", nil)
			}
			dup++
			v.Seen(fmt.Sprintf("dup %v/%d", ids, bf), false, nil)
			v.Count("kind:repeated-id")
			v.Case(r.small, fmt.Sprintf("(%s, %s, %s, %s)", c17IDs(ids), gZ(int64(bf)), gList(obs), gList(tabs)),
				map[string]any{"kind": "repeated-id", "ids": c17Ints(ids), "bf": bf})
		}
	}
	// (c3) treeHeight directly, including 0 nodes and level boundaries, against "least h with
	// 1 + bf + ... + bf^(h-1) >= n".
	hs := v.Stream("height", "height_mismatches", 4000)
	for bf := 2; bf <= 12; bf++ {
		for n := 0; n <= v.Pick(200, 1500); n++ {
			h := treeHeight(n, bf)
			sum, pow, least := 0, 1, 0
			for sum < n {
				sum += pow
				pow *= bf
				least++
			}
			v.Oracle(h == least, "tree.height:not-number-of-levels", fmt.Sprintf("treeHeight(%d,%d)=%d, levels needed=%d", n, bf, h, least), map[string]any{"n": n, "bf": bf})
			v.Seen(fmt.Sprintf("h %d/%d", n, bf), n > bf+1, nil)
			v.Case(hs, fmt.Sprintf("(%s, %s, %s)", gNat(n), gNat(bf), gNat(h)), map[string]any{"kind": "treeHeight", "n": n, "bf": bf, "h": h})
		}
	}
	v.Count("kind:treeHeight")

	// (c4) observation, not an oracle: which returned slices are windows of the instance's position
	// table? For every slice-returning accessor and every caller-side change (sort in place,
	// overwrite, append) the instance is asked everything again and compared with a fresh one.
	// On the current code ChildrenOf / ReplicaChildren / PeersOf are windows (and NewSimple keeps
	// the caller's slice); no consumer in /repo writes to them (the "tree in use" harness in
	// protocol/comm checks the real consumer), so this is reported as information only. SubTree
	// returns a fresh slice; that one is an oracle in the sessions above.
	{
		ids := []hotstuff.ID{1, 3, 2, 7, 6, 5, 4, 9, 8}
		bf := 2
		snapshot := func(t *Tree) string {
			var b strings.Builder
			for _, y := range ids {
				fmt.Fprintf(&b, "%v|%v|%d;", t.ChildrenOf(y), t.IsRoot(y), t.heightOf(y))
			}
			return b.String()
		}
		accessors := []struct {
			name string
			x    hotstuff.ID
			get  func(t *Tree) []hotstuff.ID
		}{
			{"ChildrenOf(root)", 3, func(t *Tree) []hotstuff.ID { return t.ChildrenOf(1) }},
			{"ReplicaChildren", 1, func(t *Tree) []hotstuff.ID { return t.ReplicaChildren() }},
			{"PeersOf", 7, func(t *Tree) []hotstuff.ID { return t.PeersOf() }},
			{"SubTree", 3, func(t *Tree) []hotstuff.ID { return t.SubTree() }},
			{"slice given to NewSimple", 3, nil},
		}
		mutations := []struct {
			name string
			do   func(l []hotstuff.ID)
		}{
			{"sort", func(l []hotstuff.ID) { sort.Slice(l, func(i, j int) bool { return l[i] < l[j] }) }},
			{"overwrite", func(l []hotstuff.ID) {
				for i := range l {
					l[i] = 99
				}
			}},
			{"append", func(l []hotstuff.ID) { _ = append(l, 98, 97) }},
		}
		var aliased, isolated []string
		for _, acc := range accessors {
			for _, mu := range mutations {
				func() {
					defer func() {
						if rec := recover(); rec != nil {
							aliased = append(aliased, acc.name+"/"+mu.name+"(panic)")
						}
					}()
					own := slices.Clone(ids)
					own = own[:len(own):len(own)+0]
					tr := NewSimple(acc.x, bf, own)
					want := snapshot(tr)
					if acc.get == nil {
						mu.do(own)
					} else {
						mu.do(acc.get(tr))
					}
					if snapshot(tr) != want {
						aliased = append(aliased, acc.name+"/"+mu.name)
						v.Count("observation:caller-write-changes-instance")
					} else {
						isolated = append(isolated, acc.name+"/"+mu.name)
						v.Count("observation:caller-write-isolated")
					}
				}()
			}
		}
		v.Note(fmt.Sprintf("observation (not a C17 violation: no consumer in /repo writes to these slices): a caller-side write changes the instance's later answers for %v; it does not for %v (positions %v, bf %d)", aliased, isolated, ids, bf))
	}

	v.CountN("instances", r.insts)
	v.CountN("full-tables", r.tables)
	v.Close("one evaluation = one (position assignment, branch factor) with a Tree instance per replica (or one constructor / treeHeight call); non-trivial = at least 3 levels")
	if len(v.fails) > 0 {
		t.Logf("oracle failures: %d", len(v.fails))
	}
}

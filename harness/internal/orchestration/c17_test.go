package orchestration

import (
	"fmt"
	"slices"
	"testing"
	"time"

	"github.com/relab/hotstuff"
	"github.com/relab/hotstuff/core"
	"github.com/relab/hotstuff/internal/config"
	"github.com/relab/hotstuff/internal/proto/orchestrationpb"
	"github.com/relab/hotstuff/internal/tree"
	"github.com/relab/hotstuff/protocol/comm"
	"github.com/relab/hotstuff/protocol/leaderrotation"
)

// C17 on the path a deployment takes: ExperimentConfig{TreePositions, BranchFactor, RandomTree}
// -> (tree.Shuffle as cli/run.go does) -> CreateReplicaOpts -> AssignReplicas (ids 1..n over the
// hosts) -> worker: newTree(opts) = tree.NewDelayed(...) per replica -> WithKauriTree ->
// leaderrotation.TreeBased. Every replica's tree built this way must answer exactly like
// tree.NewSimple over the configured positions (which the in-package harness ties to the model
// and to the property), all replicas must name the same leader, and the observations are
// recomputed by the kernel as well.

var c17Locs = []string{"Oslo", "Paris", "Tokyo", "London", "Rome", "Sydney", "Toronto", "Vienna", "Bergen", "Madrid"}

func c17gIDs(xs []hotstuff.ID) string {
	ss := make([]string, len(xs))
	for i, x := range xs {
		ss[i] = gN(uint64(x))
	}
	return gList(ss)
}

func c17sorted(xs []hotstuff.ID) []hotstuff.ID {
	r := slices.Clone(xs)
	slices.Sort(r)
	return r
}

func TestVerifC17(t *testing.T) {
	v := verifNew("C17")
	s := v.Stream("cfgpath", "mismatches", 40)
	type answers struct {
		parent              hotstuff.ID
		has                 bool
		children, sub, peer []hotstuff.ID
		rh, th              int
		root                hotstuff.ID
		isRoot              bool
		childrenOf          [][]hotstuff.ID
	}
	ask := func(tr *tree.Tree, x hotstuff.ID, all []hotstuff.ID) (a answers) {
		a.parent, a.has = tr.Parent()
		a.children = slices.Clone(tr.ReplicaChildren())
		a.sub = slices.Clone(tr.SubTree())
		a.peer = slices.Clone(tr.PeersOf())
		a.rh, a.th, a.root, a.isRoot = tr.ReplicaHeight(), tr.TreeHeight(), tr.Root(), tr.IsRoot(x)
		for _, y := range all {
			a.childrenOf = append(a.childrenOf, slices.Clone(tr.ChildrenOf(y)))
		}
		// ask again, in another order: the answers of a long-lived instance must not move
		b := slices.Clone(tr.SubTree())
		if !slices.Equal(c17sorted(b), c17sorted(a.sub)) || !slices.Equal(c17sorted(tr.ReplicaChildren()), c17sorted(a.children)) {
			a.sub = append(a.sub, b...) // makes the comparison below fail with both answers visible
		}
		return a
	}
	same := func(a, b answers) bool {
		eq := func(x, y []hotstuff.ID) bool { return slices.Equal(c17sorted(x), c17sorted(y)) }
		if a.parent != b.parent || a.has != b.has || a.rh != b.rh || a.th != b.th || a.root != b.root || a.isRoot != b.isRoot {
			return false
		}
		if !eq(a.children, b.children) || !eq(a.sub, b.sub) || !eq(a.peer, b.peer) || len(a.childrenOf) != len(b.childrenOf) {
			return false
		}
		for i := range a.childrenOf {
			if !eq(a.childrenOf[i], b.childrenOf[i]) {
				return false
			}
		}
		return true
	}
	one := func(n int, bf uint32, posKind string, delay string, hosts int) {
		pos := tree.DefaultTreePosUint32(n)
		randomTree := false
		switch posKind {
		case "reverse":
			slices.Reverse(pos)
		case "random":
			v.rng.Shuffle(n, func(i, j int) { pos[i], pos[j] = pos[j], pos[i] })
		case "random-tree":
			randomTree = true
		}
		locs := make([]string, n)
		for i := range locs {
			locs[i] = c17Locs[(i*7+n)%len(c17Locs)]
		}
		hs := make([]string, hosts)
		for i := range hs {
			hs[i] = fmt.Sprintf("host%d", i+1)
		}
		cfg := &config.ExperimentConfig{
			Replicas: n, ReplicaHosts: hs, ClientHosts: []string{"localhost"}, Locations: locs,
			TreePositions: pos, BranchFactor: bf, TreeDelta: 30 * time.Millisecond, RandomTree: randomTree,
			Communication: comm.NameKauri, LeaderRotation: leaderrotation.NameTree,
		}
		meta := map[string]any{"kind": "config-path", "n": n, "bf": bf, "positions": posKind, "delay": delay, "hosts": hosts}
		defer func() {
			if rec := recover(); rec != nil {
				v.Oracle(false, "tree.config:panic", fmt.Sprintf("building or querying the configured trees panicked: %v", rec), meta)
			}
		}()
		if cfg.RandomTree {
			tree.Shuffle(cfg.TreePositions) // cli/run.go: runSingleExperiment
		}
		want := make([]hotstuff.ID, n)
		for i, p := range cfg.TreePositions {
			want[i] = hotstuff.ID(p)
		}
		meta["tree_positions"] = slices.Clone(cfg.TreePositions)
		if !slices.Equal(c17sorted(want), tree.DefaultTreePos(n)) {
			v.Oracle(false, "tree.shuffle:not-a-permutation", fmt.Sprintf("the configured positions %v are not an assignment of replicas 1..%d", want, n), meta)
			return
		}
		base := cfg.CreateReplicaOpts()
		switch delay {
		case "aggregation":
			base.SetAggregationWaitTime()
		case "tree-height":
			base.SetTreeHeightWaitTime()
		}
		var all []*orchestrationpb.ReplicaOpts
		for _, h := range hs {
			all = append(all, cfg.AssignReplicas(base)[h]...)
		}
		v.Seen(fmt.Sprintf("cfg %v/%d/%s/%d", want, bf, delay, hosts), n > int(bf)+1, map[string]any{"tree_positions": want, "bf": bf, "delay": delay})
		v.Count("cfg-positions:" + posKind)
		v.Count("cfg-delay:" + delay)
		if len(all) != n {
			v.Oracle(false, "tree.config:replica-count", fmt.Sprintf("AssignReplicas produced %d replica option sets for %d replicas", len(all), n), meta)
			return
		}
		var obs []string
		var leaders []hotstuff.ID
		okAll := true
		seenID := map[hotstuff.ID]bool{}
		for _, opts := range all {
			x := opts.HotstuffID()
			seenID[x] = true
			if !opts.KauriEnabled() {
				v.Oracle(false, "tree.config:kauri-not-enabled", fmt.Sprintf("replica %d: KauriEnabled() is false for a Kauri configuration", x), meta)
				return
			}
			tr := newTree(opts)
			got := ask(tr, x, want)
			ref := ask(tree.NewSimple(x, int(bf), slices.Clone(want)), x, want)
			if !same(got, ref) {
				okAll = false
				v.Oracle(false, "tree.config:differs-from-configured-positions",
					fmt.Sprintf("replica %d: the tree built from the replica options answers %+v, a tree over the configured positions %v answers %+v", x, got, want, ref), meta)
				break
			}
			rc := core.NewRuntimeConfig(x, nil, core.WithKauriTree(tr))
			lr := leaderrotation.NewTreeBased(rc)
			for _, view := range []hotstuff.View{1, 2, 77, 1 << 40} {
				leaders = append(leaders, lr.GetLeader(view))
			}
			st := "(Some " + c17gIDs(got.sub) + ")"
			obs = append(obs, fmt.Sprintf("(%s, (%s, %s), %s, %s, %s, %s, %s, %s, %s)", gN(uint64(x)), gN(uint64(got.parent)), gBool(got.has),
				c17gIDs(got.children), st, c17gIDs(got.peer), gNat(got.rh), gNat(got.th), gN(uint64(got.root)), gBool(got.isRoot)))
		}
		if !okAll {
			return
		}
		if len(seenID) != n {
			v.Oracle(false, "tree.config:replica-ids", fmt.Sprintf("the replica options do not cover ids 1..%d exactly once", n), meta)
			return
		}
		for _, l := range leaders {
			if l != want[0] {
				v.Oracle(false, "tree.leader:not-the-root", fmt.Sprintf("tree-leader rotation names %d, the root of the configured tree is %d", l, want[0]), meta)
				return
			}
		}
		v.Oracle(true, "", "", nil)
		if bf <= 200 {
			v.Case(s, fmt.Sprintf("(%s, %s, %s, [])", c17gIDs(want), gZ(int64(bf)), gList(obs)), meta)
		}
	}
	posKinds := []string{"default", "reverse", "random", "random-tree"}
	delays := []string{"none", "aggregation", "tree-height"}
	k := 0
	for n := 1; n <= 40; n++ {
		bfs := []uint32{2, 3, 4, 5, 6, uint32(n), uint32(n + 1)}
		reps := v.Pick(1, 4)
		for _, bf := range bfs {
			if bf < 2 {
				continue
			}
			for rep := 0; rep < reps; rep++ {
				one(n, bf, posKinds[k%4], delays[(k/4)%3], 1+k%3)
				k++
			}
		}
	}
	// RandomTree for every n: the shuffled configuration is one assignment shared by all replicas
	for n := 1; n <= 40; n++ {
		one(n, uint32(2+n%5), "random-tree", "none", 2)
	}
	one(7, 1<<32-1, "random", "none", 1)
	v.Close("config path: one evaluation = one ExperimentConfig with a tree per replica built by newTree(opts); non-trivial = at least 3 levels")
}

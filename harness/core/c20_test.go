package core

import (
	"fmt"
	"testing"

	"github.com/relab/hotstuff"
)

// TestVerifC20 checks that the configured membership's threshold is the quorum function of
// the replica count, for real configurations with 1..2000 replicas.
func TestVerifC20(t *testing.T) {
	v := verifNew("C20")
	s := v.Stream("config", "mismatches", 4000)
	cfg := NewRuntimeConfig(1, nil)
	maxN := v.Pick(2000, 20000)
	for n := 1; n <= maxN; n++ {
		cfg.AddReplica(&hotstuff.ReplicaInfo{ID: hotstuff.ID(n)})
		if cfg.ReplicaCount() != n {
			v.Oracle(false, "config:replica-count", fmt.Sprintf("ReplicaCount=%d after adding %d replicas", cfg.ReplicaCount(), n), n)
		}
		cq := cfg.QuorumSize()
		v.Seen(fmt.Sprintf("cfg n=%d", n), n >= 4, map[string]int{"n": n, "config_quorum": cq})
		v.Oracle(cq == hotstuff.QuorumSize(n), "config:threshold-differs", fmt.Sprintf("RuntimeConfig.QuorumSize()=%d but QuorumSize(%d)=%d", cq, n, hotstuff.QuorumSize(n)), n)
		v.Case(s, fmt.Sprintf("(%s,%s,%s,%s)", gZ(int64(n)), gZ(int64(hotstuff.NumFaulty(n))), gZ(int64(hotstuff.QuorumSize(n))), gZ(int64(cq))),
			map[string]int{"n": n, "config_quorum": cq})
	}
	// re-adding an existing id must not change the count
	cfg.AddReplica(&hotstuff.ReplicaInfo{ID: hotstuff.ID(1)})
	v.Oracle(cfg.ReplicaCount() == maxN, "config:duplicate-id-counted", "re-adding replica 1 changed ReplicaCount", maxN)
	v.CountN("config_n", maxN)
	v.Close("RuntimeConfig with n = 1..N replicas; non-trivial = n >= 4")
}

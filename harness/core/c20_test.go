package core

import (
	"fmt"
	"testing"

	"github.com/relab/hotstuff"
)

// TestVerifC20 checks that the configured membership's threshold is the quorum function of
// the replica count, for real configurations with 1..2000 replicas and for memberships with arbitrary ids.
func TestVerifC20(t *testing.T) {
	v := verifNew("C20")
	s := v.Stream("config", "mismatches", 4000)
	cfg := NewRuntimeConfig(1, nil)
	maxN := v.Pick(2000, 20000)
	for n := 1; n <= maxN; n++ {
		cfg.AddReplica(&hotstuff.ReplicaInfo{ID: hotstuff.ID(n)})
		if cfg.ReplicaCount() != n {
			v.Oracle(false, "config:replica-count", fmt.Sprintf("ReplicaCount=%d after adding %d replicas", cfg.ReplicaCount(), n), n)
		}
		cq := cfg.QuorumSize()
		v.Seen(fmt.Sprintf("cfg n=%d", n), n >= 4, map[string]int{"n": n, "config_quorum": cq})
		v.Oracle(cq == hotstuff.QuorumSize(n), "config:threshold-differs", fmt.Sprintf("RuntimeConfig.QuorumSize()=%d but QuorumSize(%d)=%d", cq, n, hotstuff.QuorumSize(n)), n)
		v.Case(s, fmt.Sprintf("(%s,%s,%s,%s)", gZ(int64(n)), gZ(int64(hotstuff.NumFaulty(n))), gZ(int64(hotstuff.QuorumSize(n))), gZ(int64(cq))),
			map[string]int{"n": n, "config_quorum": cq})
	}
	// re-adding an existing id must not change the count
	cfg.AddReplica(&hotstuff.ReplicaInfo{ID: hotstuff.ID(1)})
	v.Oracle(cfg.ReplicaCount() == maxN, "config:duplicate-id-counted", "re-adding replica 1 changed ReplicaCount", maxN)
	v.CountN("config_n", maxN)
	// memberships whose ids are not 1..n: gaps, large ids, descending and shuffled registration order, the
	// configuration's own id anywhere — the threshold belongs to the NUMBER of members, not to their ids
	s2 := v.Stream("sparse", "mismatches", 4000)
	sparse := 0
	for _, n := range []int{1, 2, 3, 4, 5, 6, 7, 10, 13, 16, 31, 100} {
		for shape := 0; shape < 8; shape++ {
			ids := make([]hotstuff.ID, n)
			for i := range ids {
				switch shape {
				case 0: // one gap before the last member
					ids[i] = hotstuff.ID(i + 1)
					if i == n-1 {
						ids[i] = hotstuff.ID(n + 3)
					}
				case 1: // every second id
					ids[i] = hotstuff.ID(2*i + 1)
				case 2: // starting high
					ids[i] = hotstuff.ID(1000 + i)
				case 3: // descending registration order
					ids[i] = hotstuff.ID(n - i)
				case 4: // powers of two
					ids[i] = hotstuff.ID(1) << uint(i%31)
					if i >= 31 {
						ids[i] = hotstuff.ID(3_000_000 + i)
					}
				case 5: // near the top of the id range
					ids[i] = hotstuff.ID(4294967295 - uint32(7*i))
				case 6: // random distinct ids
					for {
						c := hotstuff.ID(1 + v.rng.Intn(1<<20))
						dup := false
						for _, o := range ids[:i] {
							dup = dup || o == c
						}
						if !dup {
							ids[i] = c
							break
						}
					}
				case 7: // 1..n shuffled
					ids[i] = hotstuff.ID(i + 1)
				}
			}
			if shape == 7 {
				v.rng.Shuffle(n, func(a, b int) { ids[a], ids[b] = ids[b], ids[a] })
			}
			for _, self := range []hotstuff.ID{ids[0], ids[n-1]} {
				c := NewRuntimeConfig(self, nil)
				for k, id := range ids {
					c.AddReplica(&hotstuff.ReplicaInfo{ID: id})
					if k%3 == 0 {
						c.AddReplica(&hotstuff.ReplicaInfo{ID: id}) // the same member announced twice
					}
					m := k + 1
					cq := c.QuorumSize()
					meta := map[string]any{"ids_in_registration_order": fmt.Sprint(ids[:m]), "own_id": self, "members": m, "replica_count": c.ReplicaCount(), "config_quorum": cq}
					v.Seen(fmt.Sprintf("sparse %d/%d/%d/%d", n, shape, self, m), m >= 4, meta)
					v.Oracle(c.ReplicaCount() == m, "config:replica-count-differs-from-membership", fmt.Sprintf("ReplicaCount()=%d for the %d members %v", c.ReplicaCount(), m, ids[:m]), meta)
					v.Oracle(cq == hotstuff.QuorumSize(m), "config:threshold-differs", fmt.Sprintf("RuntimeConfig.QuorumSize()=%d for the %d members %v, QuorumSize(%d)=%d", cq, m, ids[:m], m, hotstuff.QuorumSize(m)), meta)
					v.Case(s2, fmt.Sprintf("(%s,%s,%s,%s)", gZ(int64(m)), gZ(int64(hotstuff.NumFaulty(m))), gZ(int64(hotstuff.QuorumSize(m))), gZ(int64(cq))), meta)
					sparse++
				}
			}
		}
	}
	v.CountN("config_sparse_memberships", sparse)
	v.Close("RuntimeConfig with n = 1..N replicas; non-trivial = n >= 4")
}

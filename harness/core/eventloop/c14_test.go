package eventloop

import (
	"context"
	"fmt"
	"os"
	"reflect"
	"sort"
	"strings"
	"sync"
	"sync/atomic"
	"testing"
	"time"

	"github.com/relab/hotstuff"
)

// at most c14MaxPerFingerprint failures per fingerprint are forwarded (the shared helper keeps 200 in
// total), so that one defect does not hide the others; the rest are counted.
const c14MaxPerFingerprint = 4

var c14FailCount = map[string]int{}

func c14Oracle(v *verifOut, ok bool, fingerprint, what string, input any) {
	if !ok {
		c14FailCount[fingerprint]++
		if c14FailCount[fingerprint] > c14MaxPerFingerprint && os.Getenv("VERIF_C14_ALLFAILS") == "" {
			v.Count("oracle-failures-not-listed:" + fingerprint)
			return
		}
	}
	v.Oracle(ok, fingerprint, what, input)
}

// ---------------------------------------------------------------------------------------------
// C14, part 1: the ring buffer `queue` against a reference deque (the property's oracle) and the
// Coq ring model (kernel recomputation of every return value).
// ---------------------------------------------------------------------------------------------

type c14QOp struct {
	Kind string `json:"k"` // push | pushnil | pop | len
	Val  uint64 `json:"v,omitempty"`
}

type c14QOut struct {
	kind string // pushed | popped | len
	has  bool   // value present (non-nil)
	val  uint64
	ok   bool
	n    int
}

func c14OptN(has bool, v uint64) string { return gOpt(has, gN(v)) }

func (o c14QOut) gallina() string {
	switch o.kind {
	case "pushed":
		return "OPushed " + c14OptN(o.has, o.val)
	case "popped":
		return "OPopped " + c14OptN(o.has, o.val) + " " + gBool(o.ok)
	default:
		return "OLen " + gZ(int64(o.n))
	}
}

func c14QOpsGallina(ops []c14QOp) string {
	ss := make([]string, len(ops))
	for i, o := range ops {
		switch o.Kind {
		case "push":
			ss[i] = "QPush (Some " + gN(o.Val) + ")"
		case "pushnil":
			ss[i] = "QPush None"
		case "pop":
			ss[i] = "QPop"
		default:
			ss[i] = "QLen"
		}
	}
	return gList(ss)
}

func c14QKey(capacity int, ops []c14QOp) string {
	var b strings.Builder
	fmt.Fprintf(&b, "q%d:", capacity)
	for _, o := range ops {
		b.WriteString(o.Kind[:2])
		if o.Kind == "push" {
			fmt.Fprintf(&b, "%d", o.Val)
		}
		b.WriteByte(',')
	}
	return b.String()
}

func c14AsN(x any) (bool, uint64) {
	if x == nil {
		return false, 0
	}
	return true, x.(uint64)
}

// c14RunQueue runs ops (followed by a drain: len, then capacity+1 pops) on a real queue, checks the
// bounded-FIFO oracle on every return value and emits the observation as a kernel case.
func c14RunQueue(v *verifOut, s *verifStream, stream string, capacity int, ops []c14QOp) {
	all := append([]c14QOp{}, ops...)
	all = append(all, c14QOp{Kind: "len"})
	for i := 0; i <= capacity; i++ {
		all = append(all, c14QOp{Kind: "pop"})
	}
	meta := map[string]any{"stream": stream, "capacity": capacity, "ops": all}

	var q queue
	panicked := false
	func() {
		defer func() {
			if recover() != nil {
				panicked = true
			}
		}()
		q = newQueue(uint(capacity))
	}()
	if panicked {
		c14Oracle(v, capacity == 0, "queue.new:panic", "newQueue panicked for a positive capacity", meta)
		v.Seen(c14QKey(capacity, nil), false, nil)
		v.Case(s, fmt.Sprintf("(%s, true, [], [])", gNat(capacity)), meta)
		return
	}
	c14Oracle(v, capacity != 0, "queue.new:zero-capacity-accepted", "newQueue(0) did not panic", meta)

	type ref struct {
		has bool
		val uint64
	}
	var deque []ref // the oracle: oldest first
	outs := make([]string, 0, len(all))
	overflowed, wrapped := false, false
	pushes := 0
	opPanicked := false
	for i, o := range all {
		var out c14QOut
		func() {
			defer func() {
				if r := recover(); r != nil {
					opPanicked = true
					c14Oracle(v, false, "queue:panic", fmt.Sprintf("op %d (%s) panicked: %v", i, o.Kind, r), meta)
				}
			}()
			switch o.Kind {
			case "push", "pushnil":
				var entry any
				e := ref{}
				if o.Kind == "push" {
					entry = o.Val
					e = ref{true, o.Val}
				}
				d := q.push(entry)
				pushes++
				if pushes > capacity {
					wrapped = true
				}
				has, val := c14AsN(d)
				out = c14QOut{kind: "pushed", has: has, val: val}
				if len(deque) < capacity {
					c14Oracle(v, !has, "queue.push:spurious-drop", fmt.Sprintf("op %d: push on a non-full queue reported dropped=%v", i, d), meta)
					deque = append(deque, e)
				} else {
					overflowed = true
					oldest := deque[0]
					if oldest.has && !has {
						c14Oracle(v, false, "queue.push:missing-drop", fmt.Sprintf("op %d: push on a full queue reported nothing, oldest pending is %d", i, oldest.val), meta)
					} else {
						c14Oracle(v, has == oldest.has && val == oldest.val, "queue.push:dropped-not-oldest",
							fmt.Sprintf("op %d: push on a full queue of capacity %d reported %v as dropped, but the oldest pending entry (the one actually lost) is %v; pending=%v", i, capacity, d, oldest.val, deque), meta)
					}
					deque = append(deque[1:], e)
				}
			case "pop":
				x, ok := q.pop()
				has, val := c14AsN(x)
				out = c14QOut{kind: "popped", has: has, val: val, ok: ok}
				if len(deque) == 0 {
					c14Oracle(v, !ok && !has, "queue.pop:nonempty-result-on-empty", fmt.Sprintf("op %d: pop on an empty queue returned (%v,%v)", i, x, ok), meta)
				} else {
					want := deque[0]
					deque = deque[1:]
					c14Oracle(v, ok && has == want.has && val == want.val, "queue.pop:not-fifo",
						fmt.Sprintf("op %d: pop returned (%v,%v), oldest pending entry is %v", i, x, ok, want), meta)
				}
			default:
				n := q.len()
				out = c14QOut{kind: "len", n: n}
				c14Oracle(v, n == len(deque), "queue.len:wrong", fmt.Sprintf("op %d: len()=%d, pending=%d", i, n, len(deque)), meta)
			}
		}()
		if opPanicked {
			break
		}
		outs = append(outs, out.gallina())
	}
	c14Oracle(v, len(deque) == 0 || opPanicked, "queue:drain-incomplete", "queue not empty after capacity+1 pops", meta)
	v.Seen(c14QKey(capacity, ops), overflowed || wrapped, map[string]any{"capacity": capacity, "ops": len(ops), "overflowed": overflowed})
	if overflowed {
		v.Count("queue:seq-with-overflow")
	}
	if wrapped {
		v.Count("queue:seq-with-wraparound")
	}
	v.Count(fmt.Sprintf("queue:%s:cap=%d", stream, capacity))
	v.Case(s, fmt.Sprintf("(%s, false, %s, %s)", gNat(capacity), c14QOpsGallina(all[:len(outs)]), gList(outs)), meta)
}

func c14QueueStreams(v *verifOut) {
	s := v.Stream("queue", "q_mismatches", 1500)

	// (a) exhaustive: every push/pop/len sequence of length L on capacities 1..maxCap
	//     (pushed values are 1,2,3,... so every entry is distinguishable)
	L := v.Pick(7, 9)
	maxCap := v.Pick(4, 5)
	for capacity := 1; capacity <= maxCap; capacity++ {
		total := 1
		for i := 0; i < L; i++ {
			total *= 3
		}
		for code := 0; code < total; code++ {
			ops := make([]c14QOp, L)
			c := code
			next := uint64(1)
			for i := 0; i < L; i++ {
				switch c % 3 {
				case 0:
					ops[i] = c14QOp{Kind: "push", Val: next}
					next++
				case 1:
					ops[i] = c14QOp{Kind: "pop"}
				default:
					ops[i] = c14QOp{Kind: "len"}
				}
				c /= 3
			}
			c14RunQueue(v, s, "exhaustive", capacity, ops)
		}
	}

	// (b) seeded random: larger capacities, long sequences with push-heavy and pop-heavy phases
	nRand := v.Pick(1500, 20000)
	for i := 0; i < nRand; i++ {
		capacity := 1 + v.rng.Intn(9)
		n := 5 + v.rng.Intn(v.Pick(40, 120))
		ops := make([]c14QOp, n)
		next := uint64(1)
		pushBias := 30 + v.rng.Intn(60)
		for j := range ops {
			if j%16 == 0 {
				pushBias = 20 + v.rng.Intn(75)
			}
			r := v.rng.Intn(100)
			switch {
			case r < pushBias:
				ops[j] = c14QOp{Kind: "push", Val: next}
				next++
			case r < pushBias+(100-pushBias)*4/5:
				ops[j] = c14QOp{Kind: "pop"}
			default:
				ops[j] = c14QOp{Kind: "len"}
			}
		}
		c14RunQueue(v, s, "random", capacity, ops)
	}

	// (c) boundary / malformed: capacity 0, nil entries, duplicate values, fill-exactly-then-overflow
	c14RunQueue(v, s, "boundary", 0, nil)
	for capacity := 1; capacity <= 6; capacity++ {
		// exactly full, then k overflows, then drain; for every rotation of the ring
		for rot := 0; rot <= capacity; rot++ {
			for k := 0; k <= capacity+1; k++ {
				var ops []c14QOp
				next := uint64(1)
				for j := 0; j < rot; j++ {
					ops = append(ops, c14QOp{Kind: "push", Val: next}, c14QOp{Kind: "pop"})
					next++
				}
				for j := 0; j < capacity+k; j++ {
					ops = append(ops, c14QOp{Kind: "push", Val: next})
					next++
				}
				c14RunQueue(v, s, "boundary", capacity, ops)
			}
		}
		// nil entries and repeated values
		ops := []c14QOp{{Kind: "pushnil"}, {Kind: "push", Val: 7}, {Kind: "push", Val: 7}, {Kind: "pushnil"}, {Kind: "len"},
			{Kind: "push", Val: 7}, {Kind: "pop"}, {Kind: "pushnil"}, {Kind: "push", Val: 8}, {Kind: "push", Val: 8}, {Kind: "push", Val: 9}}
		c14RunQueue(v, s, "boundary", capacity, ops)
	}
}


// ---------------------------------------------------------------------------------------------
// C14, part 2: the EventLoop (public API only) driven by programs of add / defer / register /
// unregister / tick operations with re-entrant recording handlers.
// ---------------------------------------------------------------------------------------------

const c14Types = 3    // harness event types 0..2
const c14MaxTypes = 5 // + type 3 = hotstuff.ViewChangeEvent, type 4 = hotstuff.TimeoutEvent (context.go)
const c14CtxBase = 1000

// the real event types carry no serial: their View is the payload id and (per type) the serial
func c14RealSer(t int, id uint64) uint64 { return uint64(t-2)<<40 | id }
const c14MaxDepth = 6
const c14MaxCalls = 400

type c14Ev0 struct{ ID, Ser uint64 }
type c14Ev1 struct{ ID, Ser uint64 }
type c14Ev2 struct{ ID, Ser uint64 }

func c14Mk(t int, id, ser uint64) any {
	switch t {
	case 0:
		return c14Ev0{id, ser}
	case 1:
		return c14Ev1{id, ser}
	case 2:
		return c14Ev2{id, ser}
	case 3:
		return hotstuff.ViewChangeEvent{View: hotstuff.View(id)}
	default:
		return hotstuff.TimeoutEvent{View: hotstuff.View(id)}
	}
}

func c14Unpack(ev any) (int, uint64, uint64, bool) {
	switch e := ev.(type) {
	case c14Ev0:
		return 0, e.ID, e.Ser, true
	case c14Ev1:
		return 1, e.ID, e.Ser, true
	case c14Ev2:
		return 2, e.ID, e.Ser, true
	case hotstuff.ViewChangeEvent:
		return 3, uint64(e.View), c14RealSer(3, uint64(e.View)), true
	case hotstuff.TimeoutEvent:
		return 4, uint64(e.View), c14RealSer(4, uint64(e.View)), true
	}
	return 0, 0, 0, false
}

func c14Reg(el *EventLoop, t int, f func(t int, id, ser uint64), opts ...HandlerOption) func() {
	switch t {
	case 0:
		return Register(el, func(e c14Ev0) { f(0, e.ID, e.Ser) }, opts...)
	case 1:
		return Register(el, func(e c14Ev1) { f(1, e.ID, e.Ser) }, opts...)
	case 2:
		return Register(el, func(e c14Ev2) { f(2, e.ID, e.Ser) }, opts...)
	case 3:
		return Register(el, func(e hotstuff.ViewChangeEvent) { f(3, uint64(e.View), c14RealSer(3, uint64(e.View))) }, opts...)
	default:
		return Register(el, func(e hotstuff.TimeoutEvent) { f(4, uint64(e.View), c14RealSer(4, uint64(e.View))) }, opts...)
	}
}

func c14TypeOf(t int) reflect.Type {
	switch t {
	case 0:
		return reflect.TypeFor[c14Ev0]()
	case 1:
		return reflect.TypeFor[c14Ev1]()
	case 2:
		return reflect.TypeFor[c14Ev2]()
	case 3:
		return reflect.TypeFor[hotstuff.ViewChangeEvent]()
	default:
		return reflect.TypeFor[hotstuff.TimeoutEvent]()
	}
}

func c14Delay(el *EventLoop, t int, ev any) {
	switch t {
	case 0:
		DelayUntil[c14Ev0](el, ev)
	case 1:
		DelayUntil[c14Ev1](el, ev)
	case 2:
		DelayUntil[c14Ev2](el, ev)
	case 3:
		DelayUntil[hotstuff.ViewChangeEvent](el, ev)
	default:
		DelayUntil[hotstuff.TimeoutEvent](el, ev)
	}
}

// recording logger: only the "dropped event" warning is of interest
type c14Logger struct {
	mu   sync.Mutex
	drop func(ev any)
}

func (l *c14Logger) DPanic(...any)          {}
func (l *c14Logger) DPanicf(string, ...any) {}
func (l *c14Logger) Debug(...any)           {}
func (l *c14Logger) Debugf(string, ...any)  {}
func (l *c14Logger) Error(...any)           {}
func (l *c14Logger) Errorf(string, ...any)  {}
func (l *c14Logger) Fatal(...any)           {}
func (l *c14Logger) Fatalf(string, ...any)  {}
func (l *c14Logger) Info(...any)            {}
func (l *c14Logger) Infof(string, ...any)   {}
func (l *c14Logger) Panic(...any)           {}
func (l *c14Logger) Panicf(string, ...any)  {}
func (l *c14Logger) Warn(...any)            {}
func (l *c14Logger) Warnf(tmpl string, args ...any) {
	if strings.Contains(tmpl, "dropped event") && len(args) > 0 {
		l.mu.Lock()
		defer l.mu.Unlock()
		l.drop(args[0])
	}
}

type c14Act struct {
	Kind   string `json:"k"` // add addnil delay delaynil reg unreg tick run (run: K=0 context cancelled before Run, K=1 cancelled by the first handled event)
	T      int    `json:"t,omitempty"`
	ET     int    `json:"et,omitempty"` // type of the deferred event
	ID     uint64 `json:"id,omitempty"`
	H      int    `json:"h,omitempty"`
	Prio   bool   `json:"prio,omitempty"`
	RunAdd bool   `json:"runadd,omitempty"`
	K      int    `json:"n,omitempty"`
	// "reg": how the option SET {Prio, RunAdd} is handed to Register: 0 = Prioritize() before UnsafeRunInAddEvent()
	// (the only order the repository itself uses), 1 = reversed, 2 = canonical order with the first option repeated
	// at the end, 3 = reversed order with its first option repeated at the end.  The model only sees the set.
	Ord    int    `json:"option_order,omitempty"`
	Ticks  int    `json:"ticks,omitempty"` // "run": number of Tick steps el.Run was observed to perform (filled in after the run)
	// ctxview (K = view bound, 0 = nil) / ctxtimeout / ctxcancel (K = number of the context): filled in after
	// the run: the context's number and the registration numbers (= unregister closures) it owns
	C    int   `json:"ctx,omitempty"`
	Toks []int `json:"registrations,omitempty"`
	Skip bool  `json:"skipped,omitempty"` // the operation could not be performed (no such context / closure)
}

// c14Options turns the option set into the list of options passed to Register, in the order chosen by ord
func c14Options(prio, runadd bool, ord int) ([]HandlerOption, []string) {
	type o struct {
		f    func() HandlerOption
		name string
	}
	var seq []o
	if prio {
		seq = append(seq, o{Prioritize, "Prioritize()"})
	}
	if runadd {
		seq = append(seq, o{UnsafeRunInAddEvent, "UnsafeRunInAddEvent()"})
	}
	if ord%2 == 1 {
		for i, j := 0, len(seq)-1; i < j; i, j = i+1, j-1 {
			seq[i], seq[j] = seq[j], seq[i]
		}
	}
	if ord >= 2 && len(seq) > 0 {
		seq = append(seq, seq[0])
	}
	var opts []HandlerOption
	var names []string
	for _, x := range seq {
		opts = append(opts, x.f())
		names = append(names, x.name)
	}
	return opts, names
}

func c14Event(t int, id uint64) string { return fmt.Sprintf("(%s, %s)", gN(uint64(t)), gN(id)) }

func (a c14Act) gallina() string {
	switch a.Kind {
	case "add":
		return "AAdd (Some " + c14Event(a.T, a.ID) + ")"
	case "addnil":
		return "AAdd None"
	case "delay":
		return fmt.Sprintf("ADelay %s (Some %s)", gN(uint64(a.T)), c14Event(a.ET, a.ID))
	case "delaynil":
		return fmt.Sprintf("ADelay %s None", gN(uint64(a.T)))
	case "reg":
		return fmt.Sprintf("AReg %s %s %s %s", gN(uint64(a.T)), gN(uint64(a.H)), gBool(a.Prio), gBool(a.RunAdd))
	case "unreg":
		return "AUnreg " + gNat(a.K)
	}
	panic("tick is not an action")
}

func c14ProgGallina(prog []c14Act) string {
	var ss []string
	for _, a := range prog {
		switch a.Kind {
		case "tick":
			ss = append(ss, "OTick")
		case "run":
			// el.Run with a cancelled context = Tick until the queue is empty
			for i := 0; i < a.Ticks; i++ {
				ss = append(ss, "OTick")
			}
		case "ctxview":
			// ViewContext = Register[ViewChangeEvent](prioritised, run-in-AddEvent)
			ss = append(ss, fmt.Sprintf("OAct (AReg 3%%N %s true true)", gN(uint64(c14CtxBase+2*a.C))))
		case "ctxtimeout":
			// TimeoutContext = ViewContext(nil) + Register[TimeoutEvent](prioritised, run-in-AddEvent)
			ss = append(ss, fmt.Sprintf("OAct (AReg 3%%N %s true true)", gN(uint64(c14CtxBase+2*a.C))),
				fmt.Sprintf("OAct (AReg 4%%N %s true true)", gN(uint64(c14CtxBase+2*a.C+1))))
		case "ctxcancel":
			// the returned cancel function: unregister closures in the order context.go calls them
			for _, k := range a.Toks {
				ss = append(ss, "OAct (AUnreg "+gNat(k)+")")
			}
		default:
			if !a.Skip {
				ss = append(ss, "OAct ("+a.gallina()+")")
			}
		}
	}
	return gList(ss)
}

func c14TblGallina(tbl [][]c14Act) string {
	ss := make([]string, len(tbl))
	for i, sc := range tbl {
		as := make([]string, len(sc))
		for j, a := range sc {
			as[j] = a.gallina()
		}
		ss[i] = gList(as)
	}
	return gList(ss)
}

type c14RegInfo struct {
	t, h         int
	prio, runadd bool
	live         bool
	unregs       int
	silent       bool // registered by context.go itself: its invocations are not observable
	ctx          int
	optNames     []string // the options as passed to Register, in order
}

type c14Ctx struct {
	ctx     context.Context
	cancel  context.CancelFunc
	toks    []int  // registrations in the order the returned cancel function unregisters them
	viewTok int    // the ViewChangeEvent registration
	bound   uint64 // 0 = nil
	timeout bool
	want    bool // must be cancelled by now (event seen while registered, or cancel called)
}

type c14Ent struct {
	kind  byte // H D T
	depth int
	inadd bool
	h     int
	t     int
	id    uint64
	ser   uint64
	reg   int
	ok    bool
}

func (e c14Ent) gallina() string {
	switch e.kind {
	case 'H':
		return fmt.Sprintf("LHandle %s %s %s %s", gNat(e.depth), gBool(e.inadd), gN(uint64(e.h)), c14Event(e.t, e.id))
	case 'D':
		return "LDrop " + c14Event(e.t, e.id)
	default:
		return "LTick " + gBool(e.ok)
	}
}

type c14Run struct {
	v        *verifOut
	meta     map[string]any
	capacity int
	el       *EventLoop
	tbl      [][]c14Act
	regs     []c14RegInfo
	unregs   []func()
	depth    int
	calls    int
	aborted  bool
	trace    []c14Ent
	nextSer  uint64
	// oracle state
	doubleUnreg bool
	wrapped     []int    // depths of harness-made AddEvent calls in progress
	refq        []uint64 // reference FIFO of pending events (serials), oldest first
	pendReadd   uint64   // serial of a re-added event whose push is not yet accounted for (0 = none)
	deferred    [c14MaxTypes][]uint64
	inTick      bool
	tickType    int // type of the event popped by the current Tick (-1 = not yet known)
	expect      []uint64
	frozen      bool
	addedCnt    map[uint64]int
	popCnt      map[uint64]int
	dropCnt     map[uint64]int
	overflowed  bool
	nDeferred   int
	nNested     int
	tickFrom    int
	tickLive    [c14MaxTypes][]int
	nTypes      int
	ctxs        []*c14Ctx
	ctbl        [][]c14Act
	inRun       bool
	runPops     int
	runCancel   func()
	nRuns       int
	lastRunTicks int
}

// once a run is aborted (handler nesting too deep for the bounded model) it is discarded entirely
func (r *c14Run) fail(fp, what string) {
	if !r.aborted {
		if st, ok := r.meta["stream"].(string); ok {
			r.v.Count("oracle-failures-in-stream:" + st)
		}
		c14Oracle(r.v, false, fp, what, r.meta)
	}
}

// the push of serial ser has completed: account for it in the reference FIFO
func (r *c14Run) stamp(ser uint64) {
	if len(r.refq) >= r.capacity {
		r.fail("loop.overflow:lost-unreported", fmt.Sprintf("an event was added to a full queue (capacity %d) but no dropped event was reported", r.capacity))
		r.refq = r.refq[1:]
	}
	r.refq = append(r.refq, ser)
}

func (r *c14Run) flushReadd() {
	if r.pendReadd != 0 {
		r.stamp(r.pendReadd)
		r.pendReadd = 0
	}
}

func (r *c14Run) onDrop(ev any) {
	if r.aborted {
		return
	}
	t, id, ser, ok := c14Unpack(ev)
	if !ok {
		r.fail("loop.overflow:reported-garbage", fmt.Sprintf("dropped event report carries %v", ev))
		return
	}
	r.trace = append(r.trace, c14Ent{kind: 'D', t: t, id: id, ser: ser})
	r.dropCnt[ser]++
	r.overflowed = true
	// the push that caused this report is not yet in refq; everything older is
	if len(r.refq) < r.capacity {
		r.fail("loop.overflow:drop-below-capacity", fmt.Sprintf("event %d/%d reported dropped while only %d of %d slots were in use", t, id, len(r.refq), r.capacity))
	}
	if len(r.refq) > 0 && r.refq[0] != ser {
		r.fail("loop.overflow:reported-not-oldest", fmt.Sprintf("event (type %d, id %d) reported as dropped, but the oldest pending event is another one (pending serials %v, reported serial %d)", t, id, r.refq, ser))
	}
	// whatever was reported, a bounded FIFO loses its oldest entry
	if len(r.refq) > 0 {
		r.refq = r.refq[1:]
	}
}

func (r *c14Run) liveSet(t int, runadd bool) []int {
	var out []int
	for i, g := range r.regs {
		if g.live && !g.silent && g.t == t && g.runadd == runadd {
			out = append(out, i)
		}
	}
	return out
}

// checkDispatch: the handler calls at `depth` with flag `inadd` in trace[from:] must be exactly the
// registrations in `live`, each once, prioritised ones first.
func (r *c14Run) checkDispatch(from, depth int, inadd bool, live []int, what string) {
	var got []int
	seenOrdinary := false
	for _, e := range r.trace[from:] {
		if e.kind != 'H' || e.depth != depth || e.inadd != inadd {
			continue
		}
		got = append(got, e.reg)
		if r.regs[e.reg].prio {
			if seenOrdinary {
				r.fail("loop.dispatch:ordinary-before-priority", what+": a prioritised handler ran after an ordinary one")
			}
		} else {
			seenOrdinary = true
		}
	}
	if r.aborted {
		return
	}
	a := append([]int{}, got...)
	b := append([]int{}, live...)
	sort.Ints(a)
	sort.Ints(b)
	if fmt.Sprint(a) != fmt.Sprint(b) {
		missing := false
		for _, x := range b {
			found := false
			for _, y := range a {
				found = found || x == y
			}
			missing = missing || !found
		}
		// a registration that is in one list but not the other and was given its options in another way than
		// (Prioritize(), UnsafeRunInAddEvent()): its options were not treated as a set
		optReg := -1
		inList := func(l []int, x int) bool {
			for _, y := range l {
				if x == y {
					return true
				}
			}
			return false
		}
		for _, x := range append(append([]int{}, a...), b...) {
			if inList(a, x) != inList(b, x) && len(r.regs[x].optNames) > 0 &&
				fmt.Sprint(r.regs[x].optNames) != "[Prioritize() UnsafeRunInAddEvent()]" && len(r.regs[x].optNames) != 1 {
				optReg = x
			}
		}
		if optReg >= 0 {
			mode := "in the event loop"
			if inadd {
				mode = "inside AddEvent"
			}
			r.fail("loop.register:options-not-a-set", fmt.Sprintf("%s: handlers invoked %s (registration numbers) %v, registered for this mode at that moment %v; registration %d was made with options %v, i.e. the option set {priority=%v, run-in-AddEvent=%v}, and is not treated accordingly", what, mode, got, live, optReg, r.regs[optReg].optNames, r.regs[optReg].prio, r.regs[optReg].runadd))
		} else if r.doubleUnreg && missing {
			// an unregister closure was called more than once earlier: it must only ever remove its own handler
			r.fail("loop.unregister:stale-closure-removed-another-handler", fmt.Sprintf("%s: handlers invoked (registration numbers) %v, but registered and never unregistered by their own closure: %v -- a second call of an older unregister closure removed a handler that reused its slot", what, got, live))
		} else {
			r.fail("loop.dispatch:not-exactly-once", fmt.Sprintf("%s: handlers invoked (registration numbers) %v, registered at that moment %v", what, got, live))
		}
	}
}

func (r *c14Run) handler(reg int) func(t int, id, ser uint64) {
	return func(t int, id, ser uint64) {
		if r.aborted {
			return
		}
		g := r.regs[reg]
		r.calls++
		if r.depth > c14MaxDepth || r.calls > c14MaxCalls {
			r.aborted = true
			return
		}
		if r.inRun && r.depth == 0 && reg < r.nTypes {
			// Run popped the next event: the previous iteration is complete
			if r.runPops > 0 {
				r.endTick(true)
				r.beginTick()
			}
			r.runPops++
			if r.runCancel != nil {
				r.runCancel()
				r.runCancel = nil
			}
		}
		r.trace = append(r.trace, c14Ent{kind: 'H', depth: r.depth, inadd: g.runadd, h: g.h, t: t, id: id, ser: ser, reg: reg})
		// recorder duties (registrations 0..2*c14Types-1 are the recorders, see c14Prefix)
		if reg < 2*r.nTypes {
			if g.runadd {
				r.addedCnt[ser]++
				isWrapped := len(r.wrapped) > 0 && r.wrapped[len(r.wrapped)-1] == r.depth
				if !isWrapped {
					// a deferred event is being re-added by the loop
					r.flushReadd()
					r.pendReadd = ser
					if !r.inTick || r.depth != 0 {
						r.fail("loop.deferred:readded-outside-tick", fmt.Sprintf("event %d/%d was added by the loop outside the end of a Tick", t, id))
					} else {
						if !r.frozen {
							r.frozen = true
							if r.tickType >= 0 {
								r.expect = r.deferred[r.tickType]
								r.deferred[r.tickType] = nil
							}
						}
						if len(r.expect) == 0 || r.expect[0] != ser {
							r.fail("loop.deferred:wrong-order-or-unexpected", fmt.Sprintf("event %d/%d re-added after a type-%d event; expected serials (in deferral order) %v, got %d", t, id, r.tickType, r.expect, ser))
							for i, s := range r.expect {
								if s == ser {
									r.expect = append(r.expect[:i:i], r.expect[i+1:]...)
									break
								}
							}
						} else {
							r.expect = r.expect[1:]
						}
					}
				}
			} else {
				// the event popped by the current Tick
				r.popCnt[ser]++
				r.tickType = t
				if len(r.refq) == 0 || r.refq[0] != ser {
					r.fail("loop.fifo:out-of-order", fmt.Sprintf("event %d/%d (serial %d) handled, but the oldest pending event is another one (pending serials %v)", t, id, ser, r.refq))
					for i, s := range r.refq {
						if s == ser {
							r.refq = append(r.refq[:i:i], r.refq[i+1:]...)
							break
						}
					}
				} else {
					r.refq = r.refq[1:]
				}
			}
		} else if !g.runadd && r.depth == 0 && r.frozen {
			r.fail("loop.deferred:readded-before-handled", "a deferred event was re-added before all handlers of the awaited event had run")
		}
		if r.depth > 0 {
			r.nNested++
		}
		r.depth++
		for _, a := range r.tbl[g.h] {
			r.do(a)
			if r.aborted {
				break
			}
		}
		r.depth--
	}
}

func (r *c14Run) do(a c14Act) {
	switch a.Kind {
	case "add":
		r.nextSer++
		ser := r.nextSer
		if a.T >= c14Types {
			ser = c14RealSer(a.T, a.ID)
			r.refContextsSee(a.T, a.ID)
		}
		live := r.liveSet(a.T, true)
		from := len(r.trace)
		r.wrapped = append(r.wrapped, r.depth)
		r.el.AddEvent(c14Mk(a.T, a.ID, ser))
		r.wrapped = r.wrapped[:len(r.wrapped)-1]
		if r.aborted {
			return
		}
		r.stamp(ser)
		r.checkDispatch(from, r.depth, true, live, fmt.Sprintf("AddEvent(type %d, id %d)", a.T, a.ID))
	case "addnil":
		from := len(r.trace)
		r.el.AddEvent(nil)
		if len(r.trace) != from {
			r.fail("loop.add:nil-event-dispatched", "AddEvent(nil) had an observable effect")
		}
	case "delay":
		r.nextSer++
		r.deferred[a.T] = append(r.deferred[a.T], r.nextSer)
		r.nDeferred++
		c14Delay(r.el, a.T, c14Mk(a.ET, a.ID, r.nextSer))
	case "delaynil":
		c14Delay(r.el, a.T, nil)
	case "reg":
		reg := len(r.regs)
		opts, names := c14Options(a.Prio, a.RunAdd, a.Ord)
		r.regs = append(r.regs, c14RegInfo{t: a.T, h: a.H, prio: a.Prio, runadd: a.RunAdd, live: true, optNames: names})
		r.unregs = append(r.unregs, c14Reg(r.el, a.T, r.handler(reg), opts...))
	case "unreg":
		if a.K < len(r.unregs) && r.unregs[a.K] != nil {
			r.refUnregister(a.K)
			r.unregs[a.K]()
		}
	case "ctxview", "ctxtimeout":
		c := &c14Ctx{bound: uint64(a.K), timeout: a.Kind == "ctxtimeout"}
		n := len(r.ctxs)
		c.viewTok = len(r.regs)
		r.regs = append(r.regs, c14RegInfo{t: 3, h: c14CtxBase + 2*n, prio: true, runadd: true, live: true, silent: true, ctx: n})
		r.unregs = append(r.unregs, nil)
		r.ctbl = append(r.ctbl, nil, nil)
		if c.timeout {
			c.bound = 0
			toTok := len(r.regs)
			r.regs = append(r.regs, c14RegInfo{t: 4, h: c14CtxBase + 2*n + 1, prio: true, runadd: true, live: true, silent: true, ctx: n})
			r.unregs = append(r.unregs, nil)
			// the TimeoutEvent handler calls ViewContext's cancel function, i.e. the view registration's closure
			r.ctbl[2*n+1] = []c14Act{{Kind: "unreg", K: c.viewTok}}
			c.toks = []int{toTok, c.viewTok}
			c.ctx, c.cancel = r.el.TimeoutContext()
		} else {
			c.toks = []int{c.viewTok}
			if c.bound == 0 {
				c.ctx, c.cancel = r.el.ViewContext(nil)
			} else {
				b := hotstuff.View(c.bound)
				c.ctx, c.cancel = r.el.ViewContext(&b)
			}
		}
		c.want = r.el.Context().Err() != nil
		r.ctxs = append(r.ctxs, c)
	case "ctxcancel":
		if a.K < len(r.ctxs) {
			c := r.ctxs[a.K]
			for _, k := range c.toks {
				r.refUnregister(k)
			}
			c.want = true
			c.cancel()
		}
	case "tick":
		wantOK := len(r.refq) > 0
		r.beginTick()
		ok := r.el.Tick(context.Background())
		if r.aborted {
			r.inTick = false
			return
		}
		if ok != wantOK {
			r.fail("loop.tick:wrong-result", fmt.Sprintf("Tick returned %v with %d events pending", ok, len(r.refq)))
		}
		r.endTick(ok)
	case "run":
		// el.Run with a context that is cancelled before the call (K=0) or by the first handled event (K=1):
		// Run must handle everything that is pending (and whatever the handlers add meanwhile) exactly like
		// repeated Tick calls, then return.
		ctx, cancel := context.WithCancel(context.Background())
		watchdog := time.AfterFunc(10*time.Second, cancel)
		r.nRuns++
		r.inRun, r.runPops, r.runCancel = true, 0, nil
		if a.K == 1 && len(r.refq) > 0 {
			r.runCancel = cancel
		} else {
			cancel()
		}
		r.beginTick()
		r.el.Run(ctx)
		watchdog.Stop()
		cancel()
		r.inRun = false
		if r.aborted {
			r.inTick = false
			return
		}
		if r.runPops > 0 {
			r.endTick(true)
		} else {
			r.inTick = false
		}
		r.lastRunTicks = r.runPops
		if r.el.eventQ.len() == 0 {
			r.trace = append(r.trace, c14Ent{kind: 'T', ok: false})
			r.lastRunTicks++
		}
		if len(r.refq) > 0 {
			r.fail("loop.run:returned-with-pending-events", fmt.Sprintf("Run returned on a cancelled context with %d events still pending (they were pending before the queue was seen empty)", len(r.refq)))
		}
	}
}

// reference semantics of an unregister closure: it removes the handler it registered, once
func (r *c14Run) refUnregister(k int) {
	r.regs[k].unregs++
	if r.regs[k].unregs > 1 {
		r.doubleUnreg = true
		return
	}
	r.regs[k].live = false
}

// a ViewChangeEvent / TimeoutEvent is being added: the contexts whose handlers are registered at this
// moment see it inside AddEvent
func (r *c14Run) refContextsSee(t int, id uint64) {
	var fired []int
	for i, g := range r.regs {
		if g.live && g.silent && g.t == t {
			fired = append(fired, i)
		}
	}
	for _, i := range fired {
		c := r.ctxs[r.regs[i].ctx]
		if t == 3 {
			if c.bound == 0 || id >= c.bound {
				c.want = true
			}
		} else {
			c.want = true
			r.refUnregister(c.viewTok) // the timeout handler calls ViewContext's cancel function
		}
	}
}

// every context must be cancelled iff its view change / timeout was added while it was registered, or its
// cancel function was called
func (r *c14Run) checkContexts(after string) {
	for n, c := range r.ctxs {
		got := c.ctx.Err() != nil
		kind := "ViewContext"
		if c.timeout {
			kind = "TimeoutContext"
		}
		if got != c.want && !r.aborted {
			if c.want {
				r.fail("loop.context:not-cancelled", fmt.Sprintf("%s #%d (view bound %d) is still live after %s, although its view change / timeout was added while its handler was registered and never unregistered by its owner", kind, n, c.bound, after))
			} else {
				r.fail("loop.context:cancelled-early", fmt.Sprintf("%s #%d (view bound %d) is cancelled after %s without its event or its cancel function", kind, n, c.bound, after))
			}
			c.want = got
		}
	}
}

// beginTick / endTick bracket the handling of one popped event (a Tick call, or one iteration of Run).
func (r *c14Run) beginTick() {
	for t := 0; t < r.nTypes; t++ {
		r.tickLive[t] = r.liveSet(t, false)
	}
	r.tickFrom = len(r.trace)
	r.inTick, r.tickType, r.frozen, r.expect = true, -1, false, nil
}

func (r *c14Run) endTick(ok bool) {
	r.inTick = false
	r.flushReadd()
	if ok && r.tickType >= 0 {
		if !r.frozen {
			r.expect = r.deferred[r.tickType]
			r.deferred[r.tickType] = nil
		}
		if len(r.expect) > 0 {
			r.fail("loop.deferred:not-readded", fmt.Sprintf("events deferred until type %d (serials %v) were not re-added after an event of that type was handled", r.tickType, r.expect))
		}
		r.checkDispatch(r.tickFrom, 0, false, r.tickLive[r.tickType], fmt.Sprintf("Tick handling an event of type %d", r.tickType))
	} else if ok {
		r.fail("loop.dispatch:not-exactly-once", "Tick returned true but the recording handler of no type saw an event")
	}
	r.trace = append(r.trace, c14Ent{kind: 'T', ok: ok})
}

// prefix of every program: per type a prioritised recorder in slot 0 (the first to see every popped event)
// and a prioritised run-in-AddEvent recorder in slot 1 (the first to see every added event); handler ids 0
// and 1 have empty scripts and the generators never unregister them.
func c14Prefix(nTypes int) []c14Act {
	var p []c14Act
	for t := 0; t < nTypes; t++ {
		p = append(p, c14Act{Kind: "reg", T: t, H: 0, Prio: true})
	}
	for t := 0; t < nTypes; t++ {
		p = append(p, c14Act{Kind: "reg", T: t, H: 1, Prio: true, RunAdd: true})
	}
	return p
}

func c14Epilogue(nTypes, ticks int) []c14Act {
	var p []c14Act
	for t := 0; t < nTypes; t++ {
		p = append(p, c14Act{Kind: "add", T: t, ID: 900 + uint64(t)})
	}
	for i := 0; i < ticks; i++ {
		p = append(p, c14Act{Kind: "tick"})
	}
	return p
}

func c14RunLoop(v *verifOut, s *verifStream, stream string, capacity int, tbl [][]c14Act, body []c14Act) {
	c14RunLoopN(v, s, stream, capacity, tbl, body, c14Types)
}

// nTypes = 3: harness event types only; nTypes = 5: also ViewChangeEvent / TimeoutEvent (and contexts)
func c14RunLoopN(v *verifOut, s *verifStream, stream string, capacity int, tbl [][]c14Act, body []c14Act, nTypes int) {
	prog := append(c14Prefix(nTypes), body...)
	prog = append(prog, c14Epilogue(nTypes, capacity+3)...)
	meta := map[string]any{"stream": stream, "capacity": capacity, "handler_scripts": tbl, "program": prog}
	r := &c14Run{v: v, meta: meta, capacity: capacity, tbl: tbl, tickType: -1, nTypes: nTypes,
		addedCnt: map[uint64]int{}, popCnt: map[uint64]int{}, dropCnt: map[uint64]int{}}
	lg := &c14Logger{}
	lg.drop = r.onDrop
	r.el = New(lg, uint(capacity))
	panicked := false
	func() {
		defer func() {
			if x := recover(); x != nil {
				panicked = true
				r.fail("loop:panic", fmt.Sprintf("the event loop panicked: %v", x))
			}
		}()
		for i, a := range prog {
			r.do(a)
			if r.aborted {
				break
			}
			switch a.Kind {
			case "run":
				prog[i].Ticks = r.lastRunTicks
			case "unreg":
				prog[i].Skip = a.K >= len(r.unregs) || r.unregs[a.K] == nil
				if a.K >= len(r.unregs) {
					prog[i].Skip = false // the model ignores a closure that does not exist, too
				}
			case "ctxview", "ctxtimeout":
				prog[i].C = len(r.ctxs) - 1
				prog[i].Toks = r.ctxs[len(r.ctxs)-1].toks
			case "ctxcancel":
				if a.K < len(r.ctxs) {
					prog[i].C = a.K
					prog[i].Toks = r.ctxs[a.K].toks
				}
			}
			if len(r.ctxs) > 0 {
				r.checkContexts(fmt.Sprintf("operation %d (%s)", i, a.Kind))
			}
		}
	}()
	if panicked {
		return
	}
	if r.aborted {
		v.Count("loop:" + stream + ":discarded-too-deep")
		return
	}
	// conservation: every added event is exactly one of handled / reported dropped / still pending
	pend := map[uint64]int{}
	for {
		ev, ok := r.el.eventQ.pop()
		if !ok {
			break
		}
		if _, _, ser, ok := c14Unpack(ev); ok {
			pend[ser]++
		}
	}
	// events still waiting for their type must be exactly the deferred ones not yet re-added, in order
	// (in-package read of the anchored state waitingEvents; a lost list is otherwise only seen much later)
	for t := 0; t < nTypes; t++ {
		var have []uint64
		r.el.mut.Lock()
		for _, ev := range r.el.waitingEvents[c14TypeOf(t)] {
			if _, _, ser, ok := c14Unpack(ev); ok {
				have = append(have, ser)
			}
		}
		r.el.mut.Unlock()
		if fmt.Sprint(have) != fmt.Sprint(r.deferred[t]) {
			r.fail("loop.deferred:waiting-list-differs", fmt.Sprintf("events waiting for type %d: serials %v, but deferred and not yet re-added (in deferral order): %v", t, have, r.deferred[t]))
		}
	}
	for ser, n := range r.addedCnt {
		if n > 1 {
			r.fail("loop.deferred:readded-twice", fmt.Sprintf("serial %d was added %d times", ser, n))
		}
		tot := r.popCnt[ser] + r.dropCnt[ser] + pend[ser]
		switch {
		case tot == 0:
			r.fail("loop.overflow:lost-unreported", fmt.Sprintf("serial %d was added but neither handled, reported dropped nor pending", ser))
		case tot > 1 && r.dropCnt[ser] > 0:
			r.fail("loop.overflow:reported-but-not-lost", fmt.Sprintf("serial %d was reported dropped %d time(s) but also handled %d time(s) / pending %d", ser, r.dropCnt[ser], r.popCnt[ser], pend[ser]))
		case tot > 1:
			r.fail("loop:handled-twice", fmt.Sprintf("serial %d handled %d times, pending %d", ser, r.popCnt[ser], pend[ser]))
		default:
			c14Oracle(v, true, "", "", nil)
		}
	}
	obs := make([]string, len(r.trace))
	for i, e := range r.trace {
		obs[i] = e.gallina()
	}
	key := fmt.Sprintf("l%d|%s|%s", capacity, c14TblGallina(tbl), c14ProgGallina(prog[2*nTypes:len(prog)-nTypes-capacity-3]))
	nontrivial := r.overflowed || r.nDeferred > 0 || r.nNested > 0
	v.Seen(key, nontrivial, map[string]any{"capacity": capacity, "ops": len(body), "overflowed": r.overflowed, "deferred": r.nDeferred, "nested_handler_calls": r.nNested})
	if r.overflowed {
		v.Count("loop:prog-with-overflow")
	}
	if r.nDeferred > 0 {
		v.Count("loop:prog-with-deferred")
	}
	if r.nNested > 0 {
		v.Count("loop:prog-with-reentrancy")
	}
	if r.doubleUnreg {
		v.Count("loop:prog-with-stale-unregister")
	}
	if r.nRuns > 0 {
		v.Count("loop:prog-with-Run")
	}
	v.Count("loop:" + stream)
	if len(r.ctxs) > 0 {
		v.Count("loop:prog-with-contexts")
		meta["context_handler_scripts"] = r.ctbl
	}
	v.Case(s, fmt.Sprintf("(%s, %s, %s, %s, %s)", gNat(capacity), c14TblGallina(tbl), c14TblGallina(r.ctbl), c14ProgGallina(prog), gList(obs)), meta)
}

// the option order is drawn from a generator of its own so that the other random choices stay as they were
var c14OrdState uint32 = 12345

func c14OrdOf(v *verifOut) int {
	c14OrdState = c14OrdState*1664525 + 1013904223 + uint32(v.seed)
	return int(c14OrdState>>16) % 4
}

func c14RandAct(v *verifOut, nextID *uint64, nTokens int, allowTick bool) c14Act {
	r := v.rng.Intn(100)
	t := v.rng.Intn(c14Types)
	switch {
	case r < 30:
		*nextID++
		return c14Act{Kind: "add", T: t, ID: *nextID}
	case r < 45:
		*nextID++
		return c14Act{Kind: "delay", T: t, ET: v.rng.Intn(c14Types), ID: *nextID}
	case r < 60:
		return c14Act{Kind: "reg", T: t, H: 2 + v.rng.Intn(4), Prio: v.rng.Intn(2) == 0, RunAdd: v.rng.Intn(3) == 0, Ord: c14OrdOf(v)}
	case r < 70:
		// never the recorders (tokens 0..2*types-1)
		return c14Act{Kind: "unreg", K: 2*c14Types + v.rng.Intn(nTokens+1)}
	case r < 73:
		return c14Act{Kind: "addnil"}
	case r < 75:
		return c14Act{Kind: "delaynil", T: t}
	case r < 78 && allowTick:
		return c14Act{Kind: "run", K: v.rng.Intn(2)}
	default:
		if allowTick {
			return c14Act{Kind: "tick"}
		}
		*nextID++
		return c14Act{Kind: "add", T: t, ID: *nextID}
	}
}

func c14LoopStreams(v *verifOut) {
	s := v.Stream("loop", "l_mismatches", 400)

	// (a) exhaustive: all programs of length L over a small alphabet, capacity 2, fixed handler scripts:
	//     handler 2 adds an event of type 1 and defers one until type 0; handler 3 unregisters token 6 and
	//     registers handler 4 (prioritised) for type 0; handler 4 adds a type-0 event from inside AddEvent.
	tbl := [][]c14Act{{}, {},
		{{Kind: "add", T: 1, ID: 21}, {Kind: "delay", T: 0, ET: 1, ID: 22}},
		{{Kind: "unreg", K: 6}, {Kind: "reg", T: 0, H: 4, Prio: true}},
		{{Kind: "add", T: 2, ID: 41}},
		{}}
	alphabet := []c14Act{
		{Kind: "add", T: 0, ID: 1}, {Kind: "add", T: 1, ID: 2}, {Kind: "tick"},
		{Kind: "delay", T: 0, ET: 1, ID: 3}, {Kind: "delay", T: 1, ET: 0, ID: 4},
		{Kind: "reg", T: 0, H: 2}, {Kind: "reg", T: 0, H: 3, Prio: true}, {Kind: "reg", T: 1, H: 4, RunAdd: true},
		{Kind: "unreg", K: 6},
	}
	L := v.Pick(4, 5)
	total := 1
	for i := 0; i < L; i++ {
		total *= len(alphabet)
	}
	for code := 0; code < total; code++ {
		body := make([]c14Act, L)
		c := code
		for i := 0; i < L; i++ {
			body[i] = alphabet[c%len(alphabet)]
			body[i].ID = body[i].ID*10 + uint64(i) // distinguishable payloads
			c /= len(alphabet)
		}
		c14RunLoop(v, s, "exhaustive", 2, tbl, body)
	}

	// (b) seeded random programs with random handler scripts
	nRand := v.Pick(2500, 40000)
	for i := 0; i < nRand; i++ {
		capacity := 1 + v.rng.Intn(6)
		if v.rng.Intn(4) == 0 {
			capacity = 8 + v.rng.Intn(8)
		}
		nextID := uint64(100)
		rtbl := [][]c14Act{{}, {}}
		for h := 2; h < 6; h++ {
			n := v.rng.Intn(4)
			sc := make([]c14Act, 0, n)
			for j := 0; j < n; j++ {
				sc = append(sc, c14RandAct(v, &nextID, 6, false))
			}
			rtbl = append(rtbl, sc)
		}
		n := 3 + v.rng.Intn(v.Pick(14, 30))
		body := make([]c14Act, n)
		regs := 0
		for j := range body {
			body[j] = c14RandAct(v, &nextID, regs+2, true)
			if body[j].Kind == "reg" {
				regs++
			}
		}
		c14RunLoop(v, s, "random", capacity, rtbl, body)
	}

	// (c) boundary: overflow through AddEvent with wrap-around, several deferred events on one type,
	//     unregistering during dispatch, stale unregister closures, nil events
	for capacity := 1; capacity <= 5; capacity++ {
		for rot := 0; rot <= capacity; rot++ {
			var body []c14Act
			id := uint64(1)
			for j := 0; j < rot; j++ {
				body = append(body, c14Act{Kind: "add", T: j % c14Types, ID: id}, c14Act{Kind: "tick"})
				id++
			}
			for j := 0; j < capacity+2; j++ {
				body = append(body, c14Act{Kind: "add", T: j % c14Types, ID: id})
				id++
			}
			c14RunLoop(v, s, "boundary", capacity, [][]c14Act{{}, {}}, body)
		}
	}
	btbl := [][]c14Act{{}, {},
		{{Kind: "unreg", K: 7}, {Kind: "unreg", K: 6}, {Kind: "reg", T: 0, H: 3}},
		{{Kind: "delay", T: 0, ET: 1, ID: 31}, {Kind: "addnil"}, {Kind: "delaynil", T: 0}},
		{}, {}}
	c14RunLoop(v, s, "boundary", 4, btbl, []c14Act{
		{Kind: "reg", T: 0, H: 2, Prio: true}, {Kind: "reg", T: 0, H: 3}, {Kind: "reg", T: 0, H: 3, Prio: true},
		{Kind: "delay", T: 0, ET: 1, ID: 5}, {Kind: "delay", T: 0, ET: 2, ID: 6}, {Kind: "delay", T: 0, ET: 1, ID: 7},
		{Kind: "add", T: 0, ID: 8}, {Kind: "tick"}, {Kind: "tick"}, {Kind: "unreg", K: 6}, {Kind: "unreg", K: 6},
		{Kind: "add", T: 0, ID: 9}, {Kind: "tick"}, {Kind: "tick"}, {Kind: "tick"}, {Kind: "tick"}})
	c14HardenedLoopStreams(v, s)
	c14ContextStreams(v, s)
}

// Directed families for dimensions the random stream reaches only by luck.
func c14HardenedLoopStreams(v *verifOut, s *verifStream) {
	flags := [][2]bool{{false, false}, {true, false}, {false, true}, {true, true}} // (prio, runadd)

	// (d) every ordered pair of things a handler can do while it is being dispatched (add same/other type,
	//     defer on same/other type, unregister itself / a later handler, register ordinary / prioritised /
	//     run-in-AddEvent handlers, nil event) x the handler's own options x what the next handler does.
	//     Token 6 = the varied handler (type 0), 7 = second handler (type 0), 8 = run-in-AddEvent handler on type 1.
	acts := []c14Act{
		{Kind: "add", T: 0, ID: 50}, {Kind: "add", T: 1, ID: 51},
		{Kind: "delay", T: 0, ET: 1, ID: 52}, {Kind: "delay", T: 1, ET: 0, ID: 53},
		{Kind: "unreg", K: 6}, {Kind: "unreg", K: 7},
		{Kind: "reg", T: 0, H: 4, Prio: true}, {Kind: "reg", T: 0, H: 4, RunAdd: true}, {Kind: "reg", T: 1, H: 5, RunAdd: true},
		{Kind: "addnil"},
	}
	seconds := [][]c14Act{{}, {{Kind: "unreg", K: 6}}, {{Kind: "delay", T: 0, ET: 1, ID: 54}}}
	stride := v.Pick(1, 1)
	n := 0
	for i, a1 := range acts {
		for j, a2 := range acts {
			for fi, f := range flags {
				for si, sec := range seconds {
					n++
					if n%stride != 0 {
						continue
					}
					b1, b2 := a1, a2
					b1.ID, b2.ID = a1.ID*10+1, a2.ID*10+2
					tbl := [][]c14Act{{}, {}, {b1, b2}, sec, {},
						{{Kind: "delay", T: 0, ET: 1, ID: 55}, {Kind: "delay", T: 0, ET: 1, ID: 56}}}
					body := []c14Act{
						{Kind: "reg", T: 0, H: 2, Prio: f[0], RunAdd: f[1], Ord: (i + j + si) % 4}, {Kind: "reg", T: 0, H: 3}, {Kind: "reg", T: 1, H: 4, RunAdd: true, Ord: (i + 2*j) % 4},
						{Kind: "delay", T: 0, ET: 1, ID: 1}, {Kind: "delay", T: 0, ET: 1, ID: 2},
						{Kind: "add", T: 0, ID: 3}, {Kind: "tick"}, {Kind: "tick"},
						{Kind: "add", T: 0, ID: 4}, {Kind: "tick"}, {Kind: "tick"}, {Kind: "tick"},
					}
					_ = i
					_ = j
					_ = fi
					_ = si
					c14RunLoop(v, s, "combo", 5, tbl, body)
				}
			}
		}
	}

	// (e) deferring while the deferred events of the same type are being re-added, and two types whose
	//     deferred lists feed each other: a batch of B events (type 1) waits for type 0; a run-in-AddEvent
	//     handler on type 1 (it sees every re-added event) defers k new events on type 0 and k2 on type 1;
	//     a handler on type 0 defers on type 1 during the dispatch phase.
	for _, capacity := range []int{2, 12} {
		for B := 1; B <= 4; B++ {
			for k := 0; k <= 3; k++ {
				for k2 := 0; k2 <= 1; k2++ {
					for _, prio := range []bool{false, true} {
						var sc []c14Act
						for x := 0; x < k; x++ {
							sc = append(sc, c14Act{Kind: "delay", T: 0, ET: 2, ID: 60 + uint64(x)})
						}
						for x := 0; x < k2; x++ {
							sc = append(sc, c14Act{Kind: "delay", T: 1, ET: 0, ID: 70 + uint64(x)})
						}
						tbl := [][]c14Act{{}, {}, sc, {{Kind: "delay", T: 1, ET: 2, ID: 80}, {Kind: "delay", T: 0, ET: 1, ID: 81}}, {}, {}}
						body := []c14Act{{Kind: "reg", T: 1, H: 2, Prio: prio, RunAdd: true}, {Kind: "reg", T: 0, H: 3}}
						for x := 0; x < B; x++ {
							body = append(body, c14Act{Kind: "delay", T: 0, ET: 1, ID: 1 + uint64(x)})
						}
						body = append(body, c14Act{Kind: "delay", T: 1, ET: 0, ID: 9}, c14Act{Kind: "delay", T: 2, ET: 0, ID: 10})
						body = append(body, c14Act{Kind: "add", T: 0, ID: 11})
						for x := 0; x < B+2; x++ {
							body = append(body, c14Act{Kind: "tick"})
						}
						body = append(body, c14Act{Kind: "add", T: 0, ID: 12})
						if k2 == 0 {
							body = append(body, c14Act{Kind: "run", K: B % 2})
						} else { // the two lists feed each other for ever: bounded number of steps
							for x := 0; x < 6; x++ {
								body = append(body, c14Act{Kind: "tick"})
							}
						}
						body = append(body, c14Act{Kind: "add", T: 1, ID: 13}, c14Act{Kind: "tick"}, c14Act{Kind: "tick"})
						c14RunLoop(v, s, "defer-during-readd", capacity, tbl, body)
					}
				}
			}
		}
	}

	// (f) re-registration after unregistration: the freed slot is reused by a handler with other options;
	//     for every pair of option sets and every slot position among handlers with distinct options
	for fa, A := range flags {
		for fb, B := range flags {
			for pos := 0; pos <= 2; pos++ {
				for variant := 0; variant < 2; variant++ {
					_ = fa
					_ = fb
					var body []c14Act
					fill := []c14Act{{Kind: "reg", T: 0, H: 3}, {Kind: "reg", T: 0, H: 4, Prio: true}}
					tokA := 2 * c14Types
					for x := 0; x < pos; x++ {
						body = append(body, fill[x])
						tokA++
					}
					body = append(body, c14Act{Kind: "reg", T: 0, H: 2, Prio: A[0], RunAdd: A[1], Ord: (fa + pos) % 4})
					for x := pos; x < 2; x++ {
						body = append(body, fill[x])
					}
					if variant == 1 {
						body = append(body, c14Act{Kind: "add", T: 0, ID: 1}, c14Act{Kind: "tick"})
					}
					body = append(body, c14Act{Kind: "unreg", K: tokA},
						c14Act{Kind: "reg", T: 0, H: 5, Prio: B[0], RunAdd: B[1], Ord: (fb + variant + 1) % 4}, // reuses A's slot
						c14Act{Kind: "reg", T: 0, H: 4, Prio: true},              // genuinely prioritised, registered later
						c14Act{Kind: "add", T: 0, ID: 2}, c14Act{Kind: "add", T: 1, ID: 3}, c14Act{Kind: "tick"}, c14Act{Kind: "tick"},
						c14Act{Kind: "unreg", K: 2*c14Types + 3}, // the reusing handler
						c14Act{Kind: "reg", T: 0, H: 2, Prio: A[0], RunAdd: A[1]},
						c14Act{Kind: "add", T: 0, ID: 4}, c14Act{Kind: "tick"})
					if variant == 1 {
						body[len(body)-5].K = 2*c14Types + 3
					}
					tbl := [][]c14Act{{}, {}, {}, {}, {}, {}}
					c14RunLoop(v, s, "reregister", 6, tbl, body)
				}
			}
		}
	}

	// (g) nested dispatch with several handlers on every level (the handler lists of an outer dispatch
	//     must survive the dispatches its handlers trigger): type 0 has n0 prioritised + m0 ordinary
	//     handlers that each add a type-1 event; type 1 has n1 prioritised + m1 ordinary run-in-AddEvent
	//     handlers that (depth 2) each add a type-2 event seen by run-in-AddEvent handlers on type 2.
	for n0 := 1; n0 <= 3; n0++ {
		for m0 := 0; m0 <= 2; m0++ {
			for n1 := 1; n1 <= 3; n1++ {
				for m1 := 0; m1 <= 2; m1 += 2 {
					for deep := 0; deep < 2; deep++ {
						inner := []c14Act{}
						if deep == 1 {
							inner = []c14Act{{Kind: "add", T: 2, ID: 30}}
						}
						tbl := [][]c14Act{{}, {}, {{Kind: "add", T: 1, ID: 20}}, inner, {}, {}}
						var body []c14Act
						for x := 0; x < n0; x++ {
							body = append(body, c14Act{Kind: "reg", T: 0, H: 2, Prio: true})
						}
						for x := 0; x < m0; x++ {
							body = append(body, c14Act{Kind: "reg", T: 0, H: 2})
						}
						for x := 0; x < n1; x++ {
							body = append(body, c14Act{Kind: "reg", T: 1, H: 3, Prio: true, RunAdd: true})
						}
						for x := 0; x < m1; x++ {
							body = append(body, c14Act{Kind: "reg", T: 1, H: 3, RunAdd: true})
						}
						body = append(body, c14Act{Kind: "reg", T: 2, H: 4, Prio: true, RunAdd: true}, c14Act{Kind: "reg", T: 2, H: 5, RunAdd: true},
							c14Act{Kind: "add", T: 0, ID: 1}, c14Act{Kind: "tick"}, c14Act{Kind: "add", T: 0, ID: 2}, c14Act{Kind: "run"})
						c14RunLoop(v, s, "nested-dispatch", 64, tbl, body)
					}
				}
			}
		}
	}

	// (i) the options of a handler are a SET: every subset of {Prioritize, UnsafeRunInAddEvent} handed to Register in
	//     every order and with a repeated option, for one or two such handlers at every position among ordinary
	//     and prioritised handlers of both modes on the same event type; observed when AddEvent returns (the
	//     run-in-AddEvent handlers must have run, prioritised first) and after the loop handled the event.
	type optv struct {
		prio, runadd bool
		ord          int
	}
	var variants []optv
	for _, f := range flags {
		n := 0
		if f[0] {
			n++
		}
		if f[1] {
			n++
		}
		for ord := 0; ord < 4; ord++ {
			if n == 0 && ord > 0 {
				continue
			}
			if n == 1 && ord%2 == 1 {
				continue // reversing one option changes nothing
			}
			variants = append(variants, optv{f[0], f[1], ord})
		}
	}
	others := []c14Act{{Kind: "reg", T: 0, H: 3, RunAdd: true}, {Kind: "reg", T: 0, H: 3}, {Kind: "reg", T: 0, H: 4, Prio: true}, {Kind: "reg", T: 0, H: 4, Prio: true, RunAdd: true}}
	otbl := [][]c14Act{{}, {}, {}, {}, {}, {}}
	optProgram := func(subjects []optv, pos int) {
		var body []c14Act
		for x := 0; x < pos; x++ {
			body = append(body, others[x])
		}
		for _, sv := range subjects {
			body = append(body, c14Act{Kind: "reg", T: 0, H: 2, Prio: sv.prio, RunAdd: sv.runadd, Ord: sv.ord})
		}
		for x := pos; x < len(others); x++ {
			body = append(body, others[x])
		}
		body = append(body, c14Act{Kind: "add", T: 0, ID: 1}, c14Act{Kind: "tick"}, c14Act{Kind: "add", T: 0, ID: 2}, c14Act{Kind: "add", T: 1, ID: 3}, c14Act{Kind: "run"})
		c14RunLoop(v, s, "options", 8, otbl, body)
	}
	for _, a := range variants {
		for pos := 0; pos <= len(others); pos++ {
			optProgram([]optv{a}, pos)
		}
	}
	for i, a := range variants {
		for j, b := range variants {
			optProgram([]optv{a, b}, (i+j)%(len(others)+1))
		}
	}

	// (h) Run on a cancelled context / cancelled by the first handled event: k pending events of mixed
	//     types (exactly full and overflowing included), handlers that add and defer during the run
	rtbl := [][]c14Act{{}, {}, {{Kind: "add", T: 1, ID: 40}, {Kind: "delay", T: 1, ET: 2, ID: 41}}, {{Kind: "delay", T: 0, ET: 2, ID: 42}}, {}, {}}
	for capacity := 1; capacity <= 4; capacity++ {
		for k := 0; k <= capacity+1; k++ {
			for mode := 0; mode < 2; mode++ {
				body := []c14Act{{Kind: "reg", T: 0, H: 2}, {Kind: "reg", T: 1, H: 3, Prio: true}, {Kind: "delay", T: 0, ET: 2, ID: 5}}
				for x := 0; x < k; x++ {
					body = append(body, c14Act{Kind: "add", T: x % 2, ID: 10 + uint64(x)})
				}
				body = append(body, c14Act{Kind: "run", K: mode}, c14Act{Kind: "run", K: mode}, c14Act{Kind: "add", T: 0, ID: 30}, c14Act{Kind: "run", K: 1 - mode})
				c14RunLoop(v, s, "run", capacity, rtbl, body)
			}
		}
	}
}

// ViewContext / TimeoutContext (context.go) register prioritised run-in-AddEvent handlers of their own and
// hand out cancel functions that call unregister closures -- some of them twice (TimeoutContext after a
// timeout; any cancel function called twice).  Programs: create contexts, add view changes / timeouts,
// cancel, in all orders, interleaved with Register / unregister of ordinary handlers for the same types.
func c14ContextStreams(v *verifOut, s *verifStream) {
	// handler ids: 2 = ordinary observer, 3 = adds a type-0 event, 4 = unregisters registration 10, 5 = registers a new
	// ViewChangeEvent observer (handler 2).  Registrations 10, 11, 12 are made first in every program.
	tbl := [][]c14Act{{}, {}, {}, {{Kind: "add", T: 0, ID: 30}}, {{Kind: "unreg", K: 10}}, {{Kind: "reg", T: 3, H: 2}}}
	head := []c14Act{{Kind: "reg", T: 3, H: 2}, {Kind: "reg", T: 4, H: 3, Prio: true}, {Kind: "reg", T: 3, H: 4, RunAdd: true}}

	// (i) directed: context A, an event, a second registration B (a context of any kind or a plain handler, which
	//     reuses a slot A may have freed), A's cancel before or after the next event, B's cancel, A's cancel again
	kinds := []c14Act{{Kind: "ctxview"}, {Kind: "ctxview", K: 3}, {Kind: "ctxtimeout"}}
	events := [][]c14Act{{}, {{Kind: "add", T: 3}}, {{Kind: "add", T: 4}}}
	for _, A := range kinds {
		for bi := 0; bi < 4; bi++ {
			for _, E1 := range events {
				for early := 0; early < 2; early++ {
					for _, E2 := range events {
						for twice := 0; twice < 2; twice++ {
							view := uint64(1)
							stamp := func(es []c14Act) []c14Act {
								out := append([]c14Act{}, es...)
								for i := range out {
									view += 2
									out[i].ID = view
								}
								return out
							}
							body := append([]c14Act{}, head...)
							body = append(body, A)
							body = append(body, stamp(E1)...)
							if bi < 3 {
								body = append(body, kinds[bi])
							} else {
								body = append(body, c14Act{Kind: "reg", T: 3, H: 2, Prio: true})
							}
							if early == 1 {
								body = append(body, c14Act{Kind: "ctxcancel", K: 0})
							}
							body = append(body, stamp(E2)...)
							body = append(body, c14Act{Kind: "tick"})
							if early == 0 {
								body = append(body, c14Act{Kind: "ctxcancel", K: 0})
							}
							if twice == 1 {
								body = append(body, c14Act{Kind: "ctxcancel", K: 0})
							}
							body = append(body, stamp([]c14Act{{Kind: "add", T: 3}})...)
							if bi < 3 {
								body = append(body, c14Act{Kind: "ctxcancel", K: 1})
							}
							body = append(body, c14Act{Kind: "tick"}, c14Act{Kind: "tick"})
							body = append(body, stamp([]c14Act{{Kind: "add", T: 4}, {Kind: "add", T: 3}})...)
							c14RunLoopN(v, s, "contexts", 8, tbl, body, c14MaxTypes)
						}
					}
				}
			}
		}
	}

	// (ii) random mixes, including double calls of ordinary unregister closures
	nRand := v.Pick(700, 8000)
	for i := 0; i < nRand; i++ {
		capacity := 2 + v.rng.Intn(8)
		n := 4 + v.rng.Intn(v.Pick(14, 24))
		body := append([]c14Act{}, head...)
		view := uint64(0)
		regs, ctxs := 3, 0
		for j := 0; j < n; j++ {
			x := v.rng.Intn(100)
			switch {
			case x < 12:
				body = append(body, c14Act{Kind: "ctxtimeout"})
				ctxs++
				regs += 2
			case x < 22:
				body = append(body, c14Act{Kind: "ctxview", K: v.rng.Intn(2) * int(view+uint64(v.rng.Intn(4)))})
				ctxs++
				regs++
			case x < 40:
				view++
				body = append(body, c14Act{Kind: "add", T: 3, ID: view})
			case x < 52:
				view++
				body = append(body, c14Act{Kind: "add", T: 4, ID: view})
			case x < 68:
				body = append(body, c14Act{Kind: "ctxcancel", K: v.rng.Intn(ctxs + 1)})
			case x < 78:
				body = append(body, c14Act{Kind: "reg", T: 3 + v.rng.Intn(2), H: 2 + v.rng.Intn(4), Prio: v.rng.Intn(2) == 0, RunAdd: v.rng.Intn(3) == 0, Ord: c14OrdOf(v)})
				regs++
			case x < 88:
				body = append(body, c14Act{Kind: "unreg", K: 2*c14MaxTypes + v.rng.Intn(regs+1)})
			case x < 92:
				body = append(body, c14Act{Kind: "add", T: v.rng.Intn(c14Types), ID: 100 + uint64(j)})
			default:
				body = append(body, c14Act{Kind: "tick"})
			}
		}
		c14RunLoopN(v, s, "contexts-random", capacity, tbl, body, c14MaxTypes)
	}
}

// ---------------------------------------------------------------------------------------------
// C14, part 3: concurrent producers against one consumer (run with -race in the thorough tier).
// Every push/pop is one mutex-protected atomic section, so each run is some interleaving of the
// atomic operations the theorems quantify over; the oracle checks loss / duplication / reports.
// ---------------------------------------------------------------------------------------------

func c14CheckConservation(v *verifOut, what string, total map[uint64]bool, handled []uint64, droppedRep []uint64, capacity, producers int, meta any) {
	cnt := map[uint64]int{}
	for _, x := range handled {
		cnt[x]++
	}
	dcnt := map[uint64]int{}
	for _, x := range droppedRep {
		dcnt[x]++
	}
	ok := true
	for x := range total {
		switch {
		case cnt[x]+dcnt[x] == 0:
			ok = false
			c14Oracle(v, false, what+".concurrent:lost-unreported", fmt.Sprintf("entry %#x (producer %d, #%d) was neither delivered nor reported dropped; capacity %d, %d producers", x, x>>32, x&0xffffffff, capacity, producers), meta)
		case cnt[x]+dcnt[x] > 1 && dcnt[x] > 0:
			ok = false
			c14Oracle(v, false, what+".concurrent:reported-but-not-lost", fmt.Sprintf("entry %#x reported dropped %d time(s) and delivered %d time(s); capacity %d", x, dcnt[x], cnt[x], capacity), meta)
		case cnt[x] > 1:
			ok = false
			c14Oracle(v, false, what+".concurrent:duplicated", fmt.Sprintf("entry %#x delivered %d times", x, cnt[x]), meta)
		}
		if !ok {
			break
		}
	}
	for _, x := range append(append([]uint64{}, handled...), droppedRep...) {
		if !total[x] {
			ok = false
			c14Oracle(v, false, what+".concurrent:invented", fmt.Sprintf("entry %#x was never added", x), meta)
			break
		}
	}
	// per-producer order among the delivered entries
	last := map[uint64]uint64{}
	for _, x := range handled {
		p, i := x>>32, x&0xffffffff
		if l, seen := last[p]; seen && i <= l {
			ok = false
			c14Oracle(v, false, what+".concurrent:order", fmt.Sprintf("producer %d: entry #%d delivered after #%d", p, i, l), meta)
			break
		}
		last[p] = i
	}
	if len(total) <= capacity && len(droppedRep) > 0 {
		ok = false
		c14Oracle(v, false, what+".concurrent:drop-below-capacity", fmt.Sprintf("%d entries reported dropped although only %d were ever added to a queue of capacity %d", len(droppedRep), len(total), capacity), meta)
	}
	if ok {
		c14Oracle(v, true, "", "", nil)
	}
}

func c14ConcurrentStreams(v *verifOut) {
	rounds := v.Pick(24, 200)
	for round := 0; round < rounds; round++ {
		producers := 2 + v.rng.Intn(5)
		per := 50 + v.rng.Intn(v.Pick(200, 1500))
		capacity := 2 + v.rng.Intn(6)
		switch round % 6 {
		case 0:
			capacity = producers * per // exactly as many slots as entries: no overflow possible
		case 3:
			capacity = producers*per + v.rng.Intn(3)
		case 1:
			capacity = 1
		}
		meta := map[string]any{"stream": "concurrent", "capacity": capacity, "producers": producers, "per_producer": per, "round": round}
		total := map[uint64]bool{}
		for p := 0; p < producers; p++ {
			for i := 1; i <= per; i++ {
				total[uint64(p)<<32|uint64(i)] = true
			}
		}

		// (1) the queue itself
		{
			q := newQueue(uint(capacity))
			var wg sync.WaitGroup
			dropped := make([][]uint64, producers)
			for p := 0; p < producers; p++ {
				wg.Add(1)
				go func(p int) {
					defer wg.Done()
					for i := 1; i <= per; i++ {
						if d := q.push(uint64(p)<<32 | uint64(i)); d != nil {
							dropped[p] = append(dropped[p], d.(uint64))
						}
					}
				}(p)
			}
			done := make(chan struct{})
			var got []uint64
			cdone := make(chan struct{})
			go func() {
				defer close(cdone)
				for {
					x, ok := q.pop()
					if ok {
						got = append(got, x.(uint64))
						continue
					}
					select {
					case <-done:
						for {
							x, ok := q.pop()
							if !ok {
								return
							}
							got = append(got, x.(uint64))
						}
					default:
					}
				}
			}()
			wg.Wait()
			close(done)
			<-cdone
			var drops []uint64
			for _, d := range dropped {
				drops = append(drops, d...)
			}
			c14CheckConservation(v, "queue", total, got, drops, capacity, producers, meta)
			v.Seen(fmt.Sprintf("cq|%d|%d|%d|%d", round, capacity, producers, per), len(drops) > 0, map[string]any{"concurrent_queue": meta, "dropped": len(drops), "delivered": len(got)})
			v.CountN("concurrent:queue-pushes", producers*per)
			v.CountN("concurrent:queue-drops", len(drops))
		}

		// (2) the event loop: AddEvent from many goroutines, Tick from one
		{
			var mu sync.Mutex
			var drops []uint64
			lg := &c14Logger{}
			lg.drop = func(ev any) { // called with lg.mu held
				if e, ok := ev.(c14Ev0); ok {
					drops = append(drops, e.Ser)
				}
			}
			el := New(lg, uint(capacity))
			var got []uint64
			Register(el, func(e c14Ev0) { mu.Lock(); got = append(got, e.Ser); mu.Unlock() })
			var wg sync.WaitGroup
			for p := 0; p < producers; p++ {
				wg.Add(1)
				go func(p int) {
					defer wg.Done()
					for i := 1; i <= per; i++ {
						el.AddEvent(c14Ev0{ID: uint64(i), Ser: uint64(p)<<32 | uint64(i)})
					}
				}(p)
			}
			done := make(chan struct{})
			cdone := make(chan struct{})
			go func() {
				defer close(cdone)
				ctx := context.Background()
				for {
					if el.Tick(ctx) {
						continue
					}
					select {
					case <-done:
						for el.Tick(ctx) {
						}
						return
					default:
					}
				}
			}()
			wg.Wait()
			close(done)
			<-cdone
			lg.mu.Lock()
			d := append([]uint64{}, drops...)
			lg.mu.Unlock()
			c14CheckConservation(v, "loop", total, got, d, capacity, producers, meta)
			v.Seen(fmt.Sprintf("cl|%d|%d|%d|%d", round, capacity, producers, per), len(d) > 0, map[string]any{"concurrent_loop": meta, "dropped": len(d), "delivered": len(got)})
			v.CountN("concurrent:loop-adds", producers*per)
			v.CountN("concurrent:loop-drops", len(d))
		}
	}
}

// Further concurrent scenarios: (1) producers fill a queue nobody reads to exactly its capacity, one
// entry beyond, ... (the dropped entries are known exactly: every producer loses a prefix of its own
// sequence, capacity entries survive); (2) el.Run as the consumer, cancelled while producers are active.
func c14ConcurrentHardened(v *verifOut) {
	rounds := v.Pick(30, 300)
	for round := 0; round < rounds; round++ {
		producers := 1 + v.rng.Intn(5)
		capacity := 1 + v.rng.Intn(12)
		if round%5 == 0 {
			capacity = 1
		}
		extra := round % 4 // total = capacity + extra - 1 : one below, exactly full, one and two beyond
		total := capacity + extra - 1
		if total < 1 {
			total = 1
		}
		meta := map[string]any{"stream": "concurrent-fill", "capacity": capacity, "producers": producers, "total": total, "round": round}
		share := make([]int, producers)
		for i := 0; i < total; i++ {
			share[i%producers]++
		}
		all := map[uint64]bool{}
		for p := 0; p < producers; p++ {
			for i := 1; i <= share[p]; i++ {
				all[uint64(p)<<32|uint64(i)] = true
			}
		}
		var mu sync.Mutex
		var drops []uint64
		lg := &c14Logger{}
		lg.drop = func(ev any) {
			if e, ok := ev.(c14Ev0); ok {
				drops = append(drops, e.Ser)
			}
		}
		el := New(lg, uint(capacity))
		var got []uint64
		Register(el, func(e c14Ev0) { mu.Lock(); got = append(got, e.Ser); mu.Unlock() })
		var wg sync.WaitGroup
		for p := 0; p < producers; p++ {
			wg.Add(1)
			go func(p int) {
				defer wg.Done()
				for i := 1; i <= share[p]; i++ {
					el.AddEvent(c14Ev0{ID: uint64(i), Ser: uint64(p)<<32 | uint64(i)})
				}
			}(p)
		}
		wg.Wait()
		n := el.eventQ.len()
		wantN := total
		if wantN > capacity {
			wantN = capacity
		}
		c14Oracle(v, n == wantN, "loop.concurrent:wrong-length-after-fill", fmt.Sprintf("%d entries added by %d producers to a queue of capacity %d that nobody reads: len()=%d, want %d", total, producers, capacity, n, wantN), meta)
		lg.mu.Lock()
		d := append([]uint64{}, drops...)
		lg.mu.Unlock()
		wantDrops := total - wantN
		c14Oracle(v, len(d) == wantDrops, "loop.concurrent:wrong-number-of-drop-reports", fmt.Sprintf("%d entries added to capacity %d with no consumer: %d drop reports, want exactly %d", total, capacity, len(d), wantDrops), meta)
		// every producer loses a prefix of its own sequence
		lost := map[uint64]uint64{}
		for _, x := range d {
			if x&0xffffffff > lost[x>>32] {
				lost[x>>32] = x & 0xffffffff
			}
		}
		cntLost := 0
		for _, m := range lost {
			cntLost += int(m)
		}
		c14Oracle(v, cntLost == len(d), "loop.concurrent:dropped-not-oldest", fmt.Sprintf("the entries reported dropped (%v) are not the oldest ones of their producers", d), meta)
		ctx, cancel := context.WithCancel(context.Background())
		cancel()
		el.Run(ctx) // cancelled context: handles what is pending, then returns
		c14CheckConservation(v, "loop", all, got, d, capacity, producers, meta)
		v.Seen(fmt.Sprintf("cf|%d|%d|%d|%d", round, capacity, producers, total), total >= capacity, map[string]any{"concurrent_fill": meta, "dropped": len(d), "delivered": len(got)})
		v.Count(fmt.Sprintf("concurrent:fill:total-minus-capacity=%d", total-capacity))
	}

	rounds = v.Pick(16, 150)
	for round := 0; round < rounds; round++ {
		producers := 2 + v.rng.Intn(4)
		per := 100 + v.rng.Intn(v.Pick(300, 2000))
		capacity := 1 + v.rng.Intn(8)
		if round%4 == 0 {
			capacity = producers * per
		}
		meta := map[string]any{"stream": "concurrent-run-cancel", "capacity": capacity, "producers": producers, "per_producer": per, "round": round}
		all := map[uint64]bool{}
		for p := 0; p < producers; p++ {
			for i := 1; i <= per; i++ {
				all[uint64(p)<<32|uint64(i)] = true
			}
		}
		var mu sync.Mutex
		var drops []uint64
		lg := &c14Logger{}
		lg.drop = func(ev any) {
			if e, ok := ev.(c14Ev0); ok {
				drops = append(drops, e.Ser)
			}
		}
		el := New(lg, uint(capacity))
		var got []uint64
		ctx, cancel := context.WithCancel(context.Background())
		cancelAt := v.rng.Intn(producers * per)
		Register(el, func(e c14Ev0) {
			mu.Lock()
			got = append(got, e.Ser)
			if len(got) == cancelAt+1 {
				cancel() // cancellation from inside a handler, while producers are still adding
			}
			mu.Unlock()
		})
		var wg sync.WaitGroup
		for p := 0; p < producers; p++ {
			wg.Add(1)
			go func(p int) {
				defer wg.Done()
				for i := 1; i <= per; i++ {
					el.AddEvent(c14Ev0{ID: uint64(i), Ser: uint64(p)<<32 | uint64(i)})
				}
			}(p)
		}
		rdone := make(chan struct{})
		go func() { defer close(rdone); el.Run(ctx) }()
		wg.Wait()
		cancel() // in case fewer than cancelAt events were delivered (drops)
		<-rdone
		// whatever Run left behind is still pending, in order
		mu.Lock()
		delivered := append([]uint64{}, got...)
		mu.Unlock()
		left := 0
		for {
			ev, ok := el.eventQ.pop()
			if !ok {
				break
			}
			if e, ok := ev.(c14Ev0); ok {
				delivered = append(delivered, e.Ser)
				left++
			}
		}
		lg.mu.Lock()
		d := append([]uint64{}, drops...)
		lg.mu.Unlock()
		c14CheckConservation(v, "loop.run", all, delivered, d, capacity, producers, meta)
		v.Seen(fmt.Sprintf("cr|%d|%d|%d|%d", round, capacity, producers, per), true, map[string]any{"concurrent_run_cancel": meta, "dropped": len(d), "handled_by_run": len(delivered) - left, "left_pending": left})
		v.CountN("concurrent:run-cancel-adds", producers*per)
		v.CountN("concurrent:run-cancel-left-pending", left)
	}
}

// ---------------------------------------------------------------------------------------------
// C14, part 4: the wake-up signal.  (1) deterministic, kernel-checked: a push must leave its signal
// behind on ready() until it is received (otherwise a consumer that has just seen the queue empty goes to
// sleep with an entry pending); (2) stress: one event in flight at a time against a Run consumer -- every
// added event must be handled without a further AddEvent; (3) a slow prioritised run-in-AddEvent handler
// and an ordinary handler for the same event, with Run as a concurrent consumer: prioritised first.
// ---------------------------------------------------------------------------------------------

func c14ReadySignalStream(v *verifOut) {
	s := v.Stream("ready", "s_mismatches", 1500)
	run := func(stream string, capacity int, ops []string) {
		q := newQueue(uint(capacity))
		meta := map[string]any{"stream": stream, "capacity": capacity, "ops": ops}
		var deque []uint64
		token := false
		next := uint64(0)
		gops := make([]string, 0, len(ops))
		gouts := make([]string, 0, len(ops))
		for i, o := range ops {
			switch o {
			case "push":
				next++
				d := q.push(next)
				has, val := c14AsN(d)
				gops = append(gops, "SOp (QPush (Some "+gN(next)+"))")
				gouts = append(gouts, "SOut (OPushed "+c14OptN(has, val)+")")
				if len(deque) >= capacity {
					deque = deque[1:]
				}
				deque = append(deque, next)
				token = true
			case "pop":
				x, ok := q.pop()
				has, val := c14AsN(x)
				gops = append(gops, "SOp QPop")
				gouts = append(gouts, "SOut (OPopped "+c14OptN(has, val)+" "+gBool(ok)+")")
				if len(deque) > 0 {
					deque = deque[1:]
				}
			case "len":
				gops = append(gops, "SOp QLen")
				gouts = append(gouts, "SOut (OLen "+gZ(int64(q.len()))+")")
			default: // poll: what a consumer entering `select { case <-ready(): ... }` finds
				got := false
				select {
				case <-q.ready():
					got = true
				default:
				}
				gops = append(gops, "SPoll")
				gouts = append(gouts, "SPolled "+gBool(got))
				if token && !got {
					c14Oracle(v, false, "queue.ready:signal-lost", fmt.Sprintf("op %d: nothing to receive on ready() although an entry was pushed since the last receive (%d entries pending): a consumer that found the queue empty just before that push and now waits on ready() sleeps until some other push happens", i, len(deque)), meta)
				} else if !token && got {
					c14Oracle(v, false, "queue.ready:spurious-signal", fmt.Sprintf("op %d: ready() delivered a signal without a push since the last receive", i), meta)
				} else {
					c14Oracle(v, true, "", "", nil)
				}
				token = false
			}
		}
		v.Seen(fmt.Sprintf("s%d|%s", capacity, strings.Join(ops, ",")), true, map[string]any{"ready_signal": meta})
		v.Count("ready:" + stream)
		v.Case(s, fmt.Sprintf("(%s, %s, %s)", gNat(capacity), gList(gops), gList(gouts)), meta)
	}
	// exhaustive: all sequences of push / pop / poll of length L on capacities 1 and 2
	alphabet := []string{"push", "pop", "poll"}
	L := v.Pick(6, 8)
	total := 1
	for i := 0; i < L; i++ {
		total *= 3
	}
	for capacity := 1; capacity <= 2; capacity++ {
		for code := 0; code < total; code++ {
			ops := make([]string, L)
			c := code
			for i := range ops {
				ops[i] = alphabet[c%3]
				c /= 3
			}
			run("exhaustive", capacity, ops)
		}
	}
	all := []string{"push", "pop", "poll", "len", "push", "poll"}
	for i := 0; i < v.Pick(300, 4000); i++ {
		ops := make([]string, 4+v.rng.Intn(30))
		for j := range ops {
			ops[j] = all[v.rng.Intn(len(all))]
		}
		run("random", 1+v.rng.Intn(6), ops)
	}
}

type c14PingEv struct{ N int }

// c14WakeStress: `loops` independent event loops, each with Run as consumer and one event in flight at a
// time (the handler's reply lets the producer goroutine add the next event).  An event that is still
// unhandled 200 ms after AddEvent returned, with nothing else going on, is a lost wake-up; one more AddEvent
// then delivers both.  Measured on the tree before fixes/C14-ready-signal-not-lost.patch: 0.7 - 5 stalls
// per 100,000 rounds with one loop and about 0.4 per 100,000 with four loops in parallel (16 cores), i.e. the
// quick tier (4 x 300,000 rounds) misses it with probability of about 1 %, the thorough tier (8 x 2,500,000)
// practically never.  The deterministic ready-signal stream above does not depend on scheduling.
func c14WakeStress(v *verifOut) {
	loops := v.Pick(4, 8)
	rounds := v.Pick(300000, 2500000)
	var wg sync.WaitGroup
	type res struct{ stalls, done, first int }
	out := make([]res, loops)
	for l := 0; l < loops; l++ {
		wg.Add(1)
		go func(l int) {
			defer wg.Done()
			el := New(&c14Logger{drop: func(any) {}}, 16)
			reply := make(chan int, 4)
			Register(el, func(e c14PingEv) { reply <- e.N })
			ctx, cancel := context.WithCancel(context.Background())
			defer cancel()
			go el.Run(ctx)
			timer := time.NewTimer(time.Hour)
			defer timer.Stop()
			for i := 0; i < rounds; i++ {
				el.AddEvent(c14PingEv{i})
				if !timer.Stop() {
					select {
					case <-timer.C:
					default:
					}
				}
				timer.Reset(200 * time.Millisecond)
				select {
				case <-reply:
				case <-timer.C:
					out[l].stalls++
					if out[l].stalls == 1 {
						out[l].first = i
					}
					el.AddEvent(c14PingEv{-1}) // the nudge
					a, b := <-reply, <-reply
					if a != i || b != -1 {
						out[l].stalls += 1000 // order broken as well
					}
				}
				out[l].done++
				if out[l].stalls >= 3 {
					return
				}
			}
		}(l)
	}
	wg.Wait()
	for l, r := range out {
		meta := map[string]any{"stream": "wake-stress", "loop": l, "rounds_done": r.done, "stalls": r.stalls, "first_stall_at_round": r.first}
		c14Oracle(v, r.stalls == 0, "loop.run:event-not-handled-until-next-add",
			fmt.Sprintf("ping-pong against el.Run (one event in flight, next AddEvent only after the handler's reply): %d time(s) in %d rounds an added event was still unhandled after 200 ms although the loop was idle (first at round %d); one more AddEvent delivered it -- the wake-up of the idle loop was lost", r.stalls%1000, r.done, r.first), meta)
		c14Oracle(v, r.stalls < 1000, "loop.run:order-after-stall", "after the nudge the stalled event and the nudge were not delivered in order", meta)
		v.Seen(fmt.Sprintf("ws|%d|%d", l, r.done), true, map[string]any{"wake_stress": meta})
		v.CountN("wake-stress:rounds", r.done)
		v.CountN("wake-stress:stalls", r.stalls%1000)
	}
}

// c14ConcurrentPriority: for every event, the prioritised run-in-AddEvent handler (slow) must have finished
// before the ordinary handler and after it the prioritised loop-side handler must come before the ordinary one.
func c14ConcurrentPriority(v *verifOut) {
	rounds := v.Pick(6, 60)
	for round := 0; round < rounds; round++ {
		producers := 1 + v.rng.Intn(3)
		per := 40 + v.rng.Intn(v.Pick(60, 300))
		slow := time.Duration(20+v.rng.Intn(200)) * time.Microsecond
		meta := map[string]any{"stream": "concurrent-priority", "producers": producers, "per_producer": per, "slow_handler_us": slow.Microseconds(), "round": round}
		el := New(&c14Logger{drop: func(any) {}}, uint(producers*per+1))
		var seq atomic.Int64
		type marks struct{ pAddEnd, pLoop, ord, nAdd, nLoop, nOrd int64 }
		var mu sync.Mutex
		m := map[uint64]*marks{}
		get := func(ser uint64) *marks {
			mu.Lock()
			defer mu.Unlock()
			if m[ser] == nil {
				m[ser] = &marks{}
			}
			return m[ser]
		}
		Register(el, func(e c14Ev0) { x := get(e.Ser); x.ord = seq.Add(1); x.nOrd++ }) // ordinary, registered first
		Register(el, func(e c14Ev0) {
			time.Sleep(slow)
			x := get(e.Ser)
			x.pAddEnd = seq.Add(1)
			x.nAdd++
		}, Prioritize(), UnsafeRunInAddEvent())
		Register(el, func(e c14Ev0) { x := get(e.Ser); x.pLoop = seq.Add(1); x.nLoop++ }, Prioritize())
		ctx, cancel := context.WithCancel(context.Background())
		rdone := make(chan struct{})
		go func() { defer close(rdone); el.Run(ctx) }()
		var wg sync.WaitGroup
		for p := 0; p < producers; p++ {
			wg.Add(1)
			go func(p int) {
				defer wg.Done()
				for i := 1; i <= per; i++ {
					el.AddEvent(c14Ev0{ID: uint64(i), Ser: uint64(p)<<32 | uint64(i)})
				}
			}(p)
		}
		wg.Wait()
		cancel()
		<-rdone
		for el.Tick(context.Background()) {
		}
		ok := true
		mu.Lock()
		for ser, x := range m {
			switch {
			case x.nAdd != 1 || x.nLoop != 1 || x.nOrd != 1:
				ok = false
				c14Oracle(v, false, "loop.concurrent:not-exactly-once", fmt.Sprintf("event %#x: run-in-AddEvent handler ran %d times, prioritised handler %d, ordinary handler %d (want 1 each)", ser, x.nAdd, x.nLoop, x.nOrd), meta)
			case x.pAddEnd > x.ord || x.pLoop > x.ord:
				ok = false
				c14Oracle(v, false, "loop.concurrent:ordinary-before-priority", fmt.Sprintf("event %#x: the ordinary handler ran (step %d) before a prioritised handler had finished (run-in-AddEvent one at step %d, loop-side one at step %d)", ser, x.ord, x.pAddEnd, x.pLoop), meta)
			}
			if !ok {
				break
			}
		}
		n := len(m)
		mu.Unlock()
		if ok {
			c14Oracle(v, n == producers*per, "loop.concurrent:not-exactly-once", fmt.Sprintf("%d of %d events were seen by the handlers", n, producers*per), meta)
		}
		v.Seen(fmt.Sprintf("cp|%d|%d|%d", round, producers, per), true, map[string]any{"concurrent_priority": meta})
		v.CountN("concurrent:priority-events", producers*per)
	}
}

func TestVerifC14(t *testing.T) {
	v := verifNew("C14")
	c14QueueStreams(v)
	c14LoopStreams(v)
	c14ConcurrentStreams(v)
	c14ConcurrentHardened(v)
	c14ReadySignalStream(v)
	c14ConcurrentPriority(v)
	c14WakeStress(v)
	v.Close("queue: op sequences on capacities 1..9, non-trivial = the sequence overflows or wraps around; loop: programs of add/defer/register/unregister/tick, non-trivial = overflow, deferred events or re-entrant handler calls occur")
}

package leaderrotation

// Correspondence harness for C16 (all replicas agree on a valid leader).
// Injected by /verif/bin/check with `go test -overlay`; nothing in /repo is changed.
//
// Three parts:
//   stateless  - round-robin / fixed / tree-leader objects of two independently wired replicas with
//                different own ids, n = 1..64, views 0..10,000 and around 2^32, 2^63, 2^64-1 (exhaustive grid)
//   carousel   - generated committed chains on three independently wired replicas (A, B: different own
//                ids; C: B's id, the certificates' signers listed in another order)
//   reputation - same, as multi-step query sequences; the internal state is read after every step
// Every Go answer is emitted as a Gallina case and recomputed by the model inside the Coq kernel; the
// property's own oracle (agreement, configured id, member of the certificate and not a recent
// proposer, one turn per window, no panic) is evaluated directly on the Go answers.

import (
	"context"
	"encoding/binary"
	"fmt"
	"io"
	"math"
	"math/rand"
	"runtime"
	"slices"
	"sort"
	"strings"
	"sync"
	"testing"
	"time"

	wr "github.com/mroth/weightedrand"

	"github.com/relab/hotstuff"
	"github.com/relab/hotstuff/core"
	"github.com/relab/hotstuff/core/eventloop"
	"github.com/relab/hotstuff/core/logging"
	"github.com/relab/hotstuff/internal/proto/clientpb"
	"github.com/relab/hotstuff/internal/proto/hotstuffpb"
	"github.com/relab/hotstuff/internal/tree"
	"github.com/relab/hotstuff/protocol"
	"github.com/relab/hotstuff/security/blockchain"
	"github.com/relab/hotstuff/security/cert"
	"github.com/relab/hotstuff/security/crypto"
)

// ---------------------------------------------------------------------------------------------
// wiring of one replica's objects (what wiring.NewCore / NewSecurity / NewViewStates do)

// c16Sig is a quorum signature whose participants are iterated in a chosen order. Its byte form does
// not depend on that order, so blocks built on different replicas from the same signer set have
// the same hash.
type c16Sig struct {
	ids  []hotstuff.ID
	trip *c16Trip
}

// c16Trip counts the moments inside a GetLeader call at which code supplied by the harness runs (the logger,
// the certificate's participant set, the block fetcher) and can run an action at the at-th of them: this is how
// "a commit lands while GetLeader is running" is produced on the unmodified code.
type c16Trip struct {
	armed bool
	count int
	at    int
	fire  func()
}

func (t *c16Trip) event() {
	if t == nil || !t.armed {
		return
	}
	if t.count == t.at && t.fire != nil {
		t.fire()
	}
	t.count++
}

// c16Logger is the replica's logger: every log call is such a moment.
type c16Logger struct {
	inner logging.Logger
	trip  *c16Trip
}

func (l c16Logger) DPanic(a ...any)           { l.trip.event() }
func (l c16Logger) DPanicf(string, ...any)    { l.trip.event() }
func (l c16Logger) Debug(a ...any)            { l.trip.event(); l.inner.Debug(a...) }
func (l c16Logger) Debugf(t string, a ...any) { l.trip.event(); l.inner.Debugf(t, a...) }
func (l c16Logger) Error(a ...any)            { l.trip.event(); l.inner.Error(a...) }
func (l c16Logger) Errorf(t string, a ...any) { l.trip.event(); l.inner.Errorf(t, a...) }
func (l c16Logger) Fatal(a ...any)            { l.trip.event() }
func (l c16Logger) Fatalf(string, ...any)     { l.trip.event() }
func (l c16Logger) Info(a ...any)             { l.trip.event(); l.inner.Info(a...) }
func (l c16Logger) Infof(t string, a ...any)  { l.trip.event(); l.inner.Infof(t, a...) }
func (l c16Logger) Panic(a ...any)            { l.trip.event() }
func (l c16Logger) Panicf(string, ...any)     { l.trip.event() }
func (l c16Logger) Warn(a ...any)             { l.trip.event(); l.inner.Warn(a...) }
func (l c16Logger) Warnf(t string, a ...any)  { l.trip.event(); l.inner.Warnf(t, a...) }

func (s c16Sig) ToBytes() []byte {
	ids := slices.Clone(s.ids)
	slices.Sort(ids)
	b := []byte("c16sig")
	for _, id := range ids {
		b = binary.LittleEndian.AppendUint32(b, uint32(id))
	}
	return b
}
func (s c16Sig) Participants() hotstuff.IDSet { s.trip.event(); return s }
func (s c16Sig) Add(hotstuff.ID)              { panic("not implemented") }
func (s c16Sig) Contains(id hotstuff.ID) bool { s.trip.event(); return slices.Contains(s.ids, id) }
func (s c16Sig) ForEach(f func(hotstuff.ID)) {
	for _, id := range s.ids {
		s.trip.event()
		f(id)
	}
	s.trip.event()
}
func (s c16Sig) RangeWhile(f func(hotstuff.ID) bool) {
	for _, id := range s.ids {
		s.trip.event()
		if !f(id) {
			return
		}
	}
}
func (s c16Sig) Len() int { s.trip.event(); return len(s.ids) }

// c16Sender serves block requests from a table (other replicas' storage) and drops everything else.
type c16Sender struct {
	trip   *c16Trip
	remote map[hotstuff.Hash]*hotstuff.Block
}

func (s *c16Sender) NewView(hotstuff.ID, hotstuff.SyncInfo) error { return nil }
func (s *c16Sender) Vote(hotstuff.ID, hotstuff.PartialCert) error { return nil }
func (s *c16Sender) Timeout(hotstuff.TimeoutMsg)                  {}
func (s *c16Sender) Propose(*hotstuff.ProposeMsg)                 {}
func (s *c16Sender) RequestBlock(_ context.Context, h hotstuff.Hash) (*hotstuff.Block, bool) {
	s.trip.event()
	b, ok := s.remote[h]
	return b, ok
}
func (s *c16Sender) Sub([]hotstuff.ID) (core.Sender, error) { return s, nil }

type c16Replica struct {
	id     hotstuff.ID
	n      int
	seed   int64
	cfg    *core.RuntimeConfig
	bc     *blockchain.Blockchain
	vs     *protocol.ViewStates
	logger logging.Logger
	trip   *c16Trip
	auth   *cert.Authority
	sender *c16Sender
	tree   []hotstuff.ID // tree positions or nil
}

func c16OneTo(n int) []hotstuff.ID {
	ids := make([]hotstuff.ID, n)
	for i := range ids {
		ids[i] = hotstuff.ID(i + 1)
	}
	return ids
}

func c16NewReplica(id hotstuff.ID, n int, seed int64, treePos []hotstuff.ID) *c16Replica {
	return c16NewReplicaIDs(id, c16OneTo(n), seed, treePos)
}

// addReplicas grows the membership of an already wired replica (what network.Sender.Connect does
// after all components, including the leader rotation, have been created).
func (r *c16Replica) addReplicas(ids []hotstuff.ID) {
	for _, id := range ids {
		r.cfg.AddReplica(&hotstuff.ReplicaInfo{ID: id})
	}
	r.n = r.cfg.ReplicaCount()
}

func c16NewReplicaIDs(id hotstuff.ID, members []hotstuff.ID, seed int64, treePos []hotstuff.ID) *c16Replica {
	n := len(members)
	opts := []core.RuntimeOption{core.WithSharedRandomSeed(seed)}
	if treePos != nil {
		opts = append(opts, core.WithKauriTree(tree.NewSimple(id, 2+int(id%3), slices.Clone(treePos))))
	}
	cfg := core.NewRuntimeConfig(id, nil, opts...)
	for _, m := range members {
		cfg.AddReplica(&hotstuff.ReplicaInfo{ID: m})
	}
	trip := &c16Trip{}
	var logger logging.Logger = c16Logger{inner: logging.NewWithDest(io.Discard, fmt.Sprintf("c16-%d", id)), trip: trip}
	el := eventloop.New(logger, 10)
	sender := &c16Sender{remote: map[hotstuff.Hash]*hotstuff.Block{}, trip: trip}
	bc := blockchain.New(el, logger, sender)
	base, err := crypto.New(cfg, crypto.NameECDSA)
	if err != nil {
		panic(err)
	}
	auth := cert.NewAuthority(cfg, bc, base)
	vs, err := protocol.NewViewStates(bc, auth)
	if err != nil {
		panic(err)
	}
	return &c16Replica{id: id, n: n, seed: seed, cfg: cfg, bc: bc, vs: vs, logger: logger, sender: sender, tree: treePos, trip: trip, auth: auth}
}

func (r *c16Replica) rotation(name string, chainLength int) LeaderRotation {
	lr, err := New(r.logger, r.cfg, r.bc, r.vs, name, chainLength)
	if err != nil {
		panic(err)
	}
	return lr
}

// gConfig is the Gallina value of the replica's configuration as the model sees it.
func (r *c16Replica) gConfig() string {
	tr := "None"
	if r.tree != nil {
		tr = fmt.Sprintf("(Some (Build_tree %s %s))", gN(uint64(r.id)), c16Ids(r.tree))
	}
	return fmt.Sprintf("(Build_config %s %s %s %s)", gN(uint64(r.id)), gZ(int64(r.cfg.ReplicaCount())), gZ(r.seed), tr)
}

func c16Ids(ids []hotstuff.ID) string {
	xs := make([]uint64, len(ids))
	for i, id := range ids {
		xs[i] = uint64(id)
	}
	return gNs(xs)
}

type c16Obs struct {
	id       hotstuff.ID
	panicked bool
	msg      string
}

func (o c16Obs) g() string {
	if o.panicked {
		return "Panic"
	}
	return fmt.Sprintf("(Ok %s)", gN(uint64(o.id)))
}
func (o c16Obs) String() string {
	if o.panicked {
		return "panic: " + o.msg
	}
	return fmt.Sprint(uint32(o.id))
}
func (o c16Obs) same(p c16Obs) bool { return o.panicked == p.panicked && (o.panicked || o.id == p.id) }

func c16Call(f func() hotstuff.ID) (o c16Obs) {
	defer func() {
		if e := recover(); e != nil {
			o = c16Obs{panicked: true, msg: fmt.Sprint(e)}
		}
	}()
	return c16Obs{id: f()}
}

func c16FirstMsg(os ...c16Obs) string {
	for _, o := range os {
		if o.panicked {
			return o.msg
		}
	}
	return ""
}

func c16Leader(lr LeaderRotation, view hotstuff.View) c16Obs {
	return c16Call(func() hotstuff.ID { return lr.GetLeader(view) })
}

// ---------------------------------------------------------------------------------------------
// stateless schemes

// a rotation that follows the successor rule needs ~2,200 (quick) segments; anything else is already an
// oracle failure, so the kernel work is capped
const c16SegmentCap = 8000

var c16SegmentCount int

type c16Range struct{ lo, hi uint64 } // inclusive

func c16Ranges(v *verifOut, short bool) []c16Range {
	top := uint64(v.Pick(10_000, 100_000))
	if short {
		top = 1_000
	}
	w := uint64(300)
	return []c16Range{
		{0, top},
		{1<<32 - w, 1<<32 + w},
		{1<<63 - w, 1<<63 + w},
		{math.MaxUint64 - 2*w, math.MaxUint64},
	}
}

// c16Segments emits the answers obs[0..] for views lo, lo+1, ... in the lossless run-length form of
// Corr/C16.v (a segment ends where the next answer is not the one seg_next predicts).
func c16Segments(v *verifOut, s *verifStream, scheme string, r *c16Replica, nOverride *int64, lo uint64, obs []c16Obs, meta map[string]any) {
	n := int64(r.cfg.ReplicaCount())
	cfg := r.gConfig()
	if nOverride != nil {
		n = *nOverride
		cfg = fmt.Sprintf("(Build_config %s %s %s None)", gN(uint64(r.id)), gZ(n), gZ(r.seed))
	}
	next := func(o c16Obs) c16Obs {
		if scheme != "SRoundRobin" || o.panicked || n == 0 {
			return o
		}
		return c16Obs{id: hotstuff.ID(int64(o.id)%n + 1)}
	}
	for i := 0; i < len(obs); {
		j := i + 1
		cur := obs[i]
		for j < len(obs) && obs[j].same(next(cur)) {
			cur = obs[j]
			j++
		}
		m := map[string]any{"scheme": scheme, "n": n, "own_id": uint32(r.id), "first_view": lo + uint64(i), "views": j - i, "first_answer": obs[i].String()}
		for k, x := range meta {
			m[k] = x
		}
		if c16SegmentCount < c16SegmentCap {
			v.Case(s, fmt.Sprintf("(%s, %s, %s, %s, %s)", scheme, cfg, gN(lo+uint64(i)), gN(uint64(j-i)), obs[i].g()), m)
			v.Count("stateless_segments")
		} else if c16SegmentCount == c16SegmentCap {
			v.Note(fmt.Sprintf("more than %d stateless segments: the answers do not follow the rotation rule; further segments are not sent to the kernel", c16SegmentCap))
		}
		c16SegmentCount++
		i = j
	}
}

func c16Stateless(v *verifOut) {
	s := v.Stream("stateless", "stateless_mismatches", 60)
	for n := 1; n <= 64; n++ {
		idA, idB := hotstuff.ID(1), hotstuff.ID(n)
		if n >= 3 && n%2 == 1 {
			idA = hotstuff.ID(n/2 + 1)
		}
		// tree positions: a permutation of 1..n shared by all replicas (every other n: no tree)
		var treePos []hotstuff.ID
		if n%2 == 0 || n == 1 {
			for _, p := range v.rng.Perm(n) {
				treePos = append(treePos, hotstuff.ID(p+1))
			}
		}
		a := c16NewReplica(idA, n, 0, treePos)
		b := c16NewReplica(idB, n, 0, treePos)
		fixedLeader := hotstuff.ID(1 + v.rng.Intn(n))
		type sch struct {
			name, g string
			la, lb  LeaderRotation
			short   bool
		}
		schemes := []sch{
			{"round-robin", "SRoundRobin", a.rotation(NameRoundRobin, 1), b.rotation(NameRoundRobin, 1), false},
			{"fixed(factory)", "(SFixed 1%N)", a.rotation(NameFixed, 1), b.rotation(NameFixed, 1), true},
			{"fixed", fmt.Sprintf("(SFixed %s)", gN(uint64(fixedLeader))), NewFixed(fixedLeader), NewFixed(fixedLeader), true},
			{"tree-leader", "STree", a.rotation(NameTree, 1), b.rotation(NameTree, 1), true},
		}
		for _, sc := range schemes {
			for _, rg := range c16Ranges(v, sc.short) {
				cnt := int(rg.hi-rg.lo) + 1
				oa := make([]c16Obs, cnt)
				ob := make([]c16Obs, cnt)
				last := make([]int, n+1) // last position at which an id led, +1
				for i := 0; i < cnt; i++ {
					view := hotstuff.View(rg.lo + uint64(i))
					oa[i] = c16Leader(sc.la, view)
					ob[i] = c16Leader(sc.lb, view)
					in := map[string]any{"scheme": sc.name, "n": n, "view": uint64(view), "own_ids": []uint32{uint32(idA), uint32(idB)}, "answers": []string{oa[i].String(), ob[i].String()}}
					v.Seen(fmt.Sprintf("st %s n=%d v=%d", sc.name, n, uint64(view)), n >= 2 && uint64(view) >= uint64(n), in)
					v.Count("stateless_" + sc.name)
					switch {
					case oa[i].panicked || ob[i].panicked:
						v.Oracle(false, "stateless:panic", fmt.Sprintf("%s GetLeader(%d) with n=%d panicked: %s %s", sc.name, uint64(view), n, oa[i].msg, ob[i].msg), in)
					case oa[i].id != ob[i].id:
						v.Oracle(false, "stateless:replicas-disagree", fmt.Sprintf("%s GetLeader(%d) with n=%d: replica %d says %d, replica %d says %d", sc.name, uint64(view), n, idA, oa[i].id, idB, ob[i].id), in)
					case oa[i].id < 1 || int(oa[i].id) > n:
						v.Oracle(false, "stateless:unknown-replica", fmt.Sprintf("%s GetLeader(%d) with n=%d returned %d", sc.name, uint64(view), n, oa[i].id), in)
					default:
						if _, ok := a.cfg.ReplicaInfo(oa[i].id); !ok {
							v.Oracle(false, "stateless:unknown-replica", fmt.Sprintf("%s GetLeader(%d) with n=%d returned unconfigured %d", sc.name, uint64(view), n, oa[i].id), in)
						} else {
							v.Oracle(true, "", "", nil)
						}
					}
					if sc.g == "SRoundRobin" && !oa[i].panicked && oa[i].id >= 1 && int(oa[i].id) <= n {
						// one turn per window: the previous turn of this id is at least n views back, and
						// (checked when the window is complete) every id had a turn in the last n views
						if p := last[oa[i].id]; p != 0 && i+1-p < n {
							v.Oracle(false, "round-robin:two-turns-in-window", fmt.Sprintf("n=%d: replica %d leads views %d and %d", n, oa[i].id, rg.lo+uint64(p-1), uint64(view)), in)
						}
						last[oa[i].id] = i + 1
						if i+1 >= n {
							ok := true
							for id := 1; id <= n; id++ {
								if last[id] == 0 || i+1-last[id] >= n {
									ok = false
									v.Oracle(false, "round-robin:no-turn-in-window", fmt.Sprintf("n=%d: replica %d has no turn in views %d..%d", n, id, uint64(view)-uint64(n)+1, uint64(view)), in)
									break
								}
							}
							if ok {
								v.Oracle(true, "", "", nil)
							}
						}
					}
				}
				c16Segments(v, s, sc.g, a, nil, rg.lo, oa, map[string]any{"scheme_name": sc.name})
				c16Segments(v, s, sc.g, b, nil, rg.lo, ob, map[string]any{"scheme_name": sc.name})
			}
		}
	}
	// boundary / malformed: the exported function with sizes that are not cluster sizes (casts, n = 0);
	// compared with the model only
	r := c16NewReplica(1, 1, 0, nil)
	sizes := []int64{0, -1, -3, math.MinInt64, math.MaxInt64, 1 << 32, 1<<32 + 5, 1<<32 - 1, 1 << 31}
	views := []uint64{0, 1, 2, 1<<32 - 2, 1<<32 - 1, 1 << 32, 1<<32 + 4, 1<<63 - 1, 1 << 63, math.MaxUint64 - 3, math.MaxUint64 - 1, math.MaxUint64}
	for _, n := range sizes {
		for _, view := range views {
			n, view := n, view
			o := c16Call(func() hotstuff.ID { return ChooseRoundRobin(hotstuff.View(view), int(n)) })
			v.Seen(fmt.Sprintf("crr n=%d v=%d", n, view), true, nil)
			v.Count("choose_round_robin_boundary")
			c16Segments(v, s, "SRoundRobin", r, &n, view, []c16Obs{o}, map[string]any{"direct": "ChooseRoundRobin"})
		}
	}
	// a configuration without replicas: division by zero in Go, Panic in the model
	empty := c16NewReplica(1, 0, 0, nil)
	o := c16Leader(empty.rotation(NameRoundRobin, 1), 7)
	v.Seen("rr n=0", true, nil)
	c16Segments(v, s, "SRoundRobin", empty, nil, 7, []c16Obs{o}, map[string]any{"note": "no replicas configured"})
}

// ---------------------------------------------------------------------------------------------
// committed chains for the history-based schemes

type c16Block struct {
	view     uint64
	proposer hotstuff.ID
	signers  []hotstuff.ID // nil: no signature in the embedded certificate
	stored   bool          // false: this block is in nobody's storage (cannot be fetched either)
}

type c16Chain struct {
	n      int
	blocks []c16Block // blocks[0] extends genesis
}

// build constructs the chain's blocks for one replica: perm reorders every signer list; local=false keeps
// only the committed heads out of local storage, everything else must be fetched through the sender.
// c16MakeSig wraps a signer list in one of the certificate containers of the repository:
// 0 the order-controlled stub, 1 crypto.Multi of ECDSA signatures (iterates in slice order),
// 2 BLS12 aggregate with a bitfield (iterates in ascending id order; needs small distinct ids).
func c16MakeSig(flavour int, ids []hotstuff.ID, trip *c16Trip) hotstuff.QuorumSignature {
	switch flavour {
	case 1:
		// what a replica holds after receiving the certificate: the wire form through the converter
		// (an ECDSAMultiSignature without entries becomes a non-nil signature without participants)
		w := &hotstuffpb.ECDSAMultiSignature{}
		for _, id := range ids {
			w.Sigs = append(w.Sigs, &hotstuffpb.ECDSASignature{Signer: uint32(id), Sig: binary.LittleEndian.AppendUint32([]byte("c16"), uint32(id))})
		}
		return hotstuffpb.QuorumSignatureFromProto(&hotstuffpb.QuorumSignature{Sig: &hotstuffpb.QuorumSignature_ECDSASigs{ECDSASigs: w}})
	case 2:
		seen := map[hotstuff.ID]bool{}
		ok := len(ids) > 0
		for _, id := range ids {
			if id == 0 || id > 2048 || seen[id] {
				ok = false
			}
			seen[id] = true
		}
		if ok {
			var bf crypto.Bitfield
			for _, id := range ids {
				bf.Add(id)
			}
			inf := make([]byte, 96)
			inf[0] = 0xc0 // compressed point at infinity of G2
			if agg, err := crypto.RestoreBLS12AggregateSignature(inf, bf); err == nil {
				return agg
			}
		}
	}
	return c16Sig{ids: ids, trip: trip}
}

func (c *c16Chain) build(r *c16Replica, perm func([]hotstuff.ID) []hotstuff.ID, local bool, flavour int) []*hotstuff.Block {
	out := make([]*hotstuff.Block, len(c.blocks))
	parent := hotstuff.GetGenesis()
	ts := time.Date(2025, 1, 2, 0, 0, 0, 0, time.UTC)
	for i, b := range c.blocks {
		var sig hotstuff.QuorumSignature
		if b.signers != nil {
			sig = c16MakeSig(flavour, perm(slices.Clone(b.signers)), r.trip)
		}
		qc := hotstuff.NewQuorumCert(sig, parent.View(), parent.Hash())
		blk := hotstuff.NewBlock(parent.Hash(), qc, &clientpb.Batch{}, hotstuff.View(b.view), b.proposer)
		blk.SetTimestamp(ts.Add(time.Duration(i) * time.Second))
		if b.stored {
			if local {
				r.bc.Store(blk)
			} else {
				r.sender.remote[blk.Hash()] = blk
			}
		}
		out[i] = blk
		parent = blk
	}
	return out
}

// proposers of head k, its parent, ... as far as the blocks are available (genesis excluded);
// head k itself is always in hand (it is the committed block), k = -1 is genesis.
func (c *c16Chain) chainFrom(k int) []hotstuff.ID {
	var out []hotstuff.ID
	for i := k; i >= 0; i-- {
		out = append(out, c.blocks[i].proposer)
		if i > 0 && !c.blocks[i-1].stored {
			break
		}
	}
	return out
}

func (c *c16Chain) gHead(k int, signers []hotstuff.ID) string {
	if k < 0 {
		return "(Build_head 0%N None [])"
	}
	qc := "None"
	if signers != nil {
		qc = "(Some " + c16Ids(signers) + ")"
	}
	return fmt.Sprintf("(Build_head %s %s %s)", gN(c.blocks[k].view), qc, c16Ids(c.chainFrom(k)))
}

func c16Subset(rng *rand.Rand, n, k int) []hotstuff.ID {
	p := rng.Perm(n)[:k]
	out := make([]hotstuff.ID, k)
	for i, x := range p {
		out[i] = hotstuff.ID(x + 1)
	}
	return out
}

// c16GenChain draws a chain of length 0..12. kind: 0 well-formed (signer sets of size q..n, duplicate-free,
// configured ids), 1 malformed (small / empty / unconfigured / repeated signers, missing ancestors).
func c16GenChain(rng *rand.Rand, n, length int, startView uint64, kind int, univ []hotstuff.ID) *c16Chain {
	c := &c16Chain{n: n}
	defer func() {
		if univ == nil {
			return
		}
		// rename 1..n to the configured ids (ids outside 1..n stay what they are)
		ren := func(id hotstuff.ID) hotstuff.ID {
			if id >= 1 && int(id) <= n {
				return univ[id-1]
			}
			return id
		}
		for i := range c.blocks {
			c.blocks[i].proposer = ren(c.blocks[i].proposer)
			for j := range c.blocks[i].signers {
				c.blocks[i].signers[j] = ren(c.blocks[i].signers[j])
			}
		}
	}()
	q := hotstuff.QuorumSize(n)
	view := startView
	pattern := rng.Intn(4)
	for i := 0; i < length; i++ {
		if i > 0 || view == 0 {
			view++
		}
		if rng.Intn(4) == 0 && view < math.MaxUint64-40 {
			view += uint64(rng.Intn(3)) // views skipped by timeouts
		}
		var prop hotstuff.ID
		switch pattern {
		case 0: // rotating proposers
			prop = hotstuff.ID(view%uint64(n) + 1)
		case 1: // few proposers, repeated
			prop = hotstuff.ID(1 + rng.Intn(min(n, 2)))
		default:
			prop = hotstuff.ID(1 + rng.Intn(n))
		}
		b := c16Block{view: view, proposer: prop, stored: true}
		if i > 0 || rng.Intn(3) > 0 { // the first block may carry the signature-less genesis certificate
			b.signers = c16Subset(rng, n, q+rng.Intn(n-q+1))
		} else {
			b.signers = nil
		}
		if kind == 2 {
			// crafted certificates that pass no quorum check but can sit in a committed head: a certificate for
			// the genesis block is accepted without looking at its signature (VerifyQuorumCert), so a view-1
			// block can carry a non-nil signature without participants; signer sets made of recent proposers
			f := hotstuff.NumFaulty(n)
			recent := []hotstuff.ID{prop}
			for j := len(c.blocks) - 1; j >= 0 && len(recent) < f; j-- {
				if !slices.Contains(recent, c.blocks[j].proposer) {
					recent = append(recent, c.blocks[j].proposer)
				}
			}
			switch x := rng.Intn(4); {
			case x == 0 || (i == 0 && rng.Intn(2) == 0):
				b.signers = []hotstuff.ID{} // signature present, no participants
			case x == 1:
				b.signers = []hotstuff.ID{prop} // only the block's own proposer
			case x == 2:
				b.signers = recent // only proposers of the last f blocks (f >= 1), else the own proposer
			}
		}
		if kind == 3 && i == 0 {
			// forged "genesis certificate": the first block certifies genesis with view 0; VerifyQuorumCert's
			// genesis shortcut does not look at the signature, so it may list anybody
			b.signers = [][]hotstuff.ID{
				{77},
				{0},
				{hotstuff.ID(n + 1), hotstuff.ID(n + 2), hotstuff.ID(n + 3)},
				{math.MaxUint32, 1 << 31},
				{2, 2, 77},
				{1, 77},
				{77, 100, 2000},
				{hotstuff.ID(n + 1)},
			}[rng.Intn(8)]
		}
		if kind == 1 {
			switch rng.Intn(8) {
			case 6:
				if len(b.signers) > 0 { // a signer repeated at an arbitrary position
					d := b.signers[rng.Intn(len(b.signers))]
					b.signers = slices.Insert(b.signers, rng.Intn(len(b.signers)+1), d)
				}
			case 7:
				if rng.Intn(2) == 0 { // id 0 as signer or proposer
					b.signers = slices.Insert(b.signers, rng.Intn(len(b.signers)+1), 0)
				} else {
					b.proposer = 0
				}
			case 0:
				b.signers = c16Subset(rng, n, rng.Intn(q)) // below quorum, possibly empty
			case 1:
				b.signers = append(b.signers, hotstuff.ID(n+1+rng.Intn(3))) // unconfigured signer
			case 2:
				if len(b.signers) > 0 {
					b.signers = append(b.signers, b.signers[0]) // repeated signer
				}
			case 3:
				b.stored = false
			case 4:
				b.signers = nil
			}
		}
		c.blocks = append(c.blocks, b)
	}
	return c
}

func c16WellFormed(members []hotstuff.ID, signers []hotstuff.ID) bool {
	if len(signers) < hotstuff.QuorumSize(len(members)) {
		return false
	}
	seen := map[hotstuff.ID]bool{}
	for _, id := range signers {
		if !slices.Contains(members, id) || seen[id] {
			return false
		}
		seen[id] = true
	}
	return true
}

func c16Seed(rng *rand.Rand) int64 {
	switch rng.Intn(8) {
	case 0:
		return 0
	case 1:
		return math.MaxInt64 - int64(rng.Intn(50))
	case 2:
		return math.MinInt64 + int64(rng.Intn(50))
	case 3:
		return -int64(rng.Intn(1000))
	default:
		return rng.Int63n(1 << 40)
	}
}

func c16Shuffled(rng *rand.Rand) func([]hotstuff.ID) []hotstuff.ID {
	return func(ids []hotstuff.ID) []hotstuff.ID {
		if len(ids) > 1 && rng.Intn(4) == 0 {
			slices.Reverse(ids)
			return ids
		}
		rng.Shuffle(len(ids), func(i, j int) { ids[i], ids[j] = ids[j], ids[i] })
		return ids
	}
}

func c16Same(ids []hotstuff.ID) []hotstuff.ID { return ids }

// views worth asking about when the committed head has view hv and the chain length is cl
func c16Queries(rng *rand.Rand, hv uint64, cl int, extra int) []uint64 {
	act := hv + uint64(int64(cl)) // the view for which the carousel is active (uint64 wrap-around intended)
	qs := []uint64{act, act, act + 1, act - 1, hv, 0, act + uint64(rng.Intn(20))}
	for i := 0; i < extra; i++ {
		switch rng.Intn(5) {
		case 0:
			qs = append(qs, uint64(rng.Intn(int(min(hv, 1<<30))+1)))
		case 1:
			qs = append(qs, math.MaxUint64-uint64(rng.Intn(4)))
		case 2:
			qs = append(qs, 1<<63+uint64(rng.Intn(4))-2)
		default:
			qs = append(qs, act)
		}
	}
	return qs
}

func c16SignerList(b *hotstuff.Block) []hotstuff.ID {
	sig := b.QuorumCert().Signature()
	if sig == nil {
		return nil
	}
	out := []hotstuff.ID{}
	sig.Participants().ForEach(func(id hotstuff.ID) { out = append(out, id) })
	return out
}

type c16Scenario struct {
	n, cl   int
	seed    int64
	chain   *c16Chain
	kind    int
	reps    [3]*c16Replica
	blocks  [3][]*hotstuff.Block
	tag     string
	rngSeed int64
	listed  [3][]string   // per replica and block: the certificate's signer list as first built
	members []hotstuff.ID // configured replica ids
	contig  bool          // members = 1..n (the rotation schemes' documented assumption)
	flav    [3]int        // certificate container per replica
}

// ids that are large, non-contiguous, agree in their low bits, or sit at type boundaries
var c16BigIDs = []hotstuff.ID{1 << 8, 1 << 15, 1 << 16, 1 << 24, 1 << 31, 1<<31 + 1, math.MaxUint32, math.MaxUint32 - 1,
	5, 5 + 1<<8, 5 + 1<<16, 5 + 1<<24, 5 + 1<<31, 3, 3 + 1<<31, 70000, 65535, 65537, 255, 257, 2, 1, 1<<31 - 1, 1 << 30}

func c16BigMembers(rng *rand.Rand, n int) []hotstuff.ID {
	out := make([]hotstuff.ID, n)
	for i, p := range rng.Perm(len(c16BigIDs))[:n] {
		out[i] = c16BigIDs[p]
	}
	return out
}

func c16NewScenario(rng *rand.Rand, n, cl, length int, startView uint64, kind int, tag string) *c16Scenario {
	return c16NewScenarioIDs(rng, nil, n, cl, length, startView, kind, tag)
}

// members == nil: replicas 1..n
func c16NewScenarioIDs(rng *rand.Rand, members []hotstuff.ID, n, cl, length int, startView uint64, kind int, tag string) *c16Scenario {
	sc := &c16Scenario{n: n, cl: cl, seed: c16Seed(rng), kind: kind, tag: tag, members: members, contig: members == nil}
	sc.chain = c16GenChain(rng, n, length, startView, kind, members)
	if members == nil {
		sc.members = c16OneTo(n)
	}
	// certificate containers: A always the stub; B stub or ECDSA multi-signature; C stub, ECDSA or BLS bitfield
	sc.flav = [3]int{0, rng.Intn(2), rng.Intn(3)}
	// A and B have different own ids (when n >= 2); C has B's own id but is wired separately and gets every
	// certificate with its signers listed in another order, so B-vs-C isolates the listing order
	ids := c16Subset(rng, n, min(n, 2))
	for len(ids) < 3 {
		ids = append(ids, ids[len(ids)-1])
	}
	for i := range sc.reps {
		sc.reps[i] = c16NewReplicaIDs(sc.members[ids[i]-1], sc.members, sc.seed, nil)
	}
	sc.blocks[0] = sc.chain.build(sc.reps[0], c16Same, true, sc.flav[0])
	sc.blocks[1] = sc.chain.build(sc.reps[1], c16Same, rng.Intn(3) > 0, sc.flav[1]) // sometimes everything is fetched
	sc.blocks[2] = sc.chain.build(sc.reps[2], c16Shuffled(rng), true, sc.flav[2])
	for i := range sc.blocks {
		for _, b := range sc.blocks[i] {
			sc.listed[i] = append(sc.listed[i], fmt.Sprint(c16SignerList(b)))
		}
	}
	return sc
}

func (sc *c16Scenario) head(i, k int) *hotstuff.Block {
	if k < 0 {
		return hotstuff.GetGenesis()
	}
	return sc.blocks[i][k]
}

func (sc *c16Scenario) describe(k int, view uint64) map[string]any {
	m := map[string]any{"n": sc.n, "chain_length_param": sc.cl, "shared_seed": sc.seed, "queried_view": view, "committed_head_index": k, "scenario": sc.tag,
		"own_ids":        []uint32{uint32(sc.reps[0].id), uint32(sc.reps[1].id), uint32(sc.reps[2].id)},
		"configured_ids": fmt.Sprint(sc.members), "certificate_containers_ABC": sc.flav}
	var bl []map[string]any
	for i := 0; i <= k; i++ {
		b := sc.chain.blocks[i]
		e := map[string]any{"view": b.view, "proposer": uint32(b.proposer), "stored": b.stored}
		if b.signers != nil {
			e["qc_signers_replicaAB"] = fmt.Sprint(c16SignerList(sc.blocks[0][i]))
			e["qc_signers_replicaC"] = fmt.Sprint(c16SignerList(sc.blocks[2][i]))
		}
		bl = append(bl, e)
	}
	m["committed_chain"] = bl
	return m
}

func c16Drawn(seed int64) int64 { return int64(rand.New(rand.NewSource(seed)).Int()) }

// ---------------------------------------------------------------------------------------------
// carousel

func c16Carousel(v *verifOut) {
	s := v.Stream("carousel", "carousel_mismatches", 400)
	rng := v.rng
	run := func(sc *c16Scenario) {
		var lrs [3]LeaderRotation
		for i, r := range sc.reps {
			lrs[i] = r.rotation(NameCarousel, sc.cl)
		}
		f := hotstuff.NumFaulty(sc.n)
		for k := -1; k < len(sc.chain.blocks); k++ {
			if k >= 0 && !sc.chain.blocks[k].stored {
				continue // a block nobody has cannot be the committed head
			}
			for i, r := range sc.reps {
				r.vs.UpdateCommittedBlock(sc.head(i, k))
			}
			hv := uint64(0)
			var signers []hotstuff.ID
			if k >= 0 {
				hv = sc.chain.blocks[k].view
				signers = sc.chain.blocks[k].signers
			}
			wf := k < 0 || signers == nil || c16WellFormed(sc.members, signers)
			qs := c16Queries(rng, hv, sc.cl, 2)
			// the same round asked before and after a commit: the rounds for which the carousel is / was /
			// will be active under the neighbouring committed heads
			// (the next head's round comes last: it is also the first question after the next commit)
			for _, nb := range []int{k - 1, k + 2, k + 1} {
				if nb >= 0 && nb < len(sc.chain.blocks) {
					qs = append(qs, sc.chain.blocks[nb].view+uint64(int64(sc.cl)))
				}
			}
			for _, view := range qs {
				var o [3]c16Obs
				for i := range lrs {
					o[i] = c16Leader(lrs[i], hotstuff.View(view))
				}
				// a replica that asks for the first time under this committed head (fresh rotation object
				// on replica A's wiring) must get what the long-lived object answers
				first := c16Leader(sc.reps[0].rotation(NameCarousel, sc.cl), hotstuff.View(view))
				for i := range sc.reps {
					if k >= 0 && fmt.Sprint(c16SignerList(sc.head(i, k))) != sc.listed[i][k] {
						v.Oracle(false, "carousel:mutates-certificate", fmt.Sprintf("GetLeader(%d) changed the signer list of the committed head's certificate from %s to %v", view, sc.listed[i][k], c16SignerList(sc.head(i, k))), sc.describe(k, view))
					}
				}
				active := signers != nil && hv == view-uint64(int64(sc.cl))
				in := sc.describe(k, view)
				in["answers"] = []string{o[0].String(), o[1].String(), o[2].String()}
				in["carousel_active"] = active
				key := fmt.Sprintf("car n=%d cl=%d seed=%d v=%d k=%d %v", sc.n, sc.cl, sc.seed, view, k, in["committed_chain"])
				v.Seen(key, active && sc.n >= 4, in)
				switch {
				case active:
					v.Count("carousel_active")
				case signers == nil:
					v.Count("carousel_startup")
				default:
					v.Count("carousel_fallback")
				}
				// a head that certifies genesis and passes the real cert.Authority.VerifyQuorumCert is a head the
				// protocol accepts (Voter.Verify), whatever its signature lists: the full oracle applies to it
				accepted := k == 0 && signers != nil && sc.reps[0].auth.VerifyQuorumCert(sc.head(0, k).QuorumCert()) == nil &&
					sc.reps[1].auth.VerifyQuorumCert(sc.head(1, k).QuorumCert()) == nil && sc.reps[2].auth.VerifyQuorumCert(sc.head(2, k).QuorumCert()) == nil
				if accepted && !wf {
					in["head_certificate"] = "certifies genesis (view 0); accepted by cert.Authority.VerifyQuorumCert on all three replicas"
					v.Count("carousel_accepted_forged_genesis_certificate")
				}
				if o[0].panicked || o[1].panicked || o[2].panicked || first.panicked {
					// "no scheme panics": whatever certificate the committed head carries
					v.Oracle(false, "carousel:panic", fmt.Sprintf("carousel GetLeader(%d) panicked (%s) under a committed head at view %d whose certificate lists the signers %v; last proposers %v", view, c16FirstMsg(o[0], o[1], o[2], first), hv, signers, sc.chain.chainFrom(k)), in)
				} else if !wf && !accepted {
					v.Count("carousel_malformed_certificate")
					v.Oracle(true, "", "", nil)
				} else {
					// the property's oracle on the Go answers
					last := sc.chain.chainFrom(k)
					if len(last) > f {
						last = last[:f]
					}
					// signers that may lead; with none left the (repaired) carousel answers round-robin
					eligible := 0
					for _, id := range signers {
						if !slices.Contains(last, id) {
							eligible++
						}
					}
					picks := active && eligible > 0
					switch {
					case o[0].panicked || o[1].panicked || o[2].panicked:
						v.Oracle(false, "carousel:panic", fmt.Sprintf("carousel GetLeader(%d) panicked: %s %s %s", view, o[0].msg, o[1].msg, o[2].msg), in)
					case o[0].id != o[1].id:
						v.Oracle(false, "carousel:depends-on-own-id", fmt.Sprintf("carousel GetLeader(%d): replica %d says %d, replica %d says %d (same committed chain, same seed)", view, sc.reps[0].id, o[0].id, sc.reps[1].id, o[1].id), in)
					case o[1].id != o[2].id:
						v.Oracle(false, "carousel:depends-on-signer-order", fmt.Sprintf("carousel GetLeader(%d): replica %d says %d, replica %d (same certificate signers in another order) says %d", view, sc.reps[1].id, o[1].id, sc.reps[2].id, o[2].id), in)
					case !first.same(o[0]):
						v.Oracle(false, "carousel:depends-on-earlier-queries", fmt.Sprintf("carousel GetLeader(%d) under the same committed head: the long-lived object says %s, an object asked for the first time says %s", view, o[0], first), in)
					case (sc.contig || picks) && !slices.Contains(sc.members, o[0].id):
						v.Oracle(false, "carousel:unknown-replica", fmt.Sprintf("carousel GetLeader(%d) returned %d, configured ids %v; committed head at view %d, its certificate lists the signers %v", view, o[0].id, sc.members, hv, signers), in)
					case picks && !slices.Contains(signers, o[0].id):
						v.Oracle(false, "carousel:not-a-signer", fmt.Sprintf("active carousel chose %d, not a signer of the committed head's certificate %v", o[0].id, signers), in)
					case picks && slices.Contains(last, o[0].id):
						v.Oracle(false, "carousel:recent-proposer", fmt.Sprintf("active carousel chose %d, a proposer of the last f=%d committed blocks %v", o[0].id, f, last), in)
					default:
						v.Oracle(true, "", "", nil)
					}
				}
				sv := sc.seed + int64(view) // the draw the implementation is supposed to make
				tab := fmt.Sprintf("[(%s, %s)]", gZ(sv), gZ(c16Drawn(sv)))
				for i, r := range sc.reps {
					if i == 1 && o[1].same(o[0]) {
						continue // replica B sees the same head term as A; its answer is covered by A's case
					}
					m := map[string]any{"replica": i, "input": in}
					v.Case(s, fmt.Sprintf("(%s, %s, %s, %s, %s, %s)", r.gConfig(), gZ(int64(sc.cl)), tab,
						sc.chain.gHead(k, c16SignerList(sc.head(i, k))), gN(view), o[i].g()), m)
				}
			}
		}
	}
	sizes := []int{1, 2, 3, 4, 5, 6, 7, 10, 13, 16}
	rounds := v.Pick(2, 30)
	for rd := 0; rd < rounds; rd++ {
		for _, n := range sizes {
			for _, cl := range []int{1, 2, 3} {
				length := rng.Intn(13)
				if rd == 0 {
					length = 12
				}
				run(c16NewScenario(rng, n, cl, length, uint64(rng.Intn(5)), 0, "generated"))
			}
		}
	}
	// boundary: views next to 2^64 and 2^63 (round - chainLength and seed + int64(round) wrap), odd chain lengths
	for rd := 0; rd < v.Pick(2, 10); rd++ {
		for _, n := range []int{1, 4, 7, 10} {
			for _, cl := range []int{0, 1, 2, 3, 5, -1} {
				start := []uint64{math.MaxUint64 - 14, 1<<63 - 6, 1<<32 - 6, math.MaxUint64 - 5}[rng.Intn(4)]
				length := 3 + rng.Intn(4)
				run(c16NewScenario(rng, n, cl, length, start, 0, "boundary"))
			}
		}
	}
	// malformed certificates / missing ancestors: compared with the model (including the division by
	// zero on an empty candidate list); the validity oracle does not apply to them
	for rd := 0; rd < v.Pick(2, 12); rd++ {
		for _, n := range []int{1, 3, 4, 7, 10} {
			run(c16NewScenario(rng, n, 1+rng.Intn(3), 2+rng.Intn(8), uint64(rng.Intn(3)), 1, "malformed"))
		}
	}
	// large, non-contiguous replica ids (own ids, signers, proposers): 2^8 .. 2^32-1, ids equal in their low bits
	for rd := 0; rd < v.Pick(2, 12); rd++ {
		for _, n := range []int{2, 4, 7, 10, 16} {
			run(c16NewScenarioIDs(rng, c16BigMembers(rng, n), n, 1+rng.Intn(3), 3+rng.Intn(6), uint64(rng.Intn(5)), rd%2, "large-ids"))
		}
	}
	// forged genesis certificates: the first block (view 1) certifies genesis with view 0 and a made-up signature
	// listing non-members, id 0, repeated or huge ids (stub, wire ECDSA multi-signature, BLS bitfield)
	for rd := 0; rd < v.Pick(3, 12); rd++ {
		for _, n := range []int{4, 7, 10} {
			run(c16NewScenario(rng, n, 1+(rd+n)%3, 2+rng.Intn(4), 0, 3, "forged-genesis-certificate"))
		}
	}
	// crafted certificates: signature without participants (as received over the wire), signer sets that
	// consist of recent proposers only; the first block has view 1 and certifies genesis
	for rd := 0; rd < v.Pick(2, 10); rd++ {
		for _, n := range []int{1, 4, 7, 10} {
			run(c16NewScenario(rng, n, 1+(rd+n)%3, 2+rng.Intn(5), 0, 2, "crafted-certificates"))
		}
	}
}

// ---------------------------------------------------------------------------------------------
// reputation

func c16Bits(x float64) string { return fmt.Sprintf("%d%%Z", math.Float64bits(x)) }

type c16RepState struct {
	prev uint64
	reps map[hotstuff.ID]float64
}

func c16ReadState(lr LeaderRotation) c16RepState {
	r := lr.(*RepBased)
	st := c16RepState{prev: uint64(r.prevCommitHead.View()), reps: map[hotstuff.ID]float64{}}
	for id, x := range r.reputations {
		st.reps[id] = x
	}
	return st
}

func (st c16RepState) g() string {
	ids := make([]hotstuff.ID, 0, len(st.reps))
	for id := range st.reps {
		ids = append(ids, id)
	}
	slices.Sort(ids)
	xs := make([]string, len(ids))
	for i, id := range ids {
		xs[i] = fmt.Sprintf("(%s, %s)", gN(uint64(id)), c16Bits(st.reps[id]))
	}
	return fmt.Sprintf("(%s, %s)", gN(st.prev), gList(xs))
}

func (st c16RepState) String() string {
	ids := make([]hotstuff.ID, 0, len(st.reps))
	for id := range st.reps {
		ids = append(ids, id)
	}
	slices.Sort(ids)
	var sb strings.Builder
	fmt.Fprintf(&sb, "prev=%d", st.prev)
	for _, id := range ids {
		fmt.Fprintf(&sb, " %d:%g", id, st.reps[id])
	}
	return sb.String()
}

// c16RepTables records the float operations and the weighted draw GetLeader is specified to make in this
// step (Go's float64 arithmetic, uint conversion, weightedrand and math/rand are the oracles here).
func c16RepTables(n int, seed int64, view, hv uint64, voters []hotstuff.ID, before, after c16RepState) string {
	numVotes := len(voters)
	frac := float64((2.0 / 3.0) * float64(n))
	reputation := ((float64(numVotes) - frac) / frac)
	incT := fmt.Sprintf("[(%s, %s, %s)]", gNat(numVotes), gZ(int64(n)), c16Bits(reputation))
	var addT, wT []string
	seenW := map[uint64]bool{}
	addW := func(x float64) {
		if b := math.Float64bits(x); !seenW[b] {
			seenW[b] = true
			wT = append(wT, fmt.Sprintf("(%s, %s)", c16Bits(x), gN(uint64(uint(x*10)))))
		}
	}
	uniq := []hotstuff.ID{}
	for _, id := range voters {
		if slices.Contains(uniq, id) {
			continue
		}
		uniq = append(uniq, id)
	}
	seenA := map[[2]uint64]bool{}
	for _, id := range uniq {
		x := before.reps[id]
		// a voter listed k times is credited k times
		for _, id2 := range voters {
			if id2 != id {
				continue
			}
			if k := [2]uint64{math.Float64bits(x), math.Float64bits(reputation)}; !seenA[k] {
				seenA[k] = true
				addT = append(addT, fmt.Sprintf("(%s, %s, %s)", c16Bits(x), c16Bits(reputation), c16Bits(x+reputation)))
			}
			addW(x)
			x += reputation
		}
		addW(x)
		addW(after.reps[id])
	}
	// the draw: the weight of each listed voter right after its own credit, ordered by replica id
	type ww struct {
		id hotstuff.ID
		w  uint
	}
	var ws []ww
	cur := map[hotstuff.ID]float64{}
	for id, x := range before.reps {
		cur[id] = x
	}
	for _, id := range voters {
		if before.prev < hv {
			cur[id] += reputation
		}
		addW(cur[id])
		ws = append(ws, ww{id, uint(cur[id] * 10)})
	}
	sort.SliceStable(ws, func(i, j int) bool { return ws[i].id < ws[j].id })
	choices := make([]wr.Choice, len(ws))
	gws := make([]string, len(ws))
	for i, w := range ws {
		choices[i] = wr.Choice{Item: w.id, Weight: w.w}
		gws[i] = fmt.Sprintf("(%s, %s)", gN(uint64(w.id)), gN(uint64(w.w)))
	}
	sv := seed + int64(view)
	picked := "None"
	if ch, err := wr.NewChooser(choices...); err == nil {
		picked = fmt.Sprintf("(Some %s)", gN(uint64(ch.PickSource(rand.New(rand.NewSource(sv))).(hotstuff.ID))))
	}
	pickT := fmt.Sprintf("[(%s, %s, %s)]", gList(gws), gZ(sv), picked)
	return fmt.Sprintf("(%s, %s, %s, %s)", incT, gList(addT), gList(wT), pickT)
}

func c16Reputation(v *verifOut) {
	s := v.Stream("reputation", "reputation_mismatches", 300)
	rng := v.rng
	run := func(sc *c16Scenario, steps int) {
		var lrs [3]LeaderRotation
		for i, r := range sc.reps {
			lrs[i] = r.rotation(NameReputation, sc.cl)
		}
		// D: a second object on replica A's wiring that sees the same committed heads but is asked another
		// (not old) view before each of A's questions: credits depend on the heads only, so D must answer A's
		// questions like A
		lrD := sc.reps[0].rotation(NameReputation, sc.cl)
		k := -1
		var trace []string
		for step := 0; step < steps; step++ {
			// move the committed head: mostly forward by one, sometimes skip, stay or go back
			switch x := rng.Intn(10); {
			case x < 5:
				k++
			case x < 6:
				k += 2
			case x < 7:
				k--
			}
			k = max(-1, min(k, len(sc.chain.blocks)-1))
			for k >= 0 && !sc.chain.blocks[k].stored {
				k--
			}
			hv := uint64(0)
			var signers []hotstuff.ID
			if k >= 0 {
				hv = sc.chain.blocks[k].view
				signers = sc.chain.blocks[k].signers
			}
			qs := c16Queries(rng, hv, sc.cl, 2)
			view := qs[rng.Intn(len(qs))]
			if rng.Intn(2) == 0 {
				view = hv + uint64(int64(sc.cl))
			}
			for i, r := range sc.reps {
				r.vs.UpdateCommittedBlock(sc.head(i, k))
			}
			wf := signers == nil || c16WellFormed(sc.members, signers)
			var o [3]c16Obs
			var before, after [3]c16RepState
			for i := range lrs {
				before[i] = c16ReadState(lrs[i])
				o[i] = c16Leader(lrs[i], hotstuff.View(view))
				after[i] = c16ReadState(lrs[i])
			}
			old := func(x uint64) bool { return hv > x-uint64(int64(sc.cl)) }
			other := view + 1 + uint64(rng.Intn(6))
			var oD, oD0 c16Obs
			var beforeD, afterD c16RepState
			askedOther := !old(view) && !old(other)
			if askedOther {
				beforeD = c16ReadState(lrD)
				oD0 = c16Leader(lrD, hotstuff.View(other))
				afterD = c16ReadState(lrD)
			}
			oD = c16Leader(lrD, hotstuff.View(view))
			trace = append(trace, fmt.Sprintf("head=%d(view %d) GetLeader(%d) -> %s / %s / %s", k, hv, view, o[0], o[1], o[2]))
			in := sc.describe(k, view)
			in["answers"] = []string{o[0].String(), o[1].String(), o[2].String()}
			in["step"] = step
			in["query_trace"] = slices.Clone(trace)
			in["reputations_before"] = []string{before[0].String(), before[1].String(), before[2].String()}
			picked := signers != nil && !(hv > view-uint64(int64(sc.cl)))
			v.Seen(fmt.Sprintf("rep n=%d cl=%d seed=%d %v step=%d", sc.n, sc.cl, sc.seed, in["committed_chain"], step)+strings.Join(trace, ";"), picked && sc.n >= 4, in)
			if picked && wf && !o[0].panicked && o[0].id == 0 {
				// RepBased's "no answer": every voter's weight uint(reputation*10) is 0 (weightedrand refuses)
				v.Count("reputation_no_leader_all_weights_zero")
			}
			switch {
			case picked:
				v.Count("reputation_weighted_pick")
			case signers == nil && !(hv > view-uint64(int64(sc.cl))):
				v.Count("reputation_startup_round_robin")
			default:
				v.Count("reputation_old_view")
			}
			if o[0].panicked || o[1].panicked || o[2].panicked || oD.panicked {
				v.Oracle(false, "reputation:panic", fmt.Sprintf("reputation GetLeader(%d) panicked (%s) under a committed head at view %d whose certificate lists the signers %v", view, c16FirstMsg(o[0], o[1], o[2], oD), hv, signers), in)
			} else if !wf && !(k == 0 && signers != nil && sc.reps[0].auth.VerifyQuorumCert(sc.head(0, k).QuorumCert()) == nil) {
				v.Count("reputation_malformed_certificate")
				v.Oracle(true, "", "", nil)
			} else {
				switch {
				case o[0].panicked || o[1].panicked || o[2].panicked:
					v.Oracle(false, "reputation:panic", fmt.Sprintf("reputation GetLeader(%d) panicked: %s %s %s", view, o[0].msg, o[1].msg, o[2].msg), in)
				case o[0].id != o[1].id:
					v.Oracle(false, "reputation:depends-on-own-id", fmt.Sprintf("reputation GetLeader(%d): replica %d says %d, replica %d says %d (same heads, same queries, same seed)", view, sc.reps[0].id, o[0].id, sc.reps[1].id, o[1].id), in)
				case !oD.same(o[0]):
					v.Oracle(false, "reputation:depends-on-queried-views", fmt.Sprintf("reputation GetLeader(%d): an object that saw the same committed heads but was asked other (not old) views in between says %s, replica %d says %s", view, oD, sc.reps[0].id, o[0]), in)
				case o[1].id != o[2].id:
					v.Oracle(false, "reputation:depends-on-signer-order", fmt.Sprintf("reputation GetLeader(%d): replica %d says %d, replica %d (same certificate signers in another order, same heads and queries) says %d", view, sc.reps[1].id, o[1].id, sc.reps[2].id, o[2].id), in)
				default:
					v.Oracle(true, "", "", nil)
				}
			}
			if askedOther && step%2 == 0 {
				voters := c16SignerList(sc.head(0, k))
				tabs := "([], [], [], [])"
				if voters != nil {
					tabs = c16RepTables(sc.reps[0].cfg.ReplicaCount(), sc.seed, other, hv, voters, beforeD, afterD)
				}
				v.Case(s, fmt.Sprintf("(%s, %s, %s, %s, %s, %s, %s, %s)", sc.reps[0].gConfig(), gZ(int64(sc.cl)), tabs, beforeD.g(),
					sc.chain.gHead(k, voters), gN(other), oD0.g(), afterD.g()), map[string]any{"replica": "D (other views first)", "input": in})
			}
			for i := range sc.reps {
				if k >= 0 && fmt.Sprint(c16SignerList(sc.head(i, k))) != sc.listed[i][k] {
					v.Oracle(false, "reputation:mutates-certificate", fmt.Sprintf("GetLeader(%d) changed the signer list of the committed head's certificate from %s to %v", view, sc.listed[i][k], c16SignerList(sc.head(i, k))), in)
				}
			}
			for i, r := range sc.reps {
				if i == 1 && o[1].same(o[0]) && before[1].g() == before[0].g() && after[1].g() == after[0].g() {
					continue // replica B: same head term, same states and same answer as A
				}
				voters := c16SignerList(sc.head(i, k))
				tabs := "([], [], [], [])"
				if voters != nil {
					tabs = c16RepTables(sc.n, sc.seed, view, hv, voters, before[i], after[i])
				}
				m := map[string]any{"replica": i, "input": in}
				if wf && o[1].same(o[0]) && !o[2].same(o[1]) {
					m["fingerprint"] = "reputation:depends-on-signer-order"
				}
				v.Case(s, fmt.Sprintf("(%s, %s, %s, %s, %s, %s, %s, %s)", r.gConfig(), gZ(int64(sc.cl)), tabs, before[i].g(),
					sc.chain.gHead(k, voters), gN(view), o[i].g(), after[i].g()), m)
			}
		}
	}
	sizes := []int{1, 2, 3, 4, 5, 7, 10, 13}
	for rd := 0; rd < v.Pick(3, 30); rd++ {
		for _, n := range sizes {
			for _, cl := range []int{1, 2, 3} {
				run(c16NewScenario(rng, n, cl, 4+rng.Intn(9), uint64(rng.Intn(5)), 0, "generated"), 11)
			}
		}
	}
	for rd := 0; rd < v.Pick(1, 6); rd++ {
		for _, n := range []int{4, 7} {
			for _, cl := range []int{0, 1, 3, -1} {
				start := []uint64{math.MaxUint64 - 14, 1<<63 - 6, math.MaxUint64 - 5}[rng.Intn(3)]
				run(c16NewScenario(rng, n, cl, 3+rng.Intn(4), start, 0, "boundary"), 8)
			}
		}
	}
	for rd := 0; rd < v.Pick(2, 12); rd++ {
		for _, n := range []int{1, 3, 4, 7} {
			run(c16NewScenario(rng, n, 1+rng.Intn(3), 3+rng.Intn(6), uint64(rng.Intn(3)), 1, "malformed"), 10)
		}
	}
	for rd := 0; rd < v.Pick(2, 12); rd++ {
		for _, n := range []int{2, 4, 7, 13} {
			run(c16NewScenarioIDs(rng, c16BigMembers(rng, n), n, 1+rng.Intn(3), 4+rng.Intn(6), uint64(rng.Intn(5)), 0, "large-ids"), 10)
		}
	}
	for rd := 0; rd < v.Pick(1, 6); rd++ {
		for _, n := range []int{1, 4, 7} {
			run(c16NewScenario(rng, n, 1+(rd+n)%3, 2+rng.Intn(5), 0, 2, "crafted-certificates"), 8)
		}
	}
	for rd := 0; rd < v.Pick(1, 6); rd++ {
		for _, n := range []int{4, 7} {
			run(c16NewScenario(rng, n, 1+(rd+n)%3, 2+rng.Intn(4), 0, 3, "forged-genesis-certificate"), 8)
		}
	}
}

// ---------------------------------------------------------------------------------------------
// membership that grows after the rotation objects exist (network.Sender.Connect adds the replicas after
// every component has been wired): an object created, and possibly already asked, while only the first k
// replicas were configured must answer like an object created after all n are known.

func c16Growth(v *verifOut) {
	ss := v.Stream("stateless", "stateless_mismatches", 60)
	sc_ := v.Stream("carousel", "carousel_mismatches", 400)
	sr := v.Stream("reputation", "reputation_mismatches", 300)
	rng := v.rng
	pairs := [][2]int{{0, 1}, {0, 4}, {1, 4}, {3, 4}, {4, 7}, {2, 10}, {6, 7}, {4, 13}, {0, 7}, {5, 6}}
	views := []uint64{0, 1, 2, 3, 5, 6, 7, 11, 12, 13, 41, 1<<32 - 1, 1 << 32, 1<<63 + 1, math.MaxUint64 - 1, math.MaxUint64}
	for pi, pr := range pairs {
		for _, askBefore := range []bool{false, true} {
			k, n := pr[0], pr[1]
			cl := 1 + (pi % 3)
			seed := c16Seed(rng)
			var treePos []hotstuff.ID
			if pi%2 == 0 {
				for _, p := range rng.Perm(n) {
					treePos = append(treePos, hotstuff.ID(p+1))
				}
			}
			own := hotstuff.ID(1 + rng.Intn(n))
			g := c16NewReplicaIDs(own, c16OneTo(k), seed, treePos) // long-lived: wired with k replicas
			chain := c16GenChain(rng, n, 6+rng.Intn(4), uint64(rng.Intn(4)), 0, nil)
			gBlocks := chain.build(g, c16Same, true, 0)
			names := []string{NameRoundRobin, NameFixed, NameTree, NameCarousel, NameReputation}
			gls := map[string]LeaderRotation{}
			for _, nm := range names {
				gls[nm] = g.rotation(nm, cl)
			}
			gScheme := map[string]string{NameRoundRobin: "SRoundRobin", NameFixed: "(SFixed 1%N)", NameTree: "STree"}
			headAt := func(r *c16Replica, blocks []*hotstuff.Block, h int) (uint64, []hotstuff.ID) {
				if h < 0 {
					r.vs.UpdateCommittedBlock(hotstuff.GetGenesis())
					return 0, nil
				}
				r.vs.UpdateCommittedBlock(blocks[h])
				return chain.blocks[h].view, chain.blocks[h].signers
			}
			emitCarousel := func(r *c16Replica, h int, view uint64, o c16Obs, meta map[string]any) {
				sv := seed + int64(view)
				var voters []hotstuff.ID
				if h >= 0 {
					voters = chain.blocks[h].signers
				}
				v.Case(sc_, fmt.Sprintf("(%s, %s, [(%s, %s)], %s, %s, %s)", r.gConfig(), gZ(int64(cl)), gZ(sv), gZ(c16Drawn(sv)),
					chain.gHead(h, voters), gN(view), o.g()), meta)
			}
			askRep := func(r *c16Replica, lr LeaderRotation, h int, hv, view uint64, meta map[string]any) c16Obs {
				before := c16ReadState(lr)
				o := c16Leader(lr, hotstuff.View(view))
				after := c16ReadState(lr)
				var voters []hotstuff.ID
				if h >= 0 {
					voters = chain.blocks[h].signers
				}
				tabs := "([], [], [], [])"
				if voters != nil {
					tabs = c16RepTables(r.cfg.ReplicaCount(), seed, view, hv, voters, before, after)
				}
				v.Case(sr, fmt.Sprintf("(%s, %s, %s, %s, %s, %s, %s, %s)", r.gConfig(), gZ(int64(cl)), tabs, before.g(),
					chain.gHead(h, voters), gN(view), o.g(), after.g()), meta)
				return o
			}
			base := map[string]any{"scenario": "membership-growth", "configured_when_created": k, "configured_when_asked": n, "asked_before_growth": askBefore,
				"own_id": uint32(own), "chain_length_param": cl, "shared_seed": seed, "tree_positions": fmt.Sprint(treePos)}
			if askBefore {
				// questions while only k replicas are known (model: c_n = k; round-robin with k = 0 divides by zero)
				hv, _ := headAt(g, gBlocks, 1)
				m := map[string]any{"stage": "before growth", "input": base}
				for _, view := range []uint64{hv + uint64(cl), 3, 7} {
					for nm, gs := range gScheme {
						c16Segments(v, ss, gs, g, nil, view, []c16Obs{c16Leader(gls[nm], hotstuff.View(view))}, m)
					}
					emitCarousel(g, 1, view, c16Leader(gls[NameCarousel], hotstuff.View(view)), m)
					if k >= 1 {
						askRep(g, gls[NameReputation], 1, hv, view, m)
					}
					v.Seen(fmt.Sprintf("grow-before k=%d n=%d v=%d %v", k, n, view, askBefore), true, nil)
					v.Count("growth_asked_before")
				}
			}
			var added []hotstuff.ID
			for i := k + 1; i <= n; i++ {
				added = append(added, hotstuff.ID(i))
			}
			g.addReplicas(added)
			// the reference: wired after the membership is complete
			f := c16NewReplicaIDs(own, c16OneTo(n), seed, treePos)
			fBlocks := chain.build(f, c16Same, true, 0)
			fls := map[string]LeaderRotation{}
			for _, nm := range names {
				fls[nm] = f.rotation(nm, cl)
			}
			for h := -1; h < len(chain.blocks); h++ {
				hv, signers := headAt(g, gBlocks, h)
				headAt(f, fBlocks, h)
				qs := append([]uint64{hv + uint64(cl), hv + uint64(cl) + 1}, views[rng.Intn(len(views))], views[rng.Intn(len(views))])
				for _, view := range qs {
					in := map[string]any{"queried_view": view, "committed_head_index": h, "committed_head_view": hv, "head_signers": fmt.Sprint(signers)}
					for kk, x := range base {
						in[kk] = x
					}
					m := map[string]any{"stage": "after growth", "input": in}
					v.Seen(fmt.Sprintf("grow k=%d n=%d h=%d v=%d %v seed=%d", k, n, h, view, askBefore, seed), n >= 4, in)
					v.Count("growth_asked_after")
					for _, nm := range names {
						if nm == NameReputation {
							continue
						}
						og, of := c16Leader(gls[nm], hotstuff.View(view)), c16Leader(fls[nm], hotstuff.View(view))
						in["answers_"+nm] = []string{og.String(), of.String()}
						switch {
						case og.panicked || of.panicked:
							v.Oracle(false, nm+":panic", fmt.Sprintf("%s GetLeader(%d) panicked after the membership grew from %d to %d: %s %s", nm, view, k, n, og.msg, of.msg), in)
						case !og.same(of):
							v.Oracle(false, nm+":stale-replica-count", fmt.Sprintf("%s GetLeader(%d) with %d replicas configured: the object created when %d were known says %s, an object created afterwards says %s", nm, view, n, k, og, of), in)
						case og.id < 1 || int(og.id) > n:
							v.Oracle(false, nm+":unknown-replica", fmt.Sprintf("%s GetLeader(%d) returned %d with n=%d", nm, view, og.id, n), in)
						default:
							v.Oracle(true, "", "", nil)
						}
						if gs, ok := gScheme[nm]; ok {
							c16Segments(v, ss, gs, g, nil, view, []c16Obs{og}, m)
						} else {
							emitCarousel(g, h, view, og, m)
						}
					}
					// reputation: both objects see the same heads and questions from here on; their credits can
					// only be compared when the long-lived one was not asked (and credited) before the growth
					og := askRep(g, gls[NameReputation], h, hv, view, m)
					of := c16Leader(fls[NameReputation], hotstuff.View(view))
					in["answers_reputation"] = []string{og.String(), of.String()}
					switch {
					case og.panicked || of.panicked:
						v.Oracle(false, "reputation:panic", fmt.Sprintf("reputation GetLeader(%d) panicked after the membership grew from %d to %d: %s %s", view, k, n, og.msg, of.msg), in)
					case !askBefore && !og.same(of):
						v.Oracle(false, "reputation:stale-replica-count", fmt.Sprintf("reputation GetLeader(%d) with %d replicas configured: the object created when %d were known says %s, an object created afterwards and asked the same questions says %s", view, n, k, og, of), in)
					default:
						v.Oracle(true, "", "", nil)
					}
				}
			}
		}
	}
	// fixed leader and tree positions with large, non-contiguous ids (round-robin assumes ids 1..n by design)
	for rd := 0; rd < 4; rd++ {
		n := []int{2, 5, 9, 16}[rd]
		members := c16BigMembers(rng, n)
		pos := slices.Clone(members)
		rng.Shuffle(n, func(i, j int) { pos[i], pos[j] = pos[j], pos[i] })
		a := c16NewReplicaIDs(members[0], members, 0, pos)
		b := c16NewReplicaIDs(members[n-1], members, 0, pos)
		lead := members[rng.Intn(n)]
		for _, sch := range []struct {
			name, g string
			la, lb  LeaderRotation
		}{
			{"tree-leader", "STree", a.rotation(NameTree, 1), b.rotation(NameTree, 1)},
			{"fixed", fmt.Sprintf("(SFixed %s)", gN(uint64(lead))), NewFixed(lead), NewFixed(lead)},
		} {
			for _, view := range views {
				oa, ob := c16Leader(sch.la, hotstuff.View(view)), c16Leader(sch.lb, hotstuff.View(view))
				in := map[string]any{"scheme": sch.name, "configured_ids": fmt.Sprint(members), "tree_positions": fmt.Sprint(pos), "view": view, "answers": []string{oa.String(), ob.String()}}
				v.Seen(fmt.Sprintf("big %s %v v=%d", sch.name, members, view), true, in)
				v.Count("stateless_large_ids")
				switch {
				case oa.panicked || ob.panicked:
					v.Oracle(false, "stateless:panic", fmt.Sprintf("%s GetLeader(%d) panicked: %s %s", sch.name, view, oa.msg, ob.msg), in)
				case !oa.same(ob):
					v.Oracle(false, "stateless:replicas-disagree", fmt.Sprintf("%s GetLeader(%d): replica %d says %s, replica %d says %s", sch.name, view, a.id, oa, b.id, ob), in)
				case !slices.Contains(members, oa.id):
					v.Oracle(false, "stateless:unknown-replica", fmt.Sprintf("%s GetLeader(%d) returned %d, configured ids %v", sch.name, view, oa.id, members), in)
				default:
					v.Oracle(true, "", "", nil)
				}
				c16Segments(v, ss, sch.g, a, nil, view, []c16Obs{oa}, map[string]any{"input": in})
				c16Segments(v, ss, sch.g, b, nil, view, []c16Obs{ob}, map[string]any{"input": in})
			}
		}
	}
}

// ---------------------------------------------------------------------------------------------
// several rotation objects in one process: the answers of one object must not depend on what other objects
// (other replicas in the same process: twins, tests, the orchestration worker) are asked at the same time.
//   solo        - one object runs a script of (committed head, queried view) alone: the reference
//   concurrent  - several separately wired objects (own ids, own storage, signer lists in their own order)
//                 run the same script, each on its own goroutine, started together
//   interleaved - on ONE goroutine, between any two calls of object X another object Y (other chain, other
//                 seed) is asked about other views

type c16Step struct {
	k    int // committed head: index into the chain, -1 = genesis
	view uint64
}

func c16Script(rng *rand.Rand, chain *c16Chain, cl int) []c16Step {
	var out []c16Step
	for k := -1; k < len(chain.blocks); k++ {
		hv := uint64(0)
		if k >= 0 {
			hv = chain.blocks[k].view
		}
		act := hv + uint64(int64(cl))
		for _, view := range []uint64{act, act, act + 1, act + uint64(rng.Intn(9)), act, uint64(rng.Intn(30)), act + 2, act} {
			out = append(out, c16Step{k, view})
		}
	}
	return out
}

type c16Actor struct {
	r      *c16Replica
	blocks []*hotstuff.Block
	lr     LeaderRotation
}

func c16NewActor(id hotstuff.ID, n int, seed int64, chain *c16Chain, perm func([]hotstuff.ID) []hotstuff.ID, flavour int, scheme string, cl int) *c16Actor {
	r := c16NewReplica(id, n, seed, nil)
	return &c16Actor{r: r, blocks: chain.build(r, perm, true, flavour), lr: r.rotation(scheme, cl)}
}

func (a *c16Actor) ask(st c16Step) c16Obs {
	if st.k < 0 {
		a.r.vs.UpdateCommittedBlock(hotstuff.GetGenesis())
	} else {
		a.r.vs.UpdateCommittedBlock(a.blocks[st.k])
	}
	return c16Leader(a.lr, hotstuff.View(st.view))
}

func (a *c16Actor) run(script []c16Step) []c16Obs {
	out := make([]c16Obs, len(script))
	for i, st := range script {
		out[i] = a.ask(st)
	}
	return out
}

func c16Concurrent(v *verifOut) {
	sc_ := v.Stream("carousel", "carousel_mismatches", 400)
	rng := v.rng
	if runtime.GOMAXPROCS(0) < 4 {
		defer runtime.GOMAXPROCS(runtime.GOMAXPROCS(4))
	}
	const actors = 8
	for _, scheme := range []string{NameCarousel, NameReputation} {
		for rd := 0; rd < v.Pick(6, 40); rd++ {
			n := []int{4, 7, 10, 13}[rd%4]
			cl := 1 + rd%3
			seed := c16Seed(rng)
			chain := c16GenChain(rng, n, 8+rng.Intn(5), uint64(rng.Intn(4)), 0, nil)
			script := c16Script(rng, chain, cl)
			solo := c16NewActor(1, n, seed, chain, c16Same, 0, scheme, cl)
			want := solo.run(script)
			loops := 1
			if scheme == NameCarousel {
				loops = v.Pick(12, 40) // the carousel has no state: every actor repeats the script
			}
			describe := func(i int) map[string]any {
				st := script[i]
				m := map[string]any{"scheme": scheme, "n": n, "chain_length_param": cl, "shared_seed": seed, "script_position": i, "script_length": len(script),
					"committed_head_index": st.k, "queried_view": st.view, "answer_when_run_alone": want[i].String()}
				var bl []map[string]any
				for j := 0; j <= st.k; j++ {
					b := chain.blocks[j]
					bl = append(bl, map[string]any{"view": b.view, "proposer": uint32(b.proposer), "qc_signers": fmt.Sprint(b.signers)})
				}
				m["committed_chain"] = bl
				return m
			}
			for i, st := range script {
				v.Seen(fmt.Sprintf("conc %s n=%d cl=%d seed=%d rd=%d i=%d", scheme, n, cl, seed, rd, i), true, nil)
				if scheme == NameCarousel && rd < 2 {
					sv := seed + int64(st.view)
					var voters []hotstuff.ID
					if st.k >= 0 {
						voters = c16SignerList(solo.blocks[st.k])
					}
					v.Case(sc_, fmt.Sprintf("(%s, %s, [(%s, %s)], %s, %s, %s)", solo.r.gConfig(), gZ(int64(cl)), gZ(sv), gZ(c16Drawn(sv)),
						chain.gHead(st.k, voters), gN(st.view), want[i].g()), map[string]any{"replica": "solo", "input": describe(i)})
				}
			}
			// concurrent: separately wired objects, one goroutine each, released together
			as := make([]*c16Actor, actors)
			for g := range as {
				perm := c16Same
				if g%2 == 1 {
					perm = c16Shuffled(rand.New(rand.NewSource(int64(rd*100 + g))))
				}
				as[g] = c16NewActor(hotstuff.ID(g%n+1), n, seed, chain, perm, g%2, scheme, cl)
			}
			got := make([][][]c16Obs, actors)
			var start, done sync.WaitGroup
			start.Add(1)
			for g := range as {
				done.Add(1)
				go func(g int) {
					defer done.Done()
					start.Wait()
					for l := 0; l < loops; l++ {
						got[g] = append(got[g], as[g].run(script))
					}
				}(g)
			}
			start.Done()
			done.Wait()
			bad := false
			for g := range got {
				for l := range got[g] {
					for i := range script {
						v.Count("concurrent_" + scheme)
						if !got[g][l][i].same(want[i]) && !bad {
							bad = true
							in := describe(i)
							in["concurrent_objects"] = actors
							in["object"] = g
							in["repetition"] = l
							in["answer_when_run_concurrently"] = got[g][l][i].String()
							v.Oracle(false, scheme+":concurrent-instances-disagree", fmt.Sprintf("%s GetLeader(%d) under the same committed head and seed: an object running alone says %s, one of %d separately wired objects running the same script on their own goroutines says %s", scheme, script[i].view, want[i], actors, got[g][l][i]), in)
						}
					}
				}
			}
			if !bad {
				v.Oracle(true, "", "", nil)
			}
			// interleaved on one goroutine: Y (another chain, another seed) is asked between X's calls
			x := c16NewActor(hotstuff.ID(n), n, seed, chain, c16Shuffled(rand.New(rand.NewSource(int64(rd)))), 1, scheme, cl)
			// Y's chain has the same block views (so the same rounds are active) but its own proposers and signers
			otherChain := c16GenChain(rng, n, len(chain.blocks), 1, 0, nil)
			for j := range otherChain.blocks {
				otherChain.blocks[j].view = chain.blocks[j].view
			}
			y := c16NewActor(2, n, seed+12345, otherChain, c16Same, 0, scheme, cl)
			yScript := c16Script(rng, otherChain, cl)
			bad = false
			for i, st := range script {
				y.ask(st) // the same question, about another chain with another seed, right before X's
				o := x.ask(st)
				y.ask(yScript[(3*i)%len(yScript)])
				v.Count("interleaved_" + scheme)
				if !o.same(want[i]) && !bad {
					bad = true
					in := describe(i)
					in["answer_when_interleaved"] = o.String()
					v.Oracle(false, scheme+":other-instance-interferes", fmt.Sprintf("%s GetLeader(%d): an object running alone says %s, the same script with another object (other chain, other seed) asked in between says %s", scheme, st.view, want[i], o), in)
				}
			}
			if !bad {
				v.Oracle(true, "", "", nil)
			}
		}
	}
}

// ---------------------------------------------------------------------------------------------
// a commit that lands while GetLeader is running: the committed head is read by the scheme and written by the
// committer; a query during which the head moves from H to H' must be answered as by a replica that saw H'
// just BEFORE the query or just AFTER it -- one of the two, and the replica must continue as that one.
// The head is switched at the j-th moment harness code runs inside the call (c16Trip), for every j.

type c16MidRun struct {
	a1, a2          c16Obs
	before1, after1 c16RepState
	events          int
}

func c16MidCall(v *verifOut) {
	sc_ := v.Stream("carousel", "carousel_mismatches", 400)
	sr := v.Stream("reputation", "reputation_mismatches", 300)
	rng := v.rng
	for _, scheme := range []string{NameCarousel, NameReputation} {
		for rd := 0; rd < v.Pick(4, 24); rd++ {
			n := []int{4, 7, 10, 13}[rd%4]
			cl := 1 + rd%3
			seed := c16Seed(rng)
			chain := c16GenChain(rng, n, 6+rng.Intn(4), uint64(rng.Intn(3)), 0, nil)
			own := hotstuff.ID(1 + rng.Intn(n))
			// one run: warm up under heads 0..k (one question each), then q1 = GetLeader(view) with the head
			// moving from k to k2 at moment `at` (-1: before the call, -2: after the call), then q2 under k2
			run := func(k, k2 int, view, view2 uint64, at int) c16MidRun {
				a := c16NewActor(own, n, seed, chain, c16Same, 0, scheme, cl)
				for h := 0; h <= k; h++ {
					a.ask(c16Step{h, chain.blocks[h].view + uint64(int64(cl))})
				}
				a.r.vs.UpdateCommittedBlock(a.blocks[k])
				if at == -1 {
					a.r.vs.UpdateCommittedBlock(a.blocks[k2])
				}
				var out c16MidRun
				if scheme == NameReputation {
					out.before1 = c16ReadState(a.lr)
				}
				*a.r.trip = c16Trip{armed: true, at: at, fire: func() { a.r.vs.UpdateCommittedBlock(a.blocks[k2]) }}
				out.a1 = c16Leader(a.lr, hotstuff.View(view))
				out.events = a.r.trip.count
				a.r.trip.armed = false
				if scheme == NameReputation {
					out.after1 = c16ReadState(a.lr)
				}
				a.r.vs.UpdateCommittedBlock(a.blocks[k2])
				out.a2 = c16Leader(a.lr, hotstuff.View(view2))
				return out
			}
			for t := 0; t < 3; t++ {
				k := rng.Intn(len(chain.blocks) - 2)
				k2 := k + 1 + rng.Intn(2)
				hv, hv2 := chain.blocks[k].view, chain.blocks[k2].view
				view2 := hv2 + uint64(int64(cl)) + 1
				for _, view := range []uint64{hv2 + uint64(int64(cl)), hv + uint64(int64(cl)), hv2 + uint64(int64(cl)) + 2} {
					after := run(k, k2, view, view2, -2)  // the new head arrives just after the query
					before := run(k, k2, view, view2, -1) // ... just before it
					var js []int
					for j := 0; j < after.events; j++ {
						if after.events <= 10 || j < 4 || j >= after.events-2 || j == after.events/2 {
							js = append(js, j)
						}
					}
					for _, j := range js {
						mid := run(k, k2, view, view2, j)
						in := map[string]any{"scheme": scheme, "n": n, "own_id": uint32(own), "chain_length_param": cl, "shared_seed": seed,
							"old_head":     map[string]any{"index": k, "view": hv, "qc_signers": fmt.Sprint(chain.blocks[k].signers)},
							"new_head":     map[string]any{"index": k2, "view": hv2, "qc_signers": fmt.Sprint(chain.blocks[k2].signers)},
							"queried_view": view, "follow_up_view": view2, "head_switched_at_moment": j, "moments_in_call": after.events,
							"answers_mid_call":             []string{mid.a1.String(), mid.a2.String()},
							"answers_new_head_just_before": []string{before.a1.String(), before.a2.String()},
							"answers_new_head_just_after":  []string{after.a1.String(), after.a2.String()}}
						var bl []map[string]any
						for i := 0; i <= k2; i++ {
							b := chain.blocks[i]
							bl = append(bl, map[string]any{"view": b.view, "proposer": uint32(b.proposer), "qc_signers": fmt.Sprint(b.signers)})
						}
						in["committed_chain"] = bl
						v.Seen(fmt.Sprintf("mid %s n=%d cl=%d seed=%d k=%d k2=%d v=%d j=%d", scheme, n, cl, seed, k, k2, view, j), true, in)
						v.Count("head_changes_during_call_" + scheme)
						likeAfter := mid.a1.same(after.a1) && mid.a2.same(after.a2) && (scheme != NameReputation || mid.after1.g() == after.after1.g())
						likeBefore := mid.a1.same(before.a1) && mid.a2.same(before.a2) && (scheme != NameReputation || mid.after1.g() == before.after1.g())
						switch {
						case mid.a1.panicked || mid.a2.panicked:
							v.Oracle(false, scheme+":panic", fmt.Sprintf("%s GetLeader(%d) panicked (%s) when the committed head moved from view %d to view %d during the call", scheme, view, c16FirstMsg(mid.a1, mid.a2), hv, hv2), in)
						case !likeAfter && !likeBefore:
							v.Oracle(false, scheme+":head-changed-during-call", fmt.Sprintf("%s GetLeader(%d) while the committed head moves from view %d to view %d, then GetLeader(%d): answers %s, %s; a replica that saw the new head just before the query answers %s, %s, one that saw it just after answers %s, %s", scheme, view, hv, hv2, view2, mid.a1, mid.a2, before.a1, before.a2, after.a1, after.a2), in)
						default:
							v.Oracle(true, "", "", nil)
						}
						// kernel: the first answer (and state change) is the model's step under one of the two heads
						hk := k
						if !likeAfter && likeBefore {
							hk = k2
						}
						voters := chain.blocks[hk].signers
						m := map[string]any{"replica": "head changes during the call", "modelled_under_head": hk, "input": in}
						cfg := c16NewReplica(own, n, seed, nil).gConfig()
						if scheme == NameCarousel {
							sv := seed + int64(view)
							v.Case(sc_, fmt.Sprintf("(%s, %s, [(%s, %s)], %s, %s, %s)", cfg, gZ(int64(cl)), gZ(sv), gZ(c16Drawn(sv)),
								chain.gHead(hk, voters), gN(view), mid.a1.g()), m)
						} else {
							tabs := c16RepTables(n, seed, view, chain.blocks[hk].view, voters, mid.before1, mid.after1)
							v.Case(sr, fmt.Sprintf("(%s, %s, %s, %s, %s, %s, %s, %s)", cfg, gZ(int64(cl)), tabs, mid.before1.g(),
								chain.gHead(hk, voters), gN(view), mid.a1.g(), mid.after1.g()), m)
						}
					}
				}
			}
		}
	}
}

func TestVerifC16(t *testing.T) {
	v := verifNew("C16")
	c16Stateless(v)
	c16Carousel(v)
	c16Reputation(v)
	c16Growth(v)
	c16Concurrent(v)
	c16MidCall(v)
	v.Close("stateless: every (scheme, n in 1..64, view in grid) on two replicas; carousel/reputation: every (committed chain, head, queried view) on three replicas plus a first-time asker / an object asked other views; membership growth k -> n after the objects exist (all five schemes); large non-contiguous ids; 8 separately wired carousel / reputation objects on their own goroutines and interleaved on one goroutine vs. an object running alone; non-trivial = n >= 2 and view >= n (stateless), active carousel / weighted pick with n >= 4")
}

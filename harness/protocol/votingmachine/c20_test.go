package votingmachine

// C20, "every component uses the same threshold for the configured membership": the voting
// machine. A voting machine created on a configuration of n0 replicas collects k0 genuine votes
// for a block, the configuration grows to n1 replicas, further genuine votes of distinct members
// arrive one by one: a QC must be emitted exactly when the number of collected votes reaches
// QuorumSize(n1), and the QC must verify at a replica that knows the n1 members.
//
// Stream "split" (equivocating proposer): two or three DIFFERENT blocks of one view reach the collector and the
// votes of distinct replicas are split between them. The threshold applies to the votes FOR THE CERTIFIED
// BLOCK: a QC for block X is emitted exactly when the number of distinct valid votes for X reaches QuorumSize(n),
// it lists only voters of X and verifies with a real Authority. Every split a/b (a/b/c) with each part below the
// quorum and the total at least the quorum, in several interleavings (one block after the other, both ways,
// alternating, the quorum-th vote overall being for the minority block), followed where replicas are left by
// further votes that do complete one block (votes counted for another block must not have been lost or
// consumed), plus the control in which one block does get a quorum while the other collects votes too.

import (
	"context"
	"fmt"
	"io"
	"testing"

	"github.com/relab/hotstuff"
	"github.com/relab/hotstuff/core"
	"github.com/relab/hotstuff/core/eventloop"
	"github.com/relab/hotstuff/core/logging"
	"github.com/relab/hotstuff/internal/proto/clientpb"
	"github.com/relab/hotstuff/protocol"
	"github.com/relab/hotstuff/security/blockchain"
	"github.com/relab/hotstuff/security/cert"
	"github.com/relab/hotstuff/security/crypto"
	"github.com/relab/hotstuff/security/crypto/keygen"
)

type c20Sender struct{}

func (c20Sender) NewView(hotstuff.ID, hotstuff.SyncInfo) error { return nil }
func (c20Sender) Vote(hotstuff.ID, hotstuff.PartialCert) error { return nil }
func (c20Sender) Timeout(hotstuff.TimeoutMsg)                  {}
func (c20Sender) Propose(*hotstuff.ProposeMsg)                 {}
func (c20Sender) RequestBlock(context.Context, hotstuff.Hash) (*hotstuff.Block, bool) {
	return nil, false
}
func (s c20Sender) Sub([]hotstuff.ID) (core.Sender, error) { return s, nil }

func TestVerifC20(t *testing.T) {
	v := verifNew("C20")
	s := v.Stream("votes", "thr_mismatches", 2000)
	maxN := v.Pick(10, 16)
	logger := logging.NewWithDest(io.Discard, "c20")
	keys := make([]hotstuff.PrivateKey, maxN+1)
	for i := 1; i <= maxN; i++ {
		k, err := keygen.GenerateECDSAPrivateKey()
		if err != nil {
			t.Fatal(err)
		}
		keys[i] = k
	}
	g := hotstuff.GetGenesis()
	block := hotstuff.NewBlock(g.Hash(), hotstuff.NewQuorumCert(nil, 0, g.Hash()), &clientpb.Batch{Commands: []*clientpb.Command{{Data: []byte("c20")}}}, 3, 1)
	// three different blocks of one and the same view (an equivocating proposer), for the split stream
	var eq [3]*hotstuff.Block
	for x := range eq {
		eq[x] = hotstuff.NewBlock(g.Hash(), hotstuff.NewQuorumCert(nil, 0, g.Hash()), &clientpb.Batch{Commands: []*clientpb.Command{{Data: []byte{'e', 'q', byte('A' + x)}}}}, 4, 2)
	}
	mkAuth := func(id, n int) (*core.RuntimeConfig, *cert.Authority, *blockchain.Blockchain, *eventloop.EventLoop) {
		cfg := core.NewRuntimeConfig(hotstuff.ID(id), keys[id], core.WithSyncVerification())
		for j := 1; j <= n; j++ {
			cfg.AddReplica(&hotstuff.ReplicaInfo{ID: hotstuff.ID(j), PubKey: keys[j].Public()})
		}
		el := eventloop.New(logger, 1000)
		bc := blockchain.New(el, logger, c20Sender{})
		bc.Store(block)
		for _, b := range eq {
			bc.Store(b)
		}
		base, err := crypto.New(cfg, crypto.NameECDSA)
		if err != nil {
			t.Fatal(err)
		}
		return cfg, cert.NewAuthority(cfg, bc, base), bc, el
	}
	// genuine votes of every member
	votes := make([]hotstuff.PartialCert, maxN+1)
	for i := 1; i <= maxN; i++ {
		_, a, _, _ := mkAuth(i, maxN)
		pc, err := a.CreatePartialCert(block)
		if err != nil {
			t.Fatal(err)
		}
		votes[i] = pc
	}
	for n0 := 1; n0 <= maxN; n0++ {
		for n1 := n0; n1 <= maxN; n1++ {
			if n1 < 2 {
				// a single signature cannot be turned into a certificate (Combine wants two or more,
				// see C02/C09: completeness holds for n >= 2); nothing to observe for n = 1
				continue
			}
			q0, q1 := hotstuff.QuorumSize(n0), hotstuff.QuorumSize(n1)
			for _, k0 := range []int{0, 1, q0 - 1} {
				if k0 < 0 || k0 >= q0 || (k0 == 1 && q0-1 == 1) {
					continue
				}
				cfg, auth, bc, el := mkAuth(1, n0)
				vs, err := protocol.NewViewStates(bc, auth)
				if err != nil {
					t.Fatal(err)
				}
				var qcs []hotstuff.QuorumCert
				vm := New(logger, el, cfg, bc, auth, vs)
				eventloop.Register(el, func(m hotstuff.NewViewMsg) {
					if qc, ok := m.SyncInfo.QC(); ok {
						qcs = append(qcs, qc)
					}
				})
				deliver := func(i int) bool {
					before := len(qcs)
					vm.CollectVote(hotstuff.VoteMsg{ID: hotstuff.ID(i), PartialCert: votes[i]})
					for j := 0; j < 100 && el.Tick(context.Background()); j++ {
					}
					return len(qcs) > before
				}
				early := false
				for i := 1; i <= k0; i++ {
					if deliver(i) {
						early = true
					}
				}
				meta0 := map[string]any{"component": "votingmachine", "n_before": n0, "n_after": n1, "votes_before_growth": k0}
				v.Oracle(!early, "threshold:votingmachine:qc-below-quorum", fmt.Sprintf("n=%d: QC emitted with %d < %d votes", n0, k0, q0), meta0)
				for i := n0 + 1; i <= n1; i++ {
					cfg.AddReplica(&hotstuff.ReplicaInfo{ID: hotstuff.ID(i), PubKey: keys[i].Public()})
				}
				_, verifier, _, _ := mkAuth(n1, n1)
				fired := false
				for i := k0 + 1; i <= n1 && !fired; i++ {
					k := i
					fired = deliver(i)
					meta := map[string]any{"component": "votingmachine", "n_before": n0, "n_after": n1, "votes_before_growth": k0,
						"votes": k, "quorum": q1, "qc_emitted": fired}
					v.Seen(fmt.Sprintf("vm/%d/%d/%d/%d", n0, n1, k0, k), n1 > n0 && k0 > 0 && (k == q1 || k == q1-1), meta)
					switch {
					case fired && k < q1:
						v.Oracle(false, "threshold:votingmachine:qc-below-quorum", fmt.Sprintf("membership grew %d -> %d after %d votes: QC emitted with %d votes, quorum is %d", n0, n1, k0, k, q1), meta)
					case !fired && k >= q1:
						v.Oracle(false, "threshold:votingmachine:no-qc-at-quorum", fmt.Sprintf("membership grew %d -> %d after %d votes: no QC with %d votes, quorum is %d", n0, n1, k0, k, q1), meta)
					case fired && verifier.VerifyQuorumCert(qcs[len(qcs)-1]) != nil:
						v.Oracle(false, "threshold:votingmachine:qc-rejected-by-verifier", fmt.Sprintf("QC of %d votes emitted for n=%d does not verify", k, n1), meta)
					default:
						v.Oracle(true, "", "", nil)
					}
					v.Case(s, fmt.Sprintf("(%s,%s,%s)", gZ(int64(n1)), gZ(int64(k)), gBool(fired)), meta)
				}
			}
		}
	}
	c20SplitStream(t, v, maxN, logger, eq, mkAuth)
	v.Close("voting machine created on n0 replicas, k0 votes, membership grows to n1, votes one by one; non-trivial = growth with k0 > 0 at or just below the quorum; stream split: one evaluation = one vote delivered while two or three blocks of one view collect votes of distinct replicas, k = the number of distinct valid votes for the voted block, emitted = a QC for that block came out at this vote (required: emitted <-> k >= QuorumSize(n); voting for a block stops once it has its QC)")
}

// c20SplitStream: see the file comment.
func c20SplitStream(t *testing.T, v *verifOut, maxN int, logger logging.Logger, eq [3]*hotstuff.Block,
	mkAuth func(id, n int) (*core.RuntimeConfig, *cert.Authority, *blockchain.Blockchain, *eventloop.EventLoop)) {
	s := v.Stream("split", "thr_mismatches", 2000)
	names := []string{"A", "B", "C"}
	// genuine votes of every member for every block
	var votes [3][]hotstuff.PartialCert
	for x := range eq {
		votes[x] = make([]hotstuff.PartialCert, maxN+1)
	}
	for i := 1; i <= maxN; i++ {
		_, a, _, _ := mkAuth(i, maxN)
		for x, b := range eq {
			pc, err := a.CreatePartialCert(b)
			if err != nil {
				t.Fatal(err)
			}
			votes[x][i] = pc
		}
	}
	type vote struct{ blk, voter int }
	// run delivers the votes in order (a block that got its QC receives no further votes) and judges every delivery
	run := func(n int, family string, seq []vote) {
		q := hotstuff.QuorumSize(n)
		cfg, auth, bc, el := mkAuth(1, n)
		vs, err := protocol.NewViewStates(bc, auth)
		if err != nil {
			t.Fatal(err)
		}
		var qcs []hotstuff.QuorumCert
		vm := New(logger, el, cfg, bc, auth, vs)
		eventloop.Register(el, func(m hotstuff.NewViewMsg) {
			if qc, ok := m.SyncInfo.QC(); ok {
				qcs = append(qcs, qc)
			}
		})
		_, verifier, _, _ := mkAuth(n, n)
		voters := [3]map[hotstuff.ID]bool{{}, {}, {}}
		done := [3]bool{}
		var history []string
		for _, vt := range seq {
			if done[vt.blk] {
				continue
			}
			before := len(qcs)
			vm.CollectVote(hotstuff.VoteMsg{ID: hotstuff.ID(vt.voter), PartialCert: votes[vt.blk][vt.voter]})
			for j := 0; j < 100 && el.Tick(context.Background()); j++ {
			}
			voters[vt.blk][hotstuff.ID(vt.voter)] = true
			k := len(voters[vt.blk])
			history = append(history, fmt.Sprintf("%d votes %s", vt.voter, names[vt.blk]))
			emitted := false // a QC for the voted block
			meta := map[string]any{"component": "votingmachine", "stream": "split", "n": n, "quorum": q, "family": family,
				"votes_so_far": append([]string(nil), history...), "voted_block": names[vt.blk], "votes_for_that_block": k}
			ok := true
			for _, qc := range qcs[before:] {
				x := -1
				for y, b := range eq {
					if qc.BlockHash() == b.Hash() {
						x = y
					}
				}
				if x == vt.blk {
					emitted = true
				}
				kx := 0
				if x >= 0 {
					kx = len(voters[x])
				}
				meta["qc_for_block"], meta["qc_signers"] = x, qc.Signature().Participants().Len()
				if x < 0 || kx < q {
					ok = false
					v.Oracle(false, "threshold:votingmachine:qc-below-quorum", fmt.Sprintf("n=%d, quorum %d: a QC was emitted for a block that has %d distinct valid votes (votes for other blocks of the same view were counted)", n, q, kx), meta)
					continue
				}
				foreign := false
				qc.Signature().Participants().ForEach(func(id hotstuff.ID) {
					if !voters[x][id] {
						foreign = true
					}
				})
				if foreign || verifier.VerifyQuorumCert(qc) != nil {
					ok = false
					v.Oracle(false, "threshold:votingmachine:qc-rejected-by-verifier", fmt.Sprintf("n=%d: the QC for block %s lists a replica that did not vote for it, or does not verify: %v", n, names[x], verifier.VerifyQuorumCert(qc)), meta)
				}
				done[x] = true
			}
			meta["qc_emitted"] = emitted
			if !emitted && k >= q {
				ok = false
				v.Oracle(false, "threshold:votingmachine:no-qc-at-quorum", fmt.Sprintf("n=%d: block %s has %d distinct valid votes, quorum %d, and no QC for it was emitted (its votes were lost to another block of the view?)", n, names[vt.blk], k, q), meta)
			}
			if ok {
				v.Oracle(true, "", "", nil)
			}
			v.Seen(fmt.Sprintf("split/%d/%s/%v", n, family, history), k == q || k == q-1, meta)
			v.Count("split:" + family)
			v.Case(s, fmt.Sprintf("(%s,%s,%s)", gZ(int64(n)), gZ(int64(k)), gBool(emitted)), meta)
		}
	}
	// orders of the votes of the parts (part x = the voters listed in parts[x], all voting block x)
	orders := func(parts [][]int, q int) map[string][]vote {
		out := map[string][]vote{}
		var seqF, seqR, alt []vote
		for x, p := range parts {
			for _, i := range p {
				seqF = append(seqF, vote{x, i})
			}
		}
		for x := len(parts) - 1; x >= 0; x-- {
			for _, i := range parts[x] {
				seqR = append(seqR, vote{x, i})
			}
		}
		for j := 0; ; j++ {
			any := false
			for x, p := range parts {
				if j < len(p) {
					alt = append(alt, vote{x, p[j]})
					any = true
				}
			}
			if !any {
				break
			}
		}
		out["one-after-the-other"], out["reverse"], out["alternating"] = seqF, seqR, alt
		// the quorum-th vote overall is for the smallest part
		small, big := 0, 0
		for x, p := range parts {
			if len(p) < len(parts[small]) {
				small = x
			}
			if len(p) > len(parts[big]) {
				big = x
			}
		}
		if small != big {
			var pre, rest []vote
			for x, p := range parts {
				for j, i := range p {
					if x == small && j == 0 {
						continue
					}
					if len(pre) < q-1 {
						pre = append(pre, vote{x, i})
					} else {
						rest = append(rest, vote{x, i})
					}
				}
			}
			if len(pre) == q-1 {
				m := append(append(pre, vote{small, parts[small][0]}), rest...)
				out["quorum-th-vote-for-the-minority-block"] = m
			}
		}
		return out
	}
	families := []string{"one-after-the-other", "reverse", "alternating", "quorum-th-vote-for-the-minority-block"}
	for n := 4; n <= maxN; n++ {
		q := hotstuff.QuorumSize(n)
		mkParts := func(sizes ...int) ([][]int, int) {
			next := 1
			var parts [][]int
			for _, sz := range sizes {
				var p []int
				for j := 0; j < sz; j++ {
					p = append(p, next)
					next++
				}
				parts = append(parts, p)
			}
			return parts, next
		}
		finish := func(seq []vote, next int, a int) []vote { // the replicas that are left vote block A
			for i := next; i <= n && a < q; i++ {
				seq = append(seq, vote{0, i})
				a++
			}
			return seq
		}
		// two blocks: every split below the quorum with the total at least the quorum
		for a := 1; a < q; a++ {
			for b := 1; b < q; b++ {
				if a+b < q || a+b > n {
					continue
				}
				parts, next := mkParts(a, b)
				for _, fam := range families {
					if seq, ok := orders(parts, q)[fam]; ok {
						run(n, fmt.Sprintf("two-blocks/%s", fam), finish(seq, next, a))
					}
				}
			}
		}
		// three blocks
		for a := 1; a < q; a++ {
			for b := 1; b <= a; b++ {
				for c := 1; c <= b; c++ {
					if a+b+c < q || a+b+c > n {
						continue
					}
					parts, next := mkParts(a, b, c)
					for _, fam := range families {
						if seq, ok := orders(parts, q)[fam]; ok && fam != "reverse" {
							run(n, fmt.Sprintf("three-blocks/%s", fam), finish(seq, next, a))
						}
					}
				}
			}
		}
		// control: block A does get a quorum while block B collects votes too
		for b := 1; b < q && q+b <= n; b++ {
			parts, _ := mkParts(q, b)
			for _, fam := range families {
				if seq, ok := orders(parts, q)[fam]; ok {
					run(n, fmt.Sprintf("control/%s", fam), seq)
				}
			}
		}
	}
}

package votingmachine

// C20, "every component uses the same threshold for the configured membership": the voting
// machine. A voting machine created on a configuration of n0 replicas collects k0 genuine votes
// for a block, the configuration grows to n1 replicas, further genuine votes of distinct members
// arrive one by one: a QC must be emitted exactly when the number of collected votes reaches
// QuorumSize(n1), and the QC must verify at a replica that knows the n1 members.

import (
	"context"
	"fmt"
	"io"
	"testing"

	"github.com/relab/hotstuff"
	"github.com/relab/hotstuff/core"
	"github.com/relab/hotstuff/core/eventloop"
	"github.com/relab/hotstuff/core/logging"
	"github.com/relab/hotstuff/internal/proto/clientpb"
	"github.com/relab/hotstuff/protocol"
	"github.com/relab/hotstuff/security/blockchain"
	"github.com/relab/hotstuff/security/cert"
	"github.com/relab/hotstuff/security/crypto"
	"github.com/relab/hotstuff/security/crypto/keygen"
)

type c20Sender struct{}

func (c20Sender) NewView(hotstuff.ID, hotstuff.SyncInfo) error { return nil }
func (c20Sender) Vote(hotstuff.ID, hotstuff.PartialCert) error { return nil }
func (c20Sender) Timeout(hotstuff.TimeoutMsg)                  {}
func (c20Sender) Propose(*hotstuff.ProposeMsg)                 {}
func (c20Sender) RequestBlock(context.Context, hotstuff.Hash) (*hotstuff.Block, bool) {
	return nil, false
}
func (s c20Sender) Sub([]hotstuff.ID) (core.Sender, error) { return s, nil }

func TestVerifC20(t *testing.T) {
	v := verifNew("C20")
	s := v.Stream("votes", "thr_mismatches", 2000)
	maxN := v.Pick(10, 16)
	logger := logging.NewWithDest(io.Discard, "c20")
	keys := make([]hotstuff.PrivateKey, maxN+1)
	for i := 1; i <= maxN; i++ {
		k, err := keygen.GenerateECDSAPrivateKey()
		if err != nil {
			t.Fatal(err)
		}
		keys[i] = k
	}
	g := hotstuff.GetGenesis()
	block := hotstuff.NewBlock(g.Hash(), hotstuff.NewQuorumCert(nil, 0, g.Hash()), &clientpb.Batch{Commands: []*clientpb.Command{{Data: []byte("c20")}}}, 3, 1)
	mkAuth := func(id, n int) (*core.RuntimeConfig, *cert.Authority, *blockchain.Blockchain, *eventloop.EventLoop) {
		cfg := core.NewRuntimeConfig(hotstuff.ID(id), keys[id], core.WithSyncVerification())
		for j := 1; j <= n; j++ {
			cfg.AddReplica(&hotstuff.ReplicaInfo{ID: hotstuff.ID(j), PubKey: keys[j].Public()})
		}
		el := eventloop.New(logger, 1000)
		bc := blockchain.New(el, logger, c20Sender{})
		bc.Store(block)
		base, err := crypto.New(cfg, crypto.NameECDSA)
		if err != nil {
			t.Fatal(err)
		}
		return cfg, cert.NewAuthority(cfg, bc, base), bc, el
	}
	// genuine votes of every member
	votes := make([]hotstuff.PartialCert, maxN+1)
	for i := 1; i <= maxN; i++ {
		_, a, _, _ := mkAuth(i, maxN)
		pc, err := a.CreatePartialCert(block)
		if err != nil {
			t.Fatal(err)
		}
		votes[i] = pc
	}
	for n0 := 1; n0 <= maxN; n0++ {
		for n1 := n0; n1 <= maxN; n1++ {
			if n1 < 2 {
				// a single signature cannot be turned into a certificate (Combine wants two or more,
				// see C02/C09: completeness holds for n >= 2); nothing to observe for n = 1
				continue
			}
			q0, q1 := hotstuff.QuorumSize(n0), hotstuff.QuorumSize(n1)
			for _, k0 := range []int{0, 1, q0 - 1} {
				if k0 < 0 || k0 >= q0 || (k0 == 1 && q0-1 == 1) {
					continue
				}
				cfg, auth, bc, el := mkAuth(1, n0)
				vs, err := protocol.NewViewStates(bc, auth)
				if err != nil {
					t.Fatal(err)
				}
				var qcs []hotstuff.QuorumCert
				vm := New(logger, el, cfg, bc, auth, vs)
				eventloop.Register(el, func(m hotstuff.NewViewMsg) {
					if qc, ok := m.SyncInfo.QC(); ok {
						qcs = append(qcs, qc)
					}
				})
				deliver := func(i int) bool {
					before := len(qcs)
					vm.CollectVote(hotstuff.VoteMsg{ID: hotstuff.ID(i), PartialCert: votes[i]})
					for j := 0; j < 100 && el.Tick(context.Background()); j++ {
					}
					return len(qcs) > before
				}
				early := false
				for i := 1; i <= k0; i++ {
					if deliver(i) {
						early = true
					}
				}
				meta0 := map[string]any{"component": "votingmachine", "n_before": n0, "n_after": n1, "votes_before_growth": k0}
				v.Oracle(!early, "threshold:votingmachine:qc-below-quorum", fmt.Sprintf("n=%d: QC emitted with %d < %d votes", n0, k0, q0), meta0)
				for i := n0 + 1; i <= n1; i++ {
					cfg.AddReplica(&hotstuff.ReplicaInfo{ID: hotstuff.ID(i), PubKey: keys[i].Public()})
				}
				_, verifier, _, _ := mkAuth(n1, n1)
				fired := false
				for i := k0 + 1; i <= n1 && !fired; i++ {
					k := i
					fired = deliver(i)
					meta := map[string]any{"component": "votingmachine", "n_before": n0, "n_after": n1, "votes_before_growth": k0,
						"votes": k, "quorum": q1, "qc_emitted": fired}
					v.Seen(fmt.Sprintf("vm/%d/%d/%d/%d", n0, n1, k0, k), n1 > n0 && k0 > 0 && (k == q1 || k == q1-1), meta)
					switch {
					case fired && k < q1:
						v.Oracle(false, "threshold:votingmachine:qc-below-quorum", fmt.Sprintf("membership grew %d -> %d after %d votes: QC emitted with %d votes, quorum is %d", n0, n1, k0, k, q1), meta)
					case !fired && k >= q1:
						v.Oracle(false, "threshold:votingmachine:no-qc-at-quorum", fmt.Sprintf("membership grew %d -> %d after %d votes: no QC with %d votes, quorum is %d", n0, n1, k0, k, q1), meta)
					case fired && verifier.VerifyQuorumCert(qcs[len(qcs)-1]) != nil:
						v.Oracle(false, "threshold:votingmachine:qc-rejected-by-verifier", fmt.Sprintf("QC of %d votes emitted for n=%d does not verify", k, n1), meta)
					default:
						v.Oracle(true, "", "", nil)
					}
					v.Case(s, fmt.Sprintf("(%s,%s,%s)", gZ(int64(n1)), gZ(int64(k)), gBool(fired)), meta)
				}
			}
		}
	}
	v.Close("voting machine created on n0 replicas, k0 votes, membership grows to n1, votes one by one; non-trivial = growth with k0 > 0 at or just below the quorum")
}

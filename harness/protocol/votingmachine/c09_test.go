package votingmachine

// C09 correspondence harness for the all-to-one vote collector (VotingMachine).
//
// A real VotingMachine is wired to a real event loop, block store, Authority and ViewStates. Stimuli
// (VoteMsg, ProposeMsg, high-QC moves) are delivered one at a time, the loop is drained after each,
// and the quorum certificates carried by the NewViewMsg events are recorded per stimulus together
// with the final verifiedVotes map and the number of still delayed votes. Every vote is built with
// real keys; its symbolic form (label + who really signed what) is known by construction and, for
// emitted certificates, recovered from a registry of every genuine signature made (ground truth).
// Oracles on the Go outputs: every emitted certificate verifies with a fresh Authority and carries a
// quorum of distinct genuine member signatures over its block; a certificate for the target block
// exists by stimulus k iff the block is known and a quorum of distinct valid single-signer votes
// has arrived by k (no delay, no early certificate).

import (
	"bytes"
	"context"
	"crypto/rand"
	"fmt"
	"io"
	"os"
	"reflect"
	"runtime"
	"sort"
	"strings"
	"sync"
	"testing"
	"time"
	"unsafe"

	"github.com/relab/hotstuff"
	"github.com/relab/hotstuff/core"
	"github.com/relab/hotstuff/core/eventloop"
	"github.com/relab/hotstuff/core/logging"
	"github.com/relab/hotstuff/internal/proto/clientpb"
	"github.com/relab/hotstuff/protocol"
	"github.com/relab/hotstuff/security/blockchain"
	"github.com/relab/hotstuff/security/cert"
	"github.com/relab/hotstuff/security/crypto"
	"github.com/relab/hotstuff/security/crypto/keygen"
)

// ---------------------------------------------------------------------------------------------
// world: keys, blocks, symbolic votes

type c09Sender struct {
	remote map[hotstuff.Hash]*hotstuff.Block
}

func (s *c09Sender) NewView(hotstuff.ID, hotstuff.SyncInfo) error { return nil }
func (s *c09Sender) Vote(hotstuff.ID, hotstuff.PartialCert) error { return nil }
func (s *c09Sender) Timeout(hotstuff.TimeoutMsg)                  {}
func (s *c09Sender) Propose(*hotstuff.ProposeMsg)                 {}
func (s *c09Sender) RequestBlock(_ context.Context, h hotstuff.Hash) (*hotstuff.Block, bool) {
	b, ok := s.remote[h]
	return b, ok
}
func (s *c09Sender) Sub([]hotstuff.ID) (core.Sender, error) { return s, nil }

type c09Block struct {
	name string
	blk  *hotstuff.Block
	id   int // interned hash
	view uint64
}

func (b *c09Block) term() string { return fmt.Sprintf("(mkB %s %s)", gN(uint64(b.id)), gN(b.view)) }

type c09Sig struct {
	lab    uint64
	signer uint64 // 0 = bytes nobody signed
	hash   int
}

func (s c09Sig) term() string {
	switch {
	case s.signer == 0:
		return fmt.Sprintf("(X %s)", gN(s.lab))
	case s.signer == s.lab:
		return fmt.Sprintf("(G %s %s)", gN(s.lab), gN(uint64(s.hash)))
	default:
		return fmt.Sprintf("(F %s %s %s)", gN(s.lab), gN(s.signer), gN(uint64(s.hash)))
	}
}

func c09SigsTerm(ss []c09Sig) string {
	ts := make([]string, len(ss))
	for i, s := range ss {
		ts[i] = s.term()
	}
	return gList(ts)
}

type c09Vote struct {
	kind   string
	pc     hotstuff.PartialCert
	hash   int
	sigs   []c09Sig
	sender hotstuff.ID
}

func (x *c09Vote) voteTerm() string {
	return fmt.Sprintf("(mkVote %s %s)", gN(uint64(x.hash)), c09SigsTerm(x.sigs))
}

type c09Real struct {
	signer uint64
	hash   int
}

type c09World struct {
	v        *verifOut
	scheme   string
	n, q     int
	idset    string
	ids      []uint64 // replica ids: members at index 0..n-1, the outsider at index n
	tcs      map[uint64]hotstuff.TimeoutCert
	midTC    uint64                // > 0: asynchronous bursts: the high TC moves to this view in the middle of the burst
	startN   int                   // > 0: the collector is created knowing only the first startN members (growth stimulus 'M' adds the rest)
	cfgs     []*core.RuntimeConfig // index i-1 for member index i, plus the outsider at index n
	bases    []crypto.Base
	blocks   map[string]*c09Block
	byHash   map[hotstuff.Hash]*c09Block
	all      []*c09Block
	reg      map[string]c09Real
	logger   logging.Logger
	verifier *cert.Authority
	members  string
}

func c09Key(scheme string) hotstuff.PrivateKey {
	switch scheme {
	case crypto.NameECDSA:
		k, err := keygen.GenerateECDSAPrivateKey()
		if err != nil {
			panic(err)
		}
		return k
	case crypto.NameEDDSA:
		_, k, err := keygen.GenerateED25519Key()
		if err != nil {
			panic(err)
		}
		return k
	default:
		k, err := crypto.GenerateBLS12PrivateKey()
		if err != nil {
			panic(err)
		}
		return k
	}
}

// c09IDs returns the replica ids of an id set: "dense" = 1..n+1; "sparse" = non-contiguous ids that agree in
// their low 8 and 16 bits and reach the top of uint32 (list schemes); "sparse16" = the same idea below 2^17
// (BLS bitfields grow with the largest id).
func c09IDs(idset string, n int) []uint64 {
	var pool []uint64
	switch idset {
	case "sparse":
		pool = []uint64{3, 259, 65539, 16777219, 2147483651, 4294967043, 515, 131075, 33554435, 771, 4294967295, 1027}
	case "sparse16":
		pool = []uint64{3, 259, 515, 65539, 771, 1027, 1283, 66051, 1539, 1795, 2051, 2307}
	default:
		for i := 1; i <= n+1; i++ {
			pool = append(pool, uint64(i))
		}
	}
	return pool[:n+1]
}

func (w *c09World) isMember(lab uint64) bool {
	for _, id := range w.ids[:w.n] {
		if id == lab {
			return true
		}
	}
	return false
}

func c09NewWorld(v *verifOut, scheme string, n int, idset string) *c09World {
	w := &c09World{v: v, scheme: scheme, n: n, idset: idset, ids: c09IDs(idset, n), tcs: map[uint64]hotstuff.TimeoutCert{}, blocks: map[string]*c09Block{}, byHash: map[hotstuff.Hash]*c09Block{},
		reg: map[string]c09Real{}, logger: logging.NewWithDest(io.Discard, "c09")}
	// n members and one outsider (id n+1) who knows everybody but is known to nobody
	for i := 1; i <= n+1; i++ {
		w.cfgs = append(w.cfgs, core.NewRuntimeConfig(hotstuff.ID(w.ids[i-1]), c09Key(scheme), core.WithSyncVerification()))
	}
	for _, c := range w.cfgs {
		b, err := crypto.New(c, scheme) // BLS: adds the proof of possession to the connection metadata
		if err != nil {
			panic(err)
		}
		w.bases = append(w.bases, b)
	}
	for _, c := range w.cfgs {
		for j := 0; j < n; j++ {
			o := w.cfgs[j]
			c.AddReplica(&hotstuff.ReplicaInfo{ID: o.ID(), PubKey: o.PrivateKey().Public(), Metadata: o.ConnectionMetadata()})
		}
	}
	w.q = w.cfgs[0].QuorumSize()
	w.members = gNs(w.ids[:n])
	g := hotstuff.GetGenesis()
	w.addBlock("G", g)
	mk := func(name string, view uint64, proposer int) {
		qc := hotstuff.NewQuorumCert(nil, 0, g.Hash())
		w.addBlock(name, hotstuff.NewBlock(g.Hash(), qc, &clientpb.Batch{Commands: []*clientpb.Command{{Data: []byte(name)}}}, hotstuff.View(view), hotstuff.ID(proposer)))
	}
	mk("B", 5, 1)  // the target block
	mk("C", 6, 2)  // another block newer than the high QC
	mk("O", 2, 1)  // an old block
	mk("U", 7, 1)  // never arrives, cannot be fetched
	mk("R", 8, 1)  // can only be fetched
	mk("L3", 3, 1) // high-QC target below B
	mk("L9", 9, 1) // high-QC target above B
	mk("D", 4, 2)  // a foreign proposal
	mk("E", 5, 3)  // an equivocation: a second, different block for B's view
	// a separate verifier (replica 2's view of the world, its own block store holding every block)
	vs := &c09Sender{remote: map[hotstuff.Hash]*hotstuff.Block{}}
	vel := eventloop.New(w.logger, 10)
	vbc := blockchain.New(vel, w.logger, vs)
	for _, b := range w.all {
		vbc.Store(b.blk)
	}
	vi := 1
	if n < 2 {
		vi = 0
	}
	vb, err := crypto.New(w.cfgs[vi], scheme)
	if err != nil {
		panic(err)
	}
	w.verifier = cert.NewAuthority(w.cfgs[vi], vbc, vb)
	return w
}

// tc returns a genuine timeout certificate for the view: a quorum of members signed View.ToBytes()
func (w *c09World) tc(view uint64) hotstuff.TimeoutCert {
	if t, ok := w.tcs[view]; ok {
		return t
	}
	var sigs []hotstuff.QuorumSignature
	for i := 0; i < w.q && i < w.n; i++ {
		s, err := w.bases[i].Sign(hotstuff.View(view).ToBytes())
		if err != nil {
			panic(err)
		}
		sigs = append(sigs, s)
	}
	sig := sigs[0]
	if len(sigs) >= 2 {
		s, err := w.bases[0].Combine(sigs...)
		if err != nil {
			panic(err)
		}
		sig = s
	}
	t := hotstuff.NewTimeoutCert(sig, hotstuff.View(view))
	w.tcs[view] = t
	return t
}

func (w *c09World) addBlock(name string, b *hotstuff.Block) {
	cb := &c09Block{name: name, blk: b, id: len(w.all) + 1, view: uint64(b.View())}
	w.blocks[name] = cb
	w.byHash[b.Hash()] = cb
	w.all = append(w.all, cb)
}

// raw signature bytes of replica id (1-based; n+1 = outsider) over block b
func (w *c09World) signRaw(id int, b *c09Block) (hotstuff.QuorumSignature, []byte) {
	s, err := w.bases[id-1].Sign(b.blk.ToBytes())
	if err != nil {
		panic(err)
	}
	var raw []byte
	switch x := s.(type) {
	case crypto.Multi[*crypto.ECDSASignature]:
		raw = x[0].ToBytes()
	case crypto.Multi[*crypto.EDDSASignature]:
		raw = x[0].ToBytes()
	default:
		raw = s.ToBytes()
	}
	w.reg[string(raw)] = c09Real{w.ids[id-1], b.id}
	return s, raw
}

type c09Elem struct {
	raw []byte
	lab uint64
	sym c09Sig
}

func (w *c09World) genuine(id int, b *c09Block) c09Elem {
	_, raw := w.signRaw(id, b)
	rid := w.ids[id-1]
	return c09Elem{raw, rid, c09Sig{rid, rid, b.id}}
}
func (e c09Elem) relabel(lab uint64) c09Elem {
	return c09Elem{e.raw, lab, c09Sig{lab, e.sym.signer, e.sym.hash}}
}
func (w *c09World) garbage(lab uint64) c09Elem {
	raw := make([]byte, 64)
	_, _ = rand.Read(raw)
	return c09Elem{raw, lab, c09Sig{lab, 0, 0}}
}

// vote assembles a partial certificate naming block `names` from the given elements.
// List schemes: a Multi in the given order. BLS: elements must be single-signer or a Combine of
// genuine distinct ones (listed in ascending label order).
func (w *c09World) vote(kind string, names *c09Block, elems ...c09Elem) *c09Vote {
	var sig hotstuff.QuorumSignature
	syms := make([]c09Sig, len(elems))
	for i, e := range elems {
		syms[i] = e.sym
	}
	switch w.scheme {
	case crypto.NameECDSA:
		m := make(crypto.Multi[*crypto.ECDSASignature], len(elems))
		for i, e := range elems {
			m[i] = crypto.RestoreECDSASignature(e.raw, hotstuff.ID(e.lab))
		}
		sig = m
	case crypto.NameEDDSA:
		m := make(crypto.Multi[*crypto.EDDSASignature], len(elems))
		for i, e := range elems {
			m[i] = crypto.RestoreEDDSASignature(e.raw, hotstuff.ID(e.lab))
		}
		sig = m
	default:
		parts := make([]hotstuff.QuorumSignature, len(elems))
		for i, e := range elems {
			var bf crypto.Bitfield
			bf.Add(hotstuff.ID(e.lab))
			s, err := crypto.RestoreBLS12AggregateSignature(e.raw, bf)
			if err != nil {
				panic(err)
			}
			parts[i] = s
		}
		if len(parts) == 1 {
			sig = parts[0]
		} else {
			s, err := w.bases[0].Combine(parts...)
			if err != nil {
				panic(err)
			}
			sig = s
			sort.Slice(syms, func(i, j int) bool { return syms[i].lab < syms[j].lab })
		}
	}
	x := &c09Vote{kind: kind, pc: hotstuff.NewPartialCert(sig, names.blk.Hash()), hash: names.id, sigs: syms}
	x.sender = hotstuff.ID(w.ids[0])
	if len(syms) > 0 {
		x.sender = hotstuff.ID(syms[0].lab)
	}
	return x
}

func (w *c09World) honest(id int, b *c09Block) *c09Vote {
	return w.vote("honest", b, w.genuine(id, b))
}

func (w *c09World) list() bool { return w.scheme != crypto.NameBLS12 }

// hostile returns the named hostile votes against target block B.
func (w *c09World) hostile() []*c09Vote {
	B, C := w.blocks["B"], w.blocks["C"]
	n := w.n
	last := n
	other := 1
	if n == 1 {
		other = 1
	}
	hs := []*c09Vote{
		w.vote("resigned-duplicate", B, w.genuine(min(2, n), B)),
		w.vote("relabelled", B, w.genuine(last, B).relabel(w.ids[0])),
		w.vote("signature-over-other-block", B, w.genuine(min(3, n), C)),
		w.vote("foreign-block", C, w.genuine(min(3, n), C)),
		w.vote("old-block", w.blocks["O"], w.genuine(min(3, n), w.blocks["O"])),
		w.vote("genesis-block", w.blocks["G"], w.genuine(min(3, n), w.blocks["G"])),
		w.vote("unknown-block", w.blocks["U"], w.genuine(min(3, n), w.blocks["U"])),
		w.vote("fetchable-block", w.blocks["R"], w.genuine(min(3, n), w.blocks["R"])),
		w.vote("non-member", B, w.genuine(n+1, B)),
		w.vote("non-member-relabelled", B, w.genuine(n+1, B).relabel(w.ids[last-1])),
	}
	if n >= 2 {
		hs = append(hs,
			w.vote("multi-two-signers", B, w.genuine(last, B), w.genuine(other, B)),
			w.vote("multi-other-block-tail", B, w.genuine(last, B), w.genuine(other, C)),
		)
	}
	if w.list() {
		e := w.genuine(last, B)
		hs = append(hs,
			w.vote("garbage", B, w.garbage(w.ids[min(2, n)-1])),
			w.vote("multi-repeated-signer", B, e, e),
			w.vote("multi-garbage-tail", B, w.genuine(last, B), w.garbage(w.ids[other-1])),
			w.vote("empty-signature", B),
		)
		if n >= 2 {
			hs = append(hs, w.vote("multi-two-signers-honest-first", B, w.genuine(other, B), w.genuine(last, B)))
		}
	} else {
		// BLS12: signature objects without any participant. The aggregate of no keys is the identity, so the
		// point at infinity with an empty bitfield VERIFIES (bls12 Verify has no "no participants" test); an
		// empty bitfield with any other point does not. Neither is a vote of anybody.
		inf := make([]byte, 96)
		inf[0] = 0xc0 // compressed form of the point at infinity
		hs = append(hs,
			w.blsVote("bls-no-participants-infinity", B, inf),
			w.blsVote("bls-no-participants-genuine-point", B, w.genuine(last, B).raw),
		)
	}
	return hs
}

// blsVote: a partial certificate whose BLS aggregate has the given point and an empty participant bitfield
func (w *c09World) blsVote(kind string, names *c09Block, point []byte) *c09Vote {
	var bf crypto.Bitfield
	sig, err := crypto.RestoreBLS12AggregateSignature(point, bf)
	if err != nil {
		panic(err)
	}
	return &c09Vote{kind: kind, pc: hotstuff.NewPartialCert(sig, names.blk.Hash()), hash: names.id, sigs: nil, sender: hotstuff.ID(w.ids[w.n-1])}
}

// ---------------------------------------------------------------------------------------------
// running the implementation

type c09Ev struct {
	kind byte // 'V' vote, 'P' proposal, 'H' high-QC move, 'T' high-TC move, 'M' membership growth
	vote *c09Vote
	blk  *c09Block
	view uint64 // 'T': the view of the timeout certificate
	on   bool   // 'A': the block becomes (true) / stops being (false) fetchable from the other replicas
}

func (e c09Ev) term() string {
	switch e.kind {
	case 'V':
		return fmt.Sprintf("(V %s %s)", gN(uint64(e.vote.hash)), c09SigsTerm(e.vote.sigs))
	case 'P':
		return fmt.Sprintf("(P %s %s)", gN(uint64(e.blk.id)), gN(e.blk.view))
	case 'M':
		return ""
	case 'T':
		return fmt.Sprintf("(TC %s)", gN(e.view))
	case 'A':
		return ""
	default:
		return fmt.Sprintf("(H %s %s)", gN(uint64(e.blk.id)), gN(e.blk.view))
	}
}
func (e c09Ev) short() string {
	switch e.kind {
	case 'V':
		return fmt.Sprintf("vote[%s for %d by %s]", e.vote.kind, e.vote.hash, c09SigsTerm(e.vote.sigs))
	case 'P':
		return "propose " + e.blk.name
	case 'M':
		return "membership grows to the full configuration"
	case 'T':
		return fmt.Sprintf("highTC->view %d", e.view)
	case 'A':
		if e.on {
			return "block " + e.blk.name + " becomes fetchable from the other replicas"
		}
		return "block " + e.blk.name + " is no longer fetchable from the other replicas"
	default:
		return "highQC->" + e.blk.name
	}
}

type c09QC struct {
	hash     int
	view     uint64
	sigs     []c09Sig
	verifies bool
	err      string
	raw      hotstuff.QuorumCert
}

func (q c09QC) term() string {
	return fmt.Sprintf("(Q %s %s %s)", gN(uint64(q.hash)), gN(q.view), c09SigsTerm(q.sigs))
}

type c09Bucket struct {
	hash    int
	signers []uint64
}

type c09Run struct {
	w      *c09World
	sender *c09Sender
	el     *eventloop.EventLoop
	bc     *blockchain.Blockchain
	vs     *protocol.ViewStates
	vm     *VotingMachine
	cfg    *core.RuntimeConfig
	grown  int
	cur    []c09QC
	ctx    context.Context
}

func (w *c09World) newRun(sync bool, store0, remote []*c09Block) *c09Run {
	r := &c09Run{w: w, ctx: context.Background()}
	// the collector's own configuration: created per run so that its membership can grow during the run
	var opts []core.RuntimeOption
	if sync {
		opts = append(opts, core.WithSyncVerification())
	}
	cfg := core.NewRuntimeConfig(hotstuff.ID(w.ids[0]), w.cfgs[0].PrivateKey(), opts...)
	r.cfg = cfg
	start := w.n
	if w.startN > 0 {
		start = w.startN
	}
	for j := 0; j < start; j++ {
		r.addMember(j)
	}
	r.grown = start
	r.sender = &c09Sender{remote: map[hotstuff.Hash]*hotstuff.Block{}}
	for _, b := range remote {
		r.sender.remote[b.blk.Hash()] = b.blk
	}
	r.el = eventloop.New(w.logger, 1000)
	r.bc = blockchain.New(r.el, w.logger, r.sender)
	for _, b := range store0 {
		r.bc.Store(b.blk)
	}
	base, err := crypto.New(cfg, w.scheme)
	if err != nil {
		panic(err)
	}
	auth := cert.NewAuthority(cfg, r.bc, base)
	vs, err2 := protocol.NewViewStates(r.bc, auth)
	err = err2
	if err != nil {
		panic(err)
	}
	r.vs = vs
	r.vm = New(w.logger, r.el, cfg, r.bc, auth, vs)
	// the proposal handler of the consensus module stores the block
	eventloop.Register(r.el, func(p hotstuff.ProposeMsg) { r.bc.Store(p.Block) })
	eventloop.Register(r.el, func(m hotstuff.NewViewMsg) {
		if qc, ok := m.SyncInfo.QC(); ok {
			r.cur = append(r.cur, w.decodeQC(qc))
		}
	})
	return r
}

func (w *c09World) decodeQC(qc hotstuff.QuorumCert) c09QC {
	out := c09QC{view: uint64(qc.View()), raw: qc}
	if b, ok := w.byHash[qc.BlockHash()]; ok {
		out.hash = b.id
	}
	err := w.verifier.VerifyQuorumCert(qc)
	out.verifies = err == nil
	if err != nil {
		out.err = err.Error()
	}
	one := func(lab hotstuff.ID, raw []byte) {
		s := c09Sig{lab: uint64(lab)}
		if r, ok := w.reg[string(raw)]; ok {
			s.signer, s.hash = r.signer, r.hash
		}
		out.sigs = append(out.sigs, s)
	}
	switch x := qc.Signature().(type) {
	case crypto.Multi[*crypto.ECDSASignature]:
		for _, s := range x {
			one(s.Signer(), s.ToBytes())
		}
	case crypto.Multi[*crypto.EDDSASignature]:
		for _, s := range x {
			one(s.Signer(), s.ToBytes())
		}
	case nil:
	default:
		// BLS: the point cannot be decomposed; the fresh verification decides what it contains
		x.Participants().ForEach(func(id hotstuff.ID) {
			s := c09Sig{lab: uint64(id)}
			if out.verifies {
				s.signer, s.hash = uint64(id), out.hash
			}
			out.sigs = append(out.sigs, s)
		})
		sort.Slice(out.sigs, func(i, j int) bool { return out.sigs[i].lab < out.sigs[j].lab })
	}
	return out
}

func (r *c09Run) addMember(j int) {
	o := r.w.cfgs[j]
	r.cfg.AddReplica(&hotstuff.ReplicaInfo{ID: o.ID(), PubKey: o.PrivateKey().Public(), Metadata: o.ConnectionMetadata()})
}

func (r *c09Run) drain() {
	for r.el.Tick(r.ctx) {
	}
}

func (r *c09Run) deliver(e c09Ev) {
	switch e.kind {
	case 'V':
		r.el.AddEvent(hotstuff.VoteMsg{ID: e.vote.sender, PartialCert: e.vote.pc})
	case 'P':
		r.el.AddEvent(hotstuff.ProposeMsg{ID: e.blk.blk.Proposer(), Block: e.blk.blk})
	case 'M': // the remaining members join the configuration (RuntimeConfig.AddReplica after the collector was created)
		for j := r.grown; j < r.w.n; j++ {
			r.addMember(j)
		}
		r.grown = r.w.n
	case 'T': // the synchronizer records a (genuine) timeout certificate: ViewStates.UpdateHighTC
		r.vs.UpdateHighTC(r.w.tc(e.view))
	case 'A': // what sender.RequestBlock can deliver changes
		if e.on {
			r.sender.remote[e.blk.blk.Hash()] = e.blk.blk
		} else {
			delete(r.sender.remote, e.blk.blk.Hash())
		}
	default:
		r.bc.Store(e.blk.blk)
		_, _ = r.vs.UpdateHighQC(hotstuff.NewQuorumCert(nil, e.blk.blk.View(), e.blk.blk.Hash()))
	}
}

// step delivers one stimulus and drains; returns the certificates emitted, or a panic text.
// Every delivery runs under a watchdog: an implementation that blocks (in CollectVote, in the event dispatch, in a
// verification goroutine) must not hang the check. When the watchdog fires the world is abandoned (its goroutine is
// left behind), the failure is recorded with the concrete history, and after c09MaxHangs firings the remaining cases
// of the harness are skipped so that the whole check still ends quickly.
const (
	c09Hung     = "step never returns"
	c09MaxHangs = 3
)

var c09Hangs int

func c09StepLimit() time.Duration {
	if os.Getenv("VERIF_TIER") == "thorough" {
		return 30 * time.Second
	}
	return 10 * time.Second
}

func (r *c09Run) step(e c09Ev) (out []c09QC, panicked string) {
	type res struct {
		out []c09QC
		p   string
	}
	ch := make(chan res, 1)
	go func() {
		var rs res
		defer func() {
			if p := recover(); p != nil {
				rs.p = fmt.Sprint(p)
			}
			ch <- rs
		}()
		r.cur = nil
		r.deliver(e)
		r.drain()
		rs.out = r.cur
	}()
	select {
	case rs := <-ch:
		return rs.out, rs.p
	case <-time.After(c09StepLimit()):
		return nil, c09Hung
	}
}

// buckets reads the collector's table of pending verified votes without depending on how it is keyed: the
// table is found by reflection (any map whose values are []hotstuff.PartialCert), and the votes are regrouped by
// the block each of them names, in table order. ok = false when no such table can be read (the representation
// changed beyond that): the state is then left out of the comparison, the oracles on the emitted certificates
// and on exactness do not need it.
func (r *c09Run) buckets() (bs []c09Bucket, ok bool) {
	defer func() {
		if p := recover(); p != nil {
			bs, ok = nil, false
		}
	}()
	vmv := reflect.ValueOf(r.vm).Elem()
	if f := vmv.FieldByName("mut"); f.IsValid() && f.CanAddr() {
		if mu, isMu := reflect.NewAt(f.Type(), unsafe.Pointer(f.UnsafeAddr())).Interface().(*sync.Mutex); isMu {
			mu.Lock()
			defer mu.Unlock()
		}
	}
	var table reflect.Value
	certs := reflect.TypeOf([]hotstuff.PartialCert(nil))
	for i := 0; i < vmv.NumField(); i++ {
		f := vmv.Field(i)
		if f.Kind() == reflect.Map && f.Type().Elem() == certs {
			table = reflect.NewAt(f.Type(), unsafe.Pointer(f.UnsafeAddr())).Elem()
		}
	}
	if !table.IsValid() {
		return nil, false
	}
	byBlock := map[int]*c09Bucket{}
	it := table.MapRange()
	for it.Next() {
		votes := it.Value().Interface().([]hotstuff.PartialCert)
		for _, v := range votes {
			id := 0
			if cb, known := r.w.byHash[v.BlockHash()]; known {
				id = cb.id
			}
			b := byBlock[id]
			if b == nil {
				b = &c09Bucket{hash: id}
				byBlock[id] = b
			}
			b.signers = append(b.signers, uint64(v.Signer()))
		}
	}
	for _, b := range byBlock {
		bs = append(bs, *b)
	}
	sort.Slice(bs, func(i, j int) bool { return bs[i].hash < bs[j].hash })
	return bs, true
}

// delayed counts the events waiting in the loop (read-only reflection on the unexported map).
func (r *c09Run) delayed() (n int) {
	defer func() {
		if p := recover(); p != nil {
			n = -1
		}
	}()
	m := reflect.ValueOf(r.el).Elem().FieldByName("waitingEvents")
	if !m.IsValid() || m.Kind() != reflect.Map {
		return -1
	}
	n = 0
	it := m.MapRange()
	for it.Next() {
		n += it.Value().Len()
	}
	return n
}

func c09BucketsTerm(bs []c09Bucket) string {
	ts := make([]string, len(bs))
	for i, b := range bs {
		ts[i] = fmt.Sprintf("(%s, %s)", gN(uint64(b.hash)), gNs(b.signers))
	}
	return gList(ts)
}
func c09BlocksTerm(bs []*c09Block) string {
	ts := make([]string, len(bs))
	for i, b := range bs {
		ts[i] = b.term()
	}
	return gList(ts)
}
func c09QCsTerm(qs []c09QC) string {
	ts := make([]string, len(qs))
	for i, q := range qs {
		ts[i] = q.term()
	}
	return gList(ts)
}

// ---------------------------------------------------------------------------------------------
// oracles

// checkQC: "every certificate a collector emits verifies" + ground truth of who signed what.
func (w *c09World) checkQC(q c09QC, input any) {
	ok := q.verifies
	w.v.Oracle(ok, "votingmachine.qc:does-not-verify", "an emitted QC is rejected by a fresh Authority: "+q.err, input)
	seen := map[uint64]bool{}
	good := true
	why := ""
	for _, s := range q.sigs {
		if seen[s.lab] {
			good, why = false, fmt.Sprintf("signer %d twice", s.lab)
		}
		seen[s.lab] = true
		if !w.isMember(s.lab) {
			good, why = false, fmt.Sprintf("signer %d is not a member", s.lab)
		}
		if s.signer != s.lab || s.hash != q.hash {
			good, why = false, fmt.Sprintf("signature labelled %d is not a genuine signature of %d over the block", s.lab, s.lab)
		}
	}
	if len(q.sigs) < w.q {
		good, why = false, fmt.Sprintf("%d signatures < quorum %d", len(q.sigs), w.q)
	}
	if q.hash < 1 || w.all[q.hash-1].view != q.view {
		good, why = false, "view label differs from the block's view"
	}
	w.v.Oracle(good, "votingmachine.qc:no-genuine-quorum", "an emitted QC does not carry a quorum of distinct genuine member signatures: "+why, input)
}

func (x *c09Vote) fullyValid(w *c09World) bool {
	if len(x.sigs) == 0 {
		return false
	}
	for _, s := range x.sigs {
		if s.signer != s.lab || s.hash != x.hash || !w.isMember(s.lab) {
			return false
		}
	}
	return true
}

// exactness evaluates "a QC for B exists by stimulus k iff B is known and a quorum of valid votes has
// arrived by k" on the observed per-stimulus outputs. lower = distinct signers of valid single-signer
// votes; upper = distinct members with a genuine signature inside any fully verifying vote.
func (w *c09World) exactness(B *c09Block, store0, remote []*c09Block, evs []c09Ev, outs [][]c09QC, input func() any) {
	known, fetchable := false, false
	for _, b := range store0 {
		if b == B {
			known = true
		}
	}
	for _, b := range remote {
		if b == B {
			fetchable = true
		}
	}
	// votes count once they have been processed while the block was obtainable (held, or fetched at that moment);
	// votes that wait for the block (pending) are released by the next proposal: they count if that proposal is the
	// block's own or the block can be fetched right then, otherwise they are dropped
	waiting := false                                       // a vote naming B (valid or not) is delayed until the next proposal
	lower, upper := map[uint64]bool{}, map[uint64]bool{}   // counted
	lowerP, upperP := map[uint64]bool{}, map[uint64]bool{} // pending
	emitted := false
	for k, e := range evs {
		switch e.kind {
		case 'A':
			if e.blk == B {
				fetchable = e.on
			}
			continue
		case 'M':
			continue
		case 'P':
			if !known && (e.blk == B || (waiting && fetchable)) {
				known = true
				for x := range lowerP {
					lower[x] = true
				}
				for x := range upperP {
					upper[x] = true
				}
			}
			lowerP, upperP, waiting = map[uint64]bool{}, map[uint64]bool{}, false
		case 'H':
			if e.blk.view >= B.view {
				return // B is no longer newer than the high QC
			}
		case 'V':
			if e.vote.hash == B.id && !known {
				waiting = true
			}
			if e.vote.hash == B.id && e.vote.fullyValid(w) {
				lo, up := lower, upper
				if !known {
					lo, up = lowerP, upperP
				}
				for _, s := range e.vote.sigs {
					up[s.lab] = true
				}
				if len(e.vote.sigs) == 1 {
					lo[e.vote.sigs[0].lab] = true
				}
			}
		}
		if k < len(outs) {
			for _, q := range outs[k] {
				if q.hash == B.id {
					emitted = true
				}
			}
		}
		if w.q < 2 {
			continue // Combine needs two signatures: n = 1 never forms a certificate (outside n in {4,7})
		}
		if known && len(lower) >= w.q && !emitted {
			w.v.Oracle(false, "votingmachine.collect:quorum-present-no-qc",
				fmt.Sprintf("after stimulus %d the block is known and valid votes from %d distinct members (quorum %d) have been processed while it was obtainable, but no QC was emitted", k, len(lower), w.q), input())
			return
		}
		if emitted && (!known || len(upper) < w.q) {
			w.v.Oracle(false, "votingmachine.collect:qc-without-quorum",
				fmt.Sprintf("a QC was emitted by stimulus %d although only %d distinct members had validly voted (quorum %d, block known=%v)", k, len(upper), w.q, known), input())
			return
		}
	}
	w.v.Oracle(true, "", "", nil)
}

// ---------------------------------------------------------------------------------------------
// one synchronous case

func (w *c09World) syncCase(s *verifStream, stream string, store0, remote []*c09Block, evs []c09Ev) {
	if c09Hangs >= c09MaxHangs {
		w.v.Count("skipped-after-watchdog")
		return
	}
	r := w.newRun(true, store0, remote)
	outs := make([][]c09QC, 0, len(evs))
	panicked := ""
	hungAt := -1
	for i, e := range evs {
		o, p := r.step(e)
		if p == c09Hung {
			// the stimulus never returned: it and everything after it produced no certificate
			hungAt = i
			for len(outs) < len(evs) {
				outs = append(outs, nil)
			}
			break
		}
		if p != "" {
			panicked = p
			break
		}
		outs = append(outs, o)
	}
	var bk []c09Bucket
	okState, nd := false, 0
	if hungAt < 0 { // never touch the private state of a blocked collector (its lock may be held)
		bk, okState = r.buckets()
		nd = r.delayed()
		if nd < 0 {
			okState, nd = false, 0
		}
	}
	evT, evS := make([]string, len(evs)), make([]string, len(evs))
	kinds := map[string]bool{}
	for i, e := range evs {
		evT[i], evS[i] = e.term(), e.short()
		if e.kind == 'V' {
			kinds[e.vote.kind] = true
		} else {
			kinds[string(e.kind)] = true
		}
	}
	outT := make([]string, len(outs))
	nqc := 0
	for i, o := range outs {
		outT[i] = c09QCsTerm(o)
		nqc += len(o)
	}
	// the kernel sees the stimuli without the membership growth (the model's membership is the final one); when
	// the fetchable blocks change over the script, every stimulus is paired with what was fetchable at that moment
	var kEv, kOut, kAv []string
	cur := append([]*c09Block(nil), remote...)
	changing := false
	for i, e := range evs {
		if e.kind == 'M' {
			continue
		}
		if e.kind == 'A' {
			changing = true
			var next []*c09Block
			for _, b := range cur {
				if b != e.blk {
					next = append(next, b)
				}
			}
			if e.on {
				next = append(next, e.blk)
			}
			cur = next
			continue
		}
		kEv = append(kEv, evT[i])
		kAv = append(kAv, fmt.Sprintf("(%s, %s)", c09BlocksTerm(cur), evT[i]))
		if i < len(outT) {
			kOut = append(kOut, outT[i])
		}
	}
	meta := func() any {
		return map[string]any{"stream": stream, "scheme": w.scheme, "n": w.n, "quorum": w.q, "verification": "sync",
			"replica_ids": w.ids[:w.n], "created_with_members": w.startN,
			"initial_blocks": c09Names(store0), "fetchable": c09Names(remote), "stimuli": evS,
			"certificates_per_stimulus": outT, "final_verifiedVotes": c09BucketsTerm(bk), "delayed": nd, "panic": panicked, "blocked_at_stimulus": hungAt}
	}
	key := fmt.Sprintf("S|%s|%d|%s|%d|%s", w.scheme, w.n, w.idset, w.startN, c09BlocksTerm(store0), c09BlocksTerm(remote), strings.Join(evT, ";"))
	w.v.Seen(key, nqc > 0 || len(kinds) > 2, meta())
	for k := range kinds {
		w.v.Count("vote-kind:" + k)
	}
	w.v.Count(fmt.Sprintf("sync:%s:n=%d", w.scheme, w.n))
	w.v.Count("ids:" + w.idset)
	if w.startN > 0 {
		w.v.Count("membership-growth")
	}
	w.v.Count(fmt.Sprintf("certificates=%d", nqc))
	if panicked != "" {
		w.v.Oracle(false, "votingmachine.collect:panic", "panic while handling a stimulus: "+panicked, meta())
		return
	}
	if hungAt >= 0 {
		c09Hangs++
		w.v.Count("watchdog-fired")
		w.v.Oracle(false, "votingmachine:step-never-returns", fmt.Sprintf("stimulus %d (%s) did not return within %s: the collector blocks; no certificate can come out of this or any later stimulus", hungAt, evS[hungAt], c09StepLimit()), meta())
	}
	for _, o := range outs {
		for _, q := range o {
			w.checkQC(q, meta())
			// the certificate object handed out must not change under later stimuli (shared backing arrays)
			if again := w.decodeQC(q.raw); again.term() != q.term() {
				w.v.Oracle(false, "votingmachine.qc:changed-after-emission", "an emitted QC reads differently at the end of the run: "+again.term()+" vs "+q.term(), meta())
			}
		}
	}
	w.exactness(w.blocks["B"], store0, remote, evs, outs, meta)
	for _, e := range evs { // an equivocating block of the same view is a target of its own
		if e.kind == 'V' && e.vote.hash == w.blocks["E"].id {
			w.exactness(w.blocks["E"], store0, remote, evs, outs, meta)
			break
		}
	}
	if changing {
		w.v.Count("block-availability-changes")
		if okState {
			w.v.Case(w.v.Stream(s.name+"av", "va_mismatches", s.perFile), fmt.Sprintf("(%s, %s, %s, %s, %s, %s)", w.members, c09BlocksTerm(store0),
				gList(kAv), gList(kOut), c09BucketsTerm(bk), gNat(nd)), meta())
		}
		return
	}
	if !okState {
		// the collector's private tables cannot be read in this tree: the kernel compares the certificates only
		s = w.v.Stream(s.name+"nostate", "v_mismatches_nostate", s.perFile)
		w.v.Count("private-state-unreadable")
	}
	w.v.Case(s, fmt.Sprintf("(%s, %s, %s, %s, %s, %s, %s)", w.members, c09BlocksTerm(remote), c09BlocksTerm(store0),
		gList(kEv), gList(kOut), c09BucketsTerm(bk), gNat(nd)), meta())
}

func c09Names(bs []*c09Block) []string {
	r := make([]string, len(bs))
	for i, b := range bs {
		r[i] = b.name
	}
	return r
}

// ---------------------------------------------------------------------------------------------
// one asynchronous case: setup stimuli (proposals / high-QC moves), then a burst of votes verified in
// goroutines; after quiescence the emitted certificates and the final state are explained by an order
// of the critical sections (witness), which the kernel replays on the sequential model.

// latePos >= 0: block B is unknown at the start and its proposal is queued before burst[latePos] (the kernel sees
// the proposal as the last setup stimulus: with only B-naming and known-block votes in the burst the two are the
// same up to the order of the critical sections). eager: the loop is ticked while the burst is still being queued.
func (w *c09World) asyncCase(s *verifStream, store0, remote []*c09Block, setup []c09Ev, burst []*c09Vote, latePos int, eager bool) {
	if c09Hangs >= c09MaxHangs {
		w.v.Count("skipped-after-watchdog")
		return
	}
	r := w.newRun(false, store0, remote)
	for _, e := range setup {
		if _, p := r.step(e); p == c09Hung {
			c09Hangs++
			w.v.Count("watchdog-fired")
			w.v.Oracle(false, "votingmachine:step-never-returns", "a setup stimulus of an asynchronous burst did not return: "+e.short(), map[string]any{"stream": "async", "stimulus": e.short()})
			return
		}
	}
	base := runtime.NumGoroutine()
	r.cur = nil
	for i, x := range burst {
		if w.midTC > 0 && i == len(burst)/2 {
			r.vs.UpdateHighTC(w.tc(w.midTC))
		}
		if i == latePos {
			r.el.AddEvent(hotstuff.ProposeMsg{ID: w.blocks["B"].blk.Proposer(), Block: w.blocks["B"].blk})
		}
		r.el.AddEvent(hotstuff.VoteMsg{ID: x.sender, PartialCert: x.pc})
		if eager {
			r.el.Tick(r.ctx)
			if i%3 == 2 {
				runtime.Gosched()
			}
		}
	}
	if latePos == len(burst) {
		r.el.AddEvent(hotstuff.ProposeMsg{ID: w.blocks["B"].blk.Proposer(), Block: w.blocks["B"].blk})
	}
	if latePos >= 0 {
		setup = append(append([]c09Ev{}, setup...), c09Ev{kind: 'P', blk: w.blocks["B"]})
	}
	if w.midTC > 0 { // the kernel sees it as a setup stimulus (it changes nothing in the model)
		setup = append(append([]c09Ev{}, setup...), c09Ev{kind: 'T', view: w.midTC})
		w.v.Count("async-high-tc-mid-burst")
	}
	quiet := 0
	deadline := time.Now().Add(c09StepLimit())
	for quiet < 3 && time.Now().Before(deadline) {
		r.drain()
		if runtime.NumGoroutine() <= base {
			quiet++
		} else {
			quiet = 0
		}
		time.Sleep(200 * time.Microsecond)
	}
	hungAsync := quiet < 3 // verification goroutines that never finish
	r.drain()
	qcs := r.cur
	var bk []c09Bucket
	okState, nd := false, 0
	if !hungAsync { // never touch the private state of a blocked collector
		bk, okState = r.buckets()
		nd = r.delayed()
		if nd < 0 {
			okState, nd = false, 0
		}
	}

	// witness: for every certificate in emission order its signers in slice order, then the residual
	// buckets, each accepted vote followed by the ignored duplicates of its signer; the rest last.
	used := make([]bool, len(burst))
	take := func(hash int, lab uint64) int {
		for i, x := range burst {
			if !used[i] && x.hash == hash && len(x.sigs) == 1 && x.sigs[0].lab == lab && x.fullyValid(w) {
				used[i] = true
				return i
			}
		}
		return -1
	}
	type slot struct {
		idx     int
		hash    int
		lab     uint64
		closing bool
	}
	var slots []slot
	explain := true
	for _, q := range qcs {
		for j, sg := range q.sigs {
			i := take(q.hash, sg.lab)
			if i < 0 {
				explain = false
				continue
			}
			slots = append(slots, slot{i, q.hash, sg.lab, j == len(q.sigs)-1})
		}
	}
	for _, b := range bk {
		for _, lab := range b.signers {
			i := take(b.hash, lab)
			if i < 0 {
				explain = false
				continue
			}
			slots = append(slots, slot{i, b.hash, lab, false})
		}
	}
	dupAfter := map[int][]int{}
	for i, x := range burst {
		if used[i] || len(x.sigs) != 1 || !x.fullyValid(w) {
			continue
		}
		blk := w.all[x.hash-1]
		if !r.known(blk) {
			continue
		}
		for _, sl := range slots {
			if !sl.closing && sl.hash == x.hash && sl.lab == x.sigs[0].lab {
				dupAfter[sl.idx] = append(dupAfter[sl.idx], i)
				used[i] = true
				break
			}
		}
	}
	var witness []*c09Vote
	for _, sl := range slots {
		witness = append(witness, burst[sl.idx])
		for _, d := range dupAfter[sl.idx] {
			witness = append(witness, burst[d])
		}
	}
	for i, x := range burst {
		if !used[i] {
			witness = append(witness, x)
		}
	}
	vt := func(xs []*c09Vote) (string, []string) {
		ts, ss := make([]string, len(xs)), make([]string, len(xs))
		for i, x := range xs {
			ts[i] = x.voteTerm()
			ss[i] = fmt.Sprintf("%s for %d by %s", x.kind, x.hash, c09SigsTerm(x.sigs))
		}
		return gList(ts), ss
	}
	burstT, burstS := vt(burst)
	witT, _ := vt(witness)
	setT, setS := make([]string, len(setup)), make([]string, len(setup))
	for i, e := range setup {
		setT[i], setS[i] = e.term(), e.short()
	}
	meta := map[string]any{"stream": "async", "scheme": w.scheme, "n": w.n, "quorum": w.q, "verification": "async",
		"initial_blocks": c09Names(store0), "setup": setS, "burst": burstS, "certificates": c09QCsTerm(qcs),
		"final_verifiedVotes": c09BucketsTerm(bk), "delayed": nd, "explained": explain,
		"replica_ids": w.ids[:w.n], "block_proposal_queued_before_burst_index": latePos, "loop_ticked_while_queueing": eager}
	w.v.Seen("A|"+w.scheme+fmt.Sprint(w.n)+"|"+strings.Join(setT, ";")+"|"+burstT, true, meta)
	if hungAsync {
		c09Hangs++
		w.v.Count("watchdog-fired")
		w.v.Oracle(false, "votingmachine:step-never-returns", fmt.Sprintf("asynchronous verification: %s after the burst was handed in, verification goroutines have still not returned", c09StepLimit()), meta)
	}
	w.v.Count(fmt.Sprintf("async:%s:n=%d", w.scheme, w.n))
	w.v.Count("ids:" + w.idset)
	if latePos >= 0 {
		w.v.Count("async-block-arrives-mid-burst")
	}
	w.v.Count(fmt.Sprintf("async-certificates=%d", len(qcs)))
	for _, q := range qcs {
		w.checkQC(q, meta)
	}
	// order-free exactness: B known during the whole burst
	B := w.blocks["B"]
	if r.known(B) && uint64(r.vs.HighQC().View()) < B.view && w.q >= 2 {
		lower, upper := map[uint64]bool{}, map[uint64]bool{}
		for _, x := range burst {
			if x.hash == B.id && x.fullyValid(w) {
				for _, sg := range x.sigs {
					upper[sg.lab] = true
				}
				if len(x.sigs) == 1 {
					lower[x.sigs[0].lab] = true
				}
			}
		}
		got := false
		for _, q := range qcs {
			if q.hash == B.id {
				got = true
			}
		}
		if len(lower) >= w.q && !got {
			w.v.Oracle(false, "votingmachine.collect:quorum-present-no-qc", "asynchronous verification: a quorum of valid votes was handed in but no QC came out after quiescence", meta)
		} else if got && len(upper) < w.q {
			w.v.Oracle(false, "votingmachine.collect:qc-without-quorum", "asynchronous verification: a QC came out without a quorum of valid votes", meta)
		} else {
			w.v.Oracle(true, "", "", nil)
		}
	}
	if !okState {
		w.v.Count("private-state-unreadable") // no residual buckets, no witness order: the oracles above have spoken
		return
	}
	w.v.Case(s, fmt.Sprintf("(%s, %s, %s, %s, %s, %s, %s, %s, %s)", w.members, c09BlocksTerm(remote), c09BlocksTerm(store0),
		gList(setT), burstT, witT, c09QCsTerm(qcs), c09BucketsTerm(bk), gNat(nd)), meta)
}

func (r *c09Run) known(b *c09Block) bool {
	_, ok := r.bc.LocalGet(b.blk.Hash())
	return ok
}

// ---------------------------------------------------------------------------------------------
// generators

func c09Perms(n int, f func(p []int)) {
	p := make([]int, n)
	for i := range p {
		p[i] = i
	}
	var rec func(k int)
	rec = func(k int) {
		if k == n {
			f(p)
			return
		}
		for i := k; i < n; i++ {
			p[k], p[i] = p[i], p[k]
			rec(k + 1)
			p[k], p[i] = p[i], p[k]
		}
	}
	rec(0)
}

func TestVerifC09(t *testing.T) {
	v := verifNew("C09")
	// the search phase of bin/check (VERIF_SEARCH) re-runs with other seeds: keep the quick scopes, widen the random streams
	search := os.Getenv("VERIF_SEARCH") != ""
	deep := v.Thorough() && !search
	pick := func(q, th int) int {
		if deep {
			return th
		}
		if search {
			return 3 * q
		}
		return q
	}
	sPerm := v.Stream("perm", "v_mismatches", 700)
	sRand := v.Stream("rand", "v_mismatches", 500)
	sEdge := v.Stream("edge", "v_mismatches", 500)
	sAsync := v.Stream("async", "a_mismatches", 400)
	_ = bytes.Equal

	type worldKey struct {
		scheme string
		n      int
		idset  string
	}
	worlds := map[worldKey]*c09World{}
	worldIDs := func(scheme string, n int, idset string) *c09World {
		k := worldKey{scheme, n, idset}
		if w, ok := worlds[k]; ok {
			return w
		}
		w := c09NewWorld(v, scheme, n, idset)
		worlds[k] = w
		return w
	}
	world := func(scheme string, n int) *c09World { return worldIDs(scheme, n, "dense") }
	// random choice of the id set: contiguous small ids, or non-contiguous ids up to the top of uint32
	anyWorld := func(scheme string, n int) *c09World {
		if v.rng.Intn(2) == 0 {
			return world(scheme, n)
		}
		if scheme == crypto.NameBLS12 {
			return worldIDs(scheme, n, "sparse16")
		}
		return worldIDs(scheme, n, "sparse")
	}
	V := func(x *c09Vote) c09Ev { return c09Ev{kind: 'V', vote: x} }
	P := func(b *c09Block) c09Ev { return c09Ev{kind: 'P', blk: b} }
	Hi := func(b *c09Block) c09Ev { return c09Ev{kind: 'H', blk: b} }
	TC := func(view uint64) c09Ev { return c09Ev{kind: 'T', view: view} }

	// (a) exhaustive small scope: all arrival orders of the honest votes mixed with each hostile kind
	for _, n := range []int{4, 7} {
		w := world(crypto.NameECDSA, n)
		B := w.blocks["B"]
		base := []*c09Block{w.blocks["G"], w.blocks["B"], w.blocks["C"], w.blocks["O"], w.blocks["L3"]}
		noB := []*c09Block{w.blocks["G"], w.blocks["C"], w.blocks["O"], w.blocks["L3"]}
		remote := []*c09Block{w.blocks["R"]}
		nh := 4
		if n == 7 {
			nh = 5
		}
		var hon []*c09Vote
		for i := 1; i <= nh; i++ {
			hon = append(hon, w.honest(i, B))
		}
		hostile := append([]*c09Vote{hon[0]}, w.hostile()...) // hon[0] again = exact duplicate
		for hi, hv := range hostile {
			items := make([]c09Ev, 0, nh+1)
			for _, x := range hon {
				items = append(items, V(x))
			}
			hx := hv
			if hi == 0 {
				hx = &c09Vote{kind: "exact-duplicate", pc: hv.pc, hash: hv.hash, sigs: hv.sigs, sender: hotstuff.ID(w.ids[n-1])} // relayed by somebody else
			}
			items = append(items, V(hx))
			cnt := 0
			stride := 1
			if n == 7 && !deep {
				stride = 6 // 120 of the 720 orders per kind in the quick tier
			}
			c09Perms(len(items), func(p []int) {
				cnt++
				if (cnt+hi)%stride != 0 {
					return
				}
				evs := []c09Ev{Hi(w.blocks["L3"])}
				for _, i := range p {
					evs = append(evs, items[i])
				}
				w.syncCase(sPerm, "perm", base, remote, evs)
			})
			// votes before the block: a quorum of honest votes, the hostile vote and the proposal, all orders
			if n == 4 || deep {
				items2 := []c09Ev{V(hon[0]), V(hon[1]), V(hon[2]), V(hx), P(B)}
				if n == 7 {
					items2 = append(items2, V(hon[3]), V(hon[4]))
				}
				cnt2 := 0
				c09Perms(len(items2), func(p []int) {
					cnt2++
					if n == 7 && (cnt2+hi)%4 != 0 {
						return // 1260 of the 5040 orders per kind
					}
					evs := []c09Ev{Hi(w.blocks["L3"])}
					for _, i := range p {
						evs = append(evs, items2[i])
					}
					w.syncCase(sPerm, "perm-block", noB, remote, evs)
				})
			}
		}
	}

	// (a2) the same with non-contiguous replica ids that agree in their low 8 / 16 bits and reach 2^32-1
	{
		n := 4
		w := worldIDs(crypto.NameECDSA, n, "sparse")
		B := w.blocks["B"]
		base := []*c09Block{w.blocks["G"], w.blocks["B"], w.blocks["C"], w.blocks["O"], w.blocks["L3"]}
		var hon []*c09Vote
		for i := 1; i <= n; i++ {
			hon = append(hon, w.honest(i, B))
		}
		pick := map[string]bool{"resigned-duplicate": true, "relabelled": true, "non-member-relabelled": true,
			"multi-two-signers": true, "garbage": true, "foreign-block": true}
		for _, hv := range w.hostile() {
			if !pick[hv.kind] {
				continue
			}
			items := []c09Ev{V(hon[0]), V(hon[1]), V(hon[2]), V(hon[3]), V(hv)}
			c09Perms(len(items), func(p []int) {
				evs := []c09Ev{Hi(w.blocks["L3"])}
				for _, i := range p {
					evs = append(evs, items[i])
				}
				w.syncCase(sPerm, "perm-sparse-ids", base, []*c09Block{w.blocks["R"]}, evs)
			})
		}
	}

	// (a3) the fetch path: the block is not known locally but other replicas have it; votes wait for it, a
	// foreign proposal is handled first (the delayed votes are retried through the fetch), in all orders
	{
		n := 4
		w := world(crypto.NameECDSA, n)
		B, D := w.blocks["B"], w.blocks["D"]
		noB := []*c09Block{w.blocks["G"], w.blocks["C"], w.blocks["O"], w.blocks["L3"]}
		remote := []*c09Block{w.blocks["R"], B}
		hon := []*c09Vote{w.honest(1, B), w.honest(2, B), w.honest(3, B)}
		pick := map[string]bool{"resigned-duplicate": true, "signature-over-other-block": true, "unknown-block": true,
			"fetchable-block": true, "multi-two-signers": true, "garbage": true}
		var extra []c09Ev
		for _, hv := range w.hostile() {
			if pick[hv.kind] {
				extra = append(extra, V(hv))
			}
		}
		extra = append(extra, P(B), P(w.blocks["C"]))
		for _, x := range extra {
			items := []c09Ev{V(hon[0]), V(hon[1]), V(hon[2]), P(D), x}
			c09Perms(len(items), func(p []int) {
				evs := []c09Ev{Hi(w.blocks["L3"])}
				for _, i := range p {
					evs = append(evs, items[i])
				}
				w.syncCase(sPerm, "perm-fetch", noB, remote, evs)
			})
		}
	}

	// (a4) ViewStates changes between the votes: the high TC moves to the block's view / a later / an earlier
	// view, at every position of the vote sequence, alone or together with a high-QC move to another (older)
	// block, a hostile vote, or the block's own late arrival. Only the high QC bounds which votes still count.
	{
		n := 4
		w := world(crypto.NameECDSA, n)
		B, D := w.blocks["B"], w.blocks["D"]
		base := []*c09Block{w.blocks["G"], B, w.blocks["C"], w.blocks["O"], w.blocks["L3"]}
		noB := []*c09Block{w.blocks["G"], w.blocks["C"], w.blocks["O"], w.blocks["L3"]}
		hon := []*c09Vote{w.honest(1, B), w.honest(2, B), w.honest(3, B)}
		garbage := w.vote("garbage", B, w.garbage(w.ids[1]))
		for _, tv := range []uint64{B.view, 9, 2} {
			for yi, y := range []c09Ev{Hi(D), V(garbage), P(B)} {
				store := base
				if yi == 2 {
					store = noB
				}
				items := []c09Ev{V(hon[0]), V(hon[1]), V(hon[2]), TC(tv), y}
				c09Perms(len(items), func(p []int) {
					evs := []c09Ev{Hi(w.blocks["L3"])}
					for _, i := range p {
						evs = append(evs, items[i])
					}
					w.syncCase(sPerm, "perm-high-tc", store, []*c09Block{w.blocks["R"]}, evs)
				})
			}
		}
	}

	// (a5) equivocation: two different blocks B and E for one view; the votes for them arrive interleaved in every
	// order (the vote for the other block first, in between, last); each block's votes count for that block only
	for _, n := range []int{4, 7} {
		w := world(crypto.NameECDSA, n)
		B, E := w.blocks["B"], w.blocks["E"]
		both := []*c09Block{w.blocks["G"], B, E, w.blocks["C"], w.blocks["L3"]}
		noE := []*c09Block{w.blocks["G"], B, w.blocks["C"], w.blocks["L3"]}
		type variant struct {
			store []*c09Block
			items []c09Ev
		}
		var variants []variant
		if n == 4 {
			variants = []variant{
				{both, []c09Ev{V(w.honest(1, B)), V(w.honest(2, B)), V(w.honest(3, B)), V(w.honest(4, E)), V(w.honest(3, E))}},
				{both, []c09Ev{V(w.honest(1, B)), V(w.honest(2, B)), V(w.honest(4, E)), V(w.honest(1, E)), V(w.honest(2, E))}},
				{noE, []c09Ev{V(w.honest(1, B)), V(w.honest(2, B)), V(w.honest(3, B)), V(w.honest(4, E)), P(E)}},
			}
		} else {
			variants = []variant{{both, []c09Ev{V(w.honest(1, B)), V(w.honest(2, B)), V(w.honest(3, B)), V(w.honest(4, B)), V(w.honest(5, B)), V(w.honest(6, E)), V(w.honest(7, E))}}}
		}
		for vi, va := range variants {
			cnt := 0
			c09Perms(len(va.items), func(p []int) {
				cnt++
				if n == 7 && !deep && cnt%35 != 0 {
					return // 144 of the 5040 orders in the quick tier
				}
				evs := []c09Ev{Hi(w.blocks["L3"])}
				for _, i := range p {
					evs = append(evs, va.items[i])
				}
				w.syncCase(sPerm, fmt.Sprintf("perm-equivocation-%d", vi), va.store, []*c09Block{w.blocks["R"]}, evs)
			})
		}
	}

	// (a6) every scheme, every position: the honest votes in a fixed order (and reversed), each hostile vote of the
	// scheme's alphabet (signature objects with no participant, with two or more, with a participant that is not
	// the sender, ...) put before the first, in between, as the would-be quorum-completing vote, and after; half
	// of the honest votes are relayed (VoteMsg.ID differs from the signer)
	for _, scheme := range []string{crypto.NameEDDSA, crypto.NameBLS12} {
		for _, n := range []int{4, 7} {
			if scheme == crypto.NameBLS12 && n == 7 && !deep {
				continue
			}
			w := world(scheme, n)
			B := w.blocks["B"]
			base := []*c09Block{w.blocks["G"], B, w.blocks["C"], w.blocks["O"], w.blocks["L3"]}
			var hon []c09Ev
			for i := 1; i <= n; i++ {
				x := w.honest(i, B)
				if i%2 == 0 {
					x.sender = hotstuff.ID(w.ids[i%n])
				}
				hon = append(hon, V(x))
			}
			for _, hv := range w.hostile() {
				for rev := 0; rev < 2; rev++ {
					order := append([]c09Ev{}, hon...)
					if rev == 1 {
						for i, j := 0, len(order)-1; i < j; i, j = i+1, j-1 {
							order[i], order[j] = order[j], order[i]
						}
					}
					for pos := 0; pos <= len(order); pos++ {
						if n == 7 && pos > w.q {
							continue
						}
						evs := []c09Ev{Hi(w.blocks["L3"])}
						evs = append(evs, order[:pos]...)
						evs = append(evs, V(hv))
						evs = append(evs, order[pos:]...)
						w.syncCase(sPerm, "positions-"+scheme, base, []*c09Block{w.blocks["R"]}, evs)
					}
				}
			}
		}
	}

	// (a7) block availability over time: the voted block is not held; it is fetchable from the start, never, or
	// only from some point of the script on (and possibly not any more later), or arrives as a proposal in the
	// middle. k early votes wait for it, a proposal for another block releases them (first fetch attempt), the
	// remaining votes arrive and are released by a second proposal (another block's, or B's own).
	for _, n := range []int{4, 7} {
		w := world(crypto.NameECDSA, n)
		B, C, D := w.blocks["B"], w.blocks["C"], w.blocks["D"]
		noB := []*c09Block{w.blocks["G"], w.blocks["O"], w.blocks["L3"]}
		A := func(on bool) c09Ev { return c09Ev{kind: 'A', blk: B, on: on} }
		var hon []c09Ev
		for i := 1; i <= n; i++ {
			hon = append(hon, V(w.honest(i, B)))
		}
		for early := 1; early <= 3 && early < n; early++ {
			for _, second := range []*c09Block{C, B} {
				var script []c09Ev
				script = append(script, hon[:early]...)
				script = append(script, P(D))
				script = append(script, hon[early:]...)
				script = append(script, P(second), hon[0])
				for on := 0; on <= len(script)+1; on++ { // len+1 = never
					offs := []int{-1}
					if on <= len(script) {
						offs = append(offs, on+1, on+3)
					}
					for _, off := range offs {
						if n == 7 && !deep && (on+early)%2 == 1 {
							continue
						}
						evs := []c09Ev{Hi(w.blocks["L3"])}
						for i := 0; i <= len(script); i++ {
							if i == on {
								evs = append(evs, A(true))
							}
							if i == off {
								evs = append(evs, A(false))
							}
							if i < len(script) {
								evs = append(evs, script[i])
							}
						}
						w.syncCase(sPerm, "availability", noB, []*c09Block{w.blocks["R"]}, evs)
					}
				}
			}
		}
	}

	// (a8) many invalid votes first: 4 to 8 votes that fail verification (garbage, relabelled, unknown signer, signature
	// over another block; naming B and naming C), then a quorum of valid votes for B and a quorum for C. Whatever
	// the invalid ones cost, the valid ones must still be counted (sync here, async bursts below).
	manyInvalid := func(w *c09World, k int) (invalid, valid []*c09Vote) {
		B, C := w.blocks["B"], w.blocks["C"]
		n := w.n
		kinds := []*c09Vote{
			w.vote("garbage", B, w.garbage(w.ids[min(2, n)-1])),
			w.vote("relabelled", B, w.genuine(n, B).relabel(w.ids[0])),
			w.vote("garbage-other-block", C, w.garbage(w.ids[min(3, n)-1])),
			w.vote("non-member", B, w.genuine(n+1, B)),
			w.vote("signature-over-other-block", C, w.genuine(min(3, n), B)),
			w.vote("signature-over-other-block", B, w.genuine(min(3, n), C)),
			w.vote("non-member-relabelled", C, w.genuine(n+1, C).relabel(w.ids[n-1])),
			w.vote("garbage", B, w.garbage(w.ids[0])),
		}
		invalid = kinds[:k]
		for i := 1; i <= w.q; i++ {
			valid = append(valid, w.honest(i, B))
		}
		for i := n; i > n-w.q; i-- {
			valid = append(valid, w.honest(i, C))
		}
		return invalid, valid
	}
	for _, scheme := range []string{crypto.NameECDSA, crypto.NameEDDSA} {
		for _, n := range []int{4, 7} {
			w := world(scheme, n)
			store := []*c09Block{w.blocks["G"], w.blocks["B"], w.blocks["C"], w.blocks["L3"]}
			for _, k := range []int{4, 5, 6, 8} {
				invalid, valid := manyInvalid(w, k)
				evs := []c09Ev{Hi(w.blocks["L3"])}
				for _, x := range invalid {
					evs = append(evs, V(x))
				}
				for _, x := range valid {
					evs = append(evs, V(x))
				}
				w.syncCase(sPerm, "many-invalid-first", store, []*c09Block{w.blocks["R"]}, evs)
				w.asyncCase(sAsync, store, []*c09Block{w.blocks["R"]}, []c09Ev{Hi(w.blocks["L3"])}, append(append([]*c09Vote{}, invalid...), valid...), -1, k%2 == 0)
			}
		}
	}

	// (b) seeded random stream: every scheme, n in {4,7}, several hostile votes, duplicates after the
	// certificate, foreign proposals, fetches, high-QC moves below and above the block
	schemes := []string{crypto.NameECDSA, crypto.NameEDDSA, crypto.NameBLS12}
	nRand := pick(900, 12000)
	for it := 0; it < nRand; it++ {
		scheme := schemes[0]
		switch x := v.rng.Intn(20); {
		case x < 5:
			scheme = schemes[1]
		case x < 6 || (deep && x < 8):
			scheme = schemes[2]
		}
		n := []int{4, 7, 4, 7, 5, 10}[v.rng.Intn(6)]
		if scheme == crypto.NameBLS12 {
			n = []int{4, 7}[v.rng.Intn(2)]
		}
		w := anyWorld(scheme, n)
		B := w.blocks["B"]
		store0 := []*c09Block{w.blocks["G"], w.blocks["O"]}
		haveB := v.rng.Intn(2) == 0
		if haveB {
			store0 = append(store0, B)
		}
		if v.rng.Intn(2) == 0 {
			store0 = append(store0, w.blocks["C"])
		}
		remote := []*c09Block{w.blocks["R"]}
		if v.rng.Intn(4) == 0 {
			remote = append(remote, B)
		}
		hs := w.hostile()
		var evs []c09Ev
		if v.rng.Intn(3) > 0 {
			evs = append(evs, Hi(w.blocks["L3"]))
		}
		ids := v.rng.Perm(n)
		k := w.q + v.rng.Intn(n-w.q+1)
		if v.rng.Intn(5) == 0 {
			k = w.q - 1
		}
		var pool []c09Ev
		for _, i := range ids[:k] {
			x := w.honest(i+1, B)
			if v.rng.Intn(2) == 0 {
				x.sender = hotstuff.ID(w.ids[v.rng.Intn(n)]) // relayed: the sender id is not the signer
			}
			pool = append(pool, V(x))
			if v.rng.Intn(4) == 0 {
				pool = append(pool, V(x))
			}
		}
		for j := v.rng.Intn(4); j > 0; j-- {
			pool = append(pool, V(hs[v.rng.Intn(len(hs))]))
		}
		if !haveB || v.rng.Intn(4) == 0 {
			pool = append(pool, P(B))
		}
		switch v.rng.Intn(8) {
		case 0:
			pool = append(pool, P(w.blocks["D"]))
		case 1:
			pool = append(pool, Hi(w.blocks["L9"]))
		case 2:
			pool = append(pool, P(w.blocks["C"]))
		case 3:
			pool = append(pool, Hi(w.blocks["D"]))
		}
		if !haveB && v.rng.Intn(3) == 0 { // the block becomes fetchable (and maybe unfetchable again) at some point
			pool = append(pool, c09Ev{kind: 'A', blk: B, on: true})
			if v.rng.Intn(3) == 0 {
				pool = append(pool, c09Ev{kind: 'A', blk: B, on: false})
			}
			if v.rng.Intn(2) == 0 {
				pool = append(pool, P(w.blocks["D"]))
			}
		}
		if v.rng.Intn(4) == 0 { // an equivocating block of B's view gathers votes of its own
			E := w.blocks["E"]
			for _, i := range v.rng.Perm(n)[:1+v.rng.Intn(w.q)] {
				pool = append(pool, V(w.honest(i+1, E)))
			}
			if v.rng.Intn(2) == 0 {
				store0 = append(store0, E)
			} else {
				pool = append(pool, P(E))
			}
		}
		if v.rng.Intn(3) == 0 { // the high TC moves (earlier / the block's / later views), possibly twice
			pool = append(pool, TC([]uint64{2, 5, 6, 9}[v.rng.Intn(4)]))
			if v.rng.Intn(3) == 0 {
				pool = append(pool, TC([]uint64{4, 5, 7}[v.rng.Intn(3)]))
			}
		}
		v.rng.Shuffle(len(pool), func(i, j int) { pool[i], pool[j] = pool[j], pool[i] })
		evs = append(evs, pool...)
		if v.rng.Intn(3) == 0 { // a second round of the same votes after the certificate
			for _, e := range pool {
				if e.kind == 'V' && v.rng.Intn(2) == 0 {
					evs = append(evs, e)
				}
			}
		}
		w.syncCase(sRand, "random", store0, remote, evs)
	}

	// (b2) membership growth: the collector (VotingMachine, Authority, crypto base) is created while the
	// configuration knows only the first four replicas; a few votes arrive (never an old quorum), then the
	// other replicas are added with RuntimeConfig.AddReplica, then the rest. The model's membership is
	// the final one: thresholds and membership tests must be read at the time of use.
	nGrow := pick(300, 3000)
	for it := 0; it < nGrow; it++ {
		scheme := schemes[0]
		switch x := v.rng.Intn(20); {
		case x < 5:
			scheme = schemes[1]
		case x < 6:
			scheme = schemes[2]
		}
		n := 7
		if scheme != crypto.NameBLS12 && v.rng.Intn(3) == 0 {
			n = 10
		}
		w := anyWorld(scheme, n)
		B := w.blocks["B"]
		store0 := []*c09Block{w.blocks["G"], w.blocks["O"], w.blocks["C"]}
		haveB := v.rng.Intn(3) > 0
		if haveB {
			store0 = append(store0, B)
		}
		var hs []*c09Vote
		allHostile := w.hostile()
		for _, h := range allHostile {
			if h.kind != "resigned-duplicate" {
				hs = append(hs, h)
			}
		}
		evs := []c09Ev{Hi(w.blocks["L3"])}
		// before the growth: at most two distinct valid voters (the old quorum is three)
		old := v.rng.Perm(4)[:v.rng.Intn(3)]
		var pre []c09Ev
		for _, i := range old {
			pre = append(pre, V(w.honest(i+1, B)))
			if v.rng.Intn(3) == 0 {
				pre = append(pre, V(w.honest(i+1, B)))
			}
		}
		for j := v.rng.Intn(3); j > 0; j-- {
			pre = append(pre, V(hs[v.rng.Intn(len(hs))]))
		}
		v.rng.Shuffle(len(pre), func(i, j int) { pre[i], pre[j] = pre[j], pre[i] })
		evs = append(evs, pre...)
		evs = append(evs, c09Ev{kind: 'M'})
		k := w.q + v.rng.Intn(n-w.q+1)
		if v.rng.Intn(4) == 0 {
			k = w.q - 1 // one short of the new quorum (but at least the old one)
		}
		var pool []c09Ev
		for _, i := range v.rng.Perm(n)[:k] {
			pool = append(pool, V(w.honest(i+1, B)))
		}
		for j := v.rng.Intn(3); j > 0; j-- {
			pool = append(pool, V(allHostile[v.rng.Intn(len(allHostile))]))
		}
		if !haveB {
			pool = append(pool, P(B))
		}
		v.rng.Shuffle(len(pool), func(i, j int) { pool[i], pool[j] = pool[j], pool[i] })
		evs = append(evs, pool...)
		w.startN = 4
		w.syncCase(sRand, "membership-growth", store0, []*c09Block{w.blocks["R"]}, evs)
		w.startN = 0
	}

	// (c) boundary / malformed stream
	for _, n := range []int{1, 2, 3, 4} {
		for _, scheme := range []string{crypto.NameECDSA, crypto.NameEDDSA} {
			w := world(scheme, n)
			B := w.blocks["B"]
			base := []*c09Block{w.blocks["G"], B}
			var evs []c09Ev
			for i := 1; i <= n; i++ {
				evs = append(evs, V(w.honest(i, B)))
			}
			w.syncCase(sEdge, "edge-all-honest", base, nil, evs)
			for _, hv := range w.hostile() {
				evs2 := append([]c09Ev{V(hv)}, evs...)
				w.syncCase(sEdge, "edge-hostile-first", base, []*c09Block{w.blocks["R"]}, evs2)
				evs3 := append(append([]c09Ev{}, evs[:len(evs)-1]...), V(hv), evs[len(evs)-1])
				w.syncCase(sEdge, "edge-hostile-before-last", base, []*c09Block{w.blocks["R"]}, evs3)
				w.syncCase(sEdge, "edge-hostile-only", []*c09Block{w.blocks["G"]}, nil, []c09Ev{V(hv), V(hv), P(B), V(hv)})
			}
			// exactly quorum-1 votes, the block arrives, then the last one; and the high QC passes the block in between
			if n >= 3 {
				q := w.q
				var e4 []c09Ev
				for i := 1; i < q; i++ {
					e4 = append(e4, V(w.honest(i, B)))
				}
				e4 = append(e4, P(B), V(w.honest(q, B)))
				w.syncCase(sEdge, "edge-block-then-last", []*c09Block{w.blocks["G"]}, nil, e4)
				e5 := append(append([]c09Ev{}, e4[:len(e4)-1]...), Hi(w.blocks["L9"]), e4[len(e4)-1], V(w.honest(n, B)))
				w.syncCase(sEdge, "edge-high-passes-block", []*c09Block{w.blocks["G"]}, nil, e5)
				// a vote waits for its block, a foreign proposal is processed first (retry through the fetch)
				e6 := append([]c09Ev{e4[0], P(w.blocks["D"])}, e4[1:]...)
				w.syncCase(sEdge, "edge-foreign-proposal-drops-delayed", []*c09Block{w.blocks["G"]}, nil, e6)
				w.syncCase(sEdge, "edge-foreign-proposal-fetch", []*c09Block{w.blocks["G"]}, []*c09Block{B}, e6)
				// the high QC reaches B while its bucket is half full; a vote for a newer block then cleans up
				C := w.blocks["C"]
				e7 := []c09Ev{V(w.honest(1, B)), V(w.honest(2, B)), Hi(B), V(w.honest(1, C)), V(w.honest(n, B)), V(w.honest(2, C))}
				w.syncCase(sEdge, "edge-stale-bucket-cleanup", []*c09Block{w.blocks["G"], B, C}, nil, e7)
			}
		}
	}

	// (d) asynchronous verification (list schemes): bursts, quiescence, witness order
	nAsync := pick(250, 3000)
	for it := 0; it < nAsync; it++ {
		scheme := schemes[v.rng.Intn(2)]
		n := []int{4, 7}[v.rng.Intn(2)]
		w := anyWorld(scheme, n)
		B := w.blocks["B"]
		store0 := []*c09Block{w.blocks["G"], B, w.blocks["C"], w.blocks["O"]}
		setup := []c09Ev{Hi(w.blocks["L3"])}
		hs := w.hostile()
		// every third burst: the block itself arrives in the middle of the burst (votes before it are delayed
		// and released together, then verified concurrently with the ones that follow)
		late := v.rng.Intn(3) == 0
		if late {
			store0 = []*c09Block{w.blocks["G"], w.blocks["C"], w.blocks["O"]}
			var keep []*c09Vote
			for _, h := range hs {
				if h.kind != "unknown-block" && h.kind != "fetchable-block" {
					keep = append(keep, h)
				}
			}
			hs = keep
		}
		var burst []*c09Vote
		k := w.q + v.rng.Intn(n-w.q+1)
		if v.rng.Intn(6) == 0 {
			k = w.q - 1
		}
		for _, i := range v.rng.Perm(n)[:k] {
			x := w.honest(i+1, B)
			burst = append(burst, x)
			if v.rng.Intn(3) == 0 {
				burst = append(burst, x)
			}
		}
		for j := v.rng.Intn(4); j > 0; j-- {
			burst = append(burst, hs[v.rng.Intn(len(hs))])
		}
		if v.rng.Intn(4) == 0 { // a concurrent second block
			for _, i := range v.rng.Perm(n)[:w.q] {
				burst = append(burst, w.honest(i+1, w.blocks["C"]))
			}
		}
		if v.rng.Intn(3) == 0 { // an equivocating block of the same view: its votes are verified concurrently with B's
			store0 = append(store0, w.blocks["E"])
			for _, i := range v.rng.Perm(n)[:1+v.rng.Intn(w.q)] {
				burst = append(burst, w.honest(i+1, w.blocks["E"]))
			}
			w.v.Count("async-equivocation")
		}
		v.rng.Shuffle(len(burst), func(i, j int) { burst[i], burst[j] = burst[j], burst[i] })
		latePos := -1
		if late {
			latePos = v.rng.Intn(len(burst) + 1)
		}
		// the high TC: already at / beyond the block's view before the burst, or moving there in its middle
		switch v.rng.Intn(4) {
		case 0:
			setup = append(setup, TC([]uint64{5, 9, 2}[v.rng.Intn(3)]))
		case 1:
			w.midTC = []uint64{5, 9}[v.rng.Intn(2)]
		}
		w.asyncCase(sAsync, store0, []*c09Block{w.blocks["R"]}, setup, burst, latePos, v.rng.Intn(2) == 0)
		w.midTC = 0
	}

	v.Close("one evaluation = one stimulus sequence run on a real VotingMachine (event loop drained after every stimulus; or one asynchronous burst); non-trivial = a certificate was emitted or at least three different kinds of stimuli/hostile votes occur")
	if len(v.fails) > 0 {
		t.Logf("oracle failures: %d", len(v.fails))
	}
}

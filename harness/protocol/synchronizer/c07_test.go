package synchronizer

// C07 correspondence harness (views and certified state only move forward, and only on evidence).
// Injected by /verif/bin/check with `go test -overlay`; never part of /repo.
//
// Part 1: the universe (real keys, real blocks, ground-truth table of signatures) and the rendering of
// abstract certificate descriptions to Go objects.  All identifiers are prefixed c07.

import (
	"context"
	"crypto/rand"
	"encoding/binary"
	"fmt"
	"io"
	"math/big"
	"os"
	"sort"
	"strings"
	"sync"
	"testing"
	"time"

	bls12 "github.com/kilic/bls12-381"
	"github.com/relab/hotstuff"
	"github.com/relab/hotstuff/core"
	"github.com/relab/hotstuff/core/eventloop"
	"github.com/relab/hotstuff/core/logging"
	"github.com/relab/hotstuff/internal/proto/clientpb"
	"github.com/relab/hotstuff/protocol"
	"github.com/relab/hotstuff/protocol/comm"
	"github.com/relab/hotstuff/protocol/consensus"
	"github.com/relab/hotstuff/protocol/leaderrotation"
	"github.com/relab/hotstuff/protocol/rules"
	"github.com/relab/hotstuff/protocol/votingmachine"
	"github.com/relab/hotstuff/security/blockchain"
	"github.com/relab/hotstuff/security/cert"
	"github.com/relab/hotstuff/security/crypto"
	"github.com/relab/hotstuff/security/crypto/keygen"
	"github.com/relab/hotstuff/wiring"
)

// ---------------------------------------------------------------------------------------------
// ground truth

// one genuine signature: who really signed which message
type c07Contrib struct {
	signer int
	msg    string
}

// what a signed message means for the property
type c07Meaning struct {
	kind byte   // 'B' vote for a block, 'V' timeout view signature, 'T' timeout message signature, '?' other
	view uint64 // block view / timeout view
	key  string // grouping key: one block, one view
}

type c07Univ struct {
	scheme string
	n, q   int // the membership the replica under test currently has (a growth world starts smaller)
	nFull  int // all replicas with keys in this universe
	// BLS worlds with a member whose proof of possession is bad (set per world by c07NewWorld)
	rogueX   *big.Int              // the scalar behind a rogue public key x*G1 - sum(other keys), nil if none
	rogueSet []int                 // the members named by a forged aggregate (those whose keys were subtracted + the rogue)
	unusable map[int]bool          // members whose registered key must not count (bad or missing proof)
	keys     []hotstuff.PrivateKey // keys[i-1] belongs to replica i; keys[n] to the outsider n+1
	infos    []hotstuff.ReplicaInfo
	bases    []crypto.Base
	hashIdx  map[hotstuff.Hash]uint64
	blocks   map[string]*hotstuff.Block
	bbytes   map[string]*hotstuff.Block // block.ToBytes() -> block
	sigMemo  map[string][]byte
	garbage  int
}

func c07Key(scheme string) hotstuff.PrivateKey {
	var k hotstuff.PrivateKey
	var err error
	if scheme == crypto.NameECDSA {
		k, err = keygen.GenerateECDSAPrivateKey()
	} else if scheme == crypto.NameBLS12 {
		k, err = crypto.GenerateBLS12PrivateKey()
	} else {
		_, k, err = keygen.GenerateED25519Key()
	}
	if err != nil {
		panic(err)
	}
	return k
}

func c07NewUniv(scheme string, n int) *c07Univ {
	u := &c07Univ{scheme: scheme, n: n, nFull: n, q: hotstuff.QuorumSize(n), hashIdx: map[hotstuff.Hash]uint64{},
		blocks: map[string]*hotstuff.Block{}, bbytes: map[string]*hotstuff.Block{}, sigMemo: map[string][]byte{}}
	for i := 0; i <= n; i++ {
		k := c07Key(scheme)
		u.keys = append(u.keys, k)
		cfg := core.NewRuntimeConfig(hotstuff.ID(i+1), k)
		b, err := crypto.New(cfg, scheme)
		if err != nil {
			panic(err)
		}
		u.bases = append(u.bases, b)
		if i < n {
			// (BLS: creating the crypto base put the proof of possession into the connection metadata)
			u.infos = append(u.infos, hotstuff.ReplicaInfo{ID: hotstuff.ID(i + 1), PubKey: k.Public(), Metadata: cfg.ConnectionMetadata()})
		}
	}
	u.hashIdx[hotstuff.Hash{}] = 0
	gen := hotstuff.GetGenesis()
	u.hashIdx[gen.Hash()] = 1
	u.blocks["G"] = gen
	u.bbytes[string(gen.ToBytes())] = gen
	// main chain b1..b8, each certifying and extending its predecessor
	prev := "G"
	for i := 1; i <= 8; i++ {
		name := fmt.Sprintf("b%d", i)
		u.mkBlock(name, prev, prev, uint64(i))
		prev = name
	}
	u.mkBlock("c3", "b1", "b1", 3)   // a fork
	u.mkBlock("x9", "b2", "b2", 9)   // far ahead
	u.mkBlock("x30", "b2", "b2", 30) // very far ahead
	u.mkBlock("f4", "b3", "b3", 4)   // only a peer has it (fetchable)
	u.mkBlock("m5", "b4", "b4", 5)   // nobody has it
	u.mkBlock("o6", "m5", "b4", 6)   // its parent is missing
	u.mkBlock("n7", "b2", "b2", 7)   // a chain whose views do not increase towards the tip:
	u.mkBlock("n5", "n7", "b2", 5)   //   n5 (view 5) is a child of n7 (view 7)
	u.mkBlock("n6", "n5", "b2", 6)   //   n6 (view 6) is a child of n5
	// a branch whose ancestors must be fetched at depth 1, 2, 3 (which of them a peer has varies per world)
	u.mkBlock("r6", "b5", "b5", 6)
	u.mkBlock("r7", "r6", "r6", 7)
	u.mkBlock("r8", "r7", "r7", 8)
	u.mkBlock("r10", "r8", "r8", 10)
	// genuine blocks with views at and beyond the 32-bit and 63-bit boundaries
	u.mkBlock("h31", "b2", "b2", 1<<31)
	u.mkBlock("h32", "b2", "b2", 1<<32+2)
	u.mkBlock("h63", "b2", "b2", 1<<63+1)
	return u
}

func (u *c07Univ) intern(h hotstuff.Hash) uint64 {
	if x, ok := u.hashIdx[h]; ok {
		return x
	}
	x := uint64(len(u.hashIdx))
	u.hashIdx[h] = x
	return x
}

// mkBlock creates block `name` with the given parent, a genuine all-replica QC for block `certified`, and view.
func (u *c07Univ) mkBlock(name, parent, certified string, view uint64) *hotstuff.Block {
	qc, _ := u.buildQC(c07QCSpec{Kind: "valid", Block: certified})
	b := hotstuff.NewBlock(u.blocks[parent].Hash(), qc, &clientpb.Batch{}, hotstuff.View(view), 2)
	u.blocks[name] = b
	u.bbytes[string(b.ToBytes())] = b
	u.intern(b.Hash())
	return b
}

func (u *c07Univ) blockName(h hotstuff.Hash) string {
	for n, b := range u.blocks {
		if b.Hash() == h {
			return n
		}
	}
	return "?"
}

// sigBytes returns replica `signer`'s genuine signature bytes on msg (memoised: a signature, once made, exists).
func (u *c07Univ) sigBytes(signer int, msg []byte) []byte {
	key := fmt.Sprintf("%d|%s", signer, msg)
	if b, ok := u.sigMemo[key]; ok {
		return b
	}
	s, err := u.bases[signer-1].Sign(msg)
	if err != nil {
		panic(err)
	}
	b := c07Raw(s)
	u.sigMemo[key] = b
	return b
}

// c07Raw: the bytes of the one individual signature in a single-signer signature object (the byte form of a
// multi-signature as a whole frames each entry, which is not what an entry is restored from)
func c07Raw(s hotstuff.QuorumSignature) []byte {
	switch m := s.(type) {
	case crypto.Multi[*crypto.ECDSASignature]:
		return m[0].ToBytes()
	case crypto.Multi[*crypto.EDDSASignature]:
		return m[0].ToBytes()
	}
	return s.ToBytes()
}

// one requested entry of a multi-signature
type c07Part struct {
	label  int    // claimed signer
	signer int    // whose key really signed; 0 = random bytes
	msg    []byte // what was really signed
}

// signer -1: padding — BLS: the id is only set in the bitfield and nothing is added to the aggregate point;
// list schemes: an entry of random bytes
const c07Pad = -1

func (u *c07Univ) multi(parts []c07Part) (hotstuff.QuorumSignature, []c07Contrib) {
	var contribs []c07Contrib
	raw := make([][]byte, len(parts))
	for i, p := range parts {
		if p.signer == c07Pad && u.scheme == crypto.NameBLS12 {
			continue
		}
		if p.signer == 0 || p.signer == c07Pad {
			b := make([]byte, 64)
			_, _ = rand.Read(b)
			if u.scheme == crypto.NameBLS12 { // a well-formed point that is nobody's signature
				g2 := bls12.NewG2()
				pt, err := g2.HashToCurve(b, []byte("C07-GARBAGE"))
				if err != nil {
					panic(err)
				}
				b = g2.ToCompressed(pt)
			}
			raw[i] = b
			u.garbage++
			continue
		}
		raw[i] = u.sigBytes(p.signer, p.msg)
		contribs = append(contribs, c07Contrib{p.signer, string(p.msg)})
	}
	if u.scheme == crypto.NameBLS12 {
		// an aggregate: the sum of the entries' points with the set of claimed signers (a repeated label cannot
		// be expressed; the repeated point is still added)
		g2 := bls12.NewG2()
		agg := g2.Zero()
		var bf crypto.Bitfield
		for i, p := range parts {
			bf.Add(hotstuff.ID(p.label))
			if p.signer == c07Pad {
				continue
			}
			pt, err := g2.FromCompressed(raw[i])
			if err != nil {
				panic(err)
			}
			g2.Add(agg, agg, pt)
		}
		obj, err := crypto.RestoreBLS12AggregateSignature(g2.ToCompressed(agg), bf)
		if err != nil {
			panic(err)
		}
		return obj, contribs
	}
	if u.scheme == crypto.NameECDSA {
		m := make(crypto.Multi[*crypto.ECDSASignature], len(parts))
		for i, p := range parts {
			m[i] = crypto.RestoreECDSASignature(raw[i], hotstuff.ID(p.label))
		}
		return m, contribs
	}
	m := make(crypto.Multi[*crypto.EDDSASignature], len(parts))
	for i, p := range parts {
		m[i] = crypto.RestoreEDDSASignature(raw[i], hotstuff.ID(p.label))
	}
	return m, contribs
}

var c07BLSDomain = []byte("BLS_SIG_BLS12381G2_XMD:SHA-256_SSWU_RO_POP_")

// forge: x*H(m) for the scalar x of the rogue key pk = x*G1 - sum(pk_k, k in S): it satisfies the pairing equation
// of the aggregate key of S + the rogue member although nobody signed m.  It verifies iff the rogue key is used,
// which its (invalid) proof of possession must prevent.  Without a rogue member: a point that is nobody's signature.
func (u *c07Univ) forge(msg []byte) hotstuff.QuorumSignature {
	if u.rogueX == nil {
		var ps []c07Part
		for i := 1; i <= u.q; i++ {
			ps = append(ps, c07Part{i, 0, nil})
		}
		sig, _ := u.multi(ps)
		return sig
	}
	g2 := bls12.NewG2()
	pt, err := g2.HashToCurve(msg, c07BLSDomain)
	if err != nil {
		panic(err)
	}
	g2.MulScalarBig(pt, pt, u.rogueX)
	var bf crypto.Bitfield
	for _, i := range u.rogueSet {
		bf.Add(hotstuff.ID(i))
	}
	obj, err := crypto.RestoreBLS12AggregateSignature(g2.ToCompressed(pt), bf)
	if err != nil {
		panic(err)
	}
	return obj
}

// signer patterns shared by the three certificate kinds.  msgOf gives the message replica i would sign,
// altOf the message used by the "wrong message" patterns.
func (u *c07Univ) pattern(kind string, msgOf, altOf func(i int) []byte) ([]c07Part, bool) {
	var ps []c07Part
	honest := func(k int) {
		for i := 1; i <= k; i++ {
			ps = append(ps, c07Part{i, i, msgOf(i)})
		}
	}
	if strings.HasPrefix(kind, "pad:") {
		// "pad:<g>:<total>:<with>:<place>": g genuine member signers whose aggregate is exactly their sum, the
		// participant set padded to <total> ids that contributed nothing (list schemes: random bytes for them)
		//   with   above    non-member ids just above n        far  ids from 300
		//          members  members that did not sign          mixed  non-signing members, then non-members
		//   place  lo  the genuine signers are the lowest members (padding above them)
		//          hi  the genuine signers are the highest members (member padding below them)
		//          mid the genuine signers are the members just below member 4 and the padding starts at member 4
		//              (the member whose proof of possession is bad in the bad-proof worlds)
		f := strings.Split(kind, ":")
		if len(f) != 5 {
			return nil, false
		}
		g, total := 0, 0
		_, e1 := fmt.Sscanf(f[1], "%d", &g)
		_, e2 := fmt.Sscanf(f[2], "%d", &total)
		if e1 != nil || e2 != nil || g < 1 || g > total || g > u.n {
			return nil, false
		}
		var gen []int
		switch f[4] {
		case "lo":
			for i := 1; i <= g; i++ {
				gen = append(gen, i)
			}
		case "hi":
			for i := u.n - g + 1; i <= u.n; i++ {
				gen = append(gen, i)
			}
		case "mid":
			for i := 4 - g; i <= 3; i++ {
				if i < 1 {
					return nil, false
				}
				gen = append(gen, i)
			}
		default:
			return nil, false
		}
		used := map[int]bool{}
		for _, i := range gen {
			used[i] = true
			ps = append(ps, c07Part{i, i, msgOf(i)})
		}
		var cand []int
		members := func(from int) {
			for i := from; i <= u.n; i++ {
				if !used[i] {
					cand = append(cand, i)
				}
			}
			for i := 1; i < from; i++ {
				if !used[i] {
					cand = append(cand, i)
				}
			}
		}
		switch f[3] {
		case "above":
			for i := u.n + 1; i <= u.n+total; i++ {
				cand = append(cand, i)
			}
		case "far":
			for i := 300; i < 300+total; i++ {
				cand = append(cand, i)
			}
		case "members":
			members(1)
		case "mixed":
			members(4)
			for i := u.n + 1; i <= u.n+total; i++ {
				cand = append(cand, i)
			}
		default:
			return nil, false
		}
		for _, id := range cand {
			if len(ps) >= total {
				break
			}
			ps = append(ps, c07Part{id, c07Pad, nil})
		}
		sort.Slice(ps, func(a, b int) bool { return ps[a].label < ps[b].label })
		return ps, len(ps) == total
	}
	if strings.HasPrefix(kind, "jp:") {
		// "jp:<g>:<layout>:<total>:<junk>": <total> entries labelled with the distinct members 1..total, g of them
		// genuine; the others are junk ("g" random bytes, "o" the member's genuine signature of another message)
		// placed first / last / inter(leaved) / at:<p> (one junk entry at position p, g = total-1)
		f := strings.Split(kind, ":")
		if len(f) != 5 {
			return nil, false
		}
		g, total, pos := 0, 0, -1
		_, e1 := fmt.Sscanf(f[1], "%d", &g)
		_, e2 := fmt.Sscanf(f[3], "%d", &total)
		if e1 != nil || e2 != nil || g < 0 || g > total || total > len(u.bases) {
			return nil, false
		}
		junk := make([]bool, total)
		j := total - g
		switch {
		case f[2] == "first":
			for i := 0; i < j; i++ {
				junk[i] = true
			}
		case f[2] == "last":
			for i := g; i < total; i++ {
				junk[i] = true
			}
		case f[2] == "inter":
			for t := 0; t < j; t++ {
				junk[(2*t+1)*total/(2*j)] = true
			}
		case strings.HasPrefix(f[2], "at"):
			if _, err := fmt.Sscanf(f[2], "at%d", &pos); err != nil || pos < 0 || pos >= total {
				return nil, false
			}
			junk[pos] = true
		default:
			return nil, false
		}
		for i := 0; i < total; i++ {
			id := i + 1
			switch {
			case !junk[i]:
				ps = append(ps, c07Part{id, id, msgOf(id)})
			case f[4] == "o":
				ps = append(ps, c07Part{id, id, altOf(id)})
			default:
				ps = append(ps, c07Part{id, 0, nil})
			}
		}
		return ps, true
	}
	if strings.HasPrefix(kind, "k=") { // exactly k distinct genuine signers 1..k
		k := 0
		if _, err := fmt.Sscanf(kind, "k=%d", &k); err != nil || k < 0 || k > len(u.bases) {
			return nil, false
		}
		honest(k)
		return ps, true
	}
	switch kind {
	case "valid":
		honest(u.q)
	case "validAll":
		honest(u.n)
	case "validHi": // the q highest ids
		for i := u.n - u.q + 1; i <= u.n; i++ {
			ps = append(ps, c07Part{i, i, msgOf(i)})
		}
	case "sub":
		honest(u.q - 1)
	case "dup": // q entries, q-1 distinct signers
		honest(u.q - 1)
		ps = append(ps, c07Part{1, 1, msgOf(1)})
	case "dup1": // one replica's signature q times
		for i := 0; i < u.q; i++ {
			ps = append(ps, c07Part{2, 2, msgOf(2)})
		}
	case "mixrep": // q entries: replicas 2 and 3 once each, then replica 2's signature again and again
		ps = append(ps, c07Part{2, 2, msgOf(2)}, c07Part{3, 3, msgOf(3)})
		for len(ps) < u.q {
			ps = append(ps, c07Part{2, 2, msgOf(2)})
		}
	case "ownrep": // the signature of the replica under test itself (id 1), q times
		for i := 0; i < u.q; i++ {
			ps = append(ps, c07Part{1, 1, msgOf(1)})
		}
	case "cached": // q distinct replicas starting at 2: genuine
		for i := 2; i <= u.q+1; i++ {
			ps = append(ps, c07Part{i, i, msgOf(i)})
		}
	case "wrongmsg":
		for i := 1; i <= u.q; i++ {
			ps = append(ps, c07Part{i, i, altOf(i)})
		}
	case "onewrong": // q-1 genuine + one signature on something else
		honest(u.q - 1)
		ps = append(ps, c07Part{u.q, u.q, altOf(u.q)})
	case "garbage":
		for i := 1; i <= u.q; i++ {
			ps = append(ps, c07Part{i, 0, nil})
		}
	case "onegarbage":
		honest(u.q - 1)
		ps = append(ps, c07Part{u.q, 0, nil})
	case "foreign": // q-1 genuine + the outsider
		honest(u.q - 1)
		ps = append(ps, c07Part{u.n + 1, u.n + 1, msgOf(u.n + 1)})
	case "mislabel": // q-1 genuine + replica 1's signature presented as replica q's
		honest(u.q - 1)
		ps = append(ps, c07Part{u.q, 1, msgOf(1)})
	default:
		return nil, false
	}
	return ps, true
}

// ---- QC ----
type c07QCSpec struct {
	Kind  string `json:"k"`           // pattern | relabel | nilsig | genesis | zero
	Block string `json:"b,omitempty"` // certified block
	Label int64  `json:"l,omitempty"` // stated view for relabel / genesis (else the block's view)
	Alt   string `json:"a,omitempty"` // block really signed for wrongmsg ("" = view bytes)
}

func (s c07QCSpec) String() string {
	if s.Kind == "relabel" || s.Kind == "genesis" {
		return fmt.Sprintf("qc.%s(%s@%d)", s.Kind, s.Block, s.Label)
	}
	return fmt.Sprintf("qc.%s(%s)", s.Kind, s.Block)
}

func (u *c07Univ) buildQC(s c07QCSpec) (hotstuff.QuorumCert, []c07Contrib) {
	switch s.Kind {
	case "zero":
		return hotstuff.QuorumCert{}, nil
	case "genesis":
		return hotstuff.NewQuorumCert(nil, hotstuff.View(s.Label), hotstuff.GetGenesis().Hash()), nil
	}
	b := u.blocks[s.Block]
	if b == nil {
		panic("c07: unknown block " + s.Block)
	}
	if s.Block == "G" && s.Kind == "valid" {
		return hotstuff.NewQuorumCert(nil, 0, b.Hash()), nil
	}
	if s.Kind == "nilsig" {
		return hotstuff.NewQuorumCert(nil, b.View(), b.Hash()), nil
	}
	if s.Kind == "forge" {
		return hotstuff.NewQuorumCert(u.forge(b.ToBytes()), b.View(), b.Hash()), nil
	}
	kind, label := s.Kind, b.View()
	if s.Kind == "relabel" {
		kind, label = "valid", hotstuff.View(s.Label)
	}
	msg := b.ToBytes()
	alt := b.View().ToBytes()
	if s.Alt != "" {
		alt = u.blocks[s.Alt].ToBytes()
	}
	ps, ok := u.pattern(kind, func(int) []byte { return msg }, func(int) []byte { return alt })
	if !ok {
		panic("c07: unknown QC kind " + s.Kind)
	}
	sig, contribs := u.multi(ps)
	return hotstuff.NewQuorumCert(sig, label, b.Hash()), contribs
}

// ---- TC ----
type c07TCSpec struct {
	Kind   string `json:"k"` // pattern | relabel | zero
	View   uint64 `json:"v"`
	Signed uint64 `json:"s,omitempty"` // relabel: the view really signed
}

func (s c07TCSpec) String() string {
	if s.Kind == "relabel" {
		return fmt.Sprintf("tc.relabel(%d as %d)", s.Signed, s.View)
	}
	return fmt.Sprintf("tc.%s(%d)", s.Kind, s.View)
}

func (u *c07Univ) buildTC(s c07TCSpec) (hotstuff.TimeoutCert, []c07Contrib) {
	if s.Kind == "zero" {
		return hotstuff.NewTimeoutCert(nil, 0), nil
	}
	if s.Kind == "forge" {
		return hotstuff.NewTimeoutCert(u.forge(hotstuff.View(s.View).ToBytes()), hotstuff.View(s.View)), nil
	}
	kind, signed := s.Kind, s.View
	if s.Kind == "relabel" {
		kind, signed = "valid", s.Signed
	}
	msg := hotstuff.View(signed).ToBytes()
	alt := hotstuff.View(signed + 1000).ToBytes()
	ps, ok := u.pattern(kind, func(int) []byte { return msg }, func(int) []byte { return alt })
	if !ok {
		panic("c07: unknown TC kind " + s.Kind)
	}
	sig, contribs := u.multi(ps)
	return hotstuff.NewTimeoutCert(sig, hotstuff.View(s.View)), contribs
}

// ---- AggQC ----
type c07AggSpec struct {
	Kind   string     `json:"k"` // pattern | relabel | mismatch
	View   uint64     `json:"v"`
	Signed uint64     `json:"s,omitempty"` // relabel: the view the timeout messages really state
	High   *c07QCSpec `json:"h,omitempty"` // the QC reported by replica 1 (the others report the genesis QC)
	// split-* kinds: the set of reporting replicas (keys of the QC map) and the set of signers differ
	//   split-junk       reporters 2..R+1 with their genuine signatures + random bytes labelled with other members
	//   split-othermsg   ... + other members' genuine signatures of a timeout message for another view
	//   split-rightmsg   ... + other members' genuine signatures of their own timeout message for this view (no report)
	//   split-morereports  q+1 reports, genuine signatures of only q of them
	//   split-diffsets   reports {1..q-1, q+1}, genuine signatures of {1..q}
	Reporters int `json:"r,omitempty"` // R (default 1)
	Total     int `json:"t,omitempty"` // number of signature entries (default q)
}

func (s c07AggSpec) String() string {
	h := ""
	if s.High != nil {
		h = "," + s.High.String()
	}
	if s.Kind == "relabel" {
		return fmt.Sprintf("agg.relabel(%d as %d%s)", s.Signed, s.View, h)
	}
	if strings.HasPrefix(s.Kind, "split-") {
		return fmt.Sprintf("agg.%s(%d,r=%d,t=%d%s)", s.Kind, s.View, s.Reporters, s.Total, h)
	}
	return fmt.Sprintf("agg.%s(%d%s)", s.Kind, s.View, h)
}

func (u *c07Univ) buildAgg(s c07AggSpec) (hotstuff.AggregateQC, []c07Contrib) {
	kind, signed := s.Kind, s.View
	if s.Kind == "relabel" {
		kind, signed = "valid", s.Signed
	}
	mismatch := false
	if s.Kind == "mismatch" { // the QC map shown differs from what replica 1 signed
		kind, mismatch = "valid", true
	}
	gqc := hotstuff.NewQuorumCert(nil, 0, hotstuff.GetGenesis().Hash())
	var contribs []c07Contrib
	qcOf := func(i int) hotstuff.QuorumCert {
		if i == 1 && s.High != nil {
			qc, cs := u.buildQC(*s.High)
			contribs = append(contribs, cs...)
			return qc
		}
		return gqc
	}
	msgOf := func(i int) []byte {
		return hotstuff.TimeoutMsg{ID: hotstuff.ID(i), View: hotstuff.View(signed), SyncInfo: hotstuff.NewSyncInfoWith(qcOf(i))}.ToBytes()
	}
	altOf := func(i int) []byte {
		return hotstuff.TimeoutMsg{ID: hotstuff.ID(i), View: hotstuff.View(signed + 1000), SyncInfo: hotstuff.NewSyncInfoWith(qcOf(i))}.ToBytes()
	}
	if strings.HasPrefix(s.Kind, "split-") {
		// the first reporter carries the high QC, if any
		first := 2
		if s.Kind == "split-morereports" || s.Kind == "split-diffsets" {
			first = 1
		}
		rq := func(i int) hotstuff.QuorumCert {
			if i == first && s.High != nil {
				return qcOf(1)
			}
			return gqc
		}
		rmsg := func(i int, v uint64) []byte {
			return hotstuff.TimeoutMsg{ID: hotstuff.ID(i), View: hotstuff.View(v), SyncInfo: hotstuff.NewSyncInfoWith(rq(i))}.ToBytes()
		}
		qcs := map[hotstuff.ID]hotstuff.QuorumCert{}
		var ps []c07Part
		switch s.Kind {
		case "split-morereports":
			for i := 1; i <= u.q+1 && i <= u.n; i++ {
				qcs[hotstuff.ID(i)] = rq(i)
				if i <= u.q {
					ps = append(ps, c07Part{i, i, rmsg(i, s.View)})
				}
			}
		case "split-diffsets":
			for i := 1; i <= u.q; i++ {
				ps = append(ps, c07Part{i, i, rmsg(i, s.View)})
				if i < u.q {
					qcs[hotstuff.ID(i)] = rq(i)
				}
			}
			qcs[hotstuff.ID(u.q+1)] = rq(u.q + 1)
		default:
			r := s.Reporters
			if r < 1 {
				r = 1
			}
			total := s.Total
			if total < 1 {
				total = u.q
			}
			for i := 2; i <= r+1; i++ {
				qcs[hotstuff.ID(i)] = rq(i)
				ps = append(ps, c07Part{i, i, rmsg(i, s.View)})
			}
			// the other entries are labelled with the members that did not report: r+2..n, then 1, then ids
			// beyond the membership
			var ids []int
			for x := r + 2; x <= u.n; x++ {
				ids = append(ids, x)
			}
			ids = append(ids, 1)
			for x := u.n + 1; len(ids) < total; x++ {
				ids = append(ids, x)
			}
			for _, id := range ids {
				if len(ps) >= total {
					break
				}
				switch s.Kind {
				case "split-junk":
					ps = append(ps, c07Part{id, 0, nil})
				case "split-othermsg":
					ps = append(ps, c07Part{id, c07Signer(u, id), rmsg(id, s.View+1000)})
				case "split-rightmsg":
					ps = append(ps, c07Part{id, c07Signer(u, id), rmsg(id, s.View)})
				default:
					panic("c07: unknown AggQC kind " + s.Kind)
				}
			}
		}
		sort.Slice(ps, func(a, b int) bool { return ps[a].label < ps[b].label })
		sig, cs := u.multi(ps)
		contribs = append(contribs, cs...)
		return hotstuff.NewAggregateQC(qcs, sig, hotstuff.View(s.View)), contribs
	}
	ps, ok := u.pattern(kind, msgOf, altOf)
	if !ok {
		panic("c07: unknown AggQC kind " + s.Kind)
	}
	qcs := map[hotstuff.ID]hotstuff.QuorumCert{}
	for _, p := range ps {
		if p.label == 1 && mismatch {
			qc, cs := u.buildQC(c07QCSpec{Kind: "valid", Block: "b1"})
			contribs = append(contribs, cs...)
			qcs[1] = qc
			continue
		}
		qcs[hotstuff.ID(p.label)] = qcOf(p.label)
	}
	sig, cs := u.multi(ps)
	contribs = append(contribs, cs...)
	return hotstuff.NewAggregateQC(qcs, sig, hotstuff.View(s.View)), contribs
}

// c07Signer: the key that signs for a claimed id (ids beyond the universe's keys are signed by the outsider)
func c07Signer(u *c07Univ, id int) int {
	if id > len(u.bases) {
		return len(u.bases)
	}
	return id
}

// ---- sync info ----
type c07SISpec struct {
	QC  *c07QCSpec  `json:"qc,omitempty"`
	TC  *c07TCSpec  `json:"tc,omitempty"`
	Agg *c07AggSpec `json:"agg,omitempty"`
}

func (s c07SISpec) String() string {
	var ps []string
	if s.QC != nil {
		ps = append(ps, s.QC.String())
	}
	if s.TC != nil {
		ps = append(ps, s.TC.String())
	}
	if s.Agg != nil {
		ps = append(ps, s.Agg.String())
	}
	return "{" + strings.Join(ps, " ") + "}"
}

func (u *c07Univ) buildSI(s c07SISpec) (hotstuff.SyncInfo, []c07Contrib) {
	si := hotstuff.NewSyncInfo()
	var contribs []c07Contrib
	if s.QC != nil {
		qc, cs := u.buildQC(*s.QC)
		si.SetQC(qc)
		contribs = append(contribs, cs...)
	}
	if s.TC != nil {
		tc, cs := u.buildTC(*s.TC)
		si.SetTC(tc)
		contribs = append(contribs, cs...)
	}
	if s.Agg != nil {
		ag, cs := u.buildAgg(*s.Agg)
		si.SetAggQC(ag)
		contribs = append(contribs, cs...)
	}
	return si, contribs
}

// the genuine votes contained in the QC a universe block carries (all replicas signed the certified block)
func (u *c07Univ) qcContribs(b *hotstuff.Block) []c07Contrib {
	var cs []c07Contrib
	for _, c := range u.blocks {
		if c.Hash() == b.QuorumCert().BlockHash() && c.View() > 0 {
			for i := 1; i <= hotstuff.QuorumSize(u.nFull); i++ { // as built by mkBlock, whatever the membership is now
				cs = append(cs, c07Contrib{i, string(c.ToBytes())})
			}
		}
	}
	return cs
}

// meaning classifies a signed message for the evidence oracle.
func (u *c07Univ) meaning(msg string) c07Meaning {
	if b, ok := u.bbytes[msg]; ok {
		return c07Meaning{'B', uint64(b.View()), "B" + msg}
	}
	if len(msg) == 8 {
		w := binary.LittleEndian.Uint64([]byte(msg))
		return c07Meaning{'V', w, fmt.Sprintf("V%d", w)}
	}
	if len(msg) >= 12 {
		w := binary.LittleEndian.Uint64([]byte(msg[4:12]))
		return c07Meaning{'T', w, fmt.Sprintf("T%d", w)}
	}
	return c07Meaning{'?', 0, "?"}
}

// ---------------------------------------------------------------------------------------------
// Part 2: one replica under test (real Synchronizer, ViewStates, Authority, Voter, Committer, rules),
// pass-through recorders at its interfaces, stimuli, observation.

type c07Obs struct{ view, hqHash, hqView, htc, cview uint64 }

func (o c07Obs) term() string {
	return fmt.Sprintf("(mkSt %d %d %d %d %d)", o.view, o.hqHash, o.hqView, o.htc, o.cview)
}

// c07Opt: the environment dimensions of one world
type c07Opt struct {
	cache    uint     // signature cache capacity (0 = off)
	rot      string   // "" fixed leader | "rr" round robin
	simple   bool     // simplehotstuff rules instead of chained (simple timeout rule only)
	failSend int      // core.Sender.NewView / Vote: 0 succeed, 1 always fail, 2 fail when the replica's view is even
	n0       int      // replicas configured at creation (0 = all); the "grow" stimulus adds the rest
	stored   []string // blocks in the local store
	remote   []string // blocks a peer can serve
	badPop   string   // BLS: member 4's proof of possession: "" good | rogue | rogue13 | other-key | garbage | missing
}

func (o c07Opt) tag() string {
	t := ""
	if o.cache > 0 {
		t += fmt.Sprintf("/cache%d", o.cache)
	}
	if o.rot != "" {
		t += "/" + o.rot
	}
	if o.simple {
		t += "/simplehs"
	}
	if o.failSend > 0 {
		t += fmt.Sprintf("/sendfail%d", o.failSend)
	}
	if o.n0 > 0 {
		t += fmt.Sprintf("/grow%d", o.n0)
	}
	if o.badPop != "" {
		t += "/pop-" + o.badPop
	}
	for _, b := range o.stored {
		if b == "r10" {
			t += "/deep" + strings.Join(o.remote, "")
		}
	}
	return t
}

type c07World struct {
	opt       c07Opt
	cfg       *core.RuntimeConfig
	lr        leaderrotation.LeaderRotation
	fetchDown bool // peers do not answer block requests during the current stimulus
	sendFails int
	signed    int                 // messages the replica under test has signed itself in this world (votes, timeouts)
	sent      []hotstuff.SyncInfo // sync infos handed to core.Sender during the current stimulus
	u         *c07Univ
	agg       bool
	leader    int
	tag       string
	el        *eventloop.EventLoop
	chain     *blockchain.Blockchain
	auth      *cert.Authority
	vs        *protocol.ViewStates
	syn       *Synchronizer
	committer *consensus.Committer
	remote    map[hotstuff.Hash]*hotstuff.Block
	held      map[c07Contrib]bool
	kindOf    map[string]string // rendered certificate -> kind of its description
	force     map[hotstuff.Hash]*hotstuff.Block
	hist      []string
	nprop     int
	// per stimulus
	actions  []string
	vsis     []string
	okKinds  []string
	vcs      [][2]uint64
	commits  []uint64
	nondet   int
	external map[hotstuff.Hash]bool // blocks delivered in ProposeMsgs
	direct   bool                   // inside a direct TryCommit stimulus
}

// ---- recorders (pass-through) ----
type c07RecBase struct {
	crypto.Base
	w *c07World
}

func (r *c07RecBase) Sign(m []byte) (hotstuff.QuorumSignature, error) {
	s, err := r.Base.Sign(m)
	if err == nil {
		r.w.held[c07Contrib{1, string(m)}] = true
		r.w.signed++
	}
	return s, err
}

type c07Sender struct{ w *c07World }

func (s *c07Sender) fail() error {
	w := s.w
	if w.opt.failSend == 1 || (w.opt.failSend == 2 && w.vs != nil && w.vs.View()%2 == 0) {
		w.sendFails++
		return fmt.Errorf("c07: replica not connected")
	}
	return nil
}
func (s *c07Sender) NewView(_ hotstuff.ID, si hotstuff.SyncInfo) error {
	s.w.sent = append(s.w.sent, si) // what the replica passes on (kept for the current stimulus)
	return s.fail()
}
func (s *c07Sender) Vote(hotstuff.ID, hotstuff.PartialCert) error { return s.fail() }

// Timeout: what the replica broadcasts is public; certificates built later from "replica 1's signature"
// use exactly these bytes (they are the ones its signature cache knows).
func (s *c07Sender) Timeout(m hotstuff.TimeoutMsg) {
	u := s.w.u
	s.w.sent = append(s.w.sent, m.SyncInfo)
	if m.ViewSignature != nil {
		u.sigMemo[fmt.Sprintf("%d|%s", 1, m.View.ToBytes())] = c07Raw(m.ViewSignature)
	}
	if m.MsgSignature != nil {
		u.sigMemo[fmt.Sprintf("%d|%s", 1, m.ToBytes())] = c07Raw(m.MsgSignature)
	}
}
func (s *c07Sender) Propose(*hotstuff.ProposeMsg) {}
func (s *c07Sender) RequestBlock(_ context.Context, h hotstuff.Hash) (*hotstuff.Block, bool) {
	if s.w.fetchDown {
		return nil, false
	}
	b, ok := s.w.remote[h]
	return b, ok
}
func (s *c07Sender) Sub([]hotstuff.ID) (core.Sender, error) { return s, nil }

type c07Rules struct {
	consensus.Ruleset
	w *c07World
}

func (r *c07Rules) CommitRule(b *hotstuff.Block) *hotstuff.Block {
	// The ProposeMsg handler calls ViewStates.UpdateHighQC(block QC) after Voter.Verify succeeded and before
	// OnValidPropose -> TryCommit -> CommitRule; ViewStates is a concrete type, so that call is recorded here:
	// CommitRule on a block that arrived in a ProposeMsg means the handler has just made it.
	if !r.w.direct && r.w.external[b.Hash()] {
		r.w.actions = append(r.w.actions, "(AHighQC "+r.w.descQC(b.QuorumCert(), true)+")")
		r.w.noteOK("qc|"+string(b.QuorumCert().ToBytes()), "qc.valid")
	}
	t := r.Ruleset.CommitRule(b)
	if f, ok := r.w.force[b.Hash()]; ok {
		t = f
	}
	if t != nil {
		// the ancestor chain commitInner will walk (same blockchain.Get, same fetches)
		var views []string
		cur := t
		for i := 0; i < 64; i++ {
			views = append(views, fmt.Sprint(uint64(cur.View())))
			p, ok := r.w.chain.Get(cur.Parent())
			if !ok {
				break
			}
			cur = p
		}
		r.w.actions = append(r.w.actions, "(ACommit "+gList(views)+")")
	}
	return t
}

type c07Ruler struct {
	inner TimeoutRuler
	w     *c07World
}

func (r *c07Ruler) LocalTimeoutRule(v hotstuff.View, si hotstuff.SyncInfo) (*hotstuff.TimeoutMsg, error) {
	return r.inner.LocalTimeoutRule(v, si)
}
func (r *c07Ruler) RemoteTimeoutRule(c, t hotstuff.View, ts []hotstuff.TimeoutMsg) (hotstuff.SyncInfo, error) {
	return r.inner.RemoteTimeoutRule(c, t, ts)
}

func c07TCKey(tc hotstuff.TimeoutCert) string {
	if tc.Signature() == nil {
		return fmt.Sprintf("tc|%d|nil", tc.View())
	}
	return fmt.Sprintf("tc|%d|%x", tc.View(), tc.Signature().ToBytes())
}
func c07AggKey(a hotstuff.AggregateQC) string {
	if a.Sig() == nil {
		return fmt.Sprintf("agg|%d|nil", a.View())
	}
	return fmt.Sprintf("agg|%d|%x", a.View(), a.Sig().ToBytes())
}

func (w *c07World) descQC(qc hotstuff.QuorumCert, ok bool) string {
	bv := "None"
	if b, have := w.chain.Get(qc.BlockHash()); have {
		bv = fmt.Sprintf("(Some %d)", uint64(b.View()))
	}
	return fmt.Sprintf("(mkQC %d %d %s %s)", w.u.intern(qc.BlockHash()), uint64(qc.View()), gBool(ok), bv)
}

func (w *c07World) noteOK(key, fallback string) {
	k, ok := w.kindOf[key]
	if !ok {
		k = fallback
	}
	w.okKinds = append(w.okKinds, k)
}

// VerifySyncInfo is where every advanceView call passes: the verdicts of the parts are computed with the
// replica's own Authority, the real rule is called, and both are recorded.
func (r *c07Ruler) VerifySyncInfo(si hotstuff.SyncInfo) (*hotstuff.QuorumCert, hotstuff.View, bool, error) {
	w := r.w
	qcT, tcT, agT := "None", "None", "None"
	var probeHigh hotstuff.QuorumCert
	aggOK := false
	var aggView uint64
	if qc, have := si.QC(); have {
		ok := w.auth.VerifyQuorumCert(qc) == nil
		if ok && !w.agg {
			w.noteOK("qc|"+string(qc.ToBytes()), "qc.made-by-replica")
		}
		qcT = "(Some " + w.descQC(qc, ok) + ")"
	}
	if tc, have := si.TC(); have {
		ok := w.auth.VerifyTimeoutCert(tc) == nil
		if ok && tc.View() > 0 {
			w.noteOK(c07TCKey(tc), "tc.made-by-replica")
		}
		tcT = fmt.Sprintf("(Some (mkTC %d %s))", uint64(tc.View()), gBool(ok))
	}
	ag, haveAgg := si.AggQC()
	if haveAgg {
		h, err := w.auth.VerifyAggregateQC(ag)
		aggOK, probeHigh, aggView = err == nil, h, uint64(ag.View())
		if aggOK && w.agg {
			w.noteOK(c07AggKey(ag), "agg.made-by-replica")
			w.noteOK("qc|"+string(h.ToBytes()), "qc.made-by-replica") // the high QC it selected
		}
	}
	qc, view, tmo, err := r.inner.VerifySyncInfo(si)
	if haveAgg {
		high := probeHigh
		if w.agg && err == nil && qc != nil {
			if !qc.Equals(probeHigh) {
				w.nondet++ // several valid QCs with the same view: the choice depends on map order
			}
			high = *qc
		}
		agT = fmt.Sprintf("(Some (mkAgg %d %s %s))", aggView, gBool(aggOK), w.descQC(high, aggOK))
	}
	siT := fmt.Sprintf("(mkSI %s %s %s)", qcT, tcT, agT)
	rule := "Simple"
	if w.agg {
		rule = "Aggregate"
	}
	obs := "None"
	if err == nil {
		q := "None"
		if qc != nil {
			q = fmt.Sprintf("(Some (%d, %d))", w.u.intern(qc.BlockHash()), uint64(qc.View()))
		}
		obs = fmt.Sprintf("(Some (%s, %d, %s))", q, uint64(view), gBool(tmo))
	}
	w.vsis = append(w.vsis, fmt.Sprintf("(%s, %s, %s)", rule, siT, obs))
	w.actions = append(w.actions, "(AAdvance "+siT+")")
	return qc, view, tmo, err
}

func c07NewWorld(u *c07Univ, agg bool, leader int, opt c07Opt) *c07World {
	stored, remote := opt.stored, opt.remote
	u.n, u.q = u.nFull, hotstuff.QuorumSize(u.nFull)
	if opt.n0 > 0 {
		u.n, u.q = opt.n0, hotstuff.QuorumSize(opt.n0)
	}
	w := &c07World{opt: opt, u: u, agg: agg, leader: leader, remote: map[hotstuff.Hash]*hotstuff.Block{}, held: map[c07Contrib]bool{},
		kindOf: map[string]string{}, force: map[hotstuff.Hash]*hotstuff.Block{}, external: map[hotstuff.Hash]bool{}}
	rn := "S"
	if agg {
		rn = "A"
	}
	w.tag = fmt.Sprintf("%s/n%d/%s/L%d%s", u.scheme, u.nFull, rn, leader, opt.tag())
	opts := []core.RuntimeOption{core.WithSyncVerification()}
	if agg {
		opts = append(opts, core.WithAggregateQC())
	}
	if opt.cache > 0 {
		opts = append(opts, core.WithCache(opt.cache))
	}
	cfg := core.NewRuntimeConfig(1, u.keys[0], opts...)
	w.cfg = cfg
	infos := append([]hotstuff.ReplicaInfo(nil), u.infos...)
	u.rogueX, u.rogueSet, u.unusable = nil, nil, map[int]bool{}
	if opt.badPop != "" && u.scheme == crypto.NameBLS12 {
		c07BadPop(u, infos, opt.badPop)
	}
	for i := range infos[:u.n] {
		info := infos[i]
		cfg.AddReplica(&info)
	}
	base, err := crypto.New(cfg, u.scheme)
	if err != nil {
		panic(err)
	}
	logger := logging.NewWithDest(io.Discard, "c07")
	w.el = eventloop.New(logger, 4096)
	sender := &c07Sender{w}
	w.chain = blockchain.New(w.el, logger, sender)
	w.auth = cert.NewAuthority(cfg, w.chain, &c07RecBase{base, w})
	w.vs, err = protocol.NewViewStates(w.chain, w.auth)
	if err != nil {
		panic(err)
	}
	var lr leaderrotation.LeaderRotation = leaderrotation.NewFixed(hotstuff.ID(leader))
	if opt.rot == "rr" {
		lr = leaderrotation.NewRoundRobin(cfg)
	}
	w.lr = lr
	var rs consensus.Ruleset
	switch {
	case agg:
		rs = rules.NewFastHotStuff(logger, cfg, w.chain)
	case opt.simple:
		rs = rules.NewSimpleHotStuff(logger, cfg, w.chain)
	default:
		rs = rules.NewChainedHotStuff(logger, cfg, w.chain)
	}
	cc := clientpb.NewCommandCache(1)
	for i := 1; i <= 64; i++ {
		cc.Add(&clientpb.Command{ClientID: 1, SequenceNumber: uint64(i), Data: []byte("x")})
	}
	vm := votingmachine.New(logger, w.el, cfg, w.chain, w.auth, w.vs)
	cons := wiring.NewConsensus(w.el, logger, cfg, w.chain, w.auth, cc, &c07Rules{rs, w}, lr, w.vs,
		comm.NewClique(cfg, vm, lr, sender))
	w.committer = cons.Committer()
	w.syn = New(w.el, logger, cfg, w.auth, lr, NewFixedDuration(time.Hour),
		&c07Ruler{NewTimeoutRuler(cfg, w.auth), w}, cons.Proposer(), cons.Voter(), w.vs, sender)
	eventloop.Register(w.el, func(e hotstuff.ViewChangeEvent) {
		t := uint64(0)
		if e.Timeout {
			t = 1
		}
		w.vcs = append(w.vcs, [2]uint64{uint64(e.View), t})
	})
	eventloop.Register(w.el, func(e hotstuff.CommitEvent) { w.commits = append(w.commits, uint64(e.Block.View())) })
	for _, nm := range stored {
		w.chain.Store(u.blocks[nm])
	}
	for _, nm := range remote {
		w.remote[u.blocks[nm].Hash()] = u.blocks[nm]
	}
	return w
}

const c07PopKey = "bls12-pop-bin"

// c07BadPop registers member 4 with a bad proof of possession (after c02's worlds for C02):
//
//	missing    no proof in its metadata
//	garbage    a well-formed G2 point that proves nothing
//	other-key  replica 1's proof
//	rogue      public key x*G1 - (pk1+pk2+pk3) with replica 1's proof; rogue13: x*G1 - (pk1+pk3)
func c07BadPop(u *c07Univ, infos []hotstuff.ReplicaInfo, kind string) {
	const j = 3
	md := map[string]string{}
	for k, v := range infos[j].Metadata {
		md[k] = v
	}
	u.unusable[j+1] = true
	switch kind {
	case "missing":
		delete(md, c07PopKey)
	case "garbage":
		g2 := bls12.NewG2()
		b := make([]byte, 32)
		_, _ = rand.Read(b)
		pt, err := g2.HashToCurve(b, []byte("C07-GARBAGE-POP"))
		if err != nil {
			panic(err)
		}
		md[c07PopKey] = string(g2.ToCompressed(pt))
	case "other-key":
		md[c07PopKey] = infos[0].Metadata[c07PopKey]
	case "rogue", "rogue13":
		others := []int{1, 2, 3}
		if kind == "rogue13" {
			others = []int{1, 3}
		}
		g1 := bls12.NewG1()
		sum := g1.Zero()
		for _, k := range others {
			p, err := g1.FromCompressed(infos[k-1].PubKey.(*crypto.BLS12PublicKey).ToBytes())
			if err != nil {
				panic(err)
			}
			g1.Add(sum, sum, p)
		}
		xb := make([]byte, 31)
		_, _ = rand.Read(xb)
		u.rogueX = new(big.Int).SetBytes(xb)
		pk := g1.New()
		g1.MulScalarBig(pk, g1.One(), u.rogueX)
		g1.Sub(pk, pk, sum)
		rogue := &crypto.BLS12PublicKey{}
		if err := rogue.FromBytes(g1.ToCompressed(pk)); err != nil {
			panic(err)
		}
		infos[j].PubKey = rogue
		md[c07PopKey] = infos[0].Metadata[c07PopKey]
		u.rogueSet = append(append([]int{}, others...), j+1)
	}
	infos[j].Metadata = md
}

func (w *c07World) obs() c07Obs {
	hq := w.vs.HighQC()
	return c07Obs{uint64(w.vs.View()), w.u.intern(hq.BlockHash()), uint64(hq.View()), uint64(w.vs.HighTC().View()),
		uint64(w.vs.CommittedBlock().View())}
}

// ---- stimuli ----
type c07Stim struct {
	Op     string     `json:"op"` // adv newview propose timeout local commit hqc htc
	SI     *c07SISpec `json:"si,omitempty"`
	View   uint64     `json:"v,omitempty"`    // propose: block view; timeout/local: the view
	From   int        `json:"from,omitempty"` // propose/timeout: claimed sender
	Parent string     `json:"par,omitempty"`  // propose: parent block
	Sig    string     `json:"sig,omitempty"`  // timeout: ok other garbage wrongview
	Block  string     `json:"blk,omitempty"`  // commit: block handed to TryCommit
	Target string     `json:"tgt,omitempty"`  // commit: the rule's decision ("" = the real rule decides)
	Down   bool       `json:"down,omitempty"` // peers do not answer block requests during this stimulus
	OldN   int        `json:"oldn,omitempty"` // the certificates are built for a membership of this size (replay after growth)
	// origin flags, as the real entry points set them: server.serviceImpl.NewView leaves FromNetwork false (only
	// the twins sender sets it); a TimeoutMsg of the simple timeout rule carries no message signature
	NoNet    bool `json:"nonet,omitempty"`    // newview: FromNetwork false
	NoMsgSig bool `json:"nomsgsig,omitempty"` // timeout: MsgSignature nil
}

func (s c07Stim) String() string {
	si := ""
	if s.SI != nil {
		si = s.SI.String()
	}
	switch s.Op {
	case "propose":
		return fmt.Sprintf("propose(v%d from %d on %s %s)", s.View, s.From, s.Parent, si)
	case "timeout":
		return fmt.Sprintf("timeout(v%d from %d sig=%s %s)", s.View, s.From, s.Sig, si)
	case "local":
		return fmt.Sprintf("local(v%d)", s.View)
	case "commit":
		return fmt.Sprintf("commit(%s->%s)", s.Block, s.Target)
	case "deliver":
		return "deliver(" + s.Block + ")"
	case "vote":
		return fmt.Sprintf("vote(%s from %d)", s.Block, s.From)
	case "grow":
		return "grow"
	}
	if s.OldN > 0 {
		si += fmt.Sprintf("[built for n=%d]", s.OldN)
	}
	if s.NoNet {
		si += "[as server.go delivers it]"
	}
	if s.Down {
		return s.Op + si + "[peers down]"
	}
	return s.Op + si
}

func (w *c07World) hold(cs []c07Contrib) {
	for _, c := range cs {
		w.held[c] = true
	}
}

func (w *c07World) regKinds(s *c07SISpec, si hotstuff.SyncInfo) {
	if s == nil {
		return
	}
	if qc, ok := si.QC(); ok {
		w.kindOf["qc|"+string(qc.ToBytes())] = "qc." + s.QC.Kind
	}
	if tc, ok := si.TC(); ok {
		w.kindOf[c07TCKey(tc)] = "tc." + s.TC.Kind
	}
	if ag, ok := si.AggQC(); ok {
		k := "agg." + s.Agg.Kind
		if s.Agg.High != nil && s.Agg.High.Kind != "valid" {
			k += "[" + s.Agg.High.Kind + "]"
		}
		w.kindOf[c07AggKey(ag)] = k
	}
}

func (w *c07World) drain() {
	ctx := context.Background()
	for i := 0; i < 20000 && w.el.Tick(ctx); i++ {
	}
}

// apply delivers one stimulus and drains the event loop; returns a panic value if the code under test panicked.
func (w *c07World) apply(s c07Stim) (pan any) {
	u := w.u
	w.actions, w.vsis, w.okKinds, w.vcs, w.commits, w.sent = nil, nil, nil, nil, nil, nil
	w.direct = false
	w.fetchDown = s.Down
	defer func() {
		w.fetchDown = false
		if r := recover(); r != nil {
			pan = r
		}
	}()
	var si hotstuff.SyncInfo
	if s.SI != nil {
		var cs []c07Contrib
		if s.OldN > 0 {
			n, q := u.n, u.q
			u.n, u.q = s.OldN, hotstuff.QuorumSize(s.OldN)
			si, cs = u.buildSI(*s.SI)
			u.n, u.q = n, q
		} else {
			si, cs = u.buildSI(*s.SI)
		}
		w.hold(cs)
		w.regKinds(s.SI, si)
	}
	switch s.Op {
	case "grow": // the remaining replicas of the universe join the configuration (RuntimeConfig.AddReplica)
		for i := u.n; i < u.nFull; i++ {
			info := u.infos[i]
			w.cfg.AddReplica(&info)
		}
		u.n, u.q = u.nFull, hotstuff.QuorumSize(u.nFull)
	case "adv":
		w.syn.advanceView(si)
	case "newview":
		w.el.AddEvent(hotstuff.NewViewMsg{ID: 2, SyncInfo: si, FromNetwork: !s.NoNet})
	case "propose":
		qc, _ := si.QC()
		w.nprop++
		b := hotstuff.NewBlock(u.blocks[s.Parent].Hash(), qc, &clientpb.Batch{}, hotstuff.View(s.View), hotstuff.ID(s.From))
		u.bbytes[string(b.ToBytes())] = b
		u.intern(b.Hash())
		w.external[b.Hash()] = true
		p := hotstuff.ProposeMsg{ID: hotstuff.ID(s.From), Block: b}
		if ag, ok := si.AggQC(); ok {
			p.AggregateQC = &ag
		}
		w.el.AddEvent(p)
	case "deliver": // a block of the universe proposed by its proposer
		b := u.blocks[s.Block]
		w.hold(u.qcContribs(b))
		w.external[b.Hash()] = true
		w.el.AddEvent(hotstuff.ProposeMsg{ID: b.Proposer(), Block: b})
	case "timeout":
		view := hotstuff.View(s.View)
		var part c07Part
		switch s.Sig {
		case "other":
			o := s.From%u.n + 1
			part = c07Part{o, o, view.ToBytes()}
		case "garbage":
			part = c07Part{s.From, 0, nil}
		case "wrongview":
			part = c07Part{s.From, s.From, (view + 1).ToBytes()}
		default:
			part = c07Part{s.From, s.From, view.ToBytes()}
		}
		vsig, cs := u.multi([]c07Part{part})
		w.hold(cs)
		tm := hotstuff.TimeoutMsg{ID: hotstuff.ID(s.From), View: view, ViewSignature: vsig, SyncInfo: si}
		if !s.NoMsgSig {
			msig, cs2 := u.multi([]c07Part{{s.From, s.From, tm.ToBytes()}})
			w.hold(cs2)
			tm.MsgSignature = msig
		}
		w.el.AddEvent(tm)
	case "vote": // a single replica's vote for a block, as the leader's vote collector receives it
		b := u.blocks[s.Block]
		sig, cs := u.multi([]c07Part{{s.From, s.From, b.ToBytes()}})
		w.hold(cs)
		w.el.AddEvent(hotstuff.VoteMsg{ID: hotstuff.ID(s.From), PartialCert: hotstuff.NewPartialCert(sig, b.Hash())})
	case "local":
		w.el.AddEvent(hotstuff.TimeoutEvent{View: hotstuff.View(s.View)})
	case "commit":
		b := u.blocks[s.Block]
		if s.Target != "" {
			w.force[b.Hash()] = u.blocks[s.Target]
		}
		w.direct = true
		_ = w.committer.TryCommit(b)
		w.direct = false
	case "hqc":
		qc, _ := si.QC()
		w.actions = append(w.actions, "(AHighQC "+w.descQC(qc, false)+")")
		_, _ = w.vs.UpdateHighQC(qc)
	case "htc":
		tc, _ := si.TC()
		w.actions = append(w.actions, fmt.Sprintf("(AHighTC %d)", uint64(tc.View())))
		w.vs.UpdateHighTC(tc)
	}
	w.drain()
	return nil
}

// evidence: do the signatures the replica holds (delivered to it, or made by it) contain q distinct
// replicas' genuine votes for one block of view >= v, or genuine timeouts for one view >= v ?
func (w *c07World) evidence(v uint64) bool {
	groups := map[string]map[int]bool{}
	for c := range w.held {
		m := w.u.meaning(c.msg)
		if m.kind == '?' || m.view < v || c.signer > w.u.n || w.u.unusable[c.signer] {
			continue
		}
		g := groups[m.key]
		if g == nil {
			g = map[int]bool{}
			groups[m.key] = g
		}
		g[c.signer] = true
	}
	for _, g := range groups {
		if len(g) >= w.u.q {
			return true
		}
	}
	return false
}

func (w *c07World) votersOf(b *hotstuff.Block) int {
	msg := string(b.ToBytes())
	n := 0
	for i := 1; i <= w.u.n; i++ {
		if w.held[c07Contrib{i, msg}] && !w.u.unusable[i] {
			n++
		}
	}
	return n
}

// culprit names the defect class of the certificates that were accepted in this stimulus although their
// description is not that of a genuine certificate (used only to give oracle failures a specific fingerprint).
func (w *c07World) culprit() string {
	set := map[string]bool{}
	for _, k := range w.okKinds {
		switch {
		case strings.Contains(k, "relabel") || strings.Contains(k, "genesis"):
			set["stated-view-not-checked"] = true
		case strings.Contains(k, "pad:"):
			set["padded-participant-set-counted"] = true
		case strings.Contains(k, "jp:"):
			set["junk-signature-entries-counted"] = true
		case strings.Contains(k, "dup"), strings.Contains(k, "mixrep"), strings.Contains(k, "ownrep"):
			set["repeated-signer-counted"] = true
		case strings.HasSuffix(k, ".valid"), strings.HasSuffix(k, ".validAll"), strings.HasSuffix(k, ".validHi"),
			strings.HasSuffix(k, "made-by-replica"):
		default:
			set["accepted-"+k] = true
		}
	}
	if w.opt.badPop != "" {
		return "member-with-bad-proof-of-possession-counted"
	}
	if len(set) == 0 {
		return "no-unsound-verdict-seen"
	}
	ks := make([]string, 0, len(set))
	for k := range set {
		ks = append(ks, k)
	}
	sort.Strings(ks)
	return ks[0]
}

// do applies the stimulus, emits the Gallina cases and evaluates the property's oracle on the Go outputs.
func (w *c07World) do(o *c07Out, s c07Stim) c07Obs {
	v := o.v
	before := w.obs()
	pan := w.apply(s)
	after := w.obs()
	hist := append([]string(nil), w.hist...)
	meta := map[string]any{"world": w.tag, "history": hist, "stimulus": s, "before": before.term(), "after": after.term()}
	w.hist = append(w.hist, s.String())
	v.Count("op:" + s.Op)
	if pan != nil {
		v.Oracle(false, "panic:"+s.Op, fmt.Sprintf("panic in code under test: %v", pan), meta)
		return after
	}
	rule := "Simple"
	if w.agg {
		rule = "Aggregate"
	}
	vcs := make([]string, len(w.vcs))
	for i, e := range w.vcs {
		vcs[i] = fmt.Sprintf("(%d, %s)", e[0], gBool(e[1] == 1))
	}
	cms := make([]string, len(w.commits))
	for i, c := range w.commits {
		cms[i] = fmt.Sprint(c)
	}
	stepS, vsiS := o.step, o.vsi
	o.emit(stepS, fmt.Sprintf("(%s, %s, %s, %s, %s, %s)", rule, before.term(), gList(w.actions), after.term(), gList(vcs), gList(cms)), meta)
	for _, t := range w.vsis {
		o.emit(vsiS, t, meta)
	}
	moved := after != before
	v.Seen(w.tag+"|"+strings.Join(hist, ";")+"|"+s.String(), moved || len(w.actions) > 0, meta)
	if moved {
		v.Count("moved")
	}
	v.CountN("advanceView-calls", len(w.vsis))
	if w.sendFails > 0 {
		v.CountN("sender-errors", w.sendFails)
		w.sendFails = 0
	}
	if s.Down {
		v.Count("stimulus-with-peers-down")
	}
	if after.view >= c07Big31 || after.hqView >= c07Big31 || after.htc >= c07Big31 {
		v.Count("state-with-view-beyond-2^31")
	}
	if w.nondet > 0 {
		v.CountN("agg-high-qc-tie", w.nondet)
		w.nondet = 0
	}

	// --- the property, evaluated on the implementation ---
	v.Oracle(after.view >= before.view, "monotone:view-decreased", fmt.Sprintf("view %d -> %d", before.view, after.view), meta)
	// (direct calls of the exported UpdateHighQC with an unverified certificate are API-level inputs for the
	// model correspondence only; the property speaks about what the protocol handlers do)
	v.Oracle(after.hqView >= before.hqView || s.Op == "hqc", "monotone:highqc-view-decreased:"+w.culprit(), fmt.Sprintf("high QC view %d -> %d", before.hqView, after.hqView), meta)
	v.Oracle(after.htc >= before.htc, "monotone:hightc-view-decreased", fmt.Sprintf("high TC view %d -> %d", before.htc, after.htc), meta)
	v.Oracle(after.cview >= before.cview, "monotone:committed-view-decreased", fmt.Sprintf("committed view %d -> %d", before.cview, after.cview), meta)
	if after.view >= before.view {
		k := after.view - before.view
		okSig := uint64(len(w.vcs)) == k
		for i := range w.vcs {
			if okSig && w.vcs[i][0] != before.view+1+uint64(i) {
				okSig = false
			}
		}
		v.Oracle(okSig, "signal:view-change-events-do-not-match-increments", fmt.Sprintf("view %d -> %d but ViewChangeEvents %v", before.view, after.view, w.vcs), meta)
		for i := uint64(0); i < k && i < 64; i++ {
			ok := w.evidence(before.view + i)
			v.Oracle(ok, "advance-without-quorum:"+w.culprit(),
				fmt.Sprintf("left view %d although the certificates it holds contain no %d distinct genuine votes for a block of view >= %d nor timeouts for a view >= %d",
					before.view+i, w.u.q, before.view+i, before.view+i), meta)
			if !ok {
				break
			}
		}
	}
	if after.htc != before.htc && s.Op != "htc" {
		msg := string(hotstuff.View(after.htc).ToBytes())
		cnt := 0
		for i := 1; i <= w.u.n; i++ {
			if w.held[c07Contrib{i, msg}] && !w.u.unusable[i] {
				cnt++
			}
		}
		v.Oracle(cnt >= w.u.q, "hightc-not-backed:"+w.culprit(),
			fmt.Sprintf("high TC view became %d although the replica holds only %d of the %d distinct genuine timeout signatures for that view", after.htc, cnt, w.u.q), meta)
		v.Count("high-tc-moved")
	}
	if (after.hqHash != before.hqHash || after.hqView != before.hqView) && s.Op != "hqc" {
		hq := w.vs.HighQC()
		b, have := w.chain.LocalGet(hq.BlockHash())
		ok := have && b.View() == hq.View() && (w.votersOf(b) >= w.u.q || b.Hash() == hotstuff.GetGenesis().Hash())
		v.Oracle(ok, "highqc-not-backed:"+w.culprit(),
			fmt.Sprintf("high QC became (block %s, stated view %d) without %d distinct genuine votes for a block of that view", w.u.blockName(hq.BlockHash()), uint64(hq.View()), w.u.q), meta)
	}
	return after
}

// ---------------------------------------------------------------------------------------------
// Part 3: generators and the test.

type c07Out struct {
	v    *verifOut
	step *verifStream
	vsi  *verifStream
	mu   sync.Mutex
	seen map[string]bool // kernel cases already emitted (identical terms are checked once)
}

func (o *c07Out) emit(s *verifStream, term string, meta any) {
	o.mu.Lock()
	dup := o.seen[s.name+term]
	o.seen[s.name+term] = true
	o.mu.Unlock()
	if dup {
		o.v.Count("kernel-case-deduplicated:" + s.name)
		return
	}
	o.v.Case(s, term, meta)
}

var c07Stored = []string{"b1", "b2", "b3", "b4", "b5", "b6", "b7", "b8", "c3", "x9", "x30", "h31", "h32", "h63"}

// worlds in which ancestors of the r-branch (b5 <- r6 <- r7 <- r8 <- r10) have to be fetched from a peer
var c07StoredDeep = []string{"b1", "b2", "b3", "b4", "b5", "b6", "b7", "b8", "c3", "x9", "x30", "r8", "r10"}

const (
	c07Big31 = uint64(1) << 31
	c07Big32 = uint64(1)<<32 + 2
	c07Big63 = uint64(1)<<63 + 1
)

// worlds for commit decisions over chains with a missing ancestor (o6) or views that do not increase towards
// the tip (n7 <- n5 <- n6); no generated proposals are stored there (Blockchain.PruneToHeight may loop forever
// on a height index with a cycle: reported to the lead as a C13/C10 matter)
var c07StoredCommit = []string{"b1", "b2", "b3", "b4", "b5", "b6", "b7", "b8", "c3", "x9", "x30", "o6", "n7", "n5", "n6"}
var c07Remote = []string{"f4"}

func c07Blk(k uint64) string {
	if k == 0 {
		return "G"
	}
	if k <= 8 {
		return fmt.Sprintf("b%d", k)
	}
	switch k {
	case 9:
		return "x9"
	case c07Big31:
		return "h31"
	case c07Big32:
		return "h32"
	case c07Big63:
		return "h63"
	}
	return "x30"
}

func c07Sub(a, b uint64) uint64 {
	if a < b {
		return 0
	}
	return a - b
}

var c07Patterns = []string{"sub", "dup", "dup1", "wrongmsg", "onewrong", "garbage", "onegarbage", "foreign", "mislabel", "validAll", "validHi"}

func c07QCCat(cv uint64, full bool) []*c07QCSpec {
	cat := []*c07QCSpec{nil,
		{Kind: "valid", Block: c07Blk(cv)},
		{Kind: "valid", Block: c07Blk(c07Sub(cv, 1))},
		{Kind: "relabel", Block: c07Blk(c07Sub(cv, 1)), Label: int64(cv)},
		{Kind: "genesis", Label: int64(cv)},
		{Kind: "genesis", Label: 0}, // verifies, always stale
	}
	if !full {
		return cat
	}
	cat = append(cat,
		&c07QCSpec{Kind: "valid", Block: c07Blk(cv + 2)},
		&c07QCSpec{Kind: "relabel", Block: c07Blk(c07Sub(cv, 1)), Label: int64(cv + 5)},
		&c07QCSpec{Kind: "relabel", Block: c07Blk(cv + 2), Label: int64(c07Sub(cv, 1))},
		&c07QCSpec{Kind: "relabel", Block: c07Blk(cv + 1), Label: int64(cv)},
		&c07QCSpec{Kind: "relabel", Block: "b1", Label: -1}, // stated view 2^64-1
		&c07QCSpec{Kind: "genesis", Label: int64(cv + 3)},
		&c07QCSpec{Kind: "zero"},
		&c07QCSpec{Kind: "nilsig", Block: c07Blk(cv)},
		&c07QCSpec{Kind: "valid", Block: "f4"},
		&c07QCSpec{Kind: "valid", Block: "m5"},
		&c07QCSpec{Kind: "valid", Block: "c3"},
		&c07QCSpec{Kind: "valid", Block: "x9"},
		&c07QCSpec{Kind: "valid", Block: "x30"},
		&c07QCSpec{Kind: "wrongmsg", Block: c07Blk(cv), Alt: "c3"},
	)
	for _, k := range c07Patterns {
		cat = append(cat, &c07QCSpec{Kind: k, Block: c07Blk(cv)})
	}
	for _, k := range []string{"sub", "dup", "dup1"} {
		cat = append(cat, &c07QCSpec{Kind: k, Block: c07Blk(cv + 2)})
	}
	return cat
}

func c07TCCat(cv uint64, full bool) []*c07TCSpec {
	cat := []*c07TCSpec{nil, {Kind: "valid", View: cv}, {Kind: "sub", View: cv}, {Kind: "valid", View: c07Sub(cv, 1)}, {Kind: "dup", View: cv}}
	if !full {
		return cat
	}
	cat = append(cat,
		&c07TCSpec{Kind: "valid", View: cv + 3},
		&c07TCSpec{Kind: "relabel", View: cv, Signed: c07Sub(cv, 1)},
		&c07TCSpec{Kind: "relabel", View: cv + 2, Signed: cv},
		&c07TCSpec{Kind: "zero"},
		&c07TCSpec{Kind: "sub", View: cv + 3},
	)
	for _, k := range c07Patterns[2:] {
		cat = append(cat, &c07TCSpec{Kind: k, View: cv})
	}
	return cat
}

func c07AggCat(cv uint64, full bool) []*c07AggSpec {
	cat := []*c07AggSpec{nil, {Kind: "valid", View: cv}}
	if !full {
		return cat
	}
	prev := c07Blk(c07Sub(cv, 1))
	cat = append(cat,
		&c07AggSpec{Kind: "valid", View: c07Sub(cv, 1)},
		&c07AggSpec{Kind: "valid", View: cv + 3},
		&c07AggSpec{Kind: "valid", View: cv, High: &c07QCSpec{Kind: "valid", Block: c07Blk(cv)}},
		&c07AggSpec{Kind: "valid", View: c07Sub(cv, 1), High: &c07QCSpec{Kind: "valid", Block: c07Blk(cv + 1)}},
		&c07AggSpec{Kind: "valid", View: cv, High: &c07QCSpec{Kind: "relabel", Block: prev, Label: int64(cv + 4)}},
		&c07AggSpec{Kind: "valid", View: cv, High: &c07QCSpec{Kind: "relabel", Block: c07Blk(cv + 2), Label: 1}},
		&c07AggSpec{Kind: "valid", View: cv, High: &c07QCSpec{Kind: "genesis", Label: int64(cv + 4)}},
		&c07AggSpec{Kind: "valid", View: cv, High: &c07QCSpec{Kind: "dup", Block: c07Blk(cv)}},
		&c07AggSpec{Kind: "valid", View: cv, High: &c07QCSpec{Kind: "garbage", Block: c07Blk(cv)}},
		&c07AggSpec{Kind: "valid", View: cv, High: &c07QCSpec{Kind: "valid", Block: "m5"}},
		&c07AggSpec{Kind: "relabel", View: cv, Signed: c07Sub(cv, 1)},
		&c07AggSpec{Kind: "relabel", View: cv + 2, Signed: cv},
		&c07AggSpec{Kind: "mismatch", View: cv},
		&c07AggSpec{Kind: "split-junk", View: cv, Reporters: 1},
		&c07AggSpec{Kind: "split-othermsg", View: cv, Reporters: 1},
		&c07AggSpec{Kind: "split-rightmsg", View: cv, Reporters: 1},
		&c07AggSpec{Kind: "split-morereports", View: cv},
		&c07AggSpec{Kind: "split-diffsets", View: cv},
	)
	for _, k := range c07Patterns {
		cat = append(cat, &c07AggSpec{Kind: k, View: cv})
	}
	return cat
}

// prefixes that bring a fresh replica into a state worth attacking
func c07Prefix(agg bool, which int) []c07Stim {
	switch which {
	case 1:
		if agg {
			return []c07Stim{
				{Op: "newview", SI: &c07SISpec{Agg: &c07AggSpec{Kind: "valid", View: 1, High: &c07QCSpec{Kind: "valid", Block: "b1"}}}},
				{Op: "newview", SI: &c07SISpec{TC: &c07TCSpec{Kind: "valid", View: 2}}},
			}
		}
		return []c07Stim{
			{Op: "newview", SI: &c07SISpec{QC: &c07QCSpec{Kind: "valid", Block: "b1"}}},
			{Op: "newview", SI: &c07SISpec{QC: &c07QCSpec{Kind: "valid", Block: "b2"}}},
		}
	case 2:
		if agg {
			return []c07Stim{
				{Op: "deliver", Block: "b1"},
				{Op: "newview", SI: &c07SISpec{TC: &c07TCSpec{Kind: "valid", View: 1}}},
				{Op: "deliver", Block: "b2"},
				{Op: "newview", SI: &c07SISpec{Agg: &c07AggSpec{Kind: "valid", View: 2, High: &c07QCSpec{Kind: "valid", Block: "b2"}}}},
				{Op: "deliver", Block: "b3"},
				{Op: "newview", SI: &c07SISpec{TC: &c07TCSpec{Kind: "valid", View: 3}}},
				{Op: "deliver", Block: "b4"},
				{Op: "newview", SI: &c07SISpec{Agg: &c07AggSpec{Kind: "valid", View: 4, High: &c07QCSpec{Kind: "valid", Block: "b4"}}}},
			}
		}
		return []c07Stim{{Op: "deliver", Block: "b1"}, {Op: "deliver", Block: "b2"}, {Op: "deliver", Block: "b3"},
			{Op: "deliver", Block: "b4"}, {Op: "deliver", Block: "b5"}}
	}
	return nil
}

type c07Runner struct {
	blsPop bool // random worlds rotate through the bad proof-of-possession kinds (BLS universe only)
	o      *c07Out
	u      *c07Univ
	agg    bool
	leader int
	rng    *c07Rand
}

// small deterministic PRNG (xorshift) so that every universe has its own stream derived from VERIF_SEED
type c07Rand struct{ s uint64 }

func (r *c07Rand) next() uint64 {
	r.s ^= r.s << 13
	r.s ^= r.s >> 7
	r.s ^= r.s << 17
	return r.s
}
func (r *c07Rand) intn(n int) int { return int(r.next() % uint64(n)) }

func (r *c07Runner) fresh(prefix []c07Stim) *c07World { return r.freshW(prefix, c07Stored) }

func (r *c07Runner) freshW(prefix []c07Stim, stored []string) *c07World {
	return r.freshO(prefix, c07Opt{stored: stored, remote: c07Remote})
}

func (r *c07Runner) freshO(prefix []c07Stim, opt c07Opt) *c07World {
	if opt.stored == nil {
		opt.stored = c07Stored
	}
	if opt.remote == nil {
		opt.remote = c07Remote
	}
	w := c07NewWorld(r.u, r.agg, r.leader, opt)
	for _, s := range prefix {
		w.do(r.o, s)
	}
	return w
}

// exhaustive: every combination of the catalogues as one advanceView / NewViewMsg from each prepared state
func (r *c07Runner) exhaustive(thorough bool) {
	for which := 0; which <= 2; which++ {
		prefix := c07Prefix(r.agg, which)
		w := r.fresh(prefix)
		cv := w.obs().view
		base := map[c07Contrib]bool{}
		for c := range w.held {
			base[c] = true
		}
		baseHist := append([]string(nil), w.hist...)
		type combo struct{ q, t, a bool }
		combos := []combo{{!r.agg, false, false}, {false, true, false}, {false, false, r.agg}}
		if thorough {
			combos = []combo{{true, true, false}, {true, false, true}, {false, true, true}}
		}
		n := 0
		for _, cb := range combos {
			for _, q := range c07QCCat(cv, cb.q) {
				for _, t := range c07TCCat(cv, cb.t) {
					for _, a := range c07AggCat(cv, cb.a) {
						op := "adv"
						if n%5 == 4 {
							op = "newview"
						}
						noNet := n%10 == 9
						n++
						st := w.obs()
						w.held = map[c07Contrib]bool{}
						for c := range base {
							w.held[c] = true
						}
						w.hist = append([]string(nil), baseHist...)
						after := w.do(r.o, c07Stim{Op: op, SI: &c07SISpec{QC: q, TC: t, Agg: a}, NoNet: noNet})
						if after != st {
							w = r.fresh(prefix)
						}
					}
				}
			}
		}
		r.o.v.CountN(fmt.Sprintf("exhaustive:%s:state%d", w.tag, which), n)
	}
}

func (r *c07Runner) randSI(cv uint64) *c07SISpec {
	// views around the current one, sometimes far away
	d := []uint64{c07Sub(cv, 2), c07Sub(cv, 1), cv, cv, cv, cv + 1, cv + 3, cv + 20}
	pv := func() uint64 {
		if r.rng.intn(16) == 0 { // genuine certificates at and beyond the 32/63-bit boundaries
			return []uint64{c07Big31, c07Big32, c07Big63}[r.rng.intn(3)]
		}
		return d[r.rng.intn(len(d))]
	}
	si := &c07SISpec{}
	if r.rng.intn(10) < 6 {
		c := c07QCCat(pv(), true)
		si.QC = c[1+r.rng.intn(len(c)-1)]
	}
	if r.rng.intn(10) < 4 {
		c := c07TCCat(pv(), true)
		si.TC = c[1+r.rng.intn(len(c)-1)]
	}
	if r.rng.intn(10) < 4 || (r.agg && r.rng.intn(2) == 0) {
		c := c07AggCat(pv(), true)
		si.Agg = c[1+r.rng.intn(len(c)-1)]
	}
	if r.blsPop { // aggregates forged with the rogue key, and certificates that need the member with the bad proof
		switch r.rng.intn(6) {
		case 0:
			si.QC = &c07QCSpec{Kind: "forge", Block: c07Blk(pv())}
		case 1:
			si.TC = &c07TCSpec{Kind: "forge", View: pv()}
		case 2:
			si.TC = &c07TCSpec{Kind: "validHi", View: pv()}
		case 3:
			si.QC = &c07QCSpec{Kind: "validHi", Block: c07Blk(pv())}
		}
	}
	return si
}

func (r *c07Runner) honest(cv uint64) c07Stim {
	switch r.rng.intn(4) {
	case 0:
		return c07Stim{Op: "newview", SI: &c07SISpec{TC: &c07TCSpec{Kind: "valid", View: cv}}}
	case 1:
		if r.agg {
			return c07Stim{Op: "newview", SI: &c07SISpec{Agg: &c07AggSpec{Kind: "valid", View: cv, High: &c07QCSpec{Kind: "valid", Block: c07Blk(cv)}}}}
		}
		return c07Stim{Op: "newview", SI: &c07SISpec{QC: &c07QCSpec{Kind: "valid", Block: c07Blk(cv)}}}
	default:
		if cv <= 8 {
			// mostly the block of the current view; sometimes a later one first (parked until the view
			// change, then replayed) or an earlier one again
			k := cv + []uint64{0, 0, 0, 0, 1, 2}[r.rng.intn(6)]
			if r.rng.intn(12) == 0 {
				k = c07Sub(cv, 1)
			}
			if k >= 1 && k <= 8 {
				return c07Stim{Op: "deliver", Block: c07Blk(k)}
			}
			return c07Stim{Op: "deliver", Block: c07Blk(cv)}
		}
		return c07Stim{Op: "newview", SI: &c07SISpec{TC: &c07TCSpec{Kind: "validHi", View: cv}}}
	}
}

// random: sequences mixing honest progress with every adversarial stimulus
func (r *c07Runner) random(seqs int) {
	for i := 0; i < seqs; i++ {
		commitWorld := i%6 == 5 && r.leader != 1
		var opt c07Opt
		deep, grown := false, true
		switch i % 12 {
		case 1:
			opt.cache = []uint{1, 16}[r.rng.intn(2)]
		case 3:
			opt.rot = "rr"
		case 4:
			opt.failSend = 1 + r.rng.intn(2)
		case 7:
			if r.u.nFull >= 7 {
				opt.n0, grown = 4, false
			} else {
				opt.failSend, opt.rot = 1, "rr"
			}
		case 8:
			deep = true
			opt.stored = c07StoredDeep
			opt.remote = [][]string{{"f4", "r7", "r6"}, {"f4", "r7"}, {"r6"}}[r.rng.intn(3)]
		case 9:
			if r.agg {
				opt.cache = 1
			} else {
				opt.simple = true
			}
		}
		if commitWorld {
			opt = c07Opt{stored: c07StoredCommit}
		}
		if r.blsPop {
			opt.badPop = []string{"rogue", "other-key", "", "garbage", "rogue13", "missing"}[i%6]
		}
		w := r.freshO(nil, opt)
		r.o.v.Count("world" + opt.tag())
		steps := 5 + r.rng.intn(8)
		for j := 0; j < steps; j++ {
			cv := w.obs().view
			var s c07Stim
			x := r.rng.intn(20)
			if commitWorld {
				x = []int{5, 9, 18, 18, 18, 19, 0}[r.rng.intn(7)]
				if x == 0 && cv > 8 {
					x = 5
				}
			}
			if !grown && (j == 4 || r.rng.intn(5) == 0) {
				grown = true
				w.do(r.o, c07Stim{Op: "grow"})
				// certificates that were enough for the old membership must not be enough any more: replay
				// what moved the replica before, relabelled for the current view
				w.do(r.o, c07Stim{Op: "newview", SI: &c07SISpec{TC: &c07TCSpec{Kind: "sub", View: cv + 1}}})
				w.do(r.o, c07Stim{Op: "newview", SI: r.randSI(cv), OldN: 4})
				continue
			}
			if deep {
				down := r.rng.intn(3) == 0
				switch r.rng.intn(6) {
				case 0, 1:
					s = c07Stim{Op: "commit", Block: "r10", Target: []string{"r10", "r8", "r10", ""}[r.rng.intn(4)], Down: down}
				case 2:
					s = c07Stim{Op: "newview", SI: &c07SISpec{QC: &c07QCSpec{Kind: "valid", Block: []string{"r7", "r6", "f4", "r8"}[r.rng.intn(4)]}}, Down: down}
				case 3:
					s = c07Stim{Op: "hqc", SI: &c07SISpec{QC: &c07QCSpec{Kind: "valid", Block: []string{"r7", "r6", "f4"}[r.rng.intn(3)]}}, Down: down}
				case 4:
					s = c07Stim{Op: "newview", SI: r.randSI(cv), Down: down}
				default:
					s = r.honest(cv)
				}
				w.do(r.o, s)
				continue
			}
			switch {
			case x < 5:
				s = r.honest(cv)
			case x < 9:
				s = c07Stim{Op: "newview", SI: r.randSI(cv), NoNet: r.rng.intn(2) == 0}
			case x < 11:
				s = c07Stim{Op: "adv", SI: r.randSI(cv)}
			case x < 14:
				pv := []uint64{c07Sub(cv, 1), cv, cv, cv + 1, cv + 2, cv + 10, cv + 11}[r.rng.intn(7)]
				from := int(w.lr.GetLeader(hotstuff.View(pv)))
				if r.rng.intn(4) == 0 {
					from = 1 + r.rng.intn(r.u.n)
				}
				si := r.randSI(cv)
				if si.QC == nil {
					si.QC = &c07QCSpec{Kind: "valid", Block: c07Blk(c07Sub(cv, 1))}
				}
				par := c07Sub(cv, 1)
				if par >= pv {
					par = c07Sub(pv, 1)
				}
				if par > 8 {
					par = 8
				}
				s = c07Stim{Op: "propose", SI: si, View: pv, From: from, Parent: c07Blk(par)}
			case x < 17:
				// a burst of timeouts for one view, enough for the collector to build a certificate
				tv := []uint64{cv, cv, cv + 1, c07Sub(cv, 1)}[r.rng.intn(4)]
				cnt := r.u.q - 1 + r.rng.intn(2)
				for k := 0; k < cnt; k++ {
					sig := "ok"
					if r.rng.intn(8) == 0 {
						sig = []string{"other", "garbage", "wrongview"}[r.rng.intn(3)]
					}
					from := 2 + (k % (r.u.n - 1))
					if r.rng.intn(6) == 0 {
						from = 1 + r.rng.intn(r.u.n)
					}
					var si *c07SISpec
					if r.rng.intn(3) == 0 {
						si = r.randSI(cv)
					} else {
						si = &c07SISpec{QC: &c07QCSpec{Kind: "valid", Block: "G"}}
					}
					w.do(r.o, c07Stim{Op: "timeout", View: tv, From: from, Sig: sig, SI: si, NoMsgSig: !r.agg && k%2 == 1})
				}
				if opt.cache > 0 || r.rng.intn(4) == 0 {
					// certificates made of the individual signatures the replica has just verified (and cached)
					k := []string{"dup1", "mixrep", "cached", "dup"}[r.rng.intn(4)]
					si := &c07SISpec{TC: &c07TCSpec{Kind: k, View: tv}}
					if r.agg {
						si.Agg = &c07AggSpec{Kind: k, View: tv}
					}
					w.do(r.o, c07Stim{Op: "newview", SI: si})
				}
				continue
			case x < 18:
				s = c07Stim{Op: "local", View: []uint64{cv, cv, c07Sub(cv, 1), cv + 1}[r.rng.intn(4)]}
				if r.rng.intn(2) == 0 && cv <= 8 {
					// single votes for the current block, then a QC made of them
					cnt := 1 + r.rng.intn(r.u.q)
					for k := 0; k < cnt; k++ {
						w.do(r.o, c07Stim{Op: "vote", Block: c07Blk(cv), From: 2 + k%(r.u.n-1)})
					}
					s = c07Stim{Op: "newview", SI: &c07SISpec{QC: &c07QCSpec{Kind: []string{"dup1", "mixrep", "cached"}[r.rng.intn(3)], Block: c07Blk(cv)}}}
				}
			case x < 19:
				tg := []string{"", "b2", "b5", "b1", "b3", "c3", "x9", "b8", ""}[r.rng.intn(9)]
				bl := []string{"b7", "b5", "b6", "b4", "x9"}[r.rng.intn(5)]
				if commitWorld {
					tg = []string{"", "n6", "n5", "n7", "o6", "b1", "b3", "c3", "x9"}[r.rng.intn(9)]
					bl = []string{"n6", "o6", "b6", "b4", "x9"}[r.rng.intn(5)]
				}
				s = c07Stim{Op: "commit", Block: bl, Target: tg}
			default:
				if r.rng.intn(2) == 0 {
					c := c07QCCat(cv, true)
					s = c07Stim{Op: "hqc", SI: &c07SISpec{QC: c[1+r.rng.intn(len(c)-1)]}}
				} else {
					c := c07TCCat(cv, true)
					s = c07Stim{Op: "htc", SI: &c07SISpec{TC: c[1+r.rng.intn(len(c)-1)]}}
				}
			}
			w.do(r.o, s)
			if r.blsPop && (s.Op == "newview" || s.Op == "adv" || s.Op == "propose") && r.rng.intn(2) == 0 {
				w.do(r.o, s) // the same message again: a rejection must not be forgotten
				w.do(r.o, s)
			}
		}
	}
}

// boundary: extreme labels, replays, proposals far ahead, timer events for other views, commit decisions
// over chains with missing ancestors and non-increasing views
func (r *c07Runner) boundary() {
	big := int64(-1) // rendered as 2^64-1
	seqs := [][]c07Stim{
		// replay of the same genuine certificate: moves once per delivery until the view passes it, then never
		{{Op: "newview", SI: &c07SISpec{QC: &c07QCSpec{Kind: "valid", Block: "b3"}, TC: &c07TCSpec{Kind: "valid", View: 3}}},
			{Op: "newview", SI: &c07SISpec{QC: &c07QCSpec{Kind: "valid", Block: "b3"}, TC: &c07TCSpec{Kind: "valid", View: 3}}},
			{Op: "newview", SI: &c07SISpec{QC: &c07QCSpec{Kind: "valid", Block: "b3"}, TC: &c07TCSpec{Kind: "valid", View: 3}}},
			{Op: "newview", SI: &c07SISpec{QC: &c07QCSpec{Kind: "valid", Block: "b3"}, TC: &c07TCSpec{Kind: "valid", View: 3}}},
			{Op: "newview", SI: &c07SISpec{QC: &c07QCSpec{Kind: "valid", Block: "b3"}, TC: &c07TCSpec{Kind: "valid", View: 3}}}},
		// extreme stated views
		{{Op: "newview", SI: &c07SISpec{QC: &c07QCSpec{Kind: "relabel", Block: "b1", Label: big}}},
			{Op: "newview", SI: &c07SISpec{QC: &c07QCSpec{Kind: "genesis", Label: big}}},
			{Op: "newview", SI: &c07SISpec{TC: &c07TCSpec{Kind: "relabel", View: 1 << 63, Signed: 1}}},
			{Op: "newview", SI: &c07SISpec{Agg: &c07AggSpec{Kind: "relabel", View: 1 << 62, Signed: 1}}},
			{Op: "newview", SI: &c07SISpec{QC: &c07QCSpec{Kind: "valid", Block: "b2"}}},
			{Op: "newview", SI: &c07SISpec{QC: &c07QCSpec{Kind: "relabel", Block: "b5", Label: 1}}},
			{Op: "newview", SI: &c07SISpec{QC: &c07QCSpec{Kind: "valid", Block: "b3"}}}},
		// a proposal far ahead: one certificate, re-delivered after every view change
		{{Op: "propose", View: 6, From: r.leader, Parent: "b5", SI: &c07SISpec{QC: &c07QCSpec{Kind: "valid", Block: "b5"}}},
			{Op: "propose", View: 30, From: r.leader, Parent: "b5", SI: &c07SISpec{QC: &c07QCSpec{Kind: "valid", Block: "b5"}}},
			{Op: "propose", View: 7, From: r.leader, Parent: "b5", SI: &c07SISpec{QC: &c07QCSpec{Kind: "relabel", Block: "b1", Label: 12}}},
			{Op: "propose", View: 8, From: r.leader, Parent: "b5", SI: &c07SISpec{QC: &c07QCSpec{Kind: "genesis", Label: 9}}}},
		// timer events
		{{Op: "local", View: 1}, {Op: "local", View: 1}, {Op: "local", View: 0}, {Op: "local", View: 2},
			{Op: "timeout", View: 1, From: 2, Sig: "ok", SI: &c07SISpec{QC: &c07QCSpec{Kind: "valid", Block: "G"}}},
			{Op: "timeout", View: 1, From: 3, Sig: "ok", SI: &c07SISpec{QC: &c07QCSpec{Kind: "valid", Block: "G"}}},
			{Op: "timeout", View: 1, From: 4, Sig: "ok", SI: &c07SISpec{QC: &c07QCSpec{Kind: "valid", Block: "G"}}},
			{Op: "local", View: 2}, {Op: "local", View: 2}},
		// commit decisions
		{{Op: "deliver", Block: "b1"}, {Op: "deliver", Block: "b2"}, {Op: "deliver", Block: "b3"}, {Op: "deliver", Block: "b4"}, {Op: "deliver", Block: "b5"},
			{Op: "commit", Block: "o6", Target: "o6"}, {Op: "commit", Block: "b6", Target: "b1"}, {Op: "commit", Block: "n6", Target: "n6"},
			{Op: "commit", Block: "b7", Target: "b5"}, {Op: "commit", Block: "b8", Target: "b8"}, {Op: "commit", Block: "x9", Target: "n7"}},
		{{Op: "commit", Block: "n6", Target: "n5"}, {Op: "commit", Block: "x9", Target: "n6"}, {Op: "commit", Block: "x30", Target: "c3"},
			{Op: "commit", Block: "b4", Target: ""}, {Op: "commit", Block: "b8", Target: "x30"}, {Op: "commit", Block: "b7", Target: "x9"}},
		// direct ViewStates calls
		{{Op: "htc", SI: &c07SISpec{TC: &c07TCSpec{Kind: "valid", View: 4}}}, {Op: "htc", SI: &c07SISpec{TC: &c07TCSpec{Kind: "valid", View: 2}}},
			{Op: "htc", SI: &c07SISpec{TC: &c07TCSpec{Kind: "garbage", View: 9}}}, {Op: "htc", SI: &c07SISpec{TC: &c07TCSpec{Kind: "zero"}}},
			{Op: "hqc", SI: &c07SISpec{QC: &c07QCSpec{Kind: "valid", Block: "b3"}}}, {Op: "hqc", SI: &c07SISpec{QC: &c07QCSpec{Kind: "valid", Block: "b2"}}},
			{Op: "hqc", SI: &c07SISpec{QC: &c07QCSpec{Kind: "valid", Block: "m5"}}}, {Op: "hqc", SI: &c07SISpec{QC: &c07QCSpec{Kind: "valid", Block: "f4"}}},
			{Op: "hqc", SI: &c07SISpec{QC: &c07QCSpec{Kind: "zero"}}}},
	}
	for _, seq := range seqs {
		w := r.fresh(nil)
		if seq[len(seq)-1].Op == "commit" {
			if r.leader == 1 {
				continue
			}
			w = r.freshW(nil, c07StoredCommit)
		}
		for _, s := range seq {
			w.do(r.o, s)
		}
	}
}

// boundary2: the environment dimensions — genuine certificates with very large views followed by small ones,
// stale-then-fresh and invalid-then-valid deliveries, failing sender, round-robin rotation, signature cache,
// membership growth after the components were created and used, ancestors that must be fetched at depth 1-3
// from peers that are down at first and answer on the retry.
func (r *c07Runner) boundary2() {
	nv := func(si c07SISpec) c07Stim { return c07Stim{Op: "newview", SI: &si} }
	qc := func(k, b string) *c07QCSpec { return &c07QCSpec{Kind: k, Block: b} }
	tc := func(k string, v uint64) *c07TCSpec { return &c07TCSpec{Kind: k, View: v} }
	ag := func(k string, v uint64, h *c07QCSpec) *c07AggSpec { return &c07AggSpec{Kind: k, View: v, High: h} }
	type scn struct {
		opt c07Opt
		seq []c07Stim
	}
	bigViews := []c07Stim{
		nv(c07SISpec{TC: tc("valid", c07Big32+3)}), nv(c07SISpec{TC: tc("valid", 7)}), nv(c07SISpec{TC: tc("valid", c07Big31)}),
		nv(c07SISpec{TC: tc("valid", c07Big63)}), nv(c07SISpec{TC: tc("valid", c07Big32+3)}), nv(c07SISpec{TC: tc("sub", c07Big63+9)}),
		nv(c07SISpec{QC: qc("valid", "h32")}), nv(c07SISpec{QC: qc("valid", "b3")}), nv(c07SISpec{QC: qc("valid", "h31")}),
		nv(c07SISpec{QC: qc("valid", "h63")}), nv(c07SISpec{QC: qc("valid", "h32")}), nv(c07SISpec{QC: qc("sub", "h63")}),
		nv(c07SISpec{Agg: ag("valid", c07Big32, qc("valid", "h32"))}), nv(c07SISpec{Agg: ag("valid", 9, qc("valid", "b4"))}),
		nv(c07SISpec{Agg: ag("valid", c07Big63, qc("valid", "h63")), TC: tc("valid", 3)}), nv(c07SISpec{Agg: ag("valid", 5, qc("valid", "h31"))}),
		{Op: "htc", SI: &c07SISpec{TC: tc("valid", c07Big31+1)}}, {Op: "hqc", SI: &c07SISpec{QC: qc("valid", "b5")}},
	}
	staleFresh := []c07Stim{
		nv(c07SISpec{QC: qc("valid", "b1"), Agg: ag("valid", 1, qc("valid", "b1"))}),
		nv(c07SISpec{QC: qc("valid", "b1"), Agg: ag("valid", 1, qc("valid", "b1"))}),     // replay: stale now
		nv(c07SISpec{QC: qc("sub", "b2"), Agg: ag("sub", 2, nil)}),                       // invalid
		nv(c07SISpec{QC: qc("valid", "b2"), Agg: ag("valid", 2, qc("valid", "b2"))}),     // the same view, genuine
		nv(c07SISpec{TC: tc("valid", 1)}),                                                // stale but verified: remembered, no move
		nv(c07SISpec{TC: tc("sub", 9), QC: qc("valid", "b3"), Agg: ag("valid", 3, nil)}), // a bad TC voids the good rest
		nv(c07SISpec{TC: tc("valid", 3), QC: qc("garbage", "b3"), Agg: ag("garbage", 3, nil)}),
		nv(c07SISpec{TC: tc("valid", 3)}),
		nv(c07SISpec{TC: tc("valid", 2)}), // older than the remembered TC
		nv(c07SISpec{TC: tc("relabel", 9), QC: qc("valid", "G")}),
		nv(c07SISpec{TC: tc("valid", 9), QC: qc("valid", "G"), Agg: ag("valid", 1, nil)}),
		{Op: "local", View: 5}, {Op: "local", View: 5},
	}
	progress := []c07Stim{
		{Op: "deliver", Block: "b3"}, {Op: "deliver", Block: "b2"}, {Op: "deliver", Block: "b1"}, // out of order: parked, replayed
		nv(c07SISpec{TC: tc("valid", 3), Agg: ag("valid", 3, qc("valid", "b3"))}),
		{Op: "deliver", Block: "b4"}, {Op: "deliver", Block: "b4"}, {Op: "deliver", Block: "b5"}, {Op: "deliver", Block: "b6"},
		nv(c07SISpec{TC: tc("valid", 6), Agg: ag("valid", 6, qc("valid", "b6"))}),
		{Op: "deliver", Block: "b7"}, {Op: "deliver", Block: "b8"},
	}
	deep := []c07Stim{
		{Op: "commit", Block: "r10", Target: "r10", Down: true}, {Op: "commit", Block: "r10", Target: "r10"},
		{Op: "commit", Block: "r10", Target: "r10"},
		nv(c07SISpec{QC: qc("valid", "r7")}), {Op: "hqc", SI: &c07SISpec{QC: qc("valid", "r6")}, Down: true},
		{Op: "hqc", SI: &c07SISpec{QC: qc("valid", "r6")}}, nv(c07SISpec{QC: qc("valid", "f4")}),
	}
	deep2 := []c07Stim{
		nv(c07SISpec{QC: qc("valid", "r7")}), {Op: "commit", Block: "r10", Target: "r8", Down: true},
		{Op: "commit", Block: "r10", Target: "r8"}, {Op: "commit", Block: "r10", Target: "r10", Down: true}, {Op: "commit", Block: "r10", Target: "r10"},
	}
	deep2[0].Down = true
	scns := []scn{
		{c07Opt{}, bigViews}, {c07Opt{cache: 1}, bigViews},
		{c07Opt{}, staleFresh}, {c07Opt{cache: 1}, staleFresh}, {c07Opt{failSend: 1, rot: "rr"}, staleFresh},
		{c07Opt{rot: "rr"}, progress}, {c07Opt{failSend: 1}, progress}, {c07Opt{failSend: 2, rot: "rr", cache: 16}, progress},
		{c07Opt{simple: true}, progress},
		{c07Opt{stored: c07StoredDeep, remote: []string{"r7", "r6"}}, deep}, {c07Opt{stored: c07StoredDeep, remote: []string{"r7"}}, deep},
		{c07Opt{stored: c07StoredDeep, remote: []string{"r6"}}, deep}, {c07Opt{stored: c07StoredDeep, remote: []string{"r7", "r6"}}, deep2},
	}
	for _, sc := range scns {
		if sc.opt.simple && r.agg {
			continue
		}
		w := r.freshO(nil, sc.opt)
		for _, s := range sc.seq {
			w.do(r.o, s)
		}
	}
	if r.u.nFull < 7 {
		return
	}
	// membership growth: 4 of the 7 replicas are configured when the replica is created and first used
	// (quorum 3); then the other three join (quorum 5).  What was a quorum before is not one afterwards.
	for _, opt := range []c07Opt{{n0: 4}, {n0: 4, cache: 16}, {n0: 4, rot: "rr", failSend: 2}} {
		w := r.freshO(nil, opt)
		for _, s := range []c07Stim{
			nv(c07SISpec{TC: tc("valid", 1), Agg: ag("valid", 1, nil)}), // 3 signers: a quorum of 4
			nv(c07SISpec{TC: tc("sub", 2), Agg: ag("sub", 2, nil)}),     // 2 signers
			{Op: "timeout", View: 2, From: 2, Sig: "ok", SI: &c07SISpec{QC: qc("valid", "G")}},
			{Op: "timeout", View: 2, From: 3, Sig: "ok", SI: &c07SISpec{QC: qc("valid", "G")}},
			{Op: "grow"},
			{Op: "timeout", View: 2, From: 4, Sig: "ok", SI: &c07SISpec{QC: qc("valid", "G")}}, // third of 7: no certificate
			nv(c07SISpec{TC: tc("sub", 2), Agg: ag("sub", 2, nil)}),                            // 4 signers now: not a quorum of 7
			nv(c07SISpec{QC: qc("sub", "b2")}),
			{Op: "timeout", View: 2, From: 5, Sig: "ok", SI: &c07SISpec{QC: qc("valid", "G")}},
			{Op: "timeout", View: 2, From: 6, Sig: "ok", SI: &c07SISpec{QC: qc("valid", "G")}}, // fifth: certificate
			nv(c07SISpec{TC: tc("valid", 3), Agg: ag("valid", 3, nil)}),
			nv(c07SISpec{QC: qc("valid", "b4")}),
		} {
			w.do(r.o, s)
		}
		// a certificate built for the small membership, replayed after the growth
		w = r.freshO(nil, opt)
		w.do(r.o, c07Stim{Op: "grow"})
		for _, si := range []c07SISpec{{TC: tc("valid", 5)}, {QC: qc("valid", "b5")}, {Agg: ag("valid", 5, nil)},
			{TC: tc("valid", 1), QC: qc("valid", "b1"), Agg: ag("valid", 1, qc("valid", "b1"))}} {
			st := nv(si)
			st.OldN = 4
			w.do(r.o, st)
		}
	}
}

// boundary3: certificates assembled from individual signatures the replica has already verified one by one
// (votes, timeout messages, its own signatures) — with the signature cache on and off.  For every certificate
// kind: one known signature repeated q times, known genuine signatures mixed with repeats, and q distinct known
// signatures (legitimate).  The oracle is the ground truth: q DISTINCT members must stand behind every move.
func (r *c07Runner) boundary3() {
	nv := func(si c07SISpec) c07Stim { return c07Stim{Op: "newview", SI: &si} }
	gqc := &c07QCSpec{Kind: "valid", Block: "G"}
	to := func(w uint64, from int) c07Stim {
		return c07Stim{Op: "timeout", View: w, From: from, Sig: "ok", SI: &c07SISpec{QC: gqc}}
	}
	vote := func(b string, from int) c07Stim { return c07Stim{Op: "vote", Block: b, From: from} }
	for _, opt := range []c07Opt{{cache: 64}, {cache: 16, rot: "rr"}, {}} {
		for _, wv := range []uint64{1, 3} {
			bl := c07Blk(wv)
			var seqs [][]c07Stim
			for _, k := range []string{"dup1", "mixrep", "cached", "ownrep", "dup"} {
				tcs := func() *c07TCSpec { return &c07TCSpec{Kind: k, View: wv} }
				ags := func() *c07AggSpec { return &c07AggSpec{Kind: k, View: wv} }
				qcs := func() *c07QCSpec { return &c07QCSpec{Kind: k, Block: bl} }
				// timeout certificates / aggregate QCs from known timeout signatures
				pre := []c07Stim{to(wv, 2)}
				if k != "dup1" {
					pre = append(pre, to(wv, 3))
				}
				if k == "ownrep" || k == "dup" {
					pre = append(pre, c07Stim{Op: "local", View: 1})
				}
				if k == "dup" {
					for i := 4; i < r.u.q; i++ {
						pre = append(pre, to(wv, i))
					}
				}
				ownView := wv
				if k == "ownrep" {
					ownView = 1 // the replica has signed a timeout for its own view only
				}
				s1 := append(append([]c07Stim{}, pre...),
					nv(c07SISpec{TC: &c07TCSpec{Kind: k, View: ownView}}), nv(c07SISpec{TC: &c07TCSpec{Kind: k, View: ownView}}),
					nv(c07SISpec{TC: tcs(), QC: gqc}), c07Stim{Op: "adv", SI: &c07SISpec{TC: tcs(), Agg: ags()}},
					nv(c07SISpec{Agg: ags()}), nv(c07SISpec{Agg: &c07AggSpec{Kind: k, View: ownView}}),
					c07Stim{Op: "timeout", View: wv, From: 4, Sig: "ok", SI: &c07SISpec{QC: gqc, TC: tcs()}})
				// quorum certificates from known votes
				s2 := []c07Stim{vote(bl, 2)}
				if k != "dup1" {
					s2 = append(s2, vote(bl, 3))
				}
				s2 = append(s2, nv(c07SISpec{QC: qcs()}), nv(c07SISpec{QC: qcs()}),
					nv(c07SISpec{Agg: &c07AggSpec{Kind: "valid", View: wv, High: qcs()}}),
					c07Stim{Op: "propose", View: wv + 1, From: int(r.leaderOf(opt, wv+1)), Parent: bl, SI: &c07SISpec{QC: qcs()}},
					c07Stim{Op: "hqc", SI: &c07SISpec{QC: qcs()}})
				seqs = append(seqs, s1, s2)
			}
			// enough genuine single signatures: the replica builds the certificate itself
			var s3 []c07Stim
			for i := 2; i <= r.u.q+1; i++ {
				s3 = append(s3, vote(bl, i))
			}
			for i := 2; i <= r.u.q+1; i++ {
				s3 = append(s3, to(wv, i))
			}
			s3 = append(s3, nv(c07SISpec{TC: &c07TCSpec{Kind: "cached", View: wv}, QC: &c07QCSpec{Kind: "cached", Block: bl}}))
			seqs = append(seqs, s3)
			for _, seq := range seqs {
				w := r.freshO(nil, opt)
				for _, s := range seq {
					w.do(r.o, s)
				}
			}
		}
	}
}

// boundaryBLS: BLS12-381 worlds in which configured member 4 has a bad proof of possession (rogue key built from
// the other members' keys, another key's proof, a garbage proof, no proof) or a good one.  Certificates that only
// verify if member 4's registered key is used — forged aggregates made by that member alone (rogue key), and
// genuine-looking certificates that need its signature to reach the quorum — are delivered several times in a row
// in new-view messages, timeout sync infos, proposals and aggregate QCs, and single timeouts / votes of member 4
// are repeated before the honest ones.  Ground truth: only members with usable keys count towards the q signers.
func (r *c07Runner) boundaryBLS(search bool) {
	nv := func(si c07SISpec) c07Stim { return c07Stim{Op: "newview", SI: &si} }
	gqc := &c07QCSpec{Kind: "valid", Block: "G"}
	to := func(w uint64, from int, si *c07SISpec) c07Stim {
		if si == nil {
			si = &c07SISpec{QC: gqc}
		}
		return c07Stim{Op: "timeout", View: w, From: from, Sig: "ok", SI: si}
	}
	vote := func(b string, from int) c07Stim { return c07Stim{Op: "vote", Block: b, From: from} }
	rep := func(n int, s c07Stim) []c07Stim {
		var l []c07Stim
		for i := 0; i < n; i++ {
			l = append(l, s)
		}
		return l
	}
	cat := func(ls ...[]c07Stim) []c07Stim {
		var l []c07Stim
		for _, x := range ls {
			l = append(l, x...)
		}
		return l
	}
	opts := []c07Opt{{badPop: "rogue"}, {badPop: "rogue13", cache: 16}, {badPop: "other-key"}, {badPop: "garbage", cache: 16},
		{badPop: "missing"}, {}}
	if search || r.o.v.Thorough() {
		opts = append(opts, c07Opt{badPop: "rogue", cache: 16}, c07Opt{badPop: "rogue13"}, c07Opt{badPop: "other-key", cache: 1},
			c07Opt{badPop: "garbage"}, c07Opt{badPop: "missing", cache: 16, rot: "rr"})
	}
	for _, opt := range opts {
		ftc := func(w uint64) *c07TCSpec { return &c07TCSpec{Kind: "forge", View: w} }
		fqc := func(b string) *c07QCSpec { return &c07QCSpec{Kind: "forge", Block: b} }
		seqs := [][]c07Stim{
			// timeout certificates: forged for a far view, three times; then one that needs member 4, three times;
			// then a genuine one
			cat(rep(3, nv(c07SISpec{TC: ftc(7)})), rep(3, nv(c07SISpec{TC: &c07TCSpec{Kind: "validHi", View: 1}})),
				rep(2, nv(c07SISpec{TC: ftc(1), QC: gqc})), []c07Stim{nv(c07SISpec{TC: &c07TCSpec{Kind: "valid", View: 1}})},
				rep(2, nv(c07SISpec{TC: ftc(9)}))),
			// quorum certificates
			cat(rep(3, nv(c07SISpec{QC: fqc("b3")})), rep(3, nv(c07SISpec{QC: &c07QCSpec{Kind: "validHi", Block: "b1"}})),
				rep(2, c07Stim{Op: "propose", View: 2, From: r.leader, Parent: "b1", SI: &c07SISpec{QC: fqc("b1")}}),
				rep(2, nv(c07SISpec{Agg: &c07AggSpec{Kind: "valid", View: 1, High: fqc("b2")}})),
				rep(2, c07Stim{Op: "hqc", SI: &c07SISpec{QC: fqc("b2")}}),
				[]c07Stim{nv(c07SISpec{QC: &c07QCSpec{Kind: "valid", Block: "b1"}}), nv(c07SISpec{QC: fqc("b4")})}),
			// carried by timeout messages of an honest sender
			cat(rep(3, to(1, 2, &c07SISpec{QC: gqc, TC: ftc(5)})), rep(2, to(1, 3, &c07SISpec{QC: fqc("b2")})),
				rep(2, to(1, 3, &c07SISpec{QC: gqc, Agg: &c07AggSpec{Kind: "validHi", View: 1}}))),
			// member 4's own timeouts and votes, repeated, before the honest ones: 4 + 2 + 3 is not a quorum of usable keys
			cat(rep(3, to(1, 4, nil)), []c07Stim{to(1, 2, nil), to(1, 4, nil), to(1, 3, nil), to(1, 4, nil)}),
			cat(rep(3, vote("b1", 4)), []c07Stim{vote("b1", 2), vote("b1", 4), vote("b1", 3), vote("b1", 4)}),
			// aggregate QCs that need member 4
			cat(rep(3, nv(c07SISpec{Agg: &c07AggSpec{Kind: "validHi", View: 1}})), rep(2, nv(c07SISpec{Agg: &c07AggSpec{Kind: "cached", View: 1}, TC: ftc(1)})),
				[]c07Stim{nv(c07SISpec{Agg: &c07AggSpec{Kind: "valid", View: 1}})}),
		}
		for _, seq := range seqs {
			w := r.freshO(nil, opt)
			r.o.v.Count("world" + opt.tag())
			for _, s := range seq {
				w.do(r.o, s)
			}
		}
	}
}

// boundaryAgg: aggregate QCs in which the set of signers and the set of reporting replicas (the keys of the QC
// map) differ — signers a strict superset of the reporters (the extra entries being random bytes, genuine
// signatures of another message, or genuine signatures of the right message by members that did not report),
// reporters a strict superset of the signers, and equally large but different sets — for every scheme of the
// run, signature cache off and on, and both paths on which an aggregate QC is verified: sync infos (new-view,
// timeout, replay) and proposals.  Fewer than a quorum of (signer, report) pairs verify in all of them.
func (r *c07Runner) boundaryAgg() {
	if !r.agg {
		return
	}
	gqc := &c07QCSpec{Kind: "valid", Block: "G"}
	type variant struct {
		kind      string
		reporters int
		total     int
	}
	for _, opt := range []c07Opt{{}, {cache: 16}} {
		for which := 0; which <= 1; which++ {
			prefix := c07Prefix(true, which)
			q, n := hotstuff.QuorumSize(r.u.nFull), r.u.nFull
			var vs []variant
			for _, k := range []string{"split-junk", "split-othermsg", "split-rightmsg"} {
				vs = append(vs, variant{k, 1, q}, variant{k, q - 1, q}, variant{k, 1, n}, variant{k, q - 1, n + 1})
			}
			vs = append(vs, variant{"split-morereports", 0, 0}, variant{"split-diffsets", 0, 0})
			for _, vr := range vs {
				for _, dv := range []uint64{0, 3} {
					w := r.freshO(prefix, opt)
					cv := w.obs().view
					hb := c07Blk(cv)
					mk := func(high bool) *c07AggSpec {
						a := &c07AggSpec{Kind: vr.kind, View: cv + dv, Reporters: vr.reporters, Total: vr.total}
						if high {
							a.High = &c07QCSpec{Kind: "valid", Block: hb}
						}
						return a
					}
					for _, s := range []c07Stim{
						{Op: "newview", SI: &c07SISpec{Agg: mk(false)}},
						{Op: "newview", SI: &c07SISpec{Agg: mk(false)}}, // replay (a cached verdict must be the same verdict)
						{Op: "newview", SI: &c07SISpec{Agg: mk(true), TC: &c07TCSpec{Kind: "valid", View: c07Sub(cv, 1)}}},
						{Op: "timeout", View: cv, From: 3, Sig: "ok", SI: &c07SISpec{QC: gqc, Agg: mk(true)}},
						{Op: "propose", View: cv + 1, From: r.leader, Parent: hb, SI: &c07SISpec{QC: &c07QCSpec{Kind: "valid", Block: hb}, Agg: mk(true)}},
						{Op: "adv", SI: &c07SISpec{Agg: mk(false), QC: gqc}},
					} {
						w.do(r.o, s)
					}
				}
			}
		}
	}
	r.o.v.Count("boundaryAgg:" + r.u.scheme)
}

// boundaryJunk: sub-quorum certificates whose junk entries sit at every kind of position.  A QC, TC or AggQC
// signature with q (or n) entries of distinct configured members, g of them genuine and the rest junk (random
// bytes, or the member's genuine signature of another message): junk block first / last / interleaved, and one
// junk entry at each position; g in {q-1, 4, 8 (where < q), 1}.  None of them contains a quorum of genuine
// signatures, so none may move the replica, whatever order or chunking the verification uses.
func (r *c07Runner) boundaryJunk() {
	q, n := hotstuff.QuorumSize(r.u.nFull), r.u.nFull
	var kinds []string
	seen := map[string]bool{}
	add := func(k string) {
		if !seen[k] {
			seen[k] = true
			kinds = append(kinds, k)
		}
	}
	for _, g := range []int{q - 1, 4, 8, 1} {
		if g < 1 || g >= q {
			continue
		}
		for _, total := range []int{q, n} {
			for _, layout := range []string{"first", "last", "inter"} {
				add(fmt.Sprintf("jp:%d:%s:%d:g", g, layout, total))
				if layout != "inter" || g == q-1 {
					add(fmt.Sprintf("jp:%d:%s:%d:o", g, layout, total))
				}
			}
		}
	}
	for _, total := range []int{q, n} {
		for p := 0; p < total; p++ {
			jk := "g"
			if p%2 == 1 {
				jk = "o"
			}
			add(fmt.Sprintf("jp:%d:at%d:%d:%s", total-1, p, total, jk)) // total = n: n-1 >= q genuine is legitimate
		}
	}
	gqc := &c07QCSpec{Kind: "valid", Block: "G"}
	w := r.freshO(nil, c07Opt{})
	cnt := 0
	for i, k := range kinds {
		var sis []c07SISpec
		sis = append(sis, c07SISpec{TC: &c07TCSpec{Kind: k, View: 1}})
		if r.agg {
			sis = append(sis, c07SISpec{Agg: &c07AggSpec{Kind: k, View: 1}}, c07SISpec{Agg: &c07AggSpec{Kind: "valid", View: 1, High: &c07QCSpec{Kind: k, Block: "b1"}}})
		} else {
			sis = append(sis, c07SISpec{QC: &c07QCSpec{Kind: k, Block: "b1"}}, c07SISpec{QC: &c07QCSpec{Kind: k, Block: "b2"}, TC: &c07TCSpec{Kind: "valid", View: 0}})
		}
		for j, si := range sis {
			si := si
			st := c07Stim{Op: "newview", SI: &si}
			switch (i + j) % 5 {
			case 1:
				st.Op = "adv"
			case 3:
				if si.QC == nil {
					si.QC = gqc
				}
				st = c07Stim{Op: "timeout", View: 1, From: 2, Sig: "ok", SI: &si}
			}
			before := w.obs()
			w.held = map[c07Contrib]bool{}
			w.hist = nil
			after := w.do(r.o, st)
			cnt++
			if after != before {
				w = r.freshO(nil, c07Opt{})
			}
		}
	}
	r.o.v.CountN("junk-position:"+r.u.scheme+fmt.Sprintf("/n%d", n), cnt)
}

// boundaryPad: certificates signed by g < q members ALONE (the aggregate point is exactly the sum of their
// signatures) whose participant set is padded to q or to n ids with ids that contributed nothing: non-member ids
// just above n, far ids, members that did not sign — above and below the genuine ids.  The participant count then
// looks like a quorum; whatever the verification does with the ids it cannot resolve, fewer than q members signed.
// Run in the bls12 worlds (with and without a member whose proof of possession is bad); for the list schemes the
// padding entries are random bytes.
func (r *c07Runner) boundaryPad() {
	q, n := hotstuff.QuorumSize(r.u.nFull), r.u.nFull
	var kinds []string
	for _, g := range []int{1, q - 1} {
		if g < 1 || g >= q {
			continue
		}
		for _, total := range []int{q, n} {
			for _, with := range []string{"above", "far", "members", "mixed"} {
				for _, place := range []string{"lo", "hi", "mid"} {
					if place == "mid" && (g > 3 || (with != "mixed" && with != "above")) {
						continue
					}
					if with == "mixed" && place == "hi" {
						continue
					}
					kinds = append(kinds, fmt.Sprintf("pad:%d:%d:%s:%s", g, total, with, place))
				}
			}
		}
	}
	opts := []c07Opt{{}}
	if r.u.scheme == crypto.NameBLS12 {
		opts = append(opts, c07Opt{badPop: "other-key"}, c07Opt{badPop: "missing", cache: 16}, c07Opt{badPop: "rogue"})
	}
	gqc := &c07QCSpec{Kind: "valid", Block: "G"}
	cnt := 0
	for _, opt := range opts {
		w := r.freshO(nil, opt)
		for i, k := range kinds {
			var sis []c07SISpec
			sis = append(sis, c07SISpec{TC: &c07TCSpec{Kind: k, View: 1}})
			if r.agg {
				sis = append(sis, c07SISpec{Agg: &c07AggSpec{Kind: k, View: 1}}, c07SISpec{Agg: &c07AggSpec{Kind: "valid", View: 1, High: &c07QCSpec{Kind: k, Block: "b1"}}})
			} else {
				sis = append(sis, c07SISpec{QC: &c07QCSpec{Kind: k, Block: "b1"}}, c07SISpec{QC: &c07QCSpec{Kind: k, Block: "b3"}, TC: &c07TCSpec{Kind: "valid", View: 0}})
			}
			for j, si := range sis {
				si := si
				st := c07Stim{Op: "newview", SI: &si}
				switch (i + j) % 6 {
				case 1:
					st.Op = "adv"
				case 3:
					if si.QC == nil {
						si.QC = gqc
					}
					st = c07Stim{Op: "timeout", View: 1, From: 2, Sig: "ok", SI: &si}
				case 5:
					if si.QC != nil && si.TC == nil {
						st = c07Stim{Op: "propose", View: 2, From: 2, Parent: si.QC.Block, SI: &si}
					}
				}
				before := w.obs()
				w.held = map[c07Contrib]bool{}
				w.hist = nil
				after := w.do(r.o, st)
				cnt++
				if after != before {
					w = r.freshO(nil, opt)
				}
			}
		}
	}
	r.o.v.CountN("padded-participants:"+r.u.scheme+fmt.Sprintf("/n%d", n), cnt)
}

func (r *c07Runner) leaderOf(opt c07Opt, v uint64) hotstuff.ID {
	if opt.rot == "rr" {
		return leaderrotation.ChooseRoundRobin(hotstuff.View(v), r.u.nFull)
	}
	return hotstuff.ID(r.leader)
}

// c07Sanity: the harness can only show something if the certificates it calls genuine are accepted by the
// implementation (otherwise every stimulus is inert and the check is vacuously green — this happened when the
// byte form of multi-signatures changed).  Not an oracle of the property: a failure makes the test fail, which
// bin/check reports as a broken harness.
func c07Sanity(u *c07Univ, agg bool) error {
	w := c07NewWorld(u, agg, 2, c07Opt{stored: c07Stored, remote: c07Remote})
	tc, _ := u.buildTC(c07TCSpec{Kind: "valid", View: 1})
	if err := w.auth.VerifyTimeoutCert(tc); err != nil {
		return fmt.Errorf("%s: genuine TC rejected: %v", u.scheme, err)
	}
	qc, _ := u.buildQC(c07QCSpec{Kind: "valid", Block: "b1"})
	if err := w.auth.VerifyQuorumCert(qc); err != nil {
		return fmt.Errorf("%s: genuine QC rejected: %v", u.scheme, err)
	}
	ag, _ := u.buildAgg(c07AggSpec{Kind: "valid", View: 1, High: &c07QCSpec{Kind: "valid", Block: "b1"}})
	if _, err := w.auth.VerifyAggregateQC(ag); err != nil {
		return fmt.Errorf("%s: genuine AggQC rejected: %v", u.scheme, err)
	}
	si := hotstuff.NewSyncInfoWith(tc)
	w.syn.advanceView(si)
	w.drain()
	if w.vs.View() != 2 {
		return fmt.Errorf("%s: a genuine TC for view 1 did not move the replica from view 1", u.scheme)
	}
	return nil
}

func c07Size(v *verifOut, search bool, q, t int) int {
	if search {
		return 3 * q
	}
	return v.Pick(q, t)
}

func TestVerifC07(t *testing.T) {
	v := verifNew("C07")
	o := &c07Out{v: v, step: v.Stream("step", "step_mismatches", 300), vsi: v.Stream("vsi", "vsi_mismatches", 400), seen: map[string]bool{}}
	type cfg struct {
		scheme string
		n      int
	}
	cfgs := []cfg{{crypto.NameECDSA, 4}, {crypto.NameEDDSA, 7}}
	// bin/check's search phase (looking for a failing input after a model/implementation difference) runs the
	// thorough tier with other seeds; a few times the quick random stream is enough for that purpose
	search := os.Getenv("VERIF_SEARCH") != ""
	if v.Thorough() && !search {
		cfgs = append(cfgs, cfg{crypto.NameEDDSA, 4}, cfg{crypto.NameECDSA, 7})
	}
	var wg sync.WaitGroup
	idx := 0
	// BLS12-381: worlds with a member whose proof of possession is bad, plus a short general stream
	for _, agg := range []bool{false, true} {
		idx++
		r := &c07Runner{o: o, u: c07NewUniv(crypto.NameBLS12, 4), agg: agg, leader: 2,
			rng: &c07Rand{uint64(v.seed)*0x9E3779B97F4A7C15 + uint64(idx)*0xD1B54A32D192ED03 + 1}}
		wg.Add(1)
		go func() {
			defer wg.Done()
			defer func() {
				if p := recover(); p != nil {
					v.Oracle(false, "harness-panic", fmt.Sprint(p), r.u.scheme)
				}
			}()
			if err := c07Sanity(r.u, agg); err != nil {
				t.Errorf("C07 harness sanity: %v", err)
				return
			}
			r.boundaryBLS(search)
			r.boundaryAgg()
			r.boundaryJunk()
			r.boundaryPad()
			r.blsPop = true
			r.random(c07Size(v, search, 6, 120))
		}()
	}
	// every scheme at a membership whose quorum is above 4 and not a multiple of 4 or 8 (n=7, q=5; thorough also
	// n=10, q=7): the sub-quorum families only (eddsa n=7 has a full runner below)
	light := []cfg{{crypto.NameECDSA, 7}, {crypto.NameBLS12, 7}}
	if v.Thorough() && !search {
		light = append(light, cfg{crypto.NameECDSA, 10}, cfg{crypto.NameEDDSA, 10}, cfg{crypto.NameBLS12, 10}, cfg{crypto.NameEDDSA, 13})
	}
	for _, c := range light {
		if v.Thorough() && !search && c.scheme == crypto.NameECDSA && c.n == 7 {
			continue // has a full runner in the thorough tier
		}
		for _, agg := range []bool{false, true} {
			idx++
			r := &c07Runner{o: o, u: c07NewUniv(c.scheme, c.n), agg: agg, leader: 2,
				rng: &c07Rand{uint64(v.seed)*0x9E3779B97F4A7C15 + uint64(idx)*0xD1B54A32D192ED03 + 1}}
			wg.Add(1)
			go func() {
				defer wg.Done()
				defer func() {
					if p := recover(); p != nil {
						v.Oracle(false, "harness-panic", fmt.Sprint(p), r.u.scheme)
					}
				}()
				if err := c07Sanity(r.u, agg); err != nil {
					t.Errorf("C07 harness sanity: %v", err)
					return
				}
				r.boundaryJunk()
				r.boundaryPad()
				r.boundaryAgg()
			}()
		}
	}
	for _, c := range cfgs {
		for _, agg := range []bool{false, true} {
			for _, leader := range []int{2, 1} {
				idx++
				r := &c07Runner{o: o, u: c07NewUniv(c.scheme, c.n), agg: agg, leader: leader,
					rng: &c07Rand{uint64(v.seed)*0x9E3779B97F4A7C15 + uint64(idx)*0xD1B54A32D192ED03 + 1}}
				wg.Add(1)
				go func() {
					defer wg.Done()
					defer func() {
						if p := recover(); p != nil {
							v.Oracle(false, "harness-panic", fmt.Sprint(p), r.u.scheme)
						}
					}()
					if err := c07Sanity(r.u, agg); err != nil {
						t.Errorf("C07 harness sanity: %v", err)
						return
					}
					r.boundary()
					r.boundary2()
					r.boundary3()
					if leader == 2 {
						r.boundaryAgg()
						r.boundaryJunk()
						if !agg {
							r.boundaryPad()
						}
					}
					if leader == 2 {
						r.exhaustive(v.Thorough() && !search)
						r.random(c07Size(v, search, 90, 1500))
					} else {
						r.random(c07Size(v, search, 30, 500))
					}
				}()
			}
		}
	}
	wg.Wait()
	v.Close("one external stimulus (advanceView / NewViewMsg / ProposeMsg / TimeoutMsg / TimeoutEvent / TryCommit / UpdateHighQC / UpdateHighTC) delivered to a real Synchronizer+ViewStates+Authority+Voter+Committer and drained; distinct = world + history + stimulus; non-trivial = the stimulus reached advanceView, a commit decision or changed the state")
}

package synchronizer

// Correspondence + oracle harness for C03 (honest replicas vote once per view, only for
// well-formed leader proposals).  A full replica stack (event loop, blockchain, authority,
// ruleset, committer, voter, proposer, voting machine, clique, synchronizer) is wired by hand the
// way synchronizer_test.go does, with two recording wrappers: the crypto.Base given to the
// authority logs every Sign(message) call, and the ruleset logs VoteRule verdicts and the
// proposals ProposeRule builds.  An adversary controlling the three other replicas' keys crafts
// proposals, timeout certificates and quorum certificates and feeds them through the replica's
// event loop; prioritised observers mark the handler invocations.  Every invocation becomes a
// model event (ground truth of the crafted certificates + verdicts returned by the real
// components) with the observed signatures and the replica's view afterwards; the Coq kernel
// replays the model on the whole run.  Independently of the model, the property's three statements
// are evaluated on the recorded Sign calls.

import (
	"context"
	"crypto/sha256"
	"encoding/binary"
	"fmt"
	"os"
	"reflect"
	"sort"
	"strings"
	"testing"
	"time"

	"github.com/relab/hotstuff"
	"github.com/relab/hotstuff/core"
	"github.com/relab/hotstuff/core/eventloop"
	"github.com/relab/hotstuff/core/logging"
	"github.com/relab/hotstuff/internal/proto/clientpb"
	"github.com/relab/hotstuff/internal/testutil"
	"github.com/relab/hotstuff/protocol"
	"github.com/relab/hotstuff/protocol/comm"
	"github.com/relab/hotstuff/protocol/consensus"
	"github.com/relab/hotstuff/protocol/leaderrotation"
	"github.com/relab/hotstuff/protocol/rules"
	"github.com/relab/hotstuff/protocol/votingmachine"
	"github.com/relab/hotstuff/security/blockchain"
	"github.com/relab/hotstuff/security/cert"
	"github.com/relab/hotstuff/security/crypto"
	"github.com/relab/hotstuff/wiring"
)

// ---------------------------------------------------------------- recording wrappers

type c03Signer struct {
	crypto.Base
	w *c03World
}

func (s *c03Signer) Sign(message []byte) (hotstuff.QuorumSignature, error) {
	cp := append([]byte(nil), message...)
	if s.w.cur != nil {
		s.w.cur.signs = append(s.w.cur.signs, cp)
	} else {
		s.w.stray = append(s.w.stray, cp)
	}
	return s.Base.Sign(message)
}

// c03Sender is the replica's core.Sender.  Like the real network.GorumsSender, whose Vote returns
// an error while the receiver is not (yet) in the replica table, it can be told to fail vote sends.
type c03Sender struct {
	*testutil.MockSender
	w *c03World
}

func (s *c03Sender) Vote(id hotstuff.ID, pc hotstuff.PartialCert) error {
	if s.w.failVotes {
		if s.w.cur != nil {
			s.w.cur.sendFailed++
		}
		return fmt.Errorf("replica does not exist (id=%d)", id)
	}
	return s.MockSender.Vote(id, pc)
}

var _ core.Sender = (*c03Sender)(nil)

// c03Comm wraps the replica's communication module.  Like Kauri's Aggregate / Disseminate when
// Sender.Sub refuses the children, it can fail before anything was handed to the network.
type c03Comm struct {
	inner comm.Communication
	w     *c03World
}

func (c *c03Comm) fail() bool {
	if c.w.failComm {
		if c.w.cur != nil {
			c.w.cur.sendFailed++
		}
		return true
	}
	return false
}

func (c *c03Comm) Aggregate(p *hotstuff.ProposeMsg, pc hotstuff.PartialCert) error {
	if c.fail() {
		return fmt.Errorf("unable to send the vote: sub-configuration refused")
	}
	return c.inner.Aggregate(p, pc)
}

func (c *c03Comm) Disseminate(p *hotstuff.ProposeMsg, pc hotstuff.PartialCert) error {
	if c.fail() {
		return fmt.Errorf("unable to send the proposal to children: sub-configuration refused")
	}
	return c.inner.Disseminate(p, pc)
}

// c03Table is a leader rotation over whatever ids are members right now (sorted), for id sets the
// round-robin rotation (ids 1..n) cannot serve.  Which replica leads a view is an input of C03.
type c03Table struct{ w *c03World }

func (r c03Table) GetLeader(view hotstuff.View) hotstuff.ID {
	m := r.w.members
	return m[uint64(view)%uint64(len(m))]
}

type c03RuleCall struct {
	hash    hotstuff.Hash
	verdict bool
}

type c03Rules struct {
	inner consensus.Ruleset
	w     *c03World
}

func (r *c03Rules) VoteRule(view hotstuff.View, p hotstuff.ProposeMsg) bool {
	b := r.inner.VoteRule(view, p)
	if r.w.cur != nil {
		r.w.cur.rules = append(r.w.cur.rules, c03RuleCall{p.Block.Hash(), b})
	}
	return b
}
func (r *c03Rules) CommitRule(b *hotstuff.Block) *hotstuff.Block { return r.inner.CommitRule(b) }
func (r *c03Rules) ChainLength() int                             { return r.inner.ChainLength() }
func (r *c03Rules) ProposeRule(view hotstuff.View, si hotstuff.SyncInfo, cmd *clientpb.Batch) (hotstuff.ProposeMsg, bool) {
	p, ok := r.inner.ProposeRule(view, si, cmd)
	r.w.proposeCalls++
	if ok && p.Block != nil {
		r.w.known[p.Block.Hash()] = p.Block
		if r.w.cur != nil {
			cp := p
			r.w.cur.owns = append(r.w.cur.owns, &cp)
		}
	}
	return p, ok
}

// ---------------------------------------------------------------- world

type c03QCInfo struct {
	ok        bool // ground truth: a quorum of distinct replicas signed exactly this block, and the block can be obtained
	nsig      int  // distinct members that signed exactly the named block
	shaped    bool // built by shapeQC: label and presence of a signature are part of the ground truth
	absent    bool // no signature at all (nil or a nil pointer)
	label     hotstuff.View
	genesis   bool // names the genesis block
	haveBlock bool
	blockView hotstuff.View
	kind      string
}

type c03AggInfo struct {
	nsig int
	qc   hotstuff.QuorumCert
	same bool
}

type c03SI struct {
	ok   bool
	view hotstuff.View
	desc string
}

type c03Inv struct {
	kind       int // 0 proposal, 1 timeout event, 2 new-view
	prop       hotstuff.ProposeMsg
	tview      hotstuff.View
	si         c03SI
	signs      [][]byte
	rules      []c03RuleCall
	owns       []*hotstuff.ProposeMsg
	viewAfter  hotstuff.View
	sendFailed int           // vote sends that returned an error during this invocation
	quorum     int           // RuntimeConfig.QuorumSize() when the invocation started
	leaders    [][2]uint64   // the rotation's answers when the invocation started: (view, leader)
	lvAfter    hotstuff.View // Voter.lastVotedView after the invocation
}

type c03World struct {
	t            testing.TB
	ruleName     string
	cryptoNm     string
	agg          bool
	self         hotstuff.ID
	cfg          *core.RuntimeConfig
	el           *eventloop.EventLoop
	syn          *Synchronizer
	states       *protocol.ViewStates
	cmds         *clientpb.CommandCache
	others       []*cert.Authority
	otherID      hotstuff.ID
	otherIDs     []hotstuff.ID // ids of the replicas whose keys the adversary holds, parallel to others
	pool         *blockchain.Blockchain
	blocks       []*hotstuff.Block
	known        map[hotstuff.Hash]*hotstuff.Block
	qcs          map[string]c03QCInfo
	qcMemo       map[string]hotstuff.QuorumCert
	wf           map[hotstuff.Hash]bool          // blocks an honest replica running the repaired Verify could vote for
	certIn       map[hotstuff.View]hotstuff.Hash // the one block per view that got a quorum
	aggs         map[*hotstuff.AggregateQC]c03AggInfo
	intern       map[hotstuff.Hash]uint64
	invs         []*c03Inv
	cur          *c03Inv
	pending      []c03SI
	stray        [][]byte
	seq          uint64
	nonce        uint64
	lastMsg      *hotstuff.ProposeMsg
	notes        []string
	failVotes    bool // core.Sender.Vote returns an error
	failComm     bool // Aggregate / Disseminate return an error before sending anything
	conf         c03Cfg
	members      []hotstuff.ID // ids in the replica's configuration, sorted
	rot          leaderrotation.LeaderRotation
	joiner       *testutil.Essentials // a replica that is added to the configuration later
	proposeCalls int
	oldMembers   []hotstuff.ID // the membership before the joiner was added
}

// c03Cfg selects everything that is configuration: ruleset, timeout rule (aggregate QCs or not),
// signature scheme, the ids of the replicas, which of them is the replica under test, the leader
// rotation, and whether a further replica stands by to join.
type c03Cfg struct {
	Rule     string        `json:"ruleset"`
	Agg      bool          `json:"aggregate_qc"`
	Crypto   string        `json:"crypto"`
	IDs      []hotstuff.ID `json:"ids"`
	SelfIdx  int           `json:"self_index"`
	Rotation string        `json:"rotation"` // round-robin | fixed | table
	Joiner   hotstuff.ID   `json:"joiner,omitempty"`
}

func (c c03Cfg) self() hotstuff.ID { return c.IDs[c.SelfIdx] }
func (c c03Cfg) String() string {
	return fmt.Sprintf("%s/agg=%t/%s/ids=%v/self=%d/%s/join=%d", c.Rule, c.Agg, c.Crypto, c.IDs, c.self(), c.Rotation, c.Joiner)
}

func c03Std(rule string, self hotstuff.ID) c03Cfg {
	return c03Cfg{Rule: rule, Agg: rule == rules.NameFastHotStuff, Crypto: crypto.NameECDSA,
		IDs: []hotstuff.ID{1, 2, 3, 4}, SelfIdx: int(self) - 1, Rotation: "round-robin"}
}

func (w *c03World) leaderOf(view hotstuff.View) hotstuff.ID { return w.rot.GetLeader(view) }
func (w *c03World) quorumNow() int                          { return w.cfg.QuorumSize() }

// c03NewSet is testutil.NewEssentialsSet for arbitrary replica ids.
func c03NewSet(t testing.TB, ids []hotstuff.ID, cryptoName string, opts ...core.RuntimeOption) []*testutil.Essentials {
	var set []*testutil.Essentials
	var infos []hotstuff.ReplicaInfo
	for _, id := range ids {
		e := testutil.WireUpEssentials(t, id, cryptoName, opts...)
		infos = append(infos, hotstuff.ReplicaInfo{ID: id, PubKey: e.RuntimeCfg().PrivateKey().Public(), Metadata: e.RuntimeCfg().ConnectionMetadata()})
		set = append(set, e)
	}
	for _, e := range set {
		for i := range infos {
			e.RuntimeCfg().AddReplica(&infos[i])
		}
		for _, o := range set {
			if o != e {
				e.MockSender().AddBlockchain(o.Blockchain())
			}
		}
	}
	return set
}

func c03NewWorld(t testing.TB, conf c03Cfg) *c03World {
	ruleName, cryptoName, self, agg := conf.Rule, conf.Crypto, conf.self(), conf.Agg
	var opts []core.RuntimeOption
	if agg {
		opts = append(opts, core.WithAggregateQC())
	}
	all := append([]hotstuff.ID{}, conf.IDs...)
	if conf.Joiner != 0 {
		all = append(all, conf.Joiner)
	}
	full := c03NewSet(t, all, cryptoName, opts...)
	w := &c03World{t: t, ruleName: ruleName, cryptoNm: cryptoName, agg: agg, self: self, conf: conf,
		known: map[hotstuff.Hash]*hotstuff.Block{}, qcs: map[string]c03QCInfo{}, qcMemo: map[string]hotstuff.QuorumCert{},
		wf: map[hotstuff.Hash]bool{}, certIn: map[hotstuff.View]hotstuff.Hash{},
		aggs: map[*hotstuff.AggregateQC]c03AggInfo{}, intern: map[hotstuff.Hash]uint64{}}
	gen := hotstuff.GetGenesis()
	w.known[gen.Hash()] = gen
	w.intern[gen.Hash()] = 0
	w.members = append([]hotstuff.ID{}, conf.IDs...)
	sort.Slice(w.members, func(i, j int) bool { return w.members[i] < w.members[j] })
	for i, e := range full[:len(conf.IDs)] {
		if conf.IDs[i] != self {
			w.others = append(w.others, e.Authority())
			w.otherIDs = append(w.otherIDs, conf.IDs[i])
			if w.pool == nil {
				w.pool = e.Blockchain()
				w.otherID = conf.IDs[i]
			}
		}
	}
	// the replica under test gets a configuration of its own that does not know the joiner yet
	subKeyHolder := full[conf.SelfIdx]
	depsCore := wiring.NewCore(self, "c03-", subKeyHolder.RuntimeCfg().PrivateKey(), append([]core.RuntimeOption{core.WithSyncVerification()}, opts...)...)
	w.cfg, w.el = depsCore.RuntimeCfg(), depsCore.EventLoop()
	for _, e := range full[:len(conf.IDs)] {
		c := e.RuntimeCfg()
		w.cfg.AddReplica(&hotstuff.ReplicaInfo{ID: c.ID(), PubKey: c.PrivateKey().Public(), Metadata: c.ConnectionMetadata()})
	}
	if conf.Joiner != 0 {
		w.joiner = full[len(conf.IDs)]
	}
	logger := depsCore.Logger()
	mock := testutil.NewMockSender(self)
	mock.AddBlockchain(w.pool)
	var sender core.Sender = &c03Sender{MockSender: mock, w: w}
	base, err := crypto.New(w.cfg, cryptoName)
	if err != nil {
		t.Fatal(err)
	}
	sec := wiring.NewSecurity(w.el, logger, w.cfg, sender, &c03Signer{Base: base, w: w})
	bc, auth := sec.Blockchain(), sec.Authority()
	w.states, err = protocol.NewViewStates(bc, auth)
	if err != nil {
		t.Fatal(err)
	}
	var inner consensus.Ruleset
	switch ruleName {
	case rules.NameChainedHotStuff:
		inner = rules.NewChainedHotStuff(logger, w.cfg, bc)
	case rules.NameSimpleHotStuff:
		inner = rules.NewSimpleHotStuff(logger, w.cfg, bc)
	case rules.NameFastHotStuff:
		inner = rules.NewFastHotStuff(logger, w.cfg, bc)
	default:
		t.Fatalf("unknown ruleset %s", ruleName)
	}
	rl := &c03Rules{inner: inner, w: w}
	var leader leaderrotation.LeaderRotation
	switch conf.Rotation {
	case "round-robin": // the real rotation; needs ids 1..n
		leader = leaderrotation.NewRoundRobin(w.cfg)
	case "fixed":
		leader = leaderrotation.NewFixed(w.otherID)
	case "table":
		leader = c03Table{w}
	default:
		t.Fatalf("unknown rotation %s", conf.Rotation)
	}
	w.rot = leader
	w.cmds = clientpb.NewCommandCache(1)
	vm := votingmachine.New(logger, w.el, w.cfg, bc, auth, w.states)
	cons := wiring.NewConsensus(w.el, logger, w.cfg, bc, auth, w.cmds, rl, leader, w.states,
		&c03Comm{inner: comm.NewClique(w.cfg, vm, leader, sender), w: w})
	// observers first: prioritised handlers run before the synchronizer's own handlers
	eventloop.Register(w.el, func(p hotstuff.ProposeMsg) { w.begin(&c03Inv{kind: 0, prop: p}) }, eventloop.Prioritize())
	eventloop.Register(w.el, func(e hotstuff.TimeoutEvent) {
		w.end()
		_, view, _, err := w.syn.timeoutRules.VerifySyncInfo(w.states.SyncInfo())
		w.begin(&c03Inv{kind: 1, tview: e.View, si: c03SI{ok: err == nil, view: view}})
	}, eventloop.Prioritize())
	eventloop.Register(w.el, func(_ hotstuff.NewViewMsg) {
		si := c03SI{ok: false}
		if len(w.pending) > 0 {
			si, w.pending = w.pending[0], w.pending[1:]
		} else {
			w.notes = append(w.notes, "new-view message without registered ground truth")
		}
		w.begin(&c03Inv{kind: 2, si: si})
	}, eventloop.Prioritize())
	eventloop.Register(w.el, func(_ hotstuff.ViewChangeEvent) { w.end() }, eventloop.Prioritize())
	w.syn = New(w.el, logger, w.cfg, auth, leader, NewFixedDuration(time.Hour), NewTimeoutRuler(w.cfg, auth),
		cons.Proposer(), cons.Voter(), w.states, sender)
	return w
}

// leaderAt: the rotation's answer for view v recorded when the invocation started (0 = not asked).
func (inv *c03Inv) leaderAt(v uint64) uint64 {
	for _, e := range inv.leaders {
		if e[0] == v {
			return e[1]
		}
	}
	return 0
}

func (w *c03World) lastVoted() hotstuff.View {
	return hotstuff.View(reflect.ValueOf(w.syn.voter).Elem().FieldByName("lastVotedView").Uint())
}

func (w *c03World) begin(inv *c03Inv) {
	w.end()
	inv.quorum = w.quorumNow()
	cur := w.states.View()
	views := []hotstuff.View{cur + 1, cur + 2}
	if inv.kind == 0 {
		views = append([]hotstuff.View{inv.prop.Block.View()}, views...)
	}
	for _, v := range views {
		inv.leaders = append(inv.leaders, [2]uint64{uint64(v), uint64(w.leaderOf(v))})
	}
	w.cur = inv
	w.invs = append(w.invs, inv)
}

func (w *c03World) end() {
	if w.cur != nil {
		w.cur.viewAfter = w.states.View()
		w.cur.lvAfter = w.lastVoted()
		w.cur = nil
	}
}

func (w *c03World) close() { w.syn.stopTimeoutTimer() }

// c03Hung is what deliver returns when a handler of the replica does not return.
type c03Hung struct{}

var c03Aborted bool
var c03Reported = map[string]int{}

// deliver puts one event on the replica's event loop and runs the loop until it is empty.
// The handlers run on a helper goroutine so that a handler that never returns is reported
// instead of hanging the check.
func (w *c03World) deliver(ev any) any {
	for w.seq < 1<<62 && w.cmdBacklog() < 12 {
		w.seq++
		w.cmds.Add(&clientpb.Command{ClientID: 1, SequenceNumber: w.seq, Data: []byte("c")})
	}
	done := make(chan any, 1)
	go func() {
		defer func() { done <- recover() }()
		w.el.AddEvent(ev)
		ctx := context.Background()
		for i := 0; i < 400 && w.el.Tick(ctx); i++ {
		}
	}()
	timer := time.NewTimer(45 * time.Second)
	defer timer.Stop()
	select {
	case p := <-done:
		w.end()
		return p
	case <-timer.C:
		return c03Hung{}
	}
}

// cmdBacklog keeps a rough count of unconsumed commands (every own proposal consumes one).
func (w *c03World) cmdBacklog() int { return int(w.seq) - w.proposeCalls }

func (w *c03World) id(h hotstuff.Hash) uint64 {
	if x, ok := w.intern[h]; ok {
		return x
	}
	x := uint64(len(w.intern))
	w.intern[h] = x
	return x
}

// ---------------------------------------------------------------- the adversary's toolbox

func (w *c03World) newBlock(parent hotstuff.Hash, qc hotstuff.QuorumCert, view hotstuff.View, proposer hotstuff.ID) *hotstuff.Block {
	w.nonce++
	b := hotstuff.NewBlock(parent, qc, &clientpb.Batch{Commands: []*clientpb.Command{{ClientID: 77, SequenceNumber: w.nonce, Data: []byte("adv")}}}, view, proposer)
	w.known[b.Hash()] = b
	info, ok := w.qcInfo(qc)
	w.wf[b.Hash()] = ok && info.ok && parent == qc.BlockHash() && view > info.blockView
	return b
}

// certifiable: the adversary controls the keys of the three other replicas, but a certificate
// needs votes of honest replicas.  They vote only for well-formed blocks and for one block per view,
// so only such blocks can ever carry a quorum of genuine signatures.
func (w *c03World) certifiable(b *hotstuff.Block) bool {
	if b.Hash() == hotstuff.GetGenesis().Hash() {
		return true
	}
	if !w.wf[b.Hash()] {
		return false
	}
	h, taken := w.certIn[b.View()]
	return !taken || h == b.Hash()
}

// publish makes a block fetchable.  Only well-formed blocks are handed out: storing a block whose
// view is not above its parent's makes Blockchain.PruneToHeight spin forever at the next commit
// (a separate defect, outside C03), which would end the run.
func (w *c03World) publish(b *hotstuff.Block) {
	if !w.wf[b.Hash()] {
		return
	}
	if _, ok := w.pool.LocalGet(b.Hash()); !ok {
		w.pool.Store(b)
		w.blocks = append(w.blocks, b)
	}
}

func (w *c03World) available(b *hotstuff.Block) bool {
	_, ok := w.pool.LocalGet(b.Hash())
	return ok
}

// nsigs translates "quorum" (q), "one short of a quorum" (q-1) and absolute small numbers.
func (w *c03World) nsigs(k int) int {
	switch k {
	case 0, 3:
		return w.quorumNow()
	case 2:
		return w.quorumNow() - 1
	}
	return k
}

func (w *c03World) sigs(msg []byte, k int) hotstuff.QuorumSignature {
	var ss []hotstuff.QuorumSignature
	if k > len(w.others) {
		w.t.Fatalf("%d signers wanted, the adversary has %d keys", k, len(w.others))
	}
	for i := 0; i < k && i < len(w.others); i++ {
		s, err := w.others[i].Sign(msg)
		if err != nil {
			w.t.Fatal(err)
		}
		ss = append(ss, s)
	}
	if len(ss) == 1 {
		return ss[0]
	}
	s, err := w.others[0].Combine(ss...)
	if err != nil {
		w.t.Fatal(err)
	}
	return s
}

// makeQC returns a certificate naming target; kind: genuine | subquorum | forged.
func (w *c03World) makeQC(target *hotstuff.Block, kind string) hotstuff.QuorumCert {
	gen := hotstuff.GetGenesis()
	q := w.quorumNow()
	key := fmt.Sprintf("%s/%d/%s", kind, q, target.Hash().String())
	if qc, ok := w.qcMemo[key]; ok {
		return qc
	}
	var qc hotstuff.QuorumCert
	info := c03QCInfo{haveBlock: w.available(target) || target.Hash() == gen.Hash(), blockView: target.View(), kind: kind}
	switch {
	case target.Hash() == gen.Hash():
		// the certificate of the genesis block needs no signatures
		qc = hotstuff.NewQuorumCert(nil, 0, gen.Hash())
		info.kind = "genesis"
	case kind == "genuine":
		qc = hotstuff.NewQuorumCert(w.sigs(target.ToBytes(), q), target.View(), target.Hash())
		info.nsig = q
		if _, taken := w.certIn[target.View()]; !taken {
			w.certIn[target.View()] = target.Hash()
		}
	case kind == "subquorum":
		qc = hotstuff.NewQuorumCert(w.sigs(target.ToBytes(), q-1), target.View(), target.Hash())
		info.nsig = q - 1
	case kind == "relabelled":
		// the view, block hash and signature bytes of the genuine certificate, but one of the
		// signatures is attributed to a replica that never signed (QuorumCert.Equals cannot tell
		// the twins apart; verification can)
		g := w.makeQC(target, "genuine")
		qc = hotstuff.NewQuorumCert(w.relabel(g.Signature()), g.View(), g.BlockHash())
		info.nsig = q - 1
	case kind == "forged":
		// three real signatures, but over something else than the block named by the certificate
		qc = hotstuff.NewQuorumCert(w.sigs(append(target.ToBytes(), 1), q), target.View(), target.Hash())
	default:
		w.t.Fatalf("qc kind %q", kind)
	}
	w.qcs[string(qc.ToBytes())] = info
	w.qcMemo[key] = qc
	return qc
}

// shapeQC builds "genesis-like" and otherwise malformed certificates for any block: the signature
// is absent (nil), a nil pointer, an empty multi-signature, junk bytes attributed to a quorum of
// members, or ("") a genuine quorum; the stated view is the block's own, 0, or another one.
func (w *c03World) shapeQC(target *hotstuff.Block, shape, label string) hotstuff.QuorumCert {
	gen := hotstuff.GetGenesis()
	q := w.quorumNow()
	info := c03QCInfo{shaped: true, haveBlock: w.available(target) || target.Hash() == gen.Hash(), blockView: target.View(),
		genesis: target.Hash() == gen.Hash(), label: target.View(), kind: "shape:" + shape + "/label:" + label}
	switch label {
	case "zero":
		info.label = 0
	case "other":
		info.label = target.View() + 1
	}
	if shape == "typednil" && !info.genesis {
		// On a non-genesis hash a nil pointer makes Authority.VerifyQuorumCert panic (its
		// `qcSignature == nil` test does not see a typed nil): a crash, which is C10's subject, not a
		// signature. Such certificates are built with a plain nil instead.
		shape = "nil"
		info.kind = "shape:nil(for typednil)/label:" + label
	}
	var sig hotstuff.QuorumSignature
	switch shape {
	case "nil":
		info.absent = true
	case "typednil":
		sig = (*crypto.BLS12AggregateSignature)(nil)
		info.absent = true
	case "empty":
		if w.cryptoNm == crypto.NameEDDSA {
			sig = crypto.Multi[*crypto.EDDSASignature]{}
		} else {
			sig = crypto.Multi[*crypto.ECDSASignature]{}
		}
	case "junk":
		var ids []hotstuff.ID
		for _, id := range w.members {
			if id != w.self && len(ids) < q {
				ids = append(ids, id)
			}
		}
		if w.cryptoNm == crypto.NameEDDSA {
			ms := crypto.Multi[*crypto.EDDSASignature]{}
			for _, id := range ids {
				w.nonce++
				j := sha256.Sum256([]byte(fmt.Sprintf("junk-%d", w.nonce)))
				ms = append(ms, crypto.RestoreEDDSASignature(append(j[:], j[:]...), id))
			}
			sig = ms
		} else {
			ms := crypto.Multi[*crypto.ECDSASignature]{}
			for _, id := range ids {
				w.nonce++
				j := sha256.Sum256([]byte(fmt.Sprintf("junk-%d", w.nonce)))
				ms = append(ms, crypto.RestoreECDSASignature(j[:], id))
			}
			sig = ms
		}
	case "":
		sig = w.sigs(target.ToBytes(), q)
		info.nsig = q
	default:
		w.t.Fatalf("qc shape %q", shape)
	}
	qc := hotstuff.NewQuorumCert(sig, info.label, target.Hash())
	if !(info.genesis && sig == nil && info.label == 0) { // that one is the genuine genesis certificate
		w.qcs[string(qc.ToBytes())] = info
	}
	return qc
}

// mixedQC: g genuine votes for the block plus made-up entries for further distinct members that
// never signed (bytes of a genuine signature re-used under their ids) up to a quorum; the made-up
// entries come last, first, or interleaved.  g < 0 means quorum+g.
func (w *c03World) mixedQC(target *hotstuff.Block, g int, pos string) hotstuff.QuorumCert {
	q := w.quorumNow()
	if g < 0 {
		g = q + g
	}
	if g < 1 {
		g = 1
	}
	if g > q {
		g = q
	}
	if q > len(w.others) {
		w.t.Fatalf("quorum %d exceeds the adversary's %d keys", q, len(w.others))
	}
	gen := w.sigs(target.ToBytes(), g)
	info := c03QCInfo{haveBlock: w.available(target), blockView: target.View(), kind: fmt.Sprintf("mixed:%d-genuine+%d-made-up/%s", g, q-g, pos), nsig: g}
	order := make([]bool, 0, q) // true = genuine entry
	switch pos {
	case "first":
		for i := 0; i < q; i++ {
			order = append(order, i >= q-g)
		}
	case "inter":
		ng, nj := g, q-g
		for i := 0; i < q; i++ {
			takeJunk := nj > 0 && (ng == 0 || i%2 == 1)
			if takeJunk {
				nj--
			} else {
				ng--
			}
			order = append(order, !takeJunk)
		}
	default:
		for i := 0; i < q; i++ {
			order = append(order, i < g)
		}
	}
	var sig hotstuff.QuorumSignature
	switch ms := gen.(type) {
	case crypto.Multi[*crypto.ECDSASignature]:
		out := make(crypto.Multi[*crypto.ECDSASignature], 0, q)
		gi, ji := 0, g
		for _, isGen := range order {
			if isGen {
				out = append(out, ms[gi])
				gi++
			} else {
				out = append(out, crypto.RestoreECDSASignature(ms[0].ToBytes(), w.otherIDs[ji]))
				ji++
			}
		}
		sig = out
	case crypto.Multi[*crypto.EDDSASignature]:
		out := make(crypto.Multi[*crypto.EDDSASignature], 0, q)
		gi, ji := 0, g
		for _, isGen := range order {
			if isGen {
				out = append(out, ms[gi])
				gi++
			} else {
				out = append(out, crypto.RestoreEDDSASignature(ms[0].ToBytes(), w.otherIDs[ji]))
				ji++
			}
		}
		sig = out
	default:
		w.t.Fatalf("cannot mix a %T", gen)
	}
	qc := hotstuff.NewQuorumCert(sig, target.View(), target.Hash())
	w.qcs[string(qc.ToBytes())] = info
	return qc
}

// relabel re-attributes the last signature of a multi-signature to the replica under test.
func (w *c03World) relabel(sig hotstuff.QuorumSignature) hotstuff.QuorumSignature {
	switch ms := sig.(type) {
	case crypto.Multi[*crypto.ECDSASignature]:
		out := make(crypto.Multi[*crypto.ECDSASignature], 0, len(ms))
		for i, x := range ms {
			id := x.Signer()
			if i == len(ms)-1 {
				id = w.self
			}
			out = append(out, crypto.RestoreECDSASignature(x.ToBytes(), id))
		}
		return out
	case crypto.Multi[*crypto.EDDSASignature]:
		out := make(crypto.Multi[*crypto.EDDSASignature], 0, len(ms))
		for i, x := range ms {
			id := x.Signer()
			if i == len(ms)-1 {
				id = w.self
			}
			out = append(out, crypto.RestoreEDDSASignature(x.ToBytes(), id))
		}
		return out
	}
	w.t.Fatalf("cannot relabel a %T", sig)
	return nil
}

// qcInfo evaluates the ground truth of a certificate for a replica whose quorum size is q right
// now: the genesis certificate is valid by definition; otherwise at least q distinct members
// signed exactly the named block and the block can be obtained.
func (w *c03World) qcInfoAt(qc hotstuff.QuorumCert, q int) (c03QCInfo, bool) {
	if qc.BlockHash() == hotstuff.GetGenesis().Hash() && qc.Signature() == nil && qc.View() == 0 {
		return c03QCInfo{ok: true, haveBlock: true, blockView: 0, kind: "genesis"}, true
	}
	info, ok := w.qcs[string(qc.ToBytes())]
	if !ok {
		return info, false
	}
	if !info.haveBlock {
		// the block may have been published since the certificate was made
		if b, k := w.known[qc.BlockHash()]; k && w.available(b) {
			info.haveBlock = true
		}
	}
	// nsig counts signatures over exactly the named block (0 for forged ones); the label in
	// info.kind plays no role (deterministic schemes make a quorum-1 certificate after the growth
	// byte-identical to a quorum certificate made before it)
	info.ok = info.kind == "genesis" || (info.nsig >= q && info.haveBlock)
	if info.shaped {
		// the one certificate that needs no signatures is the genesis certificate: genesis hash, view
		// 0, no signature; everything else needs a quorum of signatures over the named block, which
		// must be obtainable, and must state that block's view
		info.ok = (info.genesis && info.absent && info.label == 0) ||
			(!info.genesis && !info.absent && info.nsig >= q && info.haveBlock && info.label == info.blockView)
	}
	return info, true
}

func (w *c03World) qcInfo(qc hotstuff.QuorumCert) (c03QCInfo, bool) {
	return w.qcInfoAt(qc, w.quorumNow())
}

func (w *c03World) makeTC(view hotstuff.View, k int) hotstuff.TimeoutCert {
	return hotstuff.NewTimeoutCert(w.sigs(view.ToBytes(), k), view)
}

func (w *c03World) tip() *hotstuff.Block {
	best := hotstuff.GetGenesis()
	for _, b := range w.blocks {
		if b.View() >= best.View() && w.certifiable(b) {
			best = b
		}
	}
	return best
}

// ---------------------------------------------------------------- stimuli

type c03Stim struct {
	Kind     string `json:"kind"`               // propose | replay | timeout | tc | qc
	ViewOff  int    `json:"view_off,omitempty"` // relative to the replica's current view at delivery
	Abs      bool   `json:"abs,omitempty"`
	AbsView  uint64 `json:"abs_view,omitempty"`
	Sender   string `json:"sender,omitempty"`         // leader | wrong
	QCTarget string `json:"qc_target,omitempty"`      // tip | older | genesis | above
	QCKind   string `json:"qc_kind,omitempty"`        // genuine | subquorum | forged | unknown
	Parent   string `json:"parent,omitempty"`         // qc | other | random
	Agg      string `json:"agg,omitempty"`            // "" | valid | mismatch | subquorum
	Proposer string `json:"proposer,omitempty"`       // "" (= sender) | other
	K        int    `json:"signers,omitempty"`        // tc: number of signers (3 = quorum)
	FailSend bool   `json:"fail_vote_send,omitempty"` // core.Sender.Vote fails while this stimulus is handled
	G        int    `json:"genuine_votes,omitempty"`  // qc_kind mixed: genuine votes in the certificate (negative: quorum+G)
	JunkPos  string `json:"made_up_pos,omitempty"`    // qc_kind mixed: made-up entries last | first | inter
	Shape    string `json:"qc_shape,omitempty"`       // signature of the QC: nil | typednil | empty | junk ("" with Label: genuine quorum)
	Label    string `json:"qc_label,omitempty"`       // view stated by the QC: "" (the block's) | zero | other
	FailComm bool   `json:"fail_comm,omitempty"`      // Aggregate / Disseminate fail before sending anything
}

func (s c03Stim) String() string {
	if s.FailSend {
		s.FailSend = false
		return s.String() + "!sendfails"
	}
	if s.FailComm {
		s.FailComm = false
		return s.String() + "!commfails"
	}
	if s.QCKind == "mixed" {
		x := fmt.Sprintf("!mixed[%d,%s]", s.G, s.JunkPos)
		s.QCKind = "genuine"
		return s.String() + x
	}
	if s.Shape != "" || s.Label != "" {
		x := fmt.Sprintf("!qc[%s,%s]", s.Shape, s.Label)
		s.Shape, s.Label = "", ""
		return s.String() + x
	}
	switch s.Kind {
	case "propose":
		v := fmt.Sprintf("%+d", s.ViewOff)
		if s.Abs {
			v = fmt.Sprintf("=%d", s.AbsView)
		}
		return fmt.Sprintf("P(v%s,%s,qc=%s/%s,par=%s,agg=%s,pr=%s)", v, s.Sender, s.QCTarget, s.QCKind, s.Parent, s.Agg, s.Proposer)
	case "timeout", "tc", "qc":
		return fmt.Sprintf("%s(%+d,k=%d,%s)", s.Kind, s.ViewOff, s.K, s.QCKind)
	}
	return s.Kind
}

func c03ViewAt(cur hotstuff.View, off int) hotstuff.View {
	if off < 0 && uint64(-off) > uint64(cur) {
		return 0
	}
	return hotstuff.View(int64(cur) + int64(off))
}

func (w *c03World) apply(s c03Stim) any {
	w.failVotes, w.failComm = s.FailSend, s.FailComm
	defer func() { w.failVotes, w.failComm = false, false }()
	cur := w.states.View()
	switch s.Kind {
	case "propose":
		msg := w.craft(s, cur)
		w.lastMsg = &msg
		return w.deliver(msg)
	case "replay":
		if w.lastMsg == nil {
			return nil
		}
		return w.deliver(*w.lastMsg)
	case "timeout":
		return w.deliver(hotstuff.TimeoutEvent{View: c03ViewAt(cur, s.ViewOff)})
	case "tc":
		view := c03ViewAt(cur, s.ViewOff)
		k := w.nsigs(s.K)
		tc := w.makeTC(view, k)
		w.pending = append(w.pending, c03SI{ok: k >= w.quorumNow() || view == 0, view: view, desc: fmt.Sprintf("TC(view %d, %d signers)", view, k)})
		return w.deliver(hotstuff.NewViewMsg{ID: w.otherID, SyncInfo: hotstuff.NewSyncInfoWith(tc), FromNetwork: true})
	case "grow":
		// the stand-by replica joins: the replica's configuration learns its id and key after the
		// voter, the synchronizer and the leader rotation were created
		if w.joiner == nil {
			return nil
		}
		c := w.joiner.RuntimeCfg()
		w.cfg.AddReplica(&hotstuff.ReplicaInfo{ID: c.ID(), PubKey: c.PrivateKey().Public(), Metadata: c.ConnectionMetadata()})
		w.oldMembers = append([]hotstuff.ID{}, w.members...)
		w.members = append(w.members, c.ID())
		sort.Slice(w.members, func(i, j int) bool { return w.members[i] < w.members[j] })
		w.others = append(w.others, w.joiner.Authority())
		w.otherIDs = append(w.otherIDs, c.ID())
		w.joiner = nil
		return nil
	case "qc":
		if s.Shape != "" || s.Label != "" {
			// a new-view message whose sync info carries a malformed certificate for the tip / genesis
			tb := w.tip()
			if s.QCTarget == "genesis" {
				tb = hotstuff.GetGenesis()
			}
			qc := w.shapeQC(tb, s.Shape, s.Label)
			info, _ := w.qcInfo(qc)
			si := c03SI{ok: info.ok, view: qc.View(), desc: fmt.Sprintf("QC(shape %s, label %s, view %d)", s.Shape, s.Label, qc.View())}
			if w.agg {
				si = c03SI{ok: true, view: 0, desc: si.desc + " ignored by the aggregate rule"}
			}
			if !si.ok {
				si.view = 0
			}
			w.pending = append(w.pending, si)
			return w.deliver(hotstuff.NewViewMsg{ID: w.otherID, SyncInfo: hotstuff.NewSyncInfoWith(qc), FromNetwork: true})
		}
		// a new-view message carrying a certificate for a (new) block of view cur+off
		view := c03ViewAt(cur, s.ViewOff)
		t := w.tip()
		if view <= t.View() {
			view = t.View() + 1
		}
		b := w.newBlock(t.Hash(), w.makeQC(t, "genuine"), view, w.leaderOf(view))
		w.publish(b)
		kind := s.QCKind
		if kind == "" {
			kind = "genuine"
		}
		var qc hotstuff.QuorumCert
		if kind == "mixed" {
			qc = w.mixedQC(b, s.G, s.JunkPos)
		} else {
			qc = w.makeQC(b, kind)
		}
		info, _ := w.qcInfo(qc)
		si := c03SI{ok: info.ok, view: qc.View(), desc: fmt.Sprintf("QC(%s, view %d)", kind, qc.View())}
		if w.agg {
			si = c03SI{ok: true, view: 0, desc: si.desc + " ignored by the aggregate rule"}
		}
		if !si.ok {
			si.view = 0
		}
		w.pending = append(w.pending, si)
		return w.deliver(hotstuff.NewViewMsg{ID: w.otherID, SyncInfo: hotstuff.NewSyncInfoWith(qc), FromNetwork: true})
	}
	w.t.Fatalf("stimulus %q", s.Kind)
	return nil
}

// craft builds the proposal described by s for a replica currently in view cur.
func (w *c03World) craft(s c03Stim, cur hotstuff.View) hotstuff.ProposeMsg {
	gen := hotstuff.GetGenesis()
	view := c03ViewAt(cur, s.ViewOff)
	if s.Abs {
		view = hotstuff.View(s.AbsView)
	}
	for i := 0; !s.Abs && w.leaderOf(view) == w.self && i < 2*len(w.members); i++ {
		view++ // nobody else can send in the replica's own name
	}
	tip := w.tip()
	var target *hotstuff.Block
	switch s.QCTarget {
	case "genesis":
		target = gen
	case "older":
		target = gen
		for _, b := range w.blocks {
			if b.View() < tip.View() && b.View() >= target.View() && w.certifiable(b) {
				target = b
			}
		}
	case "above":
		for _, b := range w.blocks {
			if b.View() >= view && (target == nil || b.View() < target.View()) && w.certifiable(b) {
				target = b
			}
		}
		if target == nil {
			nv := view + 1
			if nv < view { // wrap-around
				nv = view
			}
			target = w.newBlock(tip.Hash(), w.makeQC(tip, "genuine"), nv, w.leaderOf(nv))
			w.publish(target)
		}
	case "certified-tip":
		target = tip
		w.makeQC(tip, "genuine") // somebody holds a real certificate for it
	case "unknownblk":
		uv := tip.View() + 1
		target = w.newBlock(tip.Hash(), w.makeQC(tip, "genuine"), uv, w.leaderOf(uv)) // never handed out
	default:
		target = tip
	}
	var qc hotstuff.QuorumCert
	if s.Shape != "" || s.Label != "" {
		qc = w.shapeQC(target, s.Shape, s.Label)
	} else if s.QCKind == "mixed" && target.Hash() != gen.Hash() {
		qc = w.mixedQC(target, s.G, s.JunkPos)
	} else if s.QCKind == "mixed" {
		qc = w.makeQC(target, "genuine")
	} else if s.QCKind == "unknown" {
		// a genuinely certified block that nobody will hand out
		uv := target.View() + 1
		for {
			if _, taken := w.certIn[uv]; !taken {
				break
			}
			uv++
		}
		u := w.newBlock(target.Hash(), w.makeQC(target, "genuine"), uv, w.leaderOf(uv))
		qc = w.makeQC(u, "genuine")
	} else {
		qc = w.makeQC(target, s.QCKind)
	}
	parent := qc.BlockHash()
	switch s.Parent {
	case "other":
		var o *hotstuff.Block
		for _, b := range w.blocks {
			if b.Hash() != qc.BlockHash() {
				o = b
			}
		}
		if o == nil {
			if qc.BlockHash() != gen.Hash() {
				o = gen
			} else {
				o = w.newBlock(gen.Hash(), w.makeQC(gen, "genuine"), 1, w.leaderOf(1))
				w.publish(o)
			}
		}
		parent = o.Hash()
	case "random":
		w.nonce++
		parent = sha256.Sum256([]byte(fmt.Sprintf("nowhere-%d", w.nonce)))
	}
	sender := w.leaderOf(view)
	if s.Sender == "stale-leader" && len(w.oldMembers) > 0 {
		// who led this view before the membership grew
		switch w.conf.Rotation {
		case "round-robin":
			sender = hotstuff.ID(uint64(view)%uint64(len(w.oldMembers)) + 1)
		case "table":
			sender = w.oldMembers[uint64(view)%uint64(len(w.oldMembers))]
		}
	}
	if s.Sender == "wrong" {
		for _, c := range w.members {
			if c != w.leaderOf(view) && c != w.self {
				sender = c
				if s.Abs || uint64(c)%256 == uint64(w.leaderOf(view))%256 {
					break // prefer an id that agrees with the leader's in its low bits
				}
			}
		}
	}
	proposer := sender
	if s.Proposer == "other" {
		for _, c := range w.members {
			if c != sender {
				proposer = c
			}
		}
	}
	b := w.newBlock(parent, qc, view, proposer)
	if uint64(view) < 1<<32 {
		w.publish(b) // anybody may fetch it and build on it later
	}
	msg := hotstuff.ProposeMsg{ID: sender, Block: b}
	if s.Agg != "" {
		k := w.quorumNow()
		aqc := qc
		if s.Agg == "subquorum" {
			k--
		}
		if s.Agg == "genuine" {
			// the aggregate is honest: the timeouts carry the genuine certificate of the block that the
			// proposal's own QC names, whatever was done to that QC
			if cb, ok := w.known[qc.BlockHash()]; ok && w.certifiable(cb) {
				aqc = w.makeQC(cb, "genuine")
			}
		}
		if s.Agg == "mismatch" {
			aqc = w.makeQC(gen, "genuine")
			if qc.Equals(aqc) {
				aqc = w.makeQC(w.tip(), "genuine")
			}
		}
		av := hotstuff.View(0)
		if view > 0 {
			av = view - 1
		}
		qcsl := make([]hotstuff.QuorumCert, k)
		for i := range qcsl {
			qcsl[i] = aqc
		}
		tos := testutil.CreateTimeouts(w.t, av, w.others[:k], qcsl...)
		a, err := w.others[0].CreateAggregateQC(av, tos)
		if err != nil {
			w.t.Fatal(err)
		}
		// ground truth of the aggregate part of VerifyAnyQC (evaluated when the proposal is handled): a
		// quorum signed timeouts carrying aqc, aqc itself is valid (it is the only and hence highest
		// QC), and it is the block's QC
		w.aggs[&a] = c03AggInfo{nsig: k, qc: aqc, same: qc.View() == aqc.View() && qc.BlockHash() == aqc.BlockHash()}
		msg.AggregateQC = &a
	}
	return msg
}

// ---------------------------------------------------------------- observation -> model terms

type c03Prop struct {
	Sender   uint64 `json:"sender"`
	Hash     uint64 `json:"hash"`
	View     uint64 `json:"view"`
	Parent   uint64 `json:"parent"`
	QCHash   uint64 `json:"qc_hash"`
	QCView   uint64 `json:"qc_view"`
	QCOk     bool   `json:"qc_ok"`
	AggOk    bool   `json:"agg_ok"`
	HaveCert bool   `json:"have_certified_block"`
	CertView uint64 `json:"certified_view"`
	Rule     bool   `json:"rule"`
	QCKind   string `json:"qc_kind"`
}

func (w *c03World) describe(p hotstuff.ProposeMsg, inv *c03Inv) c03Prop {
	b := p.Block
	qc := b.QuorumCert()
	info, known := w.qcInfoAt(qc, inv.quorum)
	if !known {
		w.notes = append(w.notes, "certificate without ground truth in proposal for view "+fmt.Sprint(b.View()))
	}
	d := c03Prop{Sender: uint64(p.ID), Hash: w.id(b.Hash()), View: uint64(b.View()), Parent: w.id(b.Parent()),
		QCHash: w.id(qc.BlockHash()), QCView: uint64(qc.View()), QCOk: info.ok, HaveCert: info.haveBlock,
		CertView: uint64(info.blockView), Rule: true, AggOk: true, QCKind: info.kind}
	if w.agg && p.AggregateQC != nil {
		if a, have := w.aggs[p.AggregateQC]; have {
			ai, _ := w.qcInfoAt(a.qc, inv.quorum)
			d.AggOk = a.nsig >= inv.quorum && ai.ok && a.same
		}
	}
	for _, rc := range inv.rules {
		if rc.hash == b.Hash() {
			d.Rule = rc.verdict
		}
	}
	return d
}

func (d c03Prop) cert() string { return gOpt(d.HaveCert, gN(d.CertView)) }

func (d c03Prop) term() string {
	return fmt.Sprintf("(mkP %s %s %s %s %s %s %s %s %s %s)", gN(d.Sender), gN(d.Hash), gN(d.View), gN(d.Parent),
		gN(d.QCHash), gN(d.QCView), gBool(d.QCOk), gBool(d.AggOk), d.cert(), gBool(d.Rule))
}

func (d c03Prop) ownTerm() string {
	return fmt.Sprintf("(mkO %s %s %s %s %s %s %s %s)", gN(d.Hash), gN(d.Parent), gN(d.QCHash), gN(d.QCView),
		gBool(d.QCOk), gBool(d.AggOk), d.cert(), gBool(d.Rule))
}

type c03Sig struct {
	Kind string `json:"kind"` // vote | timeout | timeoutmsg | unknown
	Hash uint64 `json:"hash,omitempty"`
	View uint64 `json:"view"`
	blk  *hotstuff.Block
}

func (w *c03World) classify(m []byte) c03Sig {
	if len(m) == 8 {
		return c03Sig{Kind: "timeout", View: binary.LittleEndian.Uint64(m)}
	}
	h := hotstuff.Hash(sha256.Sum256(m))
	if b, ok := w.known[h]; ok {
		return c03Sig{Kind: "vote", Hash: w.id(h), View: uint64(b.View()), blk: b}
	}
	if len(m) >= 12 && binary.LittleEndian.Uint32(m[:4]) == uint32(w.self) {
		// TimeoutMsg.ToBytes(): id, view, then the QC of the sync info
		return c03Sig{Kind: "timeoutmsg", View: binary.LittleEndian.Uint64(m[4:12])}
	}
	if len(m) >= 44 {
		// shaped like block bytes of a block nobody proposed
		return c03Sig{Kind: "vote", Hash: w.id(h), View: binary.LittleEndian.Uint64(m[36:44])}
	}
	return c03Sig{Kind: "unknown"}
}

func (s c03Sig) term() string {
	switch s.Kind {
	case "vote":
		return fmt.Sprintf("OVote %s %s", gN(s.Hash), gN(s.View))
	case "timeout":
		return "OTimeout " + gN(s.View)
	case "timeoutmsg":
		return "OTimeoutMsg " + gN(s.View)
	}
	return "OVote 999999%N 0%N"
}

type c03InvMeta struct {
	Event     string   `json:"event"`
	Proposal  *c03Prop `json:"proposal,omitempty"`
	Own       *c03Prop `json:"own_proposal,omitempty"`
	TView     uint64   `json:"timeout_view,omitempty"`
	SIOk      bool     `json:"sync_info_ok"`
	SIView    uint64   `json:"sync_info_view"`
	Signed    []c03Sig `json:"signed"`
	ViewAfter uint64   `json:"view_after"`
	SendFails int      `json:"vote_sends_failed,omitempty"`
}

type c03Run struct {
	Ruleset     string       `json:"ruleset"`
	Crypto      string       `json:"crypto"`
	Self        uint64       `json:"self"`
	Config      c03Cfg       `json:"config"`
	Stimuli     []c03Stim    `json:"stimuli"`
	Invocations []c03InvMeta `json:"invocations"`
	Fingerprint string       `json:"fingerprint,omitempty"`
}

// finish turns the recorded run into a kernel case and evaluates the property's oracle.
func (w *c03World) finish(v *verifOut, st *verifStream, stimuli []c03Stim, stream string) {
	w.close()
	run := c03Run{Ruleset: w.ruleName, Crypto: w.cryptoNm, Self: uint64(w.self), Config: w.conf, Stimuli: stimuli}
	var obs []string
	type signed struct {
		s   c03Sig
		inv int
	}
	var all []signed
	firstBad := ""
	type failure struct{ fp, what string }
	var fails []failure
	fail := func(fp, what string) {
		if firstBad == "" {
			firstBad = fp
		}
		for _, f := range fails {
			if f.fp == fp {
				return // one report per class and run
			}
		}
		fails = append(fails, failure{fp, what})
	}
	for i, inv := range w.invs {
		m := c03InvMeta{SIOk: inv.si.ok, SIView: uint64(inv.si.view), ViewAfter: uint64(inv.viewAfter), TView: uint64(inv.tview), SendFails: inv.sendFailed}
		own := "None"
		var ownD *c03Prop
		if len(inv.owns) > 0 {
			d := w.describe(*inv.owns[0], inv)
			ownD = &d
			m.Own = &d
			own = "(Some " + d.ownTerm() + ")"
			if len(inv.owns) > 1 {
				w.notes = append(w.notes, "two own proposals in one handler invocation")
			}
		}
		var ev string
		var pd *c03Prop
		switch inv.kind {
		case 0:
			d := w.describe(inv.prop, inv)
			pd = &d
			m.Proposal = &d
			m.Event = "proposal"
			ev = fmt.Sprintf("EvProposal %s %s %s", d.term(), own, gBool(inv.sendFailed == 0))
		case 1:
			m.Event = "timeout-event"
			ev = fmt.Sprintf("EvTimeout %s %s %s %s %s", gN(uint64(inv.tview)), gBool(inv.si.ok), gN(uint64(inv.si.view)), own, gBool(inv.sendFailed == 0))
		case 2:
			m.Event = "new-view " + inv.si.desc
			ev = fmt.Sprintf("EvNewView %s %s %s %s", gBool(inv.si.ok), gN(uint64(inv.si.view)), own, gBool(inv.sendFailed == 0))
		}
		var ss []string
		for _, raw := range inv.signs {
			s := w.classify(raw)
			m.Signed = append(m.Signed, s)
			ss = append(ss, s.term())
			all = append(all, signed{s, i})
			// statement 1, evaluated on what was signed and on the ground truth of what was offered
			if s.Kind == "unknown" {
				fail("sign:unclassified-message", fmt.Sprintf("the replica signed %d bytes that are neither block, view nor timeout message", len(raw)))
			}
			if s.Kind != "vote" {
				continue
			}
			var d *c03Prop
			if pd != nil && pd.Hash == s.Hash {
				d = pd
			} else if ownD != nil && ownD.Hash == s.Hash {
				d = ownD
			}
			if d == nil {
				fail("vote:block-not-offered", fmt.Sprintf("vote for block %d (view %d) signed in a handler invocation that was not processing a proposal of that block", s.Hash, s.View))
				continue
			}
			where := fmt.Sprintf("replica %d (%s) voted for block %d of view %d sent by replica %d", w.self, w.ruleName, d.Hash, d.View, d.Sender)
			if ld := inv.leaderAt(d.View); d.Sender != ld {
				fail("vote:not-from-leader", where+fmt.Sprintf(", but the rotation names replica %d leader of view %d at that moment", ld, d.View))
			}
			if !d.QCOk || !d.AggOk {
				fail("vote:invalid-certificate", where+fmt.Sprintf(" whose certificate (%s) is not valid", d.QCKind))
			}
			if d.Parent != d.QCHash {
				fail("vote:parent-not-certified-block", where+fmt.Sprintf(" whose parent is block %d while its (valid) QC certifies block %d", d.Parent, d.QCHash))
			}
			if d.QCOk && (!d.HaveCert || d.View <= d.CertView) {
				fail("vote:view-not-above-certified-block", where+fmt.Sprintf(" although the block certified by its QC has view %d", d.CertView))
			}
		}
		run.Invocations = append(run.Invocations, m)
		var tbl []string
		for _, e := range inv.leaders {
			tbl = append(tbl, fmt.Sprintf("(%s, %s)", gN(e[0]), gN(e[1])))
		}
		obs = append(obs, fmt.Sprintf("(%s, %s, %s, %s, %s)", gList(tbl), ev, gList(ss), gN(uint64(inv.viewAfter)), gN(uint64(inv.lvAfter))))
	}
	if len(w.stray) > 0 {
		fail("sign:outside-handler", fmt.Sprintf("%d signature(s) made outside any handler invocation", len(w.stray)))
	}
	// statements 2 and 3 on the flat signature log
	nv, nt := 0, 0
	for i, a := range all {
		if a.s.Kind == "vote" {
			nv++
		} else {
			nt++
		}
		for _, b := range all[i+1:] {
			if b.s.Kind != "vote" {
				continue
			}
			if a.s.Kind == "vote" && b.s.View == a.s.View && b.s.Hash == a.s.Hash {
				fail("vote:same-view-voted-again", fmt.Sprintf("replica %d (%s) signed a vote for block %d of view %d a second time (vote views must strictly increase)", w.self, w.ruleName, a.s.Hash, a.s.View))
			} else if a.s.Kind == "vote" && b.s.View == a.s.View {
				fail("vote:two-blocks-in-one-view", fmt.Sprintf("replica %d (%s) voted for blocks %d and %d, both of view %d", w.self, w.ruleName, a.s.Hash, b.s.Hash, a.s.View))
			} else if a.s.Kind == "vote" && b.s.View < a.s.View {
				fail("vote:views-not-increasing", fmt.Sprintf("replica %d (%s) voted in view %d after having voted in view %d", w.self, w.ruleName, b.s.View, a.s.View))
			} else if a.s.Kind != "vote" && b.s.View <= a.s.View {
				fail("vote:after-timeout", fmt.Sprintf("replica %d (%s) voted in view %d after signing a timeout for view %d", w.self, w.ruleName, b.s.View, a.s.View))
			}
		}
	}
	run.Fingerprint = firstBad
	for _, f := range fails {
		r := run
		r.Fingerprint = f.fp
		// the shared helper keeps at most 200 failures: report a few per class, ruleset and stream
		k := f.fp + "/" + w.ruleName + "/" + stream
		if c03Reported[k]++; c03Reported[k] <= 3 {
			v.Oracle(false, f.fp, f.what, r)
		}
		v.Count("oracle_failures/" + f.fp)
	}
	if len(fails) == 0 {
		v.Oracle(true, "", "", nil)
	}
	term := fmt.Sprintf("(%s, %s, %s)", gN(uint64(w.self)), gBool(w.agg), gList(obs))
	v.Case(st, term, run)
	var key strings.Builder
	key.WriteString(w.conf.String())
	for _, s := range stimuli {
		key.WriteString("|" + s.String())
	}
	var sample any
	if nv > 0 && nt > 0 {
		sample = map[string]any{"ruleset": w.ruleName, "self": w.self, "stimuli": key.String(), "votes": nv, "timeout_signatures": nt}
	}
	v.Seen(key.String(), nv+nt > 0, sample)
	v.CountN(stream+"/votes", nv)
	v.CountN(stream+"/timeout_signatures", nt)
	v.CountN(stream+"/handler_invocations", len(w.invs))
	v.Count(stream + "/runs/" + w.ruleName)
	for _, inv := range w.invs {
		if inv.kind == 0 {
			voted := false
			for _, raw := range inv.signs {
				if s := w.classify(raw); s.Kind == "vote" && s.Hash == w.id(inv.prop.Block.Hash()) {
					voted = true
				}
			}
			if voted {
				v.Count(stream + "/proposals_voted")
			} else {
				v.Count(stream + "/proposals_not_voted")
			}
		}
		if len(inv.owns) > 0 {
			v.Count(stream + "/own_proposals")
		}
		if inv.sendFailed > 0 {
			v.CountN(stream+"/vote_sends_failed", inv.sendFailed)
		}
	}
	for _, n := range w.notes {
		v.Note(w.ruleName + ": " + n)
	}
}

func c03RunOne(t *testing.T, v *verifOut, st *verifStream, stream, ruleName, cryptoName string, self hotstuff.ID, stimuli []c03Stim) {
	conf := c03Std(ruleName, self)
	conf.Crypto = cryptoName
	c03RunCfg(t, v, st, stream, conf, stimuli)
}

func c03RunCfg(t *testing.T, v *verifOut, st *verifStream, stream string, conf c03Cfg, stimuli []c03Stim) {
	if c03Aborted {
		return
	}
	ruleName, cryptoName, self := conf.Rule, conf.Crypto, conf.self()
	w := c03NewWorld(t, conf)
	for i, s := range stimuli {
		p := w.apply(s)
		if p == nil {
			continue
		}
		r := c03Run{Ruleset: ruleName, Crypto: cryptoName, Self: uint64(self), Config: conf, Stimuli: stimuli[:i+1]}
		if _, hung := p.(c03Hung); hung {
			// the replica's event loop is stuck for good; nothing more can be run in this process
			c03Aborted = true
			r.Fingerprint = "replica:handler-does-not-return"
			v.Oracle(false, r.Fingerprint, fmt.Sprintf("replica %d (%s) did not return from handling stimulus %d (%s) within 45s", self, ruleName, i, s), r)
			v.Note("aborted after a handler that does not return; remaining runs skipped")
			w.cur = nil
		} else {
			r.Fingerprint = "replica:panic"
			v.Oracle(false, r.Fingerprint, fmt.Sprintf("handler panicked: %v", p), r)
		}
		stimuli = stimuli[:i+1]
		break
	}
	w.finish(v, st, stimuli, stream)
}

// ---------------------------------------------------------------- generators

func c03Honest(off int) c03Stim {
	return c03Stim{Kind: "propose", ViewOff: off, Sender: "leader", QCTarget: "tip", QCKind: "genuine", Parent: "qc"}
}

func c03Prefixes(agg bool) map[string][]c03Stim {
	tc := c03Stim{Kind: "tc", K: 3}
	to := c03Stim{Kind: "timeout"}
	if agg {
		// the aggregate timeout rule does not advance on a plain QC: views move by TCs
		return map[string][]c03Stim{
			"fresh":          {},
			"voted":          {c03Honest(0)},
			"timedout":       {to},
			"left":           {tc},
			"voted-left-to":  {c03Honest(0), tc, to, tc},
			"three-rounds":   {c03Honest(0), tc, c03Honest(0), tc, c03Honest(0)},
			"leader-of-next": {c03Honest(0), tc, c03Honest(0), tc, c03Honest(0), tc},
		}
	}
	return map[string][]c03Stim{
		"fresh":          {},
		"voted":          {c03Honest(0)},
		"timedout":       {to},
		"left":           {tc},
		"voted-left-to":  {c03Honest(0), tc, to, tc},
		"three-rounds":   {c03Honest(0), c03Honest(1), c03Honest(1)},
		"leader-of-next": {c03Honest(0), c03Honest(1), c03Honest(1), {Kind: "qc", ViewOff: 0}},
	}
}

var c03Rulesets = []string{rules.NameChainedHotStuff, rules.NameSimpleHotStuff, rules.NameFastHotStuff}

func TestVerifC03(t *testing.T) {
	logging.SetLogLevel("error")
	v := verifNew("C03")
	t0 := time.Now()
	c03SelfCheck(t)

	// 1. exhaustive small scope: every crafted proposal in every prepared state, all rulesets
	ex := v.Stream("exhaustive", "mismatches", 400)
	offs := []int{-1, 0, 1, 11}
	senders := []string{"leader", "wrong"}
	kinds := []string{"genuine", "subquorum", "unknown"}
	if v.Thorough() {
		offs = []int{-2, -1, 0, 1, 2, 10, 11}
		kinds = []string{"genuine", "subquorum", "forged", "relabelled", "unknown"}
	}
	targets := []string{"tip", "older", "above"}
	parents := []string{"qc", "other"}
	prefixNames := []string{"fresh", "voted", "timedout", "left", "voted-left-to", "three-rounds", "leader-of-next"}
	if only := os.Getenv("VERIF_C03_RULESET"); only != "" {
		c03Rulesets = []string{only} // debugging aid
	}
	for _, rn := range c03Rulesets {
		pre := c03Prefixes(rn == rules.NameFastHotStuff)
		for _, pn := range prefixNames {
			for _, off := range offs {
				for _, sd := range senders {
					for _, kd := range kinds {
						for _, tg := range targets {
							for _, pa := range parents {
								x := c03Stim{Kind: "propose", ViewOff: off, Sender: sd, QCTarget: tg, QCKind: kd, Parent: pa}
								seq := append(append([]c03Stim{}, pre[pn]...), x,
									c03Stim{Kind: "tc", K: 3}, c03Honest(0), c03Stim{Kind: "timeout"}, c03Stim{Kind: "replay"})
								c03RunOne(t, v, ex, "exhaustive", rn, crypto.NameECDSA, 1, seq)
							}
						}
					}
				}
			}
		}
	}
	tEx := time.Since(t0)
	fmt.Fprintf(os.Stderr, "C03: exhaustive stream done after %.1fs\n", tEx.Seconds())

	// 1b. the vote cannot be handed to the network (core.Sender.Vote returns an error, as the real
	// sender does while the next leader is not in its replica table): the block is signed all the
	// same, so the view must stay closed for an equivocating second block, for a retransmission
	// and for older views, in every prepared state
	sf := v.Stream("sendfail", "mismatches", 100)
	for _, ra := range c03RuleAggs {
		pre := c03Prefixes(ra.agg)
		for _, self := range []hotstuff.ID{1, 3} {
			conf := c03Std(ra.rule, self)
			conf.Agg = ra.agg
			for _, pn := range prefixNames {
				for _, tail := range c03SendFailTails(ra.agg) {
					seq := append(append([]c03Stim{}, pre[pn]...), tail...)
					c03RunCfg(t, v, sf, "sendfail", conf, seq)
					if self == 1 && (v.Thorough() || pn == "fresh" || pn == "voted" || pn == "three-rounds") {
						// the same with the communication module failing before anything is sent
						cs := append([]c03Stim{}, seq...)
						for i := range cs {
							cs[i].FailSend, cs[i].FailComm = false, cs[i].FailSend
						}
						c03RunCfg(t, v, sf, "sendfail", conf, cs)
					}
				}
			}
		}
	}
	fmt.Fprintf(os.Stderr, "C03: send-failure stream done after %.1fs\n", time.Since(t0).Seconds())

	if len(c03Rulesets) == 1 {
		var keep []c03RuleAgg
		for _, ra := range c03RuleAggs {
			if ra.rule == c03Rulesets[0] {
				keep = append(keep, ra)
			}
		}
		c03RuleAggs = keep
	}
	// 3b. genesis-like and otherwise malformed certificates for any block, as the proposal's QC and
	// inside a new-view message: signature absent / nil pointer / empty / junk / genuine, stated view
	// the block's / 0 / another, for a known uncertified block, a certified one, an unknown one, genesis
	sh := v.Stream("shapes", "mismatches", 150)
	for _, ra := range c03RuleAggs {
		for _, self := range []hotstuff.ID{1, 3} {
			conf := c03Std(ra.rule, self)
			conf.Agg = ra.agg
			for i, seq := range c03ShapeSeqs(ra.agg) {
				if self == 3 && !v.Thorough() && i%3 != 0 {
					continue
				}
				c03RunCfg(t, v, sh, "shapes", conf, seq)
			}
		}
	}
	fmt.Fprintf(os.Stderr, "C03: shapes stream done after %.1fs\n", time.Since(t0).Seconds())

	// 2. seeded random schedules
	rnd := v.Stream("random", "mismatches", 200)
	nRandom := v.Pick(450, 9000)
	for i := 0; i < nRandom; i++ {
		ra := c03RuleAggs[v.rng.Intn(len(c03RuleAggs))]
		if len(c03Rulesets) == 1 {
			ra = c03RuleAgg{c03Rulesets[0], c03Rulesets[0] == rules.NameFastHotStuff || v.rng.Intn(2) == 0}
		}
		set := c03IDSets[0]
		if v.rng.Intn(2) == 0 {
			set = c03IDSets[v.rng.Intn(len(c03IDSets))]
		}
		conf := c03Cfg{Rule: ra.rule, Agg: ra.agg, Crypto: crypto.NameECDSA, IDs: set.ids, SelfIdx: v.rng.Intn(len(set.ids)),
			Rotation: set.rots[v.rng.Intn(len(set.rots))]}
		if v.rng.Intn(4) == 0 {
			conf.Crypto = crypto.NameEDDSA
		}
		if v.rng.Intn(3) == 0 {
			conf.Joiner = set.joiner
		}
		n := 6 + v.rng.Intn(22)
		var seq []c03Stim
		for j := 0; j < n; j++ {
			seq = append(seq, c03RandomStim(v, ra.agg))
		}
		if conf.Joiner != 0 {
			seq[v.rng.Intn(len(seq))] = c03Stim{Kind: "grow"}
		}
		c03RunCfg(t, v, rnd, "random", conf, seq)
	}

	fmt.Fprintf(os.Stderr, "C03: random stream done after %.1fs\n", time.Since(t0).Seconds())
	// 3. malformed and boundary inputs
	bd := v.Stream("boundary", "mismatches", 200)
	for _, ra := range c03RuleAggs {
		for _, self := range []hotstuff.ID{1, 2, 3} {
			conf := c03Std(ra.rule, self)
			conf.Agg = ra.agg
			for _, seq := range c03Boundary(ra.agg) {
				c03RunCfg(t, v, bd, "boundary", conf, seq)
			}
		}
	}
	fmt.Fprintf(os.Stderr, "C03: boundary stream done after %.1fs\n", time.Since(t0).Seconds())

	// 3c. larger worlds (quorum 9 of 13; thorough also 15 of 22) for both list schemes: certificates
	// made of g genuine votes plus made-up entries of further distinct members, g = 8, q-1, 1, the
	// made-up entries last / first / interleaved; every signature of a certificate has to be checked
	bw := v.Stream("bigworld", "mismatches", 60)
	sizes := []int{13}
	if v.Thorough() {
		sizes = append(sizes, 22)
	}
	for _, n := range sizes {
		ids := make([]hotstuff.ID, n)
		for i := range ids {
			ids[i] = hotstuff.ID(i + 1)
		}
		for _, cn := range []string{crypto.NameECDSA, crypto.NameEDDSA} {
			for _, ra := range []c03RuleAgg{{rules.NameChainedHotStuff, false}, {rules.NameFastHotStuff, true}} {
				if len(c03Rulesets) == 1 && ra.rule != c03Rulesets[0] {
					continue
				}
				conf := c03Cfg{Rule: ra.rule, Agg: ra.agg, Crypto: cn, IDs: ids, SelfIdx: 0, Rotation: "round-robin"}
				for _, seq := range c03BigSeqs(ra.agg) {
					c03RunCfg(t, v, bw, "bigworld", conf, seq)
				}
			}
		}
	}
	fmt.Fprintf(os.Stderr, "C03: big-world stream done after %.1fs\n", time.Since(t0).Seconds())

	// 4. configuration: replica id sets (large, non-contiguous, agreeing in their low bits), leader
	// rotations, both timeout rules under every ruleset, and a replica joining the configuration
	// after voter, synchronizer and rotation were created (leaders and the quorum size change)
	cs := v.Stream("config", "mismatches", 150)
	for _, set := range c03IDSets {
		for _, rot := range set.rots {
			for _, ra := range c03RuleAggs {
				for _, si := range []int{0, 2} {
					conf := c03Cfg{Rule: ra.rule, Agg: ra.agg, Crypto: crypto.NameECDSA, IDs: set.ids, SelfIdx: si, Rotation: rot, Joiner: set.joiner}
					for _, seq := range c03ConfigSeqs(ra.agg) {
						c03RunCfg(t, v, cs, "config", conf, seq)
					}
				}
			}
		}
	}
	v.Note(fmt.Sprintf("exhaustive stream %.1fs, total %.1fs", tEx.Seconds(), time.Since(t0).Seconds()))
	v.Close("one run = a fresh 4-replica world, the subject wired with a recording signer, fed a sequence of crafted proposals / timeout events / new-view messages; non-trivial = the replica signed at least one vote or timeout")
}

func c03RandomStim(v *verifOut, agg bool) c03Stim {
	s := c03RandomStim0(v, agg)
	switch v.rng.Intn(8) {
	case 0, 1:
		s.FailSend = s.Kind != "timeout"
	case 2:
		s.FailComm = s.Kind != "timeout"
	}
	if s.Kind == "propose" && s.Sender == "leader" && v.rng.Intn(8) == 0 {
		s.Sender = "stale-leader"
	}
	if (s.Kind == "propose" || s.Kind == "qc") && v.rng.Intn(7) == 0 {
		s.Shape = []string{"nil", "nil", "typednil", "empty", "junk", ""}[v.rng.Intn(6)]
		s.Label = []string{"zero", "zero", "", "other"}[v.rng.Intn(4)]
		if s.Kind == "propose" && v.rng.Intn(3) == 0 {
			s.QCTarget = []string{"certified-tip", "unknownblk", "genesis"}[v.rng.Intn(3)]
		}
	}
	return s
}

type c03RuleAgg struct {
	rule string
	agg  bool // aggregate timeout rule (RuntimeConfig.HasAggregateQC)
}

var c03RuleAggs = []c03RuleAgg{
	{rules.NameChainedHotStuff, false}, {rules.NameChainedHotStuff, true},
	{rules.NameSimpleHotStuff, false}, {rules.NameSimpleHotStuff, true},
	{rules.NameFastHotStuff, true},
}

var c03IDSets = []struct {
	ids    []hotstuff.ID
	joiner hotstuff.ID
	rots   []string
}{
	{[]hotstuff.ID{1, 2, 3, 4}, 5, []string{"round-robin", "fixed", "table"}},
	// all ids agree in their low 8 bits
	{[]hotstuff.ID{3, 259, 65539, 16777219}, 515, []string{"table", "fixed"}},
	// large ids at type boundaries
	{[]hotstuff.ID{2147483653, 4294967295, 32768, 65536}, 2147483648, []string{"table", "fixed"}},
	// 7 / 65543 and 300 / 65836 agree in their low 16 bits
	{[]hotstuff.ID{65543, 300, 70000, 7}, 65836, []string{"table"}},
}

// c03ConfigSeqs: what every configuration is put through.
func c03ConfigSeqs(agg bool) [][]c03Stim {
	tc := c03Stim{Kind: "tc", K: 3}
	to := c03Stim{Kind: "timeout"}
	rp := c03Stim{Kind: "replay"}
	grow := c03Stim{Kind: "grow"}
	h := c03Honest
	wrong := c03Stim{Kind: "propose", Sender: "wrong", QCTarget: "tip", QCKind: "genuine", Parent: "qc"}
	stale := func(off int) c03Stim { s := h(off); s.Sender = "stale-leader"; return s }
	sub := func(off int) c03Stim { s := h(off); s.QCKind = "subquorum"; return s }
	next := []c03Stim{h(1)}
	if agg {
		next = []c03Stim{tc, h(0)}
	}
	cat := func(parts ...[]c03Stim) []c03Stim {
		var r []c03Stim
		for _, p := range parts {
			r = append(r, p...)
		}
		return r
	}
	one := func(xs ...c03Stim) []c03Stim { return xs }
	base := [][]c03Stim{
		// plain rounds, equivocation, old views, replays; wrong senders whose ids resemble the leader's
		cat(one(wrong, h(0)), next, next, one(wrong, h(0), h(-1), rp, to, h(0))),
		cat(one(h(0), wrong, to, tc, wrong, h(0)), next, one(sub(1), sub(0), h(0))),
		// views the replica leads itself, reached by TCs
		one(tc, tc, tc, tc, h(0), tc, h(-1), h(0), h(0)),
		// the membership grows: the leader of a view changes, the quorum grows
		cat(one(h(0), grow), next, next, one(h(0), stale(0), stale(1), h(1))),
		cat(one(grow, stale(0), h(0), stale(0), to, tc, stale(0), h(0)), next),
		one(h(1), stale(1), grow, tc, stale(0), h(0), rp),                   // delayed before, handled after the growth
		one(h(0), tc, grow, stale(0), sub(0), h(0), rp, tc, stale(0), h(0)), // old-quorum certificates after the growth
		cat(one(tc, grow, tc, tc, stale(0), h(0), tc, stale(0), h(0), tc, stale(0), h(0)), next),
	}
	twin := func(agg string) c03Stim {
		return c03Stim{Kind: "propose", Sender: "leader", QCTarget: "tip", QCKind: "relabelled", Parent: "qc", Agg: agg}
	}
	if agg {
		base = append(base, one(h(0), to, tc, twin("genuine"), h(0), tc, twin("valid"), twin("genuine"), twin(""), h(0)))
	} else {
		base = append(base, cat(one(h(0)), next, one(twin(""), twin("genuine"), h(0))))
	}
	// a proposal that fails only the leader test is seen for a view, THEN the membership grows and
	// the view gets another leader: whoever led it before must not be accepted any more (an answer
	// of the rotation remembered per view would be stale); at several depths, because which views
	// change hands depends on the ids and the rotation
	seqs := base
	for depth := 1; depth <= 6; depth++ {
		var q []c03Stim
		for i := 0; i < depth; i++ {
			q = append(q, tc)
		}
		// (the refused block of the wrong sender is the tip by now: build on the one below it)
		so, ho := stale(0), h(0)
		so.QCTarget, ho.QCTarget = "older", "older"
		seqs = append(seqs, cat(q, one(wrong, grow, so, wrong, ho, rp)))
	}
	return seqs
}

func c03RandomStim0(v *verifOut, agg bool) c03Stim {
	pick := func(xs ...string) string { return xs[v.rng.Intn(len(xs))] }
	switch r := v.rng.Intn(100); {
	case r < 30:
		off := 0
		if !agg && v.rng.Intn(2) == 0 {
			off = 1
		}
		return c03Honest(off)
	case r < 62:
		s := c03Stim{Kind: "propose", ViewOff: []int{-3, -2, -1, 0, 0, 0, 1, 1, 2, 3, 9, 10, 11, 12}[v.rng.Intn(14)],
			Sender:   pick("leader", "leader", "leader", "wrong"),
			QCTarget: pick("tip", "tip", "older", "genesis", "above"),
			QCKind:   pick("genuine", "genuine", "genuine", "subquorum", "forged", "unknown", "relabelled"),
			Parent:   pick("qc", "qc", "other", "random"),
			Proposer: pick("", "", "", "other")}
		if agg {
			s.Agg = pick("", "", "valid", "valid", "genuine", "genuine", "mismatch", "subquorum")
		} else if v.rng.Intn(10) == 0 {
			s.Agg = pick("valid", "subquorum")
		}
		return s
	case r < 70:
		return c03Stim{Kind: "replay"}
	case r < 82:
		return c03Stim{Kind: "timeout", ViewOff: []int{0, 0, 0, 0, -1, 1}[v.rng.Intn(6)]}
	case r < 94:
		return c03Stim{Kind: "tc", ViewOff: []int{0, 0, 0, -1, 1, 2}[v.rng.Intn(6)], K: []int{3, 3, 3, 3, 2}[v.rng.Intn(5)]}
	default:
		return c03Stim{Kind: "qc", ViewOff: []int{0, 0, 1, 3}[v.rng.Intn(4)], QCKind: pick("genuine", "genuine", "subquorum", "forged")}
	}
}

// c03SendFailTails: what follows a prepared state when vote sends fail.
func c03SendFailTails(agg bool) [][]c03Stim {
	fail := func(s c03Stim) c03Stim { s.FailSend = true; return s }
	tc := c03Stim{Kind: "tc", K: 3}
	to := c03Stim{Kind: "timeout"}
	rp := c03Stim{Kind: "replay"}
	f0 := fail(c03Honest(0))
	next := []c03Stim{c03Honest(1)} // how the next view is reached and proposed in
	fnext := []c03Stim{fail(c03Honest(1))}
	if agg {
		next = []c03Stim{tc, c03Honest(0)}
		fnext = []c03Stim{fail(tc), fail(c03Honest(0))}
	}
	cat := func(parts ...[]c03Stim) []c03Stim {
		var r []c03Stim
		for _, p := range parts {
			r = append(r, p...)
		}
		return r
	}
	return [][]c03Stim{
		// send fails, then the leader equivocates with a second block for the view, then retransmits
		{f0, c03Honest(0), rp},
		// send fails, the same proposal is retransmitted (twice, the second time the send works), then a second block
		{f0, fail(rp), rp, c03Honest(0)},
		// send fails, later views follow, then blocks for the old views come back
		cat([]c03Stim{f0}, next, next, []c03Stim{c03Honest(-1), c03Honest(-2), rp}),
		// every send fails over several rounds, then equivocation in the last and earlier views
		cat([]c03Stim{f0}, fnext, fnext, []c03Stim{c03Honest(0), c03Honest(-1), fail(c03Honest(0))}),
		// send fails, a TC moves on, the next round works, the old view is offered again
		{f0, tc, c03Honest(0), c03Honest(-1), fail(c03Honest(-1))},
		// send fails, then the local timer fires, then a second block and a retransmission
		{f0, to, c03Honest(0), rp, fail(c03Honest(0))},
		// sends fail while certificates move the replica through views it leads itself
		{fail(c03Stim{Kind: "qc"}), fail(tc), fail(tc), fail(tc), c03Honest(0), c03Honest(0), fail(c03Honest(-1))},
		// crafted second block with another parent / a wrong sender after the failed send
		{f0, {Kind: "propose", Sender: "leader", QCTarget: "tip", QCKind: "genuine", Parent: "other"},
			{Kind: "propose", Sender: "wrong", QCTarget: "tip", QCKind: "genuine", Parent: "qc"},
			{Kind: "propose", Sender: "leader", QCTarget: "older", QCKind: "genuine", Parent: "qc"}},
	}
}

// c03SelfCheck fails the Go test (and with it the check) when the harness has gone inert: in a fresh
// world of every ruleset / timeout rule a genuine proposal of the leader must be voted for, a local
// timeout must be signed, and the recording wrappers must have seen both.
func c03SelfCheck(t *testing.T) {
	for _, ra := range c03RuleAggs {
		conf := c03Std(ra.rule, 1)
		conf.Agg = ra.agg
		w := c03NewWorld(t, conf)
		tc := c03Stim{Kind: "tc", K: 3}
		for _, s := range []c03Stim{c03Honest(0), tc, c03Honest(0), {Kind: "timeout"}} {
			if p := w.apply(s); p != nil {
				t.Fatalf("self-check (%s): %v", conf, p)
			}
		}
		w.close()
		votes, timeouts, rulesSeen := 0, 0, 0
		for _, inv := range w.invs {
			rulesSeen += len(inv.rules)
			for _, raw := range inv.signs {
				switch w.classify(raw).Kind {
				case "vote":
					votes++
				case "timeout":
					timeouts++
				}
			}
		}
		if votes != 2 || timeouts != 1 || rulesSeen < 2 || w.states.View() != 2 || w.lastVoted() != 2 {
			t.Fatalf("harness self-check failed for %s: %d votes (want 2), %d timeout signatures (want 1), %d vote-rule calls, view %d, lastVoted %d",
				conf, votes, timeouts, rulesSeen, w.states.View(), w.lastVoted())
		}
		// and a certificate built by the adversary must be what it is meant to be
		b := w.tip()
		if g := w.makeQC(b, "genuine"); g.Signature() == nil || g.Signature().Participants().Len() != w.quorumNow() {
			t.Fatalf("harness self-check: genuine certificate has no quorum of signatures")
		}
		if x := w.shapeQC(b, "nil", "zero"); x.Signature() != nil || x.View() != 0 || x.BlockHash() != b.Hash() || b.View() == 0 {
			t.Fatalf("harness self-check: unsigned view-0 certificate for a non-genesis block not built as intended")
		}
	}
}

// c03BigSeqs: partly made-up certificates in a fresh and in a prepared state.
func c03BigSeqs(agg bool) [][]c03Stim {
	tc := c03Stim{Kind: "tc", K: 3}
	h := c03Honest
	var seqs [][]c03Stim
	for _, g := range []int{8, -1, 1} {
		for _, pos := range []string{"last", "first", "inter"} {
			x := c03Stim{Kind: "propose", Sender: "leader", QCTarget: "tip", QCKind: "mixed", Parent: "qc", G: g, JunkPos: pos}
			x1 := x
			x1.ViewOff = 1
			nv := c03Stim{Kind: "qc", QCKind: "mixed", G: g, JunkPos: pos}
			if agg {
				seqs = append(seqs,
					[]c03Stim{h(0), tc, x, h(0)},
					[]c03Stim{h(0), tc, h(0), tc, h(0), tc, x, nv, h(0)})
			} else {
				seqs = append(seqs,
					[]c03Stim{h(0), x1, nv, h(1)},                    // the certificate would also move the view
					[]c03Stim{h(0), h(1), h(1), x1, nv, tc, x, h(0)}) // after three voted rounds
			}
		}
	}
	return seqs
}

// c03ShapeSeqs: malformed certificates in prepared states.
func c03ShapeSeqs(agg bool) [][]c03Stim {
	tc := c03Stim{Kind: "tc", K: 3}
	to := c03Stim{Kind: "timeout"}
	h := c03Honest
	next := []c03Stim{h(1)}
	if agg {
		next = []c03Stim{tc, h(0)}
	}
	cat := func(parts ...[]c03Stim) []c03Stim {
		var r []c03Stim
		for _, p := range parts {
			r = append(r, p...)
		}
		return r
	}
	one := func(xs ...c03Stim) []c03Stim { return xs }
	type sl struct{ shape, label string }
	var sls []sl
	for _, sh := range []string{"nil", "typednil", "empty", "junk"} {
		for _, lb := range []string{"zero", "", "other"} {
			sls = append(sls, sl{sh, lb})
		}
	}
	sls = append(sls, sl{"", "zero"}, sl{"", "other"}) // a genuine quorum under a wrong stated view
	var seqs [][]c03Stim
	for _, x := range sls {
		p := func(target string) c03Stim {
			return c03Stim{Kind: "propose", Sender: "leader", QCTarget: target, QCKind: "genuine", Parent: "qc", Shape: x.shape, Label: x.label}
		}
		q := func(target string) c03Stim {
			return c03Stim{Kind: "qc", QCTarget: target, Shape: x.shape, Label: x.label}
		}
		seqs = append(seqs,
			// a block proposed earlier that never got a quorum is "certified" by the next leader
			one(h(0), tc, p("tip"), h(0), to),
			// the same after the view timed out locally, and with a certified block, an unknown one, genesis
			one(h(0), to, tc, p("tip"), p("certified-tip"), h(0)),
			cat(one(h(0)), next, one(p("unknownblk"), p("certified-tip"), p("older"), h(0))),
			one(p("genesis"), h(0), tc, p("genesis"), h(0)),
			// inside a new-view message; afterwards the replica leads a view itself and proposes from its high QC
			one(h(0), tc, q("tip"), tc, tc, q("genesis"), tc, h(0)),
		)
	}
	return seqs
}

func c03Boundary(agg bool) [][]c03Stim {
	tc := c03Stim{Kind: "tc", K: 3}
	to := c03Stim{Kind: "timeout"}
	p := func(off int) c03Stim { return c03Honest(off) }
	abs := func(view uint64, tgt string) c03Stim {
		return c03Stim{Kind: "propose", Abs: true, AbsView: view, Sender: "leader", QCTarget: tgt, QCKind: "genuine", Parent: "qc"}
	}
	bad := func(off int, tgt, par string) c03Stim {
		return c03Stim{Kind: "propose", ViewOff: off, Sender: "leader", QCTarget: tgt, QCKind: "genuine", Parent: par}
	}
	seqs := [][]c03Stim{
		// the drop / delay boundary: +10 is kept and processed once the view gets there, +11 is dropped
		{p(10), p(11), tc, tc, tc, tc, tc, tc, tc, tc, tc, tc, tc},
		{p(3), p(2), p(1), tc, tc, tc, tc},
		// extreme views
		{abs(0, "genesis"), abs(1, "genesis"), abs(1, "genesis")},
		{abs(^uint64(0), "tip"), abs(^uint64(0)-1, "tip"), abs(1<<63, "above"), p(0)},
		{abs(11, "genesis"), abs(12, "genesis"), tc, abs(12, "genesis")},
		// timer events: repeated (resend, nothing new is signed), stale, early
		{to, to, to, {Kind: "timeout", ViewOff: -1}, {Kind: "timeout", ViewOff: 1}, p(0), tc, p(-1), p(0), to, to},
		{p(0), to, {Kind: "replay"}, c03Honest(0), tc, to, p(-1), p(0)},
		// a certificate for a higher view lets the own timeout message advance the view again
		{{Kind: "qc", ViewOff: 5}, to, to, to, p(0)},
		{{Kind: "qc", ViewOff: 2}, {Kind: "qc", ViewOff: 3}, to, p(0), to, p(0)},
		// sub-quorum and forged sync infos move nothing
		{{Kind: "tc", K: 2}, {Kind: "tc", K: 1}, {Kind: "qc", QCKind: "subquorum"}, {Kind: "qc", QCKind: "forged"}, p(0)},
		{{Kind: "tc", ViewOff: 3}, {Kind: "tc", ViewOff: -1}, p(0), p(1)},
		// the defect classes, in several states
		{bad(0, "tip", "other")},
		{p(0), bad(1, "tip", "other")},
		{p(0), p(1), bad(1, "older", "other"), bad(1, "tip", "random")},
		{tc, tc, tc, bad(-1, "above", "qc")},
		{p(0), tc, tc, tc, bad(-1, "above", "qc"), bad(0, "above", "qc"), bad(0, "above", "other")},
		{tc, tc, bad(0, "above", "qc"), tc, bad(0, "above", "qc")},
		// delayed proposals (DelayUntil a view change): duplicates of the delayed message, two different
		// blocks for the future view, a retransmission after it was handled, a timer in between
		{p(1), {Kind: "replay"}, {Kind: "replay"}, tc, {Kind: "replay"}, p(0)},
		{p(1), p(1), p(1), tc, p(0), {Kind: "replay"}},
		{p(2), {Kind: "replay"}, p(1), tc, tc, {Kind: "replay"}, p(-1)},
		{p(1), {Kind: "replay"}, to, tc, {Kind: "replay"}, to, p(0)},
		{p(1), to, to, tc, to, {Kind: "replay"}},
		{p(10), {Kind: "replay"}, p(9), tc, tc, tc, tc, tc, tc, tc, tc, tc, {Kind: "replay"}, tc, {Kind: "replay"}},
		// equivocation: two, three blocks for one view; replays
		{p(0), p(0), p(0), {Kind: "replay"}, tc, p(-1), p(0), p(0)},
		// block whose proposer field is not the sender
		{{Kind: "propose", Sender: "leader", QCTarget: "tip", QCKind: "genuine", Parent: "qc", Proposer: "other"}, p(1)},
		{{Kind: "propose", Sender: "wrong", QCTarget: "tip", QCKind: "genuine", Parent: "qc", Proposer: "other"}, p(0)},
	}
	aggKinds := []string{"valid", "genuine", "mismatch", "subquorum"}
	if !agg {
		aggKinds = []string{"genuine"} // without aggregate QCs configured the attachment is ignored
	}
	for _, a := range aggKinds {
		for _, k := range []string{"genuine", "subquorum", "relabelled"} {
			for _, par := range []string{"qc", "other"} {
				x := c03Stim{Kind: "propose", Sender: "leader", QCTarget: "tip", QCKind: k, Parent: par, Agg: a}
				seqs = append(seqs, []c03Stim{x}, []c03Stim{p(0), tc, x, tc, p(0)})
				if par == "qc" {
					// after a view that timed out, and with an older certified block
					xo := x
					xo.QCTarget = "older"
					seqs = append(seqs, []c03Stim{p(0), to, tc, x, p(0)}, []c03Stim{p(0), tc, p(0), to, tc, xo, x, tc, p(0)})
				}
			}
		}
	}
	return seqs
}

package synchronizer

// Correspondence + oracle harness for C03 (honest replicas vote once per view, only for
// well-formed leader proposals).  A full replica stack (event loop, blockchain, authority,
// ruleset, committer, voter, proposer, voting machine, clique, synchronizer) is wired by hand the
// way synchronizer_test.go does, with two recording wrappers: the crypto.Base given to the
// authority logs every Sign(message) call, and the ruleset logs VoteRule verdicts and the
// proposals ProposeRule builds.  An adversary controlling the three other replicas' keys crafts
// proposals, timeout certificates and quorum certificates and feeds them through the replica's
// event loop; prioritised observers mark the handler invocations.  Every invocation becomes a
// model event (ground truth of the crafted certificates + verdicts returned by the real
// components) with the observed signatures and the replica's view afterwards; the Coq kernel
// replays the model on the whole run.  Independently of the model, the property's three statements
// are evaluated on the recorded Sign calls.

import (
	"context"
	"crypto/sha256"
	"encoding/binary"
	"fmt"
	"os"
	"strings"
	"testing"
	"time"

	"github.com/relab/hotstuff"
	"github.com/relab/hotstuff/core"
	"github.com/relab/hotstuff/core/eventloop"
	"github.com/relab/hotstuff/core/logging"
	"github.com/relab/hotstuff/internal/proto/clientpb"
	"github.com/relab/hotstuff/internal/testutil"
	"github.com/relab/hotstuff/protocol"
	"github.com/relab/hotstuff/protocol/comm"
	"github.com/relab/hotstuff/protocol/consensus"
	"github.com/relab/hotstuff/protocol/leaderrotation"
	"github.com/relab/hotstuff/protocol/rules"
	"github.com/relab/hotstuff/protocol/votingmachine"
	"github.com/relab/hotstuff/security/blockchain"
	"github.com/relab/hotstuff/security/cert"
	"github.com/relab/hotstuff/security/crypto"
	"github.com/relab/hotstuff/wiring"
)

const c03N = 4

// ---------------------------------------------------------------- recording wrappers

type c03Signer struct {
	crypto.Base
	w *c03World
}

func (s *c03Signer) Sign(message []byte) (hotstuff.QuorumSignature, error) {
	cp := append([]byte(nil), message...)
	if s.w.cur != nil {
		s.w.cur.signs = append(s.w.cur.signs, cp)
	} else {
		s.w.stray = append(s.w.stray, cp)
	}
	return s.Base.Sign(message)
}

// c03Sender is the replica's core.Sender.  Like the real network.GorumsSender, whose Vote returns
// an error while the receiver is not (yet) in the replica table, it can be told to fail vote sends.
type c03Sender struct {
	*testutil.MockSender
	w *c03World
}

func (s *c03Sender) Vote(id hotstuff.ID, pc hotstuff.PartialCert) error {
	if s.w.failVotes {
		if s.w.cur != nil {
			s.w.cur.sendFailed++
		}
		return fmt.Errorf("replica does not exist (id=%d)", id)
	}
	return s.MockSender.Vote(id, pc)
}

var _ core.Sender = (*c03Sender)(nil)

type c03RuleCall struct {
	hash    hotstuff.Hash
	verdict bool
}

type c03Rules struct {
	inner consensus.Ruleset
	w     *c03World
}

func (r *c03Rules) VoteRule(view hotstuff.View, p hotstuff.ProposeMsg) bool {
	b := r.inner.VoteRule(view, p)
	if r.w.cur != nil {
		r.w.cur.rules = append(r.w.cur.rules, c03RuleCall{p.Block.Hash(), b})
	}
	return b
}
func (r *c03Rules) CommitRule(b *hotstuff.Block) *hotstuff.Block { return r.inner.CommitRule(b) }
func (r *c03Rules) ChainLength() int                             { return r.inner.ChainLength() }
func (r *c03Rules) ProposeRule(view hotstuff.View, si hotstuff.SyncInfo, cmd *clientpb.Batch) (hotstuff.ProposeMsg, bool) {
	p, ok := r.inner.ProposeRule(view, si, cmd)
	if ok && p.Block != nil {
		r.w.known[p.Block.Hash()] = p.Block
		if r.w.cur != nil {
			cp := p
			r.w.cur.owns = append(r.w.cur.owns, &cp)
		}
	}
	return p, ok
}

// ---------------------------------------------------------------- world

type c03QCInfo struct {
	ok        bool // ground truth: a quorum of distinct replicas signed exactly this block, and the block can be obtained
	haveBlock bool
	blockView hotstuff.View
	kind      string
}

type c03SI struct {
	ok   bool
	view hotstuff.View
	desc string
}

type c03Inv struct {
	kind       int // 0 proposal, 1 timeout event, 2 new-view
	prop       hotstuff.ProposeMsg
	tview      hotstuff.View
	si         c03SI
	signs      [][]byte
	rules      []c03RuleCall
	owns       []*hotstuff.ProposeMsg
	viewAfter  hotstuff.View
	sendFailed int // vote sends that returned an error during this invocation
}

type c03World struct {
	t         testing.TB
	ruleName  string
	cryptoNm  string
	agg       bool
	self      hotstuff.ID
	cfg       *core.RuntimeConfig
	el        *eventloop.EventLoop
	syn       *Synchronizer
	states    *protocol.ViewStates
	cmds      *clientpb.CommandCache
	others    []*cert.Authority
	otherID   hotstuff.ID
	pool      *blockchain.Blockchain
	blocks    []*hotstuff.Block
	known     map[hotstuff.Hash]*hotstuff.Block
	qcs       map[string]c03QCInfo
	qcMemo    map[string]hotstuff.QuorumCert
	wf        map[hotstuff.Hash]bool          // blocks an honest replica running the repaired Verify could vote for
	certIn    map[hotstuff.View]hotstuff.Hash // the one block per view that got a quorum
	aggs      map[*hotstuff.AggregateQC]bool  // aggregate part of VerifyAnyQC succeeds (ground truth)
	intern    map[hotstuff.Hash]uint64
	invs      []*c03Inv
	cur       *c03Inv
	pending   []c03SI
	stray     [][]byte
	seq       uint64
	nonce     uint64
	lastMsg   *hotstuff.ProposeMsg
	notes     []string
	failVotes bool // core.Sender.Vote returns an error
}

func c03Leader(view hotstuff.View) hotstuff.ID { return hotstuff.ID(uint64(view)%c03N + 1) }

func c03NewWorld(t testing.TB, ruleName, cryptoName string, self hotstuff.ID) *c03World {
	agg := ruleName == rules.NameFastHotStuff
	var opts []core.RuntimeOption
	if agg {
		opts = append(opts, core.WithAggregateQC())
	}
	set := testutil.NewEssentialsSet(t, c03N, cryptoName, opts...)
	w := &c03World{t: t, ruleName: ruleName, cryptoNm: cryptoName, agg: agg, self: self,
		known: map[hotstuff.Hash]*hotstuff.Block{}, qcs: map[string]c03QCInfo{}, qcMemo: map[string]hotstuff.QuorumCert{},
		wf: map[hotstuff.Hash]bool{}, certIn: map[hotstuff.View]hotstuff.Hash{},
		aggs: map[*hotstuff.AggregateQC]bool{}, intern: map[hotstuff.Hash]uint64{}}
	gen := hotstuff.GetGenesis()
	w.known[gen.Hash()] = gen
	w.intern[gen.Hash()] = 0
	for i, e := range set {
		if hotstuff.ID(i+1) != self {
			w.others = append(w.others, e.Authority())
			if w.pool == nil {
				w.pool = e.Blockchain()
				w.otherID = hotstuff.ID(i + 1)
			}
		}
	}
	sub := set[int(self)-1]
	w.cfg, w.el = sub.RuntimeCfg(), sub.EventLoop()
	logger := sub.Logger()
	var sender core.Sender = &c03Sender{MockSender: sub.MockSender(), w: w}
	base, err := crypto.New(w.cfg, cryptoName)
	if err != nil {
		t.Fatal(err)
	}
	sec := wiring.NewSecurity(w.el, logger, w.cfg, sender, &c03Signer{Base: base, w: w})
	bc, auth := sec.Blockchain(), sec.Authority()
	w.states, err = protocol.NewViewStates(bc, auth)
	if err != nil {
		t.Fatal(err)
	}
	var inner consensus.Ruleset
	switch ruleName {
	case rules.NameChainedHotStuff:
		inner = rules.NewChainedHotStuff(logger, w.cfg, bc)
	case rules.NameSimpleHotStuff:
		inner = rules.NewSimpleHotStuff(logger, w.cfg, bc)
	case rules.NameFastHotStuff:
		inner = rules.NewFastHotStuff(logger, w.cfg, bc)
	default:
		t.Fatalf("unknown ruleset %s", ruleName)
	}
	rl := &c03Rules{inner: inner, w: w}
	leader := leaderrotation.NewRoundRobin(w.cfg)
	w.cmds = clientpb.NewCommandCache(1)
	vm := votingmachine.New(logger, w.el, w.cfg, bc, auth, w.states)
	cons := wiring.NewConsensus(w.el, logger, w.cfg, bc, auth, w.cmds, rl, leader, w.states,
		comm.NewClique(w.cfg, vm, leader, sender))
	// observers first: prioritised handlers run before the synchronizer's own handlers
	eventloop.Register(w.el, func(p hotstuff.ProposeMsg) { w.begin(&c03Inv{kind: 0, prop: p}) }, eventloop.Prioritize())
	eventloop.Register(w.el, func(e hotstuff.TimeoutEvent) {
		w.end()
		_, view, _, err := w.syn.timeoutRules.VerifySyncInfo(w.states.SyncInfo())
		w.begin(&c03Inv{kind: 1, tview: e.View, si: c03SI{ok: err == nil, view: view}})
	}, eventloop.Prioritize())
	eventloop.Register(w.el, func(_ hotstuff.NewViewMsg) {
		si := c03SI{ok: false}
		if len(w.pending) > 0 {
			si, w.pending = w.pending[0], w.pending[1:]
		} else {
			w.notes = append(w.notes, "new-view message without registered ground truth")
		}
		w.begin(&c03Inv{kind: 2, si: si})
	}, eventloop.Prioritize())
	eventloop.Register(w.el, func(_ hotstuff.ViewChangeEvent) { w.end() }, eventloop.Prioritize())
	w.syn = New(w.el, logger, w.cfg, auth, leader, NewFixedDuration(time.Hour), NewTimeoutRuler(w.cfg, auth),
		cons.Proposer(), cons.Voter(), w.states, sender)
	return w
}

func (w *c03World) begin(inv *c03Inv) {
	w.end()
	w.cur = inv
	w.invs = append(w.invs, inv)
}

func (w *c03World) end() {
	if w.cur != nil {
		w.cur.viewAfter = w.states.View()
		w.cur = nil
	}
}

func (w *c03World) close() { w.syn.stopTimeoutTimer() }

// c03Hung is what deliver returns when a handler of the replica does not return.
type c03Hung struct{}

var c03Aborted bool
var c03Reported = map[string]int{}

// deliver puts one event on the replica's event loop and runs the loop until it is empty.
// The handlers run on a helper goroutine so that a handler that never returns is reported
// instead of hanging the check.
func (w *c03World) deliver(ev any) any {
	for w.seq < 1<<62 && w.cmdBacklog() < 12 {
		w.seq++
		w.cmds.Add(&clientpb.Command{ClientID: 1, SequenceNumber: w.seq, Data: []byte("c")})
	}
	done := make(chan any, 1)
	go func() {
		defer func() { done <- recover() }()
		w.el.AddEvent(ev)
		ctx := context.Background()
		for i := 0; i < 400 && w.el.Tick(ctx); i++ {
		}
	}()
	timer := time.NewTimer(45 * time.Second)
	defer timer.Stop()
	select {
	case p := <-done:
		w.end()
		return p
	case <-timer.C:
		return c03Hung{}
	}
}

// cmdBacklog keeps a rough count of unconsumed commands (every own proposal consumes one).
func (w *c03World) cmdBacklog() int {
	used := 0
	for _, inv := range w.invs {
		used += len(inv.owns)
	}
	return int(w.seq) - used
}

func (w *c03World) id(h hotstuff.Hash) uint64 {
	if x, ok := w.intern[h]; ok {
		return x
	}
	x := uint64(len(w.intern))
	w.intern[h] = x
	return x
}

// ---------------------------------------------------------------- the adversary's toolbox

func (w *c03World) newBlock(parent hotstuff.Hash, qc hotstuff.QuorumCert, view hotstuff.View, proposer hotstuff.ID) *hotstuff.Block {
	w.nonce++
	b := hotstuff.NewBlock(parent, qc, &clientpb.Batch{Commands: []*clientpb.Command{{ClientID: 77, SequenceNumber: w.nonce, Data: []byte("adv")}}}, view, proposer)
	w.known[b.Hash()] = b
	info, ok := w.qcInfo(qc)
	w.wf[b.Hash()] = ok && info.ok && parent == qc.BlockHash() && view > info.blockView
	return b
}

// certifiable: the adversary controls the keys of the three other replicas, but a certificate
// needs votes of honest replicas.  They vote only for well-formed blocks and for one block per view,
// so only such blocks can ever carry a quorum of genuine signatures.
func (w *c03World) certifiable(b *hotstuff.Block) bool {
	if b.Hash() == hotstuff.GetGenesis().Hash() {
		return true
	}
	if !w.wf[b.Hash()] {
		return false
	}
	h, taken := w.certIn[b.View()]
	return !taken || h == b.Hash()
}

// publish makes a block fetchable.  Only well-formed blocks are handed out: storing a block whose
// view is not above its parent's makes Blockchain.PruneToHeight spin forever at the next commit
// (a separate defect, outside C03), which would end the run.
func (w *c03World) publish(b *hotstuff.Block) {
	if !w.wf[b.Hash()] {
		return
	}
	if _, ok := w.pool.LocalGet(b.Hash()); !ok {
		w.pool.Store(b)
		w.blocks = append(w.blocks, b)
	}
}

func (w *c03World) available(b *hotstuff.Block) bool {
	_, ok := w.pool.LocalGet(b.Hash())
	return ok
}

func (w *c03World) sigs(msg []byte, k int) hotstuff.QuorumSignature {
	var ss []hotstuff.QuorumSignature
	for i := 0; i < k && i < len(w.others); i++ {
		s, err := w.others[i].Sign(msg)
		if err != nil {
			w.t.Fatal(err)
		}
		ss = append(ss, s)
	}
	if len(ss) == 1 {
		return ss[0]
	}
	s, err := w.others[0].Combine(ss...)
	if err != nil {
		w.t.Fatal(err)
	}
	return s
}

// makeQC returns a certificate naming target; kind: genuine | subquorum | forged.
func (w *c03World) makeQC(target *hotstuff.Block, kind string) hotstuff.QuorumCert {
	gen := hotstuff.GetGenesis()
	key := kind + "/" + string(target.Hash().String())
	if qc, ok := w.qcMemo[key]; ok {
		return qc
	}
	var qc hotstuff.QuorumCert
	info := c03QCInfo{haveBlock: w.available(target) || target.Hash() == gen.Hash(), blockView: target.View(), kind: kind}
	switch {
	case target.Hash() == gen.Hash():
		// the certificate of the genesis block needs no signatures
		qc = hotstuff.NewQuorumCert(nil, 0, gen.Hash())
		info.ok = true
	case kind == "genuine":
		qc = hotstuff.NewQuorumCert(w.sigs(target.ToBytes(), 3), target.View(), target.Hash())
		info.ok = info.haveBlock
		if _, taken := w.certIn[target.View()]; !taken {
			w.certIn[target.View()] = target.Hash()
		}
	case kind == "subquorum":
		qc = hotstuff.NewQuorumCert(w.sigs(target.ToBytes(), 2), target.View(), target.Hash())
	case kind == "forged":
		// three real signatures, but over something else than the block named by the certificate
		qc = hotstuff.NewQuorumCert(w.sigs(append(target.ToBytes(), 1), 3), target.View(), target.Hash())
	default:
		w.t.Fatalf("qc kind %q", kind)
	}
	w.qcs[string(qc.ToBytes())] = info
	w.qcMemo[key] = qc
	return qc
}

func (w *c03World) qcInfo(qc hotstuff.QuorumCert) (c03QCInfo, bool) {
	if qc.BlockHash() == hotstuff.GetGenesis().Hash() && qc.Signature() == nil && qc.View() == 0 {
		return c03QCInfo{ok: true, haveBlock: true, blockView: 0, kind: "genesis"}, true
	}
	info, ok := w.qcs[string(qc.ToBytes())]
	if ok && !info.haveBlock {
		// the block may have been published since the certificate was made
		if b, k := w.known[qc.BlockHash()]; k && w.available(b) {
			info.haveBlock = true
			info.ok = info.kind == "genuine"
		}
	}
	return info, ok
}

func (w *c03World) makeTC(view hotstuff.View, k int) hotstuff.TimeoutCert {
	return hotstuff.NewTimeoutCert(w.sigs(view.ToBytes(), k), view)
}

func (w *c03World) tip() *hotstuff.Block {
	best := hotstuff.GetGenesis()
	for _, b := range w.blocks {
		if b.View() >= best.View() && w.certifiable(b) {
			best = b
		}
	}
	return best
}

// ---------------------------------------------------------------- stimuli

type c03Stim struct {
	Kind     string `json:"kind"`               // propose | replay | timeout | tc | qc
	ViewOff  int    `json:"view_off,omitempty"` // relative to the replica's current view at delivery
	Abs      bool   `json:"abs,omitempty"`
	AbsView  uint64 `json:"abs_view,omitempty"`
	Sender   string `json:"sender,omitempty"`         // leader | wrong
	QCTarget string `json:"qc_target,omitempty"`      // tip | older | genesis | above
	QCKind   string `json:"qc_kind,omitempty"`        // genuine | subquorum | forged | unknown
	Parent   string `json:"parent,omitempty"`         // qc | other | random
	Agg      string `json:"agg,omitempty"`            // "" | valid | mismatch | subquorum
	Proposer string `json:"proposer,omitempty"`       // "" (= sender) | other
	K        int    `json:"signers,omitempty"`        // tc: number of signers (3 = quorum)
	FailSend bool   `json:"fail_vote_send,omitempty"` // core.Sender.Vote fails while this stimulus is handled
}

func (s c03Stim) String() string {
	if s.FailSend {
		s.FailSend = false
		return s.String() + "!sendfails"
	}
	switch s.Kind {
	case "propose":
		v := fmt.Sprintf("%+d", s.ViewOff)
		if s.Abs {
			v = fmt.Sprintf("=%d", s.AbsView)
		}
		return fmt.Sprintf("P(v%s,%s,qc=%s/%s,par=%s,agg=%s,pr=%s)", v, s.Sender, s.QCTarget, s.QCKind, s.Parent, s.Agg, s.Proposer)
	case "timeout", "tc", "qc":
		return fmt.Sprintf("%s(%+d,k=%d,%s)", s.Kind, s.ViewOff, s.K, s.QCKind)
	}
	return s.Kind
}

func c03ViewAt(cur hotstuff.View, off int) hotstuff.View {
	if off < 0 && uint64(-off) > uint64(cur) {
		return 0
	}
	return hotstuff.View(int64(cur) + int64(off))
}

func (w *c03World) apply(s c03Stim) any {
	w.failVotes = s.FailSend
	defer func() { w.failVotes = false }()
	cur := w.states.View()
	switch s.Kind {
	case "propose":
		msg := w.craft(s, cur)
		w.lastMsg = &msg
		return w.deliver(msg)
	case "replay":
		if w.lastMsg == nil {
			return nil
		}
		return w.deliver(*w.lastMsg)
	case "timeout":
		return w.deliver(hotstuff.TimeoutEvent{View: c03ViewAt(cur, s.ViewOff)})
	case "tc":
		view := c03ViewAt(cur, s.ViewOff)
		k := s.K
		if k == 0 {
			k = 3
		}
		tc := w.makeTC(view, k)
		w.pending = append(w.pending, c03SI{ok: k >= 3 || view == 0, view: view, desc: fmt.Sprintf("TC(view %d, %d signers)", view, k)})
		return w.deliver(hotstuff.NewViewMsg{ID: w.otherID, SyncInfo: hotstuff.NewSyncInfoWith(tc), FromNetwork: true})
	case "qc":
		// a new-view message carrying a certificate for a (new) block of view cur+off
		view := c03ViewAt(cur, s.ViewOff)
		t := w.tip()
		if view <= t.View() {
			view = t.View() + 1
		}
		b := w.newBlock(t.Hash(), w.makeQC(t, "genuine"), view, c03Leader(view))
		w.publish(b)
		kind := s.QCKind
		if kind == "" {
			kind = "genuine"
		}
		qc := w.makeQC(b, kind)
		info, _ := w.qcInfo(qc)
		si := c03SI{ok: info.ok, view: qc.View(), desc: fmt.Sprintf("QC(%s, view %d)", kind, qc.View())}
		if w.agg {
			si = c03SI{ok: true, view: 0, desc: si.desc + " ignored by the aggregate rule"}
		}
		if !si.ok {
			si.view = 0
		}
		w.pending = append(w.pending, si)
		return w.deliver(hotstuff.NewViewMsg{ID: w.otherID, SyncInfo: hotstuff.NewSyncInfoWith(qc), FromNetwork: true})
	}
	w.t.Fatalf("stimulus %q", s.Kind)
	return nil
}

// craft builds the proposal described by s for a replica currently in view cur.
func (w *c03World) craft(s c03Stim, cur hotstuff.View) hotstuff.ProposeMsg {
	gen := hotstuff.GetGenesis()
	view := c03ViewAt(cur, s.ViewOff)
	if s.Abs {
		view = hotstuff.View(s.AbsView)
	}
	if !s.Abs && c03Leader(view) == w.self {
		view++ // nobody else can send in the replica's own name
	}
	tip := w.tip()
	var target *hotstuff.Block
	switch s.QCTarget {
	case "genesis":
		target = gen
	case "older":
		target = gen
		for _, b := range w.blocks {
			if b.View() < tip.View() && b.View() >= target.View() && w.certifiable(b) {
				target = b
			}
		}
	case "above":
		for _, b := range w.blocks {
			if b.View() >= view && (target == nil || b.View() < target.View()) && w.certifiable(b) {
				target = b
			}
		}
		if target == nil {
			nv := view + 1
			if nv < view { // wrap-around
				nv = view
			}
			target = w.newBlock(tip.Hash(), w.makeQC(tip, "genuine"), nv, c03Leader(nv))
			w.publish(target)
		}
	default:
		target = tip
	}
	var qc hotstuff.QuorumCert
	if s.QCKind == "unknown" {
		// a genuinely certified block that nobody will hand out
		uv := target.View() + 1
		for {
			if _, taken := w.certIn[uv]; !taken {
				break
			}
			uv++
		}
		u := w.newBlock(target.Hash(), w.makeQC(target, "genuine"), uv, c03Leader(uv))
		qc = w.makeQC(u, "genuine")
	} else {
		qc = w.makeQC(target, s.QCKind)
	}
	parent := qc.BlockHash()
	switch s.Parent {
	case "other":
		var o *hotstuff.Block
		for _, b := range w.blocks {
			if b.Hash() != qc.BlockHash() {
				o = b
			}
		}
		if o == nil {
			if qc.BlockHash() != gen.Hash() {
				o = gen
			} else {
				o = w.newBlock(gen.Hash(), w.makeQC(gen, "genuine"), 1, c03Leader(1))
				w.publish(o)
			}
		}
		parent = o.Hash()
	case "random":
		w.nonce++
		parent = sha256.Sum256([]byte(fmt.Sprintf("nowhere-%d", w.nonce)))
	}
	sender := c03Leader(view)
	if s.Sender == "wrong" {
		for d := hotstuff.ID(1); d < c03N; d++ {
			c := (sender+d-1)%c03N + 1
			if c != c03Leader(view) && c != w.self {
				sender = c
				break
			}
		}
	}
	proposer := sender
	if s.Proposer == "other" {
		proposer = sender%c03N + 1
	}
	b := w.newBlock(parent, qc, view, proposer)
	if uint64(view) < 1<<32 {
		w.publish(b) // anybody may fetch it and build on it later
	}
	msg := hotstuff.ProposeMsg{ID: sender, Block: b}
	if s.Agg != "" {
		k := 3
		aqc := qc
		if s.Agg == "subquorum" {
			k = 2
		}
		if s.Agg == "mismatch" {
			aqc = w.makeQC(gen, "genuine")
			if qc.Equals(aqc) {
				aqc = w.makeQC(w.tip(), "genuine")
			}
		}
		av := hotstuff.View(0)
		if view > 0 {
			av = view - 1
		}
		qcsl := make([]hotstuff.QuorumCert, k)
		for i := range qcsl {
			qcsl[i] = aqc
		}
		tos := testutil.CreateTimeouts(w.t, av, w.others[:k], qcsl...)
		a, err := w.others[0].CreateAggregateQC(av, tos)
		if err != nil {
			w.t.Fatal(err)
		}
		ai, _ := w.qcInfo(aqc)
		// ground truth of the aggregate part of VerifyAnyQC: a quorum signed timeouts carrying aqc,
		// aqc itself is valid (it is the only and hence highest QC), and it is the block's QC
		w.aggs[&a] = k >= 3 && ai.ok && qc.Equals(aqc)
		msg.AggregateQC = &a
	}
	return msg
}

// ---------------------------------------------------------------- observation -> model terms

type c03Prop struct {
	Sender   uint64 `json:"sender"`
	Hash     uint64 `json:"hash"`
	View     uint64 `json:"view"`
	Parent   uint64 `json:"parent"`
	QCHash   uint64 `json:"qc_hash"`
	QCView   uint64 `json:"qc_view"`
	QCOk     bool   `json:"qc_ok"`
	AggOk    bool   `json:"agg_ok"`
	HaveCert bool   `json:"have_certified_block"`
	CertView uint64 `json:"certified_view"`
	Rule     bool   `json:"rule"`
	QCKind   string `json:"qc_kind"`
}

func (w *c03World) describe(p hotstuff.ProposeMsg, inv *c03Inv) c03Prop {
	b := p.Block
	qc := b.QuorumCert()
	info, known := w.qcInfo(qc)
	if !known {
		w.notes = append(w.notes, "certificate without ground truth in proposal for view "+fmt.Sprint(b.View()))
	}
	d := c03Prop{Sender: uint64(p.ID), Hash: w.id(b.Hash()), View: uint64(b.View()), Parent: w.id(b.Parent()),
		QCHash: w.id(qc.BlockHash()), QCView: uint64(qc.View()), QCOk: info.ok, HaveCert: info.haveBlock,
		CertView: uint64(info.blockView), Rule: true, AggOk: true, QCKind: info.kind}
	if w.agg && p.AggregateQC != nil {
		ok, have := w.aggs[p.AggregateQC]
		d.AggOk = ok || !have
	}
	for _, rc := range inv.rules {
		if rc.hash == b.Hash() {
			d.Rule = rc.verdict
		}
	}
	return d
}

func (d c03Prop) cert() string { return gOpt(d.HaveCert, gN(d.CertView)) }

func (d c03Prop) term() string {
	return fmt.Sprintf("(mkP %s %s %s %s %s %s %s %s %s %s)", gN(d.Sender), gN(d.Hash), gN(d.View), gN(d.Parent),
		gN(d.QCHash), gN(d.QCView), gBool(d.QCOk), gBool(d.AggOk), d.cert(), gBool(d.Rule))
}

func (d c03Prop) ownTerm() string {
	return fmt.Sprintf("(mkO %s %s %s %s %s %s %s %s)", gN(d.Hash), gN(d.Parent), gN(d.QCHash), gN(d.QCView),
		gBool(d.QCOk), gBool(d.AggOk), d.cert(), gBool(d.Rule))
}

type c03Sig struct {
	Kind string `json:"kind"` // vote | timeout | timeoutmsg | unknown
	Hash uint64 `json:"hash,omitempty"`
	View uint64 `json:"view"`
	blk  *hotstuff.Block
}

func (w *c03World) classify(m []byte) c03Sig {
	if len(m) == 8 {
		return c03Sig{Kind: "timeout", View: binary.LittleEndian.Uint64(m)}
	}
	h := hotstuff.Hash(sha256.Sum256(m))
	if b, ok := w.known[h]; ok {
		return c03Sig{Kind: "vote", Hash: w.id(h), View: uint64(b.View()), blk: b}
	}
	if len(m) >= 12 && binary.LittleEndian.Uint32(m[:4]) == uint32(w.self) {
		// TimeoutMsg.ToBytes(): id, view, then the QC of the sync info
		return c03Sig{Kind: "timeoutmsg", View: binary.LittleEndian.Uint64(m[4:12])}
	}
	if len(m) >= 44 {
		// shaped like block bytes of a block nobody proposed
		return c03Sig{Kind: "vote", Hash: w.id(h), View: binary.LittleEndian.Uint64(m[36:44])}
	}
	return c03Sig{Kind: "unknown"}
}

func (s c03Sig) term() string {
	switch s.Kind {
	case "vote":
		return fmt.Sprintf("OVote %s %s", gN(s.Hash), gN(s.View))
	case "timeout":
		return "OTimeout " + gN(s.View)
	case "timeoutmsg":
		return "OTimeoutMsg " + gN(s.View)
	}
	return "OVote 999999%N 0%N"
}

type c03InvMeta struct {
	Event     string   `json:"event"`
	Proposal  *c03Prop `json:"proposal,omitempty"`
	Own       *c03Prop `json:"own_proposal,omitempty"`
	TView     uint64   `json:"timeout_view,omitempty"`
	SIOk      bool     `json:"sync_info_ok"`
	SIView    uint64   `json:"sync_info_view"`
	Signed    []c03Sig `json:"signed"`
	ViewAfter uint64   `json:"view_after"`
	SendFails int      `json:"vote_sends_failed,omitempty"`
}

type c03Run struct {
	Ruleset     string       `json:"ruleset"`
	Crypto      string       `json:"crypto"`
	Self        uint64       `json:"self"`
	Stimuli     []c03Stim    `json:"stimuli"`
	Invocations []c03InvMeta `json:"invocations"`
	Fingerprint string       `json:"fingerprint,omitempty"`
}

// finish turns the recorded run into a kernel case and evaluates the property's oracle.
func (w *c03World) finish(v *verifOut, st *verifStream, stimuli []c03Stim, stream string) {
	w.close()
	run := c03Run{Ruleset: w.ruleName, Crypto: w.cryptoNm, Self: uint64(w.self), Stimuli: stimuli}
	var obs []string
	type signed struct {
		s   c03Sig
		inv int
	}
	var all []signed
	firstBad := ""
	type failure struct{ fp, what string }
	var fails []failure
	fail := func(fp, what string) {
		if firstBad == "" {
			firstBad = fp
		}
		for _, f := range fails {
			if f.fp == fp {
				return // one report per class and run
			}
		}
		fails = append(fails, failure{fp, what})
	}
	for i, inv := range w.invs {
		m := c03InvMeta{SIOk: inv.si.ok, SIView: uint64(inv.si.view), ViewAfter: uint64(inv.viewAfter), TView: uint64(inv.tview), SendFails: inv.sendFailed}
		own := "None"
		var ownD *c03Prop
		if len(inv.owns) > 0 {
			d := w.describe(*inv.owns[0], inv)
			ownD = &d
			m.Own = &d
			own = "(Some " + d.ownTerm() + ")"
			if len(inv.owns) > 1 {
				w.notes = append(w.notes, "two own proposals in one handler invocation")
			}
		}
		var ev string
		var pd *c03Prop
		switch inv.kind {
		case 0:
			d := w.describe(inv.prop, inv)
			pd = &d
			m.Proposal = &d
			m.Event = "proposal"
			ev = fmt.Sprintf("EvProposal %s %s %s", d.term(), own, gBool(inv.sendFailed == 0))
		case 1:
			m.Event = "timeout-event"
			ev = fmt.Sprintf("EvTimeout %s %s %s %s %s", gN(uint64(inv.tview)), gBool(inv.si.ok), gN(uint64(inv.si.view)), own, gBool(inv.sendFailed == 0))
		case 2:
			m.Event = "new-view " + inv.si.desc
			ev = fmt.Sprintf("EvNewView %s %s %s %s", gBool(inv.si.ok), gN(uint64(inv.si.view)), own, gBool(inv.sendFailed == 0))
		}
		var ss []string
		for _, raw := range inv.signs {
			s := w.classify(raw)
			m.Signed = append(m.Signed, s)
			ss = append(ss, s.term())
			all = append(all, signed{s, i})
			// statement 1, evaluated on what was signed and on the ground truth of what was offered
			if s.Kind == "unknown" {
				fail("sign:unclassified-message", fmt.Sprintf("the replica signed %d bytes that are neither block, view nor timeout message", len(raw)))
			}
			if s.Kind != "vote" {
				continue
			}
			var d *c03Prop
			if pd != nil && pd.Hash == s.Hash {
				d = pd
			} else if ownD != nil && ownD.Hash == s.Hash {
				d = ownD
			}
			if d == nil {
				fail("vote:block-not-offered", fmt.Sprintf("vote for block %d (view %d) signed in a handler invocation that was not processing a proposal of that block", s.Hash, s.View))
				continue
			}
			where := fmt.Sprintf("replica %d (%s) voted for block %d of view %d sent by replica %d", w.self, w.ruleName, d.Hash, d.View, d.Sender)
			if hotstuff.ID(d.Sender) != c03Leader(hotstuff.View(d.View)) {
				fail("vote:not-from-leader", where+fmt.Sprintf(", but the leader of view %d is replica %d", d.View, c03Leader(hotstuff.View(d.View))))
			}
			if !d.QCOk || !d.AggOk {
				fail("vote:invalid-certificate", where+fmt.Sprintf(" whose certificate (%s) is not valid", d.QCKind))
			}
			if d.Parent != d.QCHash {
				fail("vote:parent-not-certified-block", where+fmt.Sprintf(" whose parent is block %d while its (valid) QC certifies block %d", d.Parent, d.QCHash))
			}
			if d.QCOk && (!d.HaveCert || d.View <= d.CertView) {
				fail("vote:view-not-above-certified-block", where+fmt.Sprintf(" although the block certified by its QC has view %d", d.CertView))
			}
		}
		run.Invocations = append(run.Invocations, m)
		obs = append(obs, fmt.Sprintf("(%s, %s, %s)", ev, gList(ss), gN(uint64(inv.viewAfter))))
	}
	if len(w.stray) > 0 {
		fail("sign:outside-handler", fmt.Sprintf("%d signature(s) made outside any handler invocation", len(w.stray)))
	}
	// statements 2 and 3 on the flat signature log
	nv, nt := 0, 0
	for i, a := range all {
		if a.s.Kind == "vote" {
			nv++
		} else {
			nt++
		}
		for _, b := range all[i+1:] {
			if b.s.Kind != "vote" {
				continue
			}
			if a.s.Kind == "vote" && b.s.View == a.s.View && b.s.Hash == a.s.Hash {
				fail("vote:same-view-voted-again", fmt.Sprintf("replica %d (%s) signed a vote for block %d of view %d a second time (vote views must strictly increase)", w.self, w.ruleName, a.s.Hash, a.s.View))
			} else if a.s.Kind == "vote" && b.s.View == a.s.View {
				fail("vote:two-blocks-in-one-view", fmt.Sprintf("replica %d (%s) voted for blocks %d and %d, both of view %d", w.self, w.ruleName, a.s.Hash, b.s.Hash, a.s.View))
			} else if a.s.Kind == "vote" && b.s.View < a.s.View {
				fail("vote:views-not-increasing", fmt.Sprintf("replica %d (%s) voted in view %d after having voted in view %d", w.self, w.ruleName, b.s.View, a.s.View))
			} else if a.s.Kind != "vote" && b.s.View <= a.s.View {
				fail("vote:after-timeout", fmt.Sprintf("replica %d (%s) voted in view %d after signing a timeout for view %d", w.self, w.ruleName, b.s.View, a.s.View))
			}
		}
	}
	run.Fingerprint = firstBad
	for _, f := range fails {
		r := run
		r.Fingerprint = f.fp
		// the shared helper keeps at most 200 failures: report a few per class, ruleset and stream
		k := f.fp + "/" + w.ruleName + "/" + stream
		if c03Reported[k]++; c03Reported[k] <= 3 {
			v.Oracle(false, f.fp, f.what, r)
		}
		v.Count("oracle_failures/" + f.fp)
	}
	if len(fails) == 0 {
		v.Oracle(true, "", "", nil)
	}
	term := fmt.Sprintf("(%s, %s, %s, %s)", gN(c03N), gN(uint64(w.self)), gBool(w.agg), gList(obs))
	v.Case(st, term, run)
	var key strings.Builder
	fmt.Fprintf(&key, "%s/%s/%d", w.ruleName, w.cryptoNm, w.self)
	for _, s := range stimuli {
		key.WriteString("|" + s.String())
	}
	var sample any
	if nv > 0 && nt > 0 {
		sample = map[string]any{"ruleset": w.ruleName, "self": w.self, "stimuli": key.String(), "votes": nv, "timeout_signatures": nt}
	}
	v.Seen(key.String(), nv+nt > 0, sample)
	v.CountN(stream+"/votes", nv)
	v.CountN(stream+"/timeout_signatures", nt)
	v.CountN(stream+"/handler_invocations", len(w.invs))
	v.Count(stream + "/runs/" + w.ruleName)
	for _, inv := range w.invs {
		if inv.kind == 0 {
			voted := false
			for _, raw := range inv.signs {
				if s := w.classify(raw); s.Kind == "vote" && s.Hash == w.id(inv.prop.Block.Hash()) {
					voted = true
				}
			}
			if voted {
				v.Count(stream + "/proposals_voted")
			} else {
				v.Count(stream + "/proposals_not_voted")
			}
		}
		if len(inv.owns) > 0 {
			v.Count(stream + "/own_proposals")
		}
		if inv.sendFailed > 0 {
			v.CountN(stream+"/vote_sends_failed", inv.sendFailed)
		}
	}
	for _, n := range w.notes {
		v.Note(w.ruleName + ": " + n)
	}
}

func c03RunOne(t *testing.T, v *verifOut, st *verifStream, stream, ruleName, cryptoName string, self hotstuff.ID, stimuli []c03Stim) {
	if c03Aborted {
		return
	}
	w := c03NewWorld(t, ruleName, cryptoName, self)
	for i, s := range stimuli {
		p := w.apply(s)
		if p == nil {
			continue
		}
		r := c03Run{Ruleset: ruleName, Crypto: cryptoName, Self: uint64(self), Stimuli: stimuli[:i+1]}
		if _, hung := p.(c03Hung); hung {
			// the replica's event loop is stuck for good; nothing more can be run in this process
			c03Aborted = true
			r.Fingerprint = "replica:handler-does-not-return"
			v.Oracle(false, r.Fingerprint, fmt.Sprintf("replica %d (%s) did not return from handling stimulus %d (%s) within 45s", self, ruleName, i, s), r)
			v.Note("aborted after a handler that does not return; remaining runs skipped")
			w.cur = nil
		} else {
			r.Fingerprint = "replica:panic"
			v.Oracle(false, r.Fingerprint, fmt.Sprintf("handler panicked: %v", p), r)
		}
		stimuli = stimuli[:i+1]
		break
	}
	w.finish(v, st, stimuli, stream)
}

// ---------------------------------------------------------------- generators

func c03Honest(off int) c03Stim {
	return c03Stim{Kind: "propose", ViewOff: off, Sender: "leader", QCTarget: "tip", QCKind: "genuine", Parent: "qc"}
}

func c03Prefixes(agg bool) map[string][]c03Stim {
	tc := c03Stim{Kind: "tc", K: 3}
	to := c03Stim{Kind: "timeout"}
	if agg {
		// the aggregate timeout rule does not advance on a plain QC: views move by TCs
		return map[string][]c03Stim{
			"fresh":          {},
			"voted":          {c03Honest(0)},
			"timedout":       {to},
			"left":           {tc},
			"voted-left-to":  {c03Honest(0), tc, to, tc},
			"three-rounds":   {c03Honest(0), tc, c03Honest(0), tc, c03Honest(0)},
			"leader-of-next": {c03Honest(0), tc, c03Honest(0), tc, c03Honest(0), tc},
		}
	}
	return map[string][]c03Stim{
		"fresh":          {},
		"voted":          {c03Honest(0)},
		"timedout":       {to},
		"left":           {tc},
		"voted-left-to":  {c03Honest(0), tc, to, tc},
		"three-rounds":   {c03Honest(0), c03Honest(1), c03Honest(1)},
		"leader-of-next": {c03Honest(0), c03Honest(1), c03Honest(1), {Kind: "qc", ViewOff: 0}},
	}
}

var c03Rulesets = []string{rules.NameChainedHotStuff, rules.NameSimpleHotStuff, rules.NameFastHotStuff}

func TestVerifC03(t *testing.T) {
	logging.SetLogLevel("error")
	v := verifNew("C03")
	t0 := time.Now()

	// 1. exhaustive small scope: every crafted proposal in every prepared state, all rulesets
	ex := v.Stream("exhaustive", "mismatches", 400)
	offs := []int{-1, 0, 1, 11}
	senders := []string{"leader", "wrong"}
	kinds := []string{"genuine", "subquorum", "unknown"}
	if v.Thorough() {
		offs = []int{-2, -1, 0, 1, 2, 10, 11}
		kinds = []string{"genuine", "subquorum", "forged", "unknown"}
	}
	targets := []string{"tip", "older", "above"}
	parents := []string{"qc", "other"}
	prefixNames := []string{"fresh", "voted", "timedout", "left", "voted-left-to", "three-rounds", "leader-of-next"}
	if only := os.Getenv("VERIF_C03_RULESET"); only != "" {
		c03Rulesets = []string{only} // debugging aid
	}
	for _, rn := range c03Rulesets {
		pre := c03Prefixes(rn == rules.NameFastHotStuff)
		for _, pn := range prefixNames {
			for _, off := range offs {
				for _, sd := range senders {
					for _, kd := range kinds {
						for _, tg := range targets {
							for _, pa := range parents {
								x := c03Stim{Kind: "propose", ViewOff: off, Sender: sd, QCTarget: tg, QCKind: kd, Parent: pa}
								seq := append(append([]c03Stim{}, pre[pn]...), x,
									c03Stim{Kind: "tc", K: 3}, c03Honest(0), c03Stim{Kind: "timeout"}, c03Stim{Kind: "replay"})
								c03RunOne(t, v, ex, "exhaustive", rn, crypto.NameECDSA, 1, seq)
							}
						}
					}
				}
			}
		}
	}
	tEx := time.Since(t0)
	fmt.Fprintf(os.Stderr, "C03: exhaustive stream done after %.1fs\n", tEx.Seconds())

	// 1b. the vote cannot be handed to the network (core.Sender.Vote returns an error, as the real
	// sender does while the next leader is not in its replica table): the block is signed all the
	// same, so the view must stay closed for an equivocating second block, for a retransmission
	// and for older views, in every prepared state
	sf := v.Stream("sendfail", "mismatches", 100)
	for _, rn := range c03Rulesets {
		agg := rn == rules.NameFastHotStuff
		pre := c03Prefixes(agg)
		for _, self := range []hotstuff.ID{1, 3} {
			for _, pn := range prefixNames {
				for _, tail := range c03SendFailTails(agg) {
					seq := append(append([]c03Stim{}, pre[pn]...), tail...)
					c03RunOne(t, v, sf, "sendfail", rn, crypto.NameECDSA, self, seq)
				}
			}
		}
	}
	fmt.Fprintf(os.Stderr, "C03: send-failure stream done after %.1fs\n", time.Since(t0).Seconds())

	// 2. seeded random schedules
	rnd := v.Stream("random", "mismatches", 200)
	nRandom := v.Pick(450, 9000)
	for i := 0; i < nRandom; i++ {
		rn := c03Rulesets[v.rng.Intn(len(c03Rulesets))]
		self := hotstuff.ID(1 + v.rng.Intn(c03N))
		cn := crypto.NameECDSA
		if v.rng.Intn(4) == 0 {
			cn = crypto.NameEDDSA
		}
		n := 6 + v.rng.Intn(22)
		var seq []c03Stim
		for j := 0; j < n; j++ {
			seq = append(seq, c03RandomStim(v, rn == rules.NameFastHotStuff))
		}
		c03RunOne(t, v, rnd, "random", rn, cn, self, seq)
	}

	fmt.Fprintf(os.Stderr, "C03: random stream done after %.1fs\n", time.Since(t0).Seconds())
	// 3. malformed and boundary inputs
	bd := v.Stream("boundary", "mismatches", 200)
	for _, rn := range c03Rulesets {
		for _, self := range []hotstuff.ID{1, 2, 3} {
			for _, seq := range c03Boundary(rn == rules.NameFastHotStuff) {
				c03RunOne(t, v, bd, "boundary", rn, crypto.NameECDSA, self, seq)
			}
		}
	}
	v.Note(fmt.Sprintf("exhaustive stream %.1fs, total %.1fs", tEx.Seconds(), time.Since(t0).Seconds()))
	v.Close("one run = a fresh 4-replica world, the subject wired with a recording signer, fed a sequence of crafted proposals / timeout events / new-view messages; non-trivial = the replica signed at least one vote or timeout")
}

func c03RandomStim(v *verifOut, agg bool) c03Stim {
	s := c03RandomStim0(v, agg)
	s.FailSend = s.Kind != "timeout" && v.rng.Intn(5) == 0
	return s
}

func c03RandomStim0(v *verifOut, agg bool) c03Stim {
	pick := func(xs ...string) string { return xs[v.rng.Intn(len(xs))] }
	switch r := v.rng.Intn(100); {
	case r < 30:
		off := 0
		if !agg && v.rng.Intn(2) == 0 {
			off = 1
		}
		return c03Honest(off)
	case r < 62:
		s := c03Stim{Kind: "propose", ViewOff: []int{-3, -2, -1, 0, 0, 0, 1, 1, 2, 3, 9, 10, 11, 12}[v.rng.Intn(14)],
			Sender:   pick("leader", "leader", "leader", "wrong"),
			QCTarget: pick("tip", "tip", "older", "genesis", "above"),
			QCKind:   pick("genuine", "genuine", "genuine", "subquorum", "forged", "unknown"),
			Parent:   pick("qc", "qc", "other", "random"),
			Proposer: pick("", "", "", "other")}
		if agg {
			s.Agg = pick("", "", "valid", "valid", "mismatch", "subquorum")
		} else if v.rng.Intn(10) == 0 {
			s.Agg = pick("valid", "subquorum")
		}
		return s
	case r < 70:
		return c03Stim{Kind: "replay"}
	case r < 82:
		return c03Stim{Kind: "timeout", ViewOff: []int{0, 0, 0, 0, -1, 1}[v.rng.Intn(6)]}
	case r < 94:
		return c03Stim{Kind: "tc", ViewOff: []int{0, 0, 0, -1, 1, 2}[v.rng.Intn(6)], K: []int{3, 3, 3, 3, 2}[v.rng.Intn(5)]}
	default:
		return c03Stim{Kind: "qc", ViewOff: []int{0, 0, 1, 3}[v.rng.Intn(4)], QCKind: pick("genuine", "genuine", "subquorum", "forged")}
	}
}

// c03SendFailTails: what follows a prepared state when vote sends fail.
func c03SendFailTails(agg bool) [][]c03Stim {
	fail := func(s c03Stim) c03Stim { s.FailSend = true; return s }
	tc := c03Stim{Kind: "tc", K: 3}
	to := c03Stim{Kind: "timeout"}
	rp := c03Stim{Kind: "replay"}
	f0 := fail(c03Honest(0))
	next := []c03Stim{c03Honest(1)} // how the next view is reached and proposed in
	fnext := []c03Stim{fail(c03Honest(1))}
	if agg {
		next = []c03Stim{tc, c03Honest(0)}
		fnext = []c03Stim{fail(tc), fail(c03Honest(0))}
	}
	cat := func(parts ...[]c03Stim) []c03Stim {
		var r []c03Stim
		for _, p := range parts {
			r = append(r, p...)
		}
		return r
	}
	return [][]c03Stim{
		// send fails, then the leader equivocates with a second block for the view, then retransmits
		{f0, c03Honest(0), rp},
		// send fails, the same proposal is retransmitted (twice, the second time the send works), then a second block
		{f0, fail(rp), rp, c03Honest(0)},
		// send fails, later views follow, then blocks for the old views come back
		cat([]c03Stim{f0}, next, next, []c03Stim{c03Honest(-1), c03Honest(-2), rp}),
		// every send fails over several rounds, then equivocation in the last and earlier views
		cat([]c03Stim{f0}, fnext, fnext, []c03Stim{c03Honest(0), c03Honest(-1), fail(c03Honest(0))}),
		// send fails, a TC moves on, the next round works, the old view is offered again
		{f0, tc, c03Honest(0), c03Honest(-1), fail(c03Honest(-1))},
		// send fails, then the local timer fires, then a second block and a retransmission
		{f0, to, c03Honest(0), rp, fail(c03Honest(0))},
		// sends fail while certificates move the replica through views it leads itself
		{fail(c03Stim{Kind: "qc"}), fail(tc), fail(tc), fail(tc), c03Honest(0), c03Honest(0), fail(c03Honest(-1))},
		// crafted second block with another parent / a wrong sender after the failed send
		{f0, {Kind: "propose", Sender: "leader", QCTarget: "tip", QCKind: "genuine", Parent: "other"},
			{Kind: "propose", Sender: "wrong", QCTarget: "tip", QCKind: "genuine", Parent: "qc"},
			{Kind: "propose", Sender: "leader", QCTarget: "older", QCKind: "genuine", Parent: "qc"}},
	}
}

func c03Boundary(agg bool) [][]c03Stim {
	tc := c03Stim{Kind: "tc", K: 3}
	to := c03Stim{Kind: "timeout"}
	p := func(off int) c03Stim { return c03Honest(off) }
	abs := func(view uint64, tgt string) c03Stim {
		return c03Stim{Kind: "propose", Abs: true, AbsView: view, Sender: "leader", QCTarget: tgt, QCKind: "genuine", Parent: "qc"}
	}
	bad := func(off int, tgt, par string) c03Stim {
		return c03Stim{Kind: "propose", ViewOff: off, Sender: "leader", QCTarget: tgt, QCKind: "genuine", Parent: par}
	}
	seqs := [][]c03Stim{
		// the drop / delay boundary: +10 is kept and processed once the view gets there, +11 is dropped
		{p(10), p(11), tc, tc, tc, tc, tc, tc, tc, tc, tc, tc, tc},
		{p(3), p(2), p(1), tc, tc, tc, tc},
		// extreme views
		{abs(0, "genesis"), abs(1, "genesis"), abs(1, "genesis")},
		{abs(^uint64(0), "tip"), abs(^uint64(0)-1, "tip"), abs(1<<63, "above"), p(0)},
		{abs(11, "genesis"), abs(12, "genesis"), tc, abs(12, "genesis")},
		// timer events: repeated (resend, nothing new is signed), stale, early
		{to, to, to, {Kind: "timeout", ViewOff: -1}, {Kind: "timeout", ViewOff: 1}, p(0), tc, p(-1), p(0), to, to},
		{p(0), to, {Kind: "replay"}, c03Honest(0), tc, to, p(-1), p(0)},
		// a certificate for a higher view lets the own timeout message advance the view again
		{{Kind: "qc", ViewOff: 5}, to, to, to, p(0)},
		{{Kind: "qc", ViewOff: 2}, {Kind: "qc", ViewOff: 3}, to, p(0), to, p(0)},
		// sub-quorum and forged sync infos move nothing
		{{Kind: "tc", K: 2}, {Kind: "tc", K: 1}, {Kind: "qc", QCKind: "subquorum"}, {Kind: "qc", QCKind: "forged"}, p(0)},
		{{Kind: "tc", ViewOff: 3}, {Kind: "tc", ViewOff: -1}, p(0), p(1)},
		// the defect classes, in several states
		{bad(0, "tip", "other")},
		{p(0), bad(1, "tip", "other")},
		{p(0), p(1), bad(1, "older", "other"), bad(1, "tip", "random")},
		{tc, tc, tc, bad(-1, "above", "qc")},
		{p(0), tc, tc, tc, bad(-1, "above", "qc"), bad(0, "above", "qc"), bad(0, "above", "other")},
		{tc, tc, bad(0, "above", "qc"), tc, bad(0, "above", "qc")},
		// equivocation: two, three blocks for one view; replays
		{p(0), p(0), p(0), {Kind: "replay"}, tc, p(-1), p(0), p(0)},
		// block whose proposer field is not the sender
		{{Kind: "propose", Sender: "leader", QCTarget: "tip", QCKind: "genuine", Parent: "qc", Proposer: "other"}, p(1)},
		{{Kind: "propose", Sender: "wrong", QCTarget: "tip", QCKind: "genuine", Parent: "qc", Proposer: "other"}, p(0)},
	}
	aggKinds := []string{"valid", "mismatch", "subquorum"}
	for _, a := range aggKinds {
		for _, k := range []string{"genuine", "subquorum"} {
			for _, par := range []string{"qc", "other"} {
				x := c03Stim{Kind: "propose", Sender: "leader", QCTarget: "tip", QCKind: k, Parent: par, Agg: a}
				seqs = append(seqs, []c03Stim{x}, []c03Stim{p(0), tc, x, tc, p(0)})
			}
		}
	}
	_ = agg
	return seqs
}
